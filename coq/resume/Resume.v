(* The RESUMED engine run (DESIGN.md section 6 "Recovery group", Appendix A "Resumed runs"): the observable
   automaton of coq/engine started from the crash repair [fix I] of a durable image I instead of a fresh plan.
   Model file: no proofs.

   What is new with respect to coq/engine (which is frozen and reused: the handlers of Auto.v, the sub-automata
   Action / ChecksRun / Seq, the block and plan epsilon-moves):

     mem        the IN-MEMORY image next to the durable one.  It starts as the repaired image (Fix.fix_plan of
                coq/recover applied to I) and follows every write a handler accepts.  It is what the engine's guards
                and finalStates read: a recovered action whose durable value is (Running, 1, ok) is Completed in
                memory and is WRITTEN Completed without being run.
     flush      a write that no handler takes and that is not a stutter (equal to the durable value) is accepted if
                it equals the in-memory value of its object; it only updates the durable image.  A NotStarted value
                over a started object is flushed only after the terminal plan write (End's writeEverything).
     RRecover   fixBlock executes the sequences it finds Running after repairing them, before Recovery's switch:
                exactly those sequences run (no launch guard), block after block; when they are all terminal the
                repair is FINISHED with their outcomes (block and plan status), and the entry point is taken.
     entry      plan not Running in I: it is not resumed, nothing may happen (RIdle).  Otherwise from the repaired
                plan status: NotStarted -> Start, Completed/Failed/Stopped -> End, Running -> PlanBypassChecks.
     need       whether a check group still runs in its phase is decided from mem when its scope is entered:
                  plan bypass, pre, initial continuous run: always (repeated on every recovery);
                  plan post / deferred: unless Completed or Failed (isCompleted);
                  block bypass: unless Failed;  block pre and the initial continuous run: unless pre Completed and
                  (no continuous group or it is Completed too);
                  block post / deferred: unless Completed (checksCompleted).
                A group that does not run any more is given one closed pseudo-run with the verdict mem shows, so
                that the engine's own epsilon-moves (once_done) pass over it unchanged.
     blocks     ExecuteBlock pops the blocks that are Completed/Failed/Stopped in mem; ExecuteSequences skips the
                sequences that are Completed/Failed in mem (Failed ones count as failures).
     End        the terminal plan write is finalStates of the IN-MEMORY statuses; Wait returns after
                writeEverything: the released plan equals mem on every object.

   Known, unfixed defects of the repair (R2, R3, R5, R6) are in the transcription Fix.v as they are in the code; what
   they leave behind is seen by the release guard [quiet], selected by the deviation flags. *)
From Coercion.Base Require Import Plan.
From Coercion.Engine Require Import Shape Event Action ChecksRun Seq Block Final PlanSM Auto Accept.
From Coercion.Recover Require Fix FixSpec.
Module F := Coercion.Recover.Fix.
Module FS := Coercion.Recover.FixSpec.

(* ------------------------------------------------------------------ durable image <-> the image type of Fix.v *)
Definition dimg_of_image (im : image) : dimg :=
  map (fun oc => (fst oc, ocell_cell (snd oc))) (im_cells im).

(* n attempts, all complete (an attempt is only stored with its End set); every attempt but the last one failed
   (it was retried), the last one failed iff not ok *)
Definition atts_of (n : nat) (ok : bool) : list F.att :=
  match n with
  | 0 => []
  | S m => repeat (F.Build_att true false) m ++ [F.Build_att (negb ok) false]
  end.

(* zero-ness of State.Start / State.End is not read by the control flow; any value will do *)
Definition zs (st : status) : bool := status_eqb st NotStarted.
Definition ze (st : status) : bool := negb (is_terminal st).

Definition sum (l : list nat) : nat := fold_right Nat.add 0 l.
Definition seq_lens (bs : bshape) : list nat := map (@length nat) (bs_seqs bs).
Definition block_base (sh : shape) (b : nat) : nat :=
  sum (map (fun bs => sum (seq_lens bs)) (firstn b (sh_blocks sh))).
Definition seq_base (sh : shape) (b q : nat) : nat :=
  block_base sh b + match block_of sh b with Some bs => sum (firstn q (seq_lens bs)) | None => 0 end.
(* identity of sequence action (b,q,i): its 1-based position among the sequence actions in walk order; check
   actions get 0 (Fix.v never reads ac_id; the execution oracle below does) *)
Definition aid (sh : shape) (b q i : nat) : nat := S (seq_base sh b q + i).

Definition act_of (im : dimg) (id : nat) (a : aref) : F.act :=
  let c := iget im (OAct a) in
  F.Build_act id (c_st c) (zs (c_st c)) (ze (c_st c)) (atts_of (c_n c) (c_ok c)).

Definition indexed {A} (l : list A) : list (nat * A) := combine (seq 0 (length l)) l.

Definition chk_of (im : dimg) (sc : scope) (g : grp) (rs : list nat) : F.chk :=
  let t := ist im (OChecks sc g) in
  F.Build_chk t (zs t) (ze t) (map (fun i => act_of im 0 (AChk sc g i)) (seq 0 (length rs))).

Definition ochk_of (im : dimg) (sc : scope) (gs : groups) (g : grp) : option F.chk :=
  option_map (chk_of im sc g) (grp_get gs g).

Definition seq_of_img (sh : shape) (im : dimg) (b q : nat) (rs : list nat) : F.seq :=
  let t := ist im (OSeq b q) in
  F.Build_seq t (zs t) (ze t) (map (fun i => act_of im (aid sh b q i) (ASeq b q i)) (seq 0 (length rs))).

Definition blk_of (sh : shape) (im : dimg) (b : nat) (bs : bshape) : F.blk :=
  let t := ist im (OBlock b) in
  let gs := bs_groups bs in
  F.Build_blk t (zs t) (ze t)
    (ochk_of im (SBlock b) gs GBypass) (ochk_of im (SBlock b) gs GPre) (ochk_of im (SBlock b) gs GCont)
    (ochk_of im (SBlock b) gs GPost) (ochk_of im (SBlock b) gs GDeferred)
    (map (fun qr => seq_of_img sh im b (fst qr) (snd qr)) (indexed (bs_seqs bs))).

Definition pln_of (sh : shape) (im : dimg) : F.pln :=
  let t := ist im OPlan in
  let gs := sh_groups sh in
  F.Build_pln t (zs t) (ze t)
    (ochk_of im SPlan gs GBypass) (ochk_of im SPlan gs GPre) (ochk_of im SPlan gs GCont)
    (ochk_of im SPlan gs GPost) (ochk_of im SPlan gs GDeferred)
    (map (fun bb => blk_of sh im (fst bb) (snd bb)) (indexed (sh_blocks sh))).

(* ... and back: the cell of an object in an image of Fix.v *)
Definition st_cell (t : status) : cell := {| c_st := t; c_n := 0; c_ok := false |}.
Definition act_cell (a : F.act) : cell :=
  {| c_st := F.ac_st a; c_n := length (F.ac_atts a);
     c_ok := match rev (F.ac_atts a) with x :: _ => negb (F.x_err x) | [] => false end |}.
Definition ochk_cell (c : option F.chk) : cell :=
  match c with Some k => st_cell (F.ck_st k) | None => cell0 end.
Definition ochk_act_cell (c : option F.chk) (i : nat) : cell :=
  match c with
  | Some k => match nth_error (F.ck_acts k) i with Some a => act_cell a | None => cell0 end
  | None => cell0
  end.

Definition pl_cell (p : F.pln) (o : obj) : cell :=
  match o with
  | OPlan => st_cell (F.pl_st p)
  | OChecks SPlan g => ochk_cell (FS.pl_grp g p)
  | OChecks (SBlock b) g => ochk_cell (FS.get_bgrp p b g)
  | OBlock b => match FS.get_blk p b with Some k => st_cell (F.bk_st k) | None => cell0 end
  | OSeq b q => match FS.get_seq p b q with Some s => st_cell (F.sq_st s) | None => cell0 end
  | OAct (AChk SPlan g i) => ochk_act_cell (FS.pl_grp g p) i
  | OAct (AChk (SBlock b) g i) => ochk_act_cell (FS.get_bgrp p b g) i
  | OAct (ASeq b q i) => match FS.get_act p b q i with Some a => act_cell a | None => cell0 end
  end.

(* ------------------------------------------------------------------ the execution oracle of fixBlock
   Fix.fix_plan is parametrised by [run_seq], the execution of the sequences fixBlock resumes.  Here it is
   Fix.exec_seq (the transcription of execSeq) over an action run that fails exactly the actions listed in [fl]
   and completes every other one; fl is filled in from what the trace shows (RRecover). *)
Definition run_act_of (fl : list nat) (a : F.act) : F.act :=
  if existsb (Nat.eqb (F.ac_id a)) fl
  then F.Build_act (F.ac_id a) Failed false false (F.ac_atts a ++ [F.Build_att true false])
  else F.Build_act (F.ac_id a) Completed false false (F.ac_atts a ++ [F.Build_att false false]).

Definition oracle (fl : list nat) : F.seq -> F.seq := F.exec_seq (run_act_of fl).

Definition fixed (fl : list nat) (p : F.pln) : F.fixp := F.fix_plan (oracle fl) p.

(* the sequences fixBlock executes, grouped by block, in loop order *)
Fixpoint group_by_block (l : list (nat * nat)) : list (nat * list nat) :=
  match l with
  | [] => []
  | (b, q) :: l' =>
      match group_by_block l' with
      | (b', qs) :: r => if Nat.eqb b b' then (b, q :: qs) :: r else (b, [q]) :: (b', qs) :: r
      | [] => [(b, [q])]
      end
  end.

(* a resumed sequence as fixSeq leaves it (still Running: its actions are Completed or NotStarted) *)
Definition resumed_seq (p : F.pln) (b q : nat) : option F.seq := option_map F.fix_seq (FS.get_seq p b q).

(* number of leading Completed actions: where execSeq's loop makes its first plugin call *)
Fixpoint lead_completed (l : list F.act) : nat :=
  match l with
  | a :: l' => if status_eqb (F.ac_st a) Completed then S (lead_completed l') else 0
  | [] => 0
  end.
Definition first_open (p : F.pln) (b q : nat) : nat :=
  match resumed_seq p b q with Some s => lead_completed (F.sq_acts s) | None => 0 end.

(* the actions of a resumed sequence are a Completed prefix followed by NotStarted actions only *)
Definition seq_resumable (s : F.seq) : bool :=
  forallb (fun a => status_eqb (F.ac_st a) NotStarted) (skipn (lead_completed (F.sq_acts s)) (F.sq_acts s))
  && (lead_completed (F.sq_acts s) <? length (F.sq_acts s)).

(* ------------------------------------------------------------------ the in-memory image
   A base (the repaired image, as a function of the object) and an overlay of the values written since. *)
Fixpoint ifind (im : dimg) (o : obj) : option cell :=
  match im with
  | [] => None
  | (o', c) :: im' => if obj_eqb o' o then Some c else ifind im' o
  end.
Definition memory := obj -> cell.
Definition over (ov : dimg) (base : memory) : memory :=
  fun o => match ifind ov o with Some c => c | None => base o end.

Definition seq_objs_of (b q : nat) (s : F.seq) : list (obj * cell) :=
  (OSeq b q, st_cell (F.sq_st s))
  :: map (fun ia => (OAct (ASeq b q (fst ia)), act_cell (snd ia))) (indexed (F.sq_acts s)).

(* memory right after the repair, while fixBlock is about to run the resumed sequences: everything as fix_plan
   leaves it (plan and block statuses are provisional until the resumed sequences are over), the resumed
   sequences as fixSeq left them *)
Definition base0 (p : F.pln) : memory := pl_cell (F.fp_pln (fixed [] p)).
Definition mem0 (p : F.pln) : dimg :=
  flat_map (fun bq => match resumed_seq p (fst bq) (snd bq) with
                      | Some s => seq_objs_of (fst bq) (snd bq) s | None => [] end) (F.fp_resumed (fixed [] p)).

(* the repair is finished: plan and block statuses as fixBlock / fixPlan compute them from the outcomes *)
Definition finish_mem (sh : shape) (p : F.pln) (fl : list nat) (m : dimg) : dimg :=
  let p' := F.fp_pln (fixed fl p) in
  (OPlan, pl_cell p' OPlan)
  :: map (fun b => (OBlock b, pl_cell p' (OBlock b))) (seq 0 (length (sh_blocks sh))) ++ m.

(* ------------------------------------------------------------------ deviation flags (DESIGN.md section 4)
   What the code's repair leaves Running at the end of a recovery from the crash image I, by CAUSE (the call site
   and condition in recovery.go that abandons the object).  dev_none is the property-satisfying behaviour: nothing
   is Running when Wait returns.
     R2  an action of a check group: an interrupted check-group run is not repaired (groups are never durably
         Running, so fixChecks never fires) and the group is not necessarily run again;
     R3  a block that was Running with its pre, continuous or post group durably Failed, its sequences and their
         actions: fixBlock returns before it repairs the sequences;
     R5  a sequence or sequence action inside a block that is already finished in I (reachable by a second crash
         only: the repair of a sequence is not written before its block's terminal write): fixBlock does not look
         into a block that is not Running;
     R6  a block, its sequences and their actions while the PLAN's continuous group is durably Failed: fixPlan
         marks the plan Failed, Recovery goes to End and the block that was executing is abandoned. *)
Record devs := { dev_R2 : bool; dev_R3 : bool; dev_R5 : bool; dev_R6 : bool }.
Definition dev_none : devs := {| dev_R2 := false; dev_R3 := false; dev_R5 := false; dev_R6 := false |}.
Definition dev_all : devs := {| dev_R2 := true; dev_R3 := true; dev_R5 := true; dev_R6 := true |}.

Definition is_check_action (o : obj) : bool := match o with OAct (AChk _ _ _) => true | _ => false end.
Definition is_block (o : obj) : bool := match o with OBlock _ => true | _ => false end.

Definition grp_present (sh : shape) (sc : scope) (g : grp) : bool :=
  match group_of sh sc g with Some _ => true | None => false end.
Definition group_failed (sh : shape) (I : dimg) (sc : scope) (g : grp) : bool :=
  grp_present sh sc g && status_eqb (ist I (OChecks sc g)) Failed.

(* the block of a sequence-level object *)
Definition block_of_obj (o : obj) : option nat :=
  match o with
  | OBlock b | OSeq b _ | OAct (ASeq b _ _) => Some b
  | _ => None
  end.

(* object o may be left Running by a recovery from crash image I under the flags d *)
Definition excused (d : devs) (sh : shape) (I : dimg) (o : obj) : bool :=
  if is_check_action o then dev_R2 d else
  match block_of_obj o with
  | Some b =>
      (dev_R3 d && status_eqb (ist I (OBlock b)) Running
       && (group_failed sh I (SBlock b) GPre || group_failed sh I (SBlock b) GCont || group_failed sh I (SBlock b) GPost))
      || (dev_R5 d && is_terminal (ist I (OBlock b)) && negb (is_block o))
      || (dev_R6 d && group_failed sh I SPlan GCont)
  | None => false
  end.

Definition mst (m : obj -> cell) (o : obj) : status := c_st (m o).

(* nothing is left Running in memory, except what the flags excuse *)
Definition quiet (d : devs) (sh : shape) (I : dimg) (m : obj -> cell) : bool :=
  forallb (fun o => negb (status_eqb (mst m o) Running) || excused d sh I o) (all_objs sh).

(* ------------------------------------------------------------------ state *)
Inductive rphase :=
| RIdle                                   (* not resumed *)
| RRecover (todo : list (nat * list nat)) (* fixBlock runs the resumed sequences of the head block *)
| RRun.                                   (* the state chain *)

Record rst := {
  r_s : st;                (* the engine automaton's state (durable image, phases, sub-automata) *)
  r_base : obj -> cell;    (* the in-memory image: the repaired image ... *)
  r_mem : dimg;            (* ... overlaid with what was written since *)
  r_ph : rphase;
  r_I : dimg;              (* the crash image (constant) *)
  r_pl : F.pln;            (* ... as Fix.v sees it *)
  r_fails : list nat }.    (* the actions that failed in the sequences fixBlock executed *)

Definition mget (r : rst) : memory := over (r_mem r) (r_base r).

Definition finished_mem (sh : shape) (r : rst) : memory :=
  over (finish_mem sh (r_pl r) (r_fails r) (r_mem r)) (r_base r).

Definition with_s (r : rst) (s : st) : rst :=
  {| r_s := s; r_base := r_base r; r_mem := r_mem r; r_ph := r_ph r; r_I := r_I r; r_pl := r_pl r; r_fails := r_fails r |}.
Definition with_mem (r : rst) (m : dimg) : rst :=
  {| r_s := r_s r; r_base := r_base r; r_mem := m; r_ph := r_ph r; r_I := r_I r; r_pl := r_pl r; r_fails := r_fails r |}.

(* ------------------------------------------------------------------ need: initial group states from mem *)
Definition skipped (v : bool) : gst := GIdle 1 (Some v).      (* one closed pseudo-run with verdict v *)

Definition plan_gtab (sh : shape) (m : memory) : gtab :=
  let done g := is_terminal (mst m (OChecks SPlan g)) in
  let ok g := status_eqb (mst m (OChecks SPlan g)) Completed in
  {| t_bypass := g0; t_pre := g0; t_cont := g0;
     t_post := if done GPost then skipped (ok GPost) else g0;
     t_deferred := if done GDeferred then skipped (ok GDeferred) else g0 |}.

Definition block_gtab (bs : bshape) (m : memory) (b : nat) : gtab :=
  let stt g := mst m (OChecks (SBlock b) g) in
  (* BlockPreChecks (after fix 0c944e8): skipped only if the pre group is Completed AND the initial run of the
     continuous group (if there is one) has Completed too; otherwise BOTH groups run again *)
  let pre_done := present (g_pre (bs_groups bs)) && status_eqb (stt GPre) Completed
                  && (negb (present (g_cont (bs_groups bs))) || status_eqb (stt GCont) Completed) in
  {| t_bypass := if status_eqb (stt GBypass) Failed then skipped false else g0;
     t_pre := if pre_done then skipped true else g0;
     t_cont := if pre_done then skipped true else g0;
     t_post := if status_eqb (stt GPost) Completed then skipped true else g0;
     t_deferred := if status_eqb (stt GDeferred) Completed then skipped true else g0 |}.

Definition seq_init (m : memory) (b q : nat) : sst :=
  match mst m (OSeq b q) with
  | Completed => SDone true
  | Failed => SDone false
  | _ => SIdle
  end.

Definition rb_init (bs : bshape) (m : memory) (b : nat) : bst :=
  {| b_ph := BEnter; b_g := block_gtab bs m b; b_thr := TNone; b_cause := false;
     b_seqs := map (seq_init m b) (seq 0 (length (bs_seqs bs))) |}.

(* ExecuteBlock: pop the blocks that are finished in memory, enter the first one that is not
   (bl = the blocks from index cb on) *)
Fixpoint r_enter_list (m : memory) (s : st) (bl : list bshape) (cb : nat) : st :=
  match bl with
  | [] => with_block s cb b_none
  | bs :: bl' =>
      if is_terminal (mst m (OBlock cb)) then r_enter_list m s bl' (S cb)
      else with_block s cb (rb_init bs m cb)
  end.
Definition r_enter (sh : shape) (m : memory) (s : st) (cb : nat) : st :=
  r_enter_list m s (skipn cb (sh_blocks sh)) cb.

(* ------------------------------------------------------------------ epsilon-moves *)
(* the engine's plan/block phase moves; when they enter a new block, it is initialised from mem instead *)
Definition entered (s s' : st) : bool :=
  pphase_eqb (s_ph s') PBlocks && (negb (pphase_eqb (s_ph s) PBlocks) || negb (Nat.eqb (s_cb s) (s_cb s'))).

Definition rp_eps (sh : shape) (m : memory) (s : st) : option st :=
  match p_eps sh s with
  | Some s' => Some (if entered s s' then r_enter sh m s' (s_cb s') else s')
  | None => None
  end.

(* block state while fixBlock executes the resumed sequences qs of block b: nothing else of the block may move *)
Definition rec_block (sh : shape) (b : nat) (qs : list nat) : bst :=
  {| b_ph := BEnter; b_g := gtab0; b_thr := TNone; b_cause := false;
     b_seqs := map (fun q => if existsb (Nat.eqb q) qs then SIdle else SDone true)
                   (seq 0 (match block_of sh b with Some bs => length (bs_seqs bs) | None => 0 end)) |}.

Definition plan_phase_of (t : status) : pphase :=
  match t with
  | NotStarted => PStart
  | Running => PBypass
  | Completed | Failed | Stopped => PEnd
  end.

(* Recovery's switch, after the repair is finished *)
Definition take_entry (sh : shape) (r : rst) : rst :=
  let m := finished_mem sh r in
  let s := r_s r in
  let s1 := {| s_img := s_img s; s_reason := s_reason s; s_ph := plan_phase_of (mst m OPlan);
               s_g := plan_gtab sh m; s_thr := TNone; s_cb := 0; s_b := b_none;
               s_late := s_late s; s_fin := None |} in
  {| r_s := s1; r_base := r_base r; r_mem := finish_mem sh (r_pl r) (r_fails r) (r_mem r); r_ph := RRun; r_I := r_I r; r_pl := r_pl r; r_fails := r_fails r |}.

Definition start_recover (sh : shape) (r : rst) (todo : list (nat * list nat)) : rst :=
  match todo with
  | [] => take_entry sh r
  | (b, qs) :: _ =>
      let s := r_s r in
      let s1 := {| s_img := s_img s; s_reason := s_reason s; s_ph := PBlocks; s_g := gtab0; s_thr := TNone;
                   s_cb := b; s_b := rec_block sh b qs; s_late := s_late s; s_fin := None |} in
      {| r_s := s1; r_base := r_base r; r_mem := r_mem r; r_ph := RRecover todo; r_I := r_I r; r_pl := r_pl r; r_fails := r_fails r |}
  end.

(* the failing action reported to the oracle for a resumed sequence that ended Failed: the first one it ran *)
Definition failed_ids (sh : shape) (p : F.pln) (b : nat) (qs : list nat) (seqs : list sst) : list nat :=
  flat_map (fun q => match nth_error seqs q with
                     | Some (SDone false) => [aid sh b q (first_open p b q)]
                     | _ => [] end) qs.

Definition reps (sh : shape) (r : rst) : option rst :=
  match r_ph r with
  | RIdle => None
  | RRecover [] => None
  | RRecover ((b, qs) :: todo) =>
      (* g.Wait: every resumed sequence of this block is terminal; the next block, or the entry point *)
      if forallb s_done (b_seqs (s_b (r_s r)))
      then let r1 := {| r_s := r_s r; r_base := r_base r; r_mem := r_mem r; r_ph := r_ph r; r_I := r_I r; r_pl := r_pl r;
                        r_fails := failed_ids sh (r_pl r) b qs (b_seqs (s_b (r_s r))) ++ r_fails r |} in
           Some (start_recover sh r1 todo)
      else None
  | RRun => option_map (with_s r) (rp_eps sh (mget r) (r_s r))
  end.

(* ------------------------------------------------------------------ handlers *)
(* W (OSeq b q) Running while fixBlock runs the resumed sequences: execSeq of a resumed sequence; its loop passes
   over the Completed actions (each is written once more: a flush or a stutter) *)
Definition r_launch (r : rst) (b q : nat) : option rst :=
  match r_ph r with
  | RRecover ((b', qs) :: _) =>
      if Nat.eqb b b' && existsb (Nat.eqb q) qs then
        match b_seq_upd (s_b (r_s r)) q (fun x => match x with SIdle => Some (SRun (first_open (r_pl r) b q) AIdle) | _ => None end) with
        | Some b1 => Some (with_s r (with_b (r_s r) b1))
        | None => None
        end
      else None
  | _ => None
  end.

(* the terminal plan write: finalStates of the in-memory statuses *)
Definition r_plan_final (sh : shape) (r : rst) (stt : status) (rs : reason) : option rst :=
  let s := r_s r in
  let f := final sh (mst (mget r)) in
  if pphase_eqb (s_ph s) PEnd && is_terminal stt && negb (is_terminal (ist (s_img s) OPlan))
     && status_eqb stt (fst f) && reason_eqb rs (snd f)
  then Some (with_s r (with_reason s rs)) else None.

Definition wcell (stt : status) (n : nat) (lastok : bool) : cell := {| c_st := stt; c_n := n; c_ok := lastok |}.

(* a handled write becomes the durable AND the in-memory value of its object *)
Definition commit (r : rst) (o : obj) (stt : status) (n : nat) (lastok : bool) : rst :=
  {| r_s := put (r_s r) o stt n lastok; r_base := r_base r; r_mem := iset (r_mem r) o (wcell stt n lastok);
     r_ph := r_ph r; r_I := r_I r; r_pl := r_pl r; r_fails := r_fails r |}.

Definition in_plan_end (r : rst) : bool := pphase_eqb (s_ph (r_s r)) PEnd.

Definition r_write (sh : shape) (r : rst) (o : obj) (stt : status) (n : nat) (lastok : bool) (rs : reason) : option rst :=
  if released (r_s r) || negb (obj_in_shape sh o) then None else
  match o, stt, n, lastok with
  | OSeq b q, Running, 0, false =>
      match r_launch r b q with
      | Some r1 => Some (commit r1 o stt n lastok)
      | None => option_map (fun s' => with_mem (with_s r s') (iset (r_mem r) o (wcell stt n lastok)))
                           (h_write sh (r_s r) o stt n lastok rs)
      end
  | OPlan, _, 0, false =>
      if in_plan_end r
      then option_map (fun r1 => commit r1 o stt n lastok) (r_plan_final sh r stt rs)
      else option_map (fun s' => with_mem (with_s r s') (iset (r_mem r) o (wcell stt n lastok)))
                      (h_write sh (r_s r) o stt n lastok rs)
  | _, _, _, _ =>
      option_map (fun s' => with_mem (with_s r s') (iset (r_mem r) o (wcell stt n lastok)))
                 (h_write sh (r_s r) o stt n lastok rs)
  end.

Definition all_flushed (sh : shape) (r : rst) : bool :=
  forallb (fun o => cell_eqb (iget (s_img (r_s r)) o) (mget r o)) (all_objs sh).

(* Wait returns: End has written everything, nothing (the flags excepted) is Running *)
Definition r_release (d : devs) (sh : shape) (r : rst) (fin : image) : option rst :=
  match r_ph r with
  | RIdle =>
      (* not resumed: Wait returns the stored plan as it is *)
      if negb (released (r_s r)) && image_agrees (all_objs sh) (s_img (r_s r)) (s_reason (r_s r)) fin
      then Some (with_s r (with_fin (with_ph (r_s r) PReleased) (Some fin))) else None
  | RRun =>
      if all_flushed sh r && quiet d sh (r_I r) (mget r)
      then option_map (with_s r) (h_release sh (r_s r) fin) else None
  | RRecover _ => None
  end.

Definition rhandle (d : devs) (sh : shape) (r : rst) (e : event) : option rst :=
  match r_ph r, e with
  | RIdle, EvRelease fin => r_release d sh r fin
  | RIdle, EvRead snap => option_map (with_s r) (h_read sh (r_s r) snap)
  | RIdle, _ => None
  | _, EvWrite o stt n lastok rs => r_write sh r o stt n lastok rs
  | _, EvRelease fin => r_release d sh r fin
  | _, _ => option_map (with_s r) (handle sh (r_s r) e)
  end.

Fixpoint rhandle_eps (d : devs) (sh : shape) (fuel : nat) (r : rst) (e : event) : option rst :=
  match rhandle d sh r e with
  | Some r' => Some r'
  | None =>
      match fuel with
      | 0 => None
      | S f => match reps sh r with Some r1 => rhandle_eps d sh f r1 e | None => None end
      end
  end.

Definition r_fuel (sh : shape) : nat := eps_fuel + 2 * length (sh_blocks sh) + 2.

(* a write equal to the in-memory value of its object (never the plan: its writes are all handled or stutters) *)
Definition flush (sh : shape) (r : rst) (e : event) : option rst :=
  match r_ph r, e with
  | RIdle, _ => None
  | _, EvWrite OPlan _ _ _ _ => None
  | _, EvWrite o stt n lastok _ =>
      (* a NotStarted value goes over a started object only in End's writeEverything, i.e. after the terminal plan
         write: everywhere else the engine sets an object Running before it writes it *)
      if negb (released (r_s r)) && obj_in_shape sh o && cell_eqb (mget r o) (wcell stt n lastok)
         && (negb (status_eqb stt NotStarted) || status_eqb (ist (s_img (r_s r)) o) NotStarted
             || is_terminal (ist (s_img (r_s r)) OPlan))
      then Some (with_s r (put (r_s r) o stt n lastok)) else None
  | _, _ => None
  end.

Definition rstutter (sh : shape) (r : rst) (e : event) : bool :=
  match r_ph r with RIdle => false | _ => stutter sh (r_s r) e end.

(* handler (after the epsilon-moves that make the event acceptable), else stutter, else flush *)
Definition rstep (d : devs) (sh : shape) (r : rst) (e : event) : option rst :=
  match rhandle_eps d sh (r_fuel sh) r e with
  | Some r' => Some r'
  | None => if rstutter sh r e then Some r else flush sh r e
  end.

Fixpoint rrun (d : devs) (sh : shape) (r : rst) (tr : list event) : option rst :=
  match tr with
  | [] => Some r
  | e :: tr' => match rstep d sh r e with Some r' => rrun d sh r' tr' | None => None end
  end.

(* ------------------------------------------------------------------ initial state *)
(* the repaired image is one the resumed run can start from: every sequence fixBlock resumes has a Completed
   prefix followed by NotStarted actions only (true of everything fix_seq leaves Running when the image is a
   crash image: FixProofs.fix_seq_resumable gives Completed-or-NotStarted, the order comes from execSeq) *)
Definition resumable_ok (p : F.pln) : bool :=
  forallb (fun bq => match resumed_seq p (fst bq) (snd bq) with
                     | Some s => seq_resumable s | None => false end) (F.fp_resumed (fixed [] p)).

Definition rinit (sh : shape) (im : dimg) (rs : reason) : option rst :=
  let p := pln_of sh im in
  let s0 := {| s_img := im; s_reason := rs; s_ph := PStart; s_g := gtab0; s_thr := TNone; s_cb := 0; s_b := b_none;
               s_late := []; s_fin := None |} in
  if negb (status_eqb (ist im OPlan) Running)
  then Some {| r_s := s0; r_base := iget im; r_mem := []; r_ph := RIdle; r_I := im; r_pl := p; r_fails := [] |}
  else if negb (resumable_ok p) then None
  else let r0 := {| r_s := s0; r_base := base0 p; r_mem := mem0 p; r_ph := RRun; r_I := im; r_pl := p; r_fails := [] |} in
       Some (start_recover sh r0 (group_by_block (F.fp_resumed (fixed [] p)))).

(* the state chain entered at Start on a plan as Submit left it (everything NotStarted, nothing to repair): the
   resumed automaton then is coq/engine's automaton (checked on every real uninterrupted run: ResumeCheck.check_run) *)
Definition rfresh (sh : shape) : rst :=
  {| r_s := init; r_base := fun _ => cell0; r_mem := []; r_ph := RRun; r_I := []; r_pl := pln_of sh []; r_fails := [] |}.

Definition rreleased (r : rst) : bool := released (r_s r).

(* the resumed automaton accepts tr from the crash image, and the trace ends released *)
Definition raccepts (d : devs) (sh : shape) (I : image) (tr : list event) : bool :=
  shape_wf sh &&
  match rinit sh (dimg_of_image I) (im_reason I) with
  | Some r0 => match rrun d sh r0 tr with Some r => rreleased r | None => false end
  | None => false
  end.

(* ------------------------------------------------------------------ crash images *)
Definition write_of (e : event) : option (obj * cell * reason) :=
  match e with EvWrite o stt n lastok r => Some (o, wcell stt n lastok, r) | _ => None end.

Fixpoint writes_of (tr : list event) : list (obj * cell * reason) :=
  match tr with
  | [] => []
  | e :: tr' => match write_of e with Some w => w :: writes_of tr' | None => writes_of tr' end
  end.

Definition apply_write (ir : dimg * reason) (w : obj * cell * reason) : dimg * reason :=
  let '(o, c, r) := w in
  (iset (fst ir) o c, match o with OPlan => r | _ => snd ir end).

(* the durable image (and plan reason) after the first k writes of a trace that starts from (im0, r0) *)
Definition crash_from (im0 : dimg) (r0 : reason) (tr : list event) (k : nat) : dimg * reason :=
  fold_left apply_write (firstn k (writes_of tr)) (im0, r0).

(* ... of an uninterrupted run: it starts from the plan as Submit left it (everything NotStarted) *)
Definition crash_image (sh : shape) (tr : list event) (k : nat) : dimg * reason :=
  crash_from [] FRUnknown tr k.
