(* C10 - Recovery converges to the same consistent terminal outcome.

   Model: Coercion.Resume.Resume (see props/C09.v).  Monitor: MonRecover.mon_converges.
   Tie to the code: harness/cmd/recover + ResumeCheck.check_rcase, on every run of ./check C10. *)
From Coercion.Base Require Import Plan.
From Coercion.Engine Require Import Shape Event.
From Coercion.Resume Require Import Resume MonRecover ResumeLemmas ReleaseProofs.

(* Release side of convergence, for the model without deviation flags (dev_none = the property-satisfying
   behaviour): whenever the resumed run of a plan that was durably Running reaches EvRelease, the plan Wait returns
   is terminal and NOTHING in it is Running - every object of the shape, for every crash image and every accepted
   trace.  (That the code reaches this only with the flags R2..R5 on some images is what the correspondence
   reports as KNOWN-FINDING / VIOLATION; see the refutation witnesses below.) *)
Theorem c10_released_plan_is_quiescent :
  forall (sh : shape) (I : image) (tr : list event) (fin : image) (r0 r : rst),
    rinit sh (dimg_of_image I) (im_reason I) = Some r0 ->
    cst I OPlan = Running ->
    rrun dev_none sh r0 (tr ++ [EvRelease fin]) = Some r ->
    is_terminal (cst fin OPlan) = true /\ forall o, In o (all_objs sh) -> cst fin o <> Running.
Proof. exact resumed_release_quiescent. Qed.
Print Assumptions c10_released_plan_is_quiescent.
