(* C10 - Recovery converges to the same consistent terminal outcome.

   Model: Coercion.Resume.Resume (see props/C09.v).  Monitor: MonRecover.mon_converges.
   Tie to the code: harness/cmd/recover + ResumeCheck.check_rcase, on every run of ./check C10. *)
From Coercion.Base Require Import Plan.
From Coercion.Engine Require Import Shape Event.
From Coercion.Resume Require Import Resume MonRecover ResumeLemmas ReleaseProofs.

(* Release side of convergence, for the model without deviation flags (dev_none = the property-satisfying
   behaviour): whenever the resumed run of a plan that was durably Running reaches EvRelease, the plan Wait returns
   is terminal and NOTHING in it is Running - every object of the shape, for every crash image and every accepted
   trace.  (That the code reaches this only with the flags R2..R5 on some images is what the correspondence
   reports as KNOWN-FINDING / VIOLATION; see the refutation witnesses below.) *)
Theorem c10_released_plan_is_quiescent :
  forall (sh : shape) (I : image) (tr : list event) (fin : image) (r0 r : rst),
    rinit sh (dimg_of_image I) (im_reason I) = Some r0 ->
    cst I OPlan = Running ->
    rrun dev_none sh r0 (tr ++ [EvRelease fin]) = Some r ->
    is_terminal (cst fin OPlan) = true /\ forall o, In o (all_objs sh) -> cst fin o <> Running.
Proof. exact resumed_release_quiescent. Qed.
Print Assumptions c10_released_plan_is_quiescent.

(* c10_recovery_converges_partial: the same in the monitor's own terms - the clauses "the released plan is
   Completed / Failed (/ Stopped)" and "no object of the shape is left Running" of MonRecover.mon_converges hold of every
   release the flag-free resumed automaton accepts. *)
From Coercion.Resume Require Import C10Proofs.
Theorem c10_recovery_converges_partial :
  forall (sh : shape) (I : image) (tr : list event) (fin : image) (r0 r : rst),
    rinit sh (dimg_of_image I) (im_reason I) = Some r0 ->
    cst I OPlan = Running ->
    rrun dev_none sh r0 (tr ++ [EvRelease fin]) = Some r ->
    is_terminal (cst fin OPlan) = true /\ left_running dev_none sh I fin = [].
Proof. exact converges_release_clauses. Qed.
Print Assumptions c10_recovery_converges_partial.

(* the deviation flags only loosen the release guard: whatever is quiet under fewer flags is quiet under more *)
Theorem c10_flags_only_loosen :
  forall (d d' : devs) (sh : shape) (I : dimg) (m : obj -> cell),
    (dev_R2 d = true -> dev_R2 d' = true) /\ (dev_R3 d = true -> dev_R3 d' = true)
    /\ (dev_R5 d = true -> dev_R5 d' = true) /\ (dev_R6 d = true -> dev_R6 d' = true) ->
    quiet d sh I m = true -> quiet d' sh I m = true.
Proof. exact quiet_mono. Qed.
Print Assumptions c10_flags_only_loosen.

(* FULL STATEMENT (c10_recovery_converges), kept visible: for I = crash_image sh tr1 k of an accepted tr1 and every
   MAXIMAL trace tr2 the resumed automaton accepts from the repair of I: tr2 ends in EvRelease fin; fin satisfies the
   consistency rules of C04 and has nothing Running; the deferred group of every entered scope has a completed run in
   the durable part of tr1 or in tr2; and, plugin outcomes being a function of the action alone, status fin is the
   uninterrupted verdict; same under crash_chain.
   What is PROVED: the release side above (for the model without flags the released plan is terminal and nothing is
   Running, for every image and trace).  What is NOT proved: progress (every non-released state of the resumed
   automaton has an enabled event or epsilon-move, runs are finite), the consistency and deferred clauses as an
   invariant of the resumed automaton, and the verdict equality (it needs the schedule-independent verdict function
   of C03/C04, another engineer's work in progress).  These clauses are evaluated by MonRecover.mon_converges on every
   real recovery (every write prefix of every recorded run, double crashes, kills).
   The full statement is FALSE for the code as it is - the refutation witnesses follow: one REAL recovery of /repo
   per deviation flag (Witnesses.v) that the resumed automaton accepts with that flag only, rejects without flags, on
   which mon_noreexec (C09) holds and mon_converges without flags is false (with that flag: true). *)
From Coercion.Resume Require Import ResumeCheck Witnesses WitnessProofs.

(* R2: an action of a check group whose run the crash interrupted is still Running when Wait returns *)
Theorem c10_recovery_converges_refuted_R2 : refutes only_R2 witness_R2 = true.
Proof. exact dev_R2_refutes. Qed.
Print Assumptions c10_recovery_converges_refuted_R2.

(* R3: fixBlock returned at once (a check group of the block durably Failed): the sequence in flight stays Running *)
Theorem c10_recovery_converges_refuted_R3 : refutes only_R3 witness_R3 = true.
Proof. exact dev_R3_refutes. Qed.
Print Assumptions c10_recovery_converges_refuted_R3.

(* R5: second crash; a sequence repaired only in memory is durably Running inside a finished block, for ever *)
Theorem c10_recovery_converges_refuted_R5 : refutes only_R5 witness_R5 = true.
Proof. exact dev_R5_refutes. Qed.
Print Assumptions c10_recovery_converges_refuted_R5.

(* R6: plan-level continuous group durably Failed: Recovery goes to End, the executing block stays Running *)
Theorem c10_recovery_converges_refuted_R6 : refutes only_R6 witness_R6 = true.
Proof. exact dev_R6_refutes. Qed.
Print Assumptions c10_recovery_converges_refuted_R6.

(* R7 (repaired in /repo by 0c944e8, no flag): a recovery recorded before the fix - the recovered block skipped its
   initial continuous-check run, its sequences ran ungated, the plan ended Completed instead of Failed - is rejected by
   the resumed automaton under every flag, and mon_converges (outcome clause) is false on it. *)
Theorem c10_R7_before_fix_is_caught : caught witness_R7_before_fix = true.
Proof. exact R7_before_fix_is_caught. Qed.
Print Assumptions c10_R7_before_fix_is_caught.
