(* C09 - After a crash, durably finished work is never executed again.

   Model: Coercion.Resume.Resume - the observable engine automaton of coq/engine started from the crash repair
   (Coercion.Recover.Fix.fix_plan) of a durable image, with the in-memory image next to the durable one
   (DESIGN.md section 6, Appendix A "Resumed runs").  Monitor: MonRecover.mon_noreexec.
   Tie to the code: harness/cmd/recover (every write prefix of every recorded run is a crash point; the real
   recovery is run on each), ResumeCheck.check_rcase, on every run of ./check C09. *)
From Coercion.Base Require Import Plan.
From Coercion.Engine Require Import Shape Event.
From Coercion.Resume Require Import Resume MonRecover ResumeLemmas ReleaseProofs.

(* A plan that is not durably Running in the crash image (in particular one that is durably Completed or Failed) is
   not resumed: whatever the process that restarts on the image does with it involves no plugin invocation and no
   write - for every image, every deviation flag, every trace the resumed automaton accepts. *)
Theorem c09_finished_plan_runs_nothing :
  forall (d : devs) (sh : shape) (I : image) (tr : list event) (r0 r : rst),
    rinit sh (dimg_of_image I) (im_reason I) = Some r0 ->
    cst I OPlan <> Running ->
    rrun d sh r0 tr = Some r ->
    Forall (fun e => match e with EvStart _ | EvEnd _ _ | EvWrite _ _ _ _ _ => False | _ => True end) tr.
Proof. exact unresumed_plan_runs_nothing. Qed.
Print Assumptions c09_finished_plan_runs_nothing.

(* c09_no_reexecution, one crash, for EVERY crash image I (any image, not only reachable ones), every deviation flag
   and every trace the resumed automaton accepts from the repair of I: no EvStart of a sequence action that is
   finished in I (Completed / Failed / Stopped) or whose last durable attempt has no error, none inside a sequence
   or block that is finished in I, none at all when the plan is not durably Running - i.e. the monitor mon_noreexec
   holds.  The premise [repair_sound sh I] is what the proof needs to know about the crash repair of THIS image
   (three facts about Fix.fix_plan, stated in NoReexec.v): a finished block stays finished; a sequence left
   unfinished in a block left unfinished has only unfinished actions; a sequence fixBlock resumes lies in a Running
   block and its actions from the first non-Completed one on are unfinished. *)
From Coercion.Resume Require Import Frame NoReexec C09Proofs.
Theorem c09_no_reexecution_partial :
  forall (d : devs) (sh : shape) (I : image) (tr : list event) (r0 r : rst),
    repair_sound sh (dimg_of_image I) ->
    rinit sh (dimg_of_image I) (im_reason I) = Some r0 ->
    rrun d sh r0 tr = Some r ->
    mon_noreexec I tr = true.
Proof. exact noreexec_of_repair_sound. Qed.
Print Assumptions c09_no_reexecution_partial.
