(* C09 - After a crash, durably finished work is never executed again.

   Model: Coercion.Resume.Resume - the observable engine automaton of coq/engine started from the crash repair
   (Coercion.Recover.Fix.fix_plan) of a durable image, with the in-memory image next to the durable one
   (DESIGN.md section 6, Appendix A "Resumed runs").  Monitor: MonRecover.mon_noreexec.
   Tie to the code: harness/cmd/recover (every write prefix of every recorded run is a crash point; the real
   recovery is run on each), ResumeCheck.check_rcase, on every run of ./check C09. *)
From Coercion.Base Require Import Plan.
From Coercion.Engine Require Import Shape Event.
From Coercion.Resume Require Import Resume MonRecover ResumeLemmas ReleaseProofs.

(* A plan that is not durably Running in the crash image (in particular one that is durably Completed or Failed) is
   not resumed: whatever the process that restarts on the image does with it involves no plugin invocation and no
   write - for every image, every deviation flag, every trace the resumed automaton accepts. *)
Theorem c09_finished_plan_runs_nothing :
  forall (d : devs) (sh : shape) (I : image) (tr : list event) (r0 r : rst),
    rinit sh (dimg_of_image I) (im_reason I) = Some r0 ->
    cst I OPlan <> Running ->
    rrun d sh r0 tr = Some r ->
    Forall (fun e => match e with EvStart _ | EvEnd _ _ | EvWrite _ _ _ _ _ => False | _ => True end) tr.
Proof. exact unresumed_plan_runs_nothing. Qed.
Print Assumptions c09_finished_plan_runs_nothing.

From Coercion.Resume Require Import Frame NoReexec ImgWf RepairSound C09Proofs.

(* c09_no_reexecution, one crash.  For EVERY well-formed crash image I (ImgWf.img_wf0: the hierarchy of statuses
   every image the engine writes obeys - nothing Stopped, a NotStarted action has no attempt, the actions of a
   NotStarted sequence and the sequences of a NotStarted block are NotStarted; a boolean; the correspondence evaluates
   the stronger ImgWf.img_wf on every real crash image on every run), every deviation flag and every trace tr the resumed automaton accepts from the repair of I:
   mon_noreexec I tr = true, i.e. no EvStart of a sequence action that is Completed / Failed in I or that has ANY
   durable attempt (a success, a plugin's error or the engine's timeout error: "only actions durably Running without
   a durable result may be invoked again"), no EvStart at all inside a sequence or block that is Completed / Failed
   in I, and no EvStart at all when the plan is not durably Running.  No bound on shapes, images, traces.

   FULL STATEMENT (c09_no_reexecution): the same for I = crash_image sh tr1 k of every trace tr1 accepted by
   coq/engine's automaton and every k.  What is missing for it is one lemma about coq/engine (frozen):
   `run sh init tr1 = Some s -> img_wf sh (s_img s) = true` (every durable image of an uninterrupted run is
   well-formed); the correspondence checks img_wf on every real crash image, of uninterrupted runs AND of recoveries. *)
Theorem c09_no_reexecution_partial :
  forall (d : devs) (sh : shape) (I : image) (tr : list event) (r0 r : rst),
    (cst I OPlan = Running -> img_wf0 sh (dimg_of_image I) = true) ->
    rinit sh (dimg_of_image I) (im_reason I) = Some r0 ->
    rrun d sh r0 tr = Some r ->
    mon_noreexec I tr = true.
Proof. exact noreexec_of_wf0. Qed.
Print Assumptions c09_no_reexecution_partial.

(* crash_chain: any number of crashes.  Process i restarts on image im_i, does tr_i and crashes after k_i of its
   writes; im_(i+1) is the durable image that leaves behind (Resume.crash_from).  If every process's trace is
   accepted by the resumed automaton and every image on which a plan is Running is well-formed, then every EvStart of
   every process is of work that the image THAT process restarted on shows unfinished (and its plan was Running). *)
Theorem c09_crash_chain :
  forall (d : devs) (sh : shape) (steps : list (list event * nat)) (im : dimg) (rs : reason),
    chain_accepted d sh im rs steps -> chain_wf0 sh im rs steps -> chain_noreexec sh im rs steps.
Proof. exact crash_chain_noreexec0. Qed.
Print Assumptions c09_crash_chain.

(* what the proof needs to know about the crash repair holds for every well-formed image: the link to coq/recover
   (fix_never_unfinishes, plan_processes_blocks, fix_seq_running_form, exec_seq_meets_contract) *)
Theorem c09_repair_is_sound_on_wellformed_images :
  forall (sh : shape) (I : dimg),
    img_wf0 sh I = true -> ist I OPlan = Running -> resumable_ok (pln_of sh I) = true ->
    (forall fl b, block_of sh b <> None -> is_terminal (ist I (OBlock b)) = true -> is_terminal (blk_st sh I fl b) = true)
    /\ (forall fl b q, is_terminal (pln_st sh I fl) = false ->
          seq_of sh b q <> None -> is_terminal (blk_st sh I fl b) = false -> ~ In (b, q) (resumed sh I) ->
          ~ cf (seq_st0 sh I b q) -> open_from sh I b q 0)
    /\ (forall b q, In (b, q) (resumed sh I) ->
          ist I (OBlock b) = Running /\ seq_of sh b q <> None /\ open_from sh I b q (first_open (pln_of sh I) b q)).
Proof. exact repair_sound_facts. Qed.
Print Assumptions c09_repair_is_sound_on_wellformed_images.
