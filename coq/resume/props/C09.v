(* C09 - After a crash, durably finished work is never executed again.

   Model: Coercion.Resume.Resume - the observable engine automaton of coq/engine started from the crash repair
   (Coercion.Recover.Fix.fix_plan) of a durable image, with the in-memory image next to the durable one
   (DESIGN.md section 6, Appendix A "Resumed runs").  Monitor: MonRecover.mon_noreexec.
   Tie to the code: harness/cmd/recover (every write prefix of every recorded run is a crash point; the real
   recovery is run on each), ResumeCheck.check_rcase, on every run of ./check C09. *)
From Coercion.Base Require Import Plan.
From Coercion.Engine Require Import Shape Event.
From Coercion.Resume Require Import Resume MonRecover ResumeLemmas ReleaseProofs.

(* A plan that is not durably Running in the crash image (in particular one that is durably Completed or Failed) is
   not resumed: whatever the process that restarts on the image does with it involves no plugin invocation and no
   write - for every image, every deviation flag, every trace the resumed automaton accepts. *)
Theorem c09_finished_plan_runs_nothing :
  forall (d : devs) (sh : shape) (I : image) (tr : list event) (r0 r : rst),
    rinit sh (dimg_of_image I) (im_reason I) = Some r0 ->
    cst I OPlan <> Running ->
    rrun d sh r0 tr = Some r ->
    Forall (fun e => match e with EvStart _ | EvEnd _ _ | EvWrite _ _ _ _ _ => False | _ => True end) tr.
Proof. exact unresumed_plan_runs_nothing. Qed.
Print Assumptions c09_finished_plan_runs_nothing.
