(* Well-formedness of a durable image: the hierarchy every image written by the engine (and every crash prefix of
   one) obeys.  A boolean, evaluated on every real crash image by the correspondence check; RepairSound.v shows that
   it gives the resumed automaton's invariant what it needs to know about the crash repair.  Model file: no proofs.

     - no object is Stopped (the engine exposes no Stop; entrance / exit delays are zero in every generated plan);
     - a sequence action that is NotStarted has no attempt;
     - the actions of a NotStarted sequence are NotStarted (without attempts);
     - the sequences of a NotStarted block are NotStarted;
     - when the plan's own repair returns at once (plan bypass group Completed, plan pre or post group Failed) no
       block is Running. *)
From Coercion.Base Require Import Plan.
From Coercion.Engine Require Import Shape Event.
From Coercion.Resume Require Import Resume.

Definition fresh_cell (c : cell) : bool := status_eqb (c_st c) NotStarted && Nat.eqb (c_n c) 0.

Definition act_wf (I : dimg) (seq_t : status) (a : aref) : bool :=
  let c := iget I (OAct a) in
  negb (status_eqb (c_st c) Stopped)
  && (negb (status_eqb (c_st c) NotStarted) || Nat.eqb (c_n c) 0)
  && (negb (status_eqb seq_t NotStarted) || fresh_cell c).

Definition seq_wf (I : dimg) (blk_t : status) (b q : nat) (rs : list nat) : bool :=
  let t := ist I (OSeq b q) in
  negb (status_eqb t Stopped)
  && (negb (status_eqb blk_t NotStarted) || status_eqb t NotStarted)
  && forallb (fun i => act_wf I t (ASeq b q i)) (seq 0 (length rs)).

Definition block_wf (I : dimg) (b : nat) (bs : bshape) : bool :=
  let t := ist I (OBlock b) in
  negb (status_eqb t Stopped)
  && forallb (fun qr => seq_wf I t b (fst qr) (snd qr)) (indexed (bs_seqs bs)).

(* fixPlan returns before it looks at the blocks *)
Definition plan_early (sh : shape) (I : dimg) : bool :=
  (grp_present sh SPlan GBypass && status_eqb (ist I (OChecks SPlan GBypass)) Completed)
  || group_failed sh I SPlan GPre || group_failed sh I SPlan GPost.

(* the first four clauses: what the C09 theorem needs (when fixPlan returns at once Recovery goes straight to End and
   nothing runs, whatever the blocks look like) *)
Definition img_wf0 (sh : shape) (I : dimg) : bool :=
  forallb (fun bb => block_wf I (fst bb) (snd bb)) (indexed (sh_blocks sh)).

Definition img_wf (sh : shape) (I : dimg) : bool :=
  forallb (fun bb => block_wf I (fst bb) (snd bb)) (indexed (sh_blocks sh))
  && (negb (plan_early sh I)
      || forallb (fun bb => negb (status_eqb (ist I (OBlock (fst bb))) Running)) (indexed (sh_blocks sh))).
