(* The monitors of C09 and C10: the formal statements of the two properties over what is OBSERVED of one
   recovery - the crash image I (a full read of the store before the new Workstream is opened) and the trace of
   the recovering process - written without reference to the automaton (Resume.v).  No proofs here.

   C09  mon_noreexec    durably finished work is never executed again.
   C10  mon_converges   the recovery reaches a terminal, quiescent, consistent state whose deferred checks ran and
                        whose outcome is the uninterrupted one.

   The known, unfixed defects of the repair are excused clause by clause through the deviation flags [devs]
   (Resume.v): with dev_none the monitors are the properties at full strength. *)
From Coercion.Base Require Import Plan.
From Coercion.Engine Require Import Shape Event.
From Coercion.Resume Require Import Resume.

(* ------------------------------------------------------------------ reading an image *)
Definition cst (I : image) (o : obj) : status :=
  match im_lookup I o with Some c => oc_st c | None => NotStarted end.
Definition cn (I : image) (o : obj) : nat :=
  match im_lookup I o with Some c => oc_n c | None => 0 end.
Definition cok (I : image) (o : obj) : bool :=
  match im_lookup I o with Some c => oc_ok c | None => false end.
Definition cordered (I : image) (o : obj) : bool :=
  match im_lookup I o with Some (OC _ _ _ (TF _ _ ord)) => ord | None => true end.

Definition finished (I : image) (o : obj) : bool := is_terminal (cst I o).   (* Completed | Failed | Stopped *)
(* the last durable attempt of an action has no error: its success is durable *)
Definition succeeded (I : image) (a : aref) : bool := (0 <? cn I (OAct a)) && cok I (OAct a).
(* the action has a durable result: an attempt is only stored complete, with its response or its error (a plugin's
   own error or the engine's timeout error alike) *)
Definition has_result (I : image) (a : aref) : bool := 0 <? cn I (OAct a).

(* ------------------------------------------------------------------ C09 *)
(* may the plugin of action a be invoked by a process that restarts on image I ? *)
Definition may_start (I : image) (a : aref) : bool :=
  status_eqb (cst I OPlan) Running &&                 (* only Running plans are resumed; a finished plan never runs again *)
  match a with
  | AChk SPlan _ _ => true                            (* checks are repeated: they are not "work" *)
  | AChk (SBlock b) _ _ => negb (finished I (OBlock b))
  | ASeq b q i =>
      negb (finished I (OBlock b))                    (* nothing inside a finished block *)
      && negb (finished I (OSeq b q))                 (* nothing inside a finished sequence *)
      && negb (finished I (OAct a))                   (* not a finished action *)
      && negb (has_result I a)                        (* only an action "durably Running WITHOUT a durable result": none
                                                         whose success is durable, and none with a recorded failed
                                                         attempt either (repair makes it Failed, it is never retried) *)
  end.

Fixpoint first_bad_start (I : image) (tr : list event) (i : nat) : option nat :=
  match tr with
  | [] => None
  | EvStart a :: tr' => if may_start I a then first_bad_start I tr' (S i) else Some i
  | _ :: tr' => first_bad_start I tr' (S i)
  end.

Definition mon_noreexec (I : image) (tr : list event) : bool :=
  match first_bad_start I tr 0 with None => true | Some _ => false end.

(* [0] holds | [1; index of the offending EvStart] *)
Definition mon_noreexec_diag (I : image) (tr : list event) : list nat :=
  match first_bad_start I tr 0 with None => [0] | Some i => [1; i] end.

(* ------------------------------------------------------------------ C10 *)
Fixpoint released_image (tr : list event) : option image :=
  match tr with
  | [] => None
  | EvRelease fin :: _ => Some fin
  | _ :: tr' => released_image tr'
  end.

(* --- nothing is left Running (and which known defect explains an object that is) --- *)
(* which known defect explains an object that is left Running: Resume.excused (the deviation flags are defined by
   cause, from the crash image alone) *)
Definition left_running (d : devs) (sh : shape) (I fin : image) : list obj :=
  filter (fun o => status_eqb (cst fin o) Running && negb (excused d sh (dimg_of_image I) o)) (all_objs sh).

(* --- the consistency rules of C04 (DESIGN.md section 6) --- *)
Definition plan_groups_ok (sh : shape) (fin : image) : bool :=
  forallb (fun g => negb (grp_present sh SPlan g) || status_eqb (cst fin (OChecks SPlan g)) Completed)
          [GPre; GCont; GPost; GDeferred].

Definition plan_consistent (sh : shape) (fin : image) : bool :=
  negb (status_eqb (cst fin OPlan) Completed)
  || (grp_present sh SPlan GBypass && status_eqb (cst fin (OChecks SPlan GBypass)) Completed)
  || (forallb (fun b => status_eqb (cst fin (OBlock b)) Completed) (seq 0 (length (sh_blocks sh)))
      && plan_groups_ok sh fin).

(* a Failed sequence: Completed actions, then exactly one Failed action, then untouched ones *)
Fixpoint failed_seq_shape (fin : image) (b q : nat) (is : list nat) : bool :=
  match is with
  | [] => false
  | i :: is' =>
      match cst fin (OAct (ASeq b q i)) with
      | Completed => failed_seq_shape fin b q is'
      | Failed => forallb (fun j => status_eqb (cst fin (OAct (ASeq b q j))) NotStarted
                                    && Nat.eqb (cn fin (OAct (ASeq b q j))) 0) is'
      | _ => false
      end
  end.

Definition seq_consistent (fin : image) (b q : nat) (rs : list nat) : bool :=
  let is := seq 0 (length rs) in
  match cst fin (OSeq b q) with
  | Completed => forallb (fun i => status_eqb (cst fin (OAct (ASeq b q i))) Completed) is
  | Failed => failed_seq_shape fin b q is
  | _ => true
  end.

Definition is_action (o : obj) : option aref := match o with OAct a => Some a | _ => None end.

(* an action is Completed iff it has attempts and the last one has no error (an action that is still Running is
   the business of the "nothing is left Running" clause) *)
Definition action_consistent (fin : image) (o : obj) : bool :=
  match is_action o with
  | Some a => status_eqb (cst fin o) Running || Bool.eqb (status_eqb (cst fin o) Completed) (succeeded fin a)
  | None => true
  end.

(* start <= end wherever both are set.  R2 also covers: the group of an interrupted check-group run keeps the Start
   of that run and the End of the previous one *)
Definition is_group (o : obj) : bool := match o with OChecks _ _ => true | _ => false end.
Definition times_ordered (d : devs) (fin : image) (o : obj) : bool :=
  cordered fin o || (dev_R2 d && is_group o).

Definition consistent (d : devs) (sh : shape) (fin : image) : bool :=
  plan_consistent sh fin
  && forallb (fun bb => forallb (fun qr => seq_consistent fin (fst bb) (fst qr) (snd qr))
                                (indexed (bs_seqs (snd bb)))) (indexed (sh_blocks sh))
  && forallb (action_consistent fin) (all_objs sh)
  && forallb (times_ordered d fin) (all_objs sh).

(* --- the deferred group of every entered scope has a completed run: durably before the crash or in the
       recovery; either way it shows in the final image as Completed or Failed --- *)
Definition scope_entered (sh : shape) (fin : image) (sc : scope) : bool :=
  negb (grp_present sh sc GBypass && status_eqb (cst fin (OChecks sc GBypass)) Completed)
  && match sc with
     | SPlan => true
     | SBlock b => negb (status_eqb (cst fin (OBlock b)) NotStarted)
     end.

Definition scopes (sh : shape) : list scope := SPlan :: map SBlock (seq 0 (length (sh_blocks sh))).

(* R2 also covers deferred groups that are SKIPPED (never a Failed group that is treated as passed): the repair sends
   Recovery straight to End - a block, the pre / continuous / post group of a Running block (fixBlock then fails the
   block) or a plan-level pre / continuous / post group is durably Failed in the crash image, or the plan's bypass
   group is Completed - so PlanDeferredChecks / BlockDeferredChecks are never reached; or
   the scope is a block that is already finished in the crash image (ExecuteBlock pops it). *)
Definition short_circuits (sh : shape) (I : image) : bool :=
  existsb (fun b => status_eqb (cst I (OBlock b)) Failed
                    || (status_eqb (cst I (OBlock b)) Running
                        && existsb (fun g => grp_present sh (SBlock b) g && status_eqb (cst I (OChecks (SBlock b) g)) Failed)
                                   [GPre; GCont; GPost]))
          (seq 0 (length (sh_blocks sh)))
  || existsb (fun g => grp_present sh SPlan g && status_eqb (cst I (OChecks SPlan g)) Failed) [GPre; GCont; GPost]
  || (grp_present sh SPlan GBypass && status_eqb (cst I (OChecks SPlan GBypass)) Completed).

Definition deferred_skip_excused (d : devs) (sh : shape) (I : image) (sc : scope) : bool :=
  dev_R2 d && (short_circuits sh I || match sc with SBlock b => finished I (OBlock b) | SPlan => false end).

Definition deferred_missing (d : devs) (sh : shape) (I fin : image) : list scope :=
  filter (fun sc => grp_present sh sc GDeferred && scope_entered sh fin sc
                    && negb (finished fin (OChecks sc GDeferred)) && negb (deferred_skip_excused d sh I sc)) (scopes sh).

(* a Completed block was bypassed, or none of its pre / continuous / post / deferred groups is Failed *)
Definition block_consistent (sh : shape) (fin : image) (b : nat) : bool :=
  negb (status_eqb (cst fin (OBlock b)) Completed)
  || (grp_present sh (SBlock b) GBypass && status_eqb (cst fin (OChecks (SBlock b) GBypass)) Completed)
  || forallb (fun g => negb (grp_present sh (SBlock b) g && status_eqb (cst fin (OChecks (SBlock b) g)) Failed))
             [GPre; GCont; GPost; GDeferred].

(* --- all clauses; codes of the failing ones --- *)
Definition obj_code (o : obj) : nat :=
  match o with
  | OPlan => 1 | OChecks _ _ => 2 | OBlock _ => 3 | OSeq _ _ => 4
  | OAct (AChk _ _ _) => 5 | OAct (ASeq _ _ _) => 6
  end.

Definition converges_codes (d : devs) (sh : shape) (I : image) (tr : list event) (verdict : status) (determined : bool)
  : list nat :=
  (* a plan that had started is durably NotStarted (reachable only by crashing a recovery): nobody will ever
     resume it, it never reaches a terminal state *)
  if status_eqb (cst I OPlan) NotStarted && existsb (fun o => negb (status_eqb (cst I o) NotStarted)) (all_objs sh) then [16] else
  if negb (status_eqb (cst I OPlan) Running) then [] else    (* not resumed: nothing to converge (C11) *)
  match released_image tr with
  | None => [10]                                             (* Wait did not return *)
  | Some fin =>
      (if status_eqb (cst fin OPlan) Completed || status_eqb (cst fin OPlan) Failed then [] else [11])
      ++ match left_running d sh I fin with [] => [] | o :: _ => [12; obj_code o] end
      ++ (if consistent d sh fin then [] else
            [13; if plan_consistent sh fin then 0 else 1;
                 if forallb (action_consistent fin) (all_objs sh) then 0 else 1;
                 if forallb (times_ordered d fin) (all_objs sh) then 0 else 1])
      ++ match deferred_missing d sh I fin with [] => [] | _ :: _ => [14] end
      ++ (if forallb (block_consistent sh fin) (seq 0 (length (sh_blocks sh))) then [] else [17])
      ++ (if determined && negb (status_eqb (cst fin OPlan) verdict) then [15] else [])
  end.

Definition mon_converges (d : devs) (sh : shape) (I : image) (tr : list event) (verdict : status) (determined : bool) : bool :=
  match converges_codes d sh I tr verdict determined with [] => true | _ => false end.

(* [0] holds | the codes: 10 no release; 11 plan not terminal; 12 k: an object of kind k left Running with no known
   explanation; 13 p a t: inconsistent (plan rule / action rule / start <= end; all 0: a sequence rule); 14 a deferred group of an entered scope never ran;
   15 outcome differs from the uninterrupted run; 16 the crash image shows a started plan as NotStarted: it will never
   be resumed; 17 a Completed block holds a Failed check group *)
Definition mon_converges_diag (d : devs) (sh : shape) (I : image) (tr : list event) (verdict : status) (determined : bool)
  : list nat :=
  match converges_codes d sh I tr verdict determined with [] => [0] | l => l end.
