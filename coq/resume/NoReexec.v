(* C09 at the level of the resumed automaton: every plugin invocation the automaton accepts is of work the crash
   image shows unfinished.  Proofs only.

   The argument is an invariant [Inv] of the resumed automaton (kept by the epsilon-moves, by every handler and by
   flushes), relating the sub-automata of the current block to the crash image I:
     - the block being executed (by fixBlock's resumption or by the state chain) is not finished in I;
     - a sequence sub-automaton at action index i (SRun i) belongs to a sequence that is not finished in I and none
       of whose actions from i on is finished or durably successful in I;
     - in memory, a block that is finished in I stays finished (so ExecuteBlock pops it), and a sequence that memory
       does not show Completed/Failed inside a block that memory does not show finished may run from its first action.
   What the invariant needs to know about the crash repair is the record [repair_sound] - three facts about
   Fix.fix_plan on the image (a finished block stays finished; a sequence left unfinished in a block left
   unfinished has no finished action; a resumed sequence lies in a Running block and its actions from the first
   non-Completed one on are unfinished).  RepairSound.v derives them from coq/recover for well-formed images. *)
From Coq Require Import Lia.
From Coercion.Base Require Import Plan.
From Coercion.Engine Require Import Shape Event Action ChecksRun Seq Block Final PlanSM Auto Accept AutoLemmas.
From Coercion.Resume Require Import Resume ResumeLemmas Frame.

(* ------------------------------------------------------------------ small facts about the memory representation *)
Lemma ifind_app a b o : ifind (a ++ b) o = match ifind a o with Some c => Some c | None => ifind b o end.
Proof. induction a as [|[o' c] a IH]; simpl; auto. destruct (obj_eqb o' o); auto. Qed.

Lemma over_cons_same ov base o c : over ((o, c) :: ov) base o = c.
Proof. unfold over. simpl. now rewrite (proj2 (obj_eqb_eq o o) eq_refl). Qed.

Lemma over_cons_other ov base o o' c : o <> o' -> over ((o, c) :: ov) base o' = over ov base o'.
Proof.
  intro H. unfold over. simpl. destruct (obj_eqb o o') eqn:E; auto. apply obj_eqb_eq in E. contradiction.
Qed.

Lemma ifind_cons o' c l o : ifind ((o', c) :: l) o = if obj_eqb o' o then Some c else ifind l o.
Proof. reflexivity. Qed.

Lemma ifind_blocks_seq f n k o :
  (forall b, o <> OBlock b) -> ifind (map (fun b => (OBlock b, f b)) (seq k n)) o = None.
Proof.
  intro H. revert k. induction n as [|n IH]; intro k; [reflexivity|].
  change (seq k (S n)) with (k :: seq (S k) n). rewrite map_cons, ifind_cons.
  destruct (obj_eqb (OBlock k) o) eqn:E; [apply obj_eqb_eq in E; exfalso; eapply H; eauto|apply IH].
Qed.

Lemma ifind_blocks_hit f n k b :
  k <= b -> b < k + n -> ifind (map (fun b => (OBlock b, f b)) (seq k n)) (OBlock b) = Some (f b).
Proof.
  revert k. induction n as [|n IH]; intros k H1 H2; [lia|].
  change (seq k (S n)) with (k :: seq (S k) n). rewrite map_cons, ifind_cons.
  destruct (obj_eqb (OBlock k) (OBlock b)) eqn:E.
  - apply obj_eqb_eq in E. injection E as ->. reflexivity.
  - assert (k <> b) by (intro; subst; rewrite (proj2 (obj_eqb_eq _ _) eq_refl) in E; discriminate).
    apply IH; lia.
Qed.

Lemma block_of_lt sh b : block_of sh b <> None -> b < length (sh_blocks sh).
Proof. unfold block_of. intro H. apply nth_error_Some. exact H. Qed.

(* memory after the repair is finished: blocks (of the shape) show the status fix_plan computed, sequences are as
   they were *)
Lemma finished_block sh r b :
  block_of sh b <> None ->
  finished_mem sh r (OBlock b) = pl_cell (F.fp_pln (fixed (r_fails r) (r_pl r))) (OBlock b).
Proof.
  intro H. unfold finished_mem, finish_mem, over. simpl.
  rewrite ifind_app, ifind_blocks_hit; [reflexivity|lia|]. simpl. now apply block_of_lt.
Qed.

Lemma finished_seq sh r b q : finished_mem sh r (OSeq b q) = mget r (OSeq b q).
Proof.
  unfold finished_mem, finish_mem, mget, over. simpl.
  rewrite ifind_app, ifind_blocks_seq; [reflexivity|]. intros b' E. discriminate.
Qed.

(* ------------------------------------------------------------------ the blocks ExecuteBlock pops *)
Lemma skipn_nth {A} (l : list A) n x l' : skipn n l = x :: l' -> nth_error l n = Some x /\ skipn (S n) l = l'.
Proof.
  revert l. induction n as [|n IH]; intros [|y l] H; simpl in *; try discriminate.
  - injection H as -> ->. auto.
  - apply IH. exact H.
Qed.

Lemma skipn_nil_nth {A} (l : list A) n : skipn n l = [] -> nth_error l n = None.
Proof.
  revert l. induction n as [|n IH]; intros [|y l] H; simpl in *; try discriminate; auto.
Qed.

(* r_enter lands past the last block, or on a block that memory does not show finished, freshly initialised *)
Lemma r_enter_spec sh m s cb :
  exists cb', r_enter sh m s cb = with_block s cb' (match block_of sh cb' with Some bs => rb_init bs m cb' | None => b_none end)
              /\ (block_of sh cb' <> None -> is_terminal (mst m (OBlock cb')) = false).
Proof.
  unfold r_enter. remember (skipn cb (sh_blocks sh)) as bl eqn:E. revert cb E.
  induction bl as [|bs bl IH]; intros cb E; simpl.
  - exists cb. symmetry in E. apply skipn_nil_nth in E. unfold block_of. rewrite E. split; [reflexivity|]. intro H. contradiction.
  - symmetry in E. destruct (skipn_nth _ _ _ _ E) as [Hn Hs].
    destruct (is_terminal (mst m (OBlock cb))) eqn:Et.
    + apply IH. symmetry. exact Hs.
    + exists cb. unfold block_of. rewrite Hn. split; [reflexivity|]. intros _. exact Et.
Qed.

(* ------------------------------------------------------------------ grouping the resumed sequences *)
Lemma group_in l : forall b qs q, In (b, qs) (group_by_block l) -> In q qs -> In (b, q) l.
Proof.
  induction l as [|[b0 q0] l IH]; intros b qs q H Hq; simpl in H; [contradiction|].
  destruct (group_by_block l) as [|[b' qs'] r] eqn:E.
  - destruct H as [H|[]]. injection H as <- <-. destruct Hq as [<-|[]]. left. reflexivity.
  - destruct (Nat.eqb b0 b') eqn:Eb.
    + apply Nat.eqb_eq in Eb. subst b'. destruct H as [H|H].
      * injection H as <- <-. destruct Hq as [<-|Hq]; [left; reflexivity|]. right. eapply IH; [left; reflexivity|exact Hq].
      * right. eapply IH; [right; exact H|exact Hq].
    + destruct H as [H|H].
      * injection H as <- <-. destruct Hq as [<-|[]]. left. reflexivity.
      * right. eapply IH; [exact H|exact Hq].
Qed.

Lemma in_group l : forall b q, In (b, q) l -> exists qs, In (b, qs) (group_by_block l) /\ In q qs.
Proof.
  induction l as [|[b0 q0] l IH]; intros b q H; simpl in *; [contradiction|].
  destruct (group_by_block l) as [|[b' qs'] r] eqn:E.
  - destruct H as [H|H].
    + injection H as <- <-. exists [q0]. split; left; reflexivity.
    + destruct (IH _ _ H) as (qs & [] & _).
  - destruct (Nat.eqb b0 b') eqn:Eb.
    + apply Nat.eqb_eq in Eb. subst b'. destruct H as [H|H].
      * injection H as <- <-. exists (q0 :: qs'). split; left; reflexivity.
      * destruct (IH _ _ H) as (qs & [Hin|Hin] & Hq).
        -- injection Hin as <- <-. exists (q0 :: qs'). split; [left; reflexivity|right; exact Hq].
        -- exists qs. split; [right; exact Hin|exact Hq].
    + destruct H as [H|H].
      * injection H as <- <-. exists [q0]. split; left; reflexivity.
      * destruct (IH _ _ H) as (qs & Hin & Hq). exists qs. split; [right; exact Hin|exact Hq].
Qed.

(* the sequences of the block fixBlock is working on *)
Lemma rec_block_nth sh b qs q x :
  nth_error (b_seqs (rec_block sh b qs)) q = Some x ->
  (In q qs /\ x = SIdle) \/ (~ In q qs /\ x = SDone true).
Proof.
  unfold rec_block. simpl. intro H.
  remember (match block_of sh b with Some bs => length (bs_seqs bs) | None => 0 end) as n.
  assert (Hq : q < n).
  { apply nth_error_some_lt in H. now rewrite map_length, seq_length in H. }
  rewrite nth_error_map in H.
  assert (Hs : nth_error (seq 0 n) q = Some q).
  { rewrite nth_error_nth' with (d := 0) by (now rewrite seq_length). now rewrite seq_nth. }
  rewrite Hs in H. simpl in H. injection H as <-.
  destruct (existsb (Nat.eqb q) qs) eqn:E.
  - left. split; [|reflexivity]. apply existsb_exists in E as (y & Hy & Ey). apply Nat.eqb_eq in Ey. now subst.
  - right. split; [|reflexivity]. intro Hin. assert (existsb (Nat.eqb q) qs = true); [|congruence].
    apply existsb_exists. exists q. split; [exact Hin|apply Nat.eqb_refl].
Qed.

(* ------------------------------------------------------------------ the invariant *)
Section NoReexec.
Variable sh : shape.
Variable I : dimg.
Let pl := pln_of sh I.

(* action (b,q,j) may be invoked according to the crash image: not finished, no durable result (no attempt) *)
Definition act_open (b q j : nat) : Prop :=
  is_terminal (c_st (iget I (OAct (ASeq b q j)))) = false /\ c_n (iget I (OAct (ASeq b q j))) = 0.
Definition seq_len (b q : nat) : nat := match seq_of sh b q with Some rs => length rs | None => 0 end.
(* sequence (b,q) is not finished in the crash image and may run its actions from index i on *)
Definition open_from (b q i : nat) : Prop :=
  is_terminal (ist I (OSeq b q)) = false /\ forall j, i <= j -> j < seq_len b q -> act_open b q j.

Lemma open_from_le b q i i' : i <= i' -> open_from b q i -> open_from b q i'.
Proof. intros Hle [H1 H2]. split; [exact H1|]. intros j Hj Hl. apply H2; lia. Qed.

Definition resumed : list (nat * nat) := F.fp_resumed (fixed [] pl).
Definition blk_st (fl : list nat) (b : nat) : status := c_st (pl_cell (F.fp_pln (fixed fl pl)) (OBlock b)).
Definition seq_st0 (b q : nat) : status := c_st (base0 pl (OSeq b q)).
(* the plan's status after the repair is finished: Completed / Failed / Stopped means Recovery goes straight to End *)
Definition pln_st (fl : list nat) : status := c_st (pl_cell (F.fp_pln (fixed fl pl)) OPlan).
Definition cf (t : status) : Prop := t = Completed \/ t = Failed.

(* what the invariant needs to know about the crash repair of image I *)
Record repair_sound : Prop := {
  rs_block : forall fl b, block_of sh b <> None -> is_terminal (ist I (OBlock b)) = true -> is_terminal (blk_st fl b) = true;
  rs_seq : forall fl b q, is_terminal (pln_st fl) = false ->
             seq_of sh b q <> None -> is_terminal (blk_st fl b) = false -> ~ In (b, q) resumed ->
             ~ cf (seq_st0 b q) -> open_from b q 0;
  rs_resumed : forall b q, In (b, q) resumed ->
                 ist I (OBlock b) = Running /\ seq_of sh b q <> None /\ open_from b q (first_open pl b q) }.
Hypothesis RS : repair_sound.

Definition mem_st (r : rst) (o : obj) : status := mst (mget r) o.
Definition at_block (r : rst) (b : nat) : Prop := s_ph (r_s r) = PBlocks /\ s_cb (r_s r) = b.
Definition in_blocks (r : rst) (b : nat) : Prop := at_block r b /\ block_of sh b <> None.

(* the state chain is at End (or past it): no block will be entered any more *)
Definition ended (r : rst) : Prop := s_ph (r_s r) = PEnd \/ s_ph (r_s r) = PReleased.

Definition seq_ok (r : rst) (b q : nat) (x : sst) : Prop :=
  match x with
  | SIdle => match r_ph r with RRun => open_from b q 0 | _ => True end
  | SRun i a => open_from b q i /\ (a <> AIdle -> i < seq_len b q)
  | _ => True
  end.

Definition live_at (l : list sst) (q : nat) : Prop := exists x, nth_error l q = Some x /\ forall v, x <> SDone v.

Definition pending (r : rst) (b q : nat) : Prop :=
  match r_ph r with
  | RRecover ((b0, qs0) :: rest) =>
      (b = b0 /\ In q qs0 /\ live_at (seqs_of (r_s r)) q)
      \/ exists qs', In (b, qs') rest /\ In q qs'
  | _ => False
  end.

Record Inv (r : rst) : Prop := {
  i_const : r_I r = I /\ r_pl r = pl;
  i_live : r_ph r <> RIdle;
  i_blk : forall b, in_blocks r b -> is_terminal (ist I (OBlock b)) = false;
  i_seq : forall b q x, in_blocks r b -> nth_error (seqs_of (r_s r)) q = Some x -> seq_ok r b q x;
  i_rec : forall todo, r_ph r = RRecover todo ->
            (exists b qs rest, todo = (b, qs) :: rest /\ at_block r b /\ b_ph (s_b (r_s r)) = BEnter
               /\ (forall q x, nth_error (seqs_of (r_s r)) q = Some x -> In q qs \/ x = SDone true)
               /\ (forall q v, In q qs -> nth_error (seqs_of (r_s r)) q = Some (SDone v) -> cf (mem_st r (OSeq b q))))
            /\ (forall b qs q, In (b, qs) todo -> In q qs -> In (b, q) resumed)
            /\ (forall b qs, In (b, qs) todo -> qs <> [])
            /\ (forall b q, ~ In (b, q) resumed -> mem_st r (OSeq b q) = seq_st0 b q)
            /\ (forall b q, In (b, q) resumed -> pending r b q \/ cf (mem_st r (OSeq b q)));
  i_run : r_ph r = RRun ->
            (forall b, block_of sh b <> None -> is_terminal (ist I (OBlock b)) = true -> is_terminal (mem_st r (OBlock b)) = true)
            /\ (forall b q, ~ ended r -> seq_of sh b q <> None -> is_terminal (mem_st r (OBlock b)) = false ->
                  ~ cf (mem_st r (OSeq b q)) -> open_from b q 0)
            /\ (forall b, in_blocks r b -> b_ph (s_b (r_s r)) = BEnter ->
                  is_terminal (mem_st r (OBlock b)) = false /\ b_cause (s_b (r_s r)) = false) }.

(* ---- the invariant only looks at a few projections of the state ---- *)
Definition same_view (r r' : rst) : Prop :=
  r_I r' = r_I r /\ r_pl r' = r_pl r /\ r_ph r' = r_ph r
  /\ s_ph (r_s r') = s_ph (r_s r) /\ s_cb (r_s r') = s_cb (r_s r)
  /\ b_ph (s_b (r_s r')) = b_ph (s_b (r_s r)) /\ b_cause (s_b (r_s r')) = b_cause (s_b (r_s r))
  /\ seqs_of (r_s r') = seqs_of (r_s r)
  /\ (forall b, mem_st r' (OBlock b) = mem_st r (OBlock b))
  /\ (forall b q, mem_st r' (OSeq b q) = mem_st r (OSeq b q)).

Lemma inv_view r r' : same_view r r' -> Inv r -> Inv r'.
Proof.
  intros (HI & Hpl & Hph & Hsp & Hcb & Hbp & Hbc & Hsq & Hmb & Hms) [Hc Hl Hb Hs Hr Hn].
  assert (Hat : forall b, at_block r' b <-> at_block r b) by (intro b; unfold at_block; rewrite Hsp, Hcb; tauto).
  assert (Hin : forall b, in_blocks r' b <-> in_blocks r b) by (intro b; unfold in_blocks; rewrite Hat; tauto).
  assert (Hpe : forall b q, pending r' b q <-> pending r b q) by (intros b q; unfold pending; rewrite Hph, Hsq; tauto).
  constructor.
  - rewrite HI, Hpl. exact Hc.
  - rewrite Hph. exact Hl.
  - intros b Hi. apply Hb. now apply Hin.
  - intros b q x Hi Hx. rewrite Hsq in Hx. apply Hin in Hi. specialize (Hs b q x Hi Hx).
    unfold seq_ok in *. rewrite Hph. exact Hs.
  - intros todo Ht. rewrite Hph in Ht. destruct (Hr todo Ht) as ((b0 & qs & rest & E & Ha & Hbe & Hd & Hm) & H2 & Hne0 & H3 & H4).
    split; [|split; [exact H2|split; [exact Hne0|split]]].
    + exists b0, qs, rest. split; [exact E|]. split; [now apply Hat|]. split; [now rewrite Hbp|].
      rewrite Hsq. split; [exact Hd|]. intros q v Hq Hx. rewrite Hms. eauto.
    + intros b q Hn'. rewrite Hms. auto.
    + intros b q Hi. rewrite Hms, Hpe. auto.
  - intro Hrun. rewrite Hph in Hrun. destruct (Hn Hrun) as (H1 & H2 & H3). split; [|split].
    + intros b Hbo Ht. rewrite Hmb. auto.
    + intros b q Hend Hbo Ht Hc'. unfold ended in Hend. rewrite Hsp in Hend. rewrite Hmb in Ht. rewrite Hms in Hc'.
      exact (H2 b q Hend Hbo Ht Hc').
    + intros b Hi Hbe. rewrite Hbp in Hbe. rewrite Hmb, Hbc. apply Hin in Hi. auto.
Qed.

(* ---- a sequence sub-automaton moves on (not a launch, not the terminal write): mem untouched for seqs/blocks ---- *)
Lemma nth_upd {A} (l : list A) q q' x y :
  nth_error l q = Some x -> nth_error (upd l q y) q' = if Nat.eqb q q' then Some y else nth_error l q'.
Proof.
  intro H. destruct (Nat.eqb q q') eqn:E.
  - apply Nat.eqb_eq in E. subst q'. apply nth_upd_same. eapply nth_error_some_lt; eauto.
  - apply Nat.eqb_neq in E. now apply nth_upd_other.
Qed.

Lemma live_at_upd l q x y q' :
  nth_error l q = Some x ->
  (live_at (upd l q y) q' <-> if Nat.eqb q q' then (forall v, y <> SDone v) else live_at l q').
Proof.
  intro Hx. unfold live_at. rewrite (nth_upd l q q' x y Hx). destruct (Nat.eqb q q').
  - split; [intros (z & E & Hz); injection E as <-; exact Hz|intro Hy; eauto].
  - tauto.
Qed.

Lemma at_block_ctl r r' b : same_ctl (r_s r) (r_s r') -> (at_block r' b <-> at_block r b).
Proof. intros (H1 & H2 & _). unfold at_block. rewrite H1, H2. tauto. Qed.

Lemma inv_inner r r' q i a y :
  Inv r -> r_I r' = r_I r -> r_pl r' = r_pl r -> r_ph r' = r_ph r ->
  moves (r_s r) (r_s r') q (SRun i a) y -> seq_move (SRun i a) y ->
  (forall i' a', y = SRun i' a' -> a' <> AIdle -> i' < seq_len (s_cb (r_s r)) q) ->
  (forall b, mem_st r' (OBlock b) = mem_st r (OBlock b)) ->
  (forall b q, mem_st r' (OSeq b q) = mem_st r (OSeq b q)) ->
  Inv r'.
Proof.
  intros [Hc Hl Hb Hs Hr Hn] HI Hpl Hph (Hctl & Hx & Hsq) Hmv Hshape Hmb Hms.
  assert (Hat : forall b, at_block r' b <-> at_block r b) by (intro; now apply at_block_ctl).
  assert (Hin : forall b, in_blocks r' b <-> in_blocks r b) by (intro b; unfold in_blocks; rewrite Hat; tauto).
  destruct Hctl as (Hsp & Hcb & Hbp & Hbc & _).
  assert (Hnd : forall v, y <> SDone v) by (intros v E; subst y; inversion Hmv).
  assert (Hnth : forall q', nth_error (seqs_of (r_s r')) q' = if Nat.eqb q q' then Some y else nth_error (seqs_of (r_s r)) q').
  { intro q'. rewrite Hsq. eapply nth_upd. exact Hx. }
  assert (Hpe : forall b q', pending r' b q' <-> pending r b q').
  { intros b q'. unfold pending. rewrite Hph. destruct (r_ph r) as [|[|[b0 qs0] rest]|]; try tauto.
    assert (E : live_at (seqs_of (r_s r')) q' <-> live_at (seqs_of (r_s r)) q').
    { rewrite Hsq, (live_at_upd _ _ _ y q' Hx). destruct (Nat.eqb q q') eqn:Eq; [|tauto]. apply Nat.eqb_eq in Eq. subst q'.
      split; [intros _; exists (SRun i a); split; [exact Hx|discriminate]|intros _; exact Hnd]. }
    rewrite E. tauto. }
  constructor.
  - rewrite HI, Hpl. exact Hc.
  - rewrite Hph. exact Hl.
  - intros b Hi. apply Hb. now apply Hin.
  - intros b q' x' Hi Hx'. apply Hin in Hi. rewrite Hnth in Hx'. destruct (Nat.eqb q q') eqn:Eq.
    + apply Nat.eqb_eq in Eq. subst q'. injection Hx' as <-.
      pose proof (Hs b q _ Hi Hx) as Hold. simpl in Hold. destruct Hold as [Ho Hsh].
      destruct Hi as [[_ Hcb'] _]. subst b.
      inversion Hmv; subst; simpl; auto.
      * split; [exact Ho|]. eapply Hshape; eauto.
      * split; [eapply open_from_le; [|exact Ho]; lia|]. intro Hne. contradiction.
    + specialize (Hs b q' x' Hi Hx'). unfold seq_ok in *. rewrite Hph. exact Hs.
  - intros todo Ht. rewrite Hph in Ht. destruct (Hr todo Ht) as ((b0 & qs & rest & E & Ha & Hbe & Hd & Hm) & H2 & Hne0 & H3 & H4).
    split; [|split; [exact H2|split; [exact Hne0|split]]].
    + exists b0, qs, rest. split; [exact E|]. split; [now apply Hat|]. split; [now rewrite Hbp|]. split.
      * intros q' x' Hx'. rewrite Hnth in Hx'. destruct (Nat.eqb q q') eqn:Eq; [|eauto].
        apply Nat.eqb_eq in Eq. subst q'. destruct (Hd q _ Hx) as [Hq|Hq]; [left; exact Hq|discriminate].
      * intros q' v Hq Hx'. rewrite Hnth in Hx'. destruct (Nat.eqb q q') eqn:Eq.
        -- injection Hx' as Hx'. exfalso. eapply Hnd; eauto.
        -- rewrite Hms. eauto.
    + intros b q' Hn'. rewrite Hms. auto.
    + intros b q' Hi. rewrite Hms, Hpe. auto.
  - intro Hrun. rewrite Hph in Hrun. destruct (Hn Hrun) as (H1 & H2 & H3). split; [|split].
    + intros b Hbo Ht. rewrite Hmb. auto.
    + intros b q' Hend Hbo Ht Hc'. unfold ended in Hend. rewrite Hsp in Hend. rewrite Hmb in Ht. rewrite Hms in Hc'.
      exact (H2 b q' Hend Hbo Ht Hc').
    + intros b Hi Hbe. rewrite Hbp in Hbe. rewrite Hmb, Hbc. apply Hin in Hi. auto.
Qed.

(* ---- a sequence is launched: SIdle -> SRun i0 AIdle, memory shows it Running ---- *)
Lemma inv_launch r r' q i0 :
  Inv r -> r_I r' = r_I r -> r_pl r' = r_pl r -> r_ph r' = r_ph r ->
  in_blocks r (s_cb (r_s r)) ->
  moves (r_s r) (r_s r') q SIdle (SRun i0 AIdle) ->
  ((r_ph r = RRun /\ i0 = 0) \/
   (exists qs rest, r_ph r = RRecover ((s_cb (r_s r), qs) :: rest) /\ In q qs /\ i0 = first_open pl (s_cb (r_s r)) q)) ->
  mem_st r' (OSeq (s_cb (r_s r)) q) = Running ->
  (forall b, mem_st r' (OBlock b) = mem_st r (OBlock b)) ->
  (forall b q', (b, q') <> (s_cb (r_s r), q) -> mem_st r' (OSeq b q') = mem_st r (OSeq b q')) ->
  Inv r'.
Proof.
  intros [Hc Hl Hb Hs Hr Hn] HI Hpl Hph Hcur (Hctl & Hx & Hsq) Hkind Hrun Hmb Hms.
  set (cb := s_cb (r_s r)) in *.
  assert (Hat : forall b, at_block r' b <-> at_block r b) by (intro; now apply at_block_ctl).
  assert (Hin : forall b, in_blocks r' b <-> in_blocks r b) by (intro b; unfold in_blocks; rewrite Hat; tauto).
  destruct Hctl as (Hsp & Hcb & Hbp & Hbc & _).
  assert (Hnth : forall q', nth_error (seqs_of (r_s r')) q' = if Nat.eqb q q' then Some (SRun i0 AIdle) else nth_error (seqs_of (r_s r)) q').
  { intro q'. rewrite Hsq. eapply nth_upd. exact Hx. }
  assert (Hopen : open_from cb q i0).
  { destruct Hkind as [[Hrun' ->]|(qs & rest & Hrec & Hq & ->)].
    - pose proof (Hs cb q _ Hcur Hx) as Ho. simpl in Ho. now rewrite Hrun' in Ho.
    - destruct (Hr _ Hrec) as (_ & H2 & _). apply (rs_resumed RS). eapply H2; [left; reflexivity|exact Hq]. }
  constructor.
  - rewrite HI, Hpl. exact Hc.
  - rewrite Hph. exact Hl.
  - intros b Hi. apply Hb. now apply Hin.
  - intros b q' x' Hi Hx'. apply Hin in Hi. rewrite Hnth in Hx'. destruct (Nat.eqb q q') eqn:Eq.
    + apply Nat.eqb_eq in Eq. subst q'. injection Hx' as <-. destruct Hi as [[_ Hcb'] _]. fold cb in Hcb'. subst b.
      simpl. split; [exact Hopen|]. intro Hne. contradiction.
    + specialize (Hs b q' x' Hi Hx'). unfold seq_ok in *. rewrite Hph. exact Hs.
  - intros todo Ht. rewrite Hph in Ht. destruct (Hr todo Ht) as ((b0 & qs & rest & E & Ha & Hbe & Hd & Hm) & H2 & Hne0 & H3 & H4).
    assert (Hb0 : b0 = cb) by (destruct Ha as [_ Ha]; now rewrite <- Ha).
    assert (Hqin : In q qs).
    { destruct Hkind as [[Hrun' _]|(qs' & rest' & Hrec & Hq & _)]; [congruence|].
      rewrite Ht in Hrec. rewrite E in Hrec. injection Hrec as _ <- _. exact Hq. }
    assert (Hres : In (cb, q) resumed) by (eapply H2; [rewrite E; left; rewrite Hb0; reflexivity|exact Hqin]).
    split; [|split; [exact H2|split; [exact Hne0|split]]].
    + exists b0, qs, rest. split; [exact E|]. split; [now apply Hat|]. split; [now rewrite Hbp|]. split.
      * intros q' x' Hx'. rewrite Hnth in Hx'. destruct (Nat.eqb q q') eqn:Eq; [|eauto].
        apply Nat.eqb_eq in Eq. subst q'. left. exact Hqin.
      * intros q' v Hq Hx'. rewrite Hnth in Hx'. destruct (Nat.eqb q q') eqn:Eq; [discriminate|].
        apply Nat.eqb_neq in Eq. rewrite Hms; [eauto|]. intro E'. injection E' as _ E'. congruence.
    + intros b q' Hn'. rewrite Hms; [auto|]. intro E'. injection E' as -> ->. contradiction.
    + intros b q' Hi. destruct (Nat.eq_dec b cb) as [->|Hne]; [destruct (Nat.eq_dec q' q) as [->|Hne]|].
      * left. unfold pending. rewrite Hph, Ht, E. left. split; [now rewrite Hb0|]. split; [exact Hqin|].
        rewrite Hsq, (live_at_upd _ _ _ _ q Hx), Nat.eqb_refl. discriminate.
      * rewrite Hms by (intro E'; injection E' as E'; congruence).
        destruct (H4 _ _ Hi) as [Hp|Hp]; [left|right; exact Hp].
        unfold pending in *. rewrite Hph. rewrite Ht, E in *. destruct Hp as [(H5 & H6 & H7)|Hp]; [left|right; exact Hp].
        split; [exact H5|]. split; [exact H6|]. rewrite Hsq, (live_at_upd _ _ _ _ q' Hx).
        destruct (Nat.eqb q q') eqn:Eq; [discriminate|exact H7].
      * rewrite Hms by (intro E'; injection E' as E' _; congruence).
        destruct (H4 _ _ Hi) as [Hp|Hp]; [left|right; exact Hp].
        unfold pending in *. rewrite Hph. rewrite Ht, E in *. destruct Hp as [(H5 & H6 & H7)|Hp]; [|right; exact Hp].
        exfalso. apply Hne. now rewrite H5, Hb0.
  - intro Hrun'. rewrite Hph in Hrun'. destruct (Hn Hrun') as (H1 & H2 & H3). split; [|split].
    + intros b Hbo Ht. rewrite Hmb. auto.
    + intros b q' Hend Hbo Ht Hc'. unfold ended in Hend. rewrite Hsp in Hend. rewrite Hmb in Ht.
      destruct (Nat.eq_dec b cb) as [->|Hne]; [destruct (Nat.eq_dec q' q) as [->|Hne]|].
      * destruct Hkind as [[_ ->]|(qs & rest & Hrec & _)]; [exact Hopen|congruence].
      * rewrite Hms in Hc' by (intro E'; injection E' as E'; congruence). exact (H2 _ _ Hend Hbo Ht Hc').
      * rewrite Hms in Hc' by (intro E'; injection E' as E' _; congruence). exact (H2 _ _ Hend Hbo Ht Hc').
    + intros b Hi Hbe. rewrite Hbp in Hbe. rewrite Hmb, Hbc. apply Hin in Hi. auto.
Qed.

(* ---- the terminal write of a sequence: SPend v -> SDone v, memory shows it Completed / Failed ---- *)
Lemma inv_done r r' q v :
  Inv r -> r_I r' = r_I r -> r_pl r' = r_pl r -> r_ph r' = r_ph r ->
  moves (r_s r) (r_s r') q (SPend v) (SDone v) ->
  cf (mem_st r' (OSeq (s_cb (r_s r)) q)) ->
  (forall b, mem_st r' (OBlock b) = mem_st r (OBlock b)) ->
  (forall b q', (b, q') <> (s_cb (r_s r), q) -> mem_st r' (OSeq b q') = mem_st r (OSeq b q')) ->
  Inv r'.
Proof.
  intros [Hc Hl Hb Hs Hr Hn] HI Hpl Hph (Hctl & Hx & Hsq) Hcf Hmb Hms.
  set (cb := s_cb (r_s r)) in *.
  assert (Hat : forall b, at_block r' b <-> at_block r b) by (intro; now apply at_block_ctl).
  assert (Hin : forall b, in_blocks r' b <-> in_blocks r b) by (intro b; unfold in_blocks; rewrite Hat; tauto).
  destruct Hctl as (Hsp & Hcb & Hbp & Hbc & _).
  assert (Hnth : forall q', nth_error (seqs_of (r_s r')) q' = if Nat.eqb q q' then Some (SDone v) else nth_error (seqs_of (r_s r)) q').
  { intro q'. rewrite Hsq. eapply nth_upd. exact Hx. }
  constructor.
  - rewrite HI, Hpl. exact Hc.
  - rewrite Hph. exact Hl.
  - intros b Hi. apply Hb. now apply Hin.
  - intros b q' x' Hi Hx'. apply Hin in Hi. rewrite Hnth in Hx'. destruct (Nat.eqb q q') eqn:Eq.
    + injection Hx' as <-. exact Logic.I.
    + specialize (Hs b q' x' Hi Hx'). unfold seq_ok in *. rewrite Hph. exact Hs.
  - intros todo Ht. rewrite Hph in Ht. destruct (Hr todo Ht) as ((b0 & qs & rest & E & Ha & Hbe & Hd & Hm) & H2 & Hne0 & H3 & H4).
    assert (Hb0 : b0 = cb) by (destruct Ha as [_ Ha]; now rewrite <- Ha).
    assert (Hqin : In q qs) by (destruct (Hd q _ Hx) as [Hq|Hq]; [exact Hq|discriminate]).
    assert (Hres : In (cb, q) resumed) by (eapply H2; [rewrite E; left; rewrite Hb0; reflexivity|exact Hqin]).
    split; [|split; [exact H2|split; [exact Hne0|split]]].
    + exists b0, qs, rest. split; [exact E|]. split; [now apply Hat|]. split; [now rewrite Hbp|]. split.
      * intros q' x' Hx'. rewrite Hnth in Hx'. destruct (Nat.eqb q q') eqn:Eq; [|eauto].
        apply Nat.eqb_eq in Eq. subst q'. left. exact Hqin.
      * intros q' v' Hq Hx'. rewrite Hnth in Hx'. destruct (Nat.eqb q q') eqn:Eq.
        -- apply Nat.eqb_eq in Eq. subst q'. rewrite Hb0. exact Hcf.
        -- apply Nat.eqb_neq in Eq. rewrite Hms; [eauto|]. intro E'. injection E' as _ E'. congruence.
    + intros b q' Hn'. rewrite Hms; [auto|]. intro E'. injection E' as -> ->. contradiction.
    + intros b q' Hi. destruct (Nat.eq_dec b cb) as [->|Hne]; [destruct (Nat.eq_dec q' q) as [->|Hne]|].
      * right. exact Hcf.
      * rewrite Hms by (intro E'; injection E' as E'; congruence).
        destruct (H4 _ _ Hi) as [Hp|Hp]; [left|right; exact Hp].
        unfold pending in *. rewrite Hph. rewrite Ht, E in *. destruct Hp as [(H5 & H6 & H7)|Hp]; [left|right; exact Hp].
        split; [exact H5|]. split; [exact H6|]. rewrite Hsq, (live_at_upd _ _ _ _ q' Hx).
        destruct (Nat.eqb q q') eqn:Eq; [|exact H7]. apply Nat.eqb_eq in Eq. congruence.
      * rewrite Hms by (intro E'; injection E' as E' _; congruence).
        destruct (H4 _ _ Hi) as [Hp|Hp]; [left|right; exact Hp].
        unfold pending in *. rewrite Hph. rewrite Ht, E in *. destruct Hp as [(H5 & H6 & H7)|Hp]; [|right; exact Hp].
        exfalso. apply Hne. now rewrite H5, Hb0.
  - intro Hrun'. rewrite Hph in Hrun'. destruct (Hn Hrun') as (H1 & H2 & H3). split; [|split].
    + intros b Hbo Ht. rewrite Hmb. auto.
    + intros b q' Hend Hbo Ht Hc'. unfold ended in Hend. rewrite Hsp in Hend. rewrite Hmb in Ht.
      destruct (Nat.eq_dec b cb) as [->|Hne]; [destruct (Nat.eq_dec q' q) as [->|Hne]|].
      * contradiction.
      * rewrite Hms in Hc' by (intro E'; injection E' as E'; congruence). exact (H2 _ _ Hend Hbo Ht Hc').
      * rewrite Hms in Hc' by (intro E'; injection E' as E' _; congruence). exact (H2 _ _ Hend Hbo Ht Hc').
    + intros b Hi Hbe. rewrite Hbp in Hbe. rewrite Hmb, Hbc. apply Hin in Hi. auto.
Qed.

(* ---- a write of the current block ---- *)
Lemma inv_block_write r r' stt :
  Inv r -> r_I r' = r_I r -> r_pl r' = r_pl r -> r_ph r' = r_ph r ->
  in_blocks r (s_cb (r_s r)) ->
  keeps_seqs (r_s r) (r_s r') ->
  match stt with
  | Running => b_ph (s_b (r_s r)) = BEnter
  | Failed => b_cause (s_b (r_s r)) = true
  | Completed => b_ph (s_b (r_s r)) = BEnd
  | _ => False
  end ->
  mem_st r' (OBlock (s_cb (r_s r))) = stt ->
  (forall b, b <> s_cb (r_s r) -> mem_st r' (OBlock b) = mem_st r (OBlock b)) ->
  (forall b q, mem_st r' (OSeq b q) = mem_st r (OSeq b q)) ->
  Inv r'.
Proof.
  intros [Hc Hl Hb Hs Hr Hn] HI Hpl Hph Hcur (Hctl & Hsq) Hcond Hnew Hmb Hms.
  set (cb := s_cb (r_s r)) in *.
  assert (Hat : forall b, at_block r' b <-> at_block r b) by (intro; now apply at_block_ctl).
  assert (Hin : forall b, in_blocks r' b <-> in_blocks r b) by (intro b; unfold in_blocks; rewrite Hat; tauto).
  destruct Hctl as (Hsp & Hcb & Hbp & Hbc & _).
  assert (Hpe : forall b q, pending r' b q <-> pending r b q) by (intros b q; unfold pending; rewrite Hph, Hsq; tauto).
  constructor.
  - rewrite HI, Hpl. exact Hc.
  - rewrite Hph. exact Hl.
  - intros b Hi. apply Hb. now apply Hin.
  - intros b q x Hi Hx. rewrite Hsq in Hx. apply Hin in Hi. specialize (Hs b q x Hi Hx).
    unfold seq_ok in *. rewrite Hph. exact Hs.
  - intros todo Ht. rewrite Hph in Ht. destruct (Hr todo Ht) as ((b0 & qs & rest & E & Ha & Hbe & Hd & Hm) & H2 & Hne0 & H3 & H4).
    split; [|split; [exact H2|split; [exact Hne0|split]]].
    + exists b0, qs, rest. split; [exact E|]. split; [now apply Hat|]. split; [now rewrite Hbp|].
      rewrite Hsq. split; [exact Hd|]. intros q v Hq Hx. rewrite Hms. eauto.
    + intros b q Hn'. rewrite Hms. auto.
    + intros b q Hi. rewrite Hms, Hpe. auto.
  - intro Hrun. rewrite Hph in Hrun. destruct (Hn Hrun) as (H1 & H2 & H3). split; [|split].
    + intros b Hbo Ht. destruct (Nat.eq_dec b cb) as [->|Hne]; [|rewrite Hmb; auto].
      rewrite (Hb cb Hcur) in Ht. discriminate.
    + intros b q Hend Hbo Ht Hc'. unfold ended in Hend. rewrite Hsp in Hend. rewrite Hms in Hc'.
      destruct (Nat.eq_dec b cb) as [->|Hne]; [|rewrite Hmb in Ht by exact Hne; exact (H2 _ _ Hend Hbo Ht Hc')].
      rewrite Hnew in Ht. destruct stt; try discriminate; try contradiction.
      destruct (H3 cb Hcur Hcond) as [Hnt _]. exact (H2 _ _ Hend Hbo Hnt Hc').
    + intros b Hi Hbe. rewrite Hbp in Hbe. apply Hin in Hi. destruct (H3 b Hi Hbe) as [Hnt Hca].
      assert (b = cb) by (destruct Hi as [[_ Hi] _]; now rewrite <- Hi). subst b.
      rewrite Hnew, Hbc. split; [|exact Hca].
      destruct stt; try contradiction; try reflexivity; congruence.
Qed.

(* ---- memory after a write ---- *)
Lemma mem_write r s' o c o' :
  mem_st (with_mem (with_s r s') (iset (r_mem r) o c)) o' = if obj_eqb o o' then c_st c else mem_st r o'.
Proof.
  unfold mem_st, mst, mget, iset. simpl. destruct (obj_eqb o o') eqn:E.
  - apply obj_eqb_eq in E. subst o'. now rewrite over_cons_same.
  - rewrite over_cons_other; [reflexivity|]. intro H. subst o'. rewrite (proj2 (obj_eqb_eq o o) eq_refl) in E. discriminate.
Qed.

Lemma mem_write_other r s' o c o' : o <> o' -> mem_st (with_mem (with_s r s') (iset (r_mem r) o c)) o' = mem_st r o'.
Proof.
  intro H. rewrite mem_write. destruct (obj_eqb o o') eqn:E; [apply obj_eqb_eq in E; contradiction|reflexivity].
Qed.

Lemma mem_write_same r s' o c : mem_st (with_mem (with_s r s') (iset (r_mem r) o c)) o = c_st c.
Proof. rewrite mem_write. now rewrite (proj2 (obj_eqb_eq o o) eq_refl). Qed.

Lemma cur_in_blocks r b bs : cur_block sh (r_s r) b = Some bs -> in_blocks r b /\ b = s_cb (r_s r).
Proof.
  intro H. destruct (cur_block_some _ _ _ _ H) as (H1 & H2 & H3). split; [|exact H2].
  split; [split; [exact H1|now symmetry]|]. rewrite H3. discriminate.
Qed.

(* ---- what an accepted EvStart is about ---- *)
Definition ok_start (a : aref) : Prop :=
  match a with
  | AChk SPlan _ _ => True
  | AChk (SBlock b) _ _ => is_terminal (ist I (OBlock b)) = false
  | ASeq b q i => is_terminal (ist I (OBlock b)) = false /\ is_terminal (ist I (OSeq b q)) = false /\ act_open b q i
  end.
Definition start_ok (e : event) : Prop := match e with EvStart a => ok_start a | _ => True end.

(* a view-preserving update of the engine state, memory untouched *)
Lemma inv_keep r s' : Inv r -> keeps_seqs (r_s r) s' -> Inv (with_s r s').
Proof.
  intros Hi ((H1 & H2 & H3 & H4 & _) & H5). eapply inv_view; [|exact Hi].
  unfold same_view. simpl. repeat split; auto.
Qed.

Lemma inv_flush r o stt n lastok : Inv r -> Inv (with_s r (put (r_s r) o stt n lastok)).
Proof. intro Hi. apply inv_keep; [exact Hi|]. split; [unfold same_ctl; simpl; auto|reflexivity]. Qed.

(* the state chain left the blocks (or was never there): nothing of the block-level invariant is at stake *)
Lemma inv_out r s' :
  Inv r -> r_ph r = RRun -> s_ph s' <> PBlocks -> ended (with_s r s') \/ ~ ended r -> Inv (with_s r s').
Proof.
  intros [Hc Hl Hb Hs Hr Hn] Hrun Hout Hend.
  assert (Hno : forall b, ~ in_blocks (with_s r s') b) by (intros b [[H _] _]; simpl in H; contradiction).
  constructor; simpl; auto.
  - intros b Hi. exfalso. eapply Hno; eauto.
  - intros b q x Hi. exfalso. eapply Hno; eauto.
  - intros todo Ht. congruence.
  - intros _. destruct (Hn Hrun) as (H1 & H2 & H3). split; [exact H1|]. split.
    + intros b q Hne. destruct Hend as [He|He]; [contradiction|]. exact (H2 b q He).
    + intros b Hi. exfalso. eapply Hno; eauto.
Qed.

Lemma handle_start d r a r' :
  Inv r -> rhandle d sh r (EvStart a) = Some r' -> Inv r' /\ ok_start a.
Proof.
  intros Hi H. pose proof (i_live _ Hi) as Hl. unfold rhandle in H.
  assert (H' : option_map (with_s r) (handle sh (r_s r) (EvStart a)) = Some r') by (destruct (r_ph r); [contradiction|exact H..]).
  clear H. apply option_map_some in H' as (s' & H & ->). simpl in H.
  destruct (released (r_s r)); [discriminate|]. destruct (h_start_spec _ _ _ _ H) as [_ Hs].
  destruct a as [[|b] g i|b q i].
  - split; [now apply inv_keep|exact Logic.I].
  - destruct Hs as [(bs & Hc) Hk]. split; [now apply inv_keep|]. simpl.
    destruct (cur_in_blocks _ _ _ Hc) as [Hin _]. exact (i_blk _ Hi _ Hin).
  - destruct Hs as [(bs & Hc) (k & Hm)]. destruct (cur_in_blocks _ _ _ Hc) as [Hin Hb]. subst b.
    pose proof Hm as (_ & Hx & _). pose proof (i_seq _ Hi _ _ _ Hin Hx) as [Ho Hsh]. split.
    + apply (inv_inner r (with_s r s') q i (ARun k) (SRun i (AFly k)) Hi eq_refl eq_refl eq_refl Hm).
      * constructor.
      * intros i' a' E _. injection E as <- _. apply Hsh. discriminate.
      * reflexivity.
      * reflexivity.
    + simpl. split; [exact (i_blk _ Hi _ Hin)|]. destruct Ho as [Ho1 Ho2]. split; [exact Ho1|].
      apply Ho2; [lia|]. apply Hsh. discriminate.
Qed.

Lemma handle_end d r a o r' :
  Inv r -> rhandle d sh r (EvEnd a o) = Some r' -> Inv r'.
Proof.
  intros Hi H. pose proof (i_live _ Hi) as Hl. unfold rhandle in H.
  assert (H' : option_map (with_s r) (handle sh (r_s r) (EvEnd a o)) = Some r') by (destruct (r_ph r); [contradiction|exact H..]).
  clear H. apply option_map_some in H' as (s' & H & ->). simpl in H.
  destruct (h_end_spec _ _ _ _ _ H) as [_ [Hk|(b & q & i & k & -> & (bs & Hc) & Hm)]].
  - now apply inv_keep.
  - destruct (cur_in_blocks _ _ _ Hc) as [Hin Hb]. subst b.
    pose proof Hm as (_ & Hx & _). pose proof (i_seq _ Hi _ _ _ Hin Hx) as [Ho Hsh].
    apply (inv_inner r (with_s r s') q i (AFly k) (SRun i (ARet k o)) Hi eq_refl eq_refl eq_refl Hm).
    + constructor.
    + intros i' a' E _. injection E as <- _. apply Hsh. discriminate.
    + reflexivity.
    + reflexivity.
Qed.

Lemma handle_read d r snap r' :
  Inv r -> rhandle d sh r (EvRead snap) = Some r' -> Inv r'.
Proof.
  intros Hi H. pose proof (i_live _ Hi) as Hl. unfold rhandle in H.
  assert (H' : option_map (with_s r) (handle sh (r_s r) (EvRead snap)) = Some r') by (destruct (r_ph r); [contradiction|exact H..]).
  clear H. apply option_map_some in H' as (s' & H & ->). simpl in H. unfold h_read in H.
  assert (s' = r_s r) as ->.
  { destruct (s_fin (r_s r)); [destruct (images_agree _ _ _); [|discriminate]|]; now injection H as <-. }
  apply inv_keep; [exact Hi|]. split; [apply same_ctl_refl|reflexivity].
Qed.

Lemma handle_release d r fin r' :
  Inv r -> rhandle d sh r (EvRelease fin) = Some r' -> Inv r'.
Proof.
  intros Hi H. pose proof (i_live _ Hi) as Hl. unfold rhandle in H.
  assert (H' : r_release d sh r fin = Some r') by (destruct (r_ph r); [contradiction|exact H..]).
  clear H. unfold r_release in H'. destruct (r_ph r) eqn:Ep; [contradiction|discriminate|].
  destruct (all_flushed sh r && quiet d sh (r_I r) (mget r)); [|discriminate].
  apply option_map_some in H' as (s' & H & ->). unfold h_release in H.
  match type of H with (if ?c then _ else _) = _ => destruct c; [|discriminate] end. injection H as <-.
  apply inv_out; [exact Hi|exact Ep|simpl; discriminate|left; right; reflexivity].
Qed.

(* ---- EvWrite ---- *)
Lemma commit_eq r s1 o stt n lastok :
  commit (with_s r s1) o stt n lastok = with_mem (with_s r (put s1 o stt n lastok)) (iset (r_mem r) o (wcell stt n lastok)).
Proof. reflexivity. Qed.

Lemma r_write_cases r o stt n lastok rs r' :
  r_write sh r o stt n lastok rs = Some r' ->
  obj_in_shape sh o = true /\
  ((exists s', h_write sh (r_s r) o stt n lastok rs = Some s'
               /\ r' = with_mem (with_s r s') (iset (r_mem r) o (wcell stt n lastok)))
   \/ (exists b q b1 qs rest, o = OSeq b q /\ stt = Running /\ r_ph r = RRecover ((b, qs) :: rest) /\ In q qs
         /\ b_seq_upd (s_b (r_s r)) q (fun x => match x with SIdle => Some (SRun (first_open (r_pl r) b q) AIdle) | _ => None end) = Some b1
         /\ r' = commit (with_s r (with_b (r_s r) b1)) o stt n lastok)
   \/ (o = OPlan /\ r' = commit (with_s r (with_reason (r_s r) rs)) o stt n lastok)).
Proof.
  unfold r_write. intro H.
  destruct (released (r_s r) || negb (obj_in_shape sh o)) eqn:Eg; [discriminate|].
  apply orb_false_iff in Eg as [_ Eg]. apply negb_false_iff in Eg. split; [exact Eg|].
  assert (Hgen : option_map (fun s' => with_mem (with_s r s') (iset (r_mem r) o (wcell stt n lastok)))
                            (h_write sh (r_s r) o stt n lastok rs) = Some r' ->
                 exists s', h_write sh (r_s r) o stt n lastok rs = Some s'
                            /\ r' = with_mem (with_s r s') (iset (r_mem r) o (wcell stt n lastok))).
  { intro E. apply option_map_some in E as (s' & E & ->). eauto. }
  destruct o as [|sc g|b|b q|a].
  - destruct n; [destruct lastok|]; try (left; now apply Hgen).
    destruct (in_plan_end r); [|left; now apply Hgen].
    apply option_map_some in H as (r1 & E & ->). right. right. split; [reflexivity|].
    unfold r_plan_final in E. match type of E with (if ?c then _ else _) = _ => destruct c; [|discriminate] end.
    injection E as <-. reflexivity.
  - left. now apply Hgen.
  - left. now apply Hgen.
  - destruct stt; try (left; now apply Hgen).
    destruct n; [destruct lastok|]; try (left; now apply Hgen).
    destruct (r_launch r b q) as [r1|] eqn:E; [|left; now apply Hgen].
    injection H as <-. right. left. unfold r_launch in E.
    destruct (r_ph r) as [| [|[b' qs] rest] |] eqn:Ep; try discriminate.
    destruct (Nat.eqb b b' && existsb (Nat.eqb q) qs) eqn:Eb; [|discriminate].
    apply andb_true_iff in Eb as [Eb1 Eb2]. apply Nat.eqb_eq in Eb1. subst b'.
    apply existsb_exists in Eb2 as (q' & Hq & Eq). apply Nat.eqb_eq in Eq. subst q'.
    destruct (b_seq_upd _ _ _) as [b1|] eqn:Eu; [|discriminate]. injection E as <-.
    exists b, q, b1, qs, rest. repeat split; auto.
  - left. now apply Hgen.
Qed.

Lemma in_shape_seq_action b q i : obj_in_shape sh (OAct (ASeq b q i)) = true -> i < seq_len b q.
Proof.
  unfold obj_in_shape, retries_of, seq_len. destruct (seq_of sh b q) as [rs|]; [|discriminate].
  destruct (nth_error rs i) eqn:E; [|discriminate]. intros _. eapply nth_error_some_lt; eauto.
Qed.

Lemma in_shape_seq_block b q : obj_in_shape sh (OSeq b q) = true -> block_of sh b <> None.
Proof.
  unfold obj_in_shape, seq_of. destruct (block_of sh b); [discriminate|discriminate].
Qed.

Lemma handle_write d r o stt n lastok rs r' :
  Inv r -> rhandle d sh r (EvWrite o stt n lastok rs) = Some r' -> Inv r'.
Proof.
  intros Hi H. pose proof (i_live _ Hi) as Hl. pose proof (i_const _ Hi) as [HcI Hcpl]. unfold rhandle in H.
  assert (H' : r_write sh r o stt n lastok rs = Some r') by (destruct (r_ph r); [contradiction|exact H..]).
  clear H. destruct (r_write_cases _ _ _ _ _ _ _ H') as [Hshape [(s' & Hw & ->)|[(b & q & b1 & qs & rest & -> & -> & Hph & Hq & Hu & ->)|[-> ->]]]].
  - (* a write the engine's handlers take *)
    destruct (h_write_spec _ _ _ _ _ _ _ _ Hw) as (_ & _ & He).
    assert (Hview : forall o0, (forall b, o0 <> OBlock b) -> (forall b q, o0 <> OSeq b q) -> keeps_seqs (r_s r) s' ->
                     Inv (with_mem (with_s r s') (iset (r_mem r) o0 (wcell stt n lastok)))).
    { intros o0 Hn1 Hn2 ((H1 & H2 & H3 & H4 & _) & H5). eapply inv_view; [|exact Hi].
      unfold same_view. simpl. repeat split; auto.
      - intro b. apply mem_write_other. intro E. eapply Hn1; eauto.
      - intros b q. apply mem_write_other. intro E. eapply Hn2; eauto. }
    unfold write_effect in He. destruct o as [|[|b] g|b|b q|[[|b] g i|b q i]].
    + apply Hview; [discriminate|discriminate|exact He].
    + apply Hview; [discriminate|discriminate|exact He].
    + apply Hview; [discriminate|discriminate|apply He].
    + (* OBlock *)
      destruct He as ((bs & Hc) & Hk & Hcond). destruct (cur_in_blocks _ _ _ Hc) as [Hin Hb]. subst b.
      eapply inv_block_write with (r := r) (stt := stt); [exact Hi|reflexivity|reflexivity|reflexivity|exact Hin|exact Hk|exact Hcond|..].
      * apply mem_write_same.
      * intros b Hne. apply mem_write_other. intro E. injection E as E. congruence.
      * intros b q. apply mem_write_other. discriminate.
    + (* OSeq *)
      destruct He as ((bs & Hc) & He). destruct (cur_in_blocks _ _ _ Hc) as [Hin Hb]. subst b.
      destruct stt; try contradiction.
      * destruct He as [Hbs Hm].
        assert (Hrun : r_ph r = RRun).
        { destruct (r_ph r) as [|todo|] eqn:Ep; [contradiction| |reflexivity].
          destruct (i_rec _ Hi _ Ep) as ((b0 & qs & rest & _ & _ & Hbe & _) & _). congruence. }
        eapply inv_launch with (r := r) (q := q) (i0 := 0); [exact Hi|reflexivity|reflexivity|reflexivity|exact Hin|exact Hm|..].
        -- left. split; [exact Hrun|reflexivity].
        -- apply mem_write_same.
        -- intro b. apply mem_write_other. discriminate.
        -- intros b q' Hne. apply mem_write_other. intro E. injection E as <- <-. contradiction.
      * eapply inv_done with (r := r) (q := q) (v := true); [exact Hi|reflexivity|reflexivity|reflexivity|exact He|..].
        -- rewrite mem_write_same. left. reflexivity.
        -- intro b. apply mem_write_other. discriminate.
        -- intros b q' Hne. apply mem_write_other. intro E. injection E as <- <-. contradiction.
      * eapply inv_done with (r := r) (q := q) (v := false); [exact Hi|reflexivity|reflexivity|reflexivity|exact He|..].
        -- rewrite mem_write_same. right. reflexivity.
        -- intro b. apply mem_write_other. discriminate.
        -- intros b q' Hne. apply mem_write_other. intro E. injection E as <- <-. contradiction.
    + apply Hview; [discriminate|discriminate|exact He].
    + apply Hview; [discriminate|discriminate|apply He].
    + (* sequence action *)
      destruct He as ((bs & Hc) & a & y & Hm & Hmv & _). destruct (cur_in_blocks _ _ _ Hc) as [Hin Hb]. subst b.
      eapply inv_inner with (r := r) (q := q) (i := i) (a := a) (y := y); [exact Hi|reflexivity|reflexivity|reflexivity|exact Hm|exact Hmv|..].
      * intros i' a' E Hne. subst y. inversion Hmv; subst; [|contradiction]. now apply in_shape_seq_action.
      * intro b. apply mem_write_other. discriminate.
      * intros b q'. apply mem_write_other. discriminate.
  - (* execSeq of a resumed sequence *)
    rewrite commit_eq.
    destruct (b_seq_upd_spec _ _ _ _ Hu) as (x & y & Hx & Hf & ->). destruct x; try discriminate. injection Hf as <-.
    destruct (i_rec _ Hi _ Hph) as ((b0 & qs0 & rest0 & E & Ha & _) & _). injection E as <- <- <-.
    assert (Hcb : s_cb (r_s r) = b) by (apply Ha).
    assert (Hin : in_blocks r (s_cb (r_s r))).
    { rewrite Hcb. split; [exact Ha|]. eapply in_shape_seq_block; eauto. }
    assert (Hm : moves (r_s r) (put (with_b (r_s r) (b_with_seqs (s_b (r_s r)) (upd (b_seqs (s_b (r_s r))) q (SRun (first_open (r_pl r) b q) AIdle)))) (OSeq b q) Running n lastok)
                       q SIdle (SRun (first_open (r_pl r) b q) AIdle)).
    { split; [unfold same_ctl; simpl; auto|]. split; [exact Hx|reflexivity]. }
    eapply inv_launch with (r := r) (q := q); [exact Hi|reflexivity|reflexivity|reflexivity|exact Hin|exact Hm|..].
    + right. exists qs, rest. rewrite Hcb, Hcpl. auto.
    + rewrite Hcb. apply mem_write_same.
    + intro b'. apply mem_write_other. discriminate.
    + intros b' q' Hne. apply mem_write_other. intro E. injection E as <- <-. apply Hne. now rewrite Hcb.
  - (* the terminal plan write *)
    rewrite commit_eq. eapply inv_view; [|exact Hi]. unfold same_view. simpl. repeat split; auto.
Qed.

Lemma handle_inv d r e r' : Inv r -> rhandle d sh r e = Some r' -> Inv r' /\ start_ok e.
Proof.
  intros Hi H. destruct e.
  - eapply handle_start; eauto.
  - split; [eapply handle_end; eauto|exact Logic.I].
  - split; [eapply handle_write; eauto|exact Logic.I].
  - split; [eapply handle_read; eauto|exact Logic.I].
  - split; [eapply handle_release; eauto|exact Logic.I].
Qed.

Lemma flush_inv r e r' : Inv r -> flush sh r e = Some r' -> Inv r' /\ start_ok e.
Proof.
  intros Hi H. unfold flush in H. destruct (r_ph r); [discriminate| |];
    (destruct e; try discriminate; destruct o; try discriminate;
     match type of H with (if ?c then _ else _) = _ => destruct c; [|discriminate] end; injection H as <-;
     (split; [now apply inv_flush|exact Logic.I])).
Qed.

Lemma stutter_ok r e : rstutter sh r e = true -> start_ok e.
Proof.
  unfold rstutter, stutter. destruct (r_ph r); [discriminate| |]; destruct e; try discriminate; intros _; exact Logic.I.
Qed.

Lemma pair_dec (x y : nat * nat) : {x = y} + {x <> y}.
Proof. decide equality; apply Nat.eq_dec. Qed.

(* ---- (re)starting fixBlock's resumption on the blocks of [todo], or taking the entry point ---- *)
Lemma plan_phase_not_blocks t : plan_phase_of t <> PBlocks.
Proof. destruct t; discriminate. Qed.

Lemma rec_block_live b qs q bs :
  block_of sh b = Some bs -> nth_error (bs_seqs bs) q <> None -> In q qs ->
  live_at (b_seqs (rec_block sh b qs)) q.
Proof.
  intros Hb Hq Hin. unfold rec_block. simpl. rewrite Hb.
  assert (Hlt : q < length (bs_seqs bs)) by (apply nth_error_Some; exact Hq).
  exists SIdle. split; [|discriminate].
  rewrite nth_error_map.
  assert (Hs : nth_error (seq 0 (length (bs_seqs bs))) q = Some q).
  { rewrite nth_error_nth' with (d := 0) by (now rewrite seq_length). now rewrite seq_nth. }
  rewrite Hs. simpl.
  assert (E : existsb (Nat.eqb q) qs = true) by (apply existsb_exists; exists q; split; [exact Hin|apply Nat.eqb_refl]).
  now rewrite E.
Qed.

Lemma inv_start_recover r todo :
  r_I r = I -> r_pl r = pl ->
  (forall b qs q, In (b, qs) todo -> In q qs -> In (b, q) resumed) ->
  (forall b qs, In (b, qs) todo -> qs <> []) ->
  (forall b q, ~ In (b, q) resumed -> mem_st r (OSeq b q) = seq_st0 b q) ->
  (forall b q, In (b, q) resumed -> (exists qs', In (b, qs') todo /\ In q qs') \/ cf (mem_st r (OSeq b q))) ->
  Inv (start_recover sh r todo).
Proof.
  intros HI Hpl Hsub Hne Hnon Hres. destruct todo as [|[b qs] rest].
  - (* the repair is finished: Recovery's switch *)
    simpl. unfold take_entry.
    set (m := finished_mem sh r).
    assert (Hmb : forall b, block_of sh b <> None -> mst m (OBlock b) = blk_st (r_fails r) b).
    { intros b Hb. unfold m, mst, blk_st. rewrite finished_block by exact Hb. now rewrite Hpl. }
    assert (Hms : forall b q, mst m (OSeq b q) = mem_st r (OSeq b q)).
    { intros b q. unfold m, mst, mem_st. now rewrite finished_seq. }
    assert (Hmg : forall o, mem_st {| r_s := {| s_img := s_img (r_s r); s_reason := s_reason (r_s r); s_ph := plan_phase_of (mst m OPlan);
                    s_g := plan_gtab sh m; s_thr := TNone; s_cb := 0; s_b := b_none; s_late := s_late (r_s r); s_fin := None |};
                    r_base := r_base r; r_mem := finish_mem sh (r_pl r) (r_fails r) (r_mem r); r_ph := RRun; r_I := r_I r; r_pl := r_pl r;
                    r_fails := r_fails r |} o = mst m o) by reflexivity.
    constructor; simpl.
    + auto.
    + discriminate.
    + intros b0 [[H _] _]. simpl in H. exfalso. eapply plan_phase_not_blocks; eauto.
    + intros b0 q x [[H _] _]. simpl in H. exfalso. eapply plan_phase_not_blocks; eauto.
    + intros todo Ht. discriminate.
    + intros _. split; [|split].
      * intros b0 Hb Ht. rewrite Hmg, Hmb by exact Hb. eapply (rs_block RS); eauto.
      * intros b0 q Hend Hsq Ht Hc. rewrite Hmg in Ht, Hc.
        assert (Hpt : is_terminal (pln_st (r_fails r)) = false).
        { unfold ended in Hend. simpl in Hend.
          assert (Hmp : mst m OPlan = pln_st (r_fails r)).
          { unfold m, mst, pln_st, finished_mem, finish_mem. rewrite over_cons_same. now rewrite Hpl. }
          rewrite Hmp in Hend. destruct (pln_st (r_fails r)); try reflexivity; exfalso; apply Hend; left; reflexivity. }
        assert (Hb : block_of sh b0 <> None) by (unfold seq_of in Hsq; destruct (block_of sh b0); [discriminate|contradiction]).
        rewrite Hmb in Ht by exact Hb. rewrite Hms in Hc.
        destruct (in_dec pair_dec (b0, q) resumed) as [Hin|Hnin].
        -- destruct (Hres _ _ Hin) as [(qs' & [] & _)|Hcf]. contradiction.
        -- rewrite Hnon in Hc by exact Hnin. eapply (rs_seq RS); eauto.
      * intros b0 [[H _] _]. simpl in H. exfalso. eapply plan_phase_not_blocks; eauto.
  - (* fixBlock resumes the sequences qs of block b *)
    simpl.
    assert (Hq0 : exists q0, In q0 qs).
    { destruct qs as [|q0 qs']; [exfalso; eapply Hne; [left; reflexivity|reflexivity]|exists q0; left; reflexivity]. }
    destruct Hq0 as (q0 & Hq0).
    assert (Hrb : ist I (OBlock b) = Running).
    { apply (rs_resumed RS) with (q := q0). eapply Hsub; [left; reflexivity|exact Hq0]. }
    constructor; simpl.
    + auto.
    + discriminate.
    + intros b0 [[_ H] _]. simpl in H. subst b0. rewrite Hrb. reflexivity.
    + intros b0 q x _ Hx. unfold seqs_of in Hx. simpl in Hx.
      destruct (rec_block_nth _ _ _ _ _ Hx) as [[_ ->]|[_ ->]]; exact Logic.I.
    + intros todo Ht. injection Ht as <-. split; [|split; [exact Hsub|split; [exact Hne|split]]].
      * exists b, qs, rest. split; [reflexivity|]. split; [split; reflexivity|]. split; [reflexivity|]. split.
        -- intros q x Hx. unfold seqs_of in Hx. simpl in Hx.
           destruct (rec_block_nth _ _ _ _ _ Hx) as [[Hin _]|[_ ->]]; auto.
        -- intros q v Hin Hx. unfold seqs_of in Hx. simpl in Hx.
           destruct (rec_block_nth _ _ _ _ _ Hx) as [[_ E]|[Hn _]]; [discriminate|contradiction].
      * exact Hnon.
      * intros b0 q Hin. destruct (Hres _ _ Hin) as [(qs' & [E|Hr] & Hq)|Hcf]; [|left|right; exact Hcf].
        -- injection E as <- <-. left. unfold pending. simpl. left. split; [reflexivity|]. split; [exact Hq|].
           destruct (rs_resumed RS _ _ Hin) as (_ & Hsq & _). unfold seq_of in Hsq.
           destruct (block_of sh b) as [bs|] eqn:Eb; [|contradiction].
           unfold seqs_of. simpl. eapply rec_block_live; eauto.
        -- unfold pending. simpl. right. eauto.
    + intro H. discriminate.
Qed.

(* ---- epsilon-moves ---- *)
Lemma inv_stay r s' :
  Inv r -> r_ph r = RRun -> s_ph s' = PBlocks -> s_ph (r_s r) = PBlocks -> s_cb s' = s_cb (r_s r) ->
  seqs_of s' = seqs_of (r_s r) -> b_ph (s_b s') <> BEnter -> Inv (with_s r s').
Proof.
  intros [Hc Hl Hb Hs Hr Hn] Hrun Hp' Hp Hcb Hsq Hbe.
  assert (Hin : forall b, in_blocks (with_s r s') b -> in_blocks r b).
  { intros b [[_ H2] H3]. simpl in H2. split; [split; [exact Hp|congruence]|exact H3]. }
  constructor; simpl; auto.
  - intros b q x Hi Hx. rewrite Hsq in Hx. specialize (Hs b q x (Hin _ Hi) Hx). exact Hs.
  - intros todo Ht. congruence.
  - intros _. destruct (Hn Hrun) as (H1 & H2 & H3). split; [exact H1|]. split.
    + intros b q _. apply H2. unfold ended. rewrite Hp. intros [E|E]; discriminate.
    + intros b Hi Hbe'. contradiction.
Qed.

Lemma seq_init_nth m cb n q x :
  nth_error (map (seq_init m cb) (seq 0 n)) q = Some x -> x = seq_init m cb q /\ q < n.
Proof.
  intro H. assert (Hq : q < n).
  { apply nth_error_some_lt in H. now rewrite map_length, seq_length in H. }
  split; [|exact Hq].
  rewrite nth_error_map in H.
  assert (Hs : nth_error (seq 0 n) q = Some q).
  { rewrite nth_error_nth' with (d := 0) by (now rewrite seq_length). now rewrite seq_nth. }
  rewrite Hs in H. simpl in H. now injection H as <-.
Qed.

Lemma inv_enter r s' cb' :
  Inv r -> r_ph r = RRun -> ~ ended r -> s_ph s' = PBlocks ->
  (block_of sh cb' <> None -> is_terminal (mst (mget r) (OBlock cb')) = false) ->
  Inv (with_s r (with_block s' cb' (match block_of sh cb' with Some bs => rb_init bs (mget r) cb' | None => b_none end))).
Proof.
  intros [Hc Hl Hb Hs Hr Hn] Hrun Hnend Hp' Hnt. destruct (Hn Hrun) as (H1 & H2 & H3).
  assert (Hin : forall b, in_blocks (with_s r (with_block s' cb' (match block_of sh cb' with Some bs => rb_init bs (mget r) cb' | None => b_none end))) b ->
                          b = cb' /\ block_of sh cb' <> None).
  { intros b [[_ H5] H6]. simpl in H5. subst b. auto. }
  constructor; simpl; auto.
  - intros b Hi. destruct (Hin _ Hi) as [-> Hbo]. specialize (Hnt Hbo).
    destruct (is_terminal (ist I (OBlock cb'))) eqn:Et; [|reflexivity].
    specialize (H1 cb' Hbo Et). unfold mem_st in H1. congruence.
  - intros b q x Hi Hx. destruct (Hin _ Hi) as [-> Hbo]. specialize (Hnt Hbo).
    unfold seqs_of in Hx. simpl in Hx. destruct (block_of sh cb') as [bs|] eqn:Eb; [|contradiction].
    simpl in Hx. apply seq_init_nth in Hx as [-> Hlt]. unfold seq_init.
    assert (Hsq : seq_of sh cb' q <> None).
    { unfold seq_of. rewrite Eb. apply nth_error_Some. exact Hlt. }
    destruct (mst (mget r) (OSeq cb' q)) eqn:Est; simpl; try exact Logic.I; rewrite Hrun;
      (apply H2; [exact Hnend|exact Hsq|exact Hnt|]); unfold mem_st; rewrite Est; intros [E|E]; discriminate.
  - intros todo Ht. congruence.
  - intros _. split; [exact H1|]. split; [intros b q _; exact (H2 b q Hnend)|].
    intros b Hi Hbe. destruct (Hin _ Hi) as [-> Hbo]. split; [exact (Hnt Hbo)|].
    destruct (block_of sh cb'); [reflexivity|contradiction].
Qed.

Lemma forallb_nth_done l q x : forallb s_done l = true -> nth_error l q = Some x -> exists v, x = SDone v.
Proof.
  intros H Hx. pose proof (forallb_nth _ _ _ _ H Hx) as Hd. destruct x; try discriminate. eauto.
Qed.

Lemma p_eps_not_ended s s' : p_eps sh s = Some s' -> s_ph s <> PEnd /\ s_ph s <> PReleased.
Proof. unfold p_eps. destruct (s_ph s); intro H; try discriminate; split; discriminate. Qed.

Lemma reps_inv r r1 : Inv r -> reps sh r = Some r1 -> Inv r1.
Proof.
  intros Hi H. unfold reps in H. destruct (r_ph r) as [| [|[b qs] todo] |] eqn:Ep; try discriminate.
  - (* fixBlock's g.Wait returned for this block *)
    destruct (forallb s_done (b_seqs (s_b (r_s r)))) eqn:Ed; [|discriminate]. injection H as <-.
    destruct (i_const _ Hi) as [HI Hpl].
    destruct (i_rec _ Hi _ Ep) as ((b0 & qs0 & rest & E & Ha & Hbe & Hd & Hm) & H2 & Hne & H3 & H4).
    injection E as <- <- <-.
    apply inv_start_recover; simpl; auto.
    + intros b' qs' q Hin Hq. eapply H2; [right; exact Hin|exact Hq].
    + intros b' qs' Hin. eapply Hne. right. exact Hin.
    + intros b' q Hin. destruct (H4 _ _ Hin) as [Hp|Hcf]; [|right; exact Hcf].
      unfold pending in Hp. rewrite Ep in Hp. destruct Hp as [(_ & _ & (x & Hx & Hnd))|Hp]; [|left; exact Hp].
      destruct (forallb_nth_done _ _ _ Ed Hx) as (v & ->). exfalso. eapply Hnd; eauto.
  - (* a phase move of the state chain *)
    apply option_map_some in H as (s2 & H & ->). unfold rp_eps in H.
    destruct (p_eps sh (r_s r)) as [s'|] eqn:Ee; [|discriminate]. injection H as <-.
    assert (Hnend : ~ ended r) by (destruct (p_eps_not_ended _ _ Ee) as [A B]; intros [E|E]; contradiction).
    destruct (p_eps_spec _ _ _ Ee) as [_ [Hent|[Hent Hst]]].
    + change (entered (r_s r) s') with (entered_new (r_s r) s'). rewrite Hent.
      destruct (r_enter_spec sh (mget r) s' (s_cb s')) as (cb' & -> & Hnt).
      apply inv_enter; auto. unfold entered_new in Hent. apply andb_true_iff in Hent as [Hent _].
      destruct (s_ph s'); try discriminate. reflexivity.
    + change (entered (r_s r) s') with (entered_new (r_s r) s'). rewrite Hent.
      destruct (pphase_eqb (s_ph s') PBlocks) eqn:Epb.
      * assert (Hp' : s_ph s' = PBlocks) by (destruct (s_ph s'); try discriminate; reflexivity).
        destruct (Hst Hp') as (Hp & Hcb & Hsq & Hbe). apply inv_stay; auto.
      * apply inv_out; auto. intro Hp'. rewrite Hp' in Epb. discriminate.
Qed.

(* ---- the initial state ---- *)
Lemma ifind_seq_objs b q s b' q' :
  (b, q) <> (b', q') -> ifind (seq_objs_of b q s) (OSeq b' q') = None.
Proof.
  intro Hne. unfold seq_objs_of. rewrite ifind_cons.
  destruct (obj_eqb (OSeq b q) (OSeq b' q')) eqn:E.
  - apply obj_eqb_eq in E. injection E as <- <-. contradiction.
  - induction (indexed (F.sq_acts s)) as [|[i a] l IH]; [reflexivity|]. rewrite map_cons, ifind_cons. exact IH.
Qed.

Lemma mem0_nonresumed b q : ~ In (b, q) resumed -> ifind (mem0 pl) (OSeq b q) = None.
Proof.
  unfold mem0. fold resumed.
  assert (G : forall l, ~ In (b, q) l ->
              ifind (flat_map (fun bq => match resumed_seq pl (fst bq) (snd bq) with
                                         | Some s => seq_objs_of (fst bq) (snd bq) s | None => [] end) l) (OSeq b q) = None).
  { induction l as [|[b' q'] l IH]; intro Hn; [reflexivity|].
    cbn [flat_map fst snd]. rewrite ifind_app.
    assert (Hne : (b', q') <> (b, q)) by (intro E; apply Hn; left; exact E).
    destruct (resumed_seq pl b' q') as [s0|].
    - rewrite ifind_seq_objs by exact Hne. apply IH. intro Hin. apply Hn. right. exact Hin.
    - simpl. apply IH. intro Hin. apply Hn. right. exact Hin. }
  apply G.
Qed.

Lemma group_nonempty l : forall b qs, In (b, qs) (group_by_block l) -> qs <> [].
Proof.
  induction l as [|[b0 q0] l IH]; intros b qs H; simpl in H; [contradiction|].
  destruct (group_by_block l) as [|[b' qs'] r] eqn:E.
  - destruct H as [H|[]]. injection H as <- <-. discriminate.
  - destruct (Nat.eqb b0 b').
    + destruct H as [H|H]; [injection H as <- <-; discriminate|eapply IH; right; exact H].
    + destruct H as [H|H]; [injection H as <- <-; discriminate|eapply IH; exact H].
Qed.

Lemma rinit_inv rs r0 :
  ist I OPlan = Running -> rinit sh I rs = Some r0 -> Inv r0.
Proof.
  intros Hp H. unfold rinit in H. rewrite Hp in H. simpl in H.
  destruct (negb (resumable_ok (pln_of sh I))); [discriminate|]. injection H as <-.
  apply inv_start_recover; simpl; auto.
  - intros b qs q Hin Hq. eapply group_in; eauto.
  - intros b qs Hin. eapply group_nonempty; eauto.
  - intros b q Hn. unfold mem_st, mst, mget, over. simpl. fold pl. rewrite mem0_nonresumed by exact Hn. reflexivity.
  - intros b q Hin. left. apply in_group. exact Hin.
Qed.

(* ---- C09 at the level of the automaton ---- *)
Theorem resumed_starts_ok d rs r0 tr r :
  ist I OPlan = Running -> rinit sh I rs = Some r0 -> rrun d sh r0 tr = Some r -> Forall start_ok tr.
Proof.
  intros Hp Hi H.
  exact (proj2 (rrun_events Inv start_ok d sh reps_inv (handle_inv d) flush_inv (fun r e _ => stutter_ok r e)
                            tr r0 r (rinit_inv rs r0 Hp Hi) H)).
Qed.
End NoReexec.
