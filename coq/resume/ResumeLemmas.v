(* Generic facts about the resumed automaton: the shape of [rstep] (a handler after some epsilon-moves, a stutter, or
   a flush), the invariant rule for [rrun], concatenation.  No property-specific content. *)
From Coq Require Import Lia.
From Coercion.Base Require Import Plan.
From Coercion.Engine Require Import Shape Event Action ChecksRun Seq Block Final PlanSM Auto Accept AutoLemmas.
From Coercion.Resume Require Import Resume.

Inductive reps_star (sh : shape) : rst -> rst -> Prop :=
| reps_refl r : reps_star sh r r
| reps_more r r1 r2 : reps sh r = Some r1 -> reps_star sh r1 r2 -> reps_star sh r r2.

Lemma rhandle_eps_spec d sh fuel r e r' :
  rhandle_eps d sh fuel r e = Some r' -> exists r0, reps_star sh r r0 /\ rhandle d sh r0 e = Some r'.
Proof.
  revert r; induction fuel as [|f IH]; intros r H; simpl in H.
  - destruct (rhandle d sh r e) eqn:E; [|discriminate]. injection H as <-. exists r. split; [constructor|assumption].
  - destruct (rhandle d sh r e) eqn:E.
    + injection H as <-. exists r. split; [constructor|assumption].
    + destruct (reps sh r) as [r1|] eqn:E1; [|discriminate].
      destruct (IH _ H) as (r0 & Hs & Hh). exists r0. split; [econstructor; eauto|assumption].
Qed.

(* every step is a handler after some epsilon-moves, a stutter that changes nothing, or a flush *)
Lemma rstep_spec d sh r e r' :
  rstep d sh r e = Some r' ->
  (exists r0, reps_star sh r r0 /\ rhandle d sh r0 e = Some r')
  \/ (r' = r /\ rstutter sh r e = true)
  \/ flush sh r e = Some r'.
Proof.
  unfold rstep. intro H. destruct (rhandle_eps d sh (r_fuel sh) r e) eqn:E.
  - injection H as <-. left. eapply rhandle_eps_spec; eauto.
  - destruct (rstutter sh r e) eqn:S.
    + injection H as <-. right. left. auto.
    + right. right. exact H.
Qed.

Lemma reps_star_inv (P : rst -> Prop) sh :
  (forall r r1, P r -> reps sh r = Some r1 -> P r1) ->
  forall r r0, reps_star sh r r0 -> P r -> P r0.
Proof. intros HP r r0 H. induction H; intro; eauto. Qed.

(* invariant rule: P is kept by epsilon-moves, by every handler and by flushes => P is kept by rstep and rrun *)
Lemma rstep_inv (P : rst -> Prop) d sh :
  (forall r r1, P r -> reps sh r = Some r1 -> P r1) ->
  (forall r e r', P r -> rhandle d sh r e = Some r' -> P r') ->
  (forall r e r', P r -> flush sh r e = Some r' -> P r') ->
  forall r e r', P r -> rstep d sh r e = Some r' -> P r'.
Proof.
  intros He Hh Hf r e r' HP H. destruct (rstep_spec _ _ _ _ _ H) as [(r0 & Hs & H0)|[[-> _]|H0]].
  - apply (Hh r0 e r'); [|exact H0]. exact (reps_star_inv P sh He r r0 Hs HP).
  - exact HP.
  - eapply Hf; eauto.
Qed.

Lemma rrun_inv (P : rst -> Prop) d sh :
  (forall r e r', P r -> rstep d sh r e = Some r' -> P r') ->
  forall tr r r', P r -> rrun d sh r tr = Some r' -> P r'.
Proof.
  intros HP tr. induction tr as [|e tr IH]; intros r r' Hr H; simpl in H.
  - now injection H as <-.
  - destruct (rstep d sh r e) eqn:E; [|discriminate]. eauto.
Qed.

Lemma rrun_app d sh tr1 tr2 r :
  rrun d sh r (tr1 ++ tr2) = match rrun d sh r tr1 with Some r1 => rrun d sh r1 tr2 | None => None end.
Proof. revert r; induction tr1 as [|e tr IH]; intro r; simpl; auto. destruct (rstep d sh r e); auto. Qed.

(* a property of every accepted event: Q r e holds of the state in which the handler took e *)
Lemma rrun_events (P : rst -> Prop) (Q : event -> Prop) d sh :
  (forall r r1, P r -> reps sh r = Some r1 -> P r1) ->
  (forall r e r', P r -> rhandle d sh r e = Some r' -> P r' /\ Q e) ->
  (forall r e r', P r -> flush sh r e = Some r' -> P r' /\ Q e) ->
  (forall r e, P r -> rstutter sh r e = true -> Q e) ->
  forall tr r r', P r -> rrun d sh r tr = Some r' -> P r' /\ Forall Q tr.
Proof.
  intros He Hh Hf Hs tr. induction tr as [|e tr IH]; intros r r' Hr H; simpl in H.
  - injection H as <-. split; [assumption|constructor].
  - destruct (rstep d sh r e) as [r1|] eqn:E; [|discriminate].
    assert (P r1 /\ Q e) as [H1 HQ].
    { destruct (rstep_spec _ _ _ _ _ E) as [(r0 & Hst & H0)|[[-> S]|H0]].
      - apply (Hh r0 e r1); [|exact H0]. exact (reps_star_inv P sh He r r0 Hst Hr).
      - split; [assumption|]. eapply Hs; eauto.
      - eapply Hf; eauto. }
    destruct (IH _ _ H1 H) as [H2 HF]. split; [assumption|]. constructor; assumption.
Qed.
