(* Correspondence checker of C09 / C10 (harness/cmd/recover).  No proofs here.

   rcase = CRun sh tr snaps                    an uninterrupted run of the real engine and the read-back of the whole
                                               plan after each of its writes;
         | CRec sh I tr verdict determined lvl a real recovery: the crash image I (what the store returns before the
                                               new Workstream is opened), the trace of the recovering process, the
                                               final status of the uninterrupted run, whether plugin outcomes were a
                                               function of the action alone, 1 = single crash / 2 = crash of a recovery.

   check_rcase known c : list (list nat)
     CRun: [ engine automaton: Accept.check_trace ; [0] | [1; k] read-back k differs from crash_image sh tr k ;
             the resumed automaton started on the fresh plan (Resume.rfresh), no flag: same codes as below ]
     CRec: [ resumed automaton under every flag: [0] | [1; i; kind; rphase; pphase; bphase] first rejected event
                                                 | [2; rphase; pphase; bphase] never released | [3] conc = 0
                                                 | [4] the repaired image is not one a run can start from ;
             flags the automaton needs (2 3 5 6 for R2 R3 R5 R6) ;
             mon_noreexec_diag ;
             mon_converges_diag under no flag ;
             flags the monitor needs ;
             mon_converges_diag under the flags [known] ;
             [0] | [1] the crash image (plan Running) is not well-formed: ImgWf.img_wf ]
   rcase_ok known c : what the kernel-checked lemma of every shard states. *)
From Coercion.Base Require Import Plan.
From Coercion.Engine Require Import Shape Event Action ChecksRun Seq Block Final PlanSM Auto Accept.
From Coercion.Resume Require Import Resume MonRecover ImgWf.

Inductive rcase :=
| CRun (sh : shape) (tr : list event) (snaps : list image)
| CRec (sh : shape) (I : image) (tr : list event) (verdict : status) (determined : bool) (level : nat).

(* ------------------------------------------------------------------ diagnosis of a run of the resumed automaton *)
Definition rphase_code (p : rphase) : nat := match p with RIdle => 0 | RRecover _ => 1 | RRun => 2 end.

Fixpoint rrun_diag (d : devs) (sh : shape) (r : rst) (tr : list event) (i : nat) : (rst * option (nat * event)) :=
  match tr with
  | [] => (r, None)
  | e :: tr' => match rstep d sh r e with
                | Some r' => rrun_diag d sh r' tr' (S i)
                | None => (r, Some (i, e)) end
  end.

Definition where_codes (r : rst) : list nat :=
  [rphase_code (r_ph r); pphase_code (s_ph (r_s r)); bphase_code (b_ph (s_b (r_s r)))].

(* ------------------------------------------------------------------ CRun *)
(* read-back k (1-based) against the image after the first k writes, incrementally *)
Fixpoint snaps_agree (objs : list obj) (ir : dimg * reason) (ws : list (obj * cell * reason)) (snaps : list image) (k : nat)
  : option nat :=
  match ws, snaps with
  | w :: ws', sn :: snaps' =>
      let ir' := apply_write ir w in
      if image_agrees objs (fst ir') (snd ir') sn then snaps_agree objs ir' ws' snaps' (S k) else Some k
  | [], [] => None
  | _, _ => Some k                      (* not one read-back per write *)
  end.

(* the resumed automaton started on the fresh plan accepts the uninterrupted run (no deviation flag) *)
Definition check_fresh (sh : shape) (tr : list event) : list nat :=
  if negb (shape_wf sh) then [3] else
  match rrun_diag dev_none sh (rfresh sh) tr 0 with
  | (r, Some (i, e)) => [1; i; event_kind e] ++ where_codes r
  | (r, None) => if rreleased r then [0] else 2 :: where_codes r
  end.

Definition check_run (sh : shape) (tr : list event) (snaps : list image) : list (list nat) :=
  [ check_trace sh tr;
    match snaps_agree (all_objs sh) ([], FRUnknown) (writes_of tr) snaps 1 with None => [0] | Some k => [1; k] end;
    check_fresh sh tr ].

(* ------------------------------------------------------------------ CRec *)
Definition check_resume (d : devs) (sh : shape) (I : image) (tr : list event) : list nat :=
  if negb (shape_wf sh) then [3] else
  match rinit sh (dimg_of_image I) (im_reason I) with
  | None => [4]
  | Some r0 =>
      match rrun_diag d sh r0 tr 0 with
      | (r, Some (i, e)) => [1; i; event_kind e] ++ where_codes r
      | (r, None) => if rreleased r then [0] else 2 :: where_codes r
      end
  end.

Definition accepted (l : list nat) : bool := match l with [0] => true | _ => false end.

Definition minus (d : devs) (f : nat) : devs :=
  {| dev_R2 := dev_R2 d && negb (Nat.eqb f 2); dev_R3 := dev_R3 d && negb (Nat.eqb f 3);
     dev_R5 := dev_R5 d && negb (Nat.eqb f 5); dev_R6 := dev_R6 d && negb (Nat.eqb f 6) |}.

(* the flags without which [test] fails, given that it passes with all of them *)
Definition needed (test : devs -> bool) : list nat :=
  if test dev_none then [] else filter (fun f => negb (test (minus dev_all f))) [2; 3; 5; 6].

Definition check_rec (known : devs) (sh : shape) (I : image) (tr : list event) (verdict : status) (determined : bool)
  : list (list nat) :=
  let full := check_resume dev_all sh I tr in
  [ full;
    if accepted full then needed (fun d => accepted (check_resume d sh I tr)) else [];
    mon_noreexec_diag I tr;
    mon_converges_diag dev_none sh I tr verdict determined;
    if mon_converges dev_all sh I tr verdict determined
    then needed (fun d => mon_converges d sh I tr verdict determined) else [];
    mon_converges_diag known sh I tr verdict determined;
    (* the crash image of a plan that is resumed is well-formed (premise of the C09 theorem) *)
    if negb (status_eqb (cst I OPlan) Running) || img_wf sh (dimg_of_image I) then [0] else [1] ].

Definition check_rcase (known : devs) (c : rcase) : list (list nat) :=
  match c with
  | CRun sh tr snaps => check_run sh tr snaps
  | CRec sh im tr verdict determined _ => check_rec known sh im tr verdict determined
  end.

Definition rcase_ok (known : devs) (c : rcase) : bool :=
  match c with
  | CRun sh tr snaps => forallb accepted (check_run sh tr snaps)
  | CRec sh im tr verdict determined _ =>
      raccepts known sh im tr && mon_noreexec im tr && mon_converges known sh im tr verdict determined
  end.
