(* C09: from the automaton-level result (NoReexec.resumed_starts_ok) to the monitor MonRecover.mon_noreexec, and the
   chain of crashes.  Proofs only. *)
From Coq Require Import Lia.
From Coercion.Base Require Import Plan.
From Coercion.Engine Require Import Shape Event Action ChecksRun Seq Block Final PlanSM Auto Accept AutoLemmas.
From Coercion.Resume Require Import Resume MonRecover ResumeLemmas ReleaseProofs Frame NoReexec.

Lemma first_bad_none I tr i :
  Forall (fun e => match e with EvStart a => may_start I a = true | _ => True end) tr -> first_bad_start I tr i = None.
Proof.
  intro H. revert i. induction H as [|e tr He _ IH]; intro i; [reflexivity|].
  simpl. destruct e; try apply IH. rewrite He. apply IH.
Qed.

Lemma may_start_of_ok I a :
  cst I OPlan = Running -> ok_start (dimg_of_image I) a -> may_start I a = true.
Proof.
  intros Hp H. unfold may_start. rewrite Hp. simpl. unfold ok_start in H.
  destruct a as [[|b] g i|b q i].
  - reflexivity.
  - unfold finished. rewrite <- ist_dimg_of_image, H. reflexivity.
  - destruct H as (H1 & H2 & H3 & H4). unfold finished, has_result.
    rewrite <- !ist_dimg_of_image, H1, H2. simpl.
    unfold ist. rewrite H3. simpl. rewrite <- cn_dimg_of_image, H4. reflexivity.
Qed.

(* C09 for one recovery: whatever the resumed automaton accepts from the crash image never starts durably
   finished work - given what the invariant needs to know about the repair of that image *)
Lemma noreexec_of_repair_sound d sh I tr r0 r :
  repair_sound sh (dimg_of_image I) ->
  rinit sh (dimg_of_image I) (im_reason I) = Some r0 ->
  rrun d sh r0 tr = Some r ->
  mon_noreexec I tr = true.
Proof.
  intros RS Hi H. unfold mon_noreexec. rewrite first_bad_none; [reflexivity|].
  destruct (status_eqb (cst I OPlan) Running) eqn:Ep.
  - apply status_eqb_eq in Ep.
    assert (Hp : ist (dimg_of_image I) OPlan = Running) by (now rewrite ist_dimg_of_image).
    pose proof (resumed_starts_ok sh (dimg_of_image I) RS d (im_reason I) r0 tr r Hp Hi H) as HF.
    eapply Forall_impl; [|exact HF]. intros e He. destruct e; auto. simpl in He. now apply may_start_of_ok.
  - assert (Hn : cst I OPlan <> Running) by (intro E; rewrite E in Ep; discriminate).
    pose proof (unresumed_plan_runs_nothing d sh I tr r0 r Hi Hn H) as HF.
    eapply Forall_impl; [|exact HF]. intros e He. destruct e; auto; contradiction.
Qed.

(* ------------------------------------------------------------------ ... for well-formed images *)
From Coercion.Resume Require Import ImgWf RepairSound.

Lemma rinit_resumable sh im rs r0 :
  ist im OPlan = Running -> rinit sh im rs = Some r0 -> resumable_ok (pln_of sh im) = true.
Proof.
  unfold rinit. intros -> H. simpl in H. destruct (resumable_ok (pln_of sh im)); [reflexivity|discriminate].
Qed.

Lemma img_wf_wf0 sh I : img_wf sh I = true -> img_wf0 sh I = true.
Proof. unfold img_wf, img_wf0. intro H. now apply andb_true_iff in H as [H _]. Qed.

(* one crash: the image only has to be well-formed when its plan is Running (otherwise nothing runs at all) *)
Lemma noreexec_of_wf0 d sh I tr r0 r :
  (cst I OPlan = Running -> img_wf0 sh (dimg_of_image I) = true) ->
  rinit sh (dimg_of_image I) (im_reason I) = Some r0 ->
  rrun d sh r0 tr = Some r ->
  mon_noreexec I tr = true.
Proof.
  intros Hwf Hi H. destruct (status_eqb (cst I OPlan) Running) eqn:Ep.
  - apply status_eqb_eq in Ep.
    assert (Hp : ist (dimg_of_image I) OPlan = Running) by (now rewrite ist_dimg_of_image).
    eapply noreexec_of_repair_sound; eauto.
    apply repair_sound_holds; auto. eapply rinit_resumable; eauto.
  - unfold mon_noreexec. rewrite first_bad_none; [reflexivity|].
    assert (Hn : cst I OPlan <> Running) by (intro E; rewrite E in Ep; discriminate).
    pose proof (unresumed_plan_runs_nothing d sh I tr r0 r Hi Hn H) as HF.
    eapply Forall_impl; [|exact HF]. intros e He. destruct e; auto; contradiction.
Qed.

(* ------------------------------------------------------------------ chains of crashes
   A chain: the process that restarts on image I does tr and crashes after k of its writes; the next process
   restarts on the durable image that leaves behind; and so on.  Images are (durable image, plan reason). *)
Fixpoint chain_accepted (d : devs) (sh : shape) (im : dimg) (rs : reason) (steps : list (list event * nat)) : Prop :=
  match steps with
  | [] => True
  | (tr, k) :: rest =>
      (exists r0 r, rinit sh im rs = Some r0 /\ rrun d sh r0 tr = Some r)
      /\ chain_accepted d sh (fst (crash_from im rs tr k)) (snd (crash_from im rs tr k)) rest
  end.

Fixpoint chain_wf0 (sh : shape) (im : dimg) (rs : reason) (steps : list (list event * nat)) : Prop :=
  match steps with
  | [] => True
  | (tr, k) :: rest =>
      (ist im OPlan = Running -> img_wf0 sh im = true)
      /\ chain_wf0 sh (fst (crash_from im rs tr k)) (snd (crash_from im rs tr k)) rest
  end.

(* the same with the stronger img_wf (five clauses) *)
Fixpoint chain_wf (sh : shape) (im : dimg) (rs : reason) (steps : list (list event * nat)) : Prop :=
  match steps with
  | [] => True
  | (tr, k) :: rest =>
      (ist im OPlan = Running -> img_wf sh im = true)
      /\ chain_wf sh (fst (crash_from im rs tr k)) (snd (crash_from im rs tr k)) rest
  end.

(* every EvStart of every process of the chain is of work that the image THAT process restarted on shows unfinished *)
Fixpoint chain_noreexec (sh : shape) (im : dimg) (rs : reason) (steps : list (list event * nat)) : Prop :=
  match steps with
  | [] => True
  | (tr, k) :: rest =>
      Forall (fun e => match e with
                       | EvStart a => ist im OPlan = Running /\ ok_start im a
                       | _ => True end) tr
      /\ chain_noreexec sh (fst (crash_from im rs tr k)) (snd (crash_from im rs tr k)) rest
  end.

Lemma starts_of_wf d sh im rs tr r0 r :
  (ist im OPlan = Running -> img_wf0 sh im = true) ->
  rinit sh im rs = Some r0 -> rrun d sh r0 tr = Some r ->
  Forall (fun e => match e with EvStart a => ist im OPlan = Running /\ ok_start im a | _ => True end) tr.
Proof.
  intros Hwf Hi H. destruct (status_eqb (ist im OPlan) Running) eqn:Ep.
  - apply status_eqb_eq in Ep.
    assert (RS : repair_sound sh im).
    { apply repair_sound_holds; auto. eapply rinit_resumable; eauto. }
    pose proof (resumed_starts_ok sh im RS d rs r0 tr r Ep Hi H) as HF.
    eapply Forall_impl; [|exact HF]. intros e He. destruct e; auto.
  - assert (Hidle : idle r0) by (eapply rinit_idle; eauto).
    pose proof (idle_run d sh tr r0 r Hidle H) as HF.
    eapply Forall_impl; [|exact HF]. intros e He. destruct e; auto; contradiction.
Qed.

Lemma crash_chain_noreexec0 d sh steps : forall im rs,
  chain_accepted d sh im rs steps -> chain_wf0 sh im rs steps -> chain_noreexec sh im rs steps.
Proof.
  induction steps as [|[tr k] rest IH]; intros im rs Ha Hw; simpl in *; [exact Logic.I|].
  destruct Ha as [(r0 & r & Hi & Hr) Ha]. destruct Hw as [Hw0 Hw]. split; [|now apply IH].
  eapply starts_of_wf; eauto.
Qed.

Lemma chain_wf_wf0 sh steps : forall im rs, chain_wf sh im rs steps -> chain_wf0 sh im rs steps.
Proof.
  induction steps as [|[tr k] rest IH]; intros im rs H; simpl in *; [exact Logic.I|].
  destruct H as [H0 H]. split; [intro Hp; apply img_wf_wf0; auto|now apply IH].
Qed.

Lemma crash_chain_noreexec d sh steps : forall im rs,
  chain_accepted d sh im rs steps -> chain_wf sh im rs steps -> chain_noreexec sh im rs steps.
Proof. intros im rs Ha Hw. apply (crash_chain_noreexec0 d); [exact Ha|now apply chain_wf_wf0]. Qed.

Lemma noreexec_of_wf d sh I tr r0 r :
  (cst I OPlan = Running -> img_wf sh (dimg_of_image I) = true) ->
  rinit sh (dimg_of_image I) (im_reason I) = Some r0 ->
  rrun d sh r0 tr = Some r ->
  mon_noreexec I tr = true.
Proof. intros Hwf. apply noreexec_of_wf0. intro Hp. apply img_wf_wf0. auto. Qed.

Lemma repair_sound_facts sh I :
  img_wf0 sh I = true -> ist I OPlan = Running -> resumable_ok (pln_of sh I) = true ->
  (forall fl b, block_of sh b <> None -> is_terminal (ist I (OBlock b)) = true -> is_terminal (blk_st sh I fl b) = true)
  /\ (forall fl b q, is_terminal (pln_st sh I fl) = false ->
        seq_of sh b q <> None -> is_terminal (blk_st sh I fl b) = false -> ~ In (b, q) (resumed sh I) ->
        ~ cf (seq_st0 sh I b q) -> open_from sh I b q 0)
  /\ (forall b q, In (b, q) (resumed sh I) ->
        ist I (OBlock b) = Running /\ seq_of sh b q <> None /\ open_from sh I b q (first_open (pln_of sh I) b q)).
Proof. intros H1 H2 H3. destruct (repair_sound_holds sh I H1 H2 H3) as [A B C]. auto. Qed.
