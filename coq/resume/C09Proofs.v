(* C09: from the automaton-level result (NoReexec.resumed_starts_ok) to the monitor MonRecover.mon_noreexec, and the
   chain of crashes.  Proofs only. *)
From Coq Require Import Lia.
From Coercion.Base Require Import Plan.
From Coercion.Engine Require Import Shape Event Action ChecksRun Seq Block Final PlanSM Auto Accept AutoLemmas.
From Coercion.Resume Require Import Resume MonRecover ResumeLemmas ReleaseProofs Frame NoReexec.

Lemma first_bad_none I tr i :
  Forall (fun e => match e with EvStart a => may_start I a = true | _ => True end) tr -> first_bad_start I tr i = None.
Proof.
  intro H. revert i. induction H as [|e tr He _ IH]; intro i; [reflexivity|].
  simpl. destruct e; try apply IH. rewrite He. apply IH.
Qed.

Lemma may_start_of_ok I a :
  cst I OPlan = Running -> ok_start (dimg_of_image I) a -> may_start I a = true.
Proof.
  intros Hp H. unfold may_start. rewrite Hp. simpl. unfold ok_start in H.
  destruct a as [[|b] g i|b q i].
  - reflexivity.
  - unfold finished. rewrite <- ist_dimg_of_image, H. reflexivity.
  - destruct H as (H1 & H2 & H3 & H4). unfold finished, succeeded.
    rewrite <- !ist_dimg_of_image, H1, H2. simpl.
    unfold ist. rewrite H3. simpl. rewrite <- cn_dimg_of_image, <- cok_dimg_of_image, H4. reflexivity.
Qed.

(* C09 for one recovery: whatever the resumed automaton accepts from the crash image never starts durably
   finished work - given what the invariant needs to know about the repair of that image *)
Lemma noreexec_of_repair_sound d sh I tr r0 r :
  repair_sound sh (dimg_of_image I) ->
  rinit sh (dimg_of_image I) (im_reason I) = Some r0 ->
  rrun d sh r0 tr = Some r ->
  mon_noreexec I tr = true.
Proof.
  intros RS Hi H. unfold mon_noreexec. rewrite first_bad_none; [reflexivity|].
  destruct (status_eqb (cst I OPlan) Running) eqn:Ep.
  - apply status_eqb_eq in Ep.
    assert (Hp : ist (dimg_of_image I) OPlan = Running) by (now rewrite ist_dimg_of_image).
    pose proof (resumed_starts_ok sh (dimg_of_image I) RS d (im_reason I) r0 tr r Hp Hi H) as HF.
    eapply Forall_impl; [|exact HF]. intros e He. destruct e; auto. simpl in He. now apply may_start_of_ok.
  - assert (Hn : cst I OPlan <> Running) by (intro E; rewrite E in Ep; discriminate).
    pose proof (unresumed_plan_runs_nothing d sh I tr r0 r Hi Hn H) as HF.
    eapply Forall_impl; [|exact HF]. intros e He. destruct e; auto; contradiction.
Qed.
