(* What the invariant of the resumed automaton (NoReexec.v) needs to know about the crash repair - the record
   [repair_sound sh I] - holds for every well-formed image (ImgWf.img_wf) whose plan is Running and which passes
   the model's start guard (resumable_ok): derived from the transcription Fix.v of recovery.go and the theorems of
   coq/recover (fix_never_unfinishes, plan_processes_blocks, fix_seq_running_form, ...).  Proofs only. *)
From Coq Require Import Lia.
From Coercion.Base Require Import Plan.
From Coercion.Engine Require Import Shape Event Action ChecksRun Seq Block Final PlanSM Auto Accept AutoLemmas.
From Coercion.Recover Require Fix FixSpec FixProofs.
From Coercion.Resume Require Import Resume ResumeLemmas Frame NoReexec ImgWf.
From Coercion.Resume Require FixFacts.
Module FF := Coercion.Resume.FixFacts.
Module FP := Coercion.Recover.FixProofs.

(* ------------------------------------------------------------------ the execution oracle meets the contract *)
Lemma oracle_contract fl : FS.run_contract (oracle fl).
Proof.
  apply FP.exec_seq_contract. intros a _. unfold run_act_of.
  destruct (existsb (Nat.eqb (F.ac_id a)) fl); simpl; auto.
Qed.

(* ------------------------------------------------------------------ the encoding pln_of *)
Lemma nth_indexed {A} (l : list A) i : nth_error (indexed l) i = option_map (fun x => (i, x)) (nth_error l i).
Proof.
  unfold indexed.
  assert (G : forall k, nth_error (combine (seq k (length l)) l) i = option_map (fun x => (k + i, x)) (nth_error l i)).
  { revert i. induction l as [|x l IH]; intros i k; [destruct i; reflexivity|].
    destruct i; simpl; [now rewrite Nat.add_0_r|]. rewrite IH. destruct (nth_error l i); simpl; [|reflexivity].
    f_equal. f_equal. lia. }
  apply (G 0).
Qed.

Lemma nth_map_indexed {A B} (f : nat * A -> B) (l : list A) i :
  nth_error (map f (indexed l)) i = option_map (fun x => f (i, x)) (nth_error l i).
Proof. rewrite nth_error_map, nth_indexed. destruct (nth_error l i); reflexivity. Qed.

Lemma nth_map_seq {B} (f : nat -> B) n i : nth_error (map f (seq 0 n)) i = if i <? n then Some (f i) else None.
Proof.
  rewrite nth_error_map. destruct (i <? n) eqn:E.
  - apply Nat.ltb_lt in E. rewrite nth_error_nth' with (d := 0) by (now rewrite seq_length). now rewrite seq_nth.
  - apply Nat.ltb_ge in E. assert (H : nth_error (seq 0 n) i = None) by (apply nth_error_None; now rewrite seq_length).
    now rewrite H.
Qed.

Section Encoding.
Variable sh : shape.
Variable I : dimg.
Let p := pln_of sh I.

Lemma get_blk_of b : FS.get_blk p b = option_map (blk_of sh I b) (block_of sh b).
Proof. unfold FS.get_blk, p, pln_of, block_of. simpl. now rewrite nth_map_indexed. Qed.

Lemma blk_of_st b bs : F.bk_st (blk_of sh I b bs) = ist I (OBlock b).
Proof. reflexivity. Qed.

Lemma blk_seqs_nth b bs q :
  nth_error (F.bk_seqs (blk_of sh I b bs)) q = option_map (seq_of_img sh I b q) (nth_error (bs_seqs bs) q).
Proof. unfold blk_of. simpl. now rewrite nth_map_indexed. Qed.

Lemma get_seq_of b q bs :
  block_of sh b = Some bs -> FS.get_seq p b q = option_map (seq_of_img sh I b q) (nth_error (bs_seqs bs) q).
Proof. intro Hb. unfold FS.get_seq. rewrite get_blk_of, Hb. simpl. apply blk_seqs_nth. Qed.

Lemma seq_img_st b q rs : F.sq_st (seq_of_img sh I b q rs) = ist I (OSeq b q).
Proof. reflexivity. Qed.

Lemma seq_img_acts_nth b q rs i :
  nth_error (F.sq_acts (seq_of_img sh I b q rs)) i
  = if i <? length rs then Some (act_of I (aid sh b q i) (ASeq b q i)) else None.
Proof. exact (nth_map_seq (fun i => act_of I (aid sh b q i) (ASeq b q i)) (length rs) i). Qed.

Lemma seq_img_acts_len b q rs : length (F.sq_acts (seq_of_img sh I b q rs)) = length rs.
Proof. unfold seq_of_img. simpl. now rewrite map_length, seq_length. Qed.

Lemma act_of_st id a : F.ac_st (act_of I id a) = c_st (iget I (OAct a)).
Proof. reflexivity. Qed.

Lemma act_of_atts id a : F.ac_atts (act_of I id a) = atts_of (c_n (iget I (OAct a))) (c_ok (iget I (OAct a))).
Proof. reflexivity. Qed.

Lemma atts_of_closed n ok : Forall (fun x => F.x_endz x = false) (atts_of n ok).
Proof.
  destruct n; simpl; [constructor|]. apply Forall_app. split; [|repeat constructor].
  induction n; simpl; constructor; auto.
Qed.

Lemma atts_of_nil n ok : atts_of n ok = [] -> n = 0.
Proof. destruct n; [reflexivity|]. simpl. intro H. destruct (repeat _ n); discriminate. Qed.
End Encoding.

(* ------------------------------------------------------------------ fix_action on an encoded action *)
(* an action that the repair leaves (or makes) NotStarted was NotStarted, or Running without any attempt *)
Lemma fix_action_notstarted I id a :
  F.ac_st (F.fix_action (act_of I id a)) = NotStarted ->
  c_st (iget I (OAct a)) = NotStarted \/ (c_st (iget I (OAct a)) = Running /\ c_n (iget I (OAct a)) = 0).
Proof.
  unfold F.fix_action. rewrite act_of_st, act_of_atts.
  destruct (status_eqb (c_st (iget I (OAct a))) Running) eqn:Er; simpl.
  - apply status_eqb_eq in Er. intro H. right. split; [exact Er|].
    remember (atts_of (c_n (iget I (OAct a))) (c_ok (iget I (OAct a)))) as l eqn:El.
    destruct (F.strip_open (rev l)) as [|x r'] eqn:Es.
    + (* all attempts open: with closed attempts only, there is none *)
      assert (Hl : l = []).
      { pose proof (atts_of_closed (c_n (iget I (OAct a))) (c_ok (iget I (OAct a)))) as Hc. rewrite <- El in Hc.
        destruct (rev l) as [|y r] eqn:Erev.
        - apply (f_equal (@rev _)) in Erev. rewrite rev_involutive in Erev. exact Erev.
        - simpl in Es. assert (Hy : F.x_endz y = false).
          { rewrite Forall_forall in Hc. apply Hc. apply in_rev. rewrite Erev. left. reflexivity. }
          rewrite Hy in Es. discriminate. }
      rewrite Hl in El. symmetry in El. now apply atts_of_nil in El.
    + simpl in H. destruct (F.x_err x); discriminate.
  - intro H. left. exact H.
Qed.

(* ------------------------------------------------------------------ the three facts *)
Section Sound.
Variable sh : shape.
Variable I : dimg.
Let p := pln_of sh I.
Hypothesis Hwf : img_wf0 sh I = true.
Hypothesis Hrun : ist I OPlan = Running.
Hypothesis Hres : resumable_ok p = true.

Lemma wf_block b bs : block_of sh b = Some bs -> block_wf I b bs = true.
Proof.
  intro Hb. pose proof Hwf as H. unfold img_wf0 in H.
  rewrite forallb_forall in H. apply (H (b, bs)).
  apply nth_error_In with (n := b). rewrite nth_indexed. unfold block_of in Hb. now rewrite Hb.
Qed.

Lemma wf_seq b bs q rs :
  block_of sh b = Some bs -> nth_error (bs_seqs bs) q = Some rs -> seq_wf I (ist I (OBlock b)) b q rs = true.
Proof.
  intros Hb Hq. pose proof (wf_block _ _ Hb) as H. unfold block_wf in H. apply andb_true_iff in H as [_ H].
  rewrite forallb_forall in H. apply (H (q, rs)). apply nth_error_In with (n := q). rewrite nth_indexed. now rewrite Hq.
Qed.

Lemma wf_act b bs q rs i :
  block_of sh b = Some bs -> nth_error (bs_seqs bs) q = Some rs -> i < length rs ->
  act_wf I (ist I (OSeq b q)) (ASeq b q i) = true.
Proof.
  intros Hb Hq Hi. pose proof (wf_seq _ _ _ _ Hb Hq) as H. unfold seq_wf in H. apply andb_true_iff in H as [_ H].
  rewrite forallb_forall in H. apply H. apply in_seq. lia.
Qed.

(* an action that is NotStarted in a well-formed image, or Running without attempts, may run *)
Lemma open_of_fresh b bs q rs i :
  block_of sh b = Some bs -> nth_error (bs_seqs bs) q = Some rs -> i < length rs ->
  c_st (iget I (OAct (ASeq b q i))) = NotStarted \/ (c_st (iget I (OAct (ASeq b q i))) = Running /\ c_n (iget I (OAct (ASeq b q i))) = 0) ->
  act_open I b q i.
Proof.
  intros Hb Hq Hi H. pose proof (wf_act _ _ _ _ _ Hb Hq Hi) as Hw. unfold act_wf in Hw.
  apply andb_true_iff in Hw as [Hw _]. apply andb_true_iff in Hw as [_ Hw].
  unfold act_open. destruct H as [H|[H H0]].
  - rewrite H in *. simpl in Hw. apply Nat.eqb_eq in Hw. split; [reflexivity|exact Hw].
  - rewrite H. split; [reflexivity|exact H0].
Qed.

(* every action of a NotStarted sequence may run *)
Lemma open_of_notstarted_seq b bs q rs :
  block_of sh b = Some bs -> nth_error (bs_seqs bs) q = Some rs -> ist I (OSeq b q) = NotStarted ->
  open_from sh I b q 0.
Proof.
  intros Hb Hq Hs. split; [now rewrite Hs|]. intros j _ Hj. unfold seq_len, seq_of in Hj. rewrite Hb, Hq in Hj.
  eapply open_of_fresh; eauto. left.
  pose proof (wf_act _ _ _ _ _ Hb Hq Hj) as Hw. unfold act_wf in Hw. apply andb_true_iff in Hw as [_ Hw].
  rewrite Hs in Hw. simpl in Hw. unfold fresh_cell in Hw. apply andb_true_iff in Hw as [Hw _]. now apply status_eqb_eq.
Qed.

(* ---- rs_block ---- *)
Lemma sound_block fl b :
  block_of sh b <> None -> is_terminal (ist I (OBlock b)) = true -> is_terminal (blk_st sh I fl b) = true.
Proof.
  intros Hb Ht. destruct (block_of sh b) as [bs|] eqn:Eb; [|contradiction].
  unfold blk_st, pl_cell.
  assert (H : FS.get_blk (F.fp_pln (fixed fl (pln_of sh I))) b = Some (blk_of sh I b bs)).
  { unfold fixed. apply FP.never_unfinishes_block; [apply oracle_contract| |exact Ht].
    rewrite get_blk_of, Eb. reflexivity. }
  rewrite H. simpl. exact Ht.
Qed.

(* ---- the plan-level early returns, read off the image ---- *)
Lemma chk_is_ochk t g :
  F.chk_is t (ochk_of I SPlan (sh_groups sh) g) = grp_present sh SPlan g && status_eqb (ist I (OChecks SPlan g)) t.
Proof.
  unfold ochk_of, grp_present, group_of. simpl. destruct (grp_get (sh_groups sh) g); reflexivity.
Qed.

Lemma early_iff : FF.plan_returns_early p = plan_early sh I.
Proof.
  unfold FF.plan_returns_early, plan_early, group_failed, F.checks_failed, p, pln_of. simpl.
  rewrite FP.chk_is_fix by discriminate. now rewrite !chk_is_ochk.
Qed.

Lemma p_running : F.pl_st p = Running.
Proof. exact Hrun. Qed.

(* ---- no block comes back Stopped ---- *)
Lemma img_seq_not_stopped b bs q rs :
  block_of sh b = Some bs -> nth_error (bs_seqs bs) q = Some rs ->
  F.sq_st (F.fix_seq (seq_of_img sh I b q rs)) <> Stopped.
Proof.
  intros Hb Hq. pose proof (wf_seq _ _ _ _ Hb Hq) as Hw. unfold seq_wf in Hw.
  apply andb_true_iff in Hw as [Hw Ha]. apply andb_true_iff in Hw as [Hw _].
  apply FF.fix_seq_not_stopped.
  - rewrite seq_img_st. intro E. rewrite E in Hw. discriminate.
  - unfold seq_of_img. simpl. apply Forall_map. apply Forall_forall. intros i Hi.
    rewrite forallb_forall in Ha. specialize (Ha i Hi). unfold act_wf in Ha.
    apply andb_true_iff in Ha as [Ha _]. apply andb_true_iff in Ha as [Ha _].
    rewrite act_of_st. intro E. rewrite E in Ha. discriminate.
Qed.

Lemma img_block_not_stopped rs0 b bs :
  block_of sh b = Some bs -> F.bk_st (F.fb_blk (F.fix_block rs0 (blk_of sh I b bs))) <> Stopped.
Proof.
  intro Hb. apply FF.fix_block_not_stopped.
  - rewrite blk_of_st. pose proof (wf_block _ _ Hb) as Hw. unfold block_wf in Hw. apply andb_true_iff in Hw as [Hw _].
    intro E. rewrite E in Hw. discriminate.
  - unfold blk_of. simpl. apply Forall_map. apply Forall_forall. intros [q rs] Hin.
    apply In_nth_error in Hin as (n & Hn). rewrite nth_indexed in Hn.
    destruct (nth_error (bs_seqs bs) n) as [rs'|] eqn:E; [|discriminate]. simpl in Hn. injection Hn as <- <-.
    simpl. eapply img_seq_not_stopped; eauto.
Qed.

Lemma earlier_not_stopped rs0 b : forall i' b', i' < b -> FS.get_blk p i' = Some b' ->
  F.bk_st (F.fb_blk (F.fix_block rs0 b')) <> Stopped.
Proof.
  intros i' b' _ H. unfold p in H. rewrite get_blk_of in H. destruct (block_of sh i') as [bs'|] eqn:E; [|discriminate].
  injection H as <-. now apply img_block_not_stopped.
Qed.

(* the block of the repaired image when fixPlan reaches its loop *)
Lemma fixed_blk fl b bs :
  block_of sh b = Some bs -> plan_early sh I = false ->
  FS.get_blk (F.fp_pln (fixed fl p)) b = Some (F.fb_blk (F.fix_block (oracle fl) (blk_of sh I b bs))).
Proof.
  intros Hb He. rewrite <- early_iff in He. unfold FF.plan_returns_early in He.
  apply orb_false_iff in He as [He He3]. apply orb_false_iff in He as [He1 He2].
  unfold fixed. apply (FP.plan_processes_blocks (oracle fl) (oracle_contract fl) p b (blk_of sh I b bs) p_running He1 He2 He3).
  - unfold p. rewrite get_blk_of, Hb. reflexivity.
  - apply earlier_not_stopped.
Qed.

Lemma early_blk fl b bs :
  block_of sh b = Some bs -> plan_early sh I = true ->
  FS.get_blk (F.fp_pln (fixed fl p)) b = Some (blk_of sh I b bs) /\ F.fp_resumed (fixed fl p) = [].
Proof.
  intros Hb He. rewrite <- early_iff in He. destruct (FF.fix_plan_early (oracle fl) p p_running He) as [H1 H2].
  split; [|exact H2]. unfold FS.get_blk, fixed. rewrite H1. fold (FS.get_blk p b). unfold p. rewrite get_blk_of, Hb. reflexivity.
Qed.

(* membership in the resumed list, both ways *)
Lemma resumed_in b q :
  In (b, q) (resumed sh I) ->
  plan_early sh I = false /\ exists bs, block_of sh b = Some bs /\ In q (F.fb_resumed (F.fix_block (oracle []) (blk_of sh I b bs))).
Proof.
  unfold resumed. fold p. intro H. destruct (plan_early sh I) eqn:He.
  - rewrite <- early_iff in He. destruct (FF.fix_plan_early (oracle []) p p_running He) as [_ H2].
    unfold fixed in H. rewrite H2 in H. contradiction.
  - split; [reflexivity|]. rewrite <- early_iff in He. unfold fixed in H. rewrite (FF.fix_plan_resumed _ _ p_running He) in H.
    destruct (FF.fix_blocks_res_in _ _ _ _ _ H) as (k & blk & Hk & Hn & Hj). simpl in Hk. subst k.
    fold (FS.get_blk p b) in Hn. unfold p in Hn. rewrite get_blk_of in Hn. destruct (block_of sh b) as [bs|]; [|discriminate].
    injection Hn as <-. eauto.
Qed.

Lemma in_resumed b bs q :
  plan_early sh I = false -> block_of sh b = Some bs ->
  In q (F.fb_resumed (F.fix_block (oracle []) (blk_of sh I b bs))) -> In (b, q) (resumed sh I).
Proof.
  intros He Hb Hq. unfold resumed. fold p. rewrite <- early_iff in He. unfold fixed.
  rewrite (FF.fix_plan_resumed _ _ p_running He).
  change b with (0 + b). apply FF.fix_blocks_in_res with (b := blk_of sh I b bs); [| |exact Hq].
  - fold (FS.get_blk p b). unfold p. rewrite get_blk_of, Hb. reflexivity.
  - intros k' b' Hk H. fold (FS.get_blk p k') in H. eapply earlier_not_stopped; eauto.
Qed.

(* ---- rs_seq ---- *)
Lemma sound_seq fl b q :
  is_terminal (pln_st sh I fl) = false ->
  seq_of sh b q <> None -> is_terminal (blk_st sh I fl b) = false -> ~ In (b, q) (resumed sh I) ->
  ~ cf (seq_st0 sh I b q) -> open_from sh I b q 0.
Proof.
  intros Hpl Hq Hnt Hnr Hncf. unfold seq_of in Hq. destruct (block_of sh b) as [bs|] eqn:Hb; [|contradiction].
  destruct (nth_error (bs_seqs bs) q) as [rs|] eqn:Hqs; [|contradiction].
  set (blk := blk_of sh I b bs). set (s := seq_of_img sh I b q rs).
  assert (Hbs : ist I (OBlock b) <> Stopped).
  { pose proof (wf_block _ _ Hb) as Hw. unfold block_wf in Hw. apply andb_true_iff in Hw as [Hw _].
    intro E. rewrite E in Hw. discriminate. }
  assert (Hns : ist I (OBlock b) = NotStarted -> open_from sh I b q 0).
  { intro E. eapply open_of_notstarted_seq; eauto.
    pose proof (wf_seq _ _ _ _ Hb Hqs) as Hw. unfold seq_wf in Hw. apply andb_true_iff in Hw as [Hw _].
    apply andb_true_iff in Hw as [_ Hw]. rewrite E in Hw. simpl in Hw. now apply status_eqb_eq. }
  destruct (plan_early sh I) eqn:He.
  - (* fixPlan returned before the loop: the plan is Completed / Failed, Recovery goes to End *)
    exfalso. rewrite <- early_iff in He.
    pose proof (FF.fix_plan_early_terminal (oracle fl) p p_running He) as Ht.
    unfold pln_st, pl_cell in Hpl. fold p in Hpl. unfold fixed in Hpl. simpl in Hpl. rewrite Ht in Hpl. discriminate.
  - pose proof (fixed_blk fl b bs Hb He) as Hg. pose proof (fixed_blk [] b bs Hb He) as Hg0.
    unfold blk_st, pl_cell in Hnt. fold p in Hnt. rewrite Hg in Hnt. simpl in Hnt.
    destruct (status_eqb (F.bk_st blk) Running) eqn:Er.
    2:{ (* the block was not Running: fixBlock leaves it alone *)
        assert (Hnr' : F.bk_st blk <> Running) by (intro E; fold blk in Er; rewrite E in Er; discriminate).
        fold blk in Hnt. rewrite (FP.fix_block_other _ _ Hnr') in Hnt. simpl in Hnt. unfold blk in Hnt, Hnr'. simpl in Hnt, Hnr'.
        apply Hns. destruct (ist I (OBlock b)); try discriminate; try reflexivity; contradiction. }
    apply status_eqb_eq in Er.
    destruct (FP.fix_block_seqs (oracle []) (oracle_contract []) blk) as [(Hfull & _)|(Hfull & _ & Hseqs & Hres0)].
    + (* an early return of fixBlock makes the block Completed / Failed *)
      rewrite (FF.fb_full_indep (oracle []) (oracle fl)) in Hfull. fold blk in Hnt.
      rewrite (FF.fix_block_early_terminal _ _ Er Hfull) in Hnt. discriminate.
    + (* the sequence was repaired by fixSeq and not resumed *)
      assert (Hnrun : F.sq_st (F.fix_seq s) <> Running).
      { intro E. apply Hnr. apply in_resumed with (bs := bs); auto. fold blk. rewrite Hres0.
        apply FF.running_ix_in. split; [lia|]. exists (F.fix_seq s). split; [|exact E].
        rewrite Nat.sub_0_r, nth_error_map. unfold blk. rewrite blk_seqs_nth, Hqs. reflexivity. }
      assert (Hst0 : seq_st0 sh I b q = F.sq_st (F.fix_seq s)).
      { unfold seq_st0, base0, pl_cell, FS.get_seq. fold p. unfold fixed in Hg0. unfold fixed. rewrite Hg0. fold blk. rewrite Hseqs.
        rewrite nth_error_map. unfold blk. rewrite blk_seqs_nth, Hqs. simpl. fold s.
        unfold FP.final_seq, F.resume_seq. destruct (status_eqb (F.sq_st (F.fix_seq s)) Running) eqn:E; [|reflexivity].
        apply status_eqb_eq in E. contradiction. }
      rewrite Hst0 in Hncf.
      assert (Hfs : F.sq_st (F.fix_seq s) = NotStarted).
      { pose proof (img_seq_not_stopped _ _ _ _ Hb Hqs) as H4. fold s in H4.
        destruct (F.sq_st (F.fix_seq s)); try reflexivity; try contradiction; exfalso; apply Hncf; [left|right]; reflexivity. }
      destruct (FP.fix_seq_status s) as [Hsr|Hsame].
      * (* the sequence was Running: every action is NotStarted after fixAction *)
        split; [unfold s in Hsr; rewrite seq_img_st in Hsr; now rewrite Hsr|].
        intros j _ Hj. unfold seq_len, seq_of in Hj. rewrite Hb, Hqs in Hj.
        assert (Hall : Forall (fun a => F.ac_st a <> Stopped) (F.sq_acts s)).
        { unfold s, seq_of_img. simpl. apply Forall_map. apply Forall_forall. intros i Hi.
          pose proof (wf_act _ _ _ _ i Hb Hqs) as Hw. apply in_seq in Hi. specialize (Hw ltac:(lia)).
          unfold act_wf in Hw. apply andb_true_iff in Hw as [Hw _]. apply andb_true_iff in Hw as [Hw _].
          rewrite act_of_st. intro E. rewrite E in Hw. discriminate. }
        pose proof (FF.fix_seq_notstarted_acts s Hsr Hall Hfs) as Hns'.
        assert (Hnth : nth_error (F.sq_acts s) j = Some (act_of I (aid sh b q j) (ASeq b q j))).
        { unfold s. rewrite seq_img_acts_nth. apply Nat.ltb_lt in Hj. now rewrite Hj. }
        rewrite Forall_forall in Hns'. specialize (Hns' _ (nth_error_In _ _ Hnth)).
        eapply open_of_fresh; eauto. eapply fix_action_notstarted; eauto.
      * rewrite Hsame in Hfs. unfold s in Hfs. rewrite seq_img_st in Hfs. eapply open_of_notstarted_seq; eauto.
Qed.

(* ---- rs_resumed ---- *)
Lemma forallb_skipn_nth {A} (f : A -> bool) (l : list A) n j x :
  forallb f (skipn n l) = true -> n <= j -> nth_error l j = Some x -> f x = true.
Proof.
  revert l j. induction n as [|n IH]; intros l j H Hj Hx.
  - simpl in H. eapply forallb_nth; eauto.
  - destruct l as [|y l]; [destruct j; discriminate|]. destruct j as [|j]; [lia|]. simpl in Hx, H.
    apply (IH l j H ltac:(lia) Hx).
Qed.

Lemma sound_resumed b q :
  In (b, q) (resumed sh I) ->
  ist I (OBlock b) = Running /\ seq_of sh b q <> None /\ open_from sh I b q (first_open p b q).
Proof.
  intro Hin. destruct (resumed_in _ _ Hin) as (He & bs & Hb & Hq).
  set (blk := blk_of sh I b bs) in *.
  destruct (FP.fix_block_seqs (oracle []) (oracle_contract []) blk) as [(_ & _ & Hres0)|(_ & Hbr & _ & Hres0)];
    rewrite Hres0 in Hq; [contradiction|].
  apply FF.running_ix_in in Hq as (_ & s' & Hn & Hs'). rewrite Nat.sub_0_r, nth_error_map in Hn.
  unfold blk in Hn. rewrite blk_seqs_nth in Hn. destruct (nth_error (bs_seqs bs) q) as [rs|] eqn:Hqs; [|discriminate].
  simpl in Hn. injection Hn as <-. set (s := seq_of_img sh I b q rs) in *.
  split; [exact Hbr|]. split; [unfold seq_of; rewrite Hb, Hqs; discriminate|].
  destruct (FP.fix_seq_running_form s Hs') as (Hsr & Hform & _).
  assert (Hrs : resumed_seq p b q = Some (F.fix_seq s)).
  { unfold resumed_seq, p. rewrite (get_seq_of sh I b q bs Hb), Hqs. reflexivity. }
  assert (Hok : seq_resumable (F.fix_seq s) = true).
  { unfold resumable_ok in Hres. rewrite forallb_forall in Hres. specialize (Hres (b, q) Hin). simpl in Hres.
    fold p in Hres. now rewrite Hrs in Hres. }
  unfold first_open. rewrite Hrs.
  split; [unfold s in Hsr; rewrite seq_img_st in Hsr; now rewrite Hsr|].
  intros j Hj Hlen. unfold seq_len, seq_of in Hlen. rewrite Hb, Hqs in Hlen.
  unfold seq_resumable in Hok. apply andb_true_iff in Hok as [Hok _].
  assert (Hnth : nth_error (F.sq_acts (F.fix_seq s)) j = Some (F.fix_action (act_of I (aid sh b q j) (ASeq b q j)))).
  { rewrite Hform. cbn [F.sq_acts]. rewrite nth_error_map. unfold s. rewrite seq_img_acts_nth.
    apply Nat.ltb_lt in Hlen. now rewrite Hlen. }
  pose proof (forallb_skipn_nth _ _ _ _ _ Hok Hj Hnth) as Hst. apply status_eqb_eq in Hst.
  eapply open_of_fresh; eauto. eapply fix_action_notstarted; eauto.
Qed.

Theorem repair_sound_holds : repair_sound sh I.
Proof.
  constructor.
  - apply sound_block.
  - apply sound_seq.
  - apply sound_resumed.
Qed.
End Sound.
