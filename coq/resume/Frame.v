(* Frame lemmas for the handlers of coq/engine (Auto.v), as the invariants of the resumed automaton need them: what
   an accepted event leaves unchanged (plan phase, current block, block phase, failure-cause flag), which sequence
   sub-automaton it moves and how, and what it writes.  Proofs only; nothing here is specific to a property. *)
From Coq Require Import Lia.
From Coercion.Base Require Import Plan.
From Coercion.Engine Require Import Shape Event Action ChecksRun Seq Block Final PlanSM Auto Accept AutoLemmas.

(* the control part of a state that no handler touches *)
Definition same_ctl (s s' : st) : Prop :=
  s_ph s' = s_ph s /\ s_cb s' = s_cb s /\ b_ph (s_b s') = b_ph (s_b s) /\ b_cause (s_b s') = b_cause (s_b s)
  /\ s_fin s' = s_fin s.

Lemma same_ctl_refl s : same_ctl s s.
Proof. unfold same_ctl. auto. Qed.

Definition seqs_of (s : st) : list sst := b_seqs (s_b s).

(* one move of one sequence sub-automaton *)
Inductive seq_move : sst -> sst -> Prop :=
| sm_launch : seq_move SIdle (SRun 0 AIdle)
| sm_inner i a a' : seq_move (SRun i a) (SRun i a')
| sm_next i a : seq_move (SRun i a) (SRun (S i) AIdle)
| sm_pend i a v : seq_move (SRun i a) (SPend v)
| sm_done v : seq_move (SPend v) (SDone v).

(* s' is s with sequence q of the current block moved from x to y, nothing else of the control part changed *)
Definition moves (s s' : st) (q : nat) (x y : sst) : Prop :=
  same_ctl s s' /\ nth_error (seqs_of s) q = Some x /\ seqs_of s' = upd (seqs_of s) q y.

Definition keeps_seqs (s s' : st) : Prop := same_ctl s s' /\ seqs_of s' = seqs_of s.

Lemma cur_block_some sh s b bs : cur_block sh s b = Some bs -> s_ph s = PBlocks /\ b = s_cb s /\ block_of sh b = Some bs.
Proof.
  unfold cur_block. destruct (pphase_eqb (s_ph s) PBlocks) eqn:E1; [|discriminate].
  destruct (Nat.eqb b (s_cb s)) eqn:E2; [|discriminate]. simpl. intro H.
  apply Nat.eqb_eq in E2. destruct (s_ph s); try discriminate. auto.
Qed.

Lemma b_seq_upd_spec b q f b' :
  b_seq_upd b q f = Some b' ->
  exists x y, nth_error (b_seqs b) q = Some x /\ f x = Some y /\ b' = b_with_seqs b (upd (b_seqs b) q y).
Proof.
  unfold b_seq_upd. destruct (nth_error (b_seqs b) q) as [x|]; [|discriminate].
  destruct (f x) as [y|] eqn:E; [|discriminate]. intro H. injection H as <-. eauto.
Qed.

(* ---- EvStart ---- *)
Lemma h_start_spec sh s a s' :
  h_start sh s a = Some s' ->
  s_img s' = s_img s /\
  match a with
  | AChk SPlan _ _ => keeps_seqs s s'
  | AChk (SBlock b) _ _ => (exists bs, cur_block sh s b = Some bs) /\ keeps_seqs s s'
  | ASeq b q i => (exists bs, cur_block sh s b = Some bs) /\
                  exists k, moves s s' q (SRun i (ARun k)) (SRun i (AFly k))
  end.
Proof.
  unfold h_start. destruct (owes (s_late s) a); [discriminate|].
  destruct a as [[|b] g i|b q i].
  - unfold p_chk_start. destruct (g_start _ _ _); [|discriminate]. intro H. injection H as <-.
    split; [reflexivity|]. split; [unfold same_ctl; simpl; auto|reflexivity].
  - destruct (cur_block sh s b) as [bs|] eqn:E; [|discriminate].
    unfold b_chk_start. destruct (g_start _ _ _); [|discriminate]. simpl. intro H. injection H as <-.
    split; [reflexivity|]. split; [eauto|]. split; [unfold same_ctl; simpl; auto|reflexivity].
  - destruct (cur_block sh s b) as [bs|] eqn:E; [|discriminate].
    destruct (b_act_start (s_img s) b (s_b s) q i) as [b'|] eqn:E2; [|discriminate]. simpl. intro H. injection H as <-.
    split; [reflexivity|]. split; [eauto|].
    unfold b_act_start in E2. destruct (b_seq_upd_spec _ _ _ _ E2) as (x & y & Hx & Hf & ->).
    unfold s_start in Hf. destruct x as [|j a|v|v]; try discriminate.
    destruct (Nat.eqb i j) eqn:Eij; [|discriminate]. apply Nat.eqb_eq in Eij. subst j.
    unfold a_start in Hf. destruct a as [|k|k|k o|v n|v n]; try discriminate. simpl in Hf.
    destruct (status_eqb _ Running && Nat.eqb _ k); [|discriminate]. injection Hf as <-.
    exists k. split; [unfold same_ctl; simpl; auto|]. split; [exact Hx|reflexivity].
Qed.

(* ---- EvEnd ---- *)
Lemma h_end_spec sh s a o s' :
  h_end sh s a o = Some s' ->
  s_img s' = s_img s /\
  (keeps_seqs s s' \/
   exists b q i k, a = ASeq b q i /\ (exists bs, cur_block sh s b = Some bs) /\ moves s s' q (SRun i (AFly k)) (SRun i (ARet k o))).
Proof.
  unfold h_end. destruct (h_end_sub sh s a o) as [s1|] eqn:E.
  - intro H. injection H as <-. unfold h_end_sub in E. destruct a as [[|b] g i|b q i].
    + unfold p_chk_end in E. destruct (g_end _ _ _); [|discriminate]. injection E as <-.
      split; [reflexivity|]. left. split; [unfold same_ctl; simpl; auto|reflexivity].
    + destruct (cur_block sh s b); [|discriminate]. unfold b_chk_end in E. destruct (g_end _ _ _); [|discriminate].
      simpl in E. injection E as <-. split; [reflexivity|]. left. split; [unfold same_ctl; simpl; auto|reflexivity].
    + destruct (cur_block sh s b) as [bs|] eqn:Ec; [|discriminate].
      destruct (b_act_end (s_b s) q i o) as [b'|] eqn:E2; [|discriminate]. simpl in E. injection E as <-.
      split; [reflexivity|]. right. unfold b_act_end in E2.
      destruct (b_seq_upd_spec _ _ _ _ E2) as (x & y & Hx & Hf & ->).
      unfold s_end in Hf. destruct x as [|j a|v|v]; try discriminate.
      destruct (Nat.eqb i j) eqn:Eij; [|discriminate]. apply Nat.eqb_eq in Eij. subst j.
      unfold a_end in Hf. destruct a as [|k|k|k o'|v n|v n]; try discriminate. simpl in Hf. injection Hf as <-.
      exists b, q, i, k. split; [reflexivity|]. split; [eauto|].
      split; [unfold same_ctl; simpl; auto|]. split; [exact Hx|reflexivity].
  - destruct o; try discriminate. destruct (remove_one a (s_late s)); [|discriminate]. simpl. intro H. injection H as <-.
    split; [reflexivity|]. left. split; [unfold same_ctl; simpl; auto|reflexivity].
Qed.

(* ---- EvWrite ---- *)
Definition wc (stt : status) (n : nat) (lastok : bool) : cell := {| c_st := stt; c_n := n; c_ok := lastok |}.

(* what a handled write of object o does to the control part and to the sequences *)
Definition write_effect (sh : shape) (s s' : st) (o : obj) (stt : status) : Prop :=
  match o with
  | OPlan => keeps_seqs s s'
  | OChecks SPlan _ => keeps_seqs s s'
  | OAct (AChk SPlan _ _) => keeps_seqs s s'
  | OChecks (SBlock b) _ => (exists bs, cur_block sh s b = Some bs) /\ keeps_seqs s s'
  | OAct (AChk (SBlock b) _ _) => (exists bs, cur_block sh s b = Some bs) /\ keeps_seqs s s'
  | OBlock b =>
      (exists bs, cur_block sh s b = Some bs) /\ keeps_seqs s s' /\
      match stt with
      | Running => b_ph (s_b s) = BEnter
      | Failed => b_cause (s_b s) = true
      | Completed => b_ph (s_b s) = BEnd
      | _ => False
      end
  | OSeq b q =>
      (exists bs, cur_block sh s b = Some bs) /\
      match stt with
      | Running => b_ph (s_b s) = BSeqs /\ moves s s' q SIdle (SRun 0 AIdle)
      | Completed => moves s s' q (SPend true) (SDone true)
      | Failed => moves s s' q (SPend false) (SDone false)
      | _ => False
      end
  | OAct (ASeq b q i) =>
      (exists bs, cur_block sh s b = Some bs) /\
      exists a y, moves s s' q (SRun i a) y /\ seq_move (SRun i a) y /\
                  (stt = Running \/ stt = Completed \/ stt = Failed)
  end.

Lemma option_map_some {A B} (f : A -> B) x y : option_map f x = Some y -> exists z, x = Some z /\ y = f z.
Proof. destruct x; simpl; intro H; [injection H as <-; eauto|discriminate]. Qed.

Lemma h_write_act_spec sh s a stt n lastok s1 :
  h_write_act sh s a stt n lastok = Some s1 ->
  s_img s1 = s_img s /\ write_effect sh s s1 (OAct a) stt.
Proof.
  unfold h_write_act. intro H.
  assert (Hk : forall b, keeps_seqs s (with_b s b) -> True) by auto.
  destruct a as [[|b] g i|b q i].
  - (* plan check action *)
    assert (forall x : option st, (forall s2, x = Some s2 -> exists t, s2 = with_g s t) -> x = Some s1 ->
                                  s_img s1 = s_img s /\ keeps_seqs s s1) as Hg.
    { intros x Hx E. destruct (Hx _ E) as (t & ->). split; [reflexivity|]. split; [unfold same_ctl; simpl; auto|reflexivity]. }
    destruct stt; try discriminate.
    + destruct n.
      * destruct lastok; [discriminate|]. eapply Hg; [|exact H]. intros s2 E. unfold p_chk_mark in E.
        destruct (grp_get (sh_groups sh) g); [|discriminate]. destruct (g_mark _ _ _ _ _); [|discriminate].
        injection E as <-. eauto.
      * destruct (p_chk_attempt sh s g i (S n) lastok) as [[s2 owed]|] eqn:E; [|discriminate]. injection H as <-.
        unfold p_chk_attempt in E. destruct (grp_get (sh_groups sh) g); [|discriminate].
        destruct (g_attempt _ _ _ _ _) as [[x ow]|]; [|discriminate]. injection E as <- <-.
        unfold owe. destruct ow; simpl; (split; [reflexivity|]; split; [unfold same_ctl; simpl; auto|reflexivity]).
    + eapply Hg; [|exact H]. intros s2 E. unfold p_chk_final in E. destruct (g_final _ _ _ _ _); [|discriminate].
      injection E as <-. eauto.
    + eapply Hg; [|exact H]. intros s2 E. unfold p_chk_final in E. destruct (g_final _ _ _ _ _); [|discriminate].
      injection E as <-. eauto.
  - (* block check action *)
    assert (forall b', s_img (with_b s b') = s_img s) as Hi by reflexivity.
    assert (forall t, keeps_seqs s (with_b s (b_with_g (s_b s) t))) as Hk2.
    { intro t. split; [unfold same_ctl; simpl; auto|reflexivity]. }
    destruct stt; try discriminate.
    + destruct n.
      * destruct lastok; [discriminate|]. destruct (cur_block sh s b) as [bs|] eqn:Ec; [|discriminate].
        apply option_map_some in H as (b' & E & ->). unfold b_chk_mark in E.
        destruct (grp_get (bs_groups bs) g); [|discriminate]. destruct (g_mark _ _ _ _ _); [|discriminate].
        injection E as <-. split; [reflexivity|]. split; [eauto|apply Hk2].
      * destruct (cur_block sh s b) as [bs|] eqn:Ec; [|discriminate].
        destruct (b_chk_attempt bs (s_b s) g i (S n) lastok) as [[b' owed]|] eqn:E; [|discriminate]. injection H as <-.
        unfold b_chk_attempt in E. destruct (grp_get (bs_groups bs) g); [|discriminate].
        destruct (g_attempt _ _ _ _ _) as [[x ow]|]; [|discriminate]. injection E as <- <-.
        unfold owe. destruct ow; simpl; (split; [reflexivity|]; split; [eauto|]);
          (split; [unfold same_ctl; simpl; auto|reflexivity]).
    + destruct (cur_block sh s b) as [bs|] eqn:Ec; [|discriminate].
      apply option_map_some in H as (b' & E & ->). unfold b_chk_final in E. destruct (g_final _ _ _ _ _); [|discriminate].
      injection E as <-. split; [reflexivity|]. split; [eauto|apply Hk2].
    + destruct (cur_block sh s b) as [bs|] eqn:Ec; [|discriminate].
      apply option_map_some in H as (b' & E & ->). unfold b_chk_final in E. destruct (g_final _ _ _ _ _); [|discriminate].
      injection E as <-. split; [reflexivity|]. split; [eauto|apply Hk2].
  - (* sequence action *)
    assert (Hmv : forall b' x y, nth_error (b_seqs (s_b s)) q = Some x -> b' = b_with_seqs (s_b s) (upd (b_seqs (s_b s)) q y) ->
                                 moves s (with_b s b') q x y).
    { intros b' x y Hx ->. split; [unfold same_ctl; simpl; auto|]. split; [exact Hx|reflexivity]. }
    destruct stt; try discriminate.
    + destruct n.
      * destruct lastok; [discriminate|]. destruct (cur_block sh s b) as [bs|] eqn:Ec; [|discriminate].
        apply option_map_some in H as (b' & E & ->). unfold b_act_mark in E.
        destruct (b_seq_upd_spec _ _ _ _ E) as (x & y & Hx & Hf & Hb).
        unfold s_mark in Hf. destruct x as [|j a|v|v]; try discriminate.
        destruct (Nat.eqb i j) eqn:Eij; [|discriminate]. apply Nat.eqb_eq in Eij. subst j.
        apply option_map_some in Hf as (a' & _ & ->).
        split; [reflexivity|]. split; [eauto|]. exists a, (SRun i a'). split; [eapply Hmv; eauto|]. split; [constructor|auto].
      * destruct (cur_block sh s b) as [bs|] eqn:Ec; [|discriminate].
        destruct (b_act_attempt bs (s_b s) q i (S n) lastok) as [[b' owed]|] eqn:E; [|discriminate]. injection H as <-.
        unfold b_act_attempt in E. destruct (nth_error (b_seqs (s_b s)) q) as [x|] eqn:Hx; [|discriminate].
        destruct (nth_error (bs_seqs bs) q) as [rs|]; [|discriminate].
        destruct (s_attempt rs x i (S n) lastok) as [[y ow]|] eqn:Hf; [|discriminate]. injection E as <- <-.
        unfold s_attempt in Hf. destruct x as [|j a|v|v]; try discriminate. destruct (nth_error rs i); [|discriminate].
        destruct (Nat.eqb i j) eqn:Eij; [|discriminate]. apply Nat.eqb_eq in Eij. subst j.
        destruct (a_attempt _ a (S n) lastok) as [[a' ow']|]; [|discriminate]. injection Hf as <- <-.
        assert (Hm : moves s (with_b s (b_with_seqs (s_b s) (upd (b_seqs (s_b s)) q (SRun i a')))) q (SRun i a) (SRun i a')).
        { eapply Hmv; eauto. }
        unfold owe. destruct ow'; simpl; (split; [reflexivity|]; split; [eauto|]); exists a, (SRun i a');
          (split; [|split; [constructor|auto]]).
        -- destruct Hm as (Hc & Hn & Hs). split; [exact Hc|]. split; [exact Hn|exact Hs].
        -- exact Hm.
    + destruct (cur_block sh s b) as [bs|] eqn:Ec; [|discriminate].
      apply option_map_some in H as (b' & E & ->). unfold b_act_final in E.
      destruct (nth_error (bs_seqs bs) q) as [rs|]; [|discriminate].
      destruct (b_seq_upd_spec _ _ _ _ E) as (x & y & Hx & Hf & Hb).
      unfold s_final in Hf. destruct x as [|j a|v|v]; try discriminate.
      destruct (Nat.eqb i j) eqn:Eij; [|discriminate]. apply Nat.eqb_eq in Eij. subst j.
      split; [reflexivity|]. split; [eauto|]. exists a, y. split; [eapply Hmv; eauto|]. split; [|auto].
      destruct (a_final a Completed n lastok) as [[| | | | |v m]|]; try discriminate. destruct v.
      * destruct (S i <? length rs); injection Hf as <-; constructor.
      * injection Hf as <-. constructor.
    + destruct (cur_block sh s b) as [bs|] eqn:Ec; [|discriminate].
      apply option_map_some in H as (b' & E & ->). unfold b_act_final in E.
      destruct (nth_error (bs_seqs bs) q) as [rs|]; [|discriminate].
      destruct (b_seq_upd_spec _ _ _ _ E) as (x & y & Hx & Hf & Hb).
      unfold s_final in Hf. destruct x as [|j a|v|v]; try discriminate.
      destruct (Nat.eqb i j) eqn:Eij; [|discriminate]. apply Nat.eqb_eq in Eij. subst j.
      split; [reflexivity|]. split; [eauto|]. exists a, y. split; [eapply Hmv; eauto|]. split; [|auto].
      destruct (a_final a Failed n lastok) as [[| | | | |v m]|]; try discriminate. destruct v.
      * destruct (S i <? length rs); injection Hf as <-; constructor.
      * injection Hf as <-. constructor.
Qed.

Lemma same_ctl_put s s1 o stt n lastok : same_ctl s s1 -> same_ctl s (put s1 o stt n lastok).
Proof. unfold same_ctl, put. simpl. auto. Qed.

Lemma keeps_put s s1 o stt n lastok : keeps_seqs s s1 -> keeps_seqs s (put s1 o stt n lastok).
Proof. intros [H1 H2]. split; [now apply same_ctl_put|exact H2]. Qed.

Lemma moves_put s s1 q x y o stt n lastok : moves s s1 q x y -> moves s (put s1 o stt n lastok) q x y.
Proof. intros (H1 & H2 & H3). split; [now apply same_ctl_put|]. split; [exact H2|exact H3]. Qed.

Lemma write_effect_put sh s s1 o stt o' stt' n lastok :
  write_effect sh s s1 o stt -> write_effect sh s (put s1 o' stt' n lastok) o stt.
Proof.
  unfold write_effect. destruct o as [|[|b] g|b|b q|[[|b] g i|b q i]]; intro H.
  - now apply keeps_put.
  - now apply keeps_put.
  - destruct H as [H1 H2]. split; [exact H1|now apply keeps_put].
  - destruct H as (H1 & H2 & H3). split; [exact H1|]. split; [now apply keeps_put|exact H3].
  - destruct H as [H1 H2]. split; [exact H1|]. destruct stt; try contradiction.
    + destruct H2 as [H2 H3]. split; [exact H2|now apply moves_put].
    + now apply moves_put.
    + now apply moves_put.
  - now apply keeps_put.
  - destruct H as [H1 H2]. split; [exact H1|now apply keeps_put].
  - destruct H as (H1 & a & y & H2 & H3 & H4). split; [exact H1|]. exists a, y. split; [now apply moves_put|auto].
Qed.

Lemma h_write_obj_spec sh s o stt n lastok r s1 :
  h_write_obj sh s o stt n lastok r = Some s1 -> s_img s1 = s_img s /\ write_effect sh s s1 o stt.
Proof.
  unfold h_write_obj. destruct o as [|[|b] g|b|b q|a]; intro H.
  - (* OPlan *)
    apply option_map_some in H as (s2 & E & ->). unfold p_write in E.
    destruct (s_ph s); try discriminate.
    + destruct (status_eqb stt Running && reason_eqb r FRUnknown); [|discriminate]. injection E as <-.
      split; [reflexivity|]. split; [unfold same_ctl; simpl; auto|reflexivity].
    + match type of E with (if ?c then _ else _) = _ => destruct c; [|discriminate] end. injection E as <-.
      split; [reflexivity|]. split; [unfold same_ctl; simpl; auto|reflexivity].
  - (* plan group verdict *)
    assert (forall x : option st, x = Some s1 -> (forall s2, x = Some s2 -> exists t, s2 = with_g s t) ->
                                  s_img s1 = s_img s /\ keeps_seqs s s1) as Hg.
    { intros x E Hx. destruct (Hx _ E) as (t & ->). split; [reflexivity|]. split; [unfold same_ctl; simpl; auto|reflexivity]. }
    destruct stt; try discriminate; (eapply Hg; [exact H|]); intros s2 E; unfold p_chk_verdict in E;
      (destruct (g_verdict _ _); [|discriminate]); injection E as <-; eauto.
  - (* block group verdict *)
    destruct stt; try discriminate; (destruct (cur_block sh s b) as [bs|] eqn:Ec; [|discriminate]);
      apply option_map_some in H as (b' & E & ->); unfold b_chk_verdict in E;
      (destruct (g_verdict _ _); [|discriminate]); injection E as <-;
      (split; [reflexivity|]); (split; [eauto|]); (split; [unfold same_ctl; simpl; auto|reflexivity]).
  - (* OBlock *)
    destruct (cur_block sh s b) as [bs|] eqn:Ec; [|discriminate].
    apply option_map_some in H as (b' & E & ->). unfold b_write in E.
    destruct stt; try discriminate.
    + destruct (bphase_eqb (b_ph (s_b s)) BEnter) eqn:Ep; [|discriminate]. injection E as <-.
      split; [reflexivity|]. split; [eauto|]. split; [split; [unfold same_ctl; simpl; auto|reflexivity]|].
      destruct (b_ph (s_b s)); try discriminate. reflexivity.
    + destruct (bphase_eqb (b_ph (s_b s)) BEnd && negb (b_cause (s_b s)) && negb (thr_live (b_thr (s_b s)))) eqn:Ep; [|discriminate].
      injection E as <-. split; [reflexivity|]. split; [eauto|]. split; [split; [unfold same_ctl; simpl; auto|reflexivity]|].
      apply andb_true_iff in Ep as [Ep _]. apply andb_true_iff in Ep as [Ep _].
      destruct (b_ph (s_b s)); try discriminate. reflexivity.
    + destruct (b_cause (s_b s)) eqn:Ep; [|discriminate]. injection E as <-.
      split; [reflexivity|]. split; [eauto|]. split; [split; [unfold same_ctl; simpl; auto|reflexivity]|exact Ep].
  - (* OSeq *)
    destruct (cur_block sh s b) as [bs|] eqn:Ec; [|discriminate].
    assert (Hmv : forall b' x y, nth_error (b_seqs (s_b s)) q = Some x -> b' = b_with_seqs (s_b s) (upd (b_seqs (s_b s)) q y) ->
                                 moves s (with_b s b') q x y).
    { intros b' x y Hx ->. split; [unfold same_ctl; simpl; auto|]. split; [exact Hx|reflexivity]. }
    destruct stt; try discriminate.
    + apply option_map_some in H as (b' & E & ->). unfold b_seq_launch in E.
      destruct (bphase_eqb (b_ph (s_b s)) BSeqs && launch_guard bs (s_b s)) eqn:Ep; [|discriminate].
      destruct (b_seq_upd_spec _ _ _ _ E) as (x & y & Hx & Hf & Hb).
      unfold s_launch in Hf. destruct x; try discriminate. injection Hf as <-.
      split; [reflexivity|]. split; [eauto|]. split.
      * apply andb_true_iff in Ep as [Ep _]. destruct (b_ph (s_b s)); try discriminate. reflexivity.
      * eapply Hmv; eauto.
    + apply option_map_some in H as (b' & E & ->). unfold b_seq_terminal in E.
      destruct (b_seq_upd_spec _ _ _ _ E) as (x & y & Hx & Hf & Hb).
      unfold s_terminal in Hf. destruct x as [| | v |]; try discriminate. destruct v; simpl in Hf; try discriminate.
      injection Hf as <-. split; [reflexivity|]. split; [eauto|]. eapply Hmv; eauto.
    + apply option_map_some in H as (b' & E & ->). unfold b_seq_terminal in E.
      destruct (b_seq_upd_spec _ _ _ _ E) as (x & y & Hx & Hf & Hb).
      unfold s_terminal in Hf. destruct x as [| | v |]; try discriminate. destruct v; simpl in Hf; try discriminate.
      injection Hf as <-. split; [reflexivity|]. split; [eauto|]. eapply Hmv; eauto.
  - eapply h_write_act_spec; eauto.
Qed.

(* a handled write: the object is in the shape, the durable image gets the value, and the effect above *)
Lemma h_write_spec sh s o stt n lastok r s' :
  h_write sh s o stt n lastok r = Some s' ->
  obj_in_shape sh o = true /\ s_img s' = iset (s_img s) o (wc stt n lastok) /\ write_effect sh s s' o stt.
Proof.
  unfold h_write. destruct (obj_in_shape sh o) eqn:Eo; [|discriminate]. simpl. intro H.
  assert (Hgen : option_map (fun s1 => put s1 o stt n lastok) (h_write_obj sh s o stt n lastok r) = Some s' ->
                 s_img s' = iset (s_img s) o (wc stt n lastok) /\ write_effect sh s s' o stt).
  { intro E. apply option_map_some in E as (s1 & E & ->). destruct (h_write_obj_spec _ _ _ _ _ _ _ _ E) as [Hi He].
    split; [unfold put; simpl; now rewrite Hi|now apply write_effect_put]. }
  split; [reflexivity|].
  destruct o; try (now apply Hgen); destruct n; try discriminate; destruct lastok; try discriminate; now apply Hgen.
Qed.

(* ---- epsilon-moves ---- *)
Lemma b_eps_stay bs im bi pvis b b' :
  b_eps bs im bi pvis b = Some (BStay b') -> b_seqs b' = b_seqs b /\ b_ph b' <> BEnter.
Proof.
  unfold b_eps. intro H.
  destruct (b_ph b) eqn:Ep.
  - destruct (status_eqb (ist im (OBlock bi)) Running); [|discriminate]. injection H as <-. simpl. split; [reflexivity|discriminate].
  - destruct (g_bypass (bs_groups bs)).
    + destruct (once_done true (t_bypass (b_g b)) _) as [[x [|]]|]; try discriminate; injection H as <-; simpl; split; try reflexivity; discriminate.
    + injection H as <-. simpl. split; [reflexivity|discriminate].
  - destruct (once_done _ (t_pre (b_g b)) _) as [[x v1]|]; [|discriminate].
    destruct (once_done _ (t_cont (b_g b)) _) as [[y v2]|]; [|discriminate].
    destruct (v1 && v2); injection H as <-; simpl; split; try reflexivity; discriminate.
  - destruct (negb (Nat.eqb (inflight b) 0)); [discriminate|].
    destruct (exceeded bs b); [injection H as <-; simpl; split; [reflexivity|discriminate]|].
    destruct (all_started b); [injection H as <-; simpl; split; [reflexivity|discriminate]|].
    destruct (pvis || _); [|discriminate]. injection H as <-; simpl; split; [reflexivity|discriminate].
  - destruct (once_done _ (t_post (b_g b)) _) as [[x v]|]; [|discriminate]. injection H as <-; simpl; split; [reflexivity|discriminate].
  - destruct (once_done _ (t_deferred (b_g b)) _) as [[x v]|]; [|discriminate]. injection H as <-; simpl; split; [reflexivity|discriminate].
  - destruct (thr_live (b_thr b)).
    + destruct (g_settle _ _) as [x|]; [|discriminate]. injection H as <-. simpl. split; [reflexivity|]. rewrite Ep. discriminate.
    + destruct (status_eqb _ _); discriminate.
Qed.

Definition entered_new (s s' : st) : bool :=
  pphase_eqb (s_ph s') PBlocks && (negb (pphase_eqb (s_ph s) PBlocks) || negb (Nat.eqb (s_cb s) (s_cb s'))).

(* a phase move of the engine: it enters a new block, or (if it stays among the blocks) keeps the current block and
   its sequences and is not at the block's entry *)
Lemma p_eps_spec sh s s' :
  p_eps sh s = Some s' ->
  s_img s' = s_img s /\
  (entered_new s s' = true \/
   (entered_new s s' = false /\
    (s_ph s' = PBlocks -> s_ph s = PBlocks /\ s_cb s' = s_cb s /\ seqs_of s' = seqs_of s /\ b_ph (s_b s') <> BEnter))).
Proof.
  unfold p_eps. intro H. unfold entered_new.
  assert (Hout : forall s1, s_ph s1 <> PBlocks -> s_img s1 = s_img s ->
                 s_img s1 = s_img s /\
                 (pphase_eqb (s_ph s1) PBlocks && (negb (pphase_eqb (s_ph s) PBlocks) || negb (Nat.eqb (s_cb s) (s_cb s1))) = true \/
                  (pphase_eqb (s_ph s1) PBlocks && (negb (pphase_eqb (s_ph s) PBlocks) || negb (Nat.eqb (s_cb s) (s_cb s1))) = false /\
                   (s_ph s1 = PBlocks -> s_ph s = PBlocks /\ s_cb s1 = s_cb s /\ seqs_of s1 = seqs_of s /\ b_ph (s_b s1) <> BEnter)))).
  { intros s1 Hp Hi. split; [exact Hi|]. right. split; [|intro; contradiction].
    destruct (s_ph s1); try reflexivity. contradiction. }
  destruct (s_ph s) eqn:Ep.
  - destruct (status_eqb _ Running); [|discriminate]. injection H as <-. apply Hout; simpl; [discriminate|reflexivity].
  - destruct (g_bypass (sh_groups sh)).
    + destruct (once_done true _ _) as [[x [|]]|]; try discriminate; injection H as <-; apply Hout; simpl; try discriminate; reflexivity.
    + injection H as <-. apply Hout; simpl; [discriminate|reflexivity].
  - destruct (once_done _ (t_pre (s_g s)) _) as [[x v1]|]; [|discriminate].
    destruct (once_done _ (t_cont (s_g s)) _) as [[y v2]|]; [|discriminate].
    destruct (v1 && v2); injection H as <-.
    + split; [unfold enter_block; destruct (block_of sh 0); reflexivity|]. left.
      unfold enter_block. destruct (block_of sh 0); simpl; reflexivity.
    + apply Hout; simpl; [discriminate|reflexivity].
  - destruct (block_of sh (s_cb s)) as [bs|] eqn:Eb.
    + destruct (b_eps bs (s_img s) (s_cb s) (p_visible s) (s_b s)) as [[b'|[|]]|] eqn:Ee; try discriminate; injection H as <-.
      * split; [reflexivity|]. right. simpl. rewrite Ep. simpl. rewrite Nat.eqb_refl. simpl. split; [reflexivity|].
        intros _. destruct (b_eps_stay _ _ _ _ _ _ Ee) as [H1 H2]. auto.
      * apply Hout; simpl; [discriminate|reflexivity].
      * split; [unfold enter_block; destruct (block_of sh (S (s_cb s))); reflexivity|]. left.
        assert (Hne : Nat.eqb (s_cb s) (S (s_cb s)) = false) by (apply Nat.eqb_neq; lia).
        unfold enter_block. destruct (block_of sh (S (s_cb s))); simpl; rewrite Ep; simpl; rewrite Hne; reflexivity.
    + injection H as <-. apply Hout; simpl; [discriminate|reflexivity].
  - destruct (thr_live (s_thr s)).
    + destruct (g_settle _ _) as [x|]; [|discriminate]. injection H as <-.
      destruct (g_dead x); apply Hout; simpl; try rewrite Ep; try discriminate; reflexivity.
    + destruct (once_done _ (t_post (s_g s)) _) as [[x v]|]; [|discriminate]. injection H as <-. apply Hout; simpl; [discriminate|reflexivity].
  - destruct (thr_live (s_thr s)).
    + destruct (g_settle _ _) as [x|]; [|discriminate]. injection H as <-. apply Hout; simpl; [rewrite Ep; discriminate|reflexivity].
    + destruct (once_done _ (t_deferred (s_g s)) _) as [[x v]|]; [|discriminate]. injection H as <-. apply Hout; simpl; [discriminate|reflexivity].
  - discriminate.
  - discriminate.
Qed.
