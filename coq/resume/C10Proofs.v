(* C10, release side, in the monitor's own terms.  Proofs only. *)
From Coercion.Base Require Import Plan.
From Coercion.Engine Require Import Shape Event.
From Coercion.Resume Require Import Resume MonRecover ResumeLemmas ReleaseProofs.

Lemma filter_nil {A} (f : A -> bool) l : (forall x, In x l -> f x = false) -> filter f l = [].
Proof.
  induction l as [|x l IH]; intro H; simpl; [reflexivity|].
  rewrite (H x (or_introl eq_refl)). apply IH. intros y Hy. apply H. right. exact Hy.
Qed.

(* the clauses "the released plan is Completed / Failed / Stopped" and "nothing is left Running" of mon_converges
   hold of every release the resumed automaton accepts without deviation flags *)
Lemma converges_release_clauses sh I tr fin r0 r :
  rinit sh (dimg_of_image I) (im_reason I) = Some r0 ->
  cst I OPlan = Running ->
  rrun dev_none sh r0 (tr ++ [EvRelease fin]) = Some r ->
  is_terminal (cst fin OPlan) = true /\ left_running dev_none sh I fin = [].
Proof.
  intros Hi Hp H. destruct (resumed_release_quiescent sh I tr fin r0 r Hi Hp H) as [Ht Hq].
  split; [exact Ht|]. unfold left_running. apply filter_nil. intros o Hin.
  destruct (status_eqb (cst fin o) Running) eqn:E; [|reflexivity].
  apply status_eqb_eq in E. exfalso. eapply Hq; eauto.
Qed.

(* the flags only loosen the release guard *)
Definition dev_le (d d' : devs) : Prop :=
  (dev_R2 d = true -> dev_R2 d' = true) /\ (dev_R3 d = true -> dev_R3 d' = true)
  /\ (dev_R5 d = true -> dev_R5 d' = true) /\ (dev_R6 d = true -> dev_R6 d' = true).

Lemma excused_mono d d' sh I o : dev_le d d' -> excused d sh I o = true -> excused d' sh I o = true.
Proof.
  intros (H2 & H3 & H5 & H6). unfold excused. destruct (is_check_action o); [exact H2|].
  destruct (block_of_obj o) as [b|]; [|auto]. intro H.
  apply orb_true_iff in H as [H|H]; [apply orb_true_iff in H as [H|H]|].
  - apply andb_true_iff in H as [H Hc]. apply andb_true_iff in H as [H Hb]. rewrite (H3 H), Hb, Hc. reflexivity.
  - apply andb_true_iff in H as [H Hc]. apply andb_true_iff in H as [H Hb]. rewrite (H5 H), Hb, Hc. simpl. now rewrite orb_true_r.
  - apply andb_true_iff in H as [H Hc]. rewrite (H6 H), Hc. simpl. now rewrite orb_true_r.
Qed.

Lemma quiet_mono d d' sh I m : dev_le d d' -> quiet d sh I m = true -> quiet d' sh I m = true.
Proof.
  intros Hle H. unfold quiet in *. rewrite forallb_forall in *. intros o Hin. specialize (H o Hin).
  apply orb_true_iff in H as [H|H]; [now rewrite H|]. rewrite (excused_mono _ _ _ _ _ Hle H). now rewrite orb_true_r.
Qed.

