(* FullProofs - C09 at full strength for the first crash: coq/resume's partial theorems instantiated with the
   well-formedness of every crash image of an uninterrupted run (CrashImage.engine_crash_image_wf).  Proofs only. *)
From Coq Require Import Lia.
From Coercion.Base Require Import Plan.
From Coercion.Engine Require Import Shape Event Action ChecksRun Seq Block Final PlanSM Auto Accept AutoLemmas.
From Coercion.C04 Require AllObjs.
From Coercion.Resume Require Import Resume MonRecover ResumeLemmas ReleaseProofs Frame NoReexec ImgWf RepairSound C09Proofs.
From Coercion.ImgWf Require Import EngineInv EngineWf CrashImage.

(* ------------------------------------------------------------------ a crash image as a full read of the store *)
(* the canonical read of a durable image (time flags are not part of the durable image the automaton keeps) *)
Definition image_of (ir : dimg * reason) : image :=
  IM (map (fun oc => (fst oc, OC (c_st (snd oc)) (c_n (snd oc)) (c_ok (snd oc)) (TF true true true))) (fst ir)) (snd ir).

Lemma dimg_of_image_of ir : dimg_of_image (image_of ir) = fst ir.
Proof.
  unfold dimg_of_image, image_of. cbn [im_cells]. rewrite map_map. rewrite <- (map_id (fst ir)) at 2.
  apply map_ext. intros [o [t n ok]]. reflexivity.
Qed.

Lemma reason_of_image_of ir : im_reason (image_of ir) = snd ir.
Proof. reflexivity. Qed.

Lemma iget_dimg_of_image I o :
  iget (dimg_of_image I) o = match im_lookup I o with Some c => ocell_cell c | None => cell0 end.
Proof.
  unfold dimg_of_image, im_lookup. induction (im_cells I) as [|[o' c] l IH]; [reflexivity|].
  cbn. destruct (obj_eqb o' o); [reflexivity|exact IH].
Qed.

(* a full read that agrees with the durable image on every object of the plan (Event.image_agrees: what the
   correspondence check establishes for every read-back of every real run) shows the same cells *)
Lemma agrees_same_on sh im r I : image_agrees (all_objs sh) im r I = true -> same_on sh (dimg_of_image I) im.
Proof.
  unfold image_agrees. intros H o Ho. apply andb_true_iff in H as [_ H]. rewrite forallb_forall in H.
  apply AllObjs.all_objs_spec in Ho. specialize (H o Ho). rewrite iget_dimg_of_image.
  destruct (im_lookup I o) as [c|]; [|discriminate]. symmetry. now apply cell_eqb_eq.
Qed.

(* ------------------------------------------------------------------ one crash *)
Section OneCrash.
  Variables (d : devs) (sh : shape) (tr1 : list event) (s1 : st) (k : nat).
  Hypothesis Hrun : run sh init tr1 = Some s1.

  Lemma read_wf I : same_on sh (dimg_of_image I) (fst (crash_image sh tr1 k)) -> img_wf sh (dimg_of_image I) = true.
  Proof. intro E. rewrite (img_wf_ext sh _ _ E). eapply engine_crash_image_wf; eauto. Qed.

  Lemma noreexec_read I tr2 r0 r :
    same_on sh (dimg_of_image I) (fst (crash_image sh tr1 k)) ->
    rinit sh (dimg_of_image I) (im_reason I) = Some r0 -> rrun d sh r0 tr2 = Some r -> mon_noreexec I tr2 = true.
  Proof. intros E Hi Hr. eapply noreexec_of_wf; eauto. intros _. now apply read_wf. Qed.

  Lemma noreexec_agrees I tr2 r0 r :
    image_agrees (all_objs sh) (fst (crash_image sh tr1 k)) (snd (crash_image sh tr1 k)) I = true ->
    rinit sh (dimg_of_image I) (im_reason I) = Some r0 -> rrun d sh r0 tr2 = Some r -> mon_noreexec I tr2 = true.
  Proof. intros E. apply noreexec_read. eapply agrees_same_on; eauto. Qed.

  Lemma noreexec_canonical tr2 r0 r :
    rinit sh (fst (crash_image sh tr1 k)) (snd (crash_image sh tr1 k)) = Some r0 -> rrun d sh r0 tr2 = Some r ->
    mon_noreexec (image_of (crash_image sh tr1 k)) tr2 = true.
  Proof.
    intros Hi Hr. eapply noreexec_read; rewrite ?dimg_of_image_of, ?reason_of_image_of; eauto. intros o _. reflexivity.
  Qed.

  (* ---------------------------------------------------------------- chains: the first crash is discharged *)
  Lemma chain_full tr2 k2 rest :
    let ci := crash_image sh tr1 k in
    let c2 := crash_from (fst ci) (snd ci) tr2 k2 in
    chain_accepted d sh (fst ci) (snd ci) ((tr2, k2) :: rest) ->
    chain_wf sh (fst c2) (snd c2) rest ->
    chain_noreexec sh (fst ci) (snd ci) ((tr2, k2) :: rest).
  Proof.
    intros ci c2 Ha Hw. apply (crash_chain_noreexec d); [exact Ha|]. cbn [chain_wf]. split; [|exact Hw].
    intros _. eapply engine_crash_image_wf; eauto.
  Qed.
End OneCrash.
