(* EngineWf - every durable image of an uninterrupted run of the engine automaton is well-formed (ImgWf.img_wf of
   coq/resume): the lemma about coq/engine that the full statement of C09 was missing.  Proofs only.

   From EngineInv.hinv (hierarchy of the image against the block / sequence sub-automata) and C06's reachable-state
   invariant pinv (group state determines durable status; the stage table: while the blocks execute, the plan's
   bypass group has not passed, its pre group has passed and its post group has not run). *)
From Coq Require Import Lia.
From Coercion.Base Require Import Plan.
From Coercion.Engine Require Import Shape Event Action ChecksRun Seq Block Final PlanSM Auto Accept AutoLemmas.
From Coercion.C06 Require Import Groups Steps Tab Inv InvPlan.
From Coercion.Resume Require Import Resume ImgWf.
From Coercion.Resume Require RepairSound.
From Coercion.ImgWf Require Import EngineInv.

Lemma in_indexed {A} (l : list A) i x : In (i, x) (indexed l) -> nth_error l i = Some x.
Proof.
  intro H. apply In_nth_error in H as [n Hn]. rewrite RepairSound.nth_indexed in Hn.
  destruct (nth_error l n) eqn:E; [|discriminate]. simpl in Hn. injection Hn as <- <-. exact E.
Qed.

Lemma not_stopped t : t <> Stopped -> negb (status_eqb t Stopped) = true.
Proof. destruct t; try reflexivity. intro H. now contradiction H. Qed.

Lemma not_running t : t <> Running -> negb (status_eqb t Running) = true.
Proof. destruct t; try reflexivity. intro H. now contradiction H. Qed.

Section Wf.
  Variable sh : shape.
  Variable s : st.
  Hypothesis K : hinv sh s.
  Let I := s_img s.

  Lemma act_wf_ok b q i : act_wf I (ist I (OSeq b q)) (ASeq b q i) = true.
  Proof.
    unfold act_wf, fresh_cell. apply andb_true_iff. split; [apply andb_true_iff; split|].
    - apply not_stopped. apply (hi_nostop _ _ K). discriminate.
    - destruct (status_eqb (c_st (iget I (OAct (ASeq b q i)))) NotStarted) eqn:E; [|reflexivity].
      apply status_eqb_eq in E. unfold I in *. rewrite (hi_fresh _ _ K _ E). reflexivity.
    - destruct (status_eqb (ist I (OSeq b q)) NotStarted) eqn:E; [|reflexivity].
      apply status_eqb_eq in E. unfold I in *. rewrite (hi_act_seq _ _ K b q i E). reflexivity.
  Qed.

  Lemma seq_wf_ok b q rs : seq_wf I (ist I (OBlock b)) b q rs = true.
  Proof.
    unfold seq_wf. apply andb_true_iff. split; [apply andb_true_iff; split|].
    - apply not_stopped. apply (hi_nostop _ _ K). discriminate.
    - destruct (status_eqb (ist I (OBlock b)) NotStarted) eqn:E; [|reflexivity].
      apply status_eqb_eq in E. unfold I in *. rewrite (hi_seq_block _ _ K b q E). reflexivity.
    - apply forallb_forall. intros i _. apply act_wf_ok.
  Qed.

  Lemma block_wf_ok b bs : block_wf I b bs = true.
  Proof.
    unfold block_wf. apply andb_true_iff. split.
    - apply not_stopped. apply (hi_nostop _ _ K). discriminate.
    - apply forallb_forall. intros [q rs] _. apply seq_wf_ok.
  Qed.

  Lemma no_block_running :
    s_ph s <> PBlocks ->
    forallb (fun bb => negb (status_eqb (ist I (OBlock (fst bb))) Running)) (indexed (sh_blocks sh)) = true.
  Proof.
    intro Np. apply forallb_forall. intros [b bs] Hin. apply in_indexed in Hin. cbn [fst].
    apply not_running. apply (hi_blocks _ _ K).
    - unfold block_of. congruence.
    - intro; contradiction.
  Qed.

  Hypothesis P : pinv sh s.

  Lemma present_eq g : grp_present sh SPlan g = ppres sh g.
  Proof. unfold grp_present, group_of, ppres. cbn. destruct (grp_get (sh_groups sh) g); reflexivity. Qed.

  (* while the blocks execute, the plan's own repair would not return early *)
  Lemma not_early_in_blocks : s_ph s = PBlocks -> plan_early sh I = false.
  Proof.
    intro Ph. pose proof (pi_tab _ _ P) as T. rewrite Ph in T. cbn [pstage] in T.
    destruct T as (_ & Tb & Tp & _ & To & _).
    pose proof (pi_img _ _ P GBypass) as Ib. pose proof (pi_img _ _ P GPre) as Ip. pose proof (pi_img _ _ P GPost) as Io.
    cbn [tget] in Ib, Ip, Io. fold I in Ib, Ip, Io.
    unfold plan_early, group_failed. rewrite !present_eq.
    assert (A : ppres sh GBypass && status_eqb (ist I (OChecks SPlan GBypass)) Completed = false).
    { destruct (ppres sh GBypass); [|reflexivity]. cbn in Tb. rewrite Tb in Ib. cbn in Ib. now rewrite Ib. }
    assert (B : ppres sh GPre && status_eqb (ist I (OChecks SPlan GPre)) Failed = false).
    { destruct (ppres sh GPre); [|reflexivity]. cbn in Tp. rewrite Tp in Ip. cbn in Ip. now rewrite Ip. }
    assert (C : ppres sh GPost && status_eqb (ist I (OChecks SPlan GPost)) Failed = false).
    { rewrite To in Io. cbn in Io. rewrite Io. now destruct (ppres sh GPost). }
    now rewrite A, B, C.
  Qed.

  Lemma img_wf_of_invariants : img_wf sh I = true.
  Proof.
    unfold img_wf. apply andb_true_iff. split.
    - apply forallb_forall. intros [b bs] _. apply block_wf_ok.
    - destruct (s_ph s) eqn:Ph; try (rewrite no_block_running by (rewrite Ph; discriminate); apply orb_true_r).
      now rewrite not_early_in_blocks.
  Qed.
End Wf.

(* THE LEMMA: every durable image of every run of the engine automaton is well-formed *)
Theorem engine_img_wf sh tr s : run sh init tr = Some s -> img_wf sh (s_img s) = true.
Proof. intro H. apply img_wf_of_invariants; [eapply hinv_reach|eapply pinv_reach]; eauto. Qed.
