(* EngineInv - a reachable-state invariant of the engine automaton (coq/engine, frozen) about the HIERARCHY of the
   durable image: what the well-formedness predicate ImgWf.img_wf of coq/resume reads.  Proofs only.

     hinv sh s   nothing is ever written NotStarted or (below the plan) Stopped; no block other than the current one
                 is Running; the current block is durably started once it has left its entry phase; a sequence
                 sub-automaton that has left SIdle is durably started; a NotStarted block has only NotStarted
                 sequences; a NotStarted sequence has only never-written actions.

   Proved for every handler (through C06.Steps.handle_cases) and every epsilon-move, hence for every state the
   automaton reaches from init (hinv_reach).  No shape_wf needed. *)
From Coq Require Import Lia.
From Coercion.Base Require Import Plan.
From Coercion.Engine Require Import Shape Event Action ChecksRun Seq Block Final PlanSM Auto Accept AutoLemmas.
From Coercion.C06 Require Import Groups Steps Inv.
From Coercion.Resume Require Frame.

Record hinv (sh : shape) (s : st) : Prop := {
  hi_fresh : forall o, ist (s_img s) o = NotStarted -> iget (s_img s) o = cell0;
  hi_nostop : forall o, o <> OPlan -> ist (s_img s) o <> Stopped;
  hi_blocks : forall b, block_of sh b <> None -> (s_ph s = PBlocks -> b <> s_cb s) ->
              ist (s_img s) (OBlock b) <> Running;
  hi_cur : b_ph (s_b s) <> BEnter -> ist (s_img s) (OBlock (s_cb s)) <> NotStarted;
  hi_seqs : forall q x, nth_error (b_seqs (s_b s)) q = Some x -> x <> SIdle ->
            ist (s_img s) (OSeq (s_cb s) q) <> NotStarted /\ b_ph (s_b s) <> BEnter;
  hi_seq_block : forall b q, ist (s_img s) (OBlock b) = NotStarted -> ist (s_img s) (OSeq b q) = NotStarted;
  hi_act_seq : forall b q i, ist (s_img s) (OSeq b q) = NotStarted -> iget (s_img s) (OAct (ASeq b q i)) = cell0 }.

(* ------------------------------------------------------------------ the image after a write *)
Lemma iget_iset im o c o' : iget (iset im o c) o' = if obj_eqb o o' then c else iget im o'.
Proof. reflexivity. Qed.

Lemma ist_iset_same im o c : ist (iset im o c) o = c_st c.
Proof. unfold ist. now rewrite iget_iset_same. Qed.

Lemma ist_iset_other im o o' c : o <> o' -> ist (iset im o c) o' = ist im o'.
Proof. intro H. unfold ist. now rewrite iget_iset_other. Qed.

(* every handled write carries Running, Completed or Failed (the plan: or Stopped) *)
Lemma handled_write_status sh s o stt n ok r s' :
  handle sh s (EvWrite o stt n ok r) = Some s' -> stt <> NotStarted /\ (o <> OPlan -> stt <> Stopped).
Proof.
  intro H. cbn [handle] in H. destruct (released s); [discriminate|]. unfold h_write in H.
  destruct (negb (obj_in_shape sh o)); [discriminate|].
  assert (G : forall x, h_write_obj sh s o stt n ok r = Some x -> stt <> NotStarted /\ (o <> OPlan -> stt <> Stopped)).
  { clear H. intros x H. unfold h_write_obj in H. destruct o as [|sc g|b|b q|a].
    - unfold p_write in H. destruct (s_ph s); try discriminate.
      + destruct stt; try discriminate. split; [discriminate|congruence].
      + destruct stt; try discriminate; split; try discriminate; congruence.
    - destruct sc; destruct stt; try discriminate; split; discriminate.
    - destruct (cur_block sh s b); [|discriminate]. unfold b_write in H.
      destruct stt; try discriminate; split; discriminate.
    - destruct (cur_block sh s b); [|discriminate]. destruct stt; try discriminate; split; discriminate.
    - unfold h_write_act in H. destruct stt; try discriminate; split; discriminate. }
  destruct o; try (destruct n; [destruct ok|]; try discriminate);
    destruct (h_write_obj sh s _ stt _ _ r) eqn:E; try discriminate; eapply G; eauto.
Qed.

Lemma handle_img sh s e s' : handle sh s e = Some s' -> s_img s' = ev_img e (s_img s).
Proof.
  intro H. destruct (handle_cases _ _ _ _ H) as
    [g op x owed _ _ _ U _|b0 bs0 g op x owed _ _ _ _ U _|b0 bs0 q sq sq' owed _ _ _ U _
    |b0 bs0 stt r _ _ _ U _|stt r _ _ U _|a0 l Q _ E1 _ _ _ _ _ _ _ _|snap Q E|fin0 Q _ _ _ E1 _ _ _ _ _ _ _];
    try exact (us_img _ _ _ _ _ _ U); subst e; simpl; auto. now subst.
Qed.

(* the two clauses that only depend on which statuses are written *)
Lemma fresh_nostop sh s e s' :
  hinv sh s -> handle sh s e = Some s' ->
  (forall o, ist (s_img s') o = NotStarted -> iget (s_img s') o = cell0)
  /\ (forall o, o <> OPlan -> ist (s_img s') o <> Stopped).
Proof.
  intros K H. rewrite (handle_img _ _ _ _ H).
  destruct e as [a|a o|o stt n ok r|snap|fin]; simpl; try (split; [apply (hi_fresh _ _ K)|apply (hi_nostop _ _ K)]).
  destruct (handled_write_status _ _ _ _ _ _ _ _ H) as [N1 N2]. split.
  - intros o' Ho. unfold ist in Ho. rewrite iget_iset in *. destruct (obj_eqb o o') eqn:E.
    + simpl in Ho. contradiction.
    + now apply (hi_fresh _ _ K).
  - intros o' Hn. unfold ist. rewrite iget_iset. destruct (obj_eqb o o') eqn:E.
    + apply obj_eqb_eq in E. subst o'. simpl. auto.
    + now apply (hi_nostop _ _ K).
Qed.

(* the objects of the sequence level: blocks, sequences, sequence actions *)
Definition seqlevel (o : obj) : Prop :=
  match o with OBlock _ | OSeq _ _ | OAct (ASeq _ _ _) => True | _ => False end.

Lemma chk_op_seqlevel e sc g op im : chk_op e = Some (sc, g, op) -> forall o, seqlevel o -> iget (ev_img e im) o = iget im o.
Proof.
  intros H o So. destruct e as [a|a o0|o0 stt n ok r|snap|fin]; simpl; auto.
  simpl in H. destruct o0 as [|sc' g'|b|b q|a]; try discriminate.
  - apply iget_iset_other. intro E. subst o. destruct So.
  - destruct a as [sc' g' i|]; [|destruct stt; try discriminate; destruct n; try discriminate; destruct ok; discriminate].
    apply iget_iset_other. intro E. subst o. destruct So.
Qed.

Lemma ev_aref_img e a im : ev_aref e = Some a -> forall o, o <> OAct a -> iget (ev_img e im) o = iget im o.
Proof.
  intros H o Ho. destruct e as [a0|a0 o0|o0 stt n ok r|snap|fin]; simpl; auto.
  simpl in H. destruct o0; try discriminate. injection H as ->. apply iget_iset_other. congruence.
Qed.

Lemma nth_upd_cases {A} (l : list A) q q' x y :
  nth_error (upd l q y) q' = Some x -> (q' = q /\ x = y) \/ (q' <> q /\ nth_error l q' = Some x).
Proof.
  intro H. destruct (Nat.eq_dec q q') as [<-|N].
  - left. split; [reflexivity|]. pose proof (nth_error_some_lt _ _ _ H) as L. rewrite upd_length in L.
    rewrite (nth_upd_same l q y L) in H. congruence.
  - right. split; [congruence|]. now rewrite nth_upd_other in H.
Qed.

(* ------------------------------------------------------------------ events that leave the sequence level alone *)
Lemma hinv_frame sh s s' :
  hinv sh s ->
  (forall o, ist (s_img s') o = NotStarted -> iget (s_img s') o = cell0) ->
  (forall o, o <> OPlan -> ist (s_img s') o <> Stopped) ->
  (forall o, seqlevel o -> iget (s_img s') o = iget (s_img s) o) ->
  (s_ph s = PBlocks -> s_ph s' = PBlocks) -> s_cb s' = s_cb s ->
  b_ph (s_b s') = b_ph (s_b s) -> b_seqs (s_b s') = b_seqs (s_b s) -> hinv sh s'.
Proof.
  intros K F N Fr Ph Cb Bp Bs.
  assert (Fs : forall o, seqlevel o -> ist (s_img s') o = ist (s_img s) o) by (intros o So; unfold ist; now rewrite Fr).
  constructor; auto.
  - intros b Hb Hc. rewrite Fs by exact I. apply (hi_blocks _ _ K); auto. intro P. rewrite <- Cb. auto.
  - rewrite Bp, Cb, Fs by exact I. apply (hi_cur _ _ K).
  - intros q x. rewrite Bs, Bp, Cb, Fs by exact I. apply (hi_seqs _ _ K).
  - intros b q. rewrite !Fs by exact I. apply (hi_seq_block _ _ K).
  - intros b q i. rewrite Fs, Fr by exact I. apply (hi_act_seq _ _ K).
Qed.

Lemma obj_dec (o o' : obj) : {o = o'} + {o <> o'}.
Proof.
  destruct (obj_eqb o o') eqn:E; [left; now apply obj_eqb_eq|right; intro H; apply obj_eqb_eq in H; congruence].
Qed.

(* a write of sequence q of the current block, which is past its entry phase, with a status other than NotStarted *)
Lemma hinv_seq_write sh s s' q stt sq' :
  hinv sh s -> stt <> NotStarted -> sq' <> SIdle -> b_ph (s_b s) <> BEnter ->
  (forall o, ist (s_img s') o = NotStarted -> iget (s_img s') o = cell0) ->
  (forall o, o <> OPlan -> ist (s_img s') o <> Stopped) ->
  s_img s' = iset (s_img s) (OSeq (s_cb s) q) {| c_st := stt; c_n := 0; c_ok := false |} ->
  s_ph s' = s_ph s -> s_cb s' = s_cb s ->
  s_b s' = b_with_seqs (s_b s) (upd (b_seqs (s_b s)) q sq') -> hinv sh s'.
Proof.
  intros K Ns Nq Nb F N Ei Ph Cb Eb.
  assert (Fo : forall o, o <> OSeq (s_cb s) q -> iget (s_img s') o = iget (s_img s) o)
    by (intros o Ho; rewrite Ei; apply iget_iset_other; congruence).
  assert (Fs : forall o, o <> OSeq (s_cb s) q -> ist (s_img s') o = ist (s_img s) o)
    by (intros o Ho; unfold ist; now rewrite Fo).
  assert (Es : ist (s_img s') (OSeq (s_cb s) q) = stt) by (rewrite Ei; apply ist_iset_same).
  constructor; auto.
  - intros b Hb Hc. rewrite Fs by discriminate. apply (hi_blocks _ _ K); auto. rewrite <- Ph, <- Cb. exact Hc.
  - intros _. rewrite Cb, Fs by discriminate. now apply (hi_cur _ _ K).
  - intros q' x Hx Hn. rewrite Eb in *. cbn [b_seqs b_ph b_with_seqs] in *. rewrite Cb. split; [|exact Nb].
    destruct (nth_upd_cases _ _ _ _ _ Hx) as [[-> ->]|[Nq' Hx']].
    + now rewrite Es.
    + rewrite Fs by congruence. now apply (hi_seqs _ _ K q' x).
  - intros b q' Hb. rewrite Fs in Hb by discriminate. destruct (obj_dec (OSeq b q') (OSeq (s_cb s) q)) as [E|E].
    + injection E as -> ->. exfalso. now apply (hi_cur _ _ K).
    + rewrite Fs by exact E. now apply (hi_seq_block _ _ K).
  - intros b q' i Hq. rewrite Fo by discriminate. destruct (obj_dec (OSeq b q') (OSeq (s_cb s) q)) as [E|E].
    + rewrite E, Es in Hq. contradiction.
    + rewrite Fs in Hq by exact E. now apply (hi_act_seq _ _ K).
Qed.

Lemma hinv_handle sh s e s' : hinv sh s -> handle sh s e = Some s' -> hinv sh s'.
Proof.
  intros K H. destruct (fresh_nostop _ _ _ _ K H) as [F N]. pose proof (handle_img _ _ _ _ H) as Ei.
  destruct (handle_cases _ _ _ _ H) as
    [g op x owed Hc _ _ U _|b0 bs0 g op x owed Hc Cb _ _ U _|b0 bs0 q sq sq' owed Cb Hq Ht U _
    |b0 bs0 stt r Q Cb Hw U _|stt r Q Hw U _|a0 l Q _ E1 E2 _ _ E5 E6 _ _ _|snap Q E
    |fin0 Q P0 _ _ E1 E2 _ _ E5 E6 _ _].
  - destruct U. eapply hinv_frame; eauto; try congruence.
    intros o So. rewrite Ei. eapply chk_op_seqlevel; eauto.
  - destruct U. eapply hinv_frame; eauto; try congruence; try (rewrite us_b; reflexivity).
    intros o So. rewrite Ei. eapply chk_op_seqlevel; eauto.
  - destruct (cur_block_spec _ _ _ _ Cb) as (Ph & -> & Hbs). destruct U.
    destruct Ht as [r -> Bp _|st r v -> ->|j a x i Ha Hi Hd].
    + eapply hinv_seq_write with (stt := Running) (sq' := SRun 0 AIdle); eauto; try discriminate.
      rewrite Bp. discriminate.
    + destruct (hi_seqs _ _ K q (SPend v) Hq) as [_ Nb]; [discriminate|].
      eapply hinv_seq_write with (stt := verdict_status v) (sq' := SDone v); eauto; try discriminate.
      destruct v; discriminate.
    + destruct (hi_seqs _ _ K q (SRun j a) Hq) as [Nq Nb]; [discriminate|].
      assert (Fo : forall o, o <> OAct (ASeq (s_cb s) q i) -> iget (s_img s') o = iget (s_img s) o)
        by (intros o Ho; rewrite Ei; eapply ev_aref_img; eauto).
      assert (Fs : forall o, o <> OAct (ASeq (s_cb s) q i) -> ist (s_img s') o = ist (s_img s) o)
        by (intros o Ho; unfold ist; now rewrite Fo).
      constructor; auto.
      * intros b Hb Hc. rewrite Fs by discriminate. apply (hi_blocks _ _ K); auto. rewrite <- us_ph, <- us_cb. exact Hc.
      * rewrite us_b, us_cb, Fs by discriminate. exact (hi_cur _ _ K).
      * intros q' y Hy Hn. rewrite us_b in *. cbn [b_seqs b_ph b_with_seqs] in *. rewrite us_cb, Fs by discriminate.
        split; [|exact Nb]. destruct (nth_upd_cases _ _ _ _ _ Hy) as [[-> ->]|[Nq' Hy']]; [exact Nq|].
        now apply (hi_seqs _ _ K q' y).
      * intros b q'. rewrite !Fs by discriminate. apply (hi_seq_block _ _ K).
      * intros b q' i' Hs. rewrite Fs in Hs by discriminate.
        destruct (obj_dec (OAct (ASeq b q' i')) (OAct (ASeq (s_cb s) q i))) as [E|E].
        -- injection E as -> -> ->. contradiction.
        -- rewrite Fo by exact E. now apply (hi_act_seq _ _ K).
  - destruct (cur_block_spec _ _ _ _ Cb) as (Ph & -> & Hbs). destruct U. subst e.
    destruct (handled_write_status _ _ _ _ _ _ _ _ H) as [Ns _]. simpl in Ei.
    assert (Fo : forall o, o <> OBlock (s_cb s) -> iget (s_img s') o = iget (s_img s) o)
      by (intros o Ho; rewrite Ei; apply iget_iset_other; congruence).
    assert (Fs : forall o, o <> OBlock (s_cb s) -> ist (s_img s') o = ist (s_img s) o)
      by (intros o Ho; unfold ist; now rewrite Fo).
    assert (Es : ist (s_img s') (OBlock (s_cb s)) = stt) by (rewrite Ei; apply ist_iset_same).
    constructor; auto.
    + intros b Hb Hc. rewrite us_ph, us_cb in Hc. specialize (Hc Ph). rewrite Fs by congruence.
      apply (hi_blocks _ _ K); auto.
    + intros _. now rewrite us_cb, Es.
    + intros q y. rewrite us_b, us_cb, Fs by discriminate. apply (hi_seqs _ _ K).
    + intros b q Hb. rewrite Fs by discriminate. apply (hi_seq_block _ _ K).
      destruct (Nat.eq_dec b (s_cb s)) as [->|Nb]; [rewrite Es in Hb; contradiction|]. rewrite Fs in Hb; congruence.
    + intros b q i. rewrite Fs, Fo by discriminate. apply (hi_act_seq _ _ K).
  - destruct U. subst e. eapply hinv_frame; eauto; try congruence; try (rewrite us_b; reflexivity).
    intros o So. rewrite Ei. cbn [ev_img]. apply iget_iset_other. intro E. subst o. destruct So.
  - eapply hinv_frame; eauto; try congruence; intros; congruence.
  - subst. exact K.
  - eapply hinv_frame; eauto; try congruence; intros; congruence.
Qed.

(* ------------------------------------------------------------------ epsilon-moves *)
Definition fresh_bst (sh : shape) (cb : nat) : bst :=
  match block_of sh cb with Some bs => b_init bs | None => b_none end.

Inductive ekind (sh : shape) (s s' : st) : Prop :=
| EK_out : s_cb s' = s_cb s -> s_b s' = s_b s -> s_ph s' <> PBlocks ->
           (s_ph s = PBlocks -> block_of sh (s_cb s) = None \/ ist (s_img s) (OBlock (s_cb s)) = Failed) -> ekind sh s s'
| EK_stay bs b' : s_ph s = PBlocks -> s_ph s' = PBlocks -> s_cb s' = s_cb s -> block_of sh (s_cb s) = Some bs ->
           b_eps bs (s_img s) (s_cb s) (p_visible s) (s_b s) = Some (BStay b') -> s_b s' = b' -> ekind sh s s'
| EK_enter : s_ph s' = PBlocks -> s_b s' = fresh_bst sh (s_cb s') ->
           (s_ph s = PBlocks -> s_cb s' = S (s_cb s) /\ ist (s_img s) (OBlock (s_cb s)) = Completed) -> ekind sh s s'.

Lemma enter_block_kind sh s0 s cb :
  s_img s0 = s_img s -> (s_ph s = PBlocks -> cb = S (s_cb s) /\ ist (s_img s) (OBlock (s_cb s)) = Completed) ->
  s_img (with_ph (enter_block sh s0 cb) PBlocks) = s_img s /\ ekind sh s (with_ph (enter_block sh s0 cb) PBlocks).
Proof.
  intros Ei Hc. unfold enter_block, fresh_bst.
  split; [destruct (block_of sh cb); exact Ei|].
  apply EK_enter; [reflexivity| |].
  - destruct (block_of sh cb) eqn:E; cbn; unfold fresh_bst; rewrite E; reflexivity.
  - intro P. destruct (Hc P) as [-> Hs]. split; [|exact Hs]. destruct (block_of sh (S (s_cb s))); reflexivity.
Qed.

Lemma eps_kinds sh s s' : eps sh s = Some s' -> s_img s' = s_img s /\ ekind sh s s'.
Proof.
  unfold eps, p_eps. intro H.
  assert (Out : forall s1, s_img s1 = s_img s -> s_cb s1 = s_cb s -> s_b s1 = s_b s -> s_ph s1 <> PBlocks ->
                s_ph s <> PBlocks -> s_img s1 = s_img s /\ ekind sh s s1).
  { intros s1 E1 E2 E3 E4 E5. split; [exact E1|]. apply EK_out; auto. intro; contradiction. }
  destruct (s_ph s) eqn:Ep.
  - destruct (status_eqb _ Running); [|discriminate]. injection H as <-. apply Out; cbn; congruence.
  - destruct (g_bypass (sh_groups sh)).
    + destruct (once_done true _ _) as [[x [|]]|]; try discriminate; injection H as <-; apply Out; cbn; congruence.
    + injection H as <-. apply Out; cbn; congruence.
  - destruct (once_done _ (t_pre (s_g s)) _) as [[x v1]|]; [|discriminate].
    destruct (once_done _ (t_cont (s_g s)) _) as [[y v2]|]; [|discriminate].
    destruct (v1 && v2); injection H as <-.
    + apply enter_block_kind; [reflexivity|]. rewrite Ep. discriminate.
    + apply Out; cbn; congruence.
  - destruct (block_of sh (s_cb s)) as [bs|] eqn:Eb.
    + destruct (b_eps bs (s_img s) (s_cb s) (p_visible s) (s_b s)) as [[b'|[|]]|] eqn:Ee; try discriminate; injection H as <-.
      * split; [reflexivity|]. eapply EK_stay; eauto.
      * destruct (b_eps_finished _ _ _ _ _ _ Ee) as (_ & _ & Ec & Es). rewrite <- Ec in Es.
        split; [reflexivity|]. apply EK_out; cbn; auto. discriminate.
      * destruct (b_eps_finished _ _ _ _ _ _ Ee) as (_ & _ & Ec & Es). rewrite <- Ec in Es.
        assert (Q : with_ph (enter_block sh s (S (s_cb s))) PBlocks = enter_block sh s (S (s_cb s))).
        { unfold enter_block. destruct (block_of sh (S (s_cb s))); unfold with_ph, with_block; cbn; rewrite Ep; reflexivity. }
        rewrite <- Q. apply enter_block_kind; auto.
    + injection H as <-. split; [reflexivity|]. apply EK_out; cbn; auto. discriminate.
  - destruct (thr_live (s_thr s)).
    + destruct (g_settle _ _) as [x|]; [|discriminate]. injection H as <-.
      destruct (g_dead x); apply Out; cbn; congruence.
    + destruct (once_done _ (t_post (s_g s)) _) as [[x v]|]; [|discriminate]. injection H as <-. apply Out; cbn; congruence.
  - destruct (thr_live (s_thr s)).
    + destruct (g_settle _ _) as [x|]; [|discriminate]. injection H as <-. apply Out; cbn; congruence.
    + destruct (once_done _ (t_deferred (s_g s)) _) as [[x v]|]; [|discriminate]. injection H as <-. apply Out; cbn; congruence.
  - discriminate.
  - discriminate.
Qed.

Lemma b_eps_enter bs im bi pvis b b' :
  b_eps bs im bi pvis b = Some (BStay b') -> b_ph b = BEnter -> ist im (OBlock bi) = Running.
Proof.
  unfold b_eps. intros H E. rewrite E in H.
  destruct (status_eqb (ist im (OBlock bi)) Running) eqn:Q; [|discriminate]. now apply status_eqb_eq.
Qed.

Lemma fresh_bst_ph sh cb : b_ph (fresh_bst sh cb) = BEnter.
Proof. unfold fresh_bst. destruct (block_of sh cb); reflexivity. Qed.

Lemma fresh_bst_idle sh cb q x : nth_error (b_seqs (fresh_bst sh cb)) q = Some x -> x = SIdle.
Proof.
  unfold fresh_bst. destruct (block_of sh cb); cbn; intro H.
  - apply nth_error_In in H. now apply repeat_spec in H.
  - destruct q; discriminate.
Qed.

Lemma hinv_eps sh s s' : hinv sh s -> eps sh s = Some s' -> hinv sh s'.
Proof.
  intros K H. destruct (eps_kinds _ _ _ H) as [Ei Kd].
  destruct Kd as [Cb Eb Np Hc|bs b' Ph Ph' Cb Hbs He Eb|Ph' Eb Hc].
  - constructor; rewrite ?Ei, ?Cb, ?Eb; try apply K.
    intros b Hb _. destruct (s_ph s) eqn:P;
      try (apply (hi_blocks _ _ K); [exact Hb|rewrite P; discriminate]).
    destruct (Nat.eq_dec b (s_cb s)) as [->|Nb]; [|now apply (hi_blocks _ _ K)].
    destruct (Hc eq_refl) as [Q|Q]; [contradiction|]. rewrite Q. discriminate.
  - destruct (Frame.b_eps_stay _ _ _ _ _ _ He) as [Es Nb].
    constructor; rewrite ?Ei, ?Cb, ?Eb, ?Es; try apply K.
    + intros b Hb Hn. apply (hi_blocks _ _ K); auto; intros _; rewrite <- Cb; auto.
    + intros _. destruct (b_ph (s_b s)) eqn:Q; try (apply (hi_cur _ _ K); rewrite Q; discriminate).
      rewrite (b_eps_enter _ _ _ _ _ _ He Q). discriminate.
    + intros q x Hx Hn. split; [|exact Nb]. now apply (hi_seqs _ _ K q x).
  - constructor; rewrite ?Ei, ?Eb; try apply K.
    + intros b Hb Hn. specialize (Hn Ph'). destruct (s_ph s) eqn:P;
        try (apply (hi_blocks _ _ K); [exact Hb|rewrite P; discriminate]).
      destruct (Hc eq_refl) as [Ec Q].
      destruct (Nat.eq_dec b (s_cb s)) as [->|Nb]; [rewrite Q; discriminate|now apply (hi_blocks _ _ K)].
    + rewrite fresh_bst_ph. congruence.
    + intros q x Hx Hn. apply fresh_bst_idle in Hx. contradiction.
Qed.

Lemma hinv_init sh : hinv sh init.
Proof.
  constructor; cbn; try reflexivity; try discriminate.
  - intro H. now contradiction H.
  - intros [|q] x H; discriminate H.
Qed.

Theorem hinv_reach sh tr s : run sh init tr = Some s -> hinv sh s.
Proof.
  apply (run_inv (hinv sh)); [|apply hinv_init].
  apply step_inv; [apply hinv_eps|apply hinv_handle].
Qed.
