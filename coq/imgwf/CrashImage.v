(* CrashImage - the crash images of an uninterrupted run (Resume.crash_image: the image after the first k writes of
   the trace) are durable images of the automaton's run of a prefix of the trace, up to stutter writes; img_wf only
   reads the image through iget on objects of the shape; hence every crash image of every accepted trace is
   well-formed.  Proofs only. *)
From Coq Require Import Lia.
From Coercion.Base Require Import Plan.
From Coercion.Engine Require Import Shape Event Action ChecksRun Seq Block Final PlanSM Auto Accept AutoLemmas.
From Coercion.C06 Require Import Steps.
From Coercion.Resume Require Import Resume ImgWf.
From Coercion.ImgWf Require Import EngineInv EngineWf.

(* ------------------------------------------------------------------ img_wf reads only the objects of the shape *)
Definition same_on (sh : shape) (I J : dimg) : Prop := forall o, obj_in_shape sh o = true -> iget I o = iget J o.

Lemma forallb_ext_in {A} (f g : A -> bool) l : (forall x, In x l -> f x = g x) -> forallb f l = forallb g l.
Proof.
  induction l as [|x l IH]; intro H; simpl; [reflexivity|].
  rewrite (H x (or_introl eq_refl)), IH; [reflexivity|]. intros y Hy. apply H. now right.
Qed.

Section Ext.
  Variable sh : shape.
  Variables I J : dimg.
  Hypothesis E : same_on sh I J.

  Lemma same_ist o : obj_in_shape sh o = true -> ist I o = ist J o.
  Proof. intro H. unfold ist. now rewrite (E o H). Qed.

  Lemma act_wf_ext t b q rs i : seq_of sh b q = Some rs -> i < length rs -> act_wf I t (ASeq b q i) = act_wf J t (ASeq b q i).
  Proof.
    intros Hs Hi. unfold act_wf. rewrite (E (OAct (ASeq b q i))); [reflexivity|].
    cbn. rewrite Hs. destruct (nth_error rs i) eqn:N; [reflexivity|]. apply nth_error_None in N. lia.
  Qed.

  Lemma seq_wf_ext t b q rs : seq_of sh b q = Some rs -> seq_wf I t b q rs = seq_wf J t b q rs.
  Proof.
    intro Hs. unfold seq_wf. rewrite (same_ist (OSeq b q)) by (cbn; now rewrite Hs).
    f_equal. apply forallb_ext_in. intros i Hi. apply in_seq in Hi. eapply act_wf_ext; eauto. lia.
  Qed.

  Lemma block_wf_ext b bs : block_of sh b = Some bs -> block_wf I b bs = block_wf J b bs.
  Proof.
    intro Hb. unfold block_wf. rewrite (same_ist (OBlock b)) by (cbn; now rewrite Hb).
    f_equal. apply forallb_ext_in. intros [q rs] Hin. apply in_indexed in Hin. cbn [fst snd].
    apply seq_wf_ext. unfold seq_of. now rewrite Hb.
  Qed.

  Lemma group_status_ext g t :
    grp_present sh SPlan g && status_eqb (ist I (OChecks SPlan g)) t
    = grp_present sh SPlan g && status_eqb (ist J (OChecks SPlan g)) t.
  Proof.
    unfold grp_present. destruct (group_of sh SPlan g) eqn:G; [|reflexivity].
    rewrite (same_ist (OChecks SPlan g)); [reflexivity|]. cbn [obj_in_shape]. now rewrite G.
  Qed.

  Lemma plan_early_ext : plan_early sh I = plan_early sh J.
  Proof. unfold plan_early, group_failed. now rewrite !group_status_ext. Qed.

  Lemma img_wf_ext : img_wf sh I = img_wf sh J.
  Proof.
    unfold img_wf. rewrite plan_early_ext. f_equal; [|f_equal].
    - apply forallb_ext_in. intros [b bs] Hin. apply in_indexed in Hin. now apply block_wf_ext.
    - apply forallb_ext_in. intros [b bs] Hin. apply in_indexed in Hin. cbn [fst].
      rewrite (same_ist (OBlock b)); [reflexivity|]. cbn. unfold block_of. now rewrite Hin.
  Qed.
End Ext.

(* ------------------------------------------------------------------ the image of a run = the fold of its writes *)
Definition ieq (I J : dimg) : Prop := forall o, iget I o = iget J o.

Lemma cell_eqb_eq a b : cell_eqb a b = true -> a = b.
Proof.
  unfold cell_eqb. intro H. apply andb_true_iff in H as [H H3]. apply andb_true_iff in H as [H1 H2].
  apply status_eqb_eq in H1. apply Nat.eqb_eq in H2. apply Bool.eqb_prop in H3.
  destruct a, b; simpl in *; congruence.
Qed.

Lemma eps_star_img sh s s0 : eps_star sh s s0 -> s_img s0 = s_img s.
Proof. induction 1 as [|s s1 s2 H _ IH]; [reflexivity|]. rewrite IH. exact (proj1 (eps_kinds _ _ _ H)). Qed.

Lemma step_img sh s e s' : step sh s e = Some s' -> ieq (s_img s') (ev_img e (s_img s)).
Proof.
  intro H. destruct (step_spec _ _ _ _ H) as [(s0 & Hs & Hh)|[-> St]].
  - rewrite (handle_img _ _ _ _ Hh), (eps_star_img _ _ _ Hs). intro; reflexivity.
  - destruct e as [a|a o|o stt n ok r|snap|fin]; try discriminate St. cbn [ev_img]. cbn [stutter] in St.
    apply andb_true_iff in St as [St _]. apply andb_true_iff in St as [_ St]. apply cell_eqb_eq in St.
    intro o'. rewrite iget_iset. destruct (obj_eqb o o') eqn:Q; [|reflexivity].
    apply obj_eqb_eq in Q. subst o'. exact St.
Qed.

Lemma writes_step ir e : fst (fold_left apply_write (match write_of e with Some w => [w] | None => [] end) ir) = ev_img e (fst ir).
Proof. destruct e as [a|a o|o stt n ok r|snap|fin]; reflexivity. Qed.

Lemma ieq_iset I J o c : ieq I J -> ieq (iset I o c) (iset J o c).
Proof. intros H o'. rewrite !iget_iset. destruct (obj_eqb o o'); [reflexivity|apply H]. Qed.

Lemma ieq_ev_img e I J : ieq I J -> ieq (ev_img e I) (ev_img e J).
Proof. intro H. destruct e; cbn [ev_img]; auto. now apply ieq_iset. Qed.

Lemma run_writes sh tr : forall s s' ir,
  run sh s tr = Some s' -> ieq (s_img s) (fst ir) -> ieq (s_img s') (fst (fold_left apply_write (writes_of tr) ir)).
Proof.
  induction tr as [|e tr IH]; intros s s' ir H Hi; simpl in H.
  - injection H as <-. exact Hi.
  - destruct (step sh s e) as [s1|] eqn:St; [|discriminate].
    assert (H1 : ieq (s_img s1) (ev_img e (fst ir))).
    { intro o. rewrite (step_img _ _ _ _ St o). now apply ieq_ev_img. }
    cbn [writes_of]. destruct e as [a|a o|o stt n ok r|snap|fin]; cbn [write_of fold_left]; eapply IH; eauto.
Qed.

(* the first k writes of a trace are the writes of a prefix of it *)
Lemma crash_prefix tr : forall k, exists tr1 tr2, tr = tr1 ++ tr2 /\ firstn k (writes_of tr) = writes_of tr1.
Proof.
  induction tr as [|e tr IH]; intro k.
  - exists [], []. split; [reflexivity|]. now destruct k.
  - destruct k as [|k]; [exists [], (e :: tr); split; reflexivity|].
    cbn [writes_of]. destruct (write_of e) as [w|] eqn:W.
    + destruct (IH k) as (t1 & t2 & -> & Hf). exists (e :: t1), t2. split; [reflexivity|].
      cbn [writes_of firstn]. rewrite W, Hf. reflexivity.
    + destruct (IH (S k)) as (t1 & t2 & -> & Hf). exists (e :: t1), t2. split; [reflexivity|].
      cbn [writes_of]. rewrite W. exact Hf.
Qed.

(* every crash image of an accepted trace is the durable image of a reachable state, object by object *)
Lemma crash_image_reached sh tr s k :
  run sh init tr = Some s -> exists tr1 s1, run sh init tr1 = Some s1 /\ ieq (s_img s1) (fst (crash_image sh tr k)).
Proof.
  intro H. destruct (crash_prefix tr k) as (t1 & t2 & -> & Hf). rewrite run_app in H.
  destruct (run sh init t1) as [s1|] eqn:R1; [|discriminate]. exists t1, s1. split; [exact R1|].
  unfold crash_image, crash_from. rewrite Hf. apply (run_writes _ _ _ _ _ R1). intro; reflexivity.
Qed.

(* COROLLARY of EngineWf.engine_img_wf: every write-prefix image of every accepted trace is well-formed *)
Theorem engine_crash_image_wf sh tr s k : run sh init tr = Some s -> img_wf sh (fst (crash_image sh tr k)) = true.
Proof.
  intro H. destruct (crash_image_reached _ _ _ k H) as (t1 & s1 & R1 & E).
  rewrite <- (img_wf_ext sh (s_img s1)); [eapply engine_img_wf; eauto|]. intros o _. apply E.
Qed.
