(* C09 - After a crash, durably finished work is never executed again: the FULL statement for the first crash
   (DESIGN.md section 6), and the chain of crashes with the first crash discharged.

   coq/resume/props/C09.v proves `c09_no_reexecution_partial` for every WELL-FORMED crash image (ImgWf.img_wf).  What
   was missing - a lemma about the frozen automaton of coq/engine - is proved here (`c09_engine_images_wellformed`,
   `c09_crash_images_wellformed`: a reachable-state invariant about the hierarchy of the durable image, EngineInv.hinv,
   on top of C06's plan invariant pinv), and the partial theorems are instantiated.  No shape_wf, no bound on
   shapes, traces, crash points, interleavings. *)
From Coercion.Base Require Import Plan.
From Coercion.Engine Require Import Shape Event PlanSM Auto Accept.
From Coercion.Resume Require Import Resume MonRecover ImgWf C09Proofs.
From Coercion.ImgWf Require Import EngineWf CrashImage FullProofs.

(* every durable image of every run of the engine automaton is well-formed *)
Theorem c09_engine_images_wellformed :
  forall (sh : shape) (tr : list event) (s : st),
    run sh init tr = Some s -> img_wf sh (s_img s) = true.
Proof. exact engine_img_wf. Qed.
Print Assumptions c09_engine_images_wellformed.

(* ... hence every crash image (the image after the first k writes, any k) of every accepted trace *)
Theorem c09_crash_images_wellformed :
  forall (sh : shape) (tr : list event) (s : st) (k : nat),
    run sh init tr = Some s -> img_wf sh (fst (crash_image sh tr k)) = true.
Proof. exact engine_crash_image_wf. Qed.
Print Assumptions c09_crash_images_wellformed.

(* c09_no_reexecution.  tr1: any trace the uninterrupted-run automaton accepts (any prefix of a run: no release
   needed); k: any number of its writes; I: ANY full read of the store that shows, on every object of the plan, the
   cell the first k writes of tr1 leave (image_agrees: the relation the correspondence establishes between every
   read-back and crash_image on every real run; the reason and the time flags of I are free); tr2: any trace the
   resumed automaton accepts from the repair of I, under any deviation flags.  Then mon_noreexec I tr2: no EvStart of
   a sequence action that is Completed / Failed in I or whose last durable attempt has no error, none inside a
   sequence or block that is Completed / Failed in I, none at all unless the plan is durably Running. *)
Theorem c09_no_reexecution :
  forall (d : devs) (sh : shape) (tr1 : list event) (s1 : st) (k : nat),
    run sh init tr1 = Some s1 ->
  forall (I : image) (tr2 : list event) (r0 r : rst),
    image_agrees (all_objs sh) (fst (crash_image sh tr1 k)) (snd (crash_image sh tr1 k)) I = true ->
    rinit sh (dimg_of_image I) (im_reason I) = Some r0 ->
    rrun d sh r0 tr2 = Some r ->
    mon_noreexec I tr2 = true.
Proof. exact noreexec_agrees. Qed.
Print Assumptions c09_no_reexecution.

(* the same with the weakest link between I and the crash image: equal cells on the objects of the shape *)
Theorem c09_no_reexecution_same_cells :
  forall (d : devs) (sh : shape) (tr1 : list event) (s1 : st) (k : nat),
    run sh init tr1 = Some s1 ->
  forall (I : image) (tr2 : list event) (r0 r : rst),
    (forall o, obj_in_shape sh o = true -> iget (dimg_of_image I) o = iget (fst (crash_image sh tr1 k)) o) ->
    rinit sh (dimg_of_image I) (im_reason I) = Some r0 ->
    rrun d sh r0 tr2 = Some r ->
    mon_noreexec I tr2 = true.
Proof. exact noreexec_read. Qed.
Print Assumptions c09_no_reexecution_same_cells.

(* ... and with no hypothesis on I at all: the crash image itself, read back (FullProofs.image_of) *)
Theorem c09_no_reexecution_canonical :
  forall (d : devs) (sh : shape) (tr1 : list event) (s1 : st) (k : nat),
    run sh init tr1 = Some s1 ->
  forall (tr2 : list event) (r0 r : rst),
    rinit sh (fst (crash_image sh tr1 k)) (snd (crash_image sh tr1 k)) = Some r0 ->
    rrun d sh r0 tr2 = Some r ->
    mon_noreexec (image_of (crash_image sh tr1 k)) tr2 = true.
Proof. exact noreexec_canonical. Qed.
Print Assumptions c09_no_reexecution_canonical.

(* c09_crash_chain_full: any number of crashes.  Process 1 is an uninterrupted run that crashes after k writes of
   tr1; process 2 restarts on that image, does tr2, crashes after k2 of its writes; the processes of [rest] follow,
   each on the image its predecessor left (Resume.crash_from).  If every trace is accepted by the resumed automaton
   and the images left by the crashed RECOVERIES (process 2 onwards) on which the plan is Running are well-formed,
   every EvStart of every process is of work that the image THAT process restarted on shows unfinished.
   For rest = [] (two processes) there is no hypothesis left.  The resumed automaton does NOT preserve the
   five-clause img_wf (Examples.resumed_run_breaks_img_wf: a recovery whose bypass check now passes leaves plan
   Running / bypass Completed / block Running), but it does preserve the four-clause img_wf0 that the repair proof
   reads, until the terminal plan write: coq/chain/props/C09.v (c09_crash_chain_unconditional) removes the remaining
   hypothesis for any number of crashes.  The correspondence evaluates img_wf on every real crash image of a
   recovery as well (ResumeCheck.check_rec, last component). *)
Theorem c09_crash_chain_full :
  forall (d : devs) (sh : shape) (tr1 : list event) (s1 : st) (k : nat),
    run sh init tr1 = Some s1 ->
  forall (tr2 : list event) (k2 : nat) (rest : list (list event * nat)),
    let ci := crash_image sh tr1 k in
    let c2 := crash_from (fst ci) (snd ci) tr2 k2 in
    chain_accepted d sh (fst ci) (snd ci) ((tr2, k2) :: rest) ->
    chain_wf sh (fst c2) (snd c2) rest ->
    chain_noreexec sh (fst ci) (snd ci) ((tr2, k2) :: rest).
Proof. exact chain_full. Qed.
Print Assumptions c09_crash_chain_full.
