(* Examples (all by vm_compute): the hypotheses of the C09 theorems are satisfiable on non-trivial inputs, img_wf
   is not trivially true, and - the reason why the chain theorem keeps a hypothesis for second and later crashes -
   img_wf is NOT an invariant of the RESUMED automaton. *)
From Coercion.Base Require Import Plan.
From Coercion.Engine Require Import Shape Event Action ChecksRun Seq Block Final PlanSM Auto Accept AutoExamples.
From Coercion.Resume Require Import Resume MonRecover ImgWf.
From Coercion.ImgWf Require Import FullProofs.
Import ListNotations.

(* ---- 1. a REAL trace of the engine (AutoExamples.ex_trace: two blocks, continuous groups at both levels, a retried
        action, 149 events, 117 writes): accepted, released, and EVERY write-prefix image is well-formed ---- *)
Example real_trace_accepted : exists s, run ex_shape init ex_trace = Some s /\ released s = true.
Proof. vm_compute. eauto. Qed.

Example real_trace_writes : length (writes_of ex_trace) = 117.
Proof. vm_compute. reflexivity. Qed.

Example real_trace_every_crash_image_wf :
  forallb (fun k => img_wf ex_shape (fst (crash_image ex_shape ex_trace k))) (seq 0 120) = true.
Proof. vm_compute. reflexivity. Qed.

(* ---- 2. img_wf has teeth ---- *)
Definition sh2 : shape :=
  {| sh_groups := Build_groups (Some [0]) (Some [0]) None None None;
     sh_blocks := [ {| bs_groups := no_groups; bs_seqs := [[0; 0]; [0]]; bs_conc := 1; bs_tol := 0%Z |} ] |}.
Definition cl (t : status) (n : nat) (ok : bool) : cell := {| c_st := t; c_n := n; c_ok := ok |}.

(* a NotStarted sequence with a Completed action *)
Example bad_action_in_unstarted_sequence :
  img_wf sh2 [(OPlan, cl Running 0 false); (OBlock 0, cl Running 0 false); (OAct (ASeq 0 0 0), cl Completed 1 true)] = false.
Proof. vm_compute. reflexivity. Qed.
(* a NotStarted action that has an attempt *)
Example bad_attempt_on_unstarted_action :
  img_wf sh2 [(OPlan, cl Running 0 false); (OBlock 0, cl Running 0 false); (OSeq 0 0, cl Running 0 false);
              (OAct (ASeq 0 0 1), cl NotStarted 1 false)] = false.
Proof. vm_compute. reflexivity. Qed.
(* a Running sequence in a NotStarted block *)
Example bad_sequence_in_unstarted_block :
  img_wf sh2 [(OPlan, cl Running 0 false); (OSeq 0 1, cl Running 0 false)] = false.
Proof. vm_compute. reflexivity. Qed.
(* a Stopped block *)
Example bad_stopped_block : img_wf sh2 [(OPlan, cl Running 0 false); (OBlock 0, cl Stopped 0 false)] = false.
Proof. vm_compute. reflexivity. Qed.
(* a block Running although the plan's pre group is Failed *)
Example bad_block_running_after_failed_pre :
  img_wf sh2 [(OPlan, cl Running 0 false); (OChecks SPlan GPre, cl Failed 0 false); (OBlock 0, cl Running 0 false)] = false.
Proof. vm_compute. reflexivity. Qed.
(* img_wf is deliberately weak (it is exactly what the repair proof needs): a Completed sequence containing a Running
   action passes; that no uninterrupted run writes such an image is C04's image_invariant, not needed here *)
Example weak_on_purpose :
  img_wf sh2 [(OPlan, cl Running 0 false); (OBlock 0, cl Running 0 false); (OSeq 0 1, cl Completed 0 false);
              (OAct (ASeq 0 1 0), cl Running 0 false)] = true.
Proof. vm_compute. reflexivity. Qed.

(* ---- 3. three processes.  Process 1 (uninterrupted run): the plan's bypass check FAILS, block 0 starts, its first
        sequence completes; crash.  Process 2 (recovery) re-evaluates the bypass check, which now PASSES (the
        classical bypass: "is the work already done?"); crash after the group's Completed write. ---- *)
Definition sh3 : shape :=
  {| sh_groups := Build_groups (Some [0]) None None None None;
     sh_blocks := [ {| bs_groups := no_groups; bs_seqs := [[0]; [0]]; bs_conc := 1; bs_tol := 0%Z |} ] |}.
Definition byp := AChk SPlan GBypass 0.
Definition a00 := ASeq 0 0 0.
Definition w (o : obj) (t : status) (n : nat) (ok : bool) : event := EvWrite o t n ok FRUnknown.
Definition tr1 : list event :=
  [ w OPlan Running 0 false;
    w (OAct byp) Running 0 false; EvStart byp; EvEnd byp OErr; w (OAct byp) Running 1 false; w (OAct byp) Failed 1 false;
    w (OChecks SPlan GBypass) Failed 0 false;
    w (OBlock 0) Running 0 false; w (OSeq 0 0) Running 0 false;
    w (OAct a00) Running 0 false; EvStart a00; EvEnd a00 OOk; w (OAct a00) Running 1 true; w (OAct a00) Completed 1 true;
    w (OSeq 0 0) Completed 0 false ].
Definition tr2 : list event :=
  [ w (OAct byp) Running 0 false; EvStart byp; EvEnd byp OOk; w (OAct byp) Running 1 true; w (OAct byp) Completed 1 true;
    w (OChecks SPlan GBypass) Completed 0 false ].
Definition I1 := crash_image sh3 tr1 15.
Definition I2 := crash_from (fst I1) (snd I1) tr2 6.

Definition racc (d : devs) (ir : dimg * reason) (tr : list event) : bool :=
  match rinit sh3 (fst ir) (snd ir) with
  | Some r0 => match rrun d sh3 r0 tr with Some _ => true | None => false end
  | None => false
  end.

Example process1_accepted : exists s, run sh3 init tr1 = Some s. Proof. vm_compute. eauto. Qed.
Example process1_image_wf : ist (fst I1) OPlan = Running /\ img_wf sh3 (fst I1) = true. Proof. vm_compute. auto. Qed.
(* the full theorem applies to process 2, non-vacuously: its trace is accepted (no deviation flag) and has a plugin
   invocation, of the bypass check - never of the durably Completed action (0,0,0) *)
Example process2_accepted : racc dev_none I1 tr2 = true. Proof. vm_compute. reflexivity. Qed.
Example process2_monitor : mon_noreexec (image_of I1) tr2 = true. Proof. vm_compute. reflexivity. Qed.
Example process2_monitor_has_teeth : mon_noreexec (image_of I1) (tr2 ++ [EvStart a00]) = false. Proof. vm_compute. reflexivity. Qed.
Example process2_automaton_has_teeth : racc dev_all I1 [w (OSeq 0 0) Running 0 false] = false. Proof. vm_compute. reflexivity. Qed.

(* THE RESUMED AUTOMATON DOES NOT PRESERVE img_wf: what process 2 leaves behind has the plan Running, its bypass group
   Completed and block 0 still Running.  So the well-formedness of the images left by crashed RECOVERIES cannot be a
   lemma; it stays a hypothesis of the chain theorem (checked on every real double-crash image by the correspondence). *)
Example resumed_run_breaks_img_wf :
  ist (fst I2) OPlan = Running /\ ist (fst I2) (OChecks SPlan GBypass) = Completed /\ ist (fst I2) (OBlock 0) = Running
  /\ img_wf sh3 (fst I2) = false.
Proof. vm_compute. auto. Qed.
(* ... although process 3, restarting on that image, does nothing but close the plan (the repair returns at once,
   Recovery goes to End): the property holds there, the proof via img_wf does not reach it *)
Example process3_only_closes :
  racc dev_none I2 [w OPlan Completed 0 false] = true
  /\ racc dev_all I2 [w (OSeq 0 1) Running 0 false] = false
  /\ racc dev_all I2 [w (OAct byp) Running 0 false] = false
  /\ racc dev_all I2 [EvStart a00] = false.
Proof. vm_compute. auto. Qed.

(* ---- 4. the flush rule of Resume.v used to accept any write equal to the in-memory value at any time: the crash
        comes right after the first action is marked; the repair resets action, sequence, block and plan to NotStarted
        in memory; the sequence could then be written NotStarted while its action was still durably (Running, 0),
        breaking the hierarchy part of img_wf with no plugin involved.  Resume.flush has been sharpened (a NotStarted
        value goes over a started object only after the terminal plan write, as End's writeEverything does): the
        resumed automaton now REJECTS that write.  (Edited by the C09/C10 owner together with the change of
        Resume.flush, on the coordinator's request.) ---- *)
Definition sh4 : shape :=
  {| sh_groups := no_groups;
     sh_blocks := [ {| bs_groups := no_groups; bs_seqs := [[0]]; bs_conc := 1; bs_tol := 0%Z |} ] |}.
Definition tr4 : list event :=
  [ w OPlan Running 0 false; w (OBlock 0) Running 0 false; w (OSeq 0 0) Running 0 false; w (OAct a00) Running 0 false ].
Definition J1 := crash_image sh4 tr4 4.
Definition J2 := crash_from (fst J1) (snd J1) [w (OSeq 0 0) NotStarted 0 false] 1.

Definition racc4 (ir : dimg * reason) (tr : list event) : bool :=
  match rinit sh4 (fst ir) (snd ir) with
  | Some r0 => match rrun dev_none sh4 r0 tr with Some _ => true | None => false end
  | None => false
  end.

Example flush_run_accepted : exists s, run sh4 init tr4 = Some s. Proof. vm_compute. eauto. Qed.
Example flush_no_longer_breaks_hierarchy :
  img_wf sh4 (fst J1) = true
  /\ racc4 J1 [w (OSeq 0 0) NotStarted 0 false] = false
  /\ ist (fst J2) OPlan = Running /\ ist (fst J2) (OSeq 0 0) = NotStarted /\ ist (fst J2) (OAct a00) = Running
  /\ img_wf sh4 (fst J2) = false.
Proof. vm_compute. auto 10. Qed.
