(* C18 - a concrete, non-trivial input on which the hypotheses of the theorems hold and the conclusions can be
   seen by computation: a plan that has run to failure (ids, states, times, attempts with a wrapped error,
   reason, submit time, keys), one of whose requests carries a secret. *)
From Coercion.Base Require Import Plan.
From Coercion.Clone Require Import Clone CloneSpec CloneLoc CloneCheck CloneProofs CloneLocProofs CloneCheckProofs.

Definition tk (n : N) : tok := {| t_blank := false; t_empty := false; t_ix := n |}.
Definition ud (n : N) : uid := {| u_ix := n; u_v7 := true |}.
Definition bb (n : N) : blob := {| bl_nil := false; bl_enc := true; bl_ty := 1%N; bl_ix := n |}.
Definition st (s : status) (a b : Z) : option state := Some {| s_status := s; s_start := a; s_end := b |}.

(* plugin 10: an action plugin that rejects request 99; plugin 11: a check plugin *)
Definition ex_reg (p : tok) (r : blob) : option (bool * bool) :=
  if N.eqb (t_ix p) 10 then Some (false, negb (N.eqb (bl_ix r) 99))
  else if N.eqb (t_ix p) 11 then Some (true, true) else None.

(* request 7 carries a secret; scrubbed it is request 8 *)
Definition ex_scrub (b : blob) : blob := if N.eqb (bl_ix b) 7 then bb 8 else if N.eqb (bl_ix b) 21 then bb 22 else b.

Definition ex_a1 : action :=
  {| a_id := ud 101; a_key := ud 201; a_name := tk 1; a_descr := tk 2; a_plugin := tk 10;
     a_timeout := 0; a_retries := 2; a_req := bb 7;
     a_attempts := Some [ {| at_resp := blob0; at_err := Some (PErr 3 1 false (Some (PErr 4 2 true None))); at_start := 10; at_end := 11 |};
                          {| at_resp := bb 21; at_err := None; at_start := 12; at_end := 13 |} ];
     a_state := st Completed 10 13; a_plugreg := Some (false, true) |}.

Definition ex_a2 : action :=
  {| a_id := ud 102; a_key := uid0; a_name := tk 3; a_descr := tk 4; a_plugin := tk 10;
     a_timeout := 6000000000; a_retries := 0; a_req := bb 9;
     a_attempts := Some [ {| at_resp := blob0; at_err := Some (PErr 5 3 true None); at_start := 14; at_end := 15 |} ];
     a_state := st Failed 14 15; a_plugreg := Some (false, true) |}.

Definition ex_c1 : action :=
  {| a_id := ud 103; a_key := uid0; a_name := tk 5; a_descr := tk 6; a_plugin := tk 11;
     a_timeout := 5000000000; a_retries := 1; a_req := bb 12;
     a_attempts := Some [ {| at_resp := bb 23; at_err := None; at_start := 5; at_end := 6 |} ];
     a_state := st Completed 5 6; a_plugreg := Some (true, true) |}.

Definition ex_pre : checks :=
  {| c_id := ud 104; c_key := ud 202; c_delay := 30; c_actions := Some [Some ex_c1]; c_state := st Completed 5 6 |}.

Definition ex_seq : sequence :=
  {| q_id := ud 105; q_key := uid0; q_name := tk 7; q_descr := tk 8;
     q_actions := Some [Some ex_a1; Some ex_a2]; q_state := st Failed 10 15 |}.

Definition ex_block : block :=
  {| b_id := ud 106; b_key := ud 203; b_name := tk 9; b_descr := tk 13; b_entrance := 1; b_exit := 2;
     b_bypass := None; b_pre := Some ex_pre; b_cont := None; b_post := None; b_deferred := None;
     b_seqs := Some [Some ex_seq]; b_conc := 2; b_tol := 0; b_state := st Failed 4 16 |}.

Definition ex_plan : plan :=
  {| p_id := ud 107; p_group := ud 300; p_name := tk 14; p_descr := tk 15; p_meta := bb 30;
     p_bypass := None; p_pre := None; p_cont := None; p_post := None; p_deferred := None;
     p_blocks := Some [Some ex_block]; p_state := st Failed 3 17; p_submit := 2; p_reason := FRBlock |}.

Definition idb (b : blob) : blob := b.
Definition o_keep : opts := {| keep_secrets := true; keep_state := true |}.
Definition o_keep_scrub : opts := {| keep_secrets := false; keep_state := true |}.
Definition o_secrets : opts := {| keep_secrets := true; keep_state := false |}.

(* the hypotheses of the theorems hold of it *)
Example ex_regular : regular_plan ex_plan.
Proof. apply regular_plan_b_sound. vm_compute. reflexivity. Qed.

Example ex_wf_scrubbed : WF_defn_plan ex_reg (sf ex_scrub o_default) (defn_plan ex_plan).
Proof. apply wf_plan_b_sound. vm_compute. reflexivity. Qed.

Example ex_wf_as_submitted : WF_defn_plan ex_reg (fun b => b) (defn_plan ex_plan).
Proof. apply wf_plan_b_sound. vm_compute. reflexivity. Qed.

(* it has run, so it is not itself acceptable, its default clone is; a keep-state clone is not *)
Example ex_original_rejected : validate_plan ex_plan = false.
Proof. vm_compute. reflexivity. Qed.

Example ex_default_clone_accepted : validate_plan (clone_plan ex_reg ex_scrub idb o_default ex_plan) = true.
Proof. vm_compute. reflexivity. Qed.

Example ex_keepstate_clone_rejected : validate_plan (clone_plan ex_reg ex_scrub idb o_keep ex_plan) = false.
Proof. vm_compute. reflexivity. Qed.

(* the default clone: the secret request is scrubbed (so the side condition of c18_defn_preserved fails and
   the general form applies), with keep-secrets the definition is the original's without keys *)
Example ex_default_scrubs : reqs_plan (clone_plan ex_reg ex_scrub idb o_default ex_plan) = [bb 12; bb 8; bb 9].
Proof. vm_compute. reflexivity. Qed.

Example ex_defn_keepsecrets :
  plan_eqb (defn_plan (clone_plan ex_reg ex_scrub idb o_secrets ex_plan)) (nokeys_plan (defn_plan ex_plan)) = true
  /\ plan_eqb (defn_plan ex_plan) (nokeys_plan (defn_plan ex_plan)) = false.
Proof. vm_compute. split; reflexivity. Qed.

Example ex_keepstate :
  plan_eqb (state_plan (clone_plan ex_reg ex_scrub idb o_keep ex_plan)) (state_plan ex_plan) = true
  /\ resps_plan (clone_plan ex_reg ex_scrub idb o_keep_scrub ex_plan) = [bb 23; blob0; bb 22; blob0]
  /\ pristine_plan_b (clone_plan ex_reg ex_scrub idb o_default ex_plan) = true
  /\ pristine_plan_b ex_plan = false.
Proof. vm_compute. repeat split; reflexivity. Qed.

(* a plugin that rejects the scrubbed form of a request it accepted: the default clone is not resubmittable,
   the keep-secrets clone is *)
Definition ex_strict_scrub (b : blob) : blob := if N.eqb (bl_ix b) 7 then bb 99 else b.
Example ex_strict_plugin :
  validate_plan (clone_plan ex_reg ex_strict_scrub idb o_default ex_plan) = false /\
  validate_plan (clone_plan ex_reg ex_strict_scrub idb o_secrets ex_plan) = true.
Proof. vm_compute. split; reflexivity. Qed.

(* ---- with locations ---- *)

Definition lst (l : loc) (s : status) (a b : Z) : option lstate := Some {| ls_loc := l; ls_val := {| s_status := s; s_start := a; s_end := b |} |}.
Definition lbb (n : N) (ls : list loc) : lblob := {| lb_val := bb n; lb_locs := ls |}.

Definition ex_la1 : laction :=
  {| la_loc := 1; la_id := ud 101; la_key := ud 201; la_name := tk 1; la_descr := tk 2; la_plugin := tk 10;
     la_timeout := 0; la_retries := 2; la_req := lbb 7 [2; 3];
     la_attempts := Some (4, [ {| lt_loc := 5; lt_resp := {| lb_val := blob0; lb_locs := [] |};
                                  lt_err := Some (LPErr 6 3 1 false (Some (LPErr 7 4 2 true None))); lt_start := 10; lt_end := 11 |};
                               {| lt_loc := 8; lt_resp := lbb 21 [9]; lt_err := None; lt_start := 12; lt_end := 13 |} ]);
     la_state := lst 10 Completed 10 13; la_plugreg := Some (false, true) |}.

Definition ex_lseq : lsequence :=
  {| lq_loc := 11; lq_id := ud 105; lq_key := uid0; lq_name := tk 7; lq_descr := tk 8;
     lq_actions := Some (12, [Some ex_la1; None]); lq_state := lst 13 Failed 10 15 |}.

Definition ex_lblock : lblock :=
  {| lk_loc := 14; lk_id := ud 106; lk_key := ud 203; lk_name := tk 9; lk_descr := tk 13; lk_entrance := 1; lk_exit := 2;
     lk_bypass := None; lk_pre := None; lk_cont := None; lk_post := None; lk_deferred := None;
     lk_seqs := Some (15, [Some ex_lseq; None]); lk_conc := 2; lk_tol := 0; lk_state := lst 16 Failed 4 16 |}.

Definition ex_lplan : lplan :=
  {| lp_loc := 17; lp_id := ud 107; lp_group := ud 300; lp_name := tk 14; lp_descr := tk 15; lp_meta := lbb 30 [18];
     lp_bypass := None; lp_pre := None; lp_cont := None; lp_post := None; lp_deferred := None;
     lp_blocks := Some (19, [Some ex_lblock]); lp_state := lst 20 Failed 3 17; lp_submit := 2; lp_reason := FRBlock |}.

Definition ex_lclone (o : opts) : lplan :=
  fst (lclone_plan ex_reg ldeepcopy_fresh (lscrub_of ex_scrub) o ex_lplan (S (list_max (locs_plan ex_lplan)))).

Example ex_locs_disjoint :
  length (locs_plan ex_lplan) = 20 /\
  length (locs_plan (ex_lclone o_keep)) = 20 /\
  disjointb (locs_plan (ex_lclone o_keep)) (locs_plan ex_lplan) = true /\
  disjointb (locs_plan (ex_lclone o_default)) (locs_plan ex_lplan) = true /\
  plan_eqb (erase_plan (ex_lclone o_keep_scrub)) (clone_plan ex_reg ex_scrub idb o_keep_scrub (erase_plan ex_lplan)) = true.
Proof. vm_compute. repeat split; reflexivity. Qed.

(* ---- the hypotheses about deep.MustCopy and clone.Secure have a model: the theorems instantiated, closed ---- *)

Theorem no_sharing_fresh_instance : forall reg scrub o (p : lplan) l,
  In l (locs_plan (fst (lclone_plan reg ldeepcopy_fresh (lscrub_of scrub) o p (S (list_max (locs_plan p)))))) ->
  ~ In l (locs_plan p).
Proof.
  intros reg scrub o p.
  refine (proj1 (no_sharing reg scrub (fun v => v) ldeepcopy_fresh (lscrub_of scrub) ldeepcopy_fresh_ok _ _ o
                   (S (list_max (locs_plan p))) (locs_plan p) (list_max_lt _)) p).
  - intros b. reflexivity.
  - intros b x H. exact H.
Qed.
