(* C18 - correspondence checker. A case is one original object (labelled: the labels are the interned
   addresses the harness saw) and, per option set, what the real clone function returned (labelled with
   addresses interned in the same table), what workflow.Validate / Submit said about it, and the verdict
   of the Go-side monitors (address-range overlap, mutate-one-observe-other, panic).

   For every observation the checker evaluates
   - the MODEL: clone_* on the erased original must equal the erased observed clone, and validate_* of it
     must equal what Validate and Submit said;
   - the MONITORS, directly on what the implementation returned (no clone function involved): the
     right-hand sides of c18_defn_preserved / c18_keepstate, pristine, disjointness of the label sets,
     resubmittability when the original's definition is well-formed. *)
From Coercion.Base Require Import Plan.
From Coercion.Clone Require Import Clone CloneSpec CloneLoc.

(* ------------------------------------------------------------------ boolean equalities *)

Fixpoint list_eqb {A} (eqb : A -> A -> bool) (a b : list A) : bool :=
  match a, b with
  | [], [] => true
  | x :: a', y :: b' => eqb x y && list_eqb eqb a' b'
  | _, _ => false
  end.

Definition option_eqb {A} (eqb : A -> A -> bool) (a b : option A) : bool :=
  match a, b with
  | None, None => true
  | Some x, Some y => eqb x y
  | _, _ => false
  end.

Definition tok_eqb (a b : tok) : bool :=
  Bool.eqb (t_blank a) (t_blank b) && Bool.eqb (t_empty a) (t_empty b) && N.eqb (t_ix a) (t_ix b).
Definition uid_eqb (a b : uid) : bool := N.eqb (u_ix a) (u_ix b) && Bool.eqb (u_v7 a) (u_v7 b).
Definition blob_eqb (a b : blob) : bool :=
  Bool.eqb (bl_nil a) (bl_nil b) && Bool.eqb (bl_enc a) (bl_enc b) && N.eqb (bl_ty a) (bl_ty b) && N.eqb (bl_ix a) (bl_ix b).
Definition state_eqb (a b : state) : bool :=
  status_eqb (s_status a) (s_status b) && Z.eqb (s_start a) (s_start b) && Z.eqb (s_end a) (s_end b).
Fixpoint perr_eqb (a b : perr) : bool :=
  match a, b with
  | PErr c m p w, PErr c' m' p' w' =>
    N.eqb c c' && N.eqb m m' && Bool.eqb p p' &&
    match w, w' with
    | None, None => true
    | Some x, Some y => perr_eqb x y
    | _, _ => false
    end
  end.
Definition attempt_eqb (a b : attempt) : bool :=
  blob_eqb (at_resp a) (at_resp b) && option_eqb perr_eqb (at_err a) (at_err b) &&
  Z.eqb (at_start a) (at_start b) && Z.eqb (at_end a) (at_end b).
Definition plugreg_eqb (a b : option (bool * bool)) : bool :=
  option_eqb (fun x y => Bool.eqb (fst x) (fst y) && Bool.eqb (snd x) (snd y)) a b.
Definition action_eqb (a b : action) : bool :=
  uid_eqb (a_id a) (a_id b) && uid_eqb (a_key a) (a_key b) && tok_eqb (a_name a) (a_name b) &&
  tok_eqb (a_descr a) (a_descr b) && tok_eqb (a_plugin a) (a_plugin b) &&
  Z.eqb (a_timeout a) (a_timeout b) && Z.eqb (a_retries a) (a_retries b) && blob_eqb (a_req a) (a_req b) &&
  option_eqb (list_eqb attempt_eqb) (a_attempts a) (a_attempts b) &&
  option_eqb state_eqb (a_state a) (a_state b) && plugreg_eqb (a_plugreg a) (a_plugreg b).
Definition actions_eqb := option_eqb (list_eqb (option_eqb action_eqb)).
Definition checks_eqb (a b : checks) : bool :=
  uid_eqb (c_id a) (c_id b) && uid_eqb (c_key a) (c_key b) && Z.eqb (c_delay a) (c_delay b) &&
  actions_eqb (c_actions a) (c_actions b) && option_eqb state_eqb (c_state a) (c_state b).
Definition sequence_eqb (a b : sequence) : bool :=
  uid_eqb (q_id a) (q_id b) && uid_eqb (q_key a) (q_key b) && tok_eqb (q_name a) (q_name b) &&
  tok_eqb (q_descr a) (q_descr b) && actions_eqb (q_actions a) (q_actions b) &&
  option_eqb state_eqb (q_state a) (q_state b).
Definition block_eqb (a b : block) : bool :=
  uid_eqb (b_id a) (b_id b) && uid_eqb (b_key a) (b_key b) && tok_eqb (b_name a) (b_name b) &&
  tok_eqb (b_descr a) (b_descr b) && Z.eqb (b_entrance a) (b_entrance b) && Z.eqb (b_exit a) (b_exit b) &&
  option_eqb checks_eqb (b_bypass a) (b_bypass b) && option_eqb checks_eqb (b_pre a) (b_pre b) &&
  option_eqb checks_eqb (b_cont a) (b_cont b) && option_eqb checks_eqb (b_post a) (b_post b) &&
  option_eqb checks_eqb (b_deferred a) (b_deferred b) &&
  option_eqb (list_eqb (option_eqb sequence_eqb)) (b_seqs a) (b_seqs b) &&
  Z.eqb (b_conc a) (b_conc b) && Z.eqb (b_tol a) (b_tol b) && option_eqb state_eqb (b_state a) (b_state b).
Definition plan_eqb (a b : plan) : bool :=
  uid_eqb (p_id a) (p_id b) && uid_eqb (p_group a) (p_group b) && tok_eqb (p_name a) (p_name b) &&
  tok_eqb (p_descr a) (p_descr b) && blob_eqb (p_meta a) (p_meta b) &&
  option_eqb checks_eqb (p_bypass a) (p_bypass b) && option_eqb checks_eqb (p_pre a) (p_pre b) &&
  option_eqb checks_eqb (p_cont a) (p_cont b) && option_eqb checks_eqb (p_post a) (p_post b) &&
  option_eqb checks_eqb (p_deferred a) (p_deferred b) &&
  option_eqb (list_eqb (option_eqb block_eqb)) (p_blocks a) (p_blocks b) &&
  option_eqb state_eqb (p_state a) (p_state b) && Z.eqb (p_submit a) (p_submit b) &&
  reason_eqb (p_reason a) (p_reason b).

(* ------------------------------------------------------------------ objects of the five kinds *)

Inductive lobj := LPlan (p : lplan) | LBlock (b : lblock) | LSeq (s : lsequence) | LChecks (c : lchecks) | LAction (a : laction).
Inductive vobj := VPlan (p : plan) | VBlock (b : block) | VSeq (s : sequence) | VChecks (c : checks) | VAction (a : action).

Definition erase_obj (x : lobj) : vobj :=
  match x with
  | LPlan p => VPlan (erase_plan p) | LBlock b => VBlock (erase_block b) | LSeq s => VSeq (erase_sequence s)
  | LChecks c => VChecks (erase_checks c) | LAction a => VAction (erase_action a)
  end.

Definition locs_obj (x : lobj) : list loc :=
  match x with
  | LPlan p => locs_plan p | LBlock b => locs_block b | LSeq s => locs_sequence s
  | LChecks c => locs_checks c | LAction a => locs_action a
  end.

Definition vobj_eqb (a b : vobj) : bool :=
  match a, b with
  | VPlan x, VPlan y => plan_eqb x y | VBlock x, VBlock y => block_eqb x y | VSeq x, VSeq y => sequence_eqb x y
  | VChecks x, VChecks y => checks_eqb x y | VAction x, VAction y => action_eqb x y
  | _, _ => false
  end.

(* ------------------------------------------------------------------ boolean forms of the specification *)

Definition pristine_action_b (a : action) : bool :=
  uid_eqb (a_id a) uid0 && state_unset (a_state a) && match a_attempts a with None => true | _ => false end.
Definition pristine_actions_b (l : option (list (option action))) : bool :=
  forallb (fun e => match e with Some a => pristine_action_b a | None => true end) (olist l).
Definition pristine_checks_b (c : checks) : bool :=
  uid_eqb (c_id c) uid0 && state_unset (c_state c) && pristine_actions_b (c_actions c).
Definition pristine_ochecks_b (c : option checks) : bool := match c with None => true | Some c => pristine_checks_b c end.
Definition pristine_sequence_b (s : sequence) : bool :=
  uid_eqb (q_id s) uid0 && state_unset (q_state s) && pristine_actions_b (q_actions s).
Definition pristine_block_b (b : block) : bool :=
  uid_eqb (b_id b) uid0 && state_unset (b_state b) &&
  pristine_ochecks_b (b_bypass b) && pristine_ochecks_b (b_pre b) && pristine_ochecks_b (b_cont b) &&
  pristine_ochecks_b (b_post b) && pristine_ochecks_b (b_deferred b) &&
  forallb (fun e => match e with Some s => pristine_sequence_b s | None => true end) (olist (b_seqs b)).
Definition pristine_plan_b (p : plan) : bool :=
  uid_eqb (p_id p) uid0 && state_unset (p_state p) && Z.eqb (p_submit p) 0 && reason_eqb (p_reason p) FRUnknown &&
  pristine_ochecks_b (p_bypass p) && pristine_ochecks_b (p_pre p) && pristine_ochecks_b (p_cont p) &&
  pristine_ochecks_b (p_post p) && pristine_ochecks_b (p_deferred p) &&
  forallb (fun e => match e with Some b => pristine_block_b b | None => true end) (olist (p_blocks p)).

Section WFb.
  Variable reg : tok -> blob -> option (bool * bool).
  Variable f : blob -> blob.
  Definition wf_action_b (a : action) : bool :=
    negb (t_blank (a_name a)) && negb (t_blank (a_descr a)) && negb (t_blank (a_plugin a)) &&
    (Z.eqb (a_timeout a) 0 || Z.leb five_seconds (a_timeout a)) &&
    match reg (a_plugin a) (f (a_req a)) with Some (_, true) => true | _ => false end.
  Definition wf_actions_b (l : option (list (option action))) : bool :=
    nonempty l && forallb (fun e => match e with Some a => wf_action_b a | None => false end) (olist l).
  Definition wf_checks_b (c : checks) : bool := wf_actions_b (c_actions c).
  Definition wf_ochecks_b (c : option checks) : bool := match c with None => true | Some c => wf_checks_b c end.
  Definition wf_sequence_b (s : sequence) : bool :=
    negb (t_blank (q_name s)) && negb (t_blank (q_descr s)) && wf_actions_b (q_actions s).
  Definition wf_block_b (b : block) : bool :=
    negb (t_blank (b_name b)) && negb (t_blank (b_descr b)) &&
    wf_ochecks_b (b_bypass b) && wf_ochecks_b (b_pre b) && wf_ochecks_b (b_cont b) &&
    wf_ochecks_b (b_post b) && wf_ochecks_b (b_deferred b) &&
    nonempty (b_seqs b) && forallb (fun e => match e with Some s => wf_sequence_b s | None => false end) (olist (b_seqs b)).
  Definition wf_plan_b (p : plan) : bool :=
    negb (t_blank (p_name p)) && negb (t_blank (p_descr p)) &&
    wf_ochecks_b (p_bypass p) && wf_ochecks_b (p_pre p) && wf_ochecks_b (p_cont p) &&
    wf_ochecks_b (p_post p) && wf_ochecks_b (p_deferred p) &&
    nonempty (p_blocks p) && forallb (fun e => match e with Some b => wf_block_b b | None => false end) (olist (p_blocks p)).
End WFb.

Definition regular_action_b (a : action) : bool :=
  match a_attempts a with Some [] => false | _ => true end.
Definition regular_actions_b (l : option (list (option action))) : bool :=
  match l with
  | Some xs => forallb (fun e => match e with Some a => regular_action_b a | None => false end) xs
  | None => false
  end.
Definition regular_checks_b (c : checks) : bool := regular_actions_b (c_actions c).
Definition regular_ochecks_b (c : option checks) : bool := match c with None => true | Some c => regular_checks_b c end.
Definition regular_sequence_b (s : sequence) : bool := regular_actions_b (q_actions s) && nonempty (q_actions s).
Definition regular_block_b (b : block) : bool :=
  regular_ochecks_b (b_bypass b) && regular_ochecks_b (b_pre b) && regular_ochecks_b (b_cont b) &&
  regular_ochecks_b (b_post b) && regular_ochecks_b (b_deferred b) &&
  match b_seqs b with
  | Some xs => forallb (fun e => match e with Some s => regular_sequence_b s | None => false end) xs
  | None => false
  end.
Definition regular_plan_b (p : plan) : bool :=
  regular_ochecks_b (p_bypass p) && regular_ochecks_b (p_pre p) && regular_ochecks_b (p_cont p) &&
  regular_ochecks_b (p_post p) && regular_ochecks_b (p_deferred p) &&
  match p_blocks p with
  | Some xs => forallb (fun e => match e with Some b => regular_block_b b | None => false end) xs
  | None => false
  end.

(* ------------------------------------------------------------------ the case *)

Record obs := {
  ob_ks : bool; ob_st : bool;
  ob_clone : option lobj;      (* None = the function returned nil *)
  ob_validate : bool;          (* workflow.Validate accepted the clone (a sub-object is wrapped into a minimal valid plan) *)
  ob_submit : bool;            (* Workstream.Submit accepted it *)
  ob_go : nat }.               (* Go-side monitors: 0 fine, 1 address ranges overlap, 2 mutating the clone changed the
                                  original, 3 mutating the original changed the clone, 4 panic, 5 submit left the original changed,
                                  6 the clone holds a value outside the modelled domain,
                                  7 the clone made under a cancelled / expired Context differs from the one made under a live one,
                                  8 the clone depends on the order / repetition of the options *)

Record case := {
  cs_orig : lobj;
  cs_reg : list (tok * blob * option (bool * bool)); (* (plugin name, request) -> registration *)
  cs_scrub : list (blob * blob);                     (* values clone.Secure changes -> scrubbed value (harness's own scrub) *)
  cs_obs : list obs }.

Fixpoint reg_of (t : list (tok * blob * option (bool * bool))) (p : tok) (r : blob) : option (bool * bool) :=
  match t with
  | [] => None
  | (n, b, v) :: t' => if tok_eqb n p && blob_eqb b r then v else reg_of t' p r
  end.

Fixpoint scrub_of (t : list (blob * blob)) (b : blob) : blob :=
  match t with
  | [] => b
  | (x, y) :: t' => if blob_eqb x b then y else scrub_of t' b
  end.

Section Check.
  Variable reg : tok -> blob -> option (bool * bool).
  Variable scrub : blob -> blob.
  Let dc : blob -> blob := fun b => b.

  Definition clone_obj (o : opts) (x : vobj) : option vobj :=
    match x with
    | VPlan p => Some (VPlan (clone_plan reg scrub dc o p))
    | VBlock b => Some (VBlock (clone_block reg scrub dc o b))
    | VSeq s => option_map VSeq (clone_sequence reg scrub dc o s)
    | VChecks c => Some (VChecks (clone_checks reg scrub dc o c))
    | VAction a => Some (VAction (clone_action reg scrub dc o a))
    end.

  Definition lclone_obj (o : opts) (x : lobj) (n : nat) : option lobj :=
    let sc := fun b => {| lb_val := scrub (lb_val b); lb_locs := lb_locs b |} in
    match x with
    | LPlan p => Some (LPlan (fst (lclone_plan reg ldeepcopy_fresh sc o p n)))
    | LBlock b => Some (LBlock (fst (lclone_block reg ldeepcopy_fresh sc o b n)))
    | LSeq s => option_map LSeq (fst (lclone_sequence reg ldeepcopy_fresh sc o s n))
    | LChecks c => Some (LChecks (fst (lclone_checks reg ldeepcopy_fresh sc o c n)))
    | LAction a => Some (LAction (fst (lclone_action reg ldeepcopy_fresh sc o a n)))
    end.

  Definition validate_obj (x : option vobj) : bool :=
    match x with
    | None => false
    | Some (VPlan p) => validate_plan p
    | Some (VBlock b) => validate_block_k b
    | Some (VSeq s) => validate_sequence_k s
    | Some (VChecks c) => validate_checks_k c
    | Some (VAction a) => validate_action_k a
    end.

  (* right-hand side of c18_defn_preserved: what the definition of the clone must be *)
  Definition expect_defn (o : opts) (x : vobj) : option vobj :=
    let f := sf scrub o in
    match x with
    | VPlan p => Some (VPlan (reqmap_plan f (nokeys_plan (defn_plan (norm_plan p)))))
    | VBlock b => Some (VBlock (reqmap_block f (nokeys_block (defn_block (norm_block b)))))
    | VSeq s => option_map (fun s => VSeq (reqmap_sequence f (nokeys_sequence (defn_sequence s)))) (norm_sequence s)
    | VChecks c => Some (VChecks (reqmap_checks f (nokeys_checks (defn_checks (norm_checks c)))))
    | VAction a => Some (VAction (reqmap_action f (nokeys_action (defn_action (norm_action a)))))
    end.

  Definition defn_obj (x : vobj) : vobj :=
    match x with
    | VPlan p => VPlan (defn_plan p) | VBlock b => VBlock (defn_block b) | VSeq s => VSeq (defn_sequence s)
    | VChecks c => VChecks (defn_checks c) | VAction a => VAction (defn_action a)
    end.

  (* right-hand side of c18_keepstate *)
  Definition expect_state (o : opts) (x : vobj) : option vobj :=
    let f := sf scrub o in
    match x with
    | VPlan p => Some (VPlan (respmap_plan f (state_plan (norm_plan p))))
    | VBlock b => Some (VBlock (respmap_block f (state_block (norm_block b))))
    | VSeq s => option_map (fun s => VSeq (respmap_sequence f (state_sequence s))) (norm_sequence s)
    | VChecks c => Some (VChecks (respmap_checks f (state_checks (norm_checks c))))
    | VAction a => Some (VAction (respmap_action f (state_action (norm_action a))))
    end.

  Definition state_obj (x : vobj) : vobj :=
    match x with
    | VPlan p => VPlan (state_plan p) | VBlock b => VBlock (state_block b) | VSeq s => VSeq (state_sequence s)
    | VChecks c => VChecks (state_checks c) | VAction a => VAction (state_action a)
    end.

  Definition pristine_obj_b (x : vobj) : bool :=
    match x with
    | VPlan p => pristine_plan_b p | VBlock b => pristine_block_b b | VSeq s => pristine_sequence_b s
    | VChecks c => pristine_checks_b c | VAction a => pristine_action_b a
    end.

  Definition wf_obj_b (f : blob -> blob) (x : vobj) : bool :=
    match x with
    | VPlan p => wf_plan_b reg f p | VBlock b => wf_block_b reg f b | VSeq s => wf_sequence_b reg f s
    | VChecks c => wf_checks_b reg f c | VAction a => wf_action_b reg f a
    end.

  Definition disjointb (a b : list loc) : bool :=
    forallb (fun l => negb (existsb (Nat.eqb l) b)) a.

  Definition nb (b : bool) : nat := if b then 0 else 1.   (* 0 = holds *)

  (* one observation: [model; validate; submit; m_defn; m_state; m_resubmit; m_disjoint; go; selfcheck], 0 = fine *)
  Definition check_obs (orig : lobj) (ob : obs) : list nat :=
    let o := {| keep_secrets := ob_ks ob; keep_state := ob_st ob |} in
    let vo := erase_obj orig in
    let model := clone_obj o vo in
    let seen := option_map erase_obj (ob_clone ob) in
    let seen_locs := match ob_clone ob with Some x => locs_obj x | None => [] end in
    let lmodel := lclone_obj o orig (S (list_max (locs_obj orig))) in
    [ nb (option_eqb vobj_eqb seen model);
      nb (Bool.eqb (ob_validate ob) (validate_obj model));
      nb (Bool.eqb (ob_submit ob) (validate_obj model));
      nb (option_eqb vobj_eqb (option_map defn_obj seen) (expect_defn o vo));
      nb (if ob_st ob then option_eqb vobj_eqb (option_map state_obj seen) (expect_state o vo)
          else match seen with Some x => pristine_obj_b x | None => true end);
      nb (if negb (ob_st ob) && wf_obj_b (sf scrub o) (defn_obj vo) then ob_validate ob && ob_submit ob else true);
      nb (disjointb seen_locs (locs_obj orig));
      ob_go ob;
      nb (option_eqb vobj_eqb (option_map erase_obj lmodel) model &&
          disjointb (match lmodel with Some x => locs_obj x | None => [] end) (locs_obj orig)) ].

  Definition all_zero (l : list nat) : bool := forallb (Nat.eqb 0) l.

  Fixpoint first_bad (orig : lobj) (i : nat) (l : list obs) : list nat :=
    match l with
    | [] => [0]
    | ob :: r => let c := check_obs orig ob in
                 if all_zero c then first_bad orig (S i) r else S i :: c
    end.
End Check.

(* [0] = every observation agrees with the model and passes the monitors;
   otherwise (1-based index of the first bad observation) :: its check_obs vector *)
Definition check_case (c : case) : list nat :=
  first_bad (reg_of (cs_reg c)) (scrub_of (cs_scrub c)) (cs_orig c) 0 (cs_obs c).

Definition case_ok (c : case) : bool :=
  match check_case c with [0] => true | _ => false end.
