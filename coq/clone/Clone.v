(* C18 - value-level model of workflow/utils/clone/clone.go over the tree of Coercion.Base.Plan.

   Transcribed field by field from Plan / Checks / Block / Sequence / Action, cloneState, cloneAttempts,
   cloneErr, for the options WithKeepSecrets and WithKeepState (WithRemoveCompletedSequences is outside
   the property and is not modelled: the model is the code with removeCompleted = false).

   What the code does, and the model therefore does:
   - Key is never copied (every clone has the nil key), neither are the unexported planID / register;
   - without keep-state ID, State, Attempts, Reason, SubmitTime are left at their zero values;
   - Blocks / Sequences are built by append: nil elements are skipped, and Sequence() returns nil for a
     sequence with no actions, so such sequences disappear from the cloned block; the Actions slices of
     checks groups and sequences are made with the same length and keep nil elements;
   - every result slice is made (never nil), Meta included, except Attempts: cloneAttempts returns nil for len = 0;
   - the call at the top of the clone call stack (callNum = 1) runs clone.Secure over the finished clone
     unless keep-secrets is set: requests and attempt responses are scrubbed in place.

   The Context argument is only handed down to the recursive calls; nothing reads it, so the result does not
   depend on it and the model has no such parameter (the harness calls the real functions under live,
   cancelled, expired and concurrently cancelled Contexts and expects the one clone).

   External behaviour is a Section variable:
   - [deepcopy] is github.com/brunoga/deep.MustCopy on a request / response value;
   - [scrub] is what clone.Secure does to one request / response value (property C17);
   - [reg] is the registry the clone would be submitted to: registration of a plugin name and its verdict
     on a request, (is_check, accepts); the [a_plugreg] field of a cloned action is recomputed from it. *)
From Coercion.Base Require Import Plan.

Record opts := { keep_secrets : bool; keep_state : bool }.

Definition o_default : opts := {| keep_secrets := false; keep_state := false |}.

Definition uid0 : uid := {| u_ix := 0%N; u_v7 := false |}.

(* Meta: meta := make([]byte, len(p.Meta)); copy(meta, p.Meta) - the clone's Meta is never nil: a nil Meta
   comes back as the empty non-nil slice, every other value as itself (a new array with the same bytes).
   In the labelled terms of the C18 harness a nil Meta is (true, true, 0, 0), the empty non-nil one
   (false, true, 0, 0), a non-empty one (false, true, 0, index >= 1). *)
Definition empty_bytes : blob := {| bl_nil := false; bl_enc := true; bl_ty := 0%N; bl_ix := 0%N |}.
Definition meta_val (b : blob) : blob := if bl_nil b then empty_bytes else b.

(* a nil slice ranges like an empty one *)
Definition olist {A} (l : option (list A)) : list A :=
  match l with None => [] | Some x => x end.

Fixpoint filter_map {A B} (f : A -> option B) (l : list A) : list B :=
  match l with
  | [] => []
  | x :: r => match f x with Some y => y :: filter_map f r | None => filter_map f r end
  end.

(* cloneState *)
Definition clone_state (s : option state) : option state :=
  match s with
  | None => None
  | Some s => Some {| s_status := s_status s; s_start := s_start s; s_end := s_end s |}
  end.

(* cloneErr *)
Fixpoint clone_err (e : perr) : perr :=
  match e with
  | PErr c m p w => PErr c m p (match w with None => None | Some w' => Some (clone_err w') end)
  end.

Section Model.
  Variable reg : tok -> blob -> option (bool * bool).
  Variable scrub : blob -> blob.
  Variable deepcopy : blob -> blob.

  Definition clone_attempt (t : attempt) : attempt :=
    {| at_resp := deepcopy (at_resp t);
       at_err := option_map clone_err (at_err t);
       at_start := at_start t; at_end := at_end t |}.

  (* cloneAttempts: len = 0 (nil or empty) gives nil *)
  Definition clone_attempts (l : option (list attempt)) : option (list attempt) :=
    match l with
    | None => None
    | Some [] => None
    | Some l => Some (map clone_attempt l)
    end.

  (* ---- the bodies of the five functions, before the Secure call at the top of the call stack ---- *)

  Definition clone_action_in (o : opts) (a : action) : action :=
    let st := keep_state o in
    let req := deepcopy (a_req a) in
    {| a_id := if st then a_id a else uid0;
       a_key := uid0;
       a_name := a_name a; a_descr := a_descr a; a_plugin := a_plugin a;
       a_timeout := a_timeout a; a_retries := a_retries a;
       a_req := req;
       a_attempts := if st then clone_attempts (a_attempts a) else None;
       a_state := if st then clone_state (a_state a) else None;
       a_plugreg := reg (a_plugin a) req |}.

  (* Actions: make([]*Action, len); element i = Action(c.Actions[i]) (nil stays nil) *)
  Definition clone_actions_in (o : opts) (l : option (list (option action))) : option (list (option action)) :=
    Some (map (option_map (clone_action_in o)) (olist l)).

  Definition clone_checks_in (o : opts) (c : checks) : checks :=
    let st := keep_state o in
    {| c_id := if st then c_id c else uid0;
       c_key := uid0;
       c_delay := c_delay c;
       c_actions := clone_actions_in o (c_actions c);
       c_state := if st then clone_state (c_state c) else None |}.

  (* Sequence() returns nil when the cloned Actions slice has length 0 *)
  Definition clone_sequence_in (o : opts) (s : sequence) : option sequence :=
    let st := keep_state o in
    match olist (q_actions s) with
    | [] => None
    | _ :: _ =>
      Some {| q_id := if st then q_id s else uid0;
              q_key := uid0;
              q_name := q_name s; q_descr := q_descr s;
              q_actions := clone_actions_in o (q_actions s);
              q_state := if st then clone_state (q_state s) else None |}
    end.

  Definition clone_seq_elem (o : opts) (e : option sequence) : option sequence :=
    match e with None => None | Some s => clone_sequence_in o s end.

  (* Sequences: make(.., 0, len) then append of the non-nil results; the elements stay non-nil *)
  Definition clone_seqs_in (o : opts) (l : option (list (option sequence))) : option (list (option sequence)) :=
    Some (map Some (filter_map (clone_seq_elem o) (olist l))).

  Definition clone_block_in (o : opts) (b : block) : block :=
    let st := keep_state o in
    {| b_id := if st then b_id b else uid0;
       b_key := uid0;
       b_name := b_name b; b_descr := b_descr b;
       b_entrance := b_entrance b; b_exit := b_exit b;
       b_bypass := option_map (clone_checks_in o) (b_bypass b);
       b_pre := option_map (clone_checks_in o) (b_pre b);
       b_cont := option_map (clone_checks_in o) (b_cont b);
       b_post := option_map (clone_checks_in o) (b_post b);
       b_deferred := option_map (clone_checks_in o) (b_deferred b);
       b_seqs := clone_seqs_in o (b_seqs b);
       b_conc := b_conc b; b_tol := b_tol b;
       b_state := if st then clone_state (b_state b) else None |}.

  (* Blocks: make(.., 0, len) then append of Block(b) for the non-nil b *)
  Definition clone_blocks_in (o : opts) (l : option (list (option block))) : option (list (option block)) :=
    Some (map Some (filter_map (option_map (clone_block_in o)) (olist l))).

  Definition clone_plan_in (o : opts) (p : plan) : plan :=
    let st := keep_state o in
    {| p_id := if st then p_id p else uid0;
       p_group := p_group p;
       p_name := p_name p; p_descr := p_descr p;
       p_meta := meta_val (p_meta p);
       p_bypass := option_map (clone_checks_in o) (p_bypass p);
       p_pre := option_map (clone_checks_in o) (p_pre p);
       p_cont := option_map (clone_checks_in o) (p_cont p);
       p_post := option_map (clone_checks_in o) (p_post p);
       p_deferred := option_map (clone_checks_in o) (p_deferred p);
       p_blocks := clone_blocks_in o (p_blocks p);
       p_state := if st then clone_state (p_state p) else None;
       p_submit := if st then p_submit p else 0%Z;
       p_reason := if st then p_reason p else FRUnknown |}.

  (* ---- clone.Secure over a finished clone: every request and every attempt response ---- *)

  Definition secure_attempt (t : attempt) : attempt :=
    {| at_resp := scrub (at_resp t); at_err := at_err t; at_start := at_start t; at_end := at_end t |}.

  Definition secure_action (a : action) : action :=
    let req := scrub (a_req a) in
    {| a_id := a_id a; a_key := a_key a;
       a_name := a_name a; a_descr := a_descr a; a_plugin := a_plugin a;
       a_timeout := a_timeout a; a_retries := a_retries a;
       a_req := req;
       a_attempts := option_map (map secure_attempt) (a_attempts a);
       a_state := a_state a;
       a_plugreg := reg (a_plugin a) req |}.

  Definition secure_actions (l : option (list (option action))) : option (list (option action)) :=
    option_map (map (option_map secure_action)) l.

  Definition secure_checks (c : checks) : checks :=
    {| c_id := c_id c; c_key := c_key c; c_delay := c_delay c;
       c_actions := secure_actions (c_actions c); c_state := c_state c |}.

  Definition secure_sequence (s : sequence) : sequence :=
    {| q_id := q_id s; q_key := q_key s; q_name := q_name s; q_descr := q_descr s;
       q_actions := secure_actions (q_actions s); q_state := q_state s |}.

  Definition secure_block (b : block) : block :=
    {| b_id := b_id b; b_key := b_key b; b_name := b_name b; b_descr := b_descr b;
       b_entrance := b_entrance b; b_exit := b_exit b;
       b_bypass := option_map secure_checks (b_bypass b);
       b_pre := option_map secure_checks (b_pre b);
       b_cont := option_map secure_checks (b_cont b);
       b_post := option_map secure_checks (b_post b);
       b_deferred := option_map secure_checks (b_deferred b);
       b_seqs := option_map (map (option_map secure_sequence)) (b_seqs b);
       b_conc := b_conc b; b_tol := b_tol b; b_state := b_state b |}.

  Definition secure_plan (p : plan) : plan :=
    {| p_id := p_id p; p_group := p_group p; p_name := p_name p; p_descr := p_descr p;
       p_meta := p_meta p;
       p_bypass := option_map secure_checks (p_bypass p);
       p_pre := option_map secure_checks (p_pre p);
       p_cont := option_map secure_checks (p_cont p);
       p_post := option_map secure_checks (p_post p);
       p_deferred := option_map secure_checks (p_deferred p);
       p_blocks := option_map (map (option_map secure_block)) (p_blocks p);
       p_state := p_state p; p_submit := p_submit p; p_reason := p_reason p |}.

  (* ---- the five exported functions, called by a user (callNum = 1) ---- *)

  Definition clone_action (o : opts) (a : action) : action :=
    let c := clone_action_in o a in if keep_secrets o then c else secure_action c.

  Definition clone_checks (o : opts) (c : checks) : checks :=
    let r := clone_checks_in o c in if keep_secrets o then r else secure_checks r.

  (* None = the nil *Sequence returned for a sequence without actions *)
  Definition clone_sequence (o : opts) (s : sequence) : option sequence :=
    match clone_sequence_in o s with
    | None => None
    | Some r => Some (if keep_secrets o then r else secure_sequence r)
    end.

  Definition clone_block (o : opts) (b : block) : block :=
    let r := clone_block_in o b in if keep_secrets o then r else secure_block r.

  Definition clone_plan (o : opts) (p : plan) : plan :=
    let r := clone_plan_in o p in if keep_secrets o then r else secure_plan r.
End Model.
