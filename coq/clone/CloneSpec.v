(* C18 - specification vocabulary, independent of the clone functions:
   - [defn_*]     the definition of an object: every engine-owned field (id, state, attempts, submit time,
                  reason) and the derived registry verdict blanked; keys are kept; Meta is read as its bytes
                  (a nil Meta and an empty one are the same definition: [meta_val]);
   - [nokeys_*]   keys blanked;
   - [state_*]    the execution state of an object: every definition field blanked, the engine-owned ones kept;
   - [norm_*]     shape normalisation: nil slices read as empty, nil blocks / nil sequences / sequences
                  without actions removed, an empty attempts slice read as nil (identity on [regular_*] trees);
   - [reqmap_* f] / [respmap_* f]  f applied to every request / every attempt response;
   - [pristine_*] every engine-owned field unset (declarative);
   - [WF_defn_*]  declarative well-formedness of a definition (what Submit demands of user-owned fields);
   - [validate_*] transcription of the checks of workflow.Validate as a boolean function. *)
From Coercion.Base Require Import Plan.
From Coercion.Clone Require Import Clone.

Definition tok0 : tok := {| t_blank := true; t_empty := true; t_ix := 0%N |}.
Definition blob0 : blob := {| bl_nil := true; bl_enc := true; bl_ty := 0%N; bl_ix := 0%N |}.

(* ------------------------------------------------------------------ definition *)

Definition defn_action (a : action) : action :=
  {| a_id := uid0; a_key := a_key a; a_name := a_name a; a_descr := a_descr a; a_plugin := a_plugin a;
     a_timeout := a_timeout a; a_retries := a_retries a; a_req := a_req a;
     a_attempts := None; a_state := None; a_plugreg := None |}.

Definition defn_actions (l : option (list (option action))) := option_map (map (option_map defn_action)) l.

Definition defn_checks (c : checks) : checks :=
  {| c_id := uid0; c_key := c_key c; c_delay := c_delay c; c_actions := defn_actions (c_actions c); c_state := None |}.

Definition defn_sequence (s : sequence) : sequence :=
  {| q_id := uid0; q_key := q_key s; q_name := q_name s; q_descr := q_descr s;
     q_actions := defn_actions (q_actions s); q_state := None |}.

Definition defn_block (b : block) : block :=
  {| b_id := uid0; b_key := b_key b; b_name := b_name b; b_descr := b_descr b;
     b_entrance := b_entrance b; b_exit := b_exit b;
     b_bypass := option_map defn_checks (b_bypass b); b_pre := option_map defn_checks (b_pre b);
     b_cont := option_map defn_checks (b_cont b); b_post := option_map defn_checks (b_post b);
     b_deferred := option_map defn_checks (b_deferred b);
     b_seqs := option_map (map (option_map defn_sequence)) (b_seqs b);
     b_conc := b_conc b; b_tol := b_tol b; b_state := None |}.

Definition defn_plan (p : plan) : plan :=
  {| p_id := uid0; p_group := p_group p; p_name := p_name p; p_descr := p_descr p; p_meta := meta_val (p_meta p);
     p_bypass := option_map defn_checks (p_bypass p); p_pre := option_map defn_checks (p_pre p);
     p_cont := option_map defn_checks (p_cont p); p_post := option_map defn_checks (p_post p);
     p_deferred := option_map defn_checks (p_deferred p);
     p_blocks := option_map (map (option_map defn_block)) (p_blocks p);
     p_state := None; p_submit := 0%Z; p_reason := FRUnknown |}.

(* ------------------------------------------------------------------ keys blanked *)

Definition nokeys_action (a : action) : action :=
  {| a_id := a_id a; a_key := uid0; a_name := a_name a; a_descr := a_descr a; a_plugin := a_plugin a;
     a_timeout := a_timeout a; a_retries := a_retries a; a_req := a_req a;
     a_attempts := a_attempts a; a_state := a_state a; a_plugreg := a_plugreg a |}.

Definition nokeys_actions (l : option (list (option action))) := option_map (map (option_map nokeys_action)) l.

Definition nokeys_checks (c : checks) : checks :=
  {| c_id := c_id c; c_key := uid0; c_delay := c_delay c; c_actions := nokeys_actions (c_actions c); c_state := c_state c |}.

Definition nokeys_sequence (s : sequence) : sequence :=
  {| q_id := q_id s; q_key := uid0; q_name := q_name s; q_descr := q_descr s;
     q_actions := nokeys_actions (q_actions s); q_state := q_state s |}.

Definition nokeys_block (b : block) : block :=
  {| b_id := b_id b; b_key := uid0; b_name := b_name b; b_descr := b_descr b;
     b_entrance := b_entrance b; b_exit := b_exit b;
     b_bypass := option_map nokeys_checks (b_bypass b); b_pre := option_map nokeys_checks (b_pre b);
     b_cont := option_map nokeys_checks (b_cont b); b_post := option_map nokeys_checks (b_post b);
     b_deferred := option_map nokeys_checks (b_deferred b);
     b_seqs := option_map (map (option_map nokeys_sequence)) (b_seqs b);
     b_conc := b_conc b; b_tol := b_tol b; b_state := b_state b |}.

Definition nokeys_plan (p : plan) : plan :=
  {| p_id := p_id p; p_group := p_group p; p_name := p_name p; p_descr := p_descr p; p_meta := p_meta p;
     p_bypass := option_map nokeys_checks (p_bypass p); p_pre := option_map nokeys_checks (p_pre p);
     p_cont := option_map nokeys_checks (p_cont p); p_post := option_map nokeys_checks (p_post p);
     p_deferred := option_map nokeys_checks (p_deferred p);
     p_blocks := option_map (map (option_map nokeys_block)) (p_blocks p);
     p_state := p_state p; p_submit := p_submit p; p_reason := p_reason p |}.

(* ------------------------------------------------------------------ execution state *)

Definition state_action (a : action) : action :=
  {| a_id := a_id a; a_key := uid0; a_name := tok0; a_descr := tok0; a_plugin := tok0;
     a_timeout := 0%Z; a_retries := 0%Z; a_req := blob0;
     a_attempts := a_attempts a; a_state := a_state a; a_plugreg := None |}.

Definition state_actions (l : option (list (option action))) := option_map (map (option_map state_action)) l.

Definition state_checks (c : checks) : checks :=
  {| c_id := c_id c; c_key := uid0; c_delay := 0%Z; c_actions := state_actions (c_actions c); c_state := c_state c |}.

Definition state_sequence (s : sequence) : sequence :=
  {| q_id := q_id s; q_key := uid0; q_name := tok0; q_descr := tok0;
     q_actions := state_actions (q_actions s); q_state := q_state s |}.

Definition state_block (b : block) : block :=
  {| b_id := b_id b; b_key := uid0; b_name := tok0; b_descr := tok0; b_entrance := 0%Z; b_exit := 0%Z;
     b_bypass := option_map state_checks (b_bypass b); b_pre := option_map state_checks (b_pre b);
     b_cont := option_map state_checks (b_cont b); b_post := option_map state_checks (b_post b);
     b_deferred := option_map state_checks (b_deferred b);
     b_seqs := option_map (map (option_map state_sequence)) (b_seqs b);
     b_conc := 0%Z; b_tol := 0%Z; b_state := b_state b |}.

Definition state_plan (p : plan) : plan :=
  {| p_id := p_id p; p_group := uid0; p_name := tok0; p_descr := tok0; p_meta := blob0;
     p_bypass := option_map state_checks (p_bypass p); p_pre := option_map state_checks (p_pre p);
     p_cont := option_map state_checks (p_cont p); p_post := option_map state_checks (p_post p);
     p_deferred := option_map state_checks (p_deferred p);
     p_blocks := option_map (map (option_map state_block)) (p_blocks p);
     p_state := p_state p; p_submit := p_submit p; p_reason := p_reason p |}.

(* ------------------------------------------------------------------ shape normalisation *)

Definition norm_attempts (l : option (list attempt)) : option (list attempt) :=
  match l with Some [] => None | x => x end.

Definition norm_action (a : action) : action :=
  {| a_id := a_id a; a_key := a_key a; a_name := a_name a; a_descr := a_descr a; a_plugin := a_plugin a;
     a_timeout := a_timeout a; a_retries := a_retries a; a_req := a_req a;
     a_attempts := norm_attempts (a_attempts a); a_state := a_state a; a_plugreg := a_plugreg a |}.

Definition norm_actions (l : option (list (option action))) : option (list (option action)) :=
  Some (map (option_map norm_action) (olist l)).

Definition norm_checks (c : checks) : checks :=
  {| c_id := c_id c; c_key := c_key c; c_delay := c_delay c; c_actions := norm_actions (c_actions c); c_state := c_state c |}.

Definition norm_sequence (s : sequence) : option sequence :=
  match olist (q_actions s) with
  | [] => None
  | _ :: _ => Some {| q_id := q_id s; q_key := q_key s; q_name := q_name s; q_descr := q_descr s;
                      q_actions := norm_actions (q_actions s); q_state := q_state s |}
  end.

Definition norm_seq_elem (e : option sequence) : option sequence :=
  match e with None => None | Some s => norm_sequence s end.

Definition norm_block (b : block) : block :=
  {| b_id := b_id b; b_key := b_key b; b_name := b_name b; b_descr := b_descr b;
     b_entrance := b_entrance b; b_exit := b_exit b;
     b_bypass := option_map norm_checks (b_bypass b); b_pre := option_map norm_checks (b_pre b);
     b_cont := option_map norm_checks (b_cont b); b_post := option_map norm_checks (b_post b);
     b_deferred := option_map norm_checks (b_deferred b);
     b_seqs := Some (map Some (filter_map norm_seq_elem (olist (b_seqs b))));
     b_conc := b_conc b; b_tol := b_tol b; b_state := b_state b |}.

Definition norm_plan (p : plan) : plan :=
  {| p_id := p_id p; p_group := p_group p; p_name := p_name p; p_descr := p_descr p; p_meta := p_meta p;
     p_bypass := option_map norm_checks (p_bypass p); p_pre := option_map norm_checks (p_pre p);
     p_cont := option_map norm_checks (p_cont p); p_post := option_map norm_checks (p_post p);
     p_deferred := option_map norm_checks (p_deferred p);
     p_blocks := Some (map Some (filter_map (option_map norm_block) (olist (p_blocks p))));
     p_state := p_state p; p_submit := p_submit p; p_reason := p_reason p |}.

(* regular trees: no nil slice, no nil element, no sequence without actions, attempts nil or non-empty.
   Every plan Submit accepts is regular, and so is everything the engine makes of it. *)
Definition regular_action (a : action) : Prop := a_attempts a <> Some [].

Definition regular_actions (l : option (list (option action))) : Prop :=
  exists xs, l = Some xs /\ Forall (fun e => exists a, e = Some a /\ regular_action a) xs.

Definition regular_checks (c : checks) : Prop := regular_actions (c_actions c).

Definition regular_ochecks (c : option checks) : Prop :=
  match c with None => True | Some c => regular_checks c end.

Definition regular_sequence (s : sequence) : Prop :=
  regular_actions (q_actions s) /\ q_actions s <> Some [].

Definition regular_block (b : block) : Prop :=
  regular_ochecks (b_bypass b) /\ regular_ochecks (b_pre b) /\ regular_ochecks (b_cont b) /\
  regular_ochecks (b_post b) /\ regular_ochecks (b_deferred b) /\
  exists xs, b_seqs b = Some xs /\ Forall (fun e => exists s, e = Some s /\ regular_sequence s) xs.

Definition regular_plan (p : plan) : Prop :=
  regular_ochecks (p_bypass p) /\ regular_ochecks (p_pre p) /\ regular_ochecks (p_cont p) /\
  regular_ochecks (p_post p) /\ regular_ochecks (p_deferred p) /\
  exists xs, p_blocks p = Some xs /\ Forall (fun e => exists b, e = Some b /\ regular_block b) xs.

(* ------------------------------------------------------------------ maps over requests / responses *)

Section Maps.
  Variable f : blob -> blob.

  Definition reqmap_action (a : action) : action :=
    {| a_id := a_id a; a_key := a_key a; a_name := a_name a; a_descr := a_descr a; a_plugin := a_plugin a;
       a_timeout := a_timeout a; a_retries := a_retries a; a_req := f (a_req a);
       a_attempts := a_attempts a; a_state := a_state a; a_plugreg := a_plugreg a |}.

  Definition respmap_attempt (t : attempt) : attempt :=
    {| at_resp := f (at_resp t); at_err := at_err t; at_start := at_start t; at_end := at_end t |}.

  Definition respmap_action (a : action) : action :=
    {| a_id := a_id a; a_key := a_key a; a_name := a_name a; a_descr := a_descr a; a_plugin := a_plugin a;
       a_timeout := a_timeout a; a_retries := a_retries a; a_req := a_req a;
       a_attempts := option_map (map respmap_attempt) (a_attempts a); a_state := a_state a; a_plugreg := a_plugreg a |}.

  Section Lift.
    Variable g : action -> action.
    Definition amap_actions (l : option (list (option action))) := option_map (map (option_map g)) l.
    Definition amap_checks (c : checks) : checks :=
      {| c_id := c_id c; c_key := c_key c; c_delay := c_delay c; c_actions := amap_actions (c_actions c); c_state := c_state c |}.
    Definition amap_sequence (s : sequence) : sequence :=
      {| q_id := q_id s; q_key := q_key s; q_name := q_name s; q_descr := q_descr s;
         q_actions := amap_actions (q_actions s); q_state := q_state s |}.
    Definition amap_block (b : block) : block :=
      {| b_id := b_id b; b_key := b_key b; b_name := b_name b; b_descr := b_descr b;
         b_entrance := b_entrance b; b_exit := b_exit b;
         b_bypass := option_map amap_checks (b_bypass b); b_pre := option_map amap_checks (b_pre b);
         b_cont := option_map amap_checks (b_cont b); b_post := option_map amap_checks (b_post b);
         b_deferred := option_map amap_checks (b_deferred b);
         b_seqs := option_map (map (option_map amap_sequence)) (b_seqs b);
         b_conc := b_conc b; b_tol := b_tol b; b_state := b_state b |}.
    Definition amap_plan (p : plan) : plan :=
      {| p_id := p_id p; p_group := p_group p; p_name := p_name p; p_descr := p_descr p; p_meta := p_meta p;
         p_bypass := option_map amap_checks (p_bypass p); p_pre := option_map amap_checks (p_pre p);
         p_cont := option_map amap_checks (p_cont p); p_post := option_map amap_checks (p_post p);
         p_deferred := option_map amap_checks (p_deferred p);
         p_blocks := option_map (map (option_map amap_block)) (p_blocks p);
         p_state := p_state p; p_submit := p_submit p; p_reason := p_reason p |}.
  End Lift.
End Maps.

Definition reqmap_checks f := amap_checks (reqmap_action f).
Definition reqmap_sequence f := amap_sequence (reqmap_action f).
Definition reqmap_block f := amap_block (reqmap_action f).
Definition reqmap_plan f := amap_plan (reqmap_action f).
Definition respmap_checks f := amap_checks (respmap_action f).
Definition respmap_sequence f := amap_sequence (respmap_action f).
Definition respmap_block f := amap_block (respmap_action f).
Definition respmap_plan f := amap_plan (respmap_action f).

(* what the clone does to requests and responses under the option set o *)
Definition sf (scrub : blob -> blob) (o : opts) : blob -> blob :=
  if keep_secrets o then (fun b => b) else scrub.

(* every request of a tree *)
Definition reqs_actions (l : option (list (option action))) : list blob :=
  flat_map (fun e => match e with Some a => [a_req a] | None => [] end) (olist l).
Definition resps_actions (l : option (list (option action))) : list blob :=
  flat_map (fun e => match e with Some a => map at_resp (olist (a_attempts a)) | None => [] end) (olist l).

Section Collect.
  Variable F : option (list (option action)) -> list blob.
  Definition coll_ochecks (c : option checks) : list blob :=
    match c with Some c => F (c_actions c) | None => [] end.
  Definition coll_sequence (s : sequence) : list blob := F (q_actions s).
  Definition coll_block (b : block) : list blob :=
    coll_ochecks (b_bypass b) ++ coll_ochecks (b_pre b) ++ coll_ochecks (b_cont b) ++
    coll_ochecks (b_post b) ++ coll_ochecks (b_deferred b) ++
    flat_map (fun e => match e with Some s => coll_sequence s | None => [] end) (olist (b_seqs b)).
  Definition coll_plan (p : plan) : list blob :=
    coll_ochecks (p_bypass p) ++ coll_ochecks (p_pre p) ++ coll_ochecks (p_cont p) ++
    coll_ochecks (p_post p) ++ coll_ochecks (p_deferred p) ++
    flat_map (fun e => match e with Some b => coll_block b | None => [] end) (olist (p_blocks p)).
End Collect.

Definition reqs_plan := coll_plan reqs_actions.
Definition reqs_block := coll_block reqs_actions.
Definition reqs_sequence := coll_sequence reqs_actions.
Definition reqs_checks (c : checks) := reqs_actions (c_actions c).
Definition resps_plan := coll_plan resps_actions.
Definition resps_block := coll_block resps_actions.
Definition resps_sequence := coll_sequence resps_actions.
Definition resps_checks (c : checks) := resps_actions (c_actions c).

(* ------------------------------------------------------------------ pristine: nothing engine-owned is set *)

Definition pristine_action (a : action) : Prop :=
  a_id a = uid0 /\ a_state a = None /\ a_attempts a = None.

Definition pristine_actions (l : option (list (option action))) : Prop :=
  Forall (fun e => match e with Some a => pristine_action a | None => True end) (olist l).

Definition pristine_checks (c : checks) : Prop :=
  c_id c = uid0 /\ c_state c = None /\ pristine_actions (c_actions c).

Definition pristine_ochecks (c : option checks) : Prop :=
  match c with None => True | Some c => pristine_checks c end.

Definition pristine_sequence (s : sequence) : Prop :=
  q_id s = uid0 /\ q_state s = None /\ pristine_actions (q_actions s).

Definition pristine_block (b : block) : Prop :=
  b_id b = uid0 /\ b_state b = None /\
  pristine_ochecks (b_bypass b) /\ pristine_ochecks (b_pre b) /\ pristine_ochecks (b_cont b) /\
  pristine_ochecks (b_post b) /\ pristine_ochecks (b_deferred b) /\
  Forall (fun e => match e with Some s => pristine_sequence s | None => True end) (olist (b_seqs b)).

Definition pristine_plan (p : plan) : Prop :=
  p_id p = uid0 /\ p_state p = None /\ p_submit p = 0%Z /\ p_reason p = FRUnknown /\
  pristine_ochecks (p_bypass p) /\ pristine_ochecks (p_pre p) /\ pristine_ochecks (p_cont p) /\
  pristine_ochecks (p_post p) /\ pristine_ochecks (p_deferred p) /\
  Forall (fun e => match e with Some b => pristine_block b | None => True end) (olist (p_blocks p)).

(* ------------------------------------------------------------------ well-formed definitions (declarative) *)

Definition five_seconds : Z := 5000000000%Z.

Section WF.
  (* the registry the plan is to be submitted to, and what happens to a request before it gets there *)
  Variable reg : tok -> blob -> option (bool * bool).
  Variable f : blob -> blob.

  Definition WF_defn_action (a : action) : Prop :=
    t_blank (a_name a) = false /\ t_blank (a_descr a) = false /\ t_blank (a_plugin a) = false /\
    (a_timeout a = 0%Z \/ (five_seconds <= a_timeout a)%Z) /\
    exists chk, reg (a_plugin a) (f (a_req a)) = Some (chk, true).

  Definition WF_defn_actions (l : option (list (option action))) : Prop :=
    exists xs, l = Some xs /\ xs <> [] /\ Forall (fun e => exists a, e = Some a /\ WF_defn_action a) xs.

  Definition WF_defn_checks (c : checks) : Prop := WF_defn_actions (c_actions c).

  Definition WF_defn_ochecks (c : option checks) : Prop :=
    match c with None => True | Some c => WF_defn_checks c end.

  Definition WF_defn_sequence (s : sequence) : Prop :=
    t_blank (q_name s) = false /\ t_blank (q_descr s) = false /\ WF_defn_actions (q_actions s).

  Definition WF_defn_block (b : block) : Prop :=
    t_blank (b_name b) = false /\ t_blank (b_descr b) = false /\
    WF_defn_ochecks (b_bypass b) /\ WF_defn_ochecks (b_pre b) /\ WF_defn_ochecks (b_cont b) /\
    WF_defn_ochecks (b_post b) /\ WF_defn_ochecks (b_deferred b) /\
    exists xs, b_seqs b = Some xs /\ xs <> [] /\ Forall (fun e => exists s, e = Some s /\ WF_defn_sequence s) xs.

  Definition WF_defn_plan (p : plan) : Prop :=
    t_blank (p_name p) = false /\ t_blank (p_descr p) = false /\
    WF_defn_ochecks (p_bypass p) /\ WF_defn_ochecks (p_pre p) /\ WF_defn_ochecks (p_cont p) /\
    WF_defn_ochecks (p_post p) /\ WF_defn_ochecks (p_deferred p) /\
    exists xs, p_blocks p = Some xs /\ xs <> [] /\ Forall (fun e => exists b, e = Some b /\ WF_defn_block b) xs.
End WF.

(* ------------------------------------------------------------------ the checks of workflow.Validate *)

Definition uid_nil (u : uid) : bool := N.eqb (u_ix u) 0%N.

Definition state_unset (s : option state) : bool := match s with None => true | Some _ => false end.

Definition nonempty {A} (l : option (list A)) : bool :=
  match l with Some (_ :: _) => true | _ => false end.

(* Action.validate without the key *)
Definition validate_action (a : action) : bool :=
  uid_nil (a_id a) && state_unset (a_state a) &&
  (Z.eqb (a_timeout a) 0 || Z.leb five_seconds (a_timeout a)) &&
  negb (t_blank (a_name a)) && negb (t_blank (a_descr a)) && negb (t_blank (a_plugin a)) &&
  match a_attempts a with None => true | Some _ => false end &&
  match a_plugreg a with Some (_, true) => true | _ => false end.

Definition validate_actions (l : option (list (option action))) : bool :=
  nonempty l && forallb (fun e => match e with Some a => validate_action a | None => false end) (olist l).

Definition validate_checks (c : checks) : bool :=
  uid_nil (c_id c) && validate_actions (c_actions c) && state_unset (c_state c).

Definition validate_ochecks (c : option checks) : bool :=
  match c with None => true | Some c => validate_checks c end.

Definition validate_sequence (s : sequence) : bool :=
  uid_nil (q_id s) && negb (t_blank (q_name s)) && negb (t_blank (q_descr s)) &&
  state_unset (q_state s) && validate_actions (q_actions s).

Definition validate_block (b : block) : bool :=
  uid_nil (b_id b) && negb (t_blank (b_name b)) && negb (t_blank (b_descr b)) && state_unset (b_state b) &&
  nonempty (b_seqs b) &&
  validate_ochecks (b_bypass b) && validate_ochecks (b_pre b) && validate_ochecks (b_cont b) &&
  validate_ochecks (b_post b) && validate_ochecks (b_deferred b) &&
  forallb (fun e => match e with Some s => validate_sequence s | None => false end) (olist (b_seqs b)).

(* keys: addOrErrKey over one set shared by the whole tree: every non-nil key is v7 and occurs once *)
Definition keys_actions (l : option (list (option action))) : list uid :=
  flat_map (fun e => match e with Some a => [a_key a] | None => [] end) (olist l).
Definition keys_checks (c : checks) : list uid := c_key c :: keys_actions (c_actions c).
Definition keys_ochecks (c : option checks) : list uid := match c with Some c => keys_checks c | None => [] end.
Definition keys_sequence (s : sequence) : list uid := q_key s :: keys_actions (q_actions s).
Definition keys_block (b : block) : list uid :=
  b_key b :: keys_ochecks (b_bypass b) ++ keys_ochecks (b_pre b) ++ keys_ochecks (b_cont b) ++
  keys_ochecks (b_post b) ++ keys_ochecks (b_deferred b) ++
  flat_map (fun e => match e with Some s => keys_sequence s | None => [] end) (olist (b_seqs b)).
Definition keys_plan (p : plan) : list uid :=
  keys_ochecks (p_bypass p) ++ keys_ochecks (p_pre p) ++ keys_ochecks (p_cont p) ++
  keys_ochecks (p_post p) ++ keys_ochecks (p_deferred p) ++
  flat_map (fun e => match e with Some b => keys_block b | None => [] end) (olist (p_blocks p)).

Fixpoint keys_ok_from (seen : list N) (l : list uid) : bool :=
  match l with
  | [] => true
  | k :: r =>
    if uid_nil k then keys_ok_from seen r
    else u_v7 k && negb (existsb (N.eqb (u_ix k)) seen) && keys_ok_from (u_ix k :: seen) r
  end.
Definition keys_ok (l : list uid) : bool := keys_ok_from [] l.

(* the conjunction of everything workflow.Validate checks (the order of the queue only decides which error
   is reported first) *)
Definition validate_plan (p : plan) : bool :=
  uid_nil (p_id p) && state_unset (p_state p) && negb (t_blank (p_name p)) && negb (t_blank (p_descr p)) &&
  nonempty (p_blocks p) && reason_eqb (p_reason p) FRUnknown && Z.eqb (p_submit p) 0 &&
  validate_ochecks (p_bypass p) && validate_ochecks (p_pre p) && validate_ochecks (p_cont p) &&
  validate_ochecks (p_post p) && validate_ochecks (p_deferred p) &&
  forallb (fun e => match e with Some b => validate_block b | None => false end) (olist (p_blocks p)) &&
  keys_ok (keys_plan p).

(* the sub-object validators with their own key set, for clones of single objects *)
Definition validate_action_k (a : action) : bool := validate_action a && keys_ok [a_key a].
Definition validate_checks_k (c : checks) : bool := validate_checks c && keys_ok (keys_checks c).
Definition validate_sequence_k (s : sequence) : bool := validate_sequence s && keys_ok (keys_sequence s).
Definition validate_block_k (b : block) : bool := validate_block b && keys_ok (keys_block b).
