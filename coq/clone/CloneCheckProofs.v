(* C18 - the boolean forms used by the checker and by the examples mean what the declarative predicates say. *)
From Coercion.Base Require Import Plan.
From Coercion.Clone Require Import Clone CloneSpec CloneCheck.
From Coq Require Import Lia.

Lemma andb_elim (a b : bool) : a && b = true -> a = true /\ b = true.
Proof. apply andb_true_iff. Qed.

Ltac bsplit H :=
  repeat match type of H with
  | _ && _ = true => let H' := fresh "B" in apply andb_elim in H as [H H']
  end.

Lemma negb_true (b : bool) : negb b = true -> b = false.
Proof. now destruct b. Qed.

Lemma nonempty_some {A} (l : option (list A)) : nonempty l = true -> exists xs, l = Some xs /\ xs <> [].
Proof. destruct l as [[|x xs]|]; try discriminate. intros _. eexists. split; [reflexivity|discriminate]. Qed.

Lemma forallb_some_Forall {A} (P : A -> bool) (Q : A -> Prop) (xs : list (option A)) :
  (forall a, P a = true -> Q a) ->
  forallb (fun e => match e with Some a => P a | None => false end) xs = true ->
  Forall (fun e => exists a, e = Some a /\ Q a) xs.
Proof.
  intros H F. apply Forall_forall. intros e He. rewrite forallb_forall in F. specialize (F e He).
  destruct e as [a|]; [|discriminate]. exists a. split; [reflexivity|now apply H].
Qed.

Section Sound.
  Variable reg : tok -> blob -> option (bool * bool).
  Variable f : blob -> blob.

  Lemma wf_action_b_sound a : wf_action_b reg f a = true -> WF_defn_action reg f a.
  Proof.
    unfold wf_action_b, WF_defn_action. intros H. bsplit H.
    apply negb_true in H, B2, B1.
    repeat split; try assumption.
    - apply orb_true_iff in B0 as [E|E]; [left; now apply Z.eqb_eq|right; now apply Z.leb_le].
    - destruct (reg (a_plugin a) (f (a_req a))) as [[c [|]]|]; try discriminate. now exists c.
  Qed.

  Lemma wf_actions_b_sound l : wf_actions_b reg f l = true -> WF_defn_actions reg f l.
  Proof.
    unfold wf_actions_b, WF_defn_actions. intros H. bsplit H.
    destruct (nonempty_some _ H) as (xs & -> & Ne). exists xs. repeat split; try assumption.
    simpl in B. now apply (forallb_some_Forall _ _ _ wf_action_b_sound).
  Qed.

  Lemma wf_ochecks_b_sound g : wf_ochecks_b reg f g = true -> WF_defn_ochecks reg f g.
  Proof. destruct g; simpl; [apply wf_actions_b_sound|trivial]. Qed.

  Lemma wf_sequence_b_sound s : wf_sequence_b reg f s = true -> WF_defn_sequence reg f s.
  Proof.
    unfold wf_sequence_b, WF_defn_sequence. intros H. bsplit H. apply negb_true in H, B0.
    repeat split; try assumption. now apply wf_actions_b_sound.
  Qed.

  Lemma wf_block_b_sound b : wf_block_b reg f b = true -> WF_defn_block reg f b.
  Proof.
    unfold wf_block_b, WF_defn_block. intros H. bsplit H. apply negb_true in H, B6.
    repeat split; try assumption; try now apply wf_ochecks_b_sound.
    destruct (nonempty_some _ B0) as (xs & E & Ne). exists xs. repeat split; try assumption.
    rewrite E in B. simpl in B. now apply (forallb_some_Forall _ _ _ wf_sequence_b_sound).
  Qed.

  Lemma wf_plan_b_sound p : wf_plan_b reg f p = true -> WF_defn_plan reg f p.
  Proof.
    unfold wf_plan_b, WF_defn_plan. intros H. bsplit H. apply negb_true in H, B6.
    repeat split; try assumption; try now apply wf_ochecks_b_sound.
    destruct (nonempty_some _ B0) as (xs & E & Ne). exists xs. repeat split; try assumption.
    rewrite E in B. simpl in B. now apply (forallb_some_Forall _ _ _ wf_block_b_sound).
  Qed.
End Sound.

Lemma regular_action_b_sound a : regular_action_b a = true -> regular_action a.
Proof. unfold regular_action_b, regular_action. destruct (a_attempts a) as [[|]|]; try discriminate; intros _ E; discriminate. Qed.

Lemma regular_actions_b_sound l : regular_actions_b l = true -> regular_actions l.
Proof.
  unfold regular_actions_b, regular_actions. destruct l as [xs|]; [|discriminate]. intros H.
  exists xs. split; [reflexivity|]. now apply (forallb_some_Forall _ _ _ regular_action_b_sound).
Qed.

Lemma regular_ochecks_b_sound g : regular_ochecks_b g = true -> regular_ochecks g.
Proof. destruct g; simpl; [apply regular_actions_b_sound|trivial]. Qed.

Lemma regular_sequence_b_sound s : regular_sequence_b s = true -> regular_sequence s.
Proof.
  unfold regular_sequence_b, regular_sequence. intros H. bsplit H. split; [now apply regular_actions_b_sound|].
  destruct (nonempty_some _ B) as (xs & -> & Ne). intros [= ->]. now apply Ne.
Qed.

Lemma regular_block_b_sound b : regular_block_b b = true -> regular_block b.
Proof.
  unfold regular_block_b, regular_block. intros H. bsplit H.
  repeat split; try now apply regular_ochecks_b_sound.
  destruct (b_seqs b) as [xs|]; [|discriminate]. exists xs. split; [reflexivity|].
  now apply (forallb_some_Forall _ _ _ regular_sequence_b_sound).
Qed.

Lemma regular_plan_b_sound p : regular_plan_b p = true -> regular_plan p.
Proof.
  unfold regular_plan_b, regular_plan. intros H. bsplit H.
  repeat split; try now apply regular_ochecks_b_sound.
  destruct (p_blocks p) as [xs|]; [|discriminate]. exists xs. split; [reflexivity|].
  now apply (forallb_some_Forall _ _ _ regular_block_b_sound).
Qed.

(* pristine: the declarative predicate implies the boolean the checker evaluates *)
Lemma uid_eqb_refl u : uid_eqb u u = true.
Proof. unfold uid_eqb. now rewrite N.eqb_refl, Bool.eqb_reflx. Qed.

Lemma pristine_action_b_complete a : pristine_action a -> pristine_action_b a = true.
Proof. intros (E1 & E2 & E3). unfold pristine_action_b. rewrite E1, E2, E3. reflexivity. Qed.

Lemma pristine_actions_b_complete l : pristine_actions l -> pristine_actions_b l = true.
Proof.
  unfold pristine_actions, pristine_actions_b. intros H. apply forallb_forall. intros e He.
  rewrite Forall_forall in H. specialize (H e He). destruct e; [now apply pristine_action_b_complete|reflexivity].
Qed.

Lemma pristine_checks_b_complete c : pristine_checks c -> pristine_checks_b c = true.
Proof.
  intros (E1 & E2 & H). unfold pristine_checks_b. rewrite E1, E2, pristine_actions_b_complete by exact H. reflexivity.
Qed.

Lemma pristine_ochecks_b_complete g : pristine_ochecks g -> pristine_ochecks_b g = true.
Proof. destruct g; simpl; [apply pristine_checks_b_complete|reflexivity]. Qed.

Lemma pristine_sequence_b_complete s : pristine_sequence s -> pristine_sequence_b s = true.
Proof.
  intros (E1 & E2 & H). unfold pristine_sequence_b. rewrite E1, E2, pristine_actions_b_complete by exact H. reflexivity.
Qed.

Lemma pristine_block_b_complete b : pristine_block b -> pristine_block_b b = true.
Proof.
  intros (E1 & E2 & H1 & H2 & H3 & H4 & H5 & H). unfold pristine_block_b.
  rewrite E1, E2, !pristine_ochecks_b_complete by assumption. simpl.
  apply forallb_forall. intros e He. rewrite Forall_forall in H. specialize (H e He).
  destruct e; [now apply pristine_sequence_b_complete|reflexivity].
Qed.

Lemma pristine_plan_b_complete p : pristine_plan p -> pristine_plan_b p = true.
Proof.
  intros (E1 & E2 & E3 & E4 & H1 & H2 & H3 & H4 & H5 & H). unfold pristine_plan_b.
  rewrite E1, E2, E3, E4, !pristine_ochecks_b_complete by assumption. simpl.
  apply forallb_forall. intros e He. rewrite Forall_forall in H. specialize (H e He).
  destruct e; [now apply pristine_block_b_complete|reflexivity].
Qed.
