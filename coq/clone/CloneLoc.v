(* C18 - the clone functions over a LABELLED tree: every pointer, slice backing array and map carries a
   location label, so that sharing between two trees is expressible ([locs_*] of the two intersect).

   [l*] types mirror Coercion.Base.Plan; [erase_*] forgets the labels. The allocating clone functions
   [lclone_*] thread an allocation counter (every allocation takes the next label: M A = nat -> A * nat) and
   follow clone.go allocation by allocation:  &workflow.Plan{..}, make([]byte, ..), cloneState's &State{..},
   make([]*Block, ..), &Attempt{..}, &plugins.Error{..}, and deep.MustCopy for request / response values.

   External: [ldeepcopy] (brunoga/deep on a labelled value) and [lscrub] (clone.Secure on a labelled value)
   are Section variables; what is assumed of them is stated as hypotheses where it is used (CloneLocProofs.v). *)
From Coercion.Base Require Import Plan.
From Coercion.Clone Require Import Clone.

Definition loc := nat.

(* a request / response / meta value with the labels of every pointer / slice / map node inside it *)
Record lblob := { lb_val : blob; lb_locs : list loc }.

Inductive lperr := LPErr (l : loc) (code : N) (msg : N) (permanent : bool) (wrapped : option lperr).

Record lstate := { ls_loc : loc; ls_val : state }.

Record lattempt := { lt_loc : loc; lt_resp : lblob; lt_err : option lperr; lt_start : Z; lt_end : Z }.

(* a slice: None = nil, Some (label of the backing array, elements) *)
Definition lslice (A : Type) := option (loc * list A).

Record laction := {
  la_loc : loc;
  la_id : uid; la_key : uid; la_name : tok; la_descr : tok; la_plugin : tok;
  la_timeout : Z; la_retries : Z; la_req : lblob;
  la_attempts : lslice lattempt;
  la_state : option lstate;
  la_plugreg : option (bool * bool) }.

Record lchecks := {
  lc_loc : loc;
  lc_id : uid; lc_key : uid; lc_delay : Z;
  lc_actions : lslice (option laction);
  lc_state : option lstate }.

Record lsequence := {
  lq_loc : loc;
  lq_id : uid; lq_key : uid; lq_name : tok; lq_descr : tok;
  lq_actions : lslice (option laction);
  lq_state : option lstate }.

Record lblock := {
  lk_loc : loc;
  lk_id : uid; lk_key : uid; lk_name : tok; lk_descr : tok;
  lk_entrance : Z; lk_exit : Z;
  lk_bypass : option lchecks; lk_pre : option lchecks; lk_cont : option lchecks;
  lk_post : option lchecks; lk_deferred : option lchecks;
  lk_seqs : lslice (option lsequence);
  lk_conc : Z; lk_tol : Z;
  lk_state : option lstate }.

Record lplan := {
  lp_loc : loc;
  lp_id : uid; lp_group : uid; lp_name : tok; lp_descr : tok; lp_meta : lblob;
  lp_bypass : option lchecks; lp_pre : option lchecks; lp_cont : option lchecks;
  lp_post : option lchecks; lp_deferred : option lchecks;
  lp_blocks : lslice (option lblock);
  lp_state : option lstate; lp_submit : Z; lp_reason : reason }.

(* ------------------------------------------------------------------ erasure to Coercion.Base.Plan *)

Fixpoint erase_err (e : lperr) : perr :=
  match e with
  | LPErr _ c m p w => PErr c m p (match w with None => None | Some w' => Some (erase_err w') end)
  end.

Definition erase_state (s : option lstate) : option state := option_map ls_val s.

Definition erase_attempt (t : lattempt) : attempt :=
  {| at_resp := lb_val (lt_resp t); at_err := option_map erase_err (lt_err t);
     at_start := lt_start t; at_end := lt_end t |}.

Definition erase_slice {A B} (f : A -> B) (s : lslice A) : option (list B) :=
  match s with None => None | Some (_, l) => Some (map f l) end.

Definition erase_action (a : laction) : action :=
  {| a_id := la_id a; a_key := la_key a; a_name := la_name a; a_descr := la_descr a; a_plugin := la_plugin a;
     a_timeout := la_timeout a; a_retries := la_retries a; a_req := lb_val (la_req a);
     a_attempts := erase_slice erase_attempt (la_attempts a);
     a_state := erase_state (la_state a); a_plugreg := la_plugreg a |}.

Definition erase_actions (s : lslice (option laction)) := erase_slice (option_map erase_action) s.

Definition erase_checks (c : lchecks) : checks :=
  {| c_id := lc_id c; c_key := lc_key c; c_delay := lc_delay c;
     c_actions := erase_actions (lc_actions c); c_state := erase_state (lc_state c) |}.

Definition erase_sequence (s : lsequence) : sequence :=
  {| q_id := lq_id s; q_key := lq_key s; q_name := lq_name s; q_descr := lq_descr s;
     q_actions := erase_actions (lq_actions s); q_state := erase_state (lq_state s) |}.

Definition erase_block (b : lblock) : block :=
  {| b_id := lk_id b; b_key := lk_key b; b_name := lk_name b; b_descr := lk_descr b;
     b_entrance := lk_entrance b; b_exit := lk_exit b;
     b_bypass := option_map erase_checks (lk_bypass b); b_pre := option_map erase_checks (lk_pre b);
     b_cont := option_map erase_checks (lk_cont b); b_post := option_map erase_checks (lk_post b);
     b_deferred := option_map erase_checks (lk_deferred b);
     b_seqs := erase_slice (option_map erase_sequence) (lk_seqs b);
     b_conc := lk_conc b; b_tol := lk_tol b; b_state := erase_state (lk_state b) |}.

Definition erase_plan (p : lplan) : plan :=
  {| p_id := lp_id p; p_group := lp_group p; p_name := lp_name p; p_descr := lp_descr p;
     p_meta := lb_val (lp_meta p);
     p_bypass := option_map erase_checks (lp_bypass p); p_pre := option_map erase_checks (lp_pre p);
     p_cont := option_map erase_checks (lp_cont p); p_post := option_map erase_checks (lp_post p);
     p_deferred := option_map erase_checks (lp_deferred p);
     p_blocks := erase_slice (option_map erase_block) (lp_blocks p);
     p_state := erase_state (lp_state p); p_submit := lp_submit p; p_reason := lp_reason p |}.

(* ------------------------------------------------------------------ every location reachable from an object *)

Fixpoint locs_err (e : lperr) : list loc :=
  match e with
  | LPErr l _ _ _ w => l :: match w with None => [] | Some w' => locs_err w' end
  end.

Definition locs_opt {A} (f : A -> list loc) (o : option A) : list loc :=
  match o with None => [] | Some x => f x end.

Definition locs_state (s : option lstate) : list loc := locs_opt (fun s => [ls_loc s]) s.

Definition locs_attempt (t : lattempt) : list loc :=
  lt_loc t :: lb_locs (lt_resp t) ++ locs_opt locs_err (lt_err t).

Definition locs_slice {A} (f : A -> list loc) (s : lslice A) : list loc :=
  match s with None => [] | Some (l, xs) => l :: flat_map f xs end.

Definition locs_action (a : laction) : list loc :=
  la_loc a :: lb_locs (la_req a) ++ locs_slice locs_attempt (la_attempts a) ++ locs_state (la_state a).

Definition locs_actions (s : lslice (option laction)) : list loc := locs_slice (locs_opt locs_action) s.

Definition locs_checks (c : lchecks) : list loc :=
  lc_loc c :: locs_actions (lc_actions c) ++ locs_state (lc_state c).

Definition locs_sequence (s : lsequence) : list loc :=
  lq_loc s :: locs_actions (lq_actions s) ++ locs_state (lq_state s).

Definition locs_block (b : lblock) : list loc :=
  lk_loc b ::
  locs_opt locs_checks (lk_bypass b) ++ locs_opt locs_checks (lk_pre b) ++ locs_opt locs_checks (lk_cont b) ++
  locs_opt locs_checks (lk_post b) ++ locs_opt locs_checks (lk_deferred b) ++
  locs_slice (locs_opt locs_sequence) (lk_seqs b) ++ locs_state (lk_state b).

Definition locs_plan (p : lplan) : list loc :=
  lp_loc p :: lb_locs (lp_meta p) ++
  locs_opt locs_checks (lp_bypass p) ++ locs_opt locs_checks (lp_pre p) ++ locs_opt locs_checks (lp_cont p) ++
  locs_opt locs_checks (lp_post p) ++ locs_opt locs_checks (lp_deferred p) ++
  locs_slice (locs_opt locs_block) (lp_blocks p) ++ locs_state (lp_state p).

(* ------------------------------------------------------------------ the allocation monad *)

Definition M (A : Type) := nat -> A * nat.
Definition ret {A} (x : A) : M A := fun n => (x, n).
Definition bind {A B} (m : M A) (k : A -> M B) : M B := fun n => let (x, n') := m n in k x n'.
Definition fresh : M loc := fun n => (n, S n).

Notation "x <- m ;; k" := (bind m (fun x => k)) (at level 61, m at next level, right associativity).

Fixpoint mapM {A B} (f : A -> M B) (l : list A) : M (list B) :=
  match l with
  | [] => ret []
  | x :: r => y <- f x ;; ys <- mapM f r ;; ret (y :: ys)
  end.

Definition optM {A B} (f : A -> M B) (o : option A) : M (option B) :=
  match o with None => ret None | Some x => y <- f x ;; ret (Some y) end.

(* elements of a slice that ranges like an empty one when nil *)
Definition lolist {A} (s : lslice A) : list A := match s with None => [] | Some (_, l) => l end.

(* cloneState: &workflow.State{..} *)
Definition lclone_state (s : option lstate) : M (option lstate) :=
  match s with
  | None => ret None
  | Some s => l <- fresh ;; ret (Some {| ls_loc := l; ls_val := {| s_status := s_status (ls_val s); s_start := s_start (ls_val s); s_end := s_end (ls_val s) |} |})
  end.

(* cloneErr: &plugins.Error{..}, then the wrapped error *)
Fixpoint lclone_err (e : lperr) : M lperr :=
  match e with
  | LPErr _ c m p w =>
    l <- fresh ;;
    w' <- match w with None => ret None | Some x => y <- lclone_err x ;; ret (Some y) end ;;
    ret (LPErr l c m p w')
  end.

Section LModel.
  Variable reg : tok -> blob -> option (bool * bool).
  Variable ldeepcopy : lblob -> M lblob.
  Variable lscrub : lblob -> lblob.

  Definition lclone_attempt (t : lattempt) : M lattempt :=
    r <- ldeepcopy (lt_resp t) ;;
    e <- optM lclone_err (lt_err t) ;;
    l <- fresh ;;
    ret {| lt_loc := l; lt_resp := r; lt_err := e; lt_start := lt_start t; lt_end := lt_end t |}.

  Definition lclone_attempts (s : lslice lattempt) : M (lslice lattempt) :=
    match lolist s with
    | [] => ret None
    | xs => l <- fresh ;; ys <- mapM lclone_attempt xs ;; ret (Some (l, ys))
    end.

  Definition lclone_action_in (o : opts) (a : laction) : M laction :=
    let st := keep_state o in
    req <- ldeepcopy (la_req a) ;;
    l <- fresh ;;
    state <- (if st then lclone_state (la_state a) else ret None) ;;
    atts <- (if st then lclone_attempts (la_attempts a) else ret None) ;;
    ret {| la_loc := l;
           la_id := if st then la_id a else uid0; la_key := uid0;
           la_name := la_name a; la_descr := la_descr a; la_plugin := la_plugin a;
           la_timeout := la_timeout a; la_retries := la_retries a;
           la_req := req; la_attempts := atts; la_state := state;
           la_plugreg := reg (la_plugin a) (lb_val req) |}.

  Definition lclone_actions_in (o : opts) (s : lslice (option laction)) : M (lslice (option laction)) :=
    l <- fresh ;; ys <- mapM (optM (lclone_action_in o)) (lolist s) ;; ret (Some (l, ys)).

  Definition lclone_checks_in (o : opts) (c : lchecks) : M lchecks :=
    let st := keep_state o in
    l <- fresh ;;
    acts <- lclone_actions_in o (lc_actions c) ;;
    state <- (if st then lclone_state (lc_state c) else ret None) ;;
    ret {| lc_loc := l; lc_id := if st then lc_id c else uid0; lc_key := uid0; lc_delay := lc_delay c;
           lc_actions := acts; lc_state := state |}.

  (* the allocations happen even when the result is thrown away (nil returned for an empty sequence) *)
  Definition lclone_sequence_in (o : opts) (s : lsequence) : M (option lsequence) :=
    let st := keep_state o in
    l <- fresh ;;
    acts <- lclone_actions_in o (lq_actions s) ;;
    state <- (if st then lclone_state (lq_state s) else ret None) ;;
    ret (match lolist (lq_actions s) with
         | [] => None
         | _ :: _ => Some {| lq_loc := l; lq_id := if st then lq_id s else uid0; lq_key := uid0;
                             lq_name := lq_name s; lq_descr := lq_descr s;
                             lq_actions := acts; lq_state := state |}
         end).

  Definition lclone_seq_elem (o : opts) (e : option lsequence) : M (option lsequence) :=
    match e with None => ret None | Some s => lclone_sequence_in o s end.

  Definition somes {A} (l : list (option A)) : list (option A) :=
    map Some (filter_map (fun x => x) l).

  Definition lclone_block_in (o : opts) (b : lblock) : M lblock :=
    let st := keep_state o in
    l <- fresh ;;
    state <- (if st then lclone_state (lk_state b) else ret None) ;;
    by_ <- optM (lclone_checks_in o) (lk_bypass b) ;;
    pre <- optM (lclone_checks_in o) (lk_pre b) ;;
    cont <- optM (lclone_checks_in o) (lk_cont b) ;;
    post <- optM (lclone_checks_in o) (lk_post b) ;;
    def <- optM (lclone_checks_in o) (lk_deferred b) ;;
    sl <- fresh ;;
    seqs <- mapM (lclone_seq_elem o) (lolist (lk_seqs b)) ;;
    ret {| lk_loc := l; lk_id := if st then lk_id b else uid0; lk_key := uid0;
           lk_name := lk_name b; lk_descr := lk_descr b;
           lk_entrance := lk_entrance b; lk_exit := lk_exit b;
           lk_bypass := by_; lk_pre := pre; lk_cont := cont; lk_post := post; lk_deferred := def;
           lk_seqs := Some (sl, somes seqs);
           lk_conc := lk_conc b; lk_tol := lk_tol b; lk_state := state |}.

  (* make([]byte, len(p.Meta)); copy *)
  Definition lclone_meta (m : lblob) : M lblob :=
    l <- fresh ;; ret {| lb_val := meta_val (lb_val m); lb_locs := [l] |}.

  Definition lclone_plan_in (o : opts) (p : lplan) : M lplan :=
    let st := keep_state o in
    meta <- lclone_meta (lp_meta p) ;;
    l <- fresh ;;
    state <- (if st then lclone_state (lp_state p) else ret None) ;;
    by_ <- optM (lclone_checks_in o) (lp_bypass p) ;;
    pre <- optM (lclone_checks_in o) (lp_pre p) ;;
    cont <- optM (lclone_checks_in o) (lp_cont p) ;;
    post <- optM (lclone_checks_in o) (lp_post p) ;;
    def <- optM (lclone_checks_in o) (lp_deferred p) ;;
    sl <- fresh ;;
    blocks <- mapM (optM (lclone_block_in o)) (lolist (lp_blocks p)) ;;
    ret {| lp_loc := l; lp_id := if st then lp_id p else uid0; lp_group := lp_group p;
           lp_name := lp_name p; lp_descr := lp_descr p; lp_meta := meta;
           lp_bypass := by_; lp_pre := pre; lp_cont := cont; lp_post := post; lp_deferred := def;
           lp_blocks := Some (sl, somes blocks);
           lp_state := state;
           lp_submit := if st then lp_submit p else 0%Z;
           lp_reason := if st then lp_reason p else FRUnknown |}.

  (* ---- clone.Secure in place: no allocation that stays reachable except inside the scrubbed values ---- *)

  Definition lsecure_attempt (t : lattempt) : lattempt :=
    {| lt_loc := lt_loc t; lt_resp := lscrub (lt_resp t); lt_err := lt_err t; lt_start := lt_start t; lt_end := lt_end t |}.

  Definition lmap_slice {A} (f : A -> A) (s : lslice A) : lslice A :=
    match s with None => None | Some (l, xs) => Some (l, map f xs) end.

  Definition lsecure_action (a : laction) : laction :=
    let req := lscrub (la_req a) in
    {| la_loc := la_loc a; la_id := la_id a; la_key := la_key a;
       la_name := la_name a; la_descr := la_descr a; la_plugin := la_plugin a;
       la_timeout := la_timeout a; la_retries := la_retries a;
       la_req := req;
       la_attempts := lmap_slice lsecure_attempt (la_attempts a);
       la_state := la_state a;
       la_plugreg := reg (la_plugin a) (lb_val req) |}.

  Definition lsecure_actions (s : lslice (option laction)) := lmap_slice (option_map lsecure_action) s.

  Definition lsecure_checks (c : lchecks) : lchecks :=
    {| lc_loc := lc_loc c; lc_id := lc_id c; lc_key := lc_key c; lc_delay := lc_delay c;
       lc_actions := lsecure_actions (lc_actions c); lc_state := lc_state c |}.

  Definition lsecure_sequence (s : lsequence) : lsequence :=
    {| lq_loc := lq_loc s; lq_id := lq_id s; lq_key := lq_key s; lq_name := lq_name s; lq_descr := lq_descr s;
       lq_actions := lsecure_actions (lq_actions s); lq_state := lq_state s |}.

  Definition lsecure_block (b : lblock) : lblock :=
    {| lk_loc := lk_loc b; lk_id := lk_id b; lk_key := lk_key b; lk_name := lk_name b; lk_descr := lk_descr b;
       lk_entrance := lk_entrance b; lk_exit := lk_exit b;
       lk_bypass := option_map lsecure_checks (lk_bypass b); lk_pre := option_map lsecure_checks (lk_pre b);
       lk_cont := option_map lsecure_checks (lk_cont b); lk_post := option_map lsecure_checks (lk_post b);
       lk_deferred := option_map lsecure_checks (lk_deferred b);
       lk_seqs := lmap_slice (option_map lsecure_sequence) (lk_seqs b);
       lk_conc := lk_conc b; lk_tol := lk_tol b; lk_state := lk_state b |}.

  Definition lsecure_plan (p : lplan) : lplan :=
    {| lp_loc := lp_loc p; lp_id := lp_id p; lp_group := lp_group p; lp_name := lp_name p; lp_descr := lp_descr p;
       lp_meta := lp_meta p;
       lp_bypass := option_map lsecure_checks (lp_bypass p); lp_pre := option_map lsecure_checks (lp_pre p);
       lp_cont := option_map lsecure_checks (lp_cont p); lp_post := option_map lsecure_checks (lp_post p);
       lp_deferred := option_map lsecure_checks (lp_deferred p);
       lp_blocks := lmap_slice (option_map lsecure_block) (lp_blocks p);
       lp_state := lp_state p; lp_submit := lp_submit p; lp_reason := lp_reason p |}.

  (* ---- the five exported functions ---- *)

  Definition lclone_action (o : opts) (a : laction) : M laction :=
    r <- lclone_action_in o a ;; ret (if keep_secrets o then r else lsecure_action r).

  Definition lclone_checks (o : opts) (c : lchecks) : M lchecks :=
    r <- lclone_checks_in o c ;; ret (if keep_secrets o then r else lsecure_checks r).

  Definition lclone_sequence (o : opts) (s : lsequence) : M (option lsequence) :=
    r <- lclone_sequence_in o s ;;
    ret (match r with None => None | Some r => Some (if keep_secrets o then r else lsecure_sequence r) end).

  Definition lclone_block (o : opts) (b : lblock) : M lblock :=
    r <- lclone_block_in o b ;; ret (if keep_secrets o then r else lsecure_block r).

  Definition lclone_plan (o : opts) (p : lplan) : M lplan :=
    r <- lclone_plan_in o p ;; ret (if keep_secrets o then r else lsecure_plan r).
End LModel.

(* A concrete deep copy that meets the hypotheses of CloneLocProofs (so they are satisfiable): same value,
   as many inner nodes, all newly allocated. *)
Definition ldeepcopy_fresh (b : lblob) : M lblob :=
  fun n => ({| lb_val := lb_val b; lb_locs := seq n (length (lb_locs b)) |}, n + length (lb_locs b)).

Definition list_max (l : list nat) : nat := fold_right Nat.max 0 l.
