(* C18 - proofs about the allocating clone over labelled trees (CloneLoc.v):
   every lclone_* (i) never lowers the allocation counter, (ii) returns an object all of whose locations were
   allocated during the call, (iii) erases to the value-level clone_* of the erased argument.
   Consequence: a clone shares no location with anything that existed before the call. *)
From Coercion.Base Require Import Plan.
From Coercion.Clone Require Import Clone CloneSpec CloneLoc CloneProofs.
From Coq Require Import Lia.

Ltac split5 := split; [|split; [|split; [|split]]].

Definition inrange (n n' : nat) (l : list loc) : Prop := Forall (fun x => n <= x < n') l.

Lemma inrange_weaken a b a' b' l : inrange a b l -> a' <= a -> b <= b' -> inrange a' b' l.
Proof.
  unfold inrange. intros H Ha Hb. eapply Forall_impl; [|exact H]. cbv beta. intros x Hx. lia.
Qed.

Ltac rng :=
  unfold inrange;
  repeat match goal with
  | |- Forall _ (_ :: _) => apply Forall_cons; [cbv beta; lia|]
  | |- Forall _ (_ ++ _) => apply Forall_app; split
  | |- Forall _ [] => apply Forall_nil
  | H : inrange ?a ?b ?l |- Forall _ ?l => apply (inrange_weaken _ _ _ _ _ H); lia
  end.

(* the three facts about one monadic computation started at counter n *)
Definition ok {A B} (L : A -> list loc) (E : A -> B) (v : B) (r : A * nat) (n : nat) : Prop :=
  n <= snd r /\ inrange n (snd r) (L (fst r)) /\ E (fst r) = v.

Lemma mapM_ok {A B C} (f : A -> M B) (L : B -> list loc) (E : B -> C) (g : A -> C) :
  (forall a n, ok L E (g a) (f a n) n) ->
  forall l n, ok (flat_map L) (map E) (map g l) (mapM f l n) n.
Proof.
  intros H. induction l as [|a l IH]; intros n; simpl.
  - unfold ret, ok. simpl. repeat split; [lia|apply Forall_nil].
  - unfold bind. pose proof (H a n) as S1. destruct (f a n) as [y n1]. destruct S1 as (L1 & R1 & V1). simpl in *.
    pose proof (IH n1) as S2. destruct (mapM f l n1) as [ys n2]. destruct S2 as (L2 & R2 & V2). simpl in *.
    unfold ret, ok. simpl. repeat split; [lia| |now rewrite V1, V2]. rng.
Qed.

Lemma optM_ok {A B C} (f : A -> M B) (L : B -> list loc) (E : B -> C) (g : A -> C) :
  (forall a n, ok L E (g a) (f a n) n) ->
  forall o n, ok (locs_opt L) (option_map E) (option_map g o) (optM f o n) n.
Proof.
  intros H [a|] n; simpl.
  - unfold bind. pose proof (H a n) as S1. destruct (f a n) as [y n1]. destruct S1 as (L1 & R1 & V1). simpl in *.
    unfold ret, ok. simpl. repeat split; [lia|exact R1|now rewrite V1].
  - unfold ret, ok. simpl. repeat split; [lia|apply Forall_nil].
Qed.

Lemma lclone_state_ok s n : ok locs_state erase_state (clone_state (erase_state s)) (lclone_state s n) n.
Proof.
  destruct s as [[l [st a b]]|]; unfold ok; simpl; repeat split; try lia.
  - rng.
  - apply Forall_nil.
Qed.

Lemma lclone_err_ok : forall e n, ok locs_err erase_err (clone_err (erase_err e)) (lclone_err e n) n.
Proof.
  fix IH 1. intros [l c m p [w|]] n; simpl; unfold bind, fresh.
  - pose proof (IH w (S n)) as S1. destruct (lclone_err w (S n)) as [y n1]. destruct S1 as (L1 & R1 & V1). simpl in *.
    unfold ret, ok. simpl. repeat split; [lia| |now rewrite V1]. rng.
  - unfold ret, ok. simpl. repeat split; [lia|]. rng.
Qed.

Section LProofs.
  Variable reg : tok -> blob -> option (bool * bool).
  Variable scrub : blob -> blob.
  Variable deepcopy : blob -> blob.
  Variable ldeepcopy : lblob -> M lblob.
  Variable lscrub : lblob -> lblob.

  (* brunoga/deep on a labelled value: the copy is made of newly allocated nodes and has the value deepcopy gives *)
  Hypothesis ldeepcopy_fresh_val : forall b n, ok lb_locs lb_val (deepcopy (lb_val b)) (ldeepcopy b n) n.
  (* clone.Secure on a labelled value: the scrubbed value, and no node that was not already in the value
     (what it allocates for a struct held in an interface is not shared with anything) *)
  Hypothesis lscrub_val : forall b, lb_val (lscrub b) = scrub (lb_val b).
  Hypothesis lscrub_locs : forall b x, In x (lb_locs (lscrub b)) -> In x (lb_locs b).

  Notation lclone_attempt := (lclone_attempt ldeepcopy).
  Notation lclone_attempts := (lclone_attempts ldeepcopy).
  Notation lclone_action_in := (lclone_action_in reg ldeepcopy).
  Notation lclone_actions_in := (lclone_actions_in reg ldeepcopy).
  Notation lclone_checks_in := (lclone_checks_in reg ldeepcopy).
  Notation lclone_sequence_in := (lclone_sequence_in reg ldeepcopy).
  Notation lclone_seq_elem := (lclone_seq_elem reg ldeepcopy).
  Notation lclone_block_in := (lclone_block_in reg ldeepcopy).
  Notation lclone_plan_in := (lclone_plan_in reg ldeepcopy).

  Lemma lclone_attempt_ok t n :
    ok locs_attempt erase_attempt (clone_attempt deepcopy (erase_attempt t)) (lclone_attempt t n) n.
  Proof.
    unfold CloneLoc.lclone_attempt, bind.
    pose proof (ldeepcopy_fresh_val (lt_resp t) n) as S1. destruct (ldeepcopy (lt_resp t) n) as [r n1].
    destruct S1 as (L1 & R1 & V1). simpl in *.
    pose proof (optM_ok lclone_err locs_err erase_err (fun e => clone_err (erase_err e)) lclone_err_ok (lt_err t) n1) as S2.
    destruct (optM lclone_err (lt_err t) n1) as [e n2]. destruct S2 as (L2 & R2 & V2). simpl in *.
    unfold fresh, ret, ok. simpl. split; [lia|]. split.
    - unfold locs_attempt. simpl. rng.
    - unfold erase_attempt, clone_attempt. simpl. rewrite V1, V2. f_equal. now destruct (lt_err t).
  Qed.

  Lemma lclone_attempts_ok s n :
    ok (locs_slice locs_attempt) (erase_slice erase_attempt)
       (clone_attempts deepcopy (erase_slice erase_attempt s)) (lclone_attempts s n) n.
  Proof.
    unfold CloneLoc.lclone_attempts.
    destruct s as [[l [|t ts]]|]; cbn [lolist].
    - unfold ret, ok. simpl. repeat split; [lia|apply Forall_nil].
    - unfold bind, fresh.
      pose proof (mapM_ok lclone_attempt locs_attempt erase_attempt (fun t => clone_attempt deepcopy (erase_attempt t))
                    lclone_attempt_ok (t :: ts) (S n)) as S1.
      destruct (mapM lclone_attempt (t :: ts) (S n)) as [ys n1]. destruct S1 as (L1 & R1 & V1). simpl in *.
      unfold ret, ok. simpl. split; [lia|]. split; [rng|].
      rewrite V1. f_equal. f_equal. now rewrite map_map.
    - unfold ret, ok. simpl. repeat split; [lia|apply Forall_nil].
  Qed.

  Lemma ifstate_ok (st : bool) s n :
    ok locs_state erase_state (if st then clone_state (erase_state s) else None)
       ((if st then lclone_state s else ret None) n) n.
  Proof.
    destruct st; [apply lclone_state_ok|]. unfold ret, ok. simpl. repeat split; [lia|apply Forall_nil].
  Qed.

  Lemma ifattempts_ok (st : bool) s n :
    ok (locs_slice locs_attempt) (erase_slice erase_attempt)
       (if st then clone_attempts deepcopy (erase_slice erase_attempt s) else None)
       ((if st then lclone_attempts s else ret None) n) n.
  Proof.
    destruct st; [apply lclone_attempts_ok|]. unfold ret, ok. simpl. repeat split; [lia|apply Forall_nil].
  Qed.

  Lemma lclone_action_in_ok o a n :
    ok locs_action erase_action (clone_action_in reg deepcopy o (erase_action a)) (lclone_action_in o a n) n.
  Proof.
    unfold CloneLoc.lclone_action_in, bind.
    pose proof (ldeepcopy_fresh_val (la_req a) n) as S1. destruct (ldeepcopy (la_req a) n) as [r n1].
    destruct S1 as (L1 & R1 & V1). simpl in *. unfold fresh.
    pose proof (ifstate_ok (keep_state o) (la_state a) (S n1)) as S2.
    destruct ((if keep_state o then lclone_state (la_state a) else ret None) (S n1)) as [st n2].
    destruct S2 as (L2 & R2 & V2). simpl in *.
    pose proof (ifattempts_ok (keep_state o) (la_attempts a) n2) as S3.
    destruct ((if keep_state o then lclone_attempts (la_attempts a) else ret None) n2) as [ats n3].
    destruct S3 as (L3 & R3 & V3). simpl in *.
    unfold ret, ok. simpl. split; [lia|]. split.
    - unfold locs_action. simpl. rng.
    - unfold erase_action, clone_action_in. simpl. rewrite V1, V2, V3. reflexivity.
  Qed.

  Lemma lclone_actions_in_ok o s n :
    ok locs_actions erase_actions (clone_actions_in reg deepcopy o (erase_actions s)) (lclone_actions_in o s n) n.
  Proof.
    unfold CloneLoc.lclone_actions_in, bind, fresh.
    pose proof (mapM_ok (optM (lclone_action_in o)) (locs_opt locs_action) (option_map erase_action)
                  (option_map (fun a => clone_action_in reg deepcopy o (erase_action a)))
                  (optM_ok _ _ _ _ (lclone_action_in_ok o)) (lolist s) (S n)) as S1.
    destruct (mapM (optM (lclone_action_in o)) (lolist s) (S n)) as [ys n1]. destruct S1 as (L1 & R1 & V1). simpl in *.
    unfold ret, ok. simpl. split; [lia|]. split; [unfold locs_actions; simpl; rng|].
    unfold erase_actions, clone_actions_in. simpl. rewrite V1. f_equal.
    destruct s as [[l xs]|]; simpl; [|reflexivity].
    rewrite map_map. apply map_ext. intros [a|]; reflexivity.
  Qed.

  Lemma lclone_checks_in_ok o c n :
    ok locs_checks erase_checks (clone_checks_in reg deepcopy o (erase_checks c)) (lclone_checks_in o c n) n.
  Proof.
    unfold CloneLoc.lclone_checks_in, bind, fresh.
    pose proof (lclone_actions_in_ok o (lc_actions c) (S n)) as S1.
    destruct (lclone_actions_in o (lc_actions c) (S n)) as [acts n1]. destruct S1 as (L1 & R1 & V1). simpl in *.
    pose proof (ifstate_ok (keep_state o) (lc_state c) n1) as S2.
    destruct ((if keep_state o then lclone_state (lc_state c) else ret None) n1) as [st n2].
    destruct S2 as (L2 & R2 & V2). simpl in *.
    unfold ret, ok. simpl. split; [lia|]. split.
    - unfold locs_checks. simpl. rng.
    - unfold erase_checks, clone_checks_in. simpl. rewrite V1, V2. reflexivity.
  Qed.

  Lemma lclone_sequence_in_ok o s n :
    ok (locs_opt locs_sequence) (option_map erase_sequence)
       (clone_sequence_in reg deepcopy o (erase_sequence s)) (lclone_sequence_in o s n) n.
  Proof.
    unfold CloneLoc.lclone_sequence_in, bind, fresh.
    pose proof (lclone_actions_in_ok o (lq_actions s) (S n)) as S1.
    destruct (lclone_actions_in o (lq_actions s) (S n)) as [acts n1]. destruct S1 as (L1 & R1 & V1). simpl in *.
    pose proof (ifstate_ok (keep_state o) (lq_state s) n1) as S2.
    destruct ((if keep_state o then lclone_state (lq_state s) else ret None) n1) as [st n2].
    destruct S2 as (L2 & R2 & V2). simpl in *.
    unfold ret, ok. simpl. split; [lia|].
    unfold clone_sequence_in. simpl.
    assert (Hl : olist (erase_actions (lq_actions s)) = map (option_map erase_action) (lolist (lq_actions s))).
    { destruct (lq_actions s) as [[l xs]|]; reflexivity. }
    rewrite Hl. destruct (lolist (lq_actions s)) as [|x xs]; simpl.
    - split; [apply Forall_nil|reflexivity].
    - split; [unfold locs_sequence; simpl; rng|].
      unfold erase_sequence. simpl. rewrite V1, V2. reflexivity.
  Qed.

  Lemma lclone_seq_elem_ok o e n :
    ok (locs_opt locs_sequence) (option_map erase_sequence)
       (clone_seq_elem reg deepcopy o (option_map erase_sequence e)) (lclone_seq_elem o e n) n.
  Proof.
    destruct e as [s|]; simpl; [apply lclone_sequence_in_ok|].
    unfold ret, ok. simpl. repeat split; [lia|apply Forall_nil].
  Qed.

  (* the non-nil results, in order *)
  Lemma somes_locs {A} (L : A -> list loc) (l : list (option A)) n n' :
    inrange n n' (flat_map (locs_opt L) l) -> inrange n n' (flat_map (locs_opt L) (somes l)).
  Proof.
    unfold somes. induction l as [|[x|] l IH]; simpl; intros H.
    - exact H.
    - apply Forall_app in H as [H1 H2]. apply Forall_app. split; [exact H1|now apply IH].
    - now apply IH.
  Qed.

  Lemma somes_erase {A B} (E : A -> B) (l : list (option A)) :
    map (option_map E) (somes l) = map Some (filter_map (fun x => x) (map (option_map E) l)).
  Proof.
    unfold somes. induction l as [|[x|] l IH]; simpl; [reflexivity| |exact IH]. now rewrite IH.
  Qed.

  Lemma filter_map_map_id {A B} (f : A -> option B) (l : list A) :
    filter_map (fun x => x) (map f l) = filter_map f l.
  Proof. induction l as [|x l IH]; simpl; [reflexivity|]. destruct (f x); now rewrite IH. Qed.

  Lemma filter_map_map {A B C} (g : A -> B) (f : B -> option C) (l : list A) :
    filter_map f (map g l) = filter_map (fun x => f (g x)) l.
  Proof. induction l as [|x l IH]; simpl; [reflexivity|]. destruct (f (g x)); now rewrite IH. Qed.

  Lemma olist_erase_slice {A B} (E : A -> B) (s : lslice A) : olist (erase_slice E s) = map E (lolist s).
  Proof. destruct s as [[l xs]|]; reflexivity. Qed.

  Lemma optchecks_ok o g n :
    ok (locs_opt locs_checks) (option_map erase_checks)
       (option_map (clone_checks_in reg deepcopy o) (option_map erase_checks g))
       (optM (lclone_checks_in o) g n) n.
  Proof.
    pose proof (optM_ok (lclone_checks_in o) locs_checks erase_checks
                  (fun c => clone_checks_in reg deepcopy o (erase_checks c)) (lclone_checks_in_ok o) g n) as H.
    destruct g; exact H.
  Qed.

  Lemma lclone_block_in_ok o b n :
    ok locs_block erase_block (clone_block_in reg deepcopy o (erase_block b)) (lclone_block_in o b n) n.
  Proof.
    unfold CloneLoc.lclone_block_in, bind, fresh.
    pose proof (ifstate_ok (keep_state o) (lk_state b) (S n)) as S0.
    destruct ((if keep_state o then lclone_state (lk_state b) else ret None) (S n)) as [st n0].
    destruct S0 as (L0 & R0 & V0). simpl in *.
    pose proof (optchecks_ok o (lk_bypass b) n0) as S1.
    destruct (optM (lclone_checks_in o) (lk_bypass b) n0) as [g1 n1]. destruct S1 as (L1 & R1 & V1). simpl in *.
    pose proof (optchecks_ok o (lk_pre b) n1) as S2.
    destruct (optM (lclone_checks_in o) (lk_pre b) n1) as [g2 n2]. destruct S2 as (L2 & R2 & V2). simpl in *.
    pose proof (optchecks_ok o (lk_cont b) n2) as S3.
    destruct (optM (lclone_checks_in o) (lk_cont b) n2) as [g3 n3]. destruct S3 as (L3 & R3 & V3). simpl in *.
    pose proof (optchecks_ok o (lk_post b) n3) as S4.
    destruct (optM (lclone_checks_in o) (lk_post b) n3) as [g4 n4]. destruct S4 as (L4 & R4 & V4). simpl in *.
    pose proof (optchecks_ok o (lk_deferred b) n4) as S5.
    destruct (optM (lclone_checks_in o) (lk_deferred b) n4) as [g5 n5]. destruct S5 as (L5 & R5 & V5). simpl in *.
    pose proof (mapM_ok (lclone_seq_elem o) (locs_opt locs_sequence) (option_map erase_sequence)
                  (fun e => clone_seq_elem reg deepcopy o (option_map erase_sequence e))
                  (lclone_seq_elem_ok o) (lolist (lk_seqs b)) (S n5)) as S6.
    destruct (mapM (lclone_seq_elem o) (lolist (lk_seqs b)) (S n5)) as [ss n6]. destruct S6 as (L6 & R6 & V6). simpl in *.
    unfold ret, ok. simpl. split; [lia|]. split.
    - unfold locs_block. simpl. apply (somes_locs locs_sequence) in R6. rng.
    - unfold erase_block, clone_block_in. simpl. rewrite V0, V1, V2, V3, V4, V5. f_equal.
      unfold clone_seqs_in. f_equal. rewrite somes_erase, V6. f_equal.
      rewrite filter_map_map_id, olist_erase_slice, filter_map_map. reflexivity.
  Qed.

  Lemma lclone_plan_in_ok o p n :
    ok locs_plan erase_plan (clone_plan_in reg deepcopy o (erase_plan p)) (lclone_plan_in o p n) n.
  Proof.
    unfold CloneLoc.lclone_plan_in, lclone_meta, bind, fresh. simpl.
    pose proof (ifstate_ok (keep_state o) (lp_state p) (S (S n))) as S0.
    destruct ((if keep_state o then lclone_state (lp_state p) else ret None) (S (S n))) as [st n0].
    destruct S0 as (L0 & R0 & V0). simpl in *.
    pose proof (optchecks_ok o (lp_bypass p) n0) as S1.
    destruct (optM (lclone_checks_in o) (lp_bypass p) n0) as [g1 n1]. destruct S1 as (L1 & R1 & V1). simpl in *.
    pose proof (optchecks_ok o (lp_pre p) n1) as S2.
    destruct (optM (lclone_checks_in o) (lp_pre p) n1) as [g2 n2]. destruct S2 as (L2 & R2 & V2). simpl in *.
    pose proof (optchecks_ok o (lp_cont p) n2) as S3.
    destruct (optM (lclone_checks_in o) (lp_cont p) n2) as [g3 n3]. destruct S3 as (L3 & R3 & V3). simpl in *.
    pose proof (optchecks_ok o (lp_post p) n3) as S4.
    destruct (optM (lclone_checks_in o) (lp_post p) n3) as [g4 n4]. destruct S4 as (L4 & R4 & V4). simpl in *.
    pose proof (optchecks_ok o (lp_deferred p) n4) as S5.
    destruct (optM (lclone_checks_in o) (lp_deferred p) n4) as [g5 n5]. destruct S5 as (L5 & R5 & V5). simpl in *.
    pose proof (mapM_ok (optM (lclone_block_in o)) (locs_opt locs_block) (option_map erase_block)
                  (option_map (fun b => clone_block_in reg deepcopy o (erase_block b)))
                  (optM_ok _ _ _ _ (lclone_block_in_ok o)) (lolist (lp_blocks p)) (S n5)) as S6.
    destruct (mapM (optM (lclone_block_in o)) (lolist (lp_blocks p)) (S n5)) as [bs n6]. destruct S6 as (L6 & R6 & V6). simpl in *.
    unfold ret, ok. simpl. split; [lia|]. split.
    - unfold locs_plan. simpl. apply (somes_locs locs_block) in R6. rng.
    - unfold erase_plan, clone_plan_in. simpl. rewrite V0, V1, V2, V3, V4, V5. f_equal.
      unfold clone_blocks_in. f_equal. rewrite somes_erase, V6. f_equal.
      rewrite filter_map_map_id, olist_erase_slice, filter_map_map.
      apply filter_map_ext. intros [b|]; reflexivity.
  Qed.

  (* ---------------------------------------------------------------- clone.Secure: scrubbed values, no new location *)

  Lemma incl_cons2 {A} (a : A) l m : incl l m -> incl (a :: l) (a :: m).
  Proof. intros H x [<-|Hx]; [now left|right; now apply H]. Qed.

  Lemma incl_flat_map_map {A} (L : A -> list loc) (f : A -> A) (xs : list A) :
    (forall a, incl (L (f a)) (L a)) -> incl (flat_map L (map f xs)) (flat_map L xs).
  Proof.
    intros H. induction xs as [|a xs IH]; simpl; [apply incl_refl|]. now apply incl_app_app.
  Qed.

  Lemma incl_slice {A} (L : A -> list loc) (f : A -> A) (s : lslice A) :
    (forall a, incl (L (f a)) (L a)) -> incl (locs_slice L (lmap_slice f s)) (locs_slice L s).
  Proof.
    intros H. destruct s as [[l xs]|]; simpl; [|apply incl_refl].
    apply incl_cons2. now apply incl_flat_map_map.
  Qed.

  Lemma incl_opt {A} (L : A -> list loc) (f : A -> A) (o : option A) :
    (forall a, incl (L (f a)) (L a)) -> incl (locs_opt L (option_map f o)) (locs_opt L o).
  Proof. intros H. destruct o; simpl; [apply H|apply incl_refl]. Qed.

  Lemma Forall_incl' {A} (P : A -> Prop) l l' : incl l' l -> Forall P l -> Forall P l'.
  Proof. intros I H. apply Forall_forall. intros x Hx. rewrite Forall_forall in H. apply H, I, Hx. Qed.

  Notation lsecure_attempt := (lsecure_attempt lscrub).
  Notation lsecure_action := (lsecure_action reg lscrub).
  Notation lsecure_checks := (lsecure_checks reg lscrub).
  Notation lsecure_sequence := (lsecure_sequence reg lscrub).
  Notation lsecure_block := (lsecure_block reg lscrub).
  Notation lsecure_plan := (lsecure_plan reg lscrub).

  Lemma lsecure_attempt_locs t : incl (locs_attempt (lsecure_attempt t)) (locs_attempt t).
  Proof.
    unfold locs_attempt, CloneLoc.lsecure_attempt. simpl. apply incl_cons2. apply incl_app_app; [|apply incl_refl].
    intros x. apply lscrub_locs.
  Qed.

  Lemma lsecure_action_locs a : incl (locs_action (lsecure_action a)) (locs_action a).
  Proof.
    unfold locs_action, CloneLoc.lsecure_action. simpl. apply incl_cons2.
    apply incl_app_app; [intros x; apply lscrub_locs|].
    apply incl_app_app; [|apply incl_refl]. apply incl_slice. apply lsecure_attempt_locs.
  Qed.

  Lemma lsecure_actions_locs s : incl (locs_actions (lsecure_actions reg lscrub s)) (locs_actions s).
  Proof. apply incl_slice. intros e. apply incl_opt. apply lsecure_action_locs. Qed.

  Lemma lsecure_checks_locs c : incl (locs_checks (lsecure_checks c)) (locs_checks c).
  Proof.
    unfold locs_checks, CloneLoc.lsecure_checks. simpl. apply incl_cons2.
    apply incl_app_app; [apply lsecure_actions_locs|apply incl_refl].
  Qed.

  Lemma lsecure_sequence_locs s : incl (locs_sequence (lsecure_sequence s)) (locs_sequence s).
  Proof.
    unfold locs_sequence, CloneLoc.lsecure_sequence. simpl. apply incl_cons2.
    apply incl_app_app; [apply lsecure_actions_locs|apply incl_refl].
  Qed.

  Lemma lsecure_block_locs b : incl (locs_block (lsecure_block b)) (locs_block b).
  Proof.
    unfold locs_block, CloneLoc.lsecure_block. simpl. apply incl_cons2.
    repeat (apply incl_app_app; [apply incl_opt; apply lsecure_checks_locs|]).
    apply incl_app_app; [|apply incl_refl].
    apply incl_slice. intros e. apply incl_opt. apply lsecure_sequence_locs.
  Qed.

  Lemma lsecure_plan_locs p : incl (locs_plan (lsecure_plan p)) (locs_plan p).
  Proof.
    unfold locs_plan, CloneLoc.lsecure_plan. simpl. apply incl_cons2.
    apply incl_app_app; [apply incl_refl|].
    repeat (apply incl_app_app; [apply incl_opt; apply lsecure_checks_locs|]).
    apply incl_app_app; [|apply incl_refl].
    apply incl_slice. intros e. apply incl_opt. apply lsecure_block_locs.
  Qed.

  Lemma lsecure_attempts_erase s :
    erase_slice erase_attempt (lmap_slice lsecure_attempt s) =
    option_map (map (secure_attempt scrub)) (erase_slice erase_attempt s).
  Proof.
    destruct s as [[l xs]|]; simpl; [|reflexivity]. f_equal. rewrite !map_map. apply map_ext.
    intros t. unfold erase_attempt, secure_attempt, CloneLoc.lsecure_attempt. simpl. now rewrite lscrub_val.
  Qed.

  Lemma lsecure_action_erase a : erase_action (lsecure_action a) = secure_action reg scrub (erase_action a).
  Proof.
    unfold erase_action, secure_action, CloneLoc.lsecure_action. simpl.
    now rewrite lscrub_val, lsecure_attempts_erase.
  Qed.

  Lemma lsecure_actions_erase s :
    erase_actions (lsecure_actions reg lscrub s) = secure_actions reg scrub (erase_actions s).
  Proof.
    destruct s as [[l xs]|]; simpl; [|reflexivity]. unfold secure_actions. simpl. f_equal. rewrite !map_map.
    apply map_ext. intros [a|]; simpl; [|reflexivity]. now rewrite lsecure_action_erase.
  Qed.

  Lemma lsecure_checks_erase c : erase_checks (lsecure_checks c) = secure_checks reg scrub (erase_checks c).
  Proof. unfold erase_checks, secure_checks, CloneLoc.lsecure_checks. simpl. now rewrite lsecure_actions_erase. Qed.

  Lemma lsecure_ochecks_erase g :
    option_map erase_checks (option_map lsecure_checks g) = option_map (secure_checks reg scrub) (option_map erase_checks g).
  Proof. destruct g; simpl; [|reflexivity]. now rewrite lsecure_checks_erase. Qed.

  Lemma lsecure_sequence_erase s : erase_sequence (lsecure_sequence s) = secure_sequence reg scrub (erase_sequence s).
  Proof. unfold erase_sequence, secure_sequence, CloneLoc.lsecure_sequence. simpl. now rewrite lsecure_actions_erase. Qed.

  Lemma lsecure_block_erase b : erase_block (lsecure_block b) = secure_block reg scrub (erase_block b).
  Proof.
    unfold erase_block, secure_block, CloneLoc.lsecure_block. simpl. rewrite !lsecure_ochecks_erase. f_equal.
    destruct (lk_seqs b) as [[l xs]|]; simpl; [|reflexivity]. f_equal. rewrite !map_map.
    apply map_ext. intros [s|]; simpl; [|reflexivity]. now rewrite lsecure_sequence_erase.
  Qed.

  Lemma lsecure_plan_erase p : erase_plan (lsecure_plan p) = secure_plan reg scrub (erase_plan p).
  Proof.
    unfold erase_plan, secure_plan, CloneLoc.lsecure_plan. simpl. rewrite !lsecure_ochecks_erase. f_equal.
    destruct (lp_blocks p) as [[l xs]|]; simpl; [|reflexivity]. f_equal. rewrite !map_map.
    apply map_ext. intros [b|]; simpl; [|reflexivity]. now rewrite lsecure_block_erase.
  Qed.

  (* ---------------------------------------------------------------- the five exported functions *)

  Notation lclone_action := (lclone_action reg ldeepcopy lscrub).
  Notation lclone_checks := (lclone_checks reg ldeepcopy lscrub).
  Notation lclone_sequence := (lclone_sequence reg ldeepcopy lscrub).
  Notation lclone_block := (lclone_block reg ldeepcopy lscrub).
  Notation lclone_plan := (lclone_plan reg ldeepcopy lscrub).

  Lemma lclone_action_ok o a n :
    ok locs_action erase_action (clone_action reg scrub deepcopy o (erase_action a)) (lclone_action o a n) n.
  Proof.
    unfold CloneLoc.lclone_action, bind.
    pose proof (lclone_action_in_ok o a n) as S1. destruct (lclone_action_in o a n) as [r n1].
    destruct S1 as (L1 & R1 & V1). simpl in *. unfold ret, ok, clone_action. simpl. rewrite <- V1.
    split; [exact L1|]. destruct (keep_secrets o); split; try assumption; try reflexivity.
    - exact (Forall_incl' _ _ _ (lsecure_action_locs r) R1).
    - apply lsecure_action_erase.
  Qed.

  Lemma lclone_checks_ok o c n :
    ok locs_checks erase_checks (clone_checks reg scrub deepcopy o (erase_checks c)) (lclone_checks o c n) n.
  Proof.
    unfold CloneLoc.lclone_checks, bind.
    pose proof (lclone_checks_in_ok o c n) as S1. destruct (lclone_checks_in o c n) as [r n1].
    destruct S1 as (L1 & R1 & V1). simpl in *. unfold ret, ok, clone_checks. simpl. rewrite <- V1.
    split; [exact L1|]. destruct (keep_secrets o); split; try assumption; try reflexivity.
    - exact (Forall_incl' _ _ _ (lsecure_checks_locs r) R1).
    - apply lsecure_checks_erase.
  Qed.

  Lemma lclone_sequence_ok o s n :
    ok (locs_opt locs_sequence) (option_map erase_sequence)
       (clone_sequence reg scrub deepcopy o (erase_sequence s)) (lclone_sequence o s n) n.
  Proof.
    unfold CloneLoc.lclone_sequence, bind.
    pose proof (lclone_sequence_in_ok o s n) as S1. destruct (lclone_sequence_in o s n) as [r n1].
    destruct S1 as (L1 & R1 & V1). simpl in *. unfold ret, ok, clone_sequence. simpl. rewrite <- V1.
    split; [exact L1|]. destruct r as [r|]; simpl; [|split; [apply Forall_nil|reflexivity]].
    destruct (keep_secrets o); split; try assumption; try reflexivity.
    - exact (Forall_incl' _ _ _ (lsecure_sequence_locs r) R1).
    - f_equal. apply lsecure_sequence_erase.
  Qed.

  Lemma lclone_block_ok o b n :
    ok locs_block erase_block (clone_block reg scrub deepcopy o (erase_block b)) (lclone_block o b n) n.
  Proof.
    unfold CloneLoc.lclone_block, bind.
    pose proof (lclone_block_in_ok o b n) as S1. destruct (lclone_block_in o b n) as [r n1].
    destruct S1 as (L1 & R1 & V1). simpl in *. unfold ret, ok, clone_block. simpl. rewrite <- V1.
    split; [exact L1|]. destruct (keep_secrets o); split; try assumption; try reflexivity.
    - exact (Forall_incl' _ _ _ (lsecure_block_locs r) R1).
    - apply lsecure_block_erase.
  Qed.

  Lemma lclone_plan_ok o p n :
    ok locs_plan erase_plan (clone_plan reg scrub deepcopy o (erase_plan p)) (lclone_plan o p n) n.
  Proof.
    unfold CloneLoc.lclone_plan, bind.
    pose proof (lclone_plan_in_ok o p n) as S1. destruct (lclone_plan_in o p n) as [r n1].
    destruct S1 as (L1 & R1 & V1). simpl in *. unfold ret, ok, clone_plan. simpl. rewrite <- V1.
    split; [exact L1|]. destruct (keep_secrets o); split; try assumption; try reflexivity.
    - exact (Forall_incl' _ _ _ (lsecure_plan_locs r) R1).
    - apply lsecure_plan_erase.
  Qed.

  (* ================================================================ refinement and no sharing *)

  (* the allocating clone computes the value-level clone *)
  Theorem lclone_refines : forall o n,
    (forall p, erase_plan (fst (lclone_plan o p n)) = clone_plan reg scrub deepcopy o (erase_plan p)) /\
    (forall b, erase_block (fst (lclone_block o b n)) = clone_block reg scrub deepcopy o (erase_block b)) /\
    (forall s, option_map erase_sequence (fst (lclone_sequence o s n)) = clone_sequence reg scrub deepcopy o (erase_sequence s)) /\
    (forall c, erase_checks (fst (lclone_checks o c n)) = clone_checks reg scrub deepcopy o (erase_checks c)) /\
    (forall a, erase_action (fst (lclone_action o a n)) = clone_action reg scrub deepcopy o (erase_action a)).
  Proof.
    intros o n. split5; intros x.
    - apply (lclone_plan_ok o x n). - apply (lclone_block_ok o x n). - apply (lclone_sequence_ok o x n).
    - apply (lclone_checks_ok o x n). - apply (lclone_action_ok o x n).
  Qed.

  Lemma fresh_disjoint (old new : list loc) n n' :
    (forall l, In l old -> l < n) -> inrange n n' new -> forall l, In l new -> ~ In l old.
  Proof.
    intros Hold Hnew l Hl Hl'. unfold inrange in Hnew. rewrite Forall_forall in Hnew.
    specialize (Hnew l Hl). specialize (Hold l Hl'). lia.
  Qed.

  (* every location of a clone was allocated during the call: none existed before (counter n), in particular
     none belongs to the original *)
  Theorem no_sharing : forall o n (old : list loc), (forall l, In l old -> l < n) ->
    (forall p l, In l (locs_plan (fst (lclone_plan o p n))) -> ~ In l old) /\
    (forall b l, In l (locs_block (fst (lclone_block o b n))) -> ~ In l old) /\
    (forall s l, In l (locs_opt locs_sequence (fst (lclone_sequence o s n))) -> ~ In l old) /\
    (forall c l, In l (locs_checks (fst (lclone_checks o c n))) -> ~ In l old) /\
    (forall a l, In l (locs_action (fst (lclone_action o a n))) -> ~ In l old).
  Proof.
    intros o n old Hold. split5; intros x.
    - destruct (lclone_plan_ok o x n) as (_ & R & _). exact (fresh_disjoint _ _ _ _ Hold R).
    - destruct (lclone_block_ok o x n) as (_ & R & _). exact (fresh_disjoint _ _ _ _ Hold R).
    - destruct (lclone_sequence_ok o x n) as (_ & R & _). exact (fresh_disjoint _ _ _ _ Hold R).
    - destruct (lclone_checks_ok o x n) as (_ & R & _). exact (fresh_disjoint _ _ _ _ Hold R).
    - destruct (lclone_action_ok o x n) as (_ & R & _). exact (fresh_disjoint _ _ _ _ Hold R).
  Qed.
End LProofs.

(* ------------------------------------------------------------------ the hypotheses are satisfiable *)

Lemma ldeepcopy_fresh_ok : forall b n, ok lb_locs lb_val ((fun v => v) (lb_val b)) (ldeepcopy_fresh b n) n.
Proof.
  intros b n. unfold ldeepcopy_fresh, ok. simpl. split; [lia|]. split; [|reflexivity].
  apply Forall_forall. intros x Hx. apply in_seq in Hx. lia.
Qed.

Definition lscrub_of (scrub : blob -> blob) (b : lblob) : lblob := {| lb_val := scrub (lb_val b); lb_locs := lb_locs b |}.

Lemma list_max_lt (l : list nat) x : In x l -> x < S (list_max l).
Proof.
  unfold list_max. induction l as [|y l IH]; simpl; [intros []|].
  intros [<-|H]; [lia|]. specialize (IH H). lia.
Qed.
