(* C18 - proofs about the value-level model (Clone.v) against the specification vocabulary (CloneSpec.v). *)
From Coercion.Base Require Import Plan.
From Coercion.Clone Require Import Clone CloneSpec.
From Coq Require Import Lia.

(* ------------------------------------------------------------------ list / option helpers *)

Lemma map_omap_some {A B} (f : A -> B) (l : list A) :
  map (option_map f) (map Some l) = map Some (map f l).
Proof. induction l as [|x l IH]; simpl; [reflexivity|]. now rewrite IH. Qed.

Lemma map_filter_map {A B C} (f : B -> C) (g : A -> option B) (l : list A) :
  map f (filter_map g l) = filter_map (fun x => option_map f (g x)) l.
Proof.
  induction l as [|x l IH]; simpl; [reflexivity|].
  destruct (g x); simpl; now rewrite IH.
Qed.

Lemma filter_map_ext {A B} (f g : A -> option B) (l : list A) :
  (forall x, f x = g x) -> filter_map f l = filter_map g l.
Proof.
  intros H. induction l as [|x l IH]; simpl; [reflexivity|]. now rewrite H, IH.
Qed.

Lemma filter_map_some {A} (l : list A) : filter_map (fun x => Some x) l = l.
Proof. induction l as [|x l IH]; simpl; [reflexivity|]. now rewrite IH. Qed.

Lemma option_map_comp {A B C} (f : B -> C) (g : A -> B) (x : option A) :
  option_map f (option_map g x) = option_map (fun y => f (g y)) x.
Proof. now destruct x. Qed.

Lemma option_map_ext' {A B} (f g : A -> B) (x : option A) :
  (forall y, f y = g y) -> option_map f x = option_map g x.
Proof. intros H. destruct x; simpl; [now rewrite H|reflexivity]. Qed.

Lemma option_map_id' {A} (f : A -> A) (x : option A) :
  (forall y, f y = y) -> option_map f x = x.
Proof. intros H. destruct x; simpl; [now rewrite H|reflexivity]. Qed.

Lemma map_id' {A} (f : A -> A) (l : list A) : (forall y, f y = y) -> map f l = l.
Proof. intros H. induction l as [|x l IH]; simpl; [reflexivity|]. now rewrite H, IH. Qed.

Lemma map_omap_ext {A B} (f g : A -> B) (l : list (option A)) :
  (forall a, f a = g a) -> map (option_map f) l = map (option_map g) l.
Proof. intros H. apply map_ext. intros x. now apply option_map_ext'. Qed.

Ltac split5 := split; [|split; [|split; [|split]]].

Ltac proj :=
  cbn [a_id a_key a_name a_descr a_plugin a_timeout a_retries a_req a_attempts a_state a_plugreg
       c_id c_key c_delay c_actions c_state
       q_id q_key q_name q_descr q_actions q_state
       b_id b_key b_name b_descr b_entrance b_exit b_bypass b_pre b_cont b_post b_deferred b_seqs b_conc b_tol b_state
       p_id p_group p_name p_descr p_meta p_bypass p_pre p_cont p_post p_deferred p_blocks p_state p_submit p_reason
       at_resp at_err at_start at_end keep_state keep_secrets].

(* ------------------------------------------------------------------ cloneState / cloneErr / cloneAttempts copy *)

Lemma meta_val_idem b : meta_val (meta_val b) = meta_val b.
Proof. unfold meta_val. destruct (bl_nil b) eqn:E; [reflexivity|now rewrite E]. Qed.

Lemma clone_state_id s : clone_state s = s.
Proof. destruct s as [[st a b]|]; reflexivity. Qed.

Lemma clone_err_id : forall e, clone_err e = e.
Proof.
  fix IH 1. intros [c m p [w|]]; simpl; [rewrite IH|]; reflexivity.
Qed.

Section Proofs.
  Variable reg : tok -> blob -> option (bool * bool).
  Variable scrub : blob -> blob.
  Variable deepcopy : blob -> blob.
  (* brunoga/deep: the copy has the same value *)
  Hypothesis deepcopy_val : forall b, deepcopy b = b.

  Notation clone_action := (clone_action reg scrub deepcopy).
  Notation clone_checks := (clone_checks reg scrub deepcopy).
  Notation clone_sequence := (clone_sequence reg scrub deepcopy).
  Notation clone_block := (clone_block reg scrub deepcopy).
  Notation clone_plan := (clone_plan reg scrub deepcopy).
  Notation clone_action_in := (clone_action_in reg deepcopy).
  Notation clone_actions_in := (clone_actions_in reg deepcopy).
  Notation clone_checks_in := (clone_checks_in reg deepcopy).
  Notation clone_sequence_in := (clone_sequence_in reg deepcopy).
  Notation clone_seq_elem := (clone_seq_elem reg deepcopy).
  Notation clone_block_in := (clone_block_in reg deepcopy).
  Notation clone_plan_in := (clone_plan_in reg deepcopy).
  Notation secure_action := (secure_action reg scrub).
  Notation secure_actions := (secure_actions reg scrub).
  Notation secure_checks := (secure_checks reg scrub).
  Notation secure_sequence := (secure_sequence reg scrub).
  Notation secure_block := (secure_block reg scrub).
  Notation secure_plan := (secure_plan reg scrub).
  Notation sf := (sf scrub).

  Lemma clone_attempt_id t : clone_attempt deepcopy t = t.
  Proof.
    destruct t as [r e s n]. unfold clone_attempt. proj. rewrite deepcopy_val.
    f_equal. apply option_map_id'. apply clone_err_id.
  Qed.

  Lemma clone_attempts_norm l : clone_attempts deepcopy l = norm_attempts l.
  Proof.
    destruct l as [[|t l]|]; try reflexivity.
    unfold clone_attempts, norm_attempts. f_equal. apply map_id'. apply clone_attempt_id.
  Qed.

  (* ---------------------------------------------------------------- structural equations of the five functions:
     each exported function is its body with the exported functions on the children (the Secure pass at
     the top of the call stack distributes over the tree) *)

  Definition clone_actions (o : opts) (l : option (list (option action))) : option (list (option action)) :=
    Some (map (option_map (clone_action o)) (olist l)).

  Definition clone_seq_elem_top (o : opts) (e : option sequence) : option sequence :=
    match e with None => None | Some s => clone_sequence o s end.

  Lemma clone_actions_eq o l :
    (if keep_secrets o then clone_actions_in o l else secure_actions (clone_actions_in o l)) = clone_actions o l.
  Proof.
    unfold clone_actions, Clone.clone_action, Clone.clone_actions_in, Clone.secure_actions.
    destruct (keep_secrets o); [reflexivity|].
    simpl. f_equal. rewrite map_map. apply map_ext. intros [a|]; reflexivity.
  Qed.

  Lemma clone_checks_eq o c :
    clone_checks o c =
    {| c_id := if keep_state o then c_id c else uid0; c_key := uid0; c_delay := c_delay c;
       c_actions := clone_actions o (c_actions c);
       c_state := if keep_state o then clone_state (c_state c) else None |}.
  Proof.
    rewrite <- clone_actions_eq. unfold Clone.clone_checks, Clone.clone_checks_in, Clone.secure_checks.
    destruct (keep_secrets o); reflexivity.
  Qed.

  Lemma clone_ochecks_eq o g :
    (if keep_secrets o then option_map (clone_checks_in o) g else option_map secure_checks (option_map (clone_checks_in o) g))
    = option_map (clone_checks o) g.
  Proof.
    unfold Clone.clone_checks. destruct (keep_secrets o); destruct g; reflexivity.
  Qed.

  Lemma clone_sequence_eq o s :
    clone_sequence o s =
    match olist (q_actions s) with
    | [] => None
    | _ :: _ => Some {| q_id := if keep_state o then q_id s else uid0; q_key := uid0;
                        q_name := q_name s; q_descr := q_descr s;
                        q_actions := clone_actions o (q_actions s);
                        q_state := if keep_state o then clone_state (q_state s) else None |}
    end.
  Proof.
    rewrite <- clone_actions_eq. unfold Clone.clone_sequence, Clone.clone_sequence_in, Clone.secure_sequence.
    destruct (olist (q_actions s)); [reflexivity|].
    destruct (keep_secrets o); reflexivity.
  Qed.

  Lemma clone_seq_elem_eq o e :
    (if keep_secrets o then clone_seq_elem o e else option_map secure_sequence (clone_seq_elem o e))
    = clone_seq_elem_top o e.
  Proof.
    destruct e as [s|]; simpl; [|destruct (keep_secrets o); reflexivity].
    unfold Clone.clone_sequence. destruct (clone_sequence_in o s); destruct (keep_secrets o); reflexivity.
  Qed.

  Definition clone_seqs (o : opts) (l : option (list (option sequence))) : option (list (option sequence)) :=
    Some (map Some (filter_map (clone_seq_elem_top o) (olist l))).

  Lemma clone_seqs_eq o l :
    (if keep_secrets o then clone_seqs_in reg deepcopy o l
     else option_map (map (option_map secure_sequence)) (clone_seqs_in reg deepcopy o l)) = clone_seqs o l.
  Proof.
    unfold clone_seqs, Clone.clone_seqs_in.
    destruct (keep_secrets o) eqn:K.
    - f_equal. f_equal. apply filter_map_ext. intros e. rewrite <- clone_seq_elem_eq. now rewrite K.
    - simpl. f_equal. rewrite map_omap_some. f_equal. rewrite map_filter_map.
      apply filter_map_ext. intros e. rewrite <- clone_seq_elem_eq. now rewrite K.
  Qed.

  Lemma clone_block_eq o b :
    clone_block o b =
    {| b_id := if keep_state o then b_id b else uid0; b_key := uid0;
       b_name := b_name b; b_descr := b_descr b; b_entrance := b_entrance b; b_exit := b_exit b;
       b_bypass := option_map (clone_checks o) (b_bypass b);
       b_pre := option_map (clone_checks o) (b_pre b);
       b_cont := option_map (clone_checks o) (b_cont b);
       b_post := option_map (clone_checks o) (b_post b);
       b_deferred := option_map (clone_checks o) (b_deferred b);
       b_seqs := clone_seqs o (b_seqs b);
       b_conc := b_conc b; b_tol := b_tol b;
       b_state := if keep_state o then clone_state (b_state b) else None |}.
  Proof.
    rewrite <- clone_seqs_eq, <- !clone_ochecks_eq.
    unfold Clone.clone_block, Clone.clone_block_in, Clone.secure_block.
    destruct (keep_secrets o); reflexivity.
  Qed.

  Definition clone_blocks (o : opts) (l : option (list (option block))) : option (list (option block)) :=
    Some (map Some (filter_map (option_map (clone_block o)) (olist l))).

  Lemma clone_blocks_eq o l :
    (if keep_secrets o then clone_blocks_in reg deepcopy o l
     else option_map (map (option_map secure_block)) (clone_blocks_in reg deepcopy o l)) = clone_blocks o l.
  Proof.
    unfold clone_blocks, Clone.clone_blocks_in, Clone.clone_block.
    destruct (keep_secrets o).
    - reflexivity.
    - simpl. f_equal. rewrite map_omap_some. f_equal. rewrite map_filter_map.
      apply filter_map_ext. intros e. now rewrite option_map_comp.
  Qed.

  Lemma clone_plan_eq o p :
    clone_plan o p =
    {| p_id := if keep_state o then p_id p else uid0; p_group := p_group p;
       p_name := p_name p; p_descr := p_descr p; p_meta := meta_val (p_meta p);
       p_bypass := option_map (clone_checks o) (p_bypass p);
       p_pre := option_map (clone_checks o) (p_pre p);
       p_cont := option_map (clone_checks o) (p_cont p);
       p_post := option_map (clone_checks o) (p_post p);
       p_deferred := option_map (clone_checks o) (p_deferred p);
       p_blocks := clone_blocks o (p_blocks p);
       p_state := if keep_state o then clone_state (p_state p) else None;
       p_submit := if keep_state o then p_submit p else 0%Z;
       p_reason := if keep_state o then p_reason p else FRUnknown |}.
  Proof.
    rewrite <- clone_blocks_eq, <- !clone_ochecks_eq.
    unfold Clone.clone_plan, Clone.clone_plan_in, Clone.secure_plan.
    destruct (keep_secrets o); reflexivity.
  Qed.

  (* ---------------------------------------------------------------- c18_defn_preserved *)

  Lemma defn_clone_action o a :
    defn_action (clone_action o a) = reqmap_action (sf o) (nokeys_action (defn_action (norm_action a))).
  Proof.
    destruct a. unfold Clone.clone_action, Clone.clone_action_in, Clone.secure_action, CloneSpec.sf.
    destruct (keep_secrets o); unfold defn_action, reqmap_action, nokeys_action, norm_action; proj;
      rewrite deepcopy_val; reflexivity.
  Qed.

  Lemma defn_clone_actions o l :
    defn_actions (clone_actions o l) =
    amap_actions (reqmap_action (sf o)) (nokeys_actions (defn_actions (norm_actions l))).
  Proof.
    unfold clone_actions, defn_actions, amap_actions, nokeys_actions, norm_actions. simpl. f_equal.
    rewrite !map_map. apply map_ext. intros [a|]; simpl; [|reflexivity].
    f_equal. apply defn_clone_action.
  Qed.

  Lemma defn_clone_checks o c :
    defn_checks (clone_checks o c) = reqmap_checks (sf o) (nokeys_checks (defn_checks (norm_checks c))).
  Proof.
    rewrite clone_checks_eq.
    unfold defn_checks, reqmap_checks, amap_checks, nokeys_checks, norm_checks. proj.
    f_equal. apply defn_clone_actions.
  Qed.

  Lemma defn_clone_ochecks o g :
    option_map defn_checks (option_map (clone_checks o) g) =
    option_map (amap_checks (reqmap_action (sf o))) (option_map nokeys_checks (option_map defn_checks (option_map norm_checks g))).
  Proof. destruct g as [c|]; simpl; [|reflexivity]. f_equal. apply defn_clone_checks. Qed.

  Lemma defn_clone_sequence o s :
    option_map defn_sequence (clone_sequence o s) =
    option_map (fun s => reqmap_sequence (sf o) (nokeys_sequence (defn_sequence s))) (norm_sequence s).
  Proof.
    rewrite clone_sequence_eq. unfold norm_sequence.
    destruct (olist (q_actions s)); [reflexivity|]. simpl. f_equal.
    unfold defn_sequence, reqmap_sequence, amap_sequence, nokeys_sequence. proj.
    f_equal. apply defn_clone_actions.
  Qed.

  Lemma defn_clone_seqs o l :
    option_map (map (option_map defn_sequence)) (clone_seqs o l) =
    option_map (map (option_map (amap_sequence (reqmap_action (sf o)))))
      (option_map (map (option_map nokeys_sequence))
        (option_map (map (option_map defn_sequence))
          (Some (map Some (filter_map norm_seq_elem (olist l)))))).
  Proof.
    unfold clone_seqs. simpl. f_equal. rewrite !map_omap_some. f_equal.
    rewrite !map_map. rewrite !map_filter_map. apply filter_map_ext.
    intros [s|]; simpl; [|reflexivity].
    rewrite defn_clone_sequence. reflexivity.
  Qed.

  Lemma defn_clone_block o b :
    defn_block (clone_block o b) = reqmap_block (sf o) (nokeys_block (defn_block (norm_block b))).
  Proof.
    rewrite clone_block_eq.
    unfold defn_block, reqmap_block, amap_block, nokeys_block, norm_block. proj.
    rewrite !defn_clone_ochecks, defn_clone_seqs. reflexivity.
  Qed.

  Lemma defn_clone_blocks o l :
    option_map (map (option_map defn_block)) (clone_blocks o l) =
    option_map (map (option_map (amap_block (reqmap_action (sf o)))))
      (option_map (map (option_map nokeys_block))
        (option_map (map (option_map defn_block))
          (Some (map Some (filter_map (option_map norm_block) (olist l)))))).
  Proof.
    unfold clone_blocks. simpl. f_equal. rewrite !map_omap_some. f_equal.
    rewrite !map_map. rewrite !map_filter_map. apply filter_map_ext.
    intros [b|]; simpl; [|reflexivity].
    f_equal. apply defn_clone_block.
  Qed.

  Lemma defn_clone_plan o p :
    defn_plan (clone_plan o p) = reqmap_plan (sf o) (nokeys_plan (defn_plan (norm_plan p))).
  Proof.
    rewrite clone_plan_eq.
    unfold defn_plan, reqmap_plan, amap_plan, nokeys_plan, norm_plan. proj.
    rewrite !defn_clone_ochecks, defn_clone_blocks, meta_val_idem. reflexivity.
  Qed.

  (* ---------------------------------------------------------------- c18_keepstate *)

  Lemma state_clone_action o a :
    keep_state o = true ->
    state_action (clone_action o a) = respmap_action (sf o) (state_action (norm_action a)).
  Proof.
    intros K. destruct a.
    unfold Clone.clone_action, Clone.clone_action_in, Clone.secure_action, CloneSpec.sf. rewrite K.
    destruct (keep_secrets o); unfold state_action, respmap_action, norm_action; proj;
      rewrite clone_state_id, clone_attempts_norm.
    - f_equal. symmetry. destruct (norm_attempts a_attempts); simpl; [|reflexivity].
      f_equal. apply map_id'. intros [r e s n]; reflexivity.
    - reflexivity.
  Qed.

  Lemma state_clone_actions o l :
    keep_state o = true ->
    state_actions (clone_actions o l) = amap_actions (respmap_action (sf o)) (state_actions (norm_actions l)).
  Proof.
    intros K. unfold clone_actions, state_actions, amap_actions, norm_actions. simpl. f_equal.
    rewrite !map_map. apply map_ext. intros [a|]; simpl; [|reflexivity].
    f_equal. now apply state_clone_action.
  Qed.

  Lemma state_clone_checks o c :
    keep_state o = true ->
    state_checks (clone_checks o c) = respmap_checks (sf o) (state_checks (norm_checks c)).
  Proof.
    intros K. rewrite clone_checks_eq. rewrite K.
    unfold state_checks, respmap_checks, amap_checks, norm_checks. proj.
    rewrite clone_state_id. f_equal. now apply state_clone_actions.
  Qed.

  Lemma state_clone_ochecks o g :
    keep_state o = true ->
    option_map state_checks (option_map (clone_checks o) g) =
    option_map (amap_checks (respmap_action (sf o))) (option_map state_checks (option_map norm_checks g)).
  Proof. intros K. destruct g as [c|]; simpl; [|reflexivity]. f_equal. now apply state_clone_checks. Qed.

  Lemma state_clone_sequence o s :
    keep_state o = true ->
    option_map state_sequence (clone_sequence o s) =
    option_map (fun s => respmap_sequence (sf o) (state_sequence s)) (norm_sequence s).
  Proof.
    intros K. rewrite clone_sequence_eq. unfold norm_sequence. rewrite K.
    destruct (olist (q_actions s)); [reflexivity|]. simpl. f_equal.
    unfold state_sequence, respmap_sequence, amap_sequence. proj.
    rewrite clone_state_id. f_equal. now apply state_clone_actions.
  Qed.

  Lemma state_clone_seqs o l :
    keep_state o = true ->
    option_map (map (option_map state_sequence)) (clone_seqs o l) =
    option_map (map (option_map (amap_sequence (respmap_action (sf o)))))
      (option_map (map (option_map state_sequence))
        (Some (map Some (filter_map norm_seq_elem (olist l))))).
  Proof.
    intros K. unfold clone_seqs. simpl. f_equal. rewrite !map_omap_some. f_equal.
    rewrite !map_map. rewrite !map_filter_map. apply filter_map_ext.
    intros [s|]; simpl; [|reflexivity].
    rewrite state_clone_sequence by exact K. reflexivity.
  Qed.

  Lemma state_clone_block o b :
    keep_state o = true ->
    state_block (clone_block o b) = respmap_block (sf o) (state_block (norm_block b)).
  Proof.
    intros K. rewrite clone_block_eq. rewrite K.
    unfold state_block, respmap_block, amap_block, norm_block. proj.
    rewrite !state_clone_ochecks, state_clone_seqs, clone_state_id by exact K. reflexivity.
  Qed.

  Lemma state_clone_blocks o l :
    keep_state o = true ->
    option_map (map (option_map state_block)) (clone_blocks o l) =
    option_map (map (option_map (amap_block (respmap_action (sf o)))))
      (option_map (map (option_map state_block))
        (Some (map Some (filter_map (option_map norm_block) (olist l))))).
  Proof.
    intros K. unfold clone_blocks. simpl. f_equal. rewrite !map_omap_some. f_equal.
    rewrite !map_map. rewrite !map_filter_map. apply filter_map_ext.
    intros [b|]; simpl; [|reflexivity].
    f_equal. now apply state_clone_block.
  Qed.

  Lemma state_clone_plan o p :
    keep_state o = true ->
    state_plan (clone_plan o p) = respmap_plan (sf o) (state_plan (norm_plan p)).
  Proof.
    intros K. rewrite clone_plan_eq. rewrite K.
    unfold state_plan, respmap_plan, amap_plan, norm_plan. proj.
    rewrite !state_clone_ochecks, state_clone_blocks, clone_state_id by exact K. reflexivity.
  Qed.

  (* ---------------------------------------------------------------- c18_default_pristine *)

  Lemma pristine_clone_action o a : keep_state o = false -> pristine_action (clone_action o a).
  Proof.
    intros K. unfold Clone.clone_action, Clone.clone_action_in, Clone.secure_action, pristine_action. rewrite K.
    destruct (keep_secrets o); proj; repeat split.
  Qed.

  Lemma pristine_clone_actions o l : keep_state o = false -> pristine_actions (clone_actions o l).
  Proof.
    intros K. unfold pristine_actions, clone_actions. simpl.
    apply Forall_forall. intros e He. apply in_map_iff in He as [[a|] [<- _]]; simpl; [|exact I].
    now apply pristine_clone_action.
  Qed.

  Lemma pristine_clone_checks o c : keep_state o = false -> pristine_checks (clone_checks o c).
  Proof.
    intros K. rewrite clone_checks_eq. rewrite K. unfold pristine_checks. proj.
    repeat split. now apply pristine_clone_actions.
  Qed.

  Lemma pristine_clone_ochecks o g : keep_state o = false -> pristine_ochecks (option_map (clone_checks o) g).
  Proof. intros K. destruct g; simpl; [now apply pristine_clone_checks|exact I]. Qed.

  Lemma pristine_clone_sequence o s r :
    keep_state o = false -> clone_sequence o s = Some r -> pristine_sequence r.
  Proof.
    intros K. rewrite clone_sequence_eq. rewrite K.
    destruct (olist (q_actions s)); [discriminate|]. intros [= <-].
    unfold pristine_sequence. proj. repeat split. now apply pristine_clone_actions.
  Qed.

  Lemma in_filter_map {A B} (f : A -> option B) (l : list A) (y : B) :
    In y (filter_map f l) -> exists x, In x l /\ f x = Some y.
  Proof.
    induction l as [|x l IH]; simpl; [intros []|].
    destruct (f x) eqn:E.
    - intros [<-|H]; [exists x; auto|]. destruct (IH H) as [x' [? ?]]. exists x'; auto.
    - intros H. destruct (IH H) as [x' [? ?]]. exists x'; auto.
  Qed.

  Lemma pristine_clone_block o b : keep_state o = false -> pristine_block (clone_block o b).
  Proof.
    intros K. rewrite clone_block_eq. rewrite K. unfold pristine_block. proj.
    repeat split; try now apply pristine_clone_ochecks.
    unfold clone_seqs. simpl. apply Forall_forall. intros e He.
    apply in_map_iff in He as [r [<- Hr]].
    apply in_filter_map in Hr as [[s|] [_ Hs]]; simpl in Hs; [|discriminate].
    now apply pristine_clone_sequence with (o := o) (s := s).
  Qed.

  Lemma pristine_clone_plan o p : keep_state o = false -> pristine_plan (clone_plan o p).
  Proof.
    intros K. rewrite clone_plan_eq. rewrite K. unfold pristine_plan. proj.
    repeat split; try now apply pristine_clone_ochecks.
    unfold clone_blocks. simpl. apply Forall_forall. intros e He.
    apply in_map_iff in He as [r [<- Hr]].
    apply in_filter_map in Hr as [[b|] [_ Hb]]; simpl in Hb; [|discriminate].
    injection Hb as <-. now apply pristine_clone_block.
  Qed.

  (* ---------------------------------------------------------------- c18_default_resubmittable *)

  Lemma and_intro (a b : bool) : a = true -> b = true -> a && b = true.
  Proof. intros -> ->. reflexivity. Qed.

  Lemma forallb_map_some {A} (P : A -> bool) (l : list A) :
    forallb (fun e => match e with Some x => P x | None => false end) (map Some l) = forallb P l.
  Proof. induction l as [|x l IH]; simpl; [reflexivity|]. now rewrite IH. Qed.

  Lemma filter_map_all_some {A B} (f : A -> option B) (P : B -> bool) (l : list A) :
    (forall e, In e l -> exists y, f e = Some y /\ P y = true) ->
    forallb P (filter_map f l) = true /\ (l <> [] -> filter_map f l <> []).
  Proof.
    induction l as [|x l IH]; intros H; simpl.
    - split; [reflexivity|]. intros E. now elim E.
    - destruct (H x (or_introl eq_refl)) as [y [Ey Py]]. rewrite Ey. simpl. rewrite Py.
      destruct IH as [IH1 _]; [intros e He; apply H; now right|].
      split; [exact IH1|]. intros _. discriminate.
  Qed.

  Lemma nonempty_some_map {A B} (f : A -> B) (l : list A) : l <> [] -> nonempty (Some (map f l)) = true.
  Proof. destruct l; [intros E; now elim E|reflexivity]. Qed.

  Lemma valid_clone_action o a :
    keep_state o = false -> WF_defn_action reg (sf o) a -> validate_action (clone_action o a) = true.
  Proof.
    intros K (Hn & Hd & Hp & Ht & chk & Hr).
    assert (T : (Z.eqb (a_timeout a) 0 || Z.leb five_seconds (a_timeout a)) = true).
    { destruct Ht as [-> | Ht]; [reflexivity|]. apply Bool.orb_true_iff. right. now apply Z.leb_le. }
    unfold validate_action, Clone.clone_action, Clone.clone_action_in, Clone.secure_action. rewrite K.
    unfold CloneSpec.sf in Hr.
    destruct (keep_secrets o); proj; rewrite deepcopy_val, Hn, Hd, Hp, Hr, T; reflexivity.
  Qed.

  Lemma valid_clone_actions o l :
    keep_state o = false -> WF_defn_actions reg (sf o) l -> validate_actions (clone_actions o l) = true.
  Proof.
    intros K (xs & -> & Hne & Hall). unfold validate_actions, clone_actions. simpl olist.
    apply and_intro; [now apply nonempty_some_map|].
    simpl. apply forallb_forall. intros e He. apply in_map_iff in He as [e0 [<- He0]].
    rewrite Forall_forall in Hall. destruct (Hall _ He0) as [a [-> Wa]]. simpl.
    now apply valid_clone_action.
  Qed.

  Lemma valid_clone_checks o c :
    keep_state o = false -> WF_defn_checks reg (sf o) c -> validate_checks (clone_checks o c) = true.
  Proof.
    intros K W. rewrite clone_checks_eq. rewrite K. unfold validate_checks. proj.
    rewrite valid_clone_actions by assumption. reflexivity.
  Qed.

  Lemma valid_clone_ochecks o g :
    keep_state o = false -> WF_defn_ochecks reg (sf o) g -> validate_ochecks (option_map (clone_checks o) g) = true.
  Proof. intros K W. destruct g; simpl; [now apply valid_clone_checks|reflexivity]. Qed.

  Lemma valid_clone_sequence o s :
    keep_state o = false -> WF_defn_sequence reg (sf o) s ->
    exists r, clone_sequence o s = Some r /\ validate_sequence r = true.
  Proof.
    intros K (Hn & Hd & W). rewrite clone_sequence_eq. rewrite K.
    pose proof (valid_clone_actions o _ K W) as V.
    destruct W as (xs & E & Hne & _). rewrite E in *. simpl olist.
    destruct xs as [|x xs]; [now elim Hne|].
    eexists. split; [reflexivity|]. unfold validate_sequence. proj.
    rewrite Hn, Hd, V. reflexivity.
  Qed.

  Lemma valid_clone_seqs o l :
    keep_state o = false ->
    (exists xs, l = Some xs /\ xs <> [] /\ Forall (fun e => exists s, e = Some s /\ WF_defn_sequence reg (sf o) s) xs) ->
    nonempty (clone_seqs o l) = true /\
    forallb (fun e => match e with Some s => validate_sequence s | None => false end) (olist (clone_seqs o l)) = true.
  Proof.
    intros K (xs & -> & Hne & Hall). unfold clone_seqs. simpl olist.
    destruct (filter_map_all_some (clone_seq_elem_top o) validate_sequence xs) as [F N].
    { intros e He. rewrite Forall_forall in Hall. destruct (Hall _ He) as [s [-> Ws]]. simpl.
      now apply valid_clone_sequence. }
    split.
    - specialize (N Hne). destruct (filter_map (clone_seq_elem_top o) xs); [now elim N|reflexivity].
    - now rewrite forallb_map_some.
  Qed.

  Lemma valid_clone_block o b :
    keep_state o = false -> WF_defn_block reg (sf o) b -> validate_block (clone_block o b) = true.
  Proof.
    intros K (Hn & Hd & W1 & W2 & W3 & W4 & W5 & Ws).
    rewrite clone_block_eq. rewrite K. unfold validate_block. proj.
    destruct (valid_clone_seqs o _ K Ws) as [Ne Fa].
    rewrite Hn, Hd, Ne, Fa, !valid_clone_ochecks by assumption. reflexivity.
  Qed.

  Lemma valid_clone_blocks o l :
    keep_state o = false ->
    (exists xs, l = Some xs /\ xs <> [] /\ Forall (fun e => exists b, e = Some b /\ WF_defn_block reg (sf o) b) xs) ->
    nonempty (clone_blocks o l) = true /\
    forallb (fun e => match e with Some b => validate_block b | None => false end) (olist (clone_blocks o l)) = true.
  Proof.
    intros K (xs & -> & Hne & Hall). unfold clone_blocks. simpl olist.
    destruct (filter_map_all_some (option_map (clone_block o)) validate_block xs) as [F N].
    { intros e He. rewrite Forall_forall in Hall. destruct (Hall _ He) as [b [-> Wb]]. simpl.
      eexists. split; [reflexivity|]. now apply valid_clone_block. }
    split.
    - specialize (N Hne). destruct (filter_map (option_map (clone_block o)) xs); [now elim N|reflexivity].
    - now rewrite forallb_map_some.
  Qed.

  (* a clone carries no key at all *)
  Definition allnil (ks : list uid) : Prop := Forall (fun k => k = uid0) ks.

  Lemma keys_ok_allnil ks : allnil ks -> forall seen, keys_ok_from seen ks = true.
  Proof.
    induction 1 as [|k ks -> _ IH]; intros seen; simpl; [reflexivity|]. apply IH.
  Qed.

  Lemma allnil_app a b : allnil a -> allnil b -> allnil (a ++ b).
  Proof. intros Ha Hb. apply Forall_app. now split. Qed.

  Lemma allnil_flat_map {A} (f : A -> list uid) (l : list A) :
    (forall x, In x l -> allnil (f x)) -> allnil (flat_map f l).
  Proof.
    intros H. apply Forall_forall. intros k Hk. apply in_flat_map in Hk as [x [Hx Hk]].
    specialize (H x Hx). unfold allnil in H. rewrite Forall_forall in H. now apply H.
  Qed.

  Lemma nokey_clone_action o a : a_key (clone_action o a) = uid0.
  Proof.
    unfold Clone.clone_action, Clone.clone_action_in, Clone.secure_action. destruct (keep_secrets o); reflexivity.
  Qed.

  Lemma nokey_clone_actions o l : allnil (keys_actions (clone_actions o l)).
  Proof.
    unfold keys_actions, clone_actions. simpl olist. apply allnil_flat_map.
    intros e He. apply in_map_iff in He as [[a|] [<- _]]; simpl; [|constructor].
    constructor; [apply nokey_clone_action|constructor].
  Qed.

  Lemma nokey_clone_checks o c : allnil (keys_checks (clone_checks o c)).
  Proof.
    rewrite clone_checks_eq. unfold keys_checks. proj. constructor; [reflexivity|apply nokey_clone_actions].
  Qed.

  Lemma nokey_clone_ochecks o g : allnil (keys_ochecks (option_map (clone_checks o) g)).
  Proof. destruct g; simpl; [apply nokey_clone_checks|constructor]. Qed.

  Lemma nokey_clone_sequence o s r : clone_sequence o s = Some r -> allnil (keys_sequence r).
  Proof.
    rewrite clone_sequence_eq. destruct (olist (q_actions s)); [discriminate|]. intros [= <-].
    unfold keys_sequence. proj. constructor; [reflexivity|apply nokey_clone_actions].
  Qed.

  Lemma nokey_clone_block o b : allnil (keys_block (clone_block o b)).
  Proof.
    rewrite clone_block_eq. unfold keys_block. proj.
    constructor; [reflexivity|].
    repeat (apply allnil_app; [apply nokey_clone_ochecks|]).
    unfold clone_seqs. simpl olist. apply allnil_flat_map.
    intros e He. apply in_map_iff in He as [r [<- Hr]].
    apply in_filter_map in Hr as [[s|] [_ Hs]]; simpl in Hs; [|discriminate].
    now apply nokey_clone_sequence with (o := o) (s := s).
  Qed.

  Lemma nokey_clone_plan o p : allnil (keys_plan (clone_plan o p)).
  Proof.
    rewrite clone_plan_eq. unfold keys_plan. proj.
    repeat (apply allnil_app; [apply nokey_clone_ochecks|]).
    unfold clone_blocks. simpl olist. apply allnil_flat_map.
    intros e He. apply in_map_iff in He as [r [<- Hr]].
    apply in_filter_map in Hr as [[b|] [_ Hb]]; simpl in Hb; [|discriminate].
    injection Hb as <-. apply nokey_clone_block.
  Qed.

  Lemma valid_clone_plan o p :
    keep_state o = false -> WF_defn_plan reg (sf o) p -> validate_plan (clone_plan o p) = true.
  Proof.
    intros K (Hn & Hd & W1 & W2 & W3 & W4 & W5 & Wb).
    unfold validate_plan, keys_ok. rewrite (keys_ok_allnil _ (nokey_clone_plan o p) []).
    rewrite clone_plan_eq. rewrite K. proj.
    destruct (valid_clone_blocks o _ K Wb) as [Ne Fa].
    rewrite Hn, Hd, Ne, Fa, !valid_clone_ochecks by assumption. reflexivity.
  Qed.

  (* the single-object validators, with the object's own key set *)
  Lemma valid_clone_action_k o a :
    keep_state o = false -> WF_defn_action reg (sf o) a -> validate_action_k (clone_action o a) = true.
  Proof.
    intros K W. unfold validate_action_k. rewrite valid_clone_action by assumption.
    rewrite nokey_clone_action. reflexivity.
  Qed.

  Lemma valid_clone_checks_k o c :
    keep_state o = false -> WF_defn_checks reg (sf o) c -> validate_checks_k (clone_checks o c) = true.
  Proof.
    intros K W. unfold validate_checks_k. rewrite valid_clone_checks by assumption.
    apply (keys_ok_allnil _ (nokey_clone_checks o c)).
  Qed.

  Lemma valid_clone_sequence_k o s :
    keep_state o = false -> WF_defn_sequence reg (sf o) s ->
    exists r, clone_sequence o s = Some r /\ validate_sequence_k r = true.
  Proof.
    intros K W. destruct (valid_clone_sequence o s K W) as [r [E V]].
    exists r. split; [exact E|]. unfold validate_sequence_k. rewrite V.
    apply (keys_ok_allnil _ (nokey_clone_sequence o s r E)).
  Qed.

  Lemma valid_clone_block_k o b :
    keep_state o = false -> WF_defn_block reg (sf o) b -> validate_block_k (clone_block o b) = true.
  Proof.
    intros K W. unfold validate_block_k. rewrite valid_clone_block by assumption.
    apply (keys_ok_allnil _ (nokey_clone_block o b)).
  Qed.

  (* ---------------------------------------------------------------- regular trees: norm is the identity *)

  Lemma map_id_in {A} (f : A -> A) (l : list A) : (forall x, In x l -> f x = x) -> map f l = l.
  Proof.
    induction l as [|x l IH]; intros H; simpl; [reflexivity|].
    rewrite H by now left. rewrite IH; [reflexivity|]. intros y Hy. apply H. now right.
  Qed.

  Lemma somes_filter_map_id {A} (f : option A -> option A) (l : list (option A)) :
    (forall e, In e l -> exists x, e = Some x /\ f e = Some x) -> map Some (filter_map f l) = l.
  Proof.
    induction l as [|e l IH]; intros H; simpl; [reflexivity|].
    destruct (H e (or_introl eq_refl)) as [x [-> ->]]. simpl.
    rewrite IH; [reflexivity|]. intros e' He'. apply H. now right.
  Qed.

  Lemma norm_regular_action a : regular_action a -> norm_action a = a.
  Proof.
    destruct a. unfold regular_action, norm_action, norm_attempts. proj.
    intros H. destruct a_attempts as [[|t l]|]; try reflexivity. now elim H.
  Qed.

  Lemma norm_regular_actions l : regular_actions l -> norm_actions l = l.
  Proof.
    intros (xs & -> & H). unfold norm_actions. simpl. f_equal. apply map_id_in.
    intros e He. rewrite Forall_forall in H. destruct (H _ He) as [a [-> Ra]]. simpl.
    now rewrite norm_regular_action.
  Qed.

  Lemma norm_regular_checks c : regular_checks c -> norm_checks c = c.
  Proof. destruct c. unfold regular_checks, norm_checks. proj. intros H. now rewrite norm_regular_actions. Qed.

  Lemma norm_regular_ochecks g : regular_ochecks g -> option_map norm_checks g = g.
  Proof. destruct g; simpl; [|reflexivity]. intros H. now rewrite norm_regular_checks. Qed.

  Lemma norm_regular_sequence s : regular_sequence s -> norm_sequence s = Some s.
  Proof.
    destruct s. unfold regular_sequence, norm_sequence. proj. intros [R Ne].
    rewrite norm_regular_actions by exact R.
    destruct R as (xs & -> & _). simpl. destruct xs; [now elim Ne|reflexivity].
  Qed.

  Lemma norm_regular_block b : regular_block b -> norm_block b = b.
  Proof.
    destruct b. unfold regular_block, norm_block. proj.
    intros (R1 & R2 & R3 & R4 & R5 & xs & -> & H).
    rewrite !norm_regular_ochecks by assumption. simpl olist.
    rewrite somes_filter_map_id; [reflexivity|].
    intros e He. rewrite Forall_forall in H. destruct (H _ He) as [s [-> Rs]].
    exists s. split; [reflexivity|]. simpl. now apply norm_regular_sequence.
  Qed.

  Lemma norm_regular_plan p : regular_plan p -> norm_plan p = p.
  Proof.
    destruct p. unfold regular_plan, norm_plan. proj.
    intros (R1 & R2 & R3 & R4 & R5 & xs & -> & H).
    rewrite !norm_regular_ochecks by assumption. simpl olist.
    rewrite somes_filter_map_id; [reflexivity|].
    intros e He. rewrite Forall_forall in H. destruct (H _ He) as [b [-> Rb]].
    exists b. split; [reflexivity|]. simpl. now rewrite norm_regular_block.
  Qed.

  (* ---------------------------------------------------------------- requests / responses the map leaves alone *)

  Lemma Forall_flat_map {A B} (P : B -> Prop) (g : A -> list B) (l : list A) :
    Forall P (flat_map g l) -> forall x, In x l -> Forall P (g x).
  Proof.
    intros H x Hx. apply Forall_forall. intros y Hy. rewrite Forall_forall in H. apply H.
    apply in_flat_map. exists x. now split.
  Qed.

  Section Fixed.
    Variable f : blob -> blob.
    Let fixed (l : list blob) : Prop := Forall (fun b => f b = b) l.

    Lemma defn_fixed_actions l :
      fixed (reqs_actions l) ->
      amap_actions (reqmap_action f) (nokeys_actions (defn_actions l)) = nokeys_actions (defn_actions l).
    Proof.
      intros H. destruct l as [xs|]; [|reflexivity]. simpl. f_equal. rewrite !map_map.
      apply map_ext_in. intros [a|] He; simpl; [|reflexivity].
      pose proof (Forall_flat_map _ _ _ H _ He) as Ha. simpl in Ha. inversion Ha as [|? ? E _]; subst.
      unfold reqmap_action, nokeys_action, defn_action. proj. now rewrite E.
    Qed.

    Lemma defn_fixed_ochecks g :
      fixed (coll_ochecks reqs_actions g) ->
      option_map (amap_checks (reqmap_action f)) (option_map nokeys_checks (option_map defn_checks g)) =
      option_map nokeys_checks (option_map defn_checks g).
    Proof.
      destruct g as [c|]; simpl; [|reflexivity]. intros H. f_equal.
      unfold amap_checks, nokeys_checks, defn_checks. proj. f_equal. now apply defn_fixed_actions.
    Qed.

    Lemma defn_fixed_checks c :
      fixed (reqs_checks c) -> reqmap_checks f (nokeys_checks (defn_checks c)) = nokeys_checks (defn_checks c).
    Proof.
      intros H. unfold reqmap_checks, amap_checks, nokeys_checks, defn_checks. proj. f_equal. now apply defn_fixed_actions.
    Qed.

    Lemma defn_fixed_sequence s :
      fixed (reqs_sequence s) -> reqmap_sequence f (nokeys_sequence (defn_sequence s)) = nokeys_sequence (defn_sequence s).
    Proof.
      intros H. unfold reqmap_sequence, amap_sequence, nokeys_sequence, defn_sequence. proj. f_equal.
      now apply defn_fixed_actions.
    Qed.

    Lemma defn_fixed_block b :
      fixed (reqs_block b) -> reqmap_block f (nokeys_block (defn_block b)) = nokeys_block (defn_block b).
    Proof.
      unfold reqs_block, coll_block. intros H.
      apply Forall_app in H as [H1 H]. apply Forall_app in H as [H2 H]. apply Forall_app in H as [H3 H].
      apply Forall_app in H as [H4 H]. apply Forall_app in H as [H5 H].
      unfold reqmap_block, amap_block, nokeys_block, defn_block. proj.
      rewrite !defn_fixed_ochecks by assumption. f_equal.
      destruct (b_seqs b) as [xs|]; [|reflexivity]. simpl. f_equal. rewrite !map_map.
      apply map_ext_in. intros [s|] He; simpl; [|reflexivity]. f_equal.
      apply defn_fixed_sequence. exact (Forall_flat_map _ _ _ H _ He).
    Qed.

    Lemma defn_fixed_plan p :
      fixed (reqs_plan p) -> reqmap_plan f (nokeys_plan (defn_plan p)) = nokeys_plan (defn_plan p).
    Proof.
      unfold reqs_plan, coll_plan. intros H.
      apply Forall_app in H as [H1 H]. apply Forall_app in H as [H2 H]. apply Forall_app in H as [H3 H].
      apply Forall_app in H as [H4 H]. apply Forall_app in H as [H5 H].
      unfold reqmap_plan, amap_plan, nokeys_plan, defn_plan. proj.
      rewrite !defn_fixed_ochecks by assumption. f_equal.
      destruct (p_blocks p) as [xs|]; [|reflexivity]. simpl. f_equal. rewrite !map_map.
      apply map_ext_in. intros [b|] He; simpl; [|reflexivity]. f_equal.
      apply defn_fixed_block. exact (Forall_flat_map _ _ _ H _ He).
    Qed.

    Lemma state_fixed_actions l :
      fixed (resps_actions l) ->
      amap_actions (respmap_action f) (state_actions l) = state_actions l.
    Proof.
      intros H. destruct l as [xs|]; [|reflexivity]. simpl. f_equal. rewrite !map_map.
      apply map_ext_in. intros [a|] He; simpl; [|reflexivity].
      pose proof (Forall_flat_map _ _ _ H _ He) as Ha. simpl in Ha.
      unfold respmap_action, state_action. proj. f_equal. f_equal.
      destruct (a_attempts a) as [ts|]; [|reflexivity]. simpl in *. f_equal.
      apply map_id_in. intros [r e st en] Ht. unfold respmap_attempt. proj.
      rewrite Forall_forall in Ha. rewrite (Ha r); [reflexivity|].
      apply in_map_iff. eexists. split; [|exact Ht]. reflexivity.
    Qed.

    Lemma state_fixed_ochecks g :
      fixed (coll_ochecks resps_actions g) ->
      option_map (amap_checks (respmap_action f)) (option_map state_checks g) = option_map state_checks g.
    Proof.
      destruct g as [c|]; simpl; [|reflexivity]. intros H. f_equal.
      unfold amap_checks, state_checks. proj. f_equal. now apply state_fixed_actions.
    Qed.

    Lemma state_fixed_checks c :
      fixed (resps_checks c) -> respmap_checks f (state_checks c) = state_checks c.
    Proof.
      intros H. unfold respmap_checks, amap_checks, state_checks. proj. f_equal. now apply state_fixed_actions.
    Qed.

    Lemma state_fixed_sequence s :
      fixed (resps_sequence s) -> respmap_sequence f (state_sequence s) = state_sequence s.
    Proof.
      intros H. unfold respmap_sequence, amap_sequence, state_sequence. proj. f_equal. now apply state_fixed_actions.
    Qed.

    Lemma state_fixed_block b :
      fixed (resps_block b) -> respmap_block f (state_block b) = state_block b.
    Proof.
      unfold resps_block, coll_block. intros H.
      apply Forall_app in H as [H1 H]. apply Forall_app in H as [H2 H]. apply Forall_app in H as [H3 H].
      apply Forall_app in H as [H4 H]. apply Forall_app in H as [H5 H].
      unfold respmap_block, amap_block, state_block. proj.
      rewrite !state_fixed_ochecks by assumption. f_equal.
      destruct (b_seqs b) as [xs|]; [|reflexivity]. simpl. f_equal. rewrite !map_map.
      apply map_ext_in. intros [s|] He; simpl; [|reflexivity]. f_equal.
      apply state_fixed_sequence. exact (Forall_flat_map _ _ _ H _ He).
    Qed.

    Lemma state_fixed_plan p :
      fixed (resps_plan p) -> respmap_plan f (state_plan p) = state_plan p.
    Proof.
      unfold resps_plan, coll_plan. intros H.
      apply Forall_app in H as [H1 H]. apply Forall_app in H as [H2 H]. apply Forall_app in H as [H3 H].
      apply Forall_app in H as [H4 H]. apply Forall_app in H as [H5 H].
      unfold respmap_plan, amap_plan, state_plan. proj.
      rewrite !state_fixed_ochecks by assumption. f_equal.
      destruct (p_blocks p) as [xs|]; [|reflexivity]. simpl. f_equal. rewrite !map_map.
      apply map_ext_in. intros [b|] He; simpl; [|reflexivity]. f_equal.
      apply state_fixed_block. exact (Forall_flat_map _ _ _ H _ He).
    Qed.
  End Fixed.

  (* ---------------------------------------------------------------- WF_defn reads the definition only *)

  Section WFconv.
    Variable f : blob -> blob.

    Lemma WF_of_defn_action a : WF_defn_action reg f (defn_action a) -> WF_defn_action reg f a.
    Proof. intros H. exact H. Qed.

    Lemma WF_of_defn_actions l : WF_defn_actions reg f (defn_actions l) -> WF_defn_actions reg f l.
    Proof.
      intros (xs & E & Ne & H). destruct l as [ys|]; [|discriminate]. simpl in E. injection E as <-.
      exists ys. split; [reflexivity|]. split; [intros ->; now apply Ne|].
      apply Forall_forall. intros e He. rewrite Forall_forall in H.
      destruct (H (option_map defn_action e)) as [a [Ea Wa]]; [now apply in_map|].
      destruct e as [a0|]; [|discriminate]. simpl in Ea. injection Ea as <-. exists a0. split; [reflexivity|exact Wa].
    Qed.

    Lemma WF_of_defn_checks c : WF_defn_checks reg f (defn_checks c) -> WF_defn_checks reg f c.
    Proof. unfold WF_defn_checks, defn_checks. proj. apply WF_of_defn_actions. Qed.

    Lemma WF_of_defn_ochecks g : WF_defn_ochecks reg f (option_map defn_checks g) -> WF_defn_ochecks reg f g.
    Proof. destruct g; simpl; [apply WF_of_defn_checks|trivial]. Qed.

    Lemma WF_of_defn_sequence s : WF_defn_sequence reg f (defn_sequence s) -> WF_defn_sequence reg f s.
    Proof.
      unfold WF_defn_sequence, defn_sequence. proj. intros (Hn & Hd & H).
      repeat split; try assumption. now apply WF_of_defn_actions.
    Qed.

    Lemma WF_of_defn_block b : WF_defn_block reg f (defn_block b) -> WF_defn_block reg f b.
    Proof.
      unfold WF_defn_block, defn_block. proj.
      intros (Hn & Hd & W1 & W2 & W3 & W4 & W5 & xs & E & Ne & H).
      repeat split; try assumption; try now apply WF_of_defn_ochecks.
      destruct (b_seqs b) as [ys|]; [|discriminate]. simpl in E. injection E as <-.
      exists ys. split; [reflexivity|]. split; [intros ->; now apply Ne|].
      apply Forall_forall. intros e He. rewrite Forall_forall in H.
      destruct (H (option_map defn_sequence e)) as [s [Es Ws]]; [now apply in_map|].
      destruct e as [s0|]; [|discriminate]. simpl in Es. injection Es as <-. exists s0.
      split; [reflexivity|now apply WF_of_defn_sequence].
    Qed.

    Lemma WF_of_defn_plan p : WF_defn_plan reg f (defn_plan p) -> WF_defn_plan reg f p.
    Proof.
      unfold WF_defn_plan, defn_plan. proj.
      intros (Hn & Hd & W1 & W2 & W3 & W4 & W5 & xs & E & Ne & H).
      repeat split; try assumption; try now apply WF_of_defn_ochecks.
      destruct (p_blocks p) as [ys|]; [|discriminate]. simpl in E. injection E as <-.
      exists ys. split; [reflexivity|]. split; [intros ->; now apply Ne|].
      apply Forall_forall. intros e He. rewrite Forall_forall in H.
      destruct (H (option_map defn_block e)) as [b [Eb Wb]]; [now apply in_map|].
      destruct e as [b0|]; [|discriminate]. simpl in Eb. injection Eb as <-. exists b0.
      split; [reflexivity|now apply WF_of_defn_block].
    Qed.
  End WFconv.

  (* a definition that is well-formed as submitted stays well-formed after scrubbing when every plugin accepts
     the scrubbed form of a request it accepts *)
  Section WFmono.
    Variables f g : blob -> blob.
    Hypothesis accept_mono : forall pl r c, reg pl (f r) = Some (c, true) -> exists c', reg pl (g r) = Some (c', true).

    Lemma WF_mono_action a : WF_defn_action reg f a -> WF_defn_action reg g a.
    Proof.
      intros (Hn & Hd & Hp & Ht & c & Hr). repeat split; try assumption. exact (accept_mono _ _ _ Hr).
    Qed.

    Lemma WF_mono_actions l : WF_defn_actions reg f l -> WF_defn_actions reg g l.
    Proof.
      intros (xs & E & Ne & H). exists xs. repeat split; try assumption.
      apply Forall_forall. intros e He. rewrite Forall_forall in H. destruct (H _ He) as [a [-> Wa]].
      exists a. split; [reflexivity|now apply WF_mono_action].
    Qed.

    Lemma WF_mono_ochecks c : WF_defn_ochecks reg f c -> WF_defn_ochecks reg g c.
    Proof. destruct c; simpl; [apply WF_mono_actions|trivial]. Qed.

    Lemma WF_mono_sequence s : WF_defn_sequence reg f s -> WF_defn_sequence reg g s.
    Proof. intros (Hn & Hd & H). repeat split; try assumption. now apply WF_mono_actions. Qed.

    Lemma WF_mono_block b : WF_defn_block reg f b -> WF_defn_block reg g b.
    Proof.
      intros (Hn & Hd & W1 & W2 & W3 & W4 & W5 & xs & E & Ne & H).
      repeat split; try assumption; try now apply WF_mono_ochecks.
      exists xs. repeat split; try assumption.
      apply Forall_forall. intros e He. rewrite Forall_forall in H. destruct (H _ He) as [s [-> Ws]].
      exists s. split; [reflexivity|now apply WF_mono_sequence].
    Qed.

    Lemma WF_mono_plan p : WF_defn_plan reg f p -> WF_defn_plan reg g p.
    Proof.
      intros (Hn & Hd & W1 & W2 & W3 & W4 & W5 & xs & E & Ne & H).
      repeat split; try assumption; try now apply WF_mono_ochecks.
      exists xs. repeat split; try assumption.
      apply Forall_forall. intros e He. rewrite Forall_forall in H. destruct (H _ He) as [b [-> Wb]].
      exists b. split; [reflexivity|now apply WF_mono_block].
    Qed.
  End WFmono.

  Lemma sf_keep o l : keep_secrets o = true -> Forall (fun b => sf o b = b) l.
  Proof. intros K. apply Forall_forall. intros b _. unfold CloneSpec.sf. now rewrite K. Qed.

  (* ================================================================ the property, for the five object kinds *)

  (* the definition of the clone, for every input *)
  Theorem defn_preserved_general : forall o,
    (forall p, defn_plan (clone_plan o p) = reqmap_plan (sf o) (nokeys_plan (defn_plan (norm_plan p)))) /\
    (forall b, defn_block (clone_block o b) = reqmap_block (sf o) (nokeys_block (defn_block (norm_block b)))) /\
    (forall s, option_map defn_sequence (clone_sequence o s) =
               option_map (fun s => reqmap_sequence (sf o) (nokeys_sequence (defn_sequence s))) (norm_sequence s)) /\
    (forall c, defn_checks (clone_checks o c) = reqmap_checks (sf o) (nokeys_checks (defn_checks (norm_checks c)))) /\
    (forall a, defn_action (clone_action o a) = reqmap_action (sf o) (nokeys_action (defn_action (norm_action a)))).
  Proof.
    intros o. split5; intros.
    - apply defn_clone_plan. - apply defn_clone_block. - apply defn_clone_sequence.
    - apply defn_clone_checks. - apply defn_clone_action.
  Qed.

  (* on regular trees whose requests scrubbing leaves alone (always so with keep-secrets: [sf_keep]) *)
  Theorem defn_preserved : forall o,
    (forall p, regular_plan p -> Forall (fun b => sf o b = b) (reqs_plan p) ->
               defn_plan (clone_plan o p) = nokeys_plan (defn_plan p)) /\
    (forall b, regular_block b -> Forall (fun r => sf o r = r) (reqs_block b) ->
               defn_block (clone_block o b) = nokeys_block (defn_block b)) /\
    (forall s, regular_sequence s -> Forall (fun r => sf o r = r) (reqs_sequence s) ->
               option_map defn_sequence (clone_sequence o s) = Some (nokeys_sequence (defn_sequence s))) /\
    (forall c, regular_checks c -> Forall (fun r => sf o r = r) (reqs_checks c) ->
               defn_checks (clone_checks o c) = nokeys_checks (defn_checks c)) /\
    (forall a, regular_action a -> sf o (a_req a) = a_req a ->
               defn_action (clone_action o a) = nokeys_action (defn_action a)).
  Proof.
    intros o. split5.
    - intros p R F. rewrite defn_clone_plan, norm_regular_plan by exact R. now apply defn_fixed_plan.
    - intros b R F. rewrite defn_clone_block, norm_regular_block by exact R. now apply defn_fixed_block.
    - intros s R F. rewrite defn_clone_sequence, norm_regular_sequence by exact R. simpl. f_equal.
      now apply defn_fixed_sequence.
    - intros c R F. rewrite defn_clone_checks, norm_regular_checks by exact R. now apply defn_fixed_checks.
    - intros a R F. rewrite defn_clone_action, norm_regular_action by exact R.
      unfold reqmap_action, nokeys_action, defn_action. proj. now rewrite F.
  Qed.

  Theorem default_pristine : forall o, keep_state o = false ->
    (forall p, pristine_plan (clone_plan o p)) /\
    (forall b, pristine_block (clone_block o b)) /\
    (forall s r, clone_sequence o s = Some r -> pristine_sequence r) /\
    (forall c, pristine_checks (clone_checks o c)) /\
    (forall a, pristine_action (clone_action o a)).
  Proof.
    intros o K. split5; intros.
    - now apply pristine_clone_plan. - now apply pristine_clone_block.
    - eapply pristine_clone_sequence; eassumption.
    - now apply pristine_clone_checks. - now apply pristine_clone_action.
  Qed.

  Theorem default_resubmittable : forall o, keep_state o = false ->
    (forall p, WF_defn_plan reg (sf o) (defn_plan p) -> validate_plan (clone_plan o p) = true) /\
    (forall b, WF_defn_block reg (sf o) (defn_block b) -> validate_block_k (clone_block o b) = true) /\
    (forall s, WF_defn_sequence reg (sf o) (defn_sequence s) ->
               exists r, clone_sequence o s = Some r /\ validate_sequence_k r = true) /\
    (forall c, WF_defn_checks reg (sf o) (defn_checks c) -> validate_checks_k (clone_checks o c) = true) /\
    (forall a, WF_defn_action reg (sf o) (defn_action a) -> validate_action_k (clone_action o a) = true).
  Proof.
    intros o K. split5.
    - intros p W. apply valid_clone_plan; [exact K|now apply WF_of_defn_plan].
    - intros b W. apply valid_clone_block_k; [exact K|now apply WF_of_defn_block].
    - intros s W. apply valid_clone_sequence_k; [exact K|now apply WF_of_defn_sequence].
    - intros c W. apply valid_clone_checks_k; [exact K|now apply WF_of_defn_checks].
    - intros a W. apply valid_clone_action_k; [exact K|exact W].
  Qed.

  (* the plan that was accepted as submitted (requests unscrubbed): its default clone is accepted when every
     plugin accepts the scrubbed form of what it accepts *)
  Theorem default_resubmittable_scrubbed : forall o, keep_state o = false ->
    (forall pl r c, reg pl r = Some (c, true) -> exists c', reg pl (sf o r) = Some (c', true)) ->
    forall p, WF_defn_plan reg (fun b => b) (defn_plan p) -> validate_plan (clone_plan o p) = true.
  Proof.
    intros o K Hacc p W. apply valid_clone_plan; [exact K|].
    apply WF_of_defn_plan. apply WF_mono_plan with (f := fun b => b); [exact Hacc|exact W].
  Qed.

  Theorem keepstate_general : forall o, keep_state o = true ->
    (forall p, state_plan (clone_plan o p) = respmap_plan (sf o) (state_plan (norm_plan p))) /\
    (forall b, state_block (clone_block o b) = respmap_block (sf o) (state_block (norm_block b))) /\
    (forall s, option_map state_sequence (clone_sequence o s) =
               option_map (fun s => respmap_sequence (sf o) (state_sequence s)) (norm_sequence s)) /\
    (forall c, state_checks (clone_checks o c) = respmap_checks (sf o) (state_checks (norm_checks c))) /\
    (forall a, state_action (clone_action o a) = respmap_action (sf o) (state_action (norm_action a))).
  Proof.
    intros o K. split5; intros.
    - now apply state_clone_plan. - now apply state_clone_block. - now apply state_clone_sequence.
    - now apply state_clone_checks. - now apply state_clone_action.
  Qed.

  Theorem keepstate : forall o, keep_state o = true ->
    (forall p, regular_plan p -> Forall (fun r => sf o r = r) (resps_plan p) ->
               state_plan (clone_plan o p) = state_plan p) /\
    (forall b, regular_block b -> Forall (fun r => sf o r = r) (resps_block b) ->
               state_block (clone_block o b) = state_block b) /\
    (forall s, regular_sequence s -> Forall (fun r => sf o r = r) (resps_sequence s) ->
               option_map state_sequence (clone_sequence o s) = Some (state_sequence s)) /\
    (forall c, regular_checks c -> Forall (fun r => sf o r = r) (resps_checks c) ->
               state_checks (clone_checks o c) = state_checks c) /\
    (forall a, regular_action a -> Forall (fun r => sf o r = r) (map at_resp (olist (a_attempts a))) ->
               state_action (clone_action o a) = state_action a).
  Proof.
    intros o K. split5.
    - intros p R F. rewrite state_clone_plan, norm_regular_plan by assumption. now apply state_fixed_plan.
    - intros b R F. rewrite state_clone_block, norm_regular_block by assumption. now apply state_fixed_block.
    - intros s R F. rewrite state_clone_sequence, norm_regular_sequence by assumption. simpl. f_equal.
      now apply state_fixed_sequence.
    - intros c R F. rewrite state_clone_checks, norm_regular_checks by assumption. now apply state_fixed_checks.
    - intros a R F. rewrite state_clone_action, norm_regular_action by assumption.
      unfold respmap_action, state_action. proj. f_equal.
      destruct (a_attempts a) as [ts|]; [|reflexivity]. simpl in *. f_equal.
      apply map_id_in. intros [r e st en] Ht. unfold respmap_attempt. proj.
      rewrite Forall_forall in F. rewrite (F r); [reflexivity|].
      apply in_map_iff. eexists. split; [|exact Ht]. reflexivity.
  Qed.
End Proofs.
