(* C18 - Clones are deep, definition-preserving and resubmittable.

   Model: Clone.v (clone.go over the tree of Coercion.Base.Plan, field by field, the options keep-secrets and
   keep-state), CloneLoc.v (the same functions over a tree in which every pointer, slice backing array and
   map carries a location label, allocating from a counter). Vocabulary: CloneSpec.v.
   External code = premises: [deepcopy] (brunoga/deep.MustCopy: same value; on labelled values: all nodes
   newly allocated), [scrub] (clone.Secure on one request / response value, property C17; on labelled values:
   introduces no location), [reg] (the registry the clone is submitted to).

   Every theorem is a conjunction over the five object kinds: plan, block, sequence, checks group, action.
   (Sequence: clone.Sequence returns nil for a sequence without actions, hence the option.)

   What the code does that the property's wording leaves open, and the statements make explicit:
   - keys are never copied: the clone's definition is the original's WITHOUT keys;
   - nil blocks / nil sequences / sequences without actions are dropped, nil slices come back empty, an empty
     attempts slice comes back nil ([norm_*], the identity on [regular_*] trees - every accepted plan is regular);
   - without keep-secrets the requests (and, with keep-state, the attempt responses) are scrubbed ([sf]). *)
From Coercion.Base Require Import Plan.
From Coercion.Clone Require Import Clone CloneSpec CloneLoc CloneCheck CloneProofs CloneLocProofs CloneCheckProofs CloneExamples.

(* ---- the definition is preserved: for EVERY input, whatever its shape and state ---- *)
Theorem c18_defn_preserved_general :
  forall (reg : tok -> blob -> option (bool * bool)) (scrub deepcopy : blob -> blob),
  (forall b, deepcopy b = b) ->
  forall o : opts,
  (forall p, defn_plan (clone_plan reg scrub deepcopy o p)
             = reqmap_plan (sf scrub o) (nokeys_plan (defn_plan (norm_plan p)))) /\
  (forall b, defn_block (clone_block reg scrub deepcopy o b)
             = reqmap_block (sf scrub o) (nokeys_block (defn_block (norm_block b)))) /\
  (forall s, option_map defn_sequence (clone_sequence reg scrub deepcopy o s)
             = option_map (fun s => reqmap_sequence (sf scrub o) (nokeys_sequence (defn_sequence s))) (norm_sequence s)) /\
  (forall c, defn_checks (clone_checks reg scrub deepcopy o c)
             = reqmap_checks (sf scrub o) (nokeys_checks (defn_checks (norm_checks c)))) /\
  (forall a, defn_action (clone_action reg scrub deepcopy o a)
             = reqmap_action (sf scrub o) (nokeys_action (defn_action (norm_action a)))).
Proof. exact defn_preserved_general. Qed.
Print Assumptions c18_defn_preserved_general.

(* ---- ... which on regular trees is: defn (clone o p) = defn_without_keys p, when scrubbing leaves the
        requests alone (always so with keep-secrets: c18_keep_secrets_fixes_everything) ---- *)
Theorem c18_defn_preserved :
  forall (reg : tok -> blob -> option (bool * bool)) (scrub deepcopy : blob -> blob),
  (forall b, deepcopy b = b) ->
  forall o : opts,
  (forall p, regular_plan p -> Forall (fun r => sf scrub o r = r) (reqs_plan p) ->
             defn_plan (clone_plan reg scrub deepcopy o p) = nokeys_plan (defn_plan p)) /\
  (forall b, regular_block b -> Forall (fun r => sf scrub o r = r) (reqs_block b) ->
             defn_block (clone_block reg scrub deepcopy o b) = nokeys_block (defn_block b)) /\
  (forall s, regular_sequence s -> Forall (fun r => sf scrub o r = r) (reqs_sequence s) ->
             option_map defn_sequence (clone_sequence reg scrub deepcopy o s) = Some (nokeys_sequence (defn_sequence s))) /\
  (forall c, regular_checks c -> Forall (fun r => sf scrub o r = r) (reqs_checks c) ->
             defn_checks (clone_checks reg scrub deepcopy o c) = nokeys_checks (defn_checks c)) /\
  (forall a, regular_action a -> sf scrub o (a_req a) = a_req a ->
             defn_action (clone_action reg scrub deepcopy o a) = nokeys_action (defn_action a)).
Proof. exact defn_preserved. Qed.
Print Assumptions c18_defn_preserved.

Theorem c18_keep_secrets_fixes_everything :
  forall (scrub : blob -> blob) (o : opts) (l : list blob),
  keep_secrets o = true -> Forall (fun b => sf scrub o b = b) l.
Proof. exact sf_keep. Qed.
Print Assumptions c18_keep_secrets_fixes_everything.

(* ---- by default all engine-owned state is stripped ---- *)
Theorem c18_default_pristine :
  forall (reg : tok -> blob -> option (bool * bool)) (scrub deepcopy : blob -> blob),
  forall o : opts, keep_state o = false ->
  (forall p, pristine_plan (clone_plan reg scrub deepcopy o p)) /\
  (forall b, pristine_block (clone_block reg scrub deepcopy o b)) /\
  (forall s r, clone_sequence reg scrub deepcopy o s = Some r -> pristine_sequence r) /\
  (forall c, pristine_checks (clone_checks reg scrub deepcopy o c)) /\
  (forall a, pristine_action (clone_action reg scrub deepcopy o a)).
Proof. exact default_pristine. Qed.
Print Assumptions c18_default_pristine.

(* ---- so the default clone of anything whose definition is well-formed passes Validate, whatever execution
        state the original is in (no premise mentions ids, states, attempts, reason, submit time or keys).
        [sf scrub o]: the definition must be well-formed as the registry will see it, i.e. with the requests
        scrubbed unless keep-secrets is set ---- *)
Theorem c18_default_resubmittable :
  forall (reg : tok -> blob -> option (bool * bool)) (scrub deepcopy : blob -> blob),
  (forall b, deepcopy b = b) ->
  forall o : opts, keep_state o = false ->
  (forall p, WF_defn_plan reg (sf scrub o) (defn_plan p) -> validate_plan (clone_plan reg scrub deepcopy o p) = true) /\
  (forall b, WF_defn_block reg (sf scrub o) (defn_block b) -> validate_block_k (clone_block reg scrub deepcopy o b) = true) /\
  (forall s, WF_defn_sequence reg (sf scrub o) (defn_sequence s) ->
             exists r, clone_sequence reg scrub deepcopy o s = Some r /\ validate_sequence_k r = true) /\
  (forall c, WF_defn_checks reg (sf scrub o) (defn_checks c) -> validate_checks_k (clone_checks reg scrub deepcopy o c) = true) /\
  (forall a, WF_defn_action reg (sf scrub o) (defn_action a) -> validate_action_k (clone_action reg scrub deepcopy o a) = true).
Proof. exact default_resubmittable. Qed.
Print Assumptions c18_default_resubmittable.

(* the definition well-formed AS IT WAS SUBMITTED suffices when no plugin rejects the scrubbed form of a request
   it accepts (CloneExamples.ex_strict_plugin shows the premise cannot be dropped) *)
Theorem c18_default_resubmittable_as_submitted :
  forall (reg : tok -> blob -> option (bool * bool)) (scrub deepcopy : blob -> blob),
  (forall b, deepcopy b = b) ->
  forall o : opts, keep_state o = false ->
  (forall pl r c, reg pl r = Some (c, true) -> exists c', reg pl (sf scrub o r) = Some (c', true)) ->
  forall p, WF_defn_plan reg (fun b => b) (defn_plan p) -> validate_plan (clone_plan reg scrub deepcopy o p) = true.
Proof. exact default_resubmittable_scrubbed. Qed.
Print Assumptions c18_default_resubmittable_as_submitted.

(* ---- with keep-state the ids, statuses, times, reason, submit time and attempts (responses, errors with
        their wrapped chains) are preserved: for every input ... ---- *)
Theorem c18_keepstate_general :
  forall (reg : tok -> blob -> option (bool * bool)) (scrub deepcopy : blob -> blob),
  (forall b, deepcopy b = b) ->
  forall o : opts, keep_state o = true ->
  (forall p, state_plan (clone_plan reg scrub deepcopy o p) = respmap_plan (sf scrub o) (state_plan (norm_plan p))) /\
  (forall b, state_block (clone_block reg scrub deepcopy o b) = respmap_block (sf scrub o) (state_block (norm_block b))) /\
  (forall s, option_map state_sequence (clone_sequence reg scrub deepcopy o s)
             = option_map (fun s => respmap_sequence (sf scrub o) (state_sequence s)) (norm_sequence s)) /\
  (forall c, state_checks (clone_checks reg scrub deepcopy o c) = respmap_checks (sf scrub o) (state_checks (norm_checks c))) /\
  (forall a, state_action (clone_action reg scrub deepcopy o a) = respmap_action (sf scrub o) (state_action (norm_action a))).
Proof. exact keepstate_general. Qed.
Print Assumptions c18_keepstate_general.

(* ---- ... and on regular trees: state_of (clone keep p) = state_of p ---- *)
Theorem c18_keepstate :
  forall (reg : tok -> blob -> option (bool * bool)) (scrub deepcopy : blob -> blob),
  (forall b, deepcopy b = b) ->
  forall o : opts, keep_state o = true ->
  (forall p, regular_plan p -> Forall (fun r => sf scrub o r = r) (resps_plan p) ->
             state_plan (clone_plan reg scrub deepcopy o p) = state_plan p) /\
  (forall b, regular_block b -> Forall (fun r => sf scrub o r = r) (resps_block b) ->
             state_block (clone_block reg scrub deepcopy o b) = state_block b) /\
  (forall s, regular_sequence s -> Forall (fun r => sf scrub o r = r) (resps_sequence s) ->
             option_map state_sequence (clone_sequence reg scrub deepcopy o s) = Some (state_sequence s)) /\
  (forall c, regular_checks c -> Forall (fun r => sf scrub o r = r) (resps_checks c) ->
             state_checks (clone_checks reg scrub deepcopy o c) = state_checks c) /\
  (forall a, regular_action a -> Forall (fun r => sf scrub o r = r) (map at_resp (olist (a_attempts a))) ->
             state_action (clone_action reg scrub deepcopy o a) = state_action a).
Proof. exact keepstate. Qed.
Print Assumptions c18_keepstate.

(* ---- no sharing. The allocating clone over labelled trees computes the value-level clone ... ---- *)
Theorem c18_labelled_clone_refines :
  forall (reg : tok -> blob -> option (bool * bool)) (scrub deepcopy : blob -> blob)
         (ldeepcopy : lblob -> M lblob) (lscrub : lblob -> lblob),
  (forall b n, n <= snd (ldeepcopy b n) /\
               Forall (fun x => n <= x < snd (ldeepcopy b n)) (lb_locs (fst (ldeepcopy b n))) /\
               lb_val (fst (ldeepcopy b n)) = deepcopy (lb_val b)) ->
  (forall b, lb_val (lscrub b) = scrub (lb_val b)) ->
  (forall b x, In x (lb_locs (lscrub b)) -> In x (lb_locs b)) ->
  forall (o : opts) (n : nat),
  (forall p, erase_plan (fst (lclone_plan reg ldeepcopy lscrub o p n)) = clone_plan reg scrub deepcopy o (erase_plan p)) /\
  (forall b, erase_block (fst (lclone_block reg ldeepcopy lscrub o b n)) = clone_block reg scrub deepcopy o (erase_block b)) /\
  (forall s, option_map erase_sequence (fst (lclone_sequence reg ldeepcopy lscrub o s n))
             = clone_sequence reg scrub deepcopy o (erase_sequence s)) /\
  (forall c, erase_checks (fst (lclone_checks reg ldeepcopy lscrub o c n)) = clone_checks reg scrub deepcopy o (erase_checks c)) /\
  (forall a, erase_action (fst (lclone_action reg ldeepcopy lscrub o a n)) = clone_action reg scrub deepcopy o (erase_action a)).
Proof. exact lclone_refines. Qed.
Print Assumptions c18_labelled_clone_refines.

(* ---- ... and every location reachable from its result was allocated during the call: it is disjoint from any
        set [old] of locations that existed before (allocation counter n), in particular from locs of the
        original, for every option set ---- *)
Theorem c18_no_sharing :
  forall (reg : tok -> blob -> option (bool * bool)) (scrub deepcopy : blob -> blob)
         (ldeepcopy : lblob -> M lblob) (lscrub : lblob -> lblob),
  (forall b n, n <= snd (ldeepcopy b n) /\
               Forall (fun x => n <= x < snd (ldeepcopy b n)) (lb_locs (fst (ldeepcopy b n))) /\
               lb_val (fst (ldeepcopy b n)) = deepcopy (lb_val b)) ->
  (forall b, lb_val (lscrub b) = scrub (lb_val b)) ->
  (forall b x, In x (lb_locs (lscrub b)) -> In x (lb_locs b)) ->
  forall (o : opts) (n : nat) (old : list loc), (forall l, In l old -> l < n) ->
  (forall p l, In l (locs_plan (fst (lclone_plan reg ldeepcopy lscrub o p n))) -> ~ In l old) /\
  (forall b l, In l (locs_block (fst (lclone_block reg ldeepcopy lscrub o b n))) -> ~ In l old) /\
  (forall s l, In l (locs_opt locs_sequence (fst (lclone_sequence reg ldeepcopy lscrub o s n))) -> ~ In l old) /\
  (forall c l, In l (locs_checks (fst (lclone_checks reg ldeepcopy lscrub o c n))) -> ~ In l old) /\
  (forall a l, In l (locs_action (fst (lclone_action reg ldeepcopy lscrub o a n))) -> ~ In l old).
Proof. exact no_sharing. Qed.
Print Assumptions c18_no_sharing.

(* the premises about deep.MustCopy and clone.Secure have a model: closed instance, original vs clone *)
Theorem c18_no_sharing_instance :
  forall reg scrub o (p : lplan) l,
  In l (locs_plan (fst (lclone_plan reg ldeepcopy_fresh (lscrub_of scrub) o p (S (list_max (locs_plan p)))))) ->
  ~ In l (locs_plan p).
Proof. exact no_sharing_fresh_instance. Qed.
Print Assumptions c18_no_sharing_instance.

(* ---- the checker's booleans mean the declarative predicates ---- *)
Theorem c18_wf_b_sound : forall reg f p, wf_plan_b reg f p = true -> WF_defn_plan reg f p.
Proof. exact wf_plan_b_sound. Qed.
Print Assumptions c18_wf_b_sound.

Theorem c18_pristine_b_complete : forall p, pristine_plan p -> pristine_plan_b p = true.
Proof. exact pristine_plan_b_complete. Qed.
Print Assumptions c18_pristine_b_complete.

(* ---- non-vacuity: a plan that ran to failure (CloneExamples.ex_plan) meets the hypotheses, is itself rejected
        by validate, its default clone is accepted, its keep-state clone is not ---- *)
Example c18_example_hypotheses :
  regular_plan ex_plan /\ WF_defn_plan ex_reg (sf ex_scrub o_default) (defn_plan ex_plan) /\
  validate_plan ex_plan = false /\
  validate_plan (clone_plan ex_reg ex_scrub idb o_default ex_plan) = true /\
  validate_plan (clone_plan ex_reg ex_scrub idb o_keep ex_plan) = false.
Proof.
  exact (conj ex_regular (conj ex_wf_scrubbed (conj ex_original_rejected (conj ex_default_clone_accepted ex_keepstate_clone_rejected)))).
Qed.
