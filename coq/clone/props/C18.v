(* placeholder until CloneProofs.v lands *)
From Coercion.Clone Require Import Clone.
Theorem c18_placeholder : True. Proof. exact I. Qed.
Print Assumptions c18_placeholder.
