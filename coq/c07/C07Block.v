(* C07Block - the product of the automaton with the C07 monitor of a BLOCK scope.  Proofs only.
   Three regimes of block b: nothing of it has happened yet (LinkBefore), it is the current block (LinkCur),
   it is over (LinkDone).  *)
From Coq Require Import Lia.
From Coercion.Base Require Import Plan.
From Coercion.Engine Require Import Shape Event Action ChecksRun Seq Block Final PlanSM Auto Accept AutoLemmas.
From Coercion.C07 Require Import MonC07 Groups Steps Tab Inv FinalFacts InvPlan C07Rel C07Eps C07XInv C07YInv C07Link C07Fin C07Plan.

(* ---- once the blocks run: the plan was not bypassed and its pre-checks passed (stable) ---- *)
Definition after_pre (s : st) : Prop := s_ph s <> PStart /\ s_ph s <> PBypass /\ s_ph s <> PPre.

Definition PF (sh : shape) (s : st) : Prop :=
  after_pre s /\ ~ ptaken s /\ closed_ok (ppres sh GPre) (t_pre (s_g s)).

Lemma PF_blocks sh s : pinv sh s -> s_ph s = PBlocks -> PF sh s.
Proof.
  intros P Ph. destruct (pi_tab _ _ P) as [_ T]. rewrite Ph in T. cbn [pstage] in T. cbn zeta in T.
  destruct T as (Nb & Cp & _). split; [|split].
  - unfold after_pre. rewrite Ph. repeat split; discriminate.
  - intro Q. unfold ptaken in Q. unfold not_taken in Nb. destruct (ppres sh GBypass); unfold g0 in *; congruence.
  - exact Cp.
Qed.

Lemma settle_idle dst g x : settle dst g x -> g_is_idle g = true -> x = g.
Proof. intros [y|r acts _ _] H; [reflexivity|discriminate]. Qed.

Lemma closed_ok_idle' p g : closed_ok p g -> g_is_idle g = true.
Proof. apply closed_ok_idle. Qed.

Lemma PF_eps sh s s1 : pinv sh s -> PF sh s -> eps sh s = Some s1 -> PF sh s1.
Proof.
  intros P ((N1 & N2 & N3) & Nt & Cp) H. destruct (eps_cases _ _ _ H) as [_ _ _ _ Eg _ [T1 _] Bm].
  assert (Ep : t_pre (s_g s1) = t_pre (s_g s)).
  { apply (settle_idle _ _ _ (Eg GPre)). cbn [tget]. eapply closed_ok_idle; eauto. }
  assert (Ebp : g_is_idle (t_bypass (s_g s)) = true).
  { destruct (pi_tab _ _ P) as [_ T]. destruct (s_ph s); try (now elim N1); try (now elim N2); try (now elim N3);
      cbn [pstage] in T; cbn zeta in T.
    - destruct T as (Nb & _). eapply not_taken_idle; eauto.
    - destruct T as (Nb & _). eapply not_taken_idle; eauto.
    - destruct T as (Nb & _). eapply not_taken_idle; eauto.
    - destruct T as [(Eb & _)|(Nb & _)]; [now rewrite Eb|eapply not_taken_idle; eauto].
    - destruct T as [(Eb & _)|(Nb & _)]; [now rewrite Eb|eapply not_taken_idle; eauto]. }
  assert (Eb : t_bypass (s_g s1) = t_bypass (s_g s)) by (apply (settle_idle _ _ _ (Eg GBypass)); exact Ebp).
  split; [|split].
  - (* phases only move forward *)
    unfold after_pre. unfold eps, p_eps in H. destruct (s_ph s) eqn:Ph; try (now elim N1); try (now elim N2); try (now elim N3); try discriminate H.
    + destruct (block_of sh (s_cb s)).
      * destruct (b_eps b (s_img s) (s_cb s) (p_visible s) (s_b s)) as [[b'|[|]]|]; try discriminate H; injection H as <-.
        -- cbn. rewrite Ph. repeat split; discriminate.
        -- cbn. repeat split; discriminate.
        -- destruct (enter_block_all sh s (S (s_cb s))) as (_ & _ & _ & _ & _ & E6 & _). rewrite E6, Ph.
           repeat split; discriminate.
      * injection H as <-. cbn. repeat split; discriminate.
    + destruct (thr_live (s_thr s)).
      * destruct (g_settle (t_cont (s_g s)) (ist (s_img s) (OChecks SPlan GCont))) as [x|]; [|discriminate]. injection H as <-.
        destruct (g_dead x); cbn; rewrite ?Ph; repeat split; discriminate.
      * destruct (once_done (present (g_post (sh_groups sh))) (t_post (s_g s)) (ist (s_img s) (OChecks SPlan GPost))) as [[x v]|]; [|discriminate].
        injection H as <-. cbn. repeat split; discriminate.
    + destruct (thr_live (s_thr s)).
      * destruct (g_settle (t_cont (s_g s)) (ist (s_img s) (OChecks SPlan GCont))) as [x|]; [|discriminate]. injection H as <-.
        cbn; rewrite ?Ph; repeat split; discriminate.
      * destruct (once_done (present (g_deferred (sh_groups sh))) (t_deferred (s_g s)) (ist (s_img s) (OChecks SPlan GDeferred))) as [[x v]|]; [|discriminate].
        injection H as <-. cbn. repeat split; discriminate.
  - unfold ptaken in *. now rewrite Eb.
  - now rewrite Ep.
Qed.

Lemma PF_handle sh s e s' : pinv sh s -> PF sh s -> handle sh s e = Some s' -> PF sh s'.
Proof.
  intros P ((N1 & N2 & N3) & Nt & Cp) H.
  assert (Same : s_ph s' = s_ph s \/ (s_ph s = PEnd /\ s_ph s' = PReleased) ->
                 t_bypass (s_g s') = t_bypass (s_g s) -> t_pre (s_g s') = t_pre (s_g s) -> PF sh s').
  { intros Ep Eb Epr. unfold PF, after_pre, ptaken in *. rewrite Eb, Epr. split; [|auto].
    destruct Ep as [-> | [_ ->]]; auto. repeat split; discriminate. }
  destruct (handle_cases _ _ _ _ H) as
    [g op x owed Hc Ha _ U Er|b bs g op x owed Hc Cb Ha _ U Er|b bs q sq sq' owed Cb Hq Ht U Er
    |b bs stt r -> Cb Hw U Er|stt r -> Hw U Hr|a l -> Hl E1 E2 E3 E4 E5 E6 _ _ Er|snap -> ->
    |fin -> Ph Tm Ag E1 E2 E3 E4 E5 E6 _ Er];
    try (destruct U as [Ui Up Ug Ut Uc Ub Ul Uf]; apply Same; [now left|now rewrite Ug|now rewrite Ug]).
  - destruct U as [Ui Up Ug Ut Uc Ub Ul Uf].
    assert (Ng : g <> GBypass /\ g <> GPre).
    { assert (Ib : g_is_idle (t_bypass (s_g s)) = true).
      { destruct (pi_tab _ _ P) as [_ T]. destruct (s_ph s); try (now elim N1); try (now elim N2); try (now elim N3);
          cbn [pstage] in T; cbn zeta in T.
        - destruct T as (Nb & _). eapply not_taken_idle; eauto.
        - destruct T as (Nb & _). eapply not_taken_idle; eauto.
        - destruct T as (Nb & _). eapply not_taken_idle; eauto.
        - destruct T as [(Eb & _)|(Nb & _)]; [now rewrite Eb|eapply not_taken_idle; eauto].
        - destruct T as [(Eb & _)|(Nb & _)]; [now rewrite Eb|eapply not_taken_idle; eauto]. }
      split; intro Q; subst g.
      - pose proof (plan_not_idle _ _ _ _ _ _ _ Ha Ib) as [Q _]. destruct (s_ph s); try discriminate Q. now elim N2.
      - pose proof (plan_not_idle _ _ _ _ _ _ _ Ha (closed_ok_idle _ _ Cp)) as [Q _]. destruct (s_ph s); try discriminate Q. now elim N3. }
    destruct Ng as [G1 G2]. apply Same; [now left| |]; rewrite Ug.
    + change (tget (tset (s_g s) g x) GBypass = tget (s_g s) GBypass). now apply tget_tset_other.
    + change (tget (tset (s_g s) g x) GPre = tget (s_g s) GPre). now apply tget_tset_other.
  - apply Same; [now left|now rewrite E3|now rewrite E3].
  - split; [|split]; auto. repeat split; auto.
  - apply Same; [right; auto|now rewrite E3|now rewrite E3].
Qed.

(* ---- the three regimes of block b ---- *)
Definition cur (s : st) (b : nat) : Prop := s_ph s = PBlocks /\ s_cb s = b.
Definition past (s : st) (b : nat) : Prop := after_pre s /\ (b < s_cb s \/ (s_cb s = b /\ s_ph s <> PBlocks)).

Definition bfailed (m : mst) : bool := k_failed (m_cont m) || k_failed (m_def m).

Record link_before (sh : shape) (b : nat) (s : st) (m : mst) : Prop := {
  lb_started : m_started m = false;
  lb_tracks : forall g, tracked g = true -> m_track m g = k_init (group_size sh (SBlock b) g);
  lb_block : ist (s_img s) (OBlock b) = NotStarted;
  lb_acts : forall g i, ist (s_img s) (act_obj (SBlock b) g i) <> Running;
  lb_chks : forall g, ist (s_img s) (OChecks (SBlock b) g) = NotStarted }.

Definition link_cur (sh : shape) (b : nat) (s : st) (m : mst) : Prop :=
  started_rel (s_img s) (SBlock b) m /\ tracks_rel sh (SBlock b) (s_img s) (b_g (s_b s)) m.

Record link_done (sh : shape) (b : nat) (s : st) (m : mst) : Prop := {
  ld_open : forall g, tracked g = true -> k_open (m_track m g) = false;
  ld_def : has sh (SBlock b) GDeferred = true -> k_runs (m_def m) = if entered sh (SBlock b) m then 1 else 0;
  ld_cont : k_failed (m_cont m) = true ->
            has sh (SBlock b) GCont = true /\ ist (s_img s) (OChecks (SBlock b) GCont) = Failed;
  ld_dfail : k_failed (m_def m) = true ->
             has sh (SBlock b) GDeferred = true /\ ist (s_img s) (OChecks (SBlock b) GDeferred) = Failed;
  ld_block : bfailed m = true -> ist (s_img s) (OBlock b) = Failed;
  ld_pf : PF sh s }.

Definition regimes (sh : shape) (b : nat) (s : st) (m : mst) : Prop :=
  (cur s b /\ link_cur sh b s m) \/ (~ cur s b /\ link_before sh b s m) \/ (past s b /\ link_done sh b s m).

Definition link_block (sh : shape) (b : nat) (s : st) (m : mst) : Prop := common s m /\ regimes sh b s m.

Definition Rb (sh : shape) (b : nat) (s : st) (m : mst) : Prop := inv sh s /\ link_block sh b s m.

Lemma past_not_cur s b : past s b -> ~ cur s b.
Proof. intros [_ [L|[_ N]]] [Ph Ec]; [lia|now elim N]. Qed.

(* ---- events that are not about block b ---- *)
Definition foreign (b : nat) (e : event) : Prop :=
  ev_block e <> Some b /\ (forall st n ok r, e <> EvWrite OPlan st n ok r) /\ (forall fin, e <> EvRelease fin).

Lemma foreign_skips b m e : foreign b e -> skips (SBlock b) m e.
Proof.
  intros (Nb & Np & Nr). destruct e as [a|a o|o st n ok r|snap|fin]; simpl in *; auto.
  - left. destruct a as [[|b'] g i|b' q i]; simpl in *; auto.
    + destruct (Nat.eqb b b') eqn:E; auto. apply Nat.eqb_eq in E. subst. now elim Nb.
    + destruct (Nat.eqb b b') eqn:E; auto. apply Nat.eqb_eq in E. subst. now elim Nb.
  - left. destruct a as [[|b'] g i|b' q i]; simpl in *; auto.
    + destruct (Nat.eqb b b') eqn:E; auto. apply Nat.eqb_eq in E. subst. now elim Nb.
    + destruct (Nat.eqb b b') eqn:E; auto. apply Nat.eqb_eq in E. subst. now elim Nb.
  - repeat split.
    + intros g i _ Q. subst o. now elim Nb.
    + intro Q. subst o. now elim (Np st n ok r).
    + intros Q. subst o. now elim Nb.
  - now elim (Nr fin).
Qed.

(* ... and leave the objects of block b alone *)
Lemma foreign_frame b e im o : foreign b e -> obj_block o = Some b -> iget (ev_img e im) o = iget im o.
Proof.
  intros (Nb & _) Ho. apply ev_img_other. intros st n ok r ->. simpl in Nb. congruence.
Qed.

(* a monitor step that leaves the tracks and the started flag alone, while block b's objects keep their image *)
Section Keep.
  Variables (sh : shape) (b : nat) (s s' : st) (m m' : mst).
  Hypothesis F1 : m_started m' = m_started m.
  Hypothesis F4 : forall g, m_track m' g = m_track m g.
  Hypothesis fr_ist : forall o, obj_block o = Some b -> ist (s_img s') o = ist (s_img s) o.

  Lemma entered_keep : entered sh (SBlock b) m' = entered sh (SBlock b) m.
  Proof. unfold entered. rewrite F1. change (m_byp m') with (m_track m' GBypass). now rewrite F4. Qed.
  Lemma bfailed_keep : bfailed m' = bfailed m.
  Proof.
    unfold bfailed. change (m_cont m') with (m_track m' GCont). change (m_def m') with (m_track m' GDeferred). now rewrite !F4.
  Qed.

  Lemma link_before_keep : link_before sh b s m -> link_before sh b s' m'.
  Proof.
    intros [L1 L2 L3 L4 L5]. constructor.
    - now rewrite F1.
    - intros g Tg. rewrite F4. auto.
    - rewrite fr_ist; auto.
    - intros g i. rewrite fr_ist; auto.
    - intros g. rewrite fr_ist; auto.
  Qed.

  Lemma link_done_keep : PF sh s' -> link_done sh b s m -> link_done sh b s' m'.
  Proof.
    intros Pf [D1 D2 D3 D4 D5 _]. constructor.
    - intros g Tg. rewrite F4. auto.
    - intro Hd. rewrite entered_keep. change (m_def m') with (m_track m' GDeferred). rewrite F4. auto.
    - change (m_cont m') with (m_track m' GCont). rewrite F4. intro Q.
      destruct (D3 Q) as [A B]. split; auto. rewrite fr_ist; auto.
    - change (m_def m') with (m_track m' GDeferred). rewrite F4. intro Q.
      destruct (D4 Q) as [A B]. split; auto. rewrite fr_ist; auto.
    - rewrite bfailed_keep. intro Q. rewrite fr_ist; auto.
    - exact Pf.
  Qed.

  Lemma link_cur_keep : s_b s' = s_b s -> link_cur sh b s m -> link_cur sh b s' m'.
  Proof.
    intros Eb [S T]. split.
    - unfold started_rel in *. rewrite F1, S. cbn [scope_obj]. rewrite fr_ist; auto.
    - rewrite Eb. intros g Tg. rewrite F4. eapply grel_frame; [apply T; auto|]. intro j. apply fr_ist. reflexivity.
  Qed.

End Keep.

(* a handled event that is not about block b *)
Lemma Rb_foreign sh b s s' m e :
  Rb sh b s m -> handle sh s e = Some s' -> foreign b e ->
  s_img s' = ev_img e (s_img s) -> s_ph s' = s_ph s -> s_cb s' = s_cb s -> (cur s b -> s_b s' = s_b s) ->
  s_reason s' = s_reason s ->
  exists m', mstep sh (SBlock b) m e = Some m' /\ Rb sh b s' m'.
Proof.
  intros [I (C & L)] H Fe Ei Ep Ec Eb Er. pose proof (inv_handle _ _ _ _ I H) as I'.
  exists (m_after m e). split; [unfold mstep; now rewrite (skip_step sh (SBlock b) m e (foreign_skips b m e Fe))|].
  split; [exact I'|]. split; [apply (common_after s); auto; now apply released_same|].
  assert (Cs : cur s' b <-> cur s b) by (unfold cur; now rewrite Ep, Ec).
  destruct (m_after_fields m e) as (F1 & _ & _ & F4).
  assert (Fr : forall o, obj_block o = Some b -> ist (s_img s') o = ist (s_img s) o).
  { intros o Ho. unfold ist. rewrite Ei. f_equal. now apply (foreign_frame b). }
  destruct L as [[Cu Lc]|[[Nc Lb]|[Pa Ld]]].
  - left. split; [now apply Cs|]. eapply link_cur_keep; eauto.
  - right. left. split; [intro Q; apply Nc; now apply Cs|]. eapply link_before_keep; eauto.
  - right. right. split.
    + unfold past, after_pre in *. now rewrite Ep, Ec.
    + eapply link_done_keep; eauto. destruct I as [[P _] _]. eapply PF_handle; eauto. apply (ld_pf _ _ _ _ Ld).
Qed.

(* ---- the current block ---- *)
Section Cur.
  Variables (sh : shape) (b : nat) (bs : bshape).
  Hypothesis Hb : block_of sh b = Some bs.

  Lemma block_size g rs : grp_get (bs_groups bs) g = Some rs -> length rs = group_size sh (SBlock b) g.
  Proof. unfold group_size, group_of. simpl. rewrite Hb. simpl. now intros ->. Qed.
  Lemma has_bpres g : has sh (SBlock b) g = bpres bs g.
  Proof. unfold has, bpres, group_of, present. simpl. rewrite Hb. simpl. now destruct (grp_get (bs_groups bs) g). Qed.

  Lemma cur_binv s : inv sh s -> cur s b -> binv bs (s_img s) b (g_dead (t_cont (s_g s))) (s_b s).
  Proof. intros [[P _] _] [Ph Ec]. pose proof (pi_block _ _ P Ph) as Bn. now rewrite Ec, Hb in Bn. Qed.

  Lemma block_def0 s m :
    inv sh s -> cur s b -> link_cur sh b s m ->
    bstage (b_ph (s_b s)) <> SgDeferred -> bstage (b_ph (s_b s)) <> SgEnd -> k_runs (m_def m) = 0.
  Proof.
    intros I Cu [_ T] N1 N2. pose proof (cur_binv s I Cu) as Bn.
    pose proof (tab_def0 _ _ _ _ (bi_tab _ _ _ _ _ Bn) N1 N2) as E.
    pose proof (T GDeferred eq_refl) as R. cbn [tget m_track] in R. rewrite E in R. eapply grel_g0_runs; eauto.
  Qed.

  Lemma block_entered s m :
    inv sh s -> cur s b -> link_cur sh b s m -> b_ph (s_b s) = BDeferred -> entered sh (SBlock b) m = true.
  Proof.
    intros I Cu [S T] Ph. pose proof (cur_binv s I Cu) as Bn. destruct I as [_ Y]. destruct Cu as [Pp Ec].
    unfold entered. apply andb_true_iff. split.
    - rewrite S. cbn [scope_obj]. destruct (status_eqb (ist (s_img s) (OBlock b)) NotStarted) eqn:E; auto.
      apply status_eqb_eq in E. exfalso. rewrite <- Ec in E. apply (y_bstarted _ Y Pp); [rewrite Ph; discriminate|exact E].
    - rewrite has_bpres. destruct (bi_tab _ _ _ _ _ Bn) as [_ Tb]. rewrite Ph in Tb. cbn [bstage] in Tb. cbn zeta in Tb.
      destruct Tb as (Nb & _). unfold not_taken in Nb. destruct (bpres bs GBypass); [|reflexivity]. simpl.
      pose proof (T GBypass eq_refl) as R. cbn [tget m_track] in R. rewrite Nb in R.
      destruct R as [_ (A & _ & C & _)]. destruct (C (le_n 1)) as [Ov El].
      unfold k_done. rewrite A, Ov. simpl. injection El as El. destruct (k_failed (m_byp m)); [reflexivity|discriminate].
  Qed.
End Cur.

Lemma link_block_cur sh b s m : link_block sh b s m -> cur s b -> common s m /\ link_cur sh b s m.
Proof.
  intros (C & [[_ L]|[[N _]|[Pa _]]]) Cu; [auto|now elim N|now elim (past_not_cur _ _ Pa)].
Qed.

Lemma Rb_block_chk sh b bs s s' m e g op x owed :
  block_of sh b = Some bs -> Rb sh b s m -> handle sh s e = Some s' -> cur s b ->
  chk_op e = Some (SBlock b, g, op) ->
  g_apply (grp_get (bs_groups bs) g) (b_may_start (s_b s) g) (ist (s_img s) (OChecks (SBlock b) g)) (ev_cell s e)
          (tget (b_g (s_b s)) g) op = Some (x, owed) ->
  upd_spec s s' e (s_g s) (b_with_g (s_b s) (tset (b_g (s_b s)) g x)) owed -> s_reason s' = s_reason s ->
  exists m', mstep sh (SBlock b) m e = Some m' /\ Rb sh b s' m'.
Proof.
  intros Hb [I L] H Cu Hc Ha U Er. pose proof (inv_handle _ _ _ _ I H) as I'.
  destruct (link_block_cur _ _ _ _ L Cu) as [C Lc]. pose proof Lc as [S T].
  pose proof (cur_binv sh b bs Hb s I Cu) as Bn. destruct U as [Ui Up Ug Ut Uc Ub Ul Uf].
  assert (Cu' : cur s' b) by (destruct Cu; split; congruence).
  assert (Lv : m_rel m = false).
  { rewrite (c_rel _ _ C). apply not_released. destruct Cu as [-> _]. discriminate. }
  assert (Early : (g = GBypass \/ g = GPre \/ g = GPost) -> (exists r acts, tget (b_g (s_b s)) g = GRun r acts) ->
                  k_runs (m_def m) = 0).
  { intros Gg (r & acts & Hg). destruct (tab_running_early _ _ _ _ _ _ _ (bi_tab _ _ _ _ _ Bn) Hg Gg) as [N1 N2].
    exact (block_def0 sh b bs Hb s m I Cu Lc N1 N2). }
  assert (Fo : ist (s_img s') (OBlock b) = ist (s_img s) (OBlock b)).
  { rewrite Ui. unfold ist. f_equal. eapply chk_op_frame; eauto; discriminate. }
  assert (Com : forall m', (forall o, iget (m_img m') o = iget (ev_img e (s_img s)) o) ->
                m_rel m' = m_rel m -> m_reason m' = m_reason m -> common s' m').
  { intros m' F1 F2 F3. constructor; [now rewrite Ui| |].
    - rewrite F3, Er. apply (c_reason _ _ C).
    - rewrite F2, (released_same s s') by exact Up. apply (c_rel _ _ C). }
  destruct (tracked g) eqn:Tg.
  - assert (Hmay : b_may_start (s_b s) g = true ->
             (g_runs (tget (b_g (s_b s)) g) = 0 \/ g_dead (tget (b_g (s_b s)) g) = false)
             /\ (g = GDeferred -> entered sh (SBlock b) m = true /\ g_runs (tget (b_g (s_b s)) g) = 0)).
    { intro M. pose proof (b_may_start_spec _ _ M) as Al. split; [eapply allowed_may; eauto|].
      intros ->. destruct Al as [Sd Z]. split; [|exact Z].
      apply (block_entered sh b bs Hb s); auto. destruct (b_ph (s_b s)); try discriminate Sd; reflexivity. }
    assert (Hbyp : g = GBypass -> (exists r acts, tget (b_g (s_b s)) g = GRun r acts) -> k_runs (m_def m) = 0).
    { intros ->. apply Early. now left. }
    destruct (track_op sh (SBlock b) (s_img s) (b_g (s_b s)) m e g op x owed _ _ _ Hc Tg Ha
                (fun rs => block_size sh b bs Hb g rs) (bi_img _ _ _ _ _ Bn g) (c_img _ _ C) T Lv Hmay Hbyp)
      as (m' & Hm & Ci & Tr & F1 & F2 & F3).
    exists m'. split; [unfold mstep; now rewrite Hm|]. split; [exact I'|]. split; [now apply Com|].
    left. split; [exact Cu'|]. split.
    + unfold started_rel in *. cbn [scope_obj] in *. now rewrite F1, Fo.
    + rewrite Ui, Ub. exact Tr.
  - assert (Gg : g = GPre \/ g = GPost) by (destruct g; try discriminate Tg; auto).
    destruct (m_after_fields m e) as (F1 & F2 & F3 & F4).
    exists (m_after m e). split.
    + unfold mstep. rewrite (skip_step sh (SBlock b) m e); [reflexivity|].
      destruct (chk_op_inv _ _ _ _ Hc) as
        [(i & -> & ->)|[(i & o & -> & ->)|[(i & r & -> & _)|[(i & n & ok & r & -> & _)
        |[(i & st & n & ok & r & -> & _)|(st & r & -> & _)]]]]]; simpl.
      * right. apply Early; [tauto|]. eapply op_running; eauto.
      * right. right. apply Early; [tauto|]. eapply op_running; eauto.
      * repeat split; try discriminate. intros g' i' Tg' Q. injection Q as -> _. congruence.
      * repeat split; try discriminate. intros g' i' Tg' Q. injection Q as -> _. congruence.
      * repeat split; try discriminate. intros g' i' Tg' Q. injection Q as -> _. congruence.
      * repeat split; try discriminate.
    + split; [exact I'|]. split; [apply Com; auto; now apply m_after_img, (c_img _ _ C)|].
      left. split; [exact Cu'|]. split.
      * unfold started_rel in *. cbn [scope_obj] in *. now rewrite F1, Fo.
      * rewrite Ub. cbn [b_g b_with_g]. intros g' Tg'. rewrite F4.
        rewrite tget_tset_other by (intro Q; subst; congruence).
        eapply grel_frame; [apply T; auto|]. intro j. rewrite Ui. unfold ist. f_equal.
        eapply chk_op_frame; eauto; [|discriminate]. intros i Q. injection Q as -> _. congruence.
Qed.

Lemma running_seq_body bs im bi pd bb q j a :
  binv bs im bi pd bb -> nth_error (b_seqs bb) q = Some (SRun j a) -> bstage (b_ph bb) = SgBody.
Proof.
  intros Bn Hq. destruct (b_ph bb) eqn:Ph; try reflexivity; exfalso;
    (assert (N : bstage (b_ph bb) <> SgBody) by (rewrite Ph; discriminate);
     pose proof (forallb_nth _ _ _ _ (bi_rest _ _ _ _ _ Bn N) Hq) as Q; discriminate Q).
Qed.

Lemma Rb_seq sh b bs s s' m e q sq sq' owed :
  block_of sh b = Some bs -> Rb sh b s m -> handle sh s e = Some s' -> cur s b ->
  nth_error (b_seqs (s_b s)) q = Some sq -> seq_trans bs (s_b s) e b q sq sq' ->
  upd_spec s s' e (s_g s) (b_with_seqs (s_b s) (upd (b_seqs (s_b s)) q sq')) owed -> s_reason s' = s_reason s ->
  exists m', mstep sh (SBlock b) m e = Some m' /\ Rb sh b s' m'.
Proof.
  intros Hb [I L] H Cu Hq Ht U Er. pose proof (inv_handle _ _ _ _ I H) as I'.
  destruct (link_block_cur _ _ _ _ L Cu) as [C Lc]. pose proof Lc as [S T].
  pose proof (cur_binv sh b bs Hb s I Cu) as Bn. destruct U as [Ui Up Ug Ut Uc Ub Ul Uf].
  assert (Cu' : cur s' b) by (destruct Cu; split; congruence).
  destruct (m_after_fields m e) as (F1 & F2 & F3 & F4).
  (* the objects the event can write *)
  assert (Fr : forall o, (forall i, o <> OAct (ASeq b q i)) -> o <> OSeq b q -> ist (s_img s') o = ist (s_img s) o).
  { intros o Na Ns. rewrite Ui. unfold ist. f_equal. apply ev_img_other. intros st n ok r ->.
    destruct Ht as [r0 Q _ _|st0 r0 v Q _|j a x i Ha _ _].
    - injection Q as -> _ _ _ _. now elim Ns.
    - injection Q as -> _ _ _ _. now elim Ns.
    - simpl in Ha. destruct o; try discriminate Ha. injection Ha as ->. now elim (Na i). }
  exists (m_after m e). split.
  - unfold mstep. rewrite (skip_step sh (SBlock b) m e); [reflexivity|].
    destruct Ht as [r0 -> _ _|st0 r0 v -> _|j a x i Ha _ _].
    + simpl. repeat split; discriminate.
    + simpl. repeat split; discriminate.
    + assert (Z : k_runs (m_def m) = 0).
      { pose proof (running_seq_body _ _ _ _ _ _ _ _ Bn Hq) as Sb.
        apply (block_def0 sh b bs Hb s m I Cu Lc); rewrite Sb; discriminate. }
      destruct e as [a0|a0 o0|o0 stt n ok r|snap|fin]; simpl in Ha; try discriminate Ha; simpl; auto.
      destruct o0; try discriminate Ha. injection Ha as ->. repeat split; discriminate.
  - split; [exact I'|]. split; [apply (common_after s); auto; now apply released_same|].
    left. split; [exact Cu'|]. split.
    + unfold started_rel in *. cbn [scope_obj] in *. rewrite F1, S, Fr; auto; discriminate.
    + rewrite Ub. cbn [b_g b_with_seqs]. intros g Tg. rewrite F4.
      eapply grel_frame; [apply T; auto|]. intro j. apply Fr; discriminate.
Qed.

Lemma Rb_block_write sh b bs s s' m stt r :
  block_of sh b = Some bs -> Rb sh b s m -> handle sh s (EvWrite (OBlock b) stt 0 false r) = Some s' -> cur s b ->
  b_write (s_b s) stt = Some (s_b s) ->
  upd_spec s s' (EvWrite (OBlock b) stt 0 false r) (s_g s) (s_b s) false -> s_reason s' = s_reason s ->
  exists m', mstep sh (SBlock b) m (EvWrite (OBlock b) stt 0 false r) = Some m' /\ Rb sh b s' m'.
Proof.
  intros Hb [I L] H Cu Hw U Er. pose proof (inv_handle _ _ _ _ I H) as I'.
  destruct (link_block_cur _ _ _ _ L Cu) as [C Lc]. pose proof Lc as [S T].
  pose proof (cur_binv sh b bs Hb s I Cu) as Bn. destruct U as [Ui Up Ug Ut Uc Ub Ul Uf].
  assert (Cu' : cur s' b) by (destruct Cu; split; congruence).
  cbn [ev_img] in Ui. set (c := {| c_st := stt; c_n := 0; c_ok := false |}) in *.
  destruct C as [C1 C2 C3].
  assert (Sync : forall o, iget (img_after (m_img m) (OBlock b) c) o = iget (s_img s') o).
  { intro o. rewrite Ui. now apply img_sync. }
  assert (Tr : forall m', (forall g, m_track m' g = m_track m g) -> tracks_rel sh (SBlock b) (s_img s') (b_g (s_b s')) m').
  { intros m' Hm. rewrite Ub, Ui. eapply tracks_rel_frame; [exact T|intros g _; apply Hm|].
    intros g j _. apply ist_iset_other. discriminate. }
  (* a Failed / Completed write comes after the Running one *)
  assert (St : stt = Running \/ ((stt = Failed \/ stt = Completed) /\ ist (s_img s) (OBlock b) <> NotStarted)).
  { destruct I as [_ Y]. destruct Cu as [Ph Ec]. unfold b_write in Hw. destruct stt; try discriminate Hw; auto; right; (split; [auto|]);
      rewrite <- Ec; apply (y_bstarted _ Y Ph).
    - destruct (bphase_eqb (b_ph (s_b s)) BEnd && negb (b_cause (s_b s)) && negb (thr_live (b_thr (s_b s)))) eqn:G; [|discriminate].
      apply andb_true_iff in G as [G _]. apply andb_true_iff in G as [G _]. destruct (b_ph (s_b s)); discriminate.
    - destruct (b_cause (s_b s)) eqn:Cs; [|discriminate].
      destruct (bi_cause _ _ _ _ _ Bn Cs) as ([Q|Q] & _); destruct (b_ph (s_b s)); discriminate. }
  assert (Rl : released s' = released s) by (apply released_same; exact Up).
  unfold mstep. cbn [mstep_d]. fold c.
  destruct (cell_eqb (iget (m_img m) (OBlock b)) c) eqn:Rep.
  - exists m. split; [reflexivity|]. split; [exact I'|].
    assert (Eq : iget (s_img s) (OBlock b) = c) by (rewrite <- C1; now apply cell_eqb_eq).
    split; [constructor; [|congruence|congruence]|].
    + intro o. rewrite <- Sync. unfold img_after. now rewrite Rep.
    + left. split; [exact Cu'|]. split; [|now apply Tr].
      unfold started_rel in *. cbn [scope_obj] in *. rewrite S, Ui, ist_iset_same. unfold ist. now rewrite Eq.
  - assert (Im : forall o, iget (iset (m_img m) (OBlock b) c) o = iget (s_img s') o).
    { intro o. rewrite <- Sync. unfold img_after. now rewrite Rep. }
    cbn [scope_obj]. rewrite obj_eqb_refl. cbn [andb].
    destruct St as [-> | [Hs Ns]].
    + simpl. eexists. split; [reflexivity|]. split; [exact I'|]. split.
      * constructor; cbn [m_img m_reason m_rel with_started with_img]; [exact Im|congruence|congruence].
      * left. split; [exact Cu'|]. split; [|apply Tr; now intros []].
        unfold started_rel. simpl. now rewrite Ui, ist_iset_same.
    + assert (Nr : status_eqb stt Running = false) by (destruct Hs as [-> | ->]; reflexivity).
      rewrite Nr. eexists. split; [reflexivity|]. split; [exact I'|]. split.
      * constructor; cbn [m_img m_reason m_rel with_started with_img]; [exact Im|congruence|congruence].
      * left. split; [exact Cu'|]. split; [|apply Tr; now intros []].
        unfold started_rel in *. simpl. cbn [scope_obj] in S. rewrite S, Ui, ist_iset_same. simpl.
        destruct (ist (s_img s) (OBlock b)); try (now elim Ns); destruct Hs as [-> | ->]; reflexivity.
Qed.

(* ---- steps that keep the regime of block b ---- *)
Lemma regimes_keep sh b s s' m m' :
  regimes sh b s m ->
  m_started m' = m_started m -> (forall g, m_track m' g = m_track m g) ->
  (forall o, obj_block o = Some b -> ist (s_img s') o = ist (s_img s) o) ->
  (s_ph s' = s_ph s \/ (s_ph s = PEnd /\ s_ph s' = PReleased)) -> s_cb s' = s_cb s ->
  (cur s b -> s_b s' = s_b s) -> (PF sh s -> PF sh s') ->
  regimes sh b s' m'.
Proof.
  intros L F1 F4 Fr Ep Ec Eb Pf.
  assert (Cs : cur s' b <-> cur s b).
  { unfold cur. rewrite Ec. destruct Ep as [-> | [E1 E2]]; [tauto|]. rewrite E1, E2. split; intros [Q _]; discriminate Q. }
  destruct L as [[Cu Lc]|[[Nc Lb]|[Pa Ld]]].
  - left. split; [now apply Cs|]. eapply link_cur_keep; eauto.
  - right. left. split; [intro Q; apply Nc; now apply Cs|]. eapply link_before_keep; eauto.
  - right. right. split.
    + unfold past, after_pre in *. rewrite Ec. destruct Ep as [-> | [E1 E2]]; [exact Pa|].
      rewrite E2. rewrite E1 in Pa. destruct Pa as [_ Q]. split; [repeat split; discriminate|].
      destruct Q as [Q|[Q _]]; [now left|right; split; [exact Q|discriminate]].
    + eapply link_done_keep; eauto. apply Pf. apply (ld_pf _ _ _ _ Ld).
Qed.

Lemma Rb_plan_write sh b s s' m stt r :
  Rb sh b s m -> handle sh s (EvWrite OPlan stt 0 false r) = Some s' -> p_write sh s stt r = Some s ->
  upd_spec s s' (EvWrite OPlan stt 0 false r) (s_g s) (s_b s) false -> s_reason s' = r ->
  exists m', mstep sh (SBlock b) m (EvWrite OPlan stt 0 false r) = Some m' /\ Rb sh b s' m'.
Proof.
  intros [I (C & L)] H Hw U Hr. pose proof (inv_handle _ _ _ _ I H) as I'.
  destruct U as [Ui Up Ug Ut Uc Ub Ul Uf]. cbn [ev_img] in Ui. destruct C as [C1 C2 C3].
  set (c := {| c_st := stt; c_n := 0; c_ok := false |}) in *.
  assert (Sync : forall o, iget (img_after (m_img m) OPlan c) o = iget (s_img s') o).
  { intro o. rewrite Ui. now apply img_sync. }
  assert (Rl : released s' = released s) by now apply released_same.
  assert (Fr : forall o, obj_block o = Some b -> ist (s_img s') o = ist (s_img s) o).
  { intros o Ho. rewrite Ui. apply ist_iset_other. intro Q. subst o. discriminate Ho. }
  assert (Reg : forall m', m_started m' = m_started m -> (forall g, m_track m' g = m_track m g) -> regimes sh b s' m').
  { intros m' F1 F4. eapply regimes_keep; eauto. destruct I as [[P _] _]. intro Pf. eapply PF_handle; eauto. }
  unfold mstep. cbn [mstep_d]. fold c.
  destruct (cell_eqb (iget (m_img m) OPlan) c) eqn:Rep.
  - exists m. split; [reflexivity|]. split; [exact I'|]. split; [|apply Reg; auto].
    assert (Eq : iget (s_img s) OPlan = c) by (rewrite <- C1; now apply cell_eqb_eq).
    constructor; [| |congruence].
    + intro o. rewrite <- Sync. unfold img_after. now rewrite Rep.
    + rewrite C2, Hr. unfold p_write in Hw. destruct I as [_ Y]. destruct (s_ph s) eqn:Ph; try discriminate Hw.
      * destruct (status_eqb stt Running && reason_eqb r FRUnknown) eqn:G; [|discriminate].
        apply andb_true_iff in G as [_ G]. apply reason_eqb_eq in G. subst r. now apply (y_r0 _ Y).
      * exfalso. destruct (is_terminal stt) eqn:T1; [|discriminate Hw].
        destruct (is_terminal (ist (s_img s) OPlan)) eqn:T2; [discriminate Hw|].
        unfold ist in T2. rewrite Eq in T2. simpl in T2. congruence.
  - eexists. split; [reflexivity|]. split; [exact I'|]. split; [|apply Reg; auto; now intros []].
    constructor; cbn [m_img m_reason m_rel with_reason with_img]; [|auto|congruence].
    intro o. rewrite <- Sync. unfold img_after. now rewrite Rep.
Qed.

(* ---- Wait returns: the release clauses of a block scope ---- *)
Lemma k_init_facts n : k_open (k_init n) = false /\ k_failed (k_init n) = false /\ k_runs (k_init n) = 0.
Proof. unfold k_open, k_failed. simpl. rewrite failed_repeat_unmarked. auto. Qed.

Lemma block_release_code sh b bs s m fin :
  block_of sh b = Some bs -> inv sh s -> link_block sh b s m -> s_ph s = PEnd ->
  is_terminal (ist (s_img s) OPlan) = true ->
  image_agrees (all_objs sh) (s_img s) (s_reason s) fin = true ->
  release_code sh fin (SBlock b) m = 0.
Proof.
  intros Hb [[P X] Y] (C & L) Ph Tm Ag. assert (En : ended s) by now left.
  destruct L as [[[Q _] _]|[[_ Lb]|[_ Ld]]]; [rewrite Ph in Q; discriminate| |].
  - (* nothing of the block ever happened *)
    destruct Lb as [L1 L2 _ _ _].
    pose proof (L2 GBypass eq_refl) as Eb. pose proof (L2 GCont eq_refl) as Ec. pose proof (L2 GDeferred eq_refl) as Ed.
    cbn [m_track] in *. unfold release_code, entered. rewrite Eb, Ec, Ed, L1.
    destruct (k_init_facts (group_size sh (SBlock b) GBypass)) as (A1 & _ & _).
    destruct (k_init_facts (group_size sh (SBlock b) GCont)) as (B1 & B2 & _).
    destruct (k_init_facts (group_size sh (SBlock b) GDeferred)) as (D1 & D2 & D3).
    rewrite A1, B1, B2, D1, D2, D3. cbn. now rewrite andb_false_r.
  - destruct Ld as [D1 D2 D3 D4 D5 (_ & Nt & Cp)].
    set (f := ist (s_img s)) in *.
    assert (Lb : b < length (sh_blocks sh)) by (eapply block_of_lt; eauto).
    assert (Ab : fin_st fin (OBlock b) = f (OBlock b)) by (eapply agrees_status; eauto using in_all_block).
    assert (Ap : fin_st fin OPlan = f OPlan) by (eapply agrees_status; eauto using in_all_plan).
    assert (Ar : im_reason fin = s_reason s) by (eapply agrees_reason; eauto).
    assert (Agb : forall g, has sh (SBlock b) g = true -> fin_st fin (OChecks (SBlock b) g) = f (OChecks (SBlock b) g)).
    { intros g Hg. eapply agrees_status; eauto. eapply in_all_bgroup; eauto. now rewrite <- (has_bpres sh b bs Hb). }
    pose proof (pi_final _ _ P En Tm) as Fs. pose proof (x_reason _ _ X En Tm) as Fr.
    pose proof (final_is_stage _ _ P X En Nt) as Fi. fold f in Fs, Fr, Fi.
    unfold release_code. cbn [scope_obj].
    pose proof (D1 GBypass eq_refl) as O1. pose proof (D1 GCont eq_refl) as O2. pose proof (D1 GDeferred eq_refl) as O3.
    cbn [m_track] in O1, O2, O3. rewrite O1, O2, O3. cbn [orb].
    assert (C7 : has sh (SBlock b) GDeferred
                 && negb (Nat.eqb (k_runs (m_def m)) (if entered sh (SBlock b) m then 1 else 0)) = false).
    { destruct (has sh (SBlock b) GDeferred) eqn:E; auto. rewrite (D2 eq_refl), Nat.eqb_refl. reflexivity. }
    rewrite C7, Ab.
    assert (C10 : k_failed (m_cont m) && negb (status_eqb (f (OBlock b)) Failed && grp_failed sh fin (SBlock b) GCont) = false).
    { destruct (k_failed (m_cont m)) eqn:E; auto. destruct (D3 eq_refl) as [Hc Ic].
      rewrite D5 by (unfold bfailed; now rewrite E). unfold grp_failed, failed_in_fin. rewrite Hc, (Agb _ Hc). fold f in Ic. now rewrite Ic. }
    rewrite C10.
    assert (C11 : k_failed (m_def m) && negb (status_eqb (f (OBlock b)) Failed && grp_failed sh fin (SBlock b) GDeferred) = false).
    { destruct (k_failed (m_def m)) eqn:E; auto. destruct (D4 eq_refl) as [Hc Ic].
      rewrite D5 by (unfold bfailed; rewrite E; now rewrite orb_true_r). unfold grp_failed, failed_in_fin.
      rewrite Hc, (Agb _ Hc). fold f in Ic. now rewrite Ic. }
    rewrite C11. fold (bfailed m). destruct (bfailed m) eqn:Bf; [|reflexivity].
    (* the plan: Failed with reason Block, or ContCheck of the plan *)
    assert (Bb : bbad sh f = true) by (eapply bbad_intro; eauto).
    assert (Gp : gbad sh f GPre = false).
    { unfold gbad. unfold closed_ok in Cp. destruct (ppres sh GPre); auto.
      pose proof (pi_img _ _ P GPre) as Gi. cbn [tget] in Gi. rewrite Cp in Gi. simpl in Gi. unfold f. now rewrite Gi. }
    assert (Agp : grp_failed sh fin SPlan GCont = gbad sh f GCont).
    { unfold grp_failed, gbad, failed_in_fin. rewrite has_ppres. destruct (ppres sh GCont) eqn:E; auto. simpl.
      now rewrite (agrees_status _ _ _ _ _ Ag (in_all_group _ _ E)). }
    unfold failed_in_fin. rewrite Ap, Fs, (c_reason _ _ C), Fr, Fi, Agp. cbn [fst snd].
    unfold stage_of. rewrite Gp, Bb. destruct (gbad sh f GCont); reflexivity.
Qed.

Lemma chk_op_plan_foreign b e g op : chk_op e = Some (SPlan, g, op) -> foreign b e.
Proof.
  intro H. destruct (chk_op_inv _ _ _ _ H) as
    [(i & -> & _)|[(i & o & -> & _)|[(i & r & -> & _)|[(i & n & ok & r & -> & _)
    |[(i & st & n & ok & r & -> & _)|(st & r & -> & _)]]]]]; repeat split; simpl; discriminate.
Qed.

Lemma other_block_foreign b b' e : ev_block e = Some b' -> b' <> b -> foreign b e.
Proof.
  intros He Ne. repeat split.
  - rewrite He. intro Q. injection Q as Q. auto.
  - intros st n ok r ->. discriminate He.
  - intros fin ->. discriminate He.
Qed.

Lemma Rb_handle sh b bs s m e s' :
  block_of sh b = Some bs -> Rb sh b s m -> handle sh s e = Some s' ->
  exists m', mstep sh (SBlock b) m e = Some m' /\ Rb sh b s' m'.
Proof.
  intros Hb R H. pose proof R as [I (C & L)]. pose proof (inv_handle _ _ _ _ I H) as I'.
  destruct (handle_cases _ _ _ _ H) as
    [g op x owed Hc Ha _ U Er|b' bs' g op x owed Hc Cb Ha _ U Er|b' bs' q sq sq' owed Cb Hq Ht U Er
    |b' bs' stt r -> Cb Hw U Er|stt r -> Hw U Hr|a l -> Hl E1 E2 E3 E4 E5 E6 _ _ Er|snap -> ->
    |fin -> Ph Tm Ag E1 E2 E3 E4 E5 E6 _ Er].
  - destruct U as [Ui Up Ug Ut Uc Ub Ul Uf]. eapply Rb_foreign; eauto. eapply chk_op_plan_foreign; eauto.
  - destruct (cur_block_spec _ _ _ _ Cb) as (Ph & Eb & Hb'). destruct (Nat.eq_dec b' b) as [->|Ne].
    + rewrite Hb in Hb'. injection Hb' as <-. eapply Rb_block_chk; eauto. split; auto.
    + destruct U as [Ui Up Ug Ut Uc Ub Ul Uf]. eapply Rb_foreign; eauto.
      * eapply other_block_foreign; eauto. eapply chk_op_block; eauto.
      * intros [_ Q]. congruence.
  - destruct (cur_block_spec _ _ _ _ Cb) as (Ph & Eb & Hb'). destruct (Nat.eq_dec b' b) as [->|Ne].
    + rewrite Hb in Hb'. injection Hb' as <-. eapply Rb_seq; eauto. split; auto.
    + destruct U as [Ui Up Ug Ut Uc Ub Ul Uf]. eapply Rb_foreign; eauto.
      * eapply other_block_foreign; eauto. eapply seq_trans_block; eauto.
      * intros [_ Q]. congruence.
  - destruct (cur_block_spec _ _ _ _ Cb) as (Ph & Eb & Hb'). destruct (Nat.eq_dec b' b) as [->|Ne].
    + eapply Rb_block_write; eauto. split; auto.
    + destruct U as [Ui Up Ug Ut Uc Ub Ul Uf]. eapply Rb_foreign; eauto.
      * eapply other_block_foreign; eauto. reflexivity.
  - eapply Rb_plan_write; eauto.
  - exists m. split; [unfold mstep; cbn [mstep_d is_overrun negb]; now rewrite andb_false_r|].
    split; [exact I'|]. destruct C as [C1 C2 C3]. split.
    + constructor; rewrite ?E1, ?Er; auto. now rewrite (released_same s s').
    + destruct I as [[P _] _].
      eapply (regimes_keep sh b s s' m m);
        [exact L|reflexivity|reflexivity|intros o _; now rewrite E1|left; exact E2
        |exact E5|intros _; exact E6|intro Pf; eapply PF_handle; eauto].
  - exists m. split; [reflexivity|exact R].
  - destruct C as [C1 C2 C3].
    assert (Lv : m_rel m = false) by (rewrite C3; apply not_released; rewrite Ph; discriminate).
    exists (with_rel m). split.
    + unfold mstep. cbn [mstep_d]. rewrite Lv.
      now rewrite (block_release_code sh b bs s m fin Hb I (conj (Build_common _ _ C1 C2 C3) L) Ph Tm Ag).
    + split; [exact I'|]. split.
      * constructor; simpl; rewrite ?E1, ?Er; auto. unfold released. now rewrite E2.
      * destruct I as [[P _] _].
        eapply (regimes_keep sh b s s' m (with_rel m));
          [exact L|reflexivity|now intros []|intros o _; now rewrite E1|right; split; [exact Ph|exact E2]
          |exact E5|intros _; exact E6|intro Pf; eapply PF_handle; eauto].
Qed.

(* ---- the block ends: from the current-block relation to the frozen one ---- *)
Lemma cur_to_done sh b bs s m f :
  block_of sh b = Some bs -> inv sh s -> cur s b -> link_cur sh b s m ->
  b_eps bs (s_img s) b (p_visible s) (s_b s) = Some (BFinished f) ->
  forall s1, s_img s1 = s_img s -> PF sh s1 -> link_done sh b s1 m.
Proof.
  intros Hb I Cu [S T] Be s1 Ei Pf. pose proof (cur_binv sh b bs Hb s I Cu) as Bn.
  destruct I as [[P X] Y]. destruct Cu as [Ph Ec].
  destruct (b_eps_finished _ _ _ _ _ _ Be) as (Bp & Nl & Ef & Eb).
  destruct (bi_tab _ _ _ _ _ Bn) as [A Tb]. rewrite Bp in Tb. cbn [bstage] in Tb. cbn zeta in Tb.
  pose proof (bi_img _ _ _ _ _ Bn) as Gi.
  (* every tracked group is idle *)
  assert (Idle : forall g, tracked g = true -> g_is_idle (tget (b_g (s_b s)) g) = true).
  { intros g Tg. destruct Tb as [(E1 & E2 & E3 & E4 & E5 & _)|(Nb & _ & Lc & _ & Id)].
    - destruct g; try discriminate Tg; cbn [tget]; rewrite ?E1, ?E3, ?E5; reflexivity.
    - destruct g; try discriminate Tg; cbn [tget].
      + eapply not_taken_idle; eauto.
      + unfold cont_late in Lc. destruct (bpres bs GCont).
        * destruct Lc as (_ & Hn & Hd). destruct (b_thr (s_b s)); [destruct (Hn eq_refl) as [v ->]; reflexivity|discriminate Nl|now apply Hd].
        * destruct Lc as [-> _]. reflexivity.
      + now apply idle_once_idle. }
  assert (Tk : forall g, tracked g = true ->
            k_open (m_track m g) = false
            /\ k_failed (m_track m g) = status_eqb (ist (s_img s) (OChecks (SBlock b) g)) Failed
            /\ k_runs (m_track m g) = g_runs (tget (b_g (s_b s)) g)
            /\ (1 <= g_runs (tget (b_g (s_b s)) g) -> k_done (m_track m g) = true)).
  { intros g Tg. eapply idle_track; [apply Idle; auto|apply T; auto|apply Gi]. }
  destruct (Tk GBypass eq_refl) as (Ob & Fb & Rb' & Db). destruct (Tk GCont eq_refl) as (Oc & Fc & _ & _).
  destruct (Tk GDeferred eq_refl) as (Od & Fd & Rd & _). cbn [m_track tget] in *.
  assert (Abs : forall g, bpres bs g = false -> ist (s_img s) (OChecks (SBlock b) g) = NotStarted).
  { intros g Pg. pose proof (Gi g) as Q. rewrite (A g Pg) in Q. exact Q. }
  assert (St : m_started m = true).
  { rewrite S. cbn [scope_obj]. destruct (status_eqb (ist (s_img s) (OBlock b)) NotStarted) eqn:E; auto.
    apply status_eqb_eq in E. exfalso. rewrite <- Ec in E. apply (y_bstarted _ Y Ph); [rewrite Bp; discriminate|exact E]. }
  constructor; rewrite ?Ei.
  - intros g Tg. apply (Tk g Tg).
  - rewrite (has_bpres sh b bs Hb). intro Pd. rewrite Rd. unfold entered. rewrite St, (has_bpres sh b bs Hb). cbn [andb].
    destruct Tb as [(E1 & _ & _ & _ & E5 & _)|(Nb & _ & _ & _ & Id)].
    + assert (Hbp : bpres bs GBypass = true).
      { destruct (bpres bs GBypass) eqn:E; auto. specialize (A GBypass E). cbn [tget] in A. unfold g0 in A. congruence. }
      pose proof (Gi GBypass) as Q. cbn [tget] in Q. rewrite E1 in Q. simpl in Q.
      rewrite Hbp, Fb, Q, E5. simpl. now rewrite andb_false_r.
    + assert (Ent : negb (bpres bs GBypass) || k_done (m_byp m) && k_failed (m_byp m) = true).
      { unfold not_taken in Nb. destruct (bpres bs GBypass); [|reflexivity]. cbn [negb orb].
        rewrite Db by (rewrite Nb; simpl; lia). pose proof (Gi GBypass) as Q. cbn [tget] in Q. rewrite Nb in Q. simpl in Q.
        now rewrite Fb, Q. }
      rewrite Ent.
      assert (Nbt : ~ btaken (s_b s)).
      { intro Q. unfold btaken in Q. unfold not_taken in Nb. destruct (bpres bs GBypass); unfold g0 in *; congruence. }
      pose proof (x_bdef _ _ X Ph bs) as Xd. rewrite Ec in Xd. specialize (Xd Hb Bp Nbt Pd).
      destruct Id as [E|[v E]]; [now elim Xd|]. now rewrite E.
  - intro Q. rewrite Fc in Q. apply status_eqb_eq in Q. split; [|exact Q].
    rewrite (has_bpres sh b bs Hb). destruct (bpres bs GCont) eqn:E; auto. rewrite (Abs _ E) in Q. discriminate.
  - intro Q. rewrite Fd in Q. apply status_eqb_eq in Q. split; [|exact Q].
    rewrite (has_bpres sh b bs Hb). destruct (bpres bs GDeferred) eqn:E; auto. rewrite (Abs _ E) in Q. discriminate.
  - intro Bf. rewrite Eb. destruct (b_cause (s_b s)) eqn:Cs; [reflexivity|]. exfalso.
    pose proof (bi_fine _ _ _ _ _ Bn Cs) as Fw. unfold fine_w in Fw. rewrite Bp in Fw. cbn [bstage] in Fw.
    destruct Tb as [(_ & _ & E3 & _ & E5 & _)|(Nb & _ & _ & _ & _)].
    + unfold bfailed in Bf. rewrite Fc, Fd in Bf.
      pose proof (Gi GCont) as Q1. pose proof (Gi GDeferred) as Q2. cbn [tget] in Q1, Q2. rewrite E3 in Q1. rewrite E5 in Q2.
      simpl in Q1, Q2. rewrite Q1, Q2 in Bf. discriminate.
    + assert (Nbt : ~ btaken (s_b s)).
      { intro Q. unfold btaken in Q. unfold not_taken in Nb. destruct (bpres bs GBypass); unfold g0 in *; congruence. }
      destruct (Fw Nbt) as (_ & _ & _ & _ & Cd & Cf & Ct).
      unfold bfailed in Bf. rewrite Fc, Fd in Bf.
      assert (Z1 : status_eqb (ist (s_img s) (OChecks (SBlock b) GCont)) Failed = false).
      { destruct (bpres bs GCont) eqn:E; [|now rewrite (Abs _ E)].
        assert (Td : b_thr (s_b s) = TDrained) by (destruct (b_thr (s_b s)); [now elim (Ct eq_refl)|discriminate Nl|reflexivity]).
        destruct (Cf Td eq_refl) as [r Er]. pose proof (Gi GCont) as Q. cbn [tget] in Q. rewrite Er in Q. simpl in Q. now rewrite Q. }
      assert (Z2 : status_eqb (ist (s_img s) (OChecks (SBlock b) GDeferred)) Failed = false).
      { unfold closed_ok in Cd. destruct (bpres bs GDeferred) eqn:E; [|now rewrite (Abs _ E)].
        pose proof (Gi GDeferred) as Q. cbn [tget] in Q. rewrite Cd in Q. simpl in Q. now rewrite Q. }
      rewrite Z1, Z2 in Bf. discriminate.
  - exact Pf.
Qed.

(* ---- block b is entered ---- *)
Lemma before_to_cur sh b bs s m s1 :
  block_of sh b = Some bs -> link_before sh b s m -> s_img s1 = s_img s -> s_b s1 = block_start sh b ->
  link_cur sh b s1 m.
Proof.
  intros Hb [L1 L2 L3 L4 L5] Ei Eb. split.
  - unfold started_rel. rewrite L1, Ei. cbn [scope_obj]. now rewrite L3.
  - rewrite Eb, Ei. unfold block_start. rewrite Hb. intros g Tg. rewrite L2 by auto.
    assert (E0 : tget (b_g (b_init bs)) g = g0) by (destruct g; reflexivity). rewrite E0.
    apply grel_init. intros i _. apply L4.
Qed.

Lemma Rb_eps sh b bs s m s1 :
  block_of sh b = Some bs -> Rb sh b s m -> eps sh s = Some s1 -> Rb sh b s1 m.
Proof.
  intros Hb [I (C & L)] H. pose proof (inv_eps _ _ _ I H) as I1. split; [exact I1|].
  destruct (eps_cases _ _ _ H) as [Ei Er _ _ _ [_ F2] [T1 T2] Bm]. destruct C as [C1 C2 C3].
  split.
  { constructor; rewrite ?Ei, ?Er; auto. rewrite C3. now rewrite !not_released. }
  pose proof I as [[P _] _].
  assert (Pf1 : PF sh s -> PF sh s1) by (intro Q; eapply PF_eps; eauto).
  destruct L as [[Cu Lc]|[[Nc Lb]|[Pa Ld]]].
  - (* block b is the current block *)
    pose proof Cu as [Ph Ec].
    destruct Bm as [_ _ _ Hn|Pp _ _ _|bs' _ Ph1 Ec1 Hb' Be|bs' _ Ph1 Ec1 Eb1 Hb' Be|bs' _ Ph1 Ec1 Eb1 Hb' Be].
    + destruct (Hn Ph) as [Q _]. rewrite Ec, Hb in Q. discriminate.
    + rewrite Ph in Pp. discriminate.
    + left. split; [split; congruence|]. destruct Lc as [S T]. split.
      * unfold started_rel. now rewrite Ei.
      * rewrite Ei. rewrite Ec in Be. destruct (b_eps_stay _ _ _ _ _ _ Be) as [Ts _]. eapply tracks_rel_settle; eauto.
    + right. right. rewrite Ec, Hb in Hb'. injection Hb' as <-. rewrite Ec in Be. split.
      * split; [unfold after_pre; rewrite Ph1; repeat split; discriminate|]. right. split; [congruence|rewrite Ph1; discriminate].
      * apply (cur_to_done sh b bs s m true Hb I Cu Lc Be s1 Ei). apply Pf1. now apply PF_blocks.
    + right. right. rewrite Ec, Hb in Hb'. injection Hb' as <-. rewrite Ec in Be. split.
      * split; [unfold after_pre; rewrite Ph1; repeat split; discriminate|]. left. lia.
      * apply (cur_to_done sh b bs s m false Hb I Cu Lc Be s1 Ei). apply Pf1. now apply PF_blocks.
  - (* nothing of block b has happened *)
    assert (Lb1 : link_before sh b s1 m).
    { destruct Lb as [L1 L2 L3 L4 L5]. constructor; rewrite ?Ei; auto. }
    destruct Bm as [Ec1 Eb1 Np _|Pp Ph1 Ec1 Eb1|bs' Ph Ph1 Ec1 Hb' Be|bs' _ Ph1 Ec1 Eb1 Hb' Be|bs' Ph Ph1 Ec1 Eb1 Hb' Be].
    + right. left. split; [intros [Q _]; now elim Np|exact Lb1].
    + destruct (Nat.eq_dec b 0) as [->|Ne].
      * left. split; [split; auto|]. eapply before_to_cur; eauto.
      * right. left. split; [intros [_ Q]; lia|exact Lb1].
    + right. left. split; [|exact Lb1]. intros [_ Q]. apply Nc. split; congruence.
    + right. left. split; [|exact Lb1]. intros [Q _]. rewrite Ph1 in Q. discriminate.
    + destruct (Nat.eq_dec b (S (s_cb s))) as [->|Ne].
      * left. split; [split; auto|]. eapply before_to_cur; eauto.
      * right. left. split; [intros [_ Q]; lia|exact Lb1].
  - (* block b is over *)
    right. right. pose proof (ld_pf _ _ _ _ Ld) as Pf. pose proof (Pf1 Pf) as Pf'. split.
    + destruct Pa as [(N1 & N2 & N3) Q]. split; [apply Pf'|].
      destruct Bm as [Ec1 Eb1 Np _|Pp _ _ _|bs' Ph Ph1 Ec1 Hb' Be|bs' _ Ph1 Ec1 Eb1 Hb' Be|bs' Ph Ph1 Ec1 Eb1 Hb' Be].
      * rewrite Ec1. destruct Q as [Q|[Q _]]; [now left|right; split; auto].
      * now elim N3.
      * rewrite Ec1. destruct Q as [Q|[_ Q]]; [now left|now elim Q].
      * rewrite Ec1. destruct Q as [Q|[Q _]]; [now left|right; split; [exact Q|rewrite Ph1; discriminate]].
      * rewrite Ec1. destruct Q as [Q|[_ Q]]; [left; lia|now elim Q].
    + destruct Ld as [D1 D2 D3 D4 D5 _]. constructor; rewrite ?Ei; auto.
Qed.

Lemma link_block_init sh b : link_block sh b init (m_init sh (SBlock b)).
Proof.
  split; [constructor; reflexivity|]. right. left. split; [intros [Q _]; discriminate Q|].
  constructor; try reflexivity.
  - intros g Tg. destruct g; try discriminate Tg; reflexivity.
  - intros g i. discriminate.
Qed.

(* a block scope: every accepted trace satisfies the monitor *)
Theorem block_scope_holds sh b bs tr s :
  block_of sh b = Some bs -> run sh init tr = Some s ->
  exists m, mfold sh (SBlock b) (m_init sh (SBlock b)) tr = Some m /\ Rb sh b s m.
Proof.
  intros Hb H. rewrite mfold_mrun.
  apply (product_run mst (mstep sh (SBlock b)) sh (Rb sh b)) with (s := init); auto.
  - intros s0 m s1. apply (Rb_eps sh b bs); auto.
  - intros s0 m e s'. apply (Rb_handle sh b bs); auto.
  - intros s0 m e R St. exists m. split; [|exact R]. destruct R as [_ (C & _)]. eapply stutter_step; eauto.
  - split; [|apply link_block_init]. apply (inv_reach sh []). reflexivity.
Qed.
