(* C07Block - the product of the automaton with the C07 monitor of a BLOCK scope.  Proofs only.
   Three regimes of block b: nothing of it has happened yet (LinkBefore), it is the current block (LinkCur),
   it is over (LinkDone).  *)
From Coq Require Import Lia.
From Coercion.Base Require Import Plan.
From Coercion.Engine Require Import Shape Event Action ChecksRun Seq Block Final PlanSM Auto Accept AutoLemmas.
From Coercion.C07 Require Import MonC07 Groups Steps Tab Inv FinalFacts InvPlan C07Rel C07Eps C07XInv C07YInv C07Link C07Fin C07Plan.

(* ---- once the blocks run: the plan was not bypassed and its pre-checks passed (stable) ---- *)
Definition after_pre (s : st) : Prop := s_ph s <> PStart /\ s_ph s <> PBypass /\ s_ph s <> PPre.

Definition PF (sh : shape) (s : st) : Prop :=
  after_pre s /\ ~ ptaken s /\ closed_ok (ppres sh GPre) (t_pre (s_g s)).

Lemma PF_blocks sh s : pinv sh s -> s_ph s = PBlocks -> PF sh s.
Proof.
  intros P Ph. destruct (pi_tab _ _ P) as [_ T]. rewrite Ph in T. cbn [pstage] in T. cbn zeta in T.
  destruct T as (Nb & Cp & _). split; [|split].
  - unfold after_pre. rewrite Ph. repeat split; discriminate.
  - intro Q. unfold ptaken in Q. unfold not_taken in Nb. destruct (ppres sh GBypass); unfold g0 in *; congruence.
  - exact Cp.
Qed.

Lemma settle_idle dst g x : settle dst g x -> g_is_idle g = true -> x = g.
Proof. intros [y|r acts _ _] H; [reflexivity|discriminate]. Qed.

Lemma closed_ok_idle' p g : closed_ok p g -> g_is_idle g = true.
Proof. apply closed_ok_idle. Qed.

Lemma PF_eps sh s s1 : pinv sh s -> PF sh s -> eps sh s = Some s1 -> PF sh s1.
Proof.
  intros P ((N1 & N2 & N3) & Nt & Cp) H. destruct (eps_cases _ _ _ H) as [_ _ _ _ Eg _ [T1 _] Bm].
  assert (Ep : t_pre (s_g s1) = t_pre (s_g s)).
  { apply (settle_idle _ _ _ (Eg GPre)). cbn [tget]. eapply closed_ok_idle; eauto. }
  assert (Ebp : g_is_idle (t_bypass (s_g s)) = true).
  { destruct (pi_tab _ _ P) as [_ T]. destruct (s_ph s); try (now elim N1); try (now elim N2); try (now elim N3);
      cbn [pstage] in T; cbn zeta in T.
    - destruct T as (Nb & _). eapply not_taken_idle; eauto.
    - destruct T as (Nb & _). eapply not_taken_idle; eauto.
    - destruct T as (Nb & _). eapply not_taken_idle; eauto.
    - destruct T as [(Eb & _)|(Nb & _)]; [now rewrite Eb|eapply not_taken_idle; eauto].
    - destruct T as [(Eb & _)|(Nb & _)]; [now rewrite Eb|eapply not_taken_idle; eauto]. }
  assert (Eb : t_bypass (s_g s1) = t_bypass (s_g s)) by (apply (settle_idle _ _ _ (Eg GBypass)); exact Ebp).
  split; [|split].
  - (* phases only move forward *)
    unfold after_pre. unfold eps, p_eps in H. destruct (s_ph s) eqn:Ph; try (now elim N1); try (now elim N2); try (now elim N3); try discriminate H.
    + destruct (block_of sh (s_cb s)).
      * destruct (b_eps b (s_img s) (s_cb s) (p_visible s) (s_b s)) as [[b'|[|]]|]; try discriminate H; injection H as <-.
        -- cbn. rewrite Ph. repeat split; discriminate.
        -- cbn. repeat split; discriminate.
        -- destruct (enter_block_all sh s (S (s_cb s))) as (_ & _ & _ & _ & _ & E6 & _). rewrite E6, Ph.
           repeat split; discriminate.
      * injection H as <-. cbn. repeat split; discriminate.
    + destruct (thr_live (s_thr s)).
      * destruct (g_settle (t_cont (s_g s)) (ist (s_img s) (OChecks SPlan GCont))) as [x|]; [|discriminate]. injection H as <-.
        destruct (g_dead x); cbn; rewrite ?Ph; repeat split; discriminate.
      * destruct (once_done (present (g_post (sh_groups sh))) (t_post (s_g s)) (ist (s_img s) (OChecks SPlan GPost))) as [[x v]|]; [|discriminate].
        injection H as <-. cbn. repeat split; discriminate.
    + destruct (thr_live (s_thr s)).
      * destruct (g_settle (t_cont (s_g s)) (ist (s_img s) (OChecks SPlan GCont))) as [x|]; [|discriminate]. injection H as <-.
        cbn; rewrite ?Ph; repeat split; discriminate.
      * destruct (once_done (present (g_deferred (sh_groups sh))) (t_deferred (s_g s)) (ist (s_img s) (OChecks SPlan GDeferred))) as [[x v]|]; [|discriminate].
        injection H as <-. cbn. repeat split; discriminate.
  - unfold ptaken in *. now rewrite Eb.
  - now rewrite Ep.
Qed.

Lemma PF_handle sh s e s' : pinv sh s -> PF sh s -> handle sh s e = Some s' -> PF sh s'.
Proof.
  intros P ((N1 & N2 & N3) & Nt & Cp) H.
  assert (Same : s_ph s' = s_ph s \/ (s_ph s = PEnd /\ s_ph s' = PReleased) ->
                 t_bypass (s_g s') = t_bypass (s_g s) -> t_pre (s_g s') = t_pre (s_g s) -> PF sh s').
  { intros Ep Eb Epr. unfold PF, after_pre, ptaken in *. rewrite Eb, Epr. split; [|auto].
    destruct Ep as [-> | [_ ->]]; auto. repeat split; discriminate. }
  destruct (handle_cases _ _ _ _ H) as
    [g op x owed Hc Ha _ U Er|b bs g op x owed Hc Cb Ha _ U Er|b bs q sq sq' owed Cb Hq Ht U Er
    |b bs stt r -> Cb Hw U Er|stt r -> Hw U Hr|a l -> Hl E1 E2 E3 E4 E5 E6 _ _ Er|snap -> ->
    |fin -> Ph Tm Ag E1 E2 E3 E4 E5 E6 _ Er];
    try (destruct U as [Ui Up Ug Ut Uc Ub Ul Uf]; apply Same; [now left|now rewrite Ug|now rewrite Ug]).
  - destruct U as [Ui Up Ug Ut Uc Ub Ul Uf].
    assert (Ng : g <> GBypass /\ g <> GPre).
    { assert (Ib : g_is_idle (t_bypass (s_g s)) = true).
      { destruct (pi_tab _ _ P) as [_ T]. destruct (s_ph s); try (now elim N1); try (now elim N2); try (now elim N3);
          cbn [pstage] in T; cbn zeta in T.
        - destruct T as (Nb & _). eapply not_taken_idle; eauto.
        - destruct T as (Nb & _). eapply not_taken_idle; eauto.
        - destruct T as (Nb & _). eapply not_taken_idle; eauto.
        - destruct T as [(Eb & _)|(Nb & _)]; [now rewrite Eb|eapply not_taken_idle; eauto].
        - destruct T as [(Eb & _)|(Nb & _)]; [now rewrite Eb|eapply not_taken_idle; eauto]. }
      split; intro Q; subst g.
      - pose proof (plan_not_idle _ _ _ _ _ _ _ Ha Ib) as [Q _]. destruct (s_ph s); try discriminate Q. now elim N2.
      - pose proof (plan_not_idle _ _ _ _ _ _ _ Ha (closed_ok_idle _ _ Cp)) as [Q _]. destruct (s_ph s); try discriminate Q. now elim N3. }
    destruct Ng as [G1 G2]. apply Same; [now left| |]; rewrite Ug.
    + change (tget (tset (s_g s) g x) GBypass = tget (s_g s) GBypass). now apply tget_tset_other.
    + change (tget (tset (s_g s) g x) GPre = tget (s_g s) GPre). now apply tget_tset_other.
  - apply Same; [now left|now rewrite E3|now rewrite E3].
  - split; [|split]; auto. repeat split; auto.
  - apply Same; [right; auto|now rewrite E3|now rewrite E3].
Qed.

(* ---- the three regimes of block b ---- *)
Definition cur (s : st) (b : nat) : Prop := s_ph s = PBlocks /\ s_cb s = b.
Definition past (s : st) (b : nat) : Prop := after_pre s /\ (b < s_cb s \/ (s_cb s = b /\ s_ph s <> PBlocks)).

Definition bfailed (m : mst) : bool := k_failed (m_cont m) || k_failed (m_def m).

Record link_before (sh : shape) (b : nat) (s : st) (m : mst) : Prop := {
  lb_started : m_started m = false;
  lb_tracks : forall g, tracked g = true -> m_track m g = k_init (group_size sh (SBlock b) g);
  lb_block : ist (s_img s) (OBlock b) = NotStarted;
  lb_acts : forall g i, ist (s_img s) (act_obj (SBlock b) g i) <> Running;
  lb_chks : forall g, ist (s_img s) (OChecks (SBlock b) g) = NotStarted }.

Definition link_cur (sh : shape) (b : nat) (s : st) (m : mst) : Prop :=
  started_rel (s_img s) (SBlock b) m /\ tracks_rel sh (SBlock b) (s_img s) (b_g (s_b s)) m.

Record link_done (sh : shape) (b : nat) (s : st) (m : mst) : Prop := {
  ld_open : forall g, tracked g = true -> k_open (m_track m g) = false;
  ld_def : has sh (SBlock b) GDeferred = true -> k_runs (m_def m) = if entered sh (SBlock b) m then 1 else 0;
  ld_cont : k_failed (m_cont m) = true ->
            has sh (SBlock b) GCont = true /\ ist (s_img s) (OChecks (SBlock b) GCont) = Failed;
  ld_dfail : k_failed (m_def m) = true ->
             has sh (SBlock b) GDeferred = true /\ ist (s_img s) (OChecks (SBlock b) GDeferred) = Failed;
  ld_block : bfailed m = true -> ist (s_img s) (OBlock b) = Failed;
  ld_pf : PF sh s }.

Definition link_block (sh : shape) (b : nat) (s : st) (m : mst) : Prop :=
  common s m /\
  ((cur s b /\ link_cur sh b s m) \/ (~ cur s b /\ link_before sh b s m) \/ (past s b /\ link_done sh b s m)).

Definition Rb (sh : shape) (b : nat) (s : st) (m : mst) : Prop := inv sh s /\ link_block sh b s m.

Lemma past_not_cur s b : past s b -> ~ cur s b.
Proof. intros [_ [L|[_ N]]] [Ph Ec]; [lia|now elim N]. Qed.

(* ---- events that are not about block b ---- *)
Definition foreign (b : nat) (e : event) : Prop :=
  ev_block e <> Some b /\ (forall st n ok r, e <> EvWrite OPlan st n ok r) /\ (forall fin, e <> EvRelease fin).

Lemma foreign_skips b m e : foreign b e -> skips (SBlock b) m e.
Proof.
  intros (Nb & Np & Nr). destruct e as [a|a o|o st n ok r|snap|fin]; simpl in *; auto.
  - left. destruct a as [[|b'] g i|b' q i]; simpl in *; auto.
    + destruct (Nat.eqb b b') eqn:E; auto. apply Nat.eqb_eq in E. subst. now elim Nb.
    + destruct (Nat.eqb b b') eqn:E; auto. apply Nat.eqb_eq in E. subst. now elim Nb.
  - left. destruct a as [[|b'] g i|b' q i]; simpl in *; auto.
    + destruct (Nat.eqb b b') eqn:E; auto. apply Nat.eqb_eq in E. subst. now elim Nb.
    + destruct (Nat.eqb b b') eqn:E; auto. apply Nat.eqb_eq in E. subst. now elim Nb.
  - repeat split.
    + intros g i _ Q. subst o. now elim Nb.
    + intro Q. subst o. now elim (Np st n ok r).
    + intros Q. subst o. now elim Nb.
  - now elim (Nr fin).
Qed.

(* ... and leave the objects of block b alone *)
Lemma foreign_frame b e im o : foreign b e -> obj_block o = Some b -> iget (ev_img e im) o = iget im o.
Proof.
  intros (Nb & _) Ho. apply ev_img_other. intros st n ok r ->. simpl in Nb. congruence.
Qed.

Lemma entered_after sh sc m e : entered sh sc (m_after m e) = entered sh sc m.
Proof.
  destruct (m_after_fields m e) as (F1 & _ & _ & F4). unfold entered. rewrite F1.
  change (m_byp (m_after m e)) with (m_track (m_after m e) GBypass). now rewrite F4.
Qed.

Lemma bfailed_after m e : bfailed (m_after m e) = bfailed m.
Proof.
  destruct (m_after_fields m e) as (_ & _ & _ & F4). unfold bfailed.
  change (m_cont (m_after m e)) with (m_track (m_after m e) GCont).
  change (m_def (m_after m e)) with (m_track (m_after m e) GDeferred). now rewrite !F4.
Qed.

Section Foreign.
  Variables (sh : shape) (b : nat) (s s' : st) (m : mst) (e : event).
  Hypothesis Fe : foreign b e.
  Hypothesis Ei : s_img s' = ev_img e (s_img s).

  Lemma fr_ist o : obj_block o = Some b -> ist (s_img s') o = ist (s_img s) o.
  Proof. intro Ho. unfold ist. rewrite Ei. f_equal. now apply (foreign_frame b). Qed.

  Lemma link_before_after : link_before sh b s m -> link_before sh b s' (m_after m e).
  Proof.
    intros [L1 L2 L3 L4 L5]. destruct (m_after_fields m e) as (F1 & _ & _ & F4). constructor.
    - now rewrite F1.
    - intros g Tg. rewrite F4. auto.
    - rewrite fr_ist; auto.
    - intros g i. rewrite fr_ist; auto.
    - intros g. rewrite fr_ist; auto.
  Qed.

  Lemma link_done_after : PF sh s' -> link_done sh b s m -> link_done sh b s' (m_after m e).
  Proof.
    intros Pf [D1 D2 D3 D4 D5 _]. destruct (m_after_fields m e) as (F1 & _ & _ & F4). constructor.
    - intros g Tg. rewrite F4. auto.
    - intro Hd. rewrite entered_after. change (m_def (m_after m e)) with (m_track (m_after m e) GDeferred). rewrite F4. auto.
    - change (m_cont (m_after m e)) with (m_track (m_after m e) GCont). rewrite F4. intro Q.
      destruct (D3 Q) as [A B]. split; auto. rewrite fr_ist; auto.
    - change (m_def (m_after m e)) with (m_track (m_after m e) GDeferred). rewrite F4. intro Q.
      destruct (D4 Q) as [A B]. split; auto. rewrite fr_ist; auto.
    - rewrite bfailed_after. intro Q. rewrite fr_ist; auto.
    - exact Pf.
  Qed.

  Lemma link_cur_after : s_b s' = s_b s -> link_cur sh b s m -> link_cur sh b s' (m_after m e).
  Proof.
    intros Eb [S T]. destruct (m_after_fields m e) as (F1 & _ & _ & F4). split.
    - unfold started_rel in *. rewrite F1, S. cbn [scope_obj]. rewrite fr_ist; auto.
    - rewrite Eb. intros g Tg. rewrite F4. eapply grel_frame; [apply T; auto|]. intro j. apply fr_ist. reflexivity.
  Qed.
End Foreign.

(* a handled event that is not about block b *)
Lemma Rb_foreign sh b s s' m e :
  Rb sh b s m -> handle sh s e = Some s' -> foreign b e ->
  s_img s' = ev_img e (s_img s) -> s_ph s' = s_ph s -> s_cb s' = s_cb s -> (cur s b -> s_b s' = s_b s) ->
  s_reason s' = s_reason s ->
  exists m', mstep sh (SBlock b) m e = Some m' /\ Rb sh b s' m'.
Proof.
  intros [I (C & L)] H Fe Ei Ep Ec Eb Er. pose proof (inv_handle _ _ _ _ I H) as I'.
  exists (m_after m e). split; [unfold mstep; now rewrite (skip_step sh (SBlock b) m e (foreign_skips b m e Fe))|].
  split; [exact I'|]. split; [apply (common_after s); auto; now apply released_same|].
  assert (Cs : cur s' b <-> cur s b) by (unfold cur; now rewrite Ep, Ec).
  destruct L as [[Cu Lc]|[[Nc Lb]|[Pa Ld]]].
  - left. split; [now apply Cs|]. eapply link_cur_after; eauto.
  - right. left. split; [intro Q; apply Nc; now apply Cs|]. eapply link_before_after; eauto.
  - right. right. split.
    + unfold past, after_pre in *. now rewrite Ep, Ec.
    + eapply link_done_after; eauto. destruct I as [[P _] _]. eapply PF_handle; eauto. apply (ld_pf _ _ _ _ Ld).
Qed.

(* ---- the current block ---- *)
Section Cur.
  Variables (sh : shape) (b : nat) (bs : bshape).
  Hypothesis Hb : block_of sh b = Some bs.

  Lemma block_size g rs : grp_get (bs_groups bs) g = Some rs -> length rs = group_size sh (SBlock b) g.
  Proof. unfold group_size, group_of. simpl. rewrite Hb. simpl. now intros ->. Qed.
  Lemma has_bpres g : has sh (SBlock b) g = bpres bs g.
  Proof. unfold has, bpres, group_of, present. simpl. rewrite Hb. simpl. now destruct (grp_get (bs_groups bs) g). Qed.

  Lemma cur_binv s : inv sh s -> cur s b -> binv bs (s_img s) b (g_dead (t_cont (s_g s))) (s_b s).
  Proof. intros [[P _] _] [Ph Ec]. pose proof (pi_block _ _ P Ph) as Bn. now rewrite Ec, Hb in Bn. Qed.

  Lemma block_def0 s m :
    inv sh s -> cur s b -> link_cur sh b s m ->
    bstage (b_ph (s_b s)) <> SgDeferred -> bstage (b_ph (s_b s)) <> SgEnd -> k_runs (m_def m) = 0.
  Proof.
    intros I Cu [_ T] N1 N2. pose proof (cur_binv s I Cu) as Bn.
    pose proof (tab_def0 _ _ _ _ (bi_tab _ _ _ _ _ Bn) N1 N2) as E.
    pose proof (T GDeferred eq_refl) as R. cbn [tget m_track] in R. rewrite E in R. eapply grel_g0_runs; eauto.
  Qed.

  Lemma block_entered s m :
    inv sh s -> cur s b -> link_cur sh b s m -> b_ph (s_b s) = BDeferred -> entered sh (SBlock b) m = true.
  Proof.
    intros I Cu [S T] Ph. pose proof (cur_binv s I Cu) as Bn. destruct I as [_ Y]. destruct Cu as [Pp Ec].
    unfold entered. apply andb_true_iff. split.
    - rewrite S. cbn [scope_obj]. destruct (status_eqb (ist (s_img s) (OBlock b)) NotStarted) eqn:E; auto.
      apply status_eqb_eq in E. exfalso. rewrite <- Ec in E. apply (y_bstarted _ Y Pp); [rewrite Ph; discriminate|exact E].
    - rewrite has_bpres. destruct (bi_tab _ _ _ _ _ Bn) as [_ Tb]. rewrite Ph in Tb. cbn [bstage] in Tb. cbn zeta in Tb.
      destruct Tb as (Nb & _). unfold not_taken in Nb. destruct (bpres bs GBypass); [|reflexivity]. simpl.
      pose proof (T GBypass eq_refl) as R. cbn [tget m_track] in R. rewrite Nb in R.
      destruct R as [_ (A & _ & C & _)]. destruct (C (le_n 1)) as [Ov El].
      unfold k_done. rewrite A, Ov. simpl. injection El as El. destruct (k_failed (m_byp m)); [reflexivity|discriminate].
  Qed.
End Cur.

Lemma link_block_cur sh b s m : link_block sh b s m -> cur s b -> common s m /\ link_cur sh b s m.
Proof.
  intros (C & [[_ L]|[[N _]|[Pa _]]]) Cu; [auto|now elim N|now elim (past_not_cur _ _ Pa)].
Qed.

Lemma Rb_block_chk sh b bs s s' m e g op x owed :
  block_of sh b = Some bs -> Rb sh b s m -> handle sh s e = Some s' -> cur s b ->
  chk_op e = Some (SBlock b, g, op) ->
  g_apply (grp_get (bs_groups bs) g) (b_may_start (s_b s) g) (ist (s_img s) (OChecks (SBlock b) g)) (ev_cell s e)
          (tget (b_g (s_b s)) g) op = Some (x, owed) ->
  upd_spec s s' e (s_g s) (b_with_g (s_b s) (tset (b_g (s_b s)) g x)) owed -> s_reason s' = s_reason s ->
  exists m', mstep sh (SBlock b) m e = Some m' /\ Rb sh b s' m'.
Proof.
  intros Hb [I L] H Cu Hc Ha U Er. pose proof (inv_handle _ _ _ _ I H) as I'.
  destruct (link_block_cur _ _ _ _ L Cu) as [C Lc]. pose proof Lc as [S T].
  pose proof (cur_binv sh b bs Hb s I Cu) as Bn. destruct U as [Ui Up Ug Ut Uc Ub Ul Uf].
  assert (Cu' : cur s' b) by (destruct Cu; split; congruence).
  assert (Lv : m_rel m = false).
  { rewrite (c_rel _ _ C). apply not_released. destruct Cu as [-> _]. discriminate. }
  assert (Early : (g = GBypass \/ g = GPre \/ g = GPost) -> (exists r acts, tget (b_g (s_b s)) g = GRun r acts) ->
                  k_runs (m_def m) = 0).
  { intros Gg (r & acts & Hg). destruct (tab_running_early _ _ _ _ _ _ _ (bi_tab _ _ _ _ _ Bn) Hg Gg) as [N1 N2].
    exact (block_def0 sh b bs Hb s m I Cu Lc N1 N2). }
  assert (Fo : ist (s_img s') (OBlock b) = ist (s_img s) (OBlock b)).
  { rewrite Ui. unfold ist. f_equal. eapply chk_op_frame; eauto; discriminate. }
  assert (Com : forall m', (forall o, iget (m_img m') o = iget (ev_img e (s_img s)) o) ->
                m_rel m' = m_rel m -> m_reason m' = m_reason m -> common s' m').
  { intros m' F1 F2 F3. constructor; [now rewrite Ui| |].
    - rewrite F3, Er. apply (c_reason _ _ C).
    - rewrite F2, (released_same s s') by exact Up. apply (c_rel _ _ C). }
  destruct (tracked g) eqn:Tg.
  - assert (Hmay : b_may_start (s_b s) g = true ->
             (g_runs (tget (b_g (s_b s)) g) = 0 \/ g_dead (tget (b_g (s_b s)) g) = false)
             /\ (g = GDeferred -> entered sh (SBlock b) m = true /\ g_runs (tget (b_g (s_b s)) g) = 0)).
    { intro M. pose proof (b_may_start_spec _ _ M) as Al. split; [eapply allowed_may; eauto|].
      intros ->. destruct Al as [Sd Z]. split; [|exact Z].
      apply (block_entered sh b bs Hb s); auto. destruct (b_ph (s_b s)); try discriminate Sd; reflexivity. }
    assert (Hbyp : g = GBypass -> (exists r acts, tget (b_g (s_b s)) g = GRun r acts) -> k_runs (m_def m) = 0).
    { intros ->. apply Early. now left. }
    destruct (track_op sh (SBlock b) (s_img s) (b_g (s_b s)) m e g op x owed _ _ _ Hc Tg Ha
                (fun rs => block_size sh b bs Hb g rs) (bi_img _ _ _ _ _ Bn g) (c_img _ _ C) T Lv Hmay Hbyp)
      as (m' & Hm & Ci & Tr & F1 & F2 & F3).
    exists m'. split; [unfold mstep; now rewrite Hm|]. split; [exact I'|]. split; [now apply Com|].
    left. split; [exact Cu'|]. split.
    + unfold started_rel in *. cbn [scope_obj] in *. now rewrite F1, Fo.
    + rewrite Ui, Ub. exact Tr.
  - assert (Gg : g = GPre \/ g = GPost) by (destruct g; try discriminate Tg; auto).
    destruct (m_after_fields m e) as (F1 & F2 & F3 & F4).
    exists (m_after m e). split.
    + unfold mstep. rewrite (skip_step sh (SBlock b) m e); [reflexivity|].
      destruct (chk_op_inv _ _ _ _ Hc) as
        [(i & -> & ->)|[(i & o & -> & ->)|[(i & r & -> & _)|[(i & n & ok & r & -> & _)
        |[(i & st & n & ok & r & -> & _)|(st & r & -> & _)]]]]]; simpl.
      * right. apply Early; [tauto|]. eapply op_running; eauto.
      * right. right. apply Early; [tauto|]. eapply op_running; eauto.
      * repeat split; try discriminate. intros g' i' Tg' Q. injection Q as -> _. congruence.
      * repeat split; try discriminate. intros g' i' Tg' Q. injection Q as -> _. congruence.
      * repeat split; try discriminate. intros g' i' Tg' Q. injection Q as -> _. congruence.
      * repeat split; try discriminate.
    + split; [exact I'|]. split; [apply Com; auto; now apply m_after_img, (c_img _ _ C)|].
      left. split; [exact Cu'|]. split.
      * unfold started_rel in *. cbn [scope_obj] in *. now rewrite F1, Fo.
      * rewrite Ub. cbn [b_g b_with_g]. intros g' Tg'. rewrite F4.
        rewrite tget_tset_other by (intro Q; subst; congruence).
        eapply grel_frame; [apply T; auto|]. intro j. rewrite Ui. unfold ist. f_equal.
        eapply chk_op_frame; eauto; [|discriminate]. intros i Q. injection Q as -> _. congruence.
Qed.

Lemma running_seq_body bs im bi pd bb q j a :
  binv bs im bi pd bb -> nth_error (b_seqs bb) q = Some (SRun j a) -> bstage (b_ph bb) = SgBody.
Proof.
  intros Bn Hq. destruct (b_ph bb) eqn:Ph; try reflexivity; exfalso;
    (assert (N : bstage (b_ph bb) <> SgBody) by (rewrite Ph; discriminate);
     pose proof (forallb_nth _ _ _ _ (bi_rest _ _ _ _ _ Bn N) Hq) as Q; discriminate Q).
Qed.

Lemma Rb_seq sh b bs s s' m e q sq sq' owed :
  block_of sh b = Some bs -> Rb sh b s m -> handle sh s e = Some s' -> cur s b ->
  nth_error (b_seqs (s_b s)) q = Some sq -> seq_trans bs (s_b s) e b q sq sq' ->
  upd_spec s s' e (s_g s) (b_with_seqs (s_b s) (upd (b_seqs (s_b s)) q sq')) owed -> s_reason s' = s_reason s ->
  exists m', mstep sh (SBlock b) m e = Some m' /\ Rb sh b s' m'.
Proof.
  intros Hb [I L] H Cu Hq Ht U Er. pose proof (inv_handle _ _ _ _ I H) as I'.
  destruct (link_block_cur _ _ _ _ L Cu) as [C Lc]. pose proof Lc as [S T].
  pose proof (cur_binv sh b bs Hb s I Cu) as Bn. destruct U as [Ui Up Ug Ut Uc Ub Ul Uf].
  assert (Cu' : cur s' b) by (destruct Cu; split; congruence).
  destruct (m_after_fields m e) as (F1 & F2 & F3 & F4).
  (* the objects the event can write *)
  assert (Fr : forall o, (forall i, o <> OAct (ASeq b q i)) -> o <> OSeq b q -> ist (s_img s') o = ist (s_img s) o).
  { intros o Na Ns. rewrite Ui. unfold ist. f_equal. apply ev_img_other. intros st n ok r ->.
    destruct Ht as [r0 Q _ _|st0 r0 v Q _|j a x i Ha _ _].
    - injection Q as -> _ _ _ _. now elim Ns.
    - injection Q as -> _ _ _ _. now elim Ns.
    - simpl in Ha. destruct o; try discriminate Ha. injection Ha as ->. now elim (Na i). }
  exists (m_after m e). split.
  - unfold mstep. rewrite (skip_step sh (SBlock b) m e); [reflexivity|].
    destruct Ht as [r0 -> _ _|st0 r0 v -> _|j a x i Ha _ _].
    + simpl. repeat split; discriminate.
    + simpl. repeat split; discriminate.
    + assert (Z : k_runs (m_def m) = 0).
      { pose proof (running_seq_body _ _ _ _ _ _ _ _ Bn Hq) as Sb.
        apply (block_def0 sh b bs Hb s m I Cu Lc); rewrite Sb; discriminate. }
      destruct e as [a0|a0 o0|o0 stt n ok r|snap|fin]; simpl in Ha; try discriminate Ha; simpl; auto.
      destruct o0; try discriminate Ha. injection Ha as ->. repeat split; discriminate.
  - split; [exact I'|]. split; [apply (common_after s); auto; now apply released_same|].
    left. split; [exact Cu'|]. split.
    + unfold started_rel in *. cbn [scope_obj] in *. rewrite F1, S, Fr; auto; discriminate.
    + rewrite Ub. cbn [b_g b_with_seqs]. intros g Tg. rewrite F4.
      eapply grel_frame; [apply T; auto|]. intro j. apply Fr; discriminate.
Qed.

Lemma Rb_block_write sh b bs s s' m stt r :
  block_of sh b = Some bs -> Rb sh b s m -> handle sh s (EvWrite (OBlock b) stt 0 false r) = Some s' -> cur s b ->
  b_write (s_b s) stt = Some (s_b s) ->
  upd_spec s s' (EvWrite (OBlock b) stt 0 false r) (s_g s) (s_b s) false -> s_reason s' = s_reason s ->
  exists m', mstep sh (SBlock b) m (EvWrite (OBlock b) stt 0 false r) = Some m' /\ Rb sh b s' m'.
Proof.
  intros Hb [I L] H Cu Hw U Er. pose proof (inv_handle _ _ _ _ I H) as I'.
  destruct (link_block_cur _ _ _ _ L Cu) as [C Lc]. pose proof Lc as [S T].
  pose proof (cur_binv sh b bs Hb s I Cu) as Bn. destruct U as [Ui Up Ug Ut Uc Ub Ul Uf].
  assert (Cu' : cur s' b) by (destruct Cu; split; congruence).
  cbn [ev_img] in Ui. set (c := {| c_st := stt; c_n := 0; c_ok := false |}) in *.
  destruct C as [C1 C2 C3].
  assert (Sync : forall o, iget (img_after (m_img m) (OBlock b) c) o = iget (s_img s') o).
  { intro o. rewrite Ui. now apply img_sync. }
  assert (Tr : forall m', (forall g, m_track m' g = m_track m g) -> tracks_rel sh (SBlock b) (s_img s') (b_g (s_b s')) m').
  { intros m' Hm. rewrite Ub, Ui. eapply tracks_rel_frame; [exact T|intros g _; apply Hm|].
    intros g j _. apply ist_iset_other. discriminate. }
  (* a Failed / Completed write comes after the Running one *)
  assert (St : stt = Running \/ ((stt = Failed \/ stt = Completed) /\ ist (s_img s) (OBlock b) <> NotStarted)).
  { destruct I as [_ Y]. destruct Cu as [Ph Ec]. unfold b_write in Hw. destruct stt; try discriminate Hw; auto; right; (split; [auto|]);
      rewrite <- Ec; apply (y_bstarted _ Y Ph).
    - destruct (bphase_eqb (b_ph (s_b s)) BEnd && negb (b_cause (s_b s)) && negb (thr_live (b_thr (s_b s)))) eqn:G; [|discriminate].
      apply andb_true_iff in G as [G _]. apply andb_true_iff in G as [G _]. destruct (b_ph (s_b s)); discriminate.
    - destruct (b_cause (s_b s)) eqn:Cs; [|discriminate].
      destruct (bi_cause _ _ _ _ _ Bn Cs) as ([Q|Q] & _); destruct (b_ph (s_b s)); discriminate. }
  assert (Rl : released s' = released s) by (apply released_same; exact Up).
  unfold mstep. cbn [mstep_d]. fold c.
  destruct (cell_eqb (iget (m_img m) (OBlock b)) c) eqn:Rep.
  - exists m. split; [reflexivity|]. split; [exact I'|].
    assert (Eq : iget (s_img s) (OBlock b) = c) by (rewrite <- C1; now apply cell_eqb_eq).
    split; [constructor; [|congruence|congruence]|].
    + intro o. rewrite <- Sync. unfold img_after. now rewrite Rep.
    + left. split; [exact Cu'|]. split; [|now apply Tr].
      unfold started_rel in *. cbn [scope_obj] in *. rewrite S, Ui, ist_iset_same. unfold ist. now rewrite Eq.
  - assert (Im : forall o, iget (iset (m_img m) (OBlock b) c) o = iget (s_img s') o).
    { intro o. rewrite <- Sync. unfold img_after. now rewrite Rep. }
    cbn [scope_obj]. rewrite obj_eqb_refl. cbn [andb].
    destruct St as [-> | [Hs Ns]].
    + simpl. eexists. split; [reflexivity|]. split; [exact I'|]. split.
      * constructor; cbn [m_img m_reason m_rel with_started with_img]; [exact Im|congruence|congruence].
      * left. split; [exact Cu'|]. split; [|apply Tr; now intros []].
        unfold started_rel. simpl. now rewrite Ui, ist_iset_same.
    + assert (Nr : status_eqb stt Running = false) by (destruct Hs as [-> | ->]; reflexivity).
      rewrite Nr. eexists. split; [reflexivity|]. split; [exact I'|]. split.
      * constructor; cbn [m_img m_reason m_rel with_started with_img]; [exact Im|congruence|congruence].
      * left. split; [exact Cu'|]. split; [|apply Tr; now intros []].
        unfold started_rel in *. simpl. cbn [scope_obj] in S. rewrite S, Ui, ist_iset_same. simpl.
        destruct (ist (s_img s) (OBlock b)); try (now elim Ns); destruct Hs as [-> | ->]; reflexivity.
Qed.
