(* C07Fin - the released plan against the durable image (image_agrees), and finalStates (Final.final) at the
   end of a reachable run: it reports the FIRST failed stage in the order pre, continuous, block, post,
   deferred.  Proofs only. *)
From Coq Require Import Lia.
From Coercion.Base Require Import Plan.
From Coercion.Engine Require Import Shape Event Action ChecksRun Seq Block Final PlanSM Auto Accept AutoLemmas.
From Coercion.C07 Require Import MonC07 Groups Steps Tab Inv FinalFacts InvPlan C07Rel C07Eps C07XInv C07YInv C07Link.

Lemma has_ppres sh g : has sh SPlan g = ppres sh g.
Proof. unfold has, ppres, group_of, present. simpl. now destruct (grp_get (sh_groups sh) g). Qed.

(* ---- membership in all_objs ---- *)
Lemma in_group_objs sc gs g rs : grp_get gs g = Some rs -> In (OChecks sc g) (group_objs sc gs).
Proof.
  intro H. unfold group_objs. apply in_flat_map. exists g. split.
  - destruct g; simpl; auto 6.
  - rewrite H. now left.
Qed.

Lemma in_blocks_objs bl : forall k b bs, nth_error bl b = Some bs -> In (OBlock (k + b)) (blocks_objs k bl).
Proof.
  induction bl as [|x bl IH]; intros k [|b] bs H; simpl in *; try discriminate.
  - rewrite Nat.add_0_r. now left.
  - right. apply in_or_app. right. replace (k + S b) with (S k + b) by lia. eapply IH; eauto.
Qed.

Lemma in_all_plan sh : In OPlan (all_objs sh).
Proof. now left. Qed.
Lemma in_all_group sh g : ppres sh g = true -> In (OChecks SPlan g) (all_objs sh).
Proof.
  unfold ppres, present. destruct (grp_get (sh_groups sh) g) as [rs|] eqn:E; [|discriminate]. intros _.
  right. apply in_or_app. left. eapply in_group_objs; eauto.
Qed.
Lemma in_all_block sh b : b < length (sh_blocks sh) -> In (OBlock b) (all_objs sh).
Proof.
  intro L. destruct (nth_error (sh_blocks sh) b) as [bs|] eqn:E; [|apply nth_error_None in E; lia].
  right. apply in_or_app. right. apply (in_blocks_objs _ 0 b bs E).
Qed.
Lemma in_all_bgroup sh b bs g :
  block_of sh b = Some bs -> bpres bs g = true -> In (OChecks (SBlock b) g) (all_objs sh).
Proof.
  unfold bpres, present, block_of. intros Hb. destruct (grp_get (bs_groups bs) g) as [rs|] eqn:E; [|discriminate]. intros _.
  right. apply in_or_app. right.
  assert (G : forall bl k b, nth_error bl b = Some bs -> In (OChecks (SBlock (k + b)) g) (blocks_objs k bl)).
  { induction bl as [|x bl IH]; intros k [|b0] H; simpl in *; try discriminate.
    - injection H as ->. rewrite Nat.add_0_r. right. apply in_or_app. left. apply in_or_app. left. eapply in_group_objs; eauto.
    - right. apply in_or_app. right. replace (k + S b0) with (S k + b0) by lia. now apply IH. }
  apply (G _ 0 b Hb).
Qed.

(* ---- what image_agrees gives ---- *)
Lemma agrees_reason objs im r fin : image_agrees objs im r fin = true -> im_reason fin = r.
Proof. unfold image_agrees. intro H. apply andb_true_iff in H as [H _]. apply reason_eqb_eq in H. auto. Qed.

Lemma agrees_status objs im r fin o :
  image_agrees objs im r fin = true -> In o objs -> fin_st fin o = ist im o.
Proof.
  unfold image_agrees. intros H Hi. apply andb_true_iff in H as [_ H].
  rewrite forallb_forall in H. specialize (H o Hi). unfold fin_st.
  destruct (im_lookup fin o) as [c|]; [|discriminate]. apply cell_eqb_eq in H. unfold ist. rewrite H. reflexivity.
Qed.

(* ---- the first failed stage, over any status reading ---- *)
Section Stage.
  Variable sh : shape.
  Variable f : obj -> status.
  Definition gbad (g : grp) : bool := ppres sh g && status_eqb (f (OChecks SPlan g)) Failed.
  Definition bbad : bool := existsb (fun b => status_eqb (f (OBlock b)) Failed) (seq 0 (length (sh_blocks sh))).
  Definition stage_of : reason :=
    if gbad GPre then FRPreCheck else if gbad GCont then FRContCheck else if bbad then FRBlock
    else if gbad GPost then FRPostCheck else if gbad GDeferred then FRDeferredCheck else FRUnknown.
End Stage.

Lemma stage_reason_of sh fin : stage_reason sh fin = stage_of sh (fin_st fin).
Proof.
  unfold stage_reason, stage_of, grp_failed, gbad, some_block_failed, bbad, failed_in_fin. now rewrite !has_ppres.
Qed.

Lemma existsb_ext_in {A} (p q : A -> bool) l : (forall x, In x l -> p x = q x) -> existsb p l = existsb q l.
Proof.
  induction l as [|x l IH]; simpl; auto. intro H. rewrite (H x (or_introl eq_refl)), IH; auto.
Qed.

Lemma stage_of_ext sh f f' :
  (forall g, ppres sh g = true -> f (OChecks SPlan g) = f' (OChecks SPlan g)) ->
  (forall b, b < length (sh_blocks sh) -> f (OBlock b) = f' (OBlock b)) ->
  stage_of sh f = stage_of sh f'.
Proof.
  intros Hg Hb. unfold stage_of.
  assert (G : forall g, gbad sh f g = gbad sh f' g).
  { intro g. unfold gbad. destruct (ppres sh g) eqn:P; auto. simpl. now rewrite Hg. }
  assert (B : bbad sh f = bbad sh f').
  { unfold bbad. apply existsb_ext_in. intros b Hi. apply in_seq in Hi. rewrite Hb; auto. lia. }
  now rewrite !G, B.
Qed.

(* ---- finalStates reports the first failed stage ---- *)
Lemma gpresent_ppres sh g : gpresent sh g = ppres sh g.
Proof. unfold gpresent, ppres, present. now destruct (grp_get (sh_groups sh) g). Qed.

Section FinalStage.
  Variable sh : shape.
  Variable f : obj -> status.
  Notation done g := (f (OChecks SPlan g) = Completed \/ f (OChecks SPlan g) = Failed).

  Hypothesis Hbyp : not_bypassed sh f.
  Hypothesis Hpre : ppres sh GPre = true -> done GPre.
  Hypothesis Hcont : ppres sh GCont = true -> done GCont.
  Hypothesis Hpost : ppres sh GPost = true ->
    done GPost \/ gbad sh f GPre = true \/ gbad sh f GCont = true \/ bbad sh f = true.
  Hypothesis Hdef : ppres sh GDeferred = true -> done GDeferred.
  Hypothesis Hblocks :
    gbad sh f GPre = false -> gbad sh f GCont = false -> bbad sh f = false ->
    gbad sh f GPost = false -> gbad sh f GDeferred = false ->
    forall b, b < length (sh_blocks sh) -> f (OBlock b) = Completed.

  Lemma bad_examine g : (ppres sh g = true -> done g) ->
    gpresent sh g && negb (status_eqb (f (OChecks SPlan g)) Completed) = gbad sh f g.
  Proof.
    intro H. unfold gbad. rewrite gpresent_ppres. destruct (ppres sh g); auto. simpl.
    destruct (H eq_refl) as [-> | ->]; reflexivity.
  Qed.

  Lemma final_is_stage_gen :
    final sh f = (if reason_eqb (stage_of sh f) FRUnknown then Completed else Failed, stage_of sh f).
  Proof.
    unfold final. rewrite (not_bypassed_examine _ _ Hbyp). unfold stage_of. cbn [examine reason_of].
    rewrite (bad_examine GPre Hpre). destruct (gbad sh f GPre) eqn:B1; [reflexivity|].
    rewrite (bad_examine GCont Hcont). destruct (gbad sh f GCont) eqn:B2; [reflexivity|].
    change (any_block_failed sh f) with (bbad sh f). destruct (bbad sh f) eqn:B3.
    - unfold final_blocks. destruct (all_blocks_completed sh f) eqn:A; [|reflexivity]. exfalso.
      pose proof (proj2 (all_completed_spec sh f) A) as A'. unfold bbad in B3. apply existsb_exists in B3 as (b & Hi & Hb).
      apply in_seq in Hi. apply status_eqb_eq in Hb. rewrite A' in Hb by lia. discriminate.
    - assert (Hp : ppres sh GPost = true -> done GPost).
      { intro P. destruct (Hpost P) as [D|[Q|[Q|Q]]]; auto; discriminate Q. }
      rewrite (bad_examine GPost Hp). destruct (gbad sh f GPost) eqn:B4; [reflexivity|].
      rewrite (bad_examine GDeferred Hdef). destruct (gbad sh f GDeferred) eqn:B5; [reflexivity|].
      unfold final_blocks. pose proof (proj1 (all_completed_spec sh f) (Hblocks eq_refl eq_refl eq_refl eq_refl eq_refl)) as A. now rewrite A.
  Qed.
End FinalStage.

(* ---- the plan's groups at the end of a plan that was not bypassed ---- *)
Lemma end_groups sh s :
  pinv sh s -> xinv sh s -> ended s -> ~ ptaken s ->
  not_taken (ppres sh GBypass) (t_bypass (s_g s))
  /\ (ppres sh GPre = true -> exists v, t_pre (s_g s) = GIdle 1 (Some v))
  /\ (ppres sh GCont = true -> exists r v, t_cont (s_g s) = GIdle (S r) (Some v))
  /\ (ppres sh GPost = true -> (exists v, t_post (s_g s) = GIdle 1 (Some v)) \/ (t_post (s_g s) = g0 /\ early_fail sh s))
  /\ (ppres sh GDeferred = true -> exists v, t_deferred (s_g s) = GIdle 1 (Some v)).
Proof.
  intros P X En Nt. destruct (pi_tab _ _ P) as [A T].
  assert (St : pstage (s_ph s) = SgEnd) by (destruct En as [-> | ->]; reflexivity).
  rewrite St in T. cbn zeta in T. destruct T as [(Eb & _)|(Nb & Cp & Lc & Io & Id)]; [now elim Nt|].
  split; [exact Nb|]. split; [|split; [|split]].
  - intro Pp. unfold closed in Cp. now rewrite Pp in Cp.
  - intro Pc. unfold cont_late in Lc. rewrite Pc in Lc. destruct Lc as (R1 & Hn & Hd).
    pose proof (pi_thr _ _ P En) as Nl. pose proof (pi_img _ _ P GCont) as Gi. cbn [tget] in Gi.
    destruct (s_thr s).
    + destruct (Hn eq_refl) as [v ->]. eauto.
    + now elim Nl.
    + specialize (Hd eq_refl). destruct (t_cont (s_g s)) as [r l|]; [|discriminate Hd].
      simpl in R1. destruct r as [|r]; [lia|]. destruct l as [v|]; [eauto|destruct Gi].
  - intro Pp. destruct Io as [E|[v E]]; [right|left; eauto]. split; [exact E|].
    apply (x_post _ _ X); auto.
  - intro Pd. destruct Id as [E|[v E]]; [|eauto]. exfalso. now apply (x_def _ _ X En Nt Pd).
Qed.

Lemma gimg_idle r v dst : gimg (GIdle (S r) (Some v)) dst -> dst = verdict_status v.
Proof. auto. Qed.

Lemma dead_failed g dst : gimg g dst -> g_dead g = true -> dst = Failed.
Proof. destruct g as [[|r] [[|]|]|]; simpl; try discriminate; try contradiction; auto. Qed.

Lemma bbad_intro sh f b : b < length (sh_blocks sh) -> f (OBlock b) = Failed -> bbad sh f = true.
Proof.
  intros L E. unfold bbad. apply existsb_exists. exists b. split; [apply in_seq; lia|]. now rewrite E.
Qed.

Theorem final_is_stage sh s :
  pinv sh s -> xinv sh s -> ended s -> ~ ptaken s ->
  final sh (ist (s_img s)) =
  (if reason_eqb (stage_of sh (ist (s_img s))) FRUnknown then Completed else Failed, stage_of sh (ist (s_img s))).
Proof.
  intros P X En Nt. destruct (end_groups _ _ P X En Nt) as (Nb & Hp & Hc & Ho & Hd).
  pose proof (pi_img _ _ P) as Gi.
  assert (Dn : forall g r v, tget (s_g s) g = GIdle (S r) (Some v) ->
               ist (s_img s) (OChecks SPlan g) = Completed \/ ist (s_img s) (OChecks SPlan g) = Failed).
  { intros g r v E. specialize (Gi g). rewrite E in Gi. simpl in Gi. rewrite Gi. destruct v; auto. }
  assert (Bad : forall g, ppres sh g = true -> g_dead (tget (s_g s) g) = true -> gbad sh (ist (s_img s)) g = true).
  { intros g Pg D. unfold gbad. rewrite Pg, (dead_failed _ _ (Gi g) D). reflexivity. }
  destruct (pi_tab _ _ P) as [A _].
  assert (Pres : forall g, g_dead (tget (s_g s) g) = true -> ppres sh g = true).
  { intros g D. destruct (ppres sh g) eqn:E; auto. rewrite (A g E) in D. discriminate. }
  apply final_is_stage_gen.
  - unfold not_bypassed. rewrite gpresent_ppres. unfold not_taken in Nb. destruct (ppres sh GBypass); [right|now left].
    specialize (Gi GBypass). cbn [tget] in Gi. rewrite Nb in Gi. simpl in Gi. rewrite Gi. discriminate.
  - intro Pp. destruct (Hp Pp) as [v E]. apply (Dn GPre 0 v E).
  - intro Pc. destruct (Hc Pc) as (r & v & E). apply (Dn GCont r v E).
  - intro Pp. destruct (Ho Pp) as [[v E]|[_ [D|[D|(b & Lb & Fb)]]]].
    + left. apply (Dn GPost 0 v E).
    + right. left. apply (Bad GPre); [apply (Pres GPre D)|exact D].
    + right. right. left. apply (Bad GCont); [apply (Pres GCont D)|exact D].
    + right. right. right. eapply bbad_intro; eauto.
  - intro Pd. destruct (Hd Pd) as [v E]. apply (Dn GDeferred 0 v E).
  - intros B1 B2 B3 B4 B5 b Lb.
    destruct (pi_chain _ _ P (or_intror En) Nt) as [[(g & Ig & Pg & D)|(b' & Lb' & Fb)]|F].
    + exfalso. pose proof (Bad g Pg D) as Q. simpl in Ig. destruct Ig as [<-|[<-|[<-|[<-|[]]]]]; congruence.
    + exfalso. rewrite (bbad_intro _ _ _ Lb' Fb) in B3. discriminate.
    + destruct F as (_ & _ & _ & F4 & _). auto.
Qed.

(* a bypassed plan ends Completed with no reason *)
Lemma final_taken_full sh s :
  pinv sh s -> ptaken s -> final sh (ist (s_img s)) = (Completed, FRUnknown).
Proof.
  intros P Tk. unfold final, examine_bypass. rewrite gpresent_ppres.
  destruct (pi_tab _ _ P) as [A _]. pose proof (pi_img _ _ P GBypass) as Gi. cbn [tget] in Gi.
  unfold ptaken in Tk. rewrite Tk in Gi. simpl in Gi.
  destruct (ppres sh GBypass) eqn:E; [now rewrite Gi|]. specialize (A GBypass E). cbn [tget] in A. unfold g0 in A. congruence.
Qed.

(* ---- at the end every group of the plan is idle ---- *)
Lemma ended_idle sh s g : pinv sh s -> ended s -> g_is_idle (tget (s_g s) g) = true.
Proof.
  intros P E. pose proof (pi_thr _ _ P E) as Nl. destruct (pi_tab _ _ P) as [A T].
  assert (St : pstage (s_ph s) = SgEnd) by (destruct E as [-> | ->]; reflexivity).
  rewrite St in T. cbn zeta in T.
  destruct T as [(Eb & Ep & Ec & Eo & Ed & Et)|(Nb & Cp & Lc & Io & Id)].
  - destruct g; cbn [tget]; rewrite ?Eb, ?Ep, ?Ec, ?Eo, ?Ed; reflexivity.
  - destruct g; cbn [tget].
    + eapply not_taken_idle; eauto.
    + eapply closed_idle; eauto.
    + unfold cont_late in Lc. destruct (ppres sh GCont).
      * destruct Lc as (_ & Hn & Hd). destruct (s_thr s); [destruct (Hn eq_refl) as [v ->]; reflexivity|now elim Nl|now apply Hd].
      * destruct Lc as [-> _]. reflexivity.
    + now apply idle_once_idle.
    + now apply idle_once_idle.
Qed.

(* an idle group against its track and the durable status of the group *)
Lemma idle_track im sc g n x t dst :
  g_is_idle x = true -> grel im sc g n x t -> gimg x dst ->
  k_open t = false /\ k_failed t = status_eqb dst Failed /\ k_runs t = g_runs x
  /\ (1 <= g_runs x -> k_done t = true).
Proof.
  destruct x as [r l|]; [|discriminate]. intros _ [L (A & B & C & _)] Gi. simpl. destruct r as [|r].
  - destruct l; [destruct Gi|]. simpl in Gi. subst dst.
    unfold k_open, k_failed, k_done. rewrite A, (B eq_refl), failed_repeat_unmarked. simpl. repeat split; auto. lia.
  - destruct l as [v|]; [|destruct Gi]. simpl in Gi. destruct (C ltac:(lia)) as [Ov El]. injection El as ->.
    unfold k_open, k_done. rewrite A, Ov. simpl. repeat split; auto.
    subst dst. destruct (k_failed t); reflexivity.
Qed.

Lemma stage_of_bad sh f g :
  In g [GPre; GCont; GPost; GDeferred] -> gbad sh f g = true -> stage_of sh f <> FRUnknown.
Proof.
  intros Ig B. unfold stage_of.
  destruct (gbad sh f GPre) eqn:B1; [discriminate|]. destruct (gbad sh f GCont) eqn:B2; [discriminate|].
  destruct (bbad sh f); [discriminate|]. destruct (gbad sh f GPost) eqn:B4; [discriminate|].
  destruct (gbad sh f GDeferred) eqn:B5; [discriminate|].
  simpl in Ig. destruct Ig as [<-|[<-|[<-|[<-|[]]]]]; congruence.
Qed.

Lemma stage_of_cont sh f : stage_of sh f = FRContCheck -> gbad sh f GCont = true.
Proof.
  unfold stage_of. destruct (gbad sh f GPre); [discriminate|]. destruct (gbad sh f GCont); [auto|].
  destruct (bbad sh f); [discriminate|]. destruct (gbad sh f GPost); [discriminate|].
  destruct (gbad sh f GDeferred); discriminate.
Qed.
Lemma stage_of_def sh f : stage_of sh f = FRDeferredCheck -> gbad sh f GDeferred = true.
Proof.
  unfold stage_of. destruct (gbad sh f GPre); [discriminate|]. destruct (gbad sh f GCont); [discriminate|].
  destruct (bbad sh f); [discriminate|]. destruct (gbad sh f GPost); [discriminate|].
  destruct (gbad sh f GDeferred); [auto|discriminate].
Qed.
