(* C07 - Cont-check failures are never lost; deferred checks always run once entered.
   Only statements, `exact`, Print Assumptions.  The monitor (the formal statement over an observed trace) is
   MonC07.mon_cont_deferred; read its header first. *)
From Coq Require Import List ZArith Bool Arith.
From Coercion.Base Require Import Plan.
From Coercion.Limiter Require ContChan ContChanProofs.
From Coercion.Limiter Require Mechanisms.
From Coercion.Engine Require Import Shape Event ChecksRun Block PlanSM Auto Accept.
From Coercion.C07 Require Import MonC07 Inv C07Proofs K2Witness.
Import ListNotations.

(* ---- the observable engine automaton (coq/engine) against the monitor ---- *)

(* every trace the automaton accepts from its initial state satisfies mon_cont_deferred (clauses 1-15 of MonC07.v:
   a failed continuous run ends the group's runs and fails its scope - plan reason ContCheck unless the pre-checks
   failed -, the deferred group runs at most once, only in an entered scope, after everything else of the scope, exactly
   once by the time Wait returns, and its failure fails the scope): for every shape, every trace, every interleaving *)
Theorem c07_cont_deferred : forall (sh : shape) (tr : list event) (s : st),
  shape_wf sh = true -> run sh init tr = Some s -> mon_cont_deferred (sh, tr) = true.
Proof. exact c07_cont_deferred_l. Qed.
Print Assumptions c07_cont_deferred.

(* the "exactly once" half spelled out at traces that end with the return of Wait: for every scope of the plan the
   monitor's fold reaches the release with no run of the bypass / continuous / deferred group in progress, the deferred
   group (if the scope has one) has begun exactly one run if the scope was entered and none otherwise, and a failed
   continuous or deferred run means that the released plan shows the scope Failed *)
Theorem c07_deferred_exactly_once : forall (sh : shape) (tr : list event) (fin : image) (s : st) (sc : scope),
  shape_wf sh = true -> run sh init (tr ++ [EvRelease fin]) = Some s -> In sc (scopes sh) ->
  exists m, mfold sh sc (m_init sh sc) tr = Some m
            /\ k_open (m_byp m) = false /\ k_open (m_cont m) = false /\ k_open (m_def m) = false
            /\ (has sh sc GDeferred = true -> k_runs (m_def m) = if entered sh sc m then 1 else 0)
            /\ (k_failed (m_cont m) = true -> fin_st fin (scope_obj sc) = Failed)
            /\ (k_failed (m_def m) = true -> fin_st fin (scope_obj sc) = Failed).
Proof. exact c07_deferred_exactly_once_l. Qed.
Print Assumptions c07_deferred_exactly_once.

(* "keeps being re-run", safety half: while the plan executes its blocks the continuous thread is live, and unless a
   run failed the automaton lets the continuous group begin a new run at any moment (how often the implementation does
   is measured by the driver, not proved) *)
Theorem c07_thread_alive_plan : forall (sh : shape) (tr : list event) (s : st),
  run sh init tr = Some s -> s_ph s = PBlocks -> ppres sh GCont = true ->
  s_thr s = TLive /\ (g_dead (t_cont (s_g s)) = false -> p_may_start s GCont = true).
Proof. exact c07_thread_alive_plan_l. Qed.
Print Assumptions c07_thread_alive_plan.

(* ... and the same for the current block while it executes its sequences *)
Theorem c07_thread_alive_block : forall (sh : shape) (tr : list event) (s : st) (bs : bshape),
  run sh init tr = Some s -> s_ph s = PBlocks -> block_of sh (s_cb s) = Some bs -> b_ph (s_b s) = BSeqs ->
  bpres bs GCont = true ->
  b_thr (s_b s) = TLive /\ (g_dead (t_cont (b_g (s_b s))) = false -> b_may_start (s_b s) GCont = true).
Proof. exact c07_thread_alive_block_l. Qed.
Print Assumptions c07_thread_alive_block.

(* KNOWN FINDING K2 - the STRICT reading of "deferred checks run after everything else in that scope" is REFUTED at
   block level.  mon_cont_deferred exempts the scope's own continuous group in its clause 5; mon_cont_deferred_strict
   adds: no run of the scope's continuous group begins once its deferred (clause 20) or post (clause 21) run has
   begun.  There is a well-formed shape and a trace that the automaton accepts from init (so: what the code does - it
   is a real trace of the engine, K2Witness.v) and that satisfies mon_cont_deferred, on which the strict monitor is
   false: the block's continuous thread is only stopped in BlockEnd, after BlockPostChecks and BlockDeferredChecks. *)
Theorem c07_deferred_last_refuted_block :
  exists (sh : shape) (tr : list event),
    accepts sh tr = true /\ mon_cont_deferred (sh, tr) = true /\ mon_cont_deferred_strict (sh, tr) = false.
Proof. exact c07_deferred_last_refuted_block_l. Qed.
Print Assumptions c07_deferred_last_refuted_block.

(* ... while at PLAN level the automaton (= PlanPostChecks / PlanDeferredChecks draining first) lets the post / deferred
   group begin only when the plan's continuous thread is no longer live, lets a continuous re-run begin only while it is
   live, and in PPost a live thread means the post group has not begun.  (State-level guards; the trace-level strict
   clause at plan level is checked on every real trace by the driver - a failure is a VIOLATION - but not proved.) *)
Theorem c07_plan_deferred_guard : forall (sh : shape) (tr : list event) (s : st),
  run sh init tr = Some s ->
  (p_may_start s GPost = true \/ p_may_start s GDeferred = true -> thr_live (s_thr s) = false)
  /\ (p_may_start s GCont = true -> s_ph s = PPre \/ thr_live (s_thr s) = true)
  /\ (s_ph s = PPost -> s_thr s = TLive -> t_post (s_g s) = g0).
Proof. exact c07_plan_deferred_guard_l. Qed.
Print Assumptions c07_plan_deferred_guard.

(* ---- the mechanism: the result channel between runContChecks and the state machine (coq/limiter/ContChan.v:
   capacity 1, one send per run, close on exit, non-blocking polls, cancel-then-drain) ---- *)
Module Mech.
Import ContChan.

(* a Failed verdict of any run is never lost: when the drain has returned the consumer has received a non-nil
   error, in a poll or in the drain, for every interleaving and any number of runs *)
Theorem c07_no_failure_lost : forall (c : cfg) (s : st),
  drains c = true -> reach c s -> cons s = CDone -> 1 <= produced_fail s -> 1 <= seen s.
Proof. exact Mechanisms.K.no_failure_lost. Qed.
Print Assumptions c07_no_failure_lost.

(* ... and at every moment before that it is about to be sent, in the buffer, or already received *)
Theorem c07_failure_conserved : forall (c : cfg) (s : st),
  reach c s -> produced_fail s = pending s + seen s.
Proof. exact Mechanisms.K.failure_conserved. Qed.
Print Assumptions c07_failure_conserved.

(* at most one Failed verdict is ever produced (the thread stops re-running after it) *)
Theorem c07_at_most_one_failed : forall (c : cfg) (s : st),
  reach c s -> produced_fail s <= 1 /\
               (produced_fail s = 1 -> prod s = PSend VFail \/ prod s = PExit \/ prod s = PDead).
Proof. exact Mechanisms.K.at_most_one_failed. Qed.
Print Assumptions c07_at_most_one_failed.

(* nothing is sent on, and nothing closes, a closed channel *)
Theorem c07_no_send_after_close : forall (c : cfg) (s : st),
  reach c s -> panicked s = false /\ (closed s = true -> prod s = PDead).
Proof. exact Mechanisms.K.no_send_after_close. Qed.
Print Assumptions c07_no_send_after_close.

(* the drain never blocks forever: after cancel some non-tick step is enabled until the channel is closed and
   the drain has returned *)
Theorem c07_drain_progress : forall (c : cfg) (s : st),
  drains c = true -> reach c s -> cancelled s = true -> ~ (closed s = true /\ cons s = CDone) ->
  exists a s', a <> PTick /\ step c s a = Some s'.
Proof. exact Mechanisms.K.drain_progress. Qed.
Print Assumptions c07_drain_progress.

(* KNOWN FINDING K1 - the liveness half of "keeps being re-run" is REFUTED for the mechanism as it is: the sender does
   a blocking send on the capacity-1 channel after every run, passing ones included.  From any reachable state, along
   any step sequence in which the consumer makes no receiving poll, no drain step, no cancel and no scope exit (this
   is what happens while one long sequence executes), at most `free s` <= 1 sends complete; once that is used up the
   buffer is full and a sender standing at its next send has NO enabled step: only the consumer can unblock it.  So
   after the initial run at most two further runs happen (one sent, one stuck in its send) until the next sequence
   boundary; a failure due at a later run does not happen.  The driver replays the witness on the implementation
   (harness/cmd/c07k1: 3 invocations where 30 are due, scope Completed) and prints the KNOWN-FINDING line. *)
Theorem c07_keeps_rerunning_refuted : forall (c : cfg) (s : st) (acts : list act) (s' : st),
  reach c s -> forallb no_reader acts = true -> exec c s acts = Some s' ->
  sends acts <= free s /\ sends acts <= 1 /\
  (sends acts = free s -> buf s' <> None) /\
  (forall v, buf s' <> None -> prod s' = PSend v -> forall a, is_producer a = true -> step c s' a = None).
Proof. exact Mechanisms.K.c07_mech_sender_stalls. Qed.
Print Assumptions c07_keeps_rerunning_refuted.
End Mech.
