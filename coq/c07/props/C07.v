(* C07 - Cont-check failures are never lost; deferred checks always run once entered.
   Only statements, `exact`, Print Assumptions.  The monitor (the formal statement over an observed trace) is
   MonC07.mon_cont_deferred; read its header first. *)
From Coq Require Import List ZArith Bool Arith.
From Coercion.Base Require Import Plan.
From Coercion.Limiter Require ContChan ContChanProofs.
From Coercion.Limiter Require Mechanisms.
Import ListNotations.

(* ---- the mechanism: the result channel between runContChecks and the state machine (coq/limiter/ContChan.v:
   capacity 1, one send per run, close on exit, non-blocking polls, cancel-then-drain) ---- *)
Module Mech.
Import ContChan.

(* a Failed verdict of any run is never lost: when the drain has returned the consumer has received a non-nil
   error, in a poll or in the drain, for every interleaving and any number of runs *)
Theorem c07_no_failure_lost : forall (c : cfg) (s : st),
  drains c = true -> reach c s -> cons s = CDone -> 1 <= produced_fail s -> 1 <= seen s.
Proof. exact Mechanisms.K.no_failure_lost. Qed.
Print Assumptions c07_no_failure_lost.

(* ... and at every moment before that it is about to be sent, in the buffer, or already received *)
Theorem c07_failure_conserved : forall (c : cfg) (s : st),
  reach c s -> produced_fail s = pending s + seen s.
Proof. exact Mechanisms.K.failure_conserved. Qed.
Print Assumptions c07_failure_conserved.

(* at most one Failed verdict is ever produced (the thread stops re-running after it) *)
Theorem c07_at_most_one_failed : forall (c : cfg) (s : st),
  reach c s -> produced_fail s <= 1 /\
               (produced_fail s = 1 -> prod s = PSend VFail \/ prod s = PExit \/ prod s = PDead).
Proof. exact Mechanisms.K.at_most_one_failed. Qed.
Print Assumptions c07_at_most_one_failed.

(* nothing is sent on, and nothing closes, a closed channel *)
Theorem c07_no_send_after_close : forall (c : cfg) (s : st),
  reach c s -> panicked s = false /\ (closed s = true -> prod s = PDead).
Proof. exact Mechanisms.K.no_send_after_close. Qed.
Print Assumptions c07_no_send_after_close.

(* the drain never blocks forever: after cancel some non-tick step is enabled until the channel is closed and
   the drain has returned *)
Theorem c07_drain_progress : forall (c : cfg) (s : st),
  drains c = true -> reach c s -> cancelled s = true -> ~ (closed s = true /\ cons s = CDone) ->
  exists a s', a <> PTick /\ step c s a = Some s'.
Proof. exact Mechanisms.K.drain_progress. Qed.
Print Assumptions c07_drain_progress.
End Mech.
