(* [copied from coq/c06 (C06 engineer, commit df26526): shared reachable-state invariants of the automaton] *)
(* Facts about Final.final (the transcription of finalStates) that the C06 proofs use. *)
From Coq Require Import Lia.
From Coercion.Base Require Import Plan.
From Coercion.Engine Require Import Shape Final.

Section FF.
  Variable sh : shape.

  (* final reads only the plan's groups and the blocks *)
  Lemma final_ext f f' :
    (forall g, f (OChecks SPlan g) = f' (OChecks SPlan g)) ->
    (forall b, f (OBlock b) = f' (OBlock b)) ->
    final sh f = final sh f'.
  Proof.
    intros Hg Hb. unfold final, examine_bypass, final_blocks, any_block_failed, all_blocks_completed.
    assert (Ex : forall gs, examine sh f gs = examine sh f' gs).
    { induction gs as [|g gs IH]; simpl; auto. rewrite Hg, IH. reflexivity. }
    rewrite Hg, !Ex.
    assert (E1 : existsb (fun b => status_eqb (f (OBlock b)) Failed) (block_indices sh)
                 = existsb (fun b => status_eqb (f' (OBlock b)) Failed) (block_indices sh)).
    { generalize (block_indices sh). intro l. induction l as [|b l IH]; simpl; auto. rewrite Hb, IH. reflexivity. }
    assert (E2 : forallb (fun b => status_eqb (f (OBlock b)) Completed) (block_indices sh)
                 = forallb (fun b => status_eqb (f' (OBlock b)) Completed) (block_indices sh)).
    { generalize (block_indices sh). intro l. induction l as [|b l IH]; simpl; auto. rewrite Hb, IH. reflexivity. }
    now rewrite E1, E2.
  Qed.

  Variable f : obj -> status.

  Lemma final_status : fst (final sh f) = Completed \/ fst (final sh f) = Failed.
  Proof.
    unfold final, final_blocks. destruct (examine_bypass sh f); auto.
    destruct (examine sh f [GPre; GCont]); auto.
    destruct (any_block_failed sh f); [destruct (all_blocks_completed sh f); auto|].
    destruct (examine sh f [GPost; GDeferred]); auto.
    destruct (all_blocks_completed sh f); auto.
  Qed.

  (* bypass group present and Completed: the plan is Completed *)
  Lemma final_taken :
    gpresent sh GBypass = true -> f (OChecks SPlan GBypass) = Completed -> fst (final sh f) = Completed.
  Proof. intros P E. unfold final, examine_bypass. now rewrite P, E. Qed.

  Definition not_bypassed : Prop := gpresent sh GBypass = false \/ f (OChecks SPlan GBypass) <> Completed.

  Lemma not_bypassed_examine : not_bypassed -> examine_bypass sh f = false.
  Proof.
    unfold examine_bypass. intros [->|N]; [reflexivity|].
    destruct (gpresent sh GBypass); [|reflexivity]. simpl.
    destruct (status_eqb (f (OChecks SPlan GBypass)) Completed) eqn:E; auto. apply status_eqb_eq in E. contradiction.
  Qed.

  (* a failed pre group or continuous group fails the plan *)
  Lemma final_gate :
    not_bypassed ->
    (gpresent sh GPre = true /\ f (OChecks SPlan GPre) = Failed)
    \/ (gpresent sh GCont = true /\ f (OChecks SPlan GCont) = Failed) ->
    fst (final sh f) = Failed.
  Proof.
    intros Nb H. unfold final. rewrite (not_bypassed_examine Nb). simpl.
    destruct H as [[P E]|[P E]].
    - rewrite P, E. reflexivity.
    - rewrite P, E. simpl. destruct (gpresent sh GPre && negb (status_eqb (f (OChecks SPlan GPre)) Completed)); reflexivity.
  Qed.

  Definition fine (g : grp) : Prop := gpresent sh g = false \/ f (OChecks SPlan g) = Completed.

  Lemma fine_examine gs : (forall g, In g gs -> fine g) -> examine sh f gs = None.
  Proof.
    induction gs as [|g gs IH]; simpl; auto. intro H.
    destruct (H g (or_introl eq_refl)) as [->|E]; [simpl; auto|].
    rewrite E. simpl. rewrite andb_false_r. auto.
  Qed.

  Lemma all_completed_spec :
    (forall b, b < length (sh_blocks sh) -> f (OBlock b) = Completed) <-> all_blocks_completed sh f = true.
  Proof.
    unfold all_blocks_completed, block_indices. rewrite forallb_forall. split.
    - intros H b Hb. apply in_seq in Hb. rewrite H by lia. reflexivity.
    - intros H b Hb. apply status_eqb_eq. apply H. apply in_seq. lia.
  Qed.

  Lemma none_failed : (forall b, b < length (sh_blocks sh) -> f (OBlock b) = Completed) -> any_block_failed sh f = false.
  Proof.
    intro H. unfold any_block_failed, block_indices.
    destruct (existsb (fun b => status_eqb (f (OBlock b)) Failed) (seq 0 (length (sh_blocks sh)))) eqn:E; auto.
    apply existsb_exists in E as (b & Hb & E). apply in_seq in Hb. rewrite H in E by lia. discriminate.
  Qed.

  (* everything fine: the plan is Completed *)
  Lemma final_fine :
    not_bypassed -> fine GPre -> fine GCont -> fine GPost -> fine GDeferred ->
    (forall b, b < length (sh_blocks sh) -> f (OBlock b) = Completed) ->
    fst (final sh f) = Completed.
  Proof.
    intros Nb F1 F2 F3 F4 Hb. unfold final, final_blocks. rewrite (not_bypassed_examine Nb).
    rewrite fine_examine by (intros g [<-|[<-|[]]]; auto).
    rewrite (none_failed Hb).
    rewrite fine_examine by (intros g [<-|[<-|[]]]; auto).
    rewrite (proj1 all_completed_spec Hb). reflexivity.
  Qed.

  Lemma examine_none gs : examine sh f gs = None -> forall g, In g gs -> fine g.
  Proof.
    induction gs as [|g gs IH]; simpl; [intros _ g []|].
    destruct (gpresent sh g) eqn:P; simpl.
    - destruct (status_eqb (f (OChecks SPlan g)) Completed) eqn:E; simpl; [|discriminate].
      intros H g' [<-|Hi]; [right; now apply status_eqb_eq|auto].
    - intros H g' [<-|Hi]; [now left|auto].
  Qed.

  (* a Completed plan that was not bypassed: every group fine, every block Completed *)
  Lemma final_completed :
    not_bypassed -> fst (final sh f) = Completed ->
    fine GPre /\ fine GCont /\ fine GPost /\ fine GDeferred
    /\ forall b, b < length (sh_blocks sh) -> f (OBlock b) = Completed.
  Proof.
    intros Nb. unfold final, final_blocks. rewrite (not_bypassed_examine Nb).
    destruct (examine sh f [GPre; GCont]) eqn:E1; [discriminate|].
    pose proof (examine_none _ E1) as F1.
    destruct (any_block_failed sh f) eqn:Af.
    - destruct (all_blocks_completed sh f) eqn:Ac; [|discriminate]. exfalso.
      unfold any_block_failed in Af. apply existsb_exists in Af as (b & Hb & E).
      unfold all_blocks_completed in Ac. rewrite forallb_forall in Ac. specialize (Ac b Hb).
      apply status_eqb_eq in E, Ac. congruence.
    - destruct (examine sh f [GPost; GDeferred]) eqn:E2; [discriminate|].
      pose proof (examine_none _ E2) as F2.
      destruct (all_blocks_completed sh f) eqn:Ac; [|discriminate]. intros _.
      refine (conj (F1 _ _) (conj (F1 _ _) (conj (F2 _ _) (conj (F2 _ _) _)))); simpl; auto.
      now apply all_completed_spec.
  Qed.
End FF.
