(* C07Link - the relation between a reachable automaton state and the state of the C07 monitor of one
   scope, and the facts about one monitor step that do not depend on the scope.  Proofs only. *)
From Coq Require Import Lia.
From Coercion.Base Require Import Plan.
From Coercion.Engine Require Import Shape Event Action ChecksRun Seq Block Final PlanSM Auto Accept AutoLemmas.
From Coercion.C07 Require Import MonC07 Groups Steps Tab Inv FinalFacts InvPlan C07Rel C07Eps C07XInv C07YInv.

Definition inv (sh : shape) (s : st) : Prop := ainv sh s /\ yinv s.

Theorem inv_reach sh tr s : run sh init tr = Some s -> inv sh s.
Proof. intro H. split; [eapply ainv_reach; eauto|eapply yinv_reach; eauto]. Qed.
Lemma inv_eps sh s s1 : inv sh s -> eps sh s = Some s1 -> inv sh s1.
Proof. intros [A Y] H. split; [eapply ainv_eps; eauto|eapply yinv_eps; eauto]. Qed.
Lemma inv_handle sh s e s' : inv sh s -> handle sh s e = Some s' -> inv sh s'.
Proof. intros [A Y] H. split; [eapply ainv_handle; eauto|eapply yinv_handle; eauto]. Qed.

(* ---- what every scope's monitor shares with the automaton ---- *)
Record common (s : st) (m : mst) : Prop := {
  c_img : forall o, iget (m_img m) o = iget (s_img s) o;
  c_reason : m_reason m = s_reason s;
  c_rel : m_rel m = released s }.

Definition started_rel (im : dimg) (sc : scope) (m : mst) : Prop :=
  m_started m = negb (status_eqb (ist im (scope_obj sc)) NotStarted).

Definition tracks_rel (sh : shape) (sc : scope) (im : dimg) (t : gtab) (m : mst) : Prop :=
  forall g, tracked g = true -> grel im sc g (group_size sh sc g) (tget t g) (m_track m g).

(* ---- cells ---- *)
Lemma cell_eqb_eq a b : cell_eqb a b = true -> a = b.
Proof.
  destruct a as [s1 n1 o1], b as [s2 n2 o2]. unfold cell_eqb. simpl. intro H.
  apply andb_true_iff in H as [H Ho]. apply andb_true_iff in H as [Hs Hn].
  apply status_eqb_eq in Hs. apply Nat.eqb_eq in Hn. apply Bool.eqb_prop in Ho. now subst.
Qed.

Lemma cell_eqb_st a b : c_st a <> c_st b -> cell_eqb a b = false.
Proof.
  intro N. destruct (cell_eqb a b) eqn:E; auto. apply cell_eqb_eq in E. subst. now elim N.
Qed.

(* the monitor's image after a write, whether it dropped it as a repeat or not *)
Definition img_after (mi : dimg) (o : obj) (c : cell) : dimg :=
  if cell_eqb (iget mi o) c then mi else iset mi o c.

Lemma img_sync mi si o c :
  (forall o', iget mi o' = iget si o') -> forall o', iget (img_after mi o c) o' = iget (iset si o c) o'.
Proof.
  intros H o'. unfold img_after. destruct (cell_eqb (iget mi o) c) eqn:E.
  - apply cell_eqb_eq in E. destruct (obj_eqb o o') eqn:Eo.
    + apply obj_eqb_eq in Eo. subst o'. now rewrite iget_iset_same.
    + rewrite iget_iset_other; auto. intro Q. subst. now rewrite obj_eqb_refl in Eo.
  - destruct (obj_eqb o o') eqn:Eo.
    + apply obj_eqb_eq in Eo. subst o'. now rewrite !iget_iset_same.
    + assert (o <> o') by (intro Q; subst; now rewrite obj_eqb_refl in Eo).
      rewrite !iget_iset_other; auto.
Qed.

(* the monitor's state after a write that concerns none of its tracks *)
Definition m_skip (m : mst) (o : obj) (c : cell) : mst := with_img m (img_after (m_img m) o c).

Lemma m_skip_repeat m o c : cell_eqb (iget (m_img m) o) c = true -> m_skip m o c = m.
Proof. unfold m_skip, img_after. intros ->. now destruct m. Qed.

(* ---- the events in terms of what they are about ---- *)
Lemma handle_write_live sh s o st n ok r s' : handle sh s (EvWrite o st n ok r) = Some s' -> released s = false.
Proof. simpl. destruct (released s); [discriminate|reflexivity]. Qed.
Lemma handle_start_live sh s a s' : handle sh s (EvStart a) = Some s' -> released s = false.
Proof. simpl. destruct (released s); [discriminate|reflexivity]. Qed.

Lemma chk_op_inv e sc g op :
  chk_op e = Some (sc, g, op) ->
  (exists i, e = EvStart (AChk sc g i) /\ op = OpStart i)
  \/ (exists i o, e = EvEnd (AChk sc g i) o /\ op = OpEnd i o)
  \/ (exists i r, e = EvWrite (OAct (AChk sc g i)) Running 0 false r /\ op = OpMark i)
  \/ (exists i n ok r, e = EvWrite (OAct (AChk sc g i)) Running (S n) ok r /\ op = OpAttempt i (S n) ok)
  \/ (exists i st n ok r, e = EvWrite (OAct (AChk sc g i)) st n ok r /\ op = OpFinal i st n ok
                          /\ (st = Completed \/ st = Failed))
  \/ (exists st r, e = EvWrite (OChecks sc g) st 0 false r /\ op = OpVerdict st).
Proof.
  destruct e as [a|a o|o stt n ok r|snap|fin]; simpl; try discriminate.
  - destruct a; [|discriminate]. intro H. injection H as <- <- <-. left. eauto.
  - destruct a; [|discriminate]. intro H. injection H as <- <- <-. right. left. eauto.
  - destruct o as [|sc' g'|b|b q|a]; try discriminate.
    + destruct stt; try discriminate; (destruct n; [|discriminate]); (destruct ok; [discriminate|]);
        intro H; injection H as <- <- <-; do 5 right; eauto.
    + destruct a as [sc' g' i|]; [|discriminate]. destruct stt; try discriminate.
      * destruct n; [destruct ok; [discriminate|]|]; intro H; injection H as <- <- <-.
        -- right. right. left. eauto.
        -- right. right. right. left. eauto 6.
      * intro H; injection H as <- <- <-. do 4 right. left. exists i, Completed, n, ok, r. auto.
      * intro H; injection H as <- <- <-. do 4 right. left. exists i, Failed, n, ok, r. auto.
Qed.

(* ---- the tracked groups of a monitor state ---- *)
Lemma m_track_set_same m g t : tracked g = true -> m_track (m_set m g t) g = t.
Proof. destruct g; simpl; try discriminate; auto. Qed.
Lemma m_track_set_other m g g' t : tracked g = true -> tracked g' = true -> g <> g' -> m_track (m_set m g t) g' = m_track m g'.
Proof. destruct g, g'; simpl; try discriminate; auto; intros _ _ N; now elim N. Qed.
Lemma m_set_fields m g t :
  m_img (m_set m g t) = m_img m /\ m_started (m_set m g t) = m_started m /\ m_rel (m_set m g t) = m_rel m
  /\ m_reason (m_set m g t) = m_reason m.
Proof. destruct g; simpl; auto. Qed.
Lemma m_track_with_img m im g : m_track (with_img m im) g = m_track m g.
Proof. destruct g; reflexivity. Qed.

Lemma act_obj_neq sc g i g' j : g <> g' -> act_obj sc g i <> act_obj sc g' j.
Proof. intros N E. injection E as E _. auto. Qed.

(* the other tracked groups are not concerned by an operation on group g *)
Lemma tracks_rel_others sh sc im im' t g x m m' :
  tracks_rel sh sc im t m ->
  (forall g', tracked g' = true -> g' <> g -> m_track m' g' = m_track m g') ->
  (forall g' j, g' <> g -> ist im' (act_obj sc g' j) = ist im (act_obj sc g' j)) ->
  forall g', tracked g' = true -> g' <> g ->
             grel im' sc g' (group_size sh sc g') (tget (tset t g x) g') (m_track m' g').
Proof.
  intros T Hm Hi g' Tg Ne. rewrite tget_tset_other by auto. rewrite Hm by auto.
  eapply grel_frame; [apply T; auto|]. intro j. now apply Hi.
Qed.

(* an event that concerns no tracked group of the scope and not the scope's own object *)
Lemma tracks_rel_frame sh sc im im' t m m' :
  tracks_rel sh sc im t m ->
  (forall g, tracked g = true -> m_track m' g = m_track m g) ->
  (forall g j, tracked g = true -> ist im' (act_obj sc g j) = ist im (act_obj sc g j)) ->
  tracks_rel sh sc im' t m'.
Proof.
  intros T Hm Hi g Tg. rewrite Hm by auto. eapply grel_frame; [apply T; auto|]. intro j. now apply Hi.
Qed.

Lemma tracks_rel_settle sh sc im t t' m :
  tracks_rel sh sc im t m -> tsettle im sc t t' -> tracks_rel sh sc im t' m.
Proof. intros T S g Tg. eapply grel_settle; [apply S|apply T; auto]. Qed.

Lemma scope_eqb_refl sc : scope_eqb sc sc = true.
Proof. now apply scope_eqb_eq. Qed.

Lemma other_of_own sc g i :
  other_of sc (AChk sc g i) = negb (match g with GCont | GDeferred => true | _ => false end).
Proof. destruct sc; simpl; auto. now rewrite Nat.eqb_refl. Qed.

Lemma grel_runs0_not_failed im sc g n x t : grel im sc g n x t -> k_runs t = 0 -> k_failed t = false.
Proof.
  intros [L H] Z. destruct x as [r l|r acts].
  - destruct H as (A & B & _). unfold k_failed. rewrite B by congruence. apply failed_repeat_unmarked.
  - destruct H as (A & _). congruence.
Qed.

(* ---- an operation on a tracked group of the scope, seen by the scope's monitor ---- *)
Section TrackOp.
  Variables (sh : shape) (sc : scope) (im : dimg) (t : gtab) (m : mst).
  Variables (e : event) (g : grp) (op : gop) (x : gst) (owed : bool).
  Variables (ors : option (list nat)) (may : bool) (d : cell).

  Hypothesis Hc : chk_op e = Some (sc, g, op).
  Hypothesis Tg : tracked g = true.
  Hypothesis Ha : g_apply ors may (ist im (OChecks sc g)) d (tget t g) op = Some (x, owed).
  Hypothesis Hors : forall rs, ors = Some rs -> length rs = group_size sh sc g.
  Hypothesis Gi : gimg (tget t g) (ist im (OChecks sc g)).
  Hypothesis Ci : forall o, iget (m_img m) o = iget im o.
  Hypothesis Tr : tracks_rel sh sc im t m.
  Hypothesis Live : m_rel m = false.
  (* a run may begin: not after a failed continuous run; the deferred group only once, in an entered scope *)
  Hypothesis Hmay : may = true ->
    (g_runs (tget t g) = 0 \/ g_dead (tget t g) = false)
    /\ (g = GDeferred -> entered sh sc m = true /\ g_runs (tget t g) = 0).
  (* while the bypass group runs the deferred group has not begun *)
  Hypothesis Hbyp : g = GBypass -> (exists r acts, tget t g = GRun r acts) -> k_runs (m_def m) = 0.

  Let R := Tr g Tg.

  Lemma track_op :
    exists m', mstep_d sh sc m e = inl m'
               /\ (forall o, iget (m_img m') o = iget (ev_img e im) o)
               /\ tracks_rel sh sc (ev_img e im) (tset t g x) m'
               /\ m_started m' = m_started m /\ m_rel m' = m_rel m /\ m_reason m' = m_reason m.
  Proof.
    destruct (chk_op_inv _ _ _ _ Hc) as
      [(i & -> & ->)|[(i & o & -> & ->)|[(i & r & -> & ->)|[(i & n & ok & r & -> & ->)
      |[(i & st & n & ok & r & -> & -> & Hst)|(st & r & -> & ->)]]]]]; cbn [ev_img].
    - (* Start *)
      simpl in Ha. destruct (g_start (tget t g) i d) as [y|] eqn:E; [|discriminate]. injection Ha as <- _.
      exists m. split.
      + cbn [mstep_d]. rewrite other_of_own.
        destruct g; try discriminate Tg; simpl; auto.
        rewrite Hbyp; auto. destruct (g_start_spec _ _ _ _ E) as (r & acts & _ & _ & Q & _). eauto.
      + split; [exact Ci|]. split; [|auto]. intros g' Tg'. destruct (grp_eqb g' g) eqn:Eg.
        * apply grp_eqb_eq in Eg. subst g'. rewrite tget_tset_same. eapply grel_start; eauto.
        * eapply tracks_rel_others; eauto. intro Q. subst. destruct g; discriminate Eg.
    - (* End *)
      simpl in Ha. destruct (g_end (tget t g) i o) as [y|] eqn:E; [|discriminate]. injection Ha as <- _.
      exists m. split.
      + cbn [mstep_d]. rewrite other_of_own.
        destruct g; try discriminate Tg; simpl; auto.
        rewrite Hbyp; auto; [now rewrite andb_false_r|].
        destruct (g_end_spec _ _ _ _ E) as (r & acts & _ & _ & Q & _). eauto.
      + split; [exact Ci|]. split; [|auto]. intros g' Tg'. destruct (grp_eqb g' g) eqn:Eg.
        * apply grp_eqb_eq in Eg. subst g'. rewrite tget_tset_same. eapply grel_end; eauto.
        * eapply tracks_rel_others; eauto. intro Q. subst. destruct g; discriminate Eg.
    - (* Mark *)
      simpl in Ha. destruct ors as [rs|] eqn:Eo; [|discriminate].
      destruct (g_mark rs may (ist im (OChecks sc g)) (tget t g) i) as [y|] eqn:E; [|discriminate]. injection Ha as <- _.
      destruct (grel_mark im sc g _ rs may _ _ i _ _ Gi R (Hors rs eq_refl) E) as [Nr Hk].
      assert (Nrep : cell_eqb (iget (m_img m) (OAct (AChk sc g i))) (cell_of Running 0 false) = false).
      { apply cell_eqb_st. rewrite Ci. exact Nr. }
      cbn [mstep_d]. unfold cell_of in Nrep. rewrite Nrep. rewrite scope_eqb_refl, Tg. cbn [andb chk_write].
      rewrite m_track_with_img.
      assert (Sync : forall o, iget (iset (m_img m) (OAct (AChk sc g i)) (cell_of Running 0 false)) o
                               = iget (iset im (OAct (AChk sc g i)) (cell_of Running 0 false)) o).
      { intro o. pose proof (img_sync _ _ (OAct (AChk sc g i)) (cell_of Running 0 false) Ci o) as Q.
        unfold img_after, cell_of in Q. rewrite Nrep in Q. exact Q. }
      set (m1 := with_img m (iset (m_img m) (OAct (AChk sc g i)) {| c_st := Running; c_n := 0; c_ok := false |})).
      assert (Fin : forall t', grel (iset im (act_obj sc g i) (cell_of Running 0 false)) sc g (group_size sh sc g) y t' ->
                exists m', inl (m_set m1 g t') = inl m' :> (mst + nat)
                  /\ (forall o, iget (m_img m') o = iget (iset im (OAct (AChk sc g i)) (cell_of Running 0 false)) o)
                  /\ tracks_rel sh sc (iset im (OAct (AChk sc g i)) (cell_of Running 0 false)) (tset t g y) m'
                  /\ m_started m' = m_started m /\ m_rel m' = m_rel m /\ m_reason m' = m_reason m).
      { intros t' Rt. exists (m_set m1 g t'). destruct (m_set_fields m1 g t') as (F1 & F2 & F3 & F4).
        split; [reflexivity|]. split; [intro o; rewrite F1; apply Sync|]. split; [|auto].
        intros g' Tg'. destruct (grp_eqb g' g) eqn:Eg.
        - apply grp_eqb_eq in Eg. subst g'. rewrite tget_tset_same, m_track_set_same by auto. exact Rt.
        - assert (Ne : g' <> g) by (intro Q; subst; destruct g; discriminate Eg).
          eapply tracks_rel_others; eauto.
          + intros g2 T2 N2. rewrite m_track_set_other by auto. apply m_track_with_img.
          + intros g2 j N2. apply ist_iset_other. apply act_obj_neq. auto. }
      assert (L1 : m_rel m1 = false) by exact Live.
      destruct Hk as [(t' & Hk & Rt)|(t' & Hk & Mt & Hd & Hr & Rt)]; rewrite Hk.
      + rewrite L1. apply Fin. exact Rt.
      + rewrite L1.
        destruct (Hmay Mt) as [Hm1 Hm2].
        assert (Bc : begin_code sh sc m1 g = 0).
        { unfold begin_code. destruct g; try discriminate Tg; auto.
          - change (m_cont m1) with (m_track m GCont).
            destruct Hm1 as [Z|Z]; [|now rewrite (Hd Z)].
            now rewrite (grel_runs0_not_failed _ _ _ _ _ _ R (Hr Z)).
          - destruct (Hm2 eq_refl) as [En Z]. change (entered sh sc m1) with (entered sh sc m). rewrite En.
            pose proof (Hr Z) as Z2. simpl in Z2. simpl. now rewrite Z2. }
        rewrite Bc. apply Fin. exact Rt.
    - (* Attempt *)
      simpl in Ha. destruct ors as [rs|] eqn:Eo; [|discriminate].
      pose proof (grel_attempt im sc g _ _ _ _ _ _ _ _ _ Ha R) as Rt.
      exists (m_skip m (OAct (AChk sc g i)) (cell_of Running (S n) ok)). split.
      + cbn [mstep_d]. unfold m_skip, img_after, cell_of.
        destruct (cell_eqb (iget (m_img m) (OAct (AChk sc g i))) {| c_st := Running; c_n := S n; c_ok := ok |}).
        * now destruct m.
        * rewrite scope_eqb_refl, Tg. reflexivity.
      + split; [intro o; apply img_sync; exact Ci|]. split; [|auto].
        intros g' Tg'. unfold m_skip. rewrite m_track_with_img. destruct (grp_eqb g' g) eqn:Eg.
        * apply grp_eqb_eq in Eg. subst g'. rewrite tget_tset_same. exact Rt.
        * assert (Ne : g' <> g) by (intro Q; subst; destruct g; discriminate Eg).
          rewrite tget_tset_other by auto. eapply grel_frame; [apply Tr; auto|].
          intro j. apply ist_iset_other. apply act_obj_neq. auto.
    - (* Final *)
      simpl in Ha. destruct (g_final (tget t g) i st n ok) as [y|] eqn:E; [|discriminate]. injection Ha as <- _.
      destruct (grel_final im sc g _ _ _ _ _ _ _ _ E R) as (v & Ev & Run & Rt).
      assert (Nrep : cell_eqb (iget (m_img m) (OAct (AChk sc g i))) (cell_of st n ok) = false).
      { apply cell_eqb_st. rewrite Ci. fold (ist im (OAct (AChk sc g i))). unfold act_obj in Run. rewrite Run.
        simpl. subst st. destruct v; discriminate. }
      cbn [mstep_d]. unfold cell_of in Nrep. rewrite Nrep. rewrite scope_eqb_refl, Tg. cbn [andb].
      set (m1 := with_img m (iset (m_img m) (OAct (AChk sc g i)) {| c_st := st; c_n := n; c_ok := ok |})).
      exists (m_set m1 g (k_final (m_track m g) i v)).
      destruct (m_set_fields m1 g (k_final (m_track m g) i v)) as (F1 & F2 & F3 & F4).
      split.
      { unfold chk_write. unfold m1 at 1 2 3. rewrite ?m_track_with_img. subst st. destruct v; reflexivity. }
      split.
      { intro o. rewrite F1. pose proof (img_sync _ _ (OAct (AChk sc g i)) (cell_of st n ok) Ci o) as Q.
        unfold img_after, cell_of in Q. rewrite Nrep in Q. exact Q. }
      split; [|auto].
      intros g' Tg'. destruct (grp_eqb g' g) eqn:Eg.
      + apply grp_eqb_eq in Eg. subst g'. rewrite tget_tset_same, m_track_set_same by auto. exact Rt.
      + assert (Ne : g' <> g) by (intro Q; subst; destruct g; discriminate Eg).
        eapply tracks_rel_others; eauto.
        * intros g2 T2 N2. rewrite m_track_set_other by auto. apply m_track_with_img.
        * intros g2 j N2. apply ist_iset_other. apply act_obj_neq. auto.
    - (* Verdict *)
      simpl in Ha. destruct (g_verdict (tget t g) st) as [y|] eqn:E; [|discriminate]. injection Ha as <- _.
      exists (m_skip m (OChecks sc g) (cell_of st 0 false)). split.
      + cbn [mstep_d]. unfold m_skip, img_after, cell_of.
        destruct (cell_eqb (iget (m_img m) (OChecks sc g)) {| c_st := st; c_n := 0; c_ok := false |}).
        * now destruct m.
        * destruct sc; reflexivity.
      + split; [intro o; apply img_sync; exact Ci|]. split; [|auto].
        intros g' Tg'. unfold m_skip. rewrite m_track_with_img. destruct (grp_eqb g' g) eqn:Eg.
        * apply grp_eqb_eq in Eg. subst g'. rewrite tget_tset_same.
          eapply grel_frame; [eapply grel_verdict; eauto|]. intro j. apply ist_iset_other. discriminate.
        * assert (Ne : g' <> g) by (intro Q; subst; destruct g; discriminate Eg).
          rewrite tget_tset_other by auto. eapply grel_frame; [apply Tr; auto|].
          intro j. apply ist_iset_other. discriminate.
  Qed.
End TrackOp.

(* ---- events the monitor of a scope only records in its image ---- *)
Definition skips (sc : scope) (m : mst) (e : event) : Prop :=
  match e with
  | EvWrite o st n ok _ =>
      (forall g i, tracked g = true -> o <> act_obj sc g i) /\ o <> OPlan /\ (o = scope_obj sc -> st <> Running)
  | EvStart a => other_of sc a = false \/ k_runs (m_def m) = 0
  | EvEnd a o => other_of sc a = false \/ is_overrun o = true \/ k_runs (m_def m) = 0
  | EvRead _ => True
  | EvRelease _ => False
  end.

Definition m_after (m : mst) (e : event) : mst :=
  match e with
  | EvWrite o st n ok _ => m_skip m o (cell_of st n ok)
  | _ => m
  end.

Lemma with_img_same m : with_img m (m_img m) = m.
Proof. now destruct m. Qed.

Lemma skip_step sh sc m e : skips sc m e -> mstep_d sh sc m e = inl (m_after m e).
Proof.
  destruct e as [a|a o|o st n ok r|snap|fin]; simpl; try tauto.
  - intros [H|H]; rewrite H; auto. now rewrite andb_false_r.
  - intros [H|[H|H]]; rewrite H; auto; now rewrite ?andb_false_r.
  - intros (Ht & Np & Hs). unfold m_skip, img_after, cell_of.
    destruct (cell_eqb (iget (m_img m) o) {| c_st := st; c_n := n; c_ok := ok |}); [now rewrite with_img_same|].
    destruct o as [|sc' g|b|b q|[sc' g i|b q i]].
    + now elim Np.
    + destruct sc; reflexivity.
    + destruct sc; simpl; auto. destruct (Nat.eqb b b0) eqn:E; auto. apply Nat.eqb_eq in E. subst b0.
      destruct (status_eqb st Running) eqn:Es; auto. apply status_eqb_eq in Es. now elim (Hs eq_refl).
    + destruct sc; reflexivity.
    + destruct (scope_eqb sc sc') eqn:Es; simpl; auto. apply scope_eqb_eq in Es. subst sc'.
      destruct (tracked g) eqn:Tg; auto. now elim (Ht g i Tg).
    + destruct sc; reflexivity.
Qed.

Lemma m_after_fields m e :
  m_started (m_after m e) = m_started m /\ m_rel (m_after m e) = m_rel m /\ m_reason (m_after m e) = m_reason m
  /\ (forall g, m_track (m_after m e) g = m_track m g).
Proof.
  destruct e; simpl; auto.
Qed.

Lemma m_after_img m e si :
  (forall o, iget (m_img m) o = iget si o) -> forall o, iget (m_img (m_after m e)) o = iget (ev_img e si) o.
Proof.
  intros H. destruct e as [a|a o|o st n ok r|snap|fin]; simpl; auto. apply img_sync. exact H.
Qed.

(* the automaton's image after an event differs only at the object written *)
Lemma ev_img_other e im o' :
  (forall st n ok r, e <> EvWrite o' st n ok r) -> iget (ev_img e im) o' = iget im o'.
Proof.
  destruct e as [a|a o|o st n ok r|snap|fin]; simpl; auto. intro H.
  apply iget_iset_other. intro Q. subst. now elim (H st n ok r).
Qed.

Lemma common_after s s' m e :
  common s m -> s_img s' = ev_img e (s_img s) -> s_reason s' = s_reason s -> released s' = released s ->
  common s' (m_after m e).
Proof.
  intros [C1 C2 C3] Ei Er El. destruct (m_after_fields m e) as (_ & F2 & F3 & _). constructor.
  - rewrite Ei. now apply m_after_img.
  - congruence.
  - congruence.
Qed.
