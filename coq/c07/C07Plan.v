(* C07Plan - the product of the automaton with the C07 monitor of the PLAN scope.  Proofs only. *)
From Coq Require Import Lia.
From Coercion.Base Require Import Plan.
From Coercion.Engine Require Import Shape Event Action ChecksRun Seq Block Final PlanSM Auto Accept AutoLemmas.
From Coercion.C07 Require Import MonC07 Groups Steps Tab Inv FinalFacts InvPlan C07Rel C07Eps C07XInv C07YInv C07Link C07Fin.

Definition link_plan (sh : shape) (s : st) (m : mst) : Prop :=
  common s m /\ started_rel (s_img s) SPlan m /\ tracks_rel sh SPlan (s_img s) (s_g s) m.

Definition Rp (sh : shape) (s : st) (m : mst) : Prop := inv sh s /\ link_plan sh s m.

(* ---- which block an event is about ---- *)
Definition obj_block (o : obj) : option nat :=
  match o with
  | OBlock b | OSeq b _ | OChecks (SBlock b) _ | OAct (AChk (SBlock b) _ _) | OAct (ASeq b _ _) => Some b
  | _ => None
  end.
Definition aref_block (a : aref) : option nat :=
  match a with AChk (SBlock b) _ _ | ASeq b _ _ => Some b | AChk SPlan _ _ => None end.
Definition ev_block (e : event) : option nat :=
  match e with
  | EvStart a | EvEnd a _ => aref_block a
  | EvWrite o _ _ _ _ => obj_block o
  | _ => None
  end.

Lemma chk_op_block e b g op : chk_op e = Some (SBlock b, g, op) -> ev_block e = Some b.
Proof.
  intro H. destruct (chk_op_inv _ _ _ _ H) as
    [(i & -> & _)|[(i & o & -> & _)|[(i & r & -> & _)|[(i & n & ok & r & -> & _)
    |[(i & st & n & ok & r & -> & _)|(st & r & -> & _)]]]]]; reflexivity.
Qed.

Lemma seq_trans_block bs b e bi q sq sq' : seq_trans bs b e bi q sq sq' -> ev_block e = Some bi.
Proof.
  intros [r -> _ _|st r v -> _|j a x i Ha _ _]; try reflexivity.
  destruct e as [a0|a0 o0|o0 stt n ok r|snap|fin]; simpl in Ha; try discriminate.
  - injection Ha as ->. reflexivity.
  - injection Ha as ->. reflexivity.
  - destruct o0; try discriminate. injection Ha as ->. reflexivity.
Qed.

(* an event about a block leaves the plan's own objects alone *)
Lemma block_ev_frame e b im o : ev_block e = Some b -> obj_block o = None -> iget (ev_img e im) o = iget im o.
Proof.
  intros He Ho. apply ev_img_other. intros st n ok r ->. simpl in He. congruence.
Qed.

Lemma chk_op_frame e sc g op im o :
  chk_op e = Some (sc, g, op) -> (forall i, o <> act_obj sc g i) -> o <> OChecks sc g ->
  iget (ev_img e im) o = iget im o.
Proof.
  intros H Na Nc. apply ev_img_other. intros st n ok r ->.
  destruct (chk_op_inv _ _ _ _ H) as
    [(i & Q & _)|[(i & o' & Q & _)|[(i & r' & Q & _)|[(i & n' & ok' & r' & Q & _)
    |[(i & st' & n' & ok' & r' & Q & _)|(st' & r' & Q & _)]]]]]; try discriminate Q;
    injection Q as -> _ _ _ _; try (now elim (Na i)); now elim Nc.
Qed.

(* ---- sizes and presence at plan level ---- *)
Lemma plan_size sh g rs : grp_get (sh_groups sh) g = Some rs -> length rs = group_size sh SPlan g.
Proof. unfold group_size, group_of. simpl. now intros ->. Qed.

(* ---- the table: when the deferred group has not begun ---- *)
Lemma tab_def0 pres stg t th : tab pres stg t th -> stg <> SgDeferred -> stg <> SgEnd -> t_deferred t = g0.
Proof.
  intros [_ T] N1 N2. destruct stg; cbn zeta in T; try tauto.
  - destruct T as [-> _]. reflexivity.
Qed.

Lemma tab_running_early pres stg t th g r acts :
  tab pres stg t th -> tget t g = GRun r acts -> (g = GBypass \/ g = GPre \/ g = GPost) ->
  stg <> SgDeferred /\ stg <> SgEnd.
Proof.
  intros [_ T] Hg Gg. split; intro Q; subst stg; cbn zeta in T.
  - destruct T as (Nb & Cp & _ & Io & _).
    destruct Gg as [-> | [-> | ->]]; cbn [tget] in Hg.
    + apply not_taken_idle in Nb. now rewrite Hg in Nb.
    + apply closed_idle in Cp. now rewrite Hg in Cp.
    + apply idle_once_idle in Io. now rewrite Hg in Io.
  - destruct T as [(Eb & Ep & _ & Eo & _)|(Nb & Cp & _ & Io & _)].
    + unfold g0 in *. destruct Gg as [-> | [-> | ->]]; cbn [tget] in Hg; congruence.
    + destruct Gg as [-> | [-> | ->]]; cbn [tget] in Hg.
      * apply not_taken_idle in Nb. now rewrite Hg in Nb.
      * apply closed_idle in Cp. now rewrite Hg in Cp.
      * apply idle_once_idle in Io. now rewrite Hg in Io.
Qed.

Lemma grel_g0_runs im sc g n t : grel im sc g n g0 t -> k_runs t = 0.
Proof. intros [_ (A & _)]. exact A. Qed.

Lemma released_ph s : released s = true <-> s_ph s = PReleased.
Proof. unfold released. destruct (s_ph s); simpl; split; intro H; try discriminate; auto. Qed.
Lemma released_same s s' : s_ph s' = s_ph s -> released s' = released s.
Proof. unfold released. now intros ->. Qed.
Lemma not_released s : s_ph s <> PReleased -> released s = false.
Proof. intro N. destruct (released s) eqn:E; auto. apply released_ph in E. now elim N. Qed.

(* ---- epsilon-moves and stutters ---- *)
Lemma Rp_eps sh s m s1 : Rp sh s m -> eps sh s = Some s1 -> Rp sh s1 m.
Proof.
  intros [I (C & S & T)] H. split; [eapply inv_eps; eauto|].
  destruct (eps_cases _ _ _ H) as [Ei Er _ _ Eg [_ F2] [_ T2] _]. destruct C as [C1 C2 C3].
  split; [|split].
  - constructor; rewrite ?Ei, ?Er; auto. rewrite C3. now rewrite !not_released.
  - unfold started_rel. now rewrite Ei.
  - rewrite Ei. eapply tracks_rel_settle; eauto.
Qed.

Lemma stutter_step sh sc s m e :
  common s m -> stutter sh s e = true -> mstep sh sc m e = Some m.
Proof.
  intros [C1 _ _] H. destruct e as [a|a o|o stt n ok r|snap|fin]; simpl in H; try discriminate.
  apply andb_true_iff in H as [H _]. apply andb_true_iff in H as [_ H].
  unfold mstep. cbn [mstep_d]. rewrite C1, H. reflexivity.
Qed.

(* ---- a handled event about a block, or about an untracked group: the plan monitor only records it ---- *)
Lemma link_plan_skip sh s s' m e :
  link_plan sh s m ->
  s_img s' = ev_img e (s_img s) -> s_reason s' = s_reason s -> s_ph s' = s_ph s ->
  (forall g, tracked g = true -> tget (s_g s') g = tget (s_g s) g) ->
  (forall o, obj_block o = None -> (forall st n ok r, e <> EvWrite o st n ok r) -> iget (ev_img e (s_img s)) o = iget (s_img s) o) ->
  (forall st n ok r, e <> EvWrite OPlan st n ok r) ->
  (forall g i st n ok r, tracked g = true -> e <> EvWrite (act_obj SPlan g i) st n ok r) ->
  link_plan sh s' (m_after m e).
Proof.
  intros (C & S & T) Ei Er Ep Eg Fr Np Nt. destruct (m_after_fields m e) as (F1 & F2 & F3 & F4).
  split; [|split].
  - apply (common_after s); auto. now apply released_same.
  - unfold started_rel in *. rewrite F1, S, Ei. unfold ist. rewrite Fr; auto.
  - intros g Tg. rewrite Eg, F4 by auto. eapply grel_frame; [apply T; auto|].
    intro j. rewrite Ei. unfold ist. rewrite Fr; auto.
Qed.

Lemma plan_skips_block_ev m e b : ev_block e = Some b -> k_runs (m_def m) = 0 -> skips SPlan m e.
Proof.
  intros He Z. destruct e as [a|a o|o st n ok r|snap|fin]; simpl in *; try discriminate; auto.
  repeat split.
  - intros g i _ Q. subst o. discriminate He.
  - intro Q. subst o. discriminate He.
  - intro Q. subst o. discriminate He.
Qed.

Lemma plan_def0 sh s m :
  inv sh s -> link_plan sh s m -> pstage (s_ph s) <> SgDeferred -> pstage (s_ph s) <> SgEnd -> k_runs (m_def m) = 0.
Proof.
  intros [[P _] _] (_ & _ & T) N1 N2. pose proof (tab_def0 _ _ _ _ (pi_tab _ _ P) N1 N2) as E.
  pose proof (T GDeferred eq_refl) as R. cbn [tget m_track] in R. rewrite E in R. eapply grel_g0_runs; eauto.
Qed.

(* an event inside the current block *)
Lemma Rp_in_block sh s s' m e b owed b' :
  Rp sh s m -> inv sh s' -> s_ph s = PBlocks -> ev_block e = Some b ->
  upd_spec s s' e (s_g s) b' owed -> s_reason s' = s_reason s ->
  exists m', mstep sh SPlan m e = Some m' /\ Rp sh s' m'.
Proof.
  intros [I L] I' Ph He U Er. destruct U as [Ui Up Ug Ut Uc Ub Ul Uf].
  assert (Z : k_runs (m_def m) = 0) by (apply (plan_def0 sh s m I L); rewrite Ph; discriminate).
  exists (m_after m e). split.
  - unfold mstep. now rewrite (skip_step sh SPlan m e (plan_skips_block_ev _ _ _ He Z)).
  - split; [exact I'|]. apply (link_plan_skip sh s); auto.
    + intros g _. now rewrite Ug.
    + intros o Ho _. eapply block_ev_frame; eauto.
    + intros st n ok r ->. discriminate He.
    + intros g i st n ok r _ ->. discriminate He.
Qed.

Lemma plan_entered sh s m : inv sh s -> link_plan sh s m -> s_ph s = PDeferred -> entered sh SPlan m = true.
Proof.
  intros [[P _] Y] (_ & S & T) Ph. unfold entered. apply andb_true_iff. split.
  - rewrite S. destruct (status_eqb (ist (s_img s) (scope_obj SPlan)) NotStarted) eqn:E; auto.
    apply status_eqb_eq in E. exfalso. apply (y_started _ Y); [rewrite Ph; discriminate|exact E].
  - rewrite has_ppres. destruct (pi_tab _ _ P) as [_ Tb]. rewrite Ph in Tb. cbn [pstage] in Tb. cbn zeta in Tb.
    destruct Tb as (Nb & _). unfold not_taken in Nb. destruct (ppres sh GBypass); [|reflexivity]. simpl.
    pose proof (T GBypass eq_refl) as R. cbn [tget m_track] in R. rewrite Nb in R.
    destruct R as [_ (A & _ & C & _)]. destruct (C (le_n 1)) as [Ov El].
    unfold k_done. rewrite A, Ov. simpl. injection El as El. destruct (k_failed (m_byp m)); [reflexivity|discriminate].
Qed.

Lemma op_running ors may dst d g op x owed :
  g_apply ors may dst d g op = Some (x, owed) -> (exists i, op = OpStart i) \/ (exists i o, op = OpEnd i o) ->
  exists r acts, g = GRun r acts.
Proof.
  intros H [[i ->]|(i & o & ->)]; simpl in H.
  - destruct (g_start g i d) as [y|] eqn:E; [|discriminate]. destruct (g_start_spec _ _ _ _ E) as (r & acts & _ & _ & Q & _). eauto.
  - destruct (g_end g i o) as [y|] eqn:E; [|discriminate]. destruct (g_end_spec _ _ _ _ E) as (r & acts & _ & _ & Q & _). eauto.
Qed.

Lemma Rp_plan_chk sh s s' m e g op x owed :
  Rp sh s m -> inv sh s' -> chk_op e = Some (SPlan, g, op) ->
  g_apply (grp_get (sh_groups sh) g) (p_may_start s g) (ist (s_img s) (OChecks SPlan g)) (ev_cell s e)
          (tget (s_g s) g) op = Some (x, owed) ->
  upd_spec s s' e (tset (s_g s) g x) (s_b s) owed -> s_reason s' = s_reason s ->
  exists m', mstep sh SPlan m e = Some m' /\ Rp sh s' m'.
Proof.
  intros [I L] I' Hc Ha U Er. pose proof I as [[P X] Y]. pose proof L as (C & S & T).
  destruct U as [Ui Up Ug Ut Uc Ub Ul Uf].
  assert (NE : ~ ended s) by (intro En; eapply ended_no_plan_op; eauto).
  assert (Lv : m_rel m = false).
  { rewrite (c_rel _ _ C). apply not_released. intro Q. apply NE. now right. }
  (* while a bypass / pre / post group runs the deferred group has not begun *)
  assert (Early : (g = GBypass \/ g = GPre \/ g = GPost) -> (exists r acts, tget (s_g s) g = GRun r acts) ->
                  k_runs (m_def m) = 0).
  { intros Gg (r & acts & Hg). destruct (tab_running_early _ _ _ _ _ _ _ (pi_tab _ _ P) Hg Gg) as [N1 N2]. exact (plan_def0 sh s m I L N1 N2). }
  assert (Fo : ist (s_img s') OPlan = ist (s_img s) OPlan).
  { rewrite Ui. unfold ist. f_equal. eapply chk_op_frame; eauto; discriminate. }
  destruct (tracked g) eqn:Tg.
  - assert (Hmay : p_may_start s g = true ->
             (g_runs (tget (s_g s) g) = 0 \/ g_dead (tget (s_g s) g) = false)
             /\ (g = GDeferred -> entered sh SPlan m = true /\ g_runs (tget (s_g s) g) = 0)).
    { intro M. pose proof (p_may_start_spec _ _ M) as Al. split; [eapply allowed_may; eauto|].
      intros ->. destruct Al as [Sd Z]. split; [|exact Z].
      apply (plan_entered sh s); auto. destruct (s_ph s); try discriminate Sd; reflexivity. }
    assert (Hbyp : g = GBypass -> (exists r acts, tget (s_g s) g = GRun r acts) -> k_runs (m_def m) = 0).
    { intros ->. apply Early. now left. }
    destruct (track_op sh SPlan (s_img s) (s_g s) m e g op x owed _ _ _ Hc Tg Ha
                (fun rs => plan_size sh g rs) (pi_img _ _ P g) (c_img _ _ C) T Lv Hmay Hbyp)
      as (m' & Hm & Ci & Tr & F1 & F2 & F3).
    exists m'. split; [unfold mstep; now rewrite Hm|]. split; [exact I'|]. split; [|split].
    + constructor; [now rewrite Ui| |].
      * rewrite F3, Er. apply (c_reason _ _ C).
      * rewrite F2, (released_same s s') by exact Up. apply (c_rel _ _ C).
    + unfold started_rel in *. cbn [scope_obj] in *. now rewrite F1, Fo.
    + now rewrite Ui, Ug.
  - assert (Gg : g = GPre \/ g = GPost) by (destruct g; try discriminate Tg; auto).
    exists (m_after m e). split.
    + unfold mstep. rewrite (skip_step sh SPlan m e); [reflexivity|].
      destruct (chk_op_inv _ _ _ _ Hc) as
        [(i & -> & ->)|[(i & o & -> & ->)|[(i & r & -> & _)|[(i & n & ok & r & -> & _)
        |[(i & st & n & ok & r & -> & _)|(st & r & -> & _)]]]]]; simpl.
      * right. apply Early; [tauto|]. eapply op_running; eauto.
      * right. right. apply Early; [tauto|]. eapply op_running; eauto.
      * repeat split; try discriminate. intros g' i' Tg' Q. injection Q as -> _. congruence.
      * repeat split; try discriminate. intros g' i' Tg' Q. injection Q as -> _. congruence.
      * repeat split; try discriminate. intros g' i' Tg' Q. injection Q as -> _. congruence.
      * repeat split; try discriminate.
    + split; [exact I'|]. apply (link_plan_skip sh s); auto.
      * intros g' Tg'. rewrite Ug. apply tget_tset_other. intro Q. subst. congruence.
      * intros o _ Hn. now apply ev_img_other.
      * intros st n ok r ->. simpl in Hc. discriminate Hc.
      * intros g' i st n ok r Tg' ->.
        destruct (chk_op_inv _ _ _ _ Hc) as
          [(i0 & Q & _)|[(i0 & o & Q & _)|[(i0 & r0 & Q & _)|[(i0 & n0 & ok0 & r0 & Q & _)
          |[(i0 & st0 & n0 & ok0 & r0 & Q & _)|(st0 & r0 & Q & _)]]]]]; try discriminate Q;
          injection Q as -> _; congruence.
Qed.

(* ---- the plan's own status write ---- *)
Lemma Rp_plan_write sh s s' m stt r :
  Rp sh s m -> inv sh s' -> p_write sh s stt r = Some s ->
  upd_spec s s' (EvWrite OPlan stt 0 false r) (s_g s) (s_b s) false -> s_reason s' = r ->
  exists m', mstep sh SPlan m (EvWrite OPlan stt 0 false r) = Some m' /\ Rp sh s' m'.
Proof.
  intros [I (C & S & T)] I' Hw U Hr. destruct I as [_ Y]. destruct U as [Ui Up Ug Ut Uc Ub Ul Uf].
  cbn [ev_img] in Ui. destruct C as [C1 C2 C3].
  set (c := {| c_st := stt; c_n := 0; c_ok := false |}) in *.
  assert (Tr : forall m', (forall g, m_track m' g = m_track m g) -> tracks_rel sh SPlan (s_img s') (s_g s') m').
  { intros m' Hm. rewrite Ug, Ui. eapply tracks_rel_frame; [exact T|intros g _; apply Hm|].
    intros g j _. apply ist_iset_other. discriminate. }
  assert (Sync : forall o, iget (img_after (m_img m) OPlan c) o = iget (s_img s') o).
  { intro o. rewrite Ui. now apply img_sync. }
  assert (Rl : released s' = released s) by now apply released_same.
  assert (Cases : (s_ph s = PStart /\ stt = Running /\ r = FRUnknown)
                  \/ (s_ph s = PEnd /\ is_terminal stt = true /\ is_terminal (ist (s_img s) OPlan) = false)).
  { unfold p_write in Hw. destruct (s_ph s); try discriminate Hw.
    - left. destruct (status_eqb stt Running && reason_eqb r FRUnknown) eqn:G; [|discriminate].
      apply andb_true_iff in G as [G1 G2]. apply status_eqb_eq in G1. apply reason_eqb_eq in G2. auto.
    - right. destruct (is_terminal stt && negb (is_terminal (ist (s_img s) OPlan))
                && status_eqb stt (fst (final sh (ist (s_img s)))) && reason_eqb r (snd (final sh (ist (s_img s))))) eqn:G;
        [|discriminate].
      apply andb_true_iff in G as [G _]. apply andb_true_iff in G as [G _]. apply andb_true_iff in G as [G1 G2].
      apply negb_true_iff in G2. auto. }
  unfold mstep. cbn [mstep_d]. fold c.
  destruct (cell_eqb (iget (m_img m) OPlan) c) eqn:Rep.
  - (* a repeated write: only a second Running write in PStart *)
    exists m. split; [reflexivity|]. split; [exact I'|].
    assert (Eq : iget (s_img s) OPlan = c) by (rewrite <- C1; now apply cell_eqb_eq).
    destruct Cases as [(Ph & -> & ->)|(Ph & Tm & Nt)].
    + split; [|split].
      * constructor; [|rewrite C2, Hr; now apply (y_r0 _ Y)|now rewrite Rl].
        intro o. rewrite <- Sync. unfold img_after. now rewrite Rep.
      * unfold started_rel in *. rewrite S, Ui. cbn [scope_obj]. rewrite ist_iset_same. unfold ist. rewrite Eq. reflexivity.
      * now apply Tr.
    + exfalso. unfold ist in Nt. rewrite Eq in Nt. simpl in Nt. congruence.
  - assert (Im : forall o, iget (iset (m_img m) OPlan c) o = iget (s_img s') o).
    { intro o. rewrite <- Sync. unfold img_after. now rewrite Rep. }
    destruct Cases as [(Ph & -> & ->)|(Ph & Tm & Nt)].
    + simpl. eexists. split; [reflexivity|]. split; [exact I'|]. split; [|split].
      * constructor; simpl; auto. now rewrite Rl.
      * unfold started_rel. simpl. rewrite Ui, ist_iset_same. reflexivity.
      * apply Tr. now intros [].
    + assert (Nr : status_eqb stt Running = false) by (destruct stt; try discriminate Tm; reflexivity).
      rewrite Nr. eexists. split; [reflexivity|]. split; [exact I'|]. split; [|split].
      * constructor; simpl; auto. now rewrite Rl.
      * unfold started_rel in *. simpl. rewrite S, Ui, ist_iset_same. cbn [scope_obj].
        assert (N1 : ist (s_img s) OPlan <> NotStarted) by (apply (y_started _ Y); rewrite Ph; discriminate).
        destruct (ist (s_img s) OPlan); try (now elim N1); destruct stt; try discriminate Tm; reflexivity.
      * apply Tr. now intros [].
Qed.

(* ---- Wait returns: every release clause of the plan scope holds ---- *)
Lemma plan_release_code sh s m fin :
  inv sh s -> link_plan sh s m -> s_ph s = PEnd -> is_terminal (ist (s_img s) OPlan) = true ->
  image_agrees (all_objs sh) (s_img s) (s_reason s) fin = true ->
  release_code sh fin SPlan m = 0.
Proof.
  intros [[P X] Y] (C & S & T) Ph Tm Ag. assert (En : ended s) by now left.
  set (f := ist (s_img s)).
  (* the tracked groups are idle: their tracks reflect the durable statuses *)
  assert (Tk : forall g, tracked g = true ->
            k_open (m_track m g) = false /\ k_failed (m_track m g) = status_eqb (f (OChecks SPlan g)) Failed
            /\ k_runs (m_track m g) = g_runs (tget (s_g s) g)
            /\ (1 <= g_runs (tget (s_g s) g) -> k_done (m_track m g) = true)).
  { intros g Tg. eapply idle_track; [eapply ended_idle; eauto|apply T; auto|apply (pi_img _ _ P)]. }
  destruct (Tk GBypass eq_refl) as (Ob & Fb & Rb & Db). destruct (Tk GCont eq_refl) as (Oc & Fc & _ & _).
  destruct (Tk GDeferred eq_refl) as (Od & Fd & Rd & _). cbn [m_track tget] in *.
  (* absent groups are never Failed *)
  assert (Abs : forall g, ppres sh g = false -> f (OChecks SPlan g) = NotStarted).
  { intros g Pg. destruct (pi_tab _ _ P) as [A _]. pose proof (pi_img _ _ P g) as Gi. rewrite (A g Pg) in Gi. exact Gi. }
  assert (Cf : k_failed (m_cont m) = gbad sh f GCont).
  { rewrite Fc. unfold gbad. destruct (ppres sh GCont) eqn:E; auto. now rewrite (Abs _ E). }
  assert (Df : k_failed (m_def m) = gbad sh f GDeferred).
  { rewrite Fd. unfold gbad. destruct (ppres sh GDeferred) eqn:E; auto. now rewrite (Abs _ E). }
  (* the released plan agrees with the image *)
  assert (Ar : im_reason fin = s_reason s) by (eapply agrees_reason; eauto).
  assert (Ap : fin_st fin OPlan = f OPlan) by (eapply agrees_status; eauto using in_all_plan).
  assert (Agp : forall g, gbad sh (fin_st fin) g = gbad sh f g).
  { intro g. unfold gbad. destruct (ppres sh g) eqn:E; auto. simpl.
    now rewrite (agrees_status _ _ _ _ _ Ag (in_all_group _ _ E)). }
  assert (Stg : stage_reason sh fin = stage_of sh f).
  { rewrite stage_reason_of. apply stage_of_ext.
    - intros g Pg. eapply agrees_status; eauto using in_all_group.
    - intros b Lb. eapply agrees_status; eauto using in_all_block. }
  assert (Gf : forall g, grp_failed sh fin SPlan g = gbad sh f g).
  { intro g. rewrite <- Agp. unfold grp_failed, gbad, failed_in_fin. now rewrite has_ppres. }
  pose proof (pi_final _ _ P En Tm) as Fs. pose proof (x_reason _ _ X En Tm) as Fr.
  assert (St : m_started m = true).
  { rewrite S. cbn [scope_obj]. destruct (ist (s_img s) OPlan); try discriminate Tm; reflexivity. }
  unfold release_code. cbn [scope_obj]. rewrite Ob, Oc, Od. cbn [orb]. rewrite has_ppres, Ap, Cf, Df, !Gf, (c_reason _ _ C), Ar.
  fold f in Fs, Fr. rewrite Fs, Fr, Stg.
  destruct (pi_tab _ _ P) as [A Tb]. rewrite Ph in Tb. cbn [pstage] in Tb. cbn zeta in Tb.
  destruct Tb as [(Eb & Ep & Ec & Eo & Ed & Et)|(Nb & _)].
  - (* the plan was bypassed *)
    assert (Tkn : ptaken s) by exact Eb. pose proof (final_taken_full _ _ P Tkn) as Ft. fold f in Ft. rewrite Ft. cbn [fst snd].
    assert (Hb : ppres sh GBypass = true).
    { destruct (ppres sh GBypass) eqn:E; auto. specialize (A GBypass E). cbn [tget] in A. unfold g0 in A. congruence. }
    assert (Z1 : gbad sh f GCont = false).
    { unfold gbad. destruct (ppres sh GCont); auto. pose proof (pi_img _ _ P GCont) as Gi. cbn [tget] in Gi. rewrite Ec in Gi.
      simpl in Gi. unfold f. now rewrite Gi. }
    assert (Z2 : gbad sh f GDeferred = false).
    { unfold gbad. destruct (ppres sh GDeferred); auto. pose proof (pi_img _ _ P GDeferred) as Gi. cbn [tget] in Gi. rewrite Ed in Gi.
      simpl in Gi. unfold f. now rewrite Gi. }
    assert (Ne : entered sh SPlan m = false).
    { unfold entered. rewrite has_ppres, Hb. cbn [negb orb].
      pose proof (pi_img _ _ P GBypass) as Gi. cbn [tget] in Gi. rewrite Eb in Gi. simpl in Gi.
      rewrite Fb. unfold f. rewrite Gi. simpl. now rewrite !andb_false_r. }
    rewrite Ne, Rd, Ed, Z1, Z2. simpl. destruct (ppres sh GDeferred); reflexivity.
  - (* the plan was entered *)
    assert (Nt : ~ ptaken s).
    { intro Q. unfold ptaken in Q. unfold not_taken in Nb. destruct (ppres sh GBypass); unfold g0 in *; congruence. }
    destruct (end_groups _ _ P X En Nt) as (_ & _ & _ & _ & Hd).
    pose proof (final_is_stage _ _ P X En Nt) as Fi. fold f in Fi. rewrite Fi. cbn [fst snd].
    assert (Ent : entered sh SPlan m = true).
    { unfold entered. rewrite St, has_ppres. cbn [andb]. unfold not_taken in Nb. destruct (ppres sh GBypass); [|reflexivity].
      cbn [negb orb]. rewrite Db by (rewrite Nb; simpl; lia).
      pose proof (pi_img _ _ P GBypass) as Gi. cbn [tget] in Gi. rewrite Nb in Gi. simpl in Gi.
      rewrite Fb. unfold f. now rewrite Gi. }
    rewrite Ent.
    assert (C7 : ppres sh GDeferred && negb (Nat.eqb (k_runs (m_def m)) 1) = false).
    { destruct (ppres sh GDeferred) eqn:E; auto. destruct (Hd eq_refl) as [v Ev]. rewrite Rd, Ev. reflexivity. }
    rewrite C7.
    assert (C10 : forall g, In g [GPre; GCont; GPost; GDeferred] -> gbad sh f g = true ->
                  status_eqb (if reason_eqb (stage_of sh f) FRUnknown then Completed else Failed) Failed = true).
    { intros g Ig B. pose proof (stage_of_bad _ _ _ Ig B) as N.
      destruct (reason_eqb (stage_of sh f) FRUnknown) eqn:E; [apply reason_eqb_eq in E; now elim N|reflexivity]. }
    destruct (gbad sh f GCont) eqn:B2.
    + rewrite (C10 GCont) by (simpl; auto). cbn [andb negb orb].
      destruct (gbad sh f GDeferred) eqn:B5; cbn [andb negb orb];
        rewrite (proj2 (reason_eqb_eq _ _) eq_refl); cbn [negb];
        [|destruct (reason_eqb (stage_of sh f) FRDeferredCheck) eqn:E;
          [apply reason_eqb_eq in E; apply stage_of_def in E; congruence|]];
        rewrite ?andb_false_r; reflexivity.
    + cbn [andb negb orb].
      assert (N13 : reason_eqb (stage_of sh f) FRContCheck = false).
      { destruct (reason_eqb (stage_of sh f) FRContCheck) eqn:E; auto. apply reason_eqb_eq in E. apply stage_of_cont in E. congruence. }
      rewrite N13. cbn [andb orb].
      destruct (gbad sh f GDeferred) eqn:B5; cbn [andb negb orb].
      * rewrite (C10 GDeferred) by (simpl; auto). cbn [negb]. rewrite (proj2 (reason_eqb_eq _ _) eq_refl). cbn [negb].
        rewrite ?andb_false_r. reflexivity.
      * assert (N14 : reason_eqb (stage_of sh f) FRDeferredCheck = false).
        { destruct (reason_eqb (stage_of sh f) FRDeferredCheck) eqn:E; auto. apply reason_eqb_eq in E. apply stage_of_def in E. congruence. }
        rewrite N14, (proj2 (reason_eqb_eq _ _) eq_refl). reflexivity.
Qed.

Lemma Rp_handle sh s m e s' :
  Rp sh s m -> handle sh s e = Some s' -> exists m', mstep sh SPlan m e = Some m' /\ Rp sh s' m'.
Proof.
  intros R H. pose proof R as [I L]. pose proof (inv_handle _ _ _ _ I H) as I'.
  destruct (handle_cases _ _ _ _ H) as
    [g op x owed Hc Ha _ U Er|b bs g op x owed Hc Cb Ha _ U Er|b bs q sq sq' owed Cb Hq Ht U Er
    |b bs stt r -> Cb Hw U Er|stt r -> Hw U Hr|a l -> Hl E1 E2 E3 E4 E5 E6 _ _ Er|snap -> ->
    |fin -> Ph Tm Ag E1 E2 E3 E4 E5 E6 _ Er].
  - eapply Rp_plan_chk; eauto.
  - destruct (cur_block_spec _ _ _ _ Cb) as (Ph & _ & _). eapply Rp_in_block; eauto. eapply chk_op_block; eauto.
  - destruct (cur_block_spec _ _ _ _ Cb) as (Ph & _ & _). eapply Rp_in_block; eauto. eapply seq_trans_block; eauto.
  - destruct (cur_block_spec _ _ _ _ Cb) as (Ph & _ & _). eapply Rp_in_block; eauto. reflexivity.
  - eapply Rp_plan_write; eauto.
  - (* the late End of a timed-out attempt *)
    exists m. split; [unfold mstep; cbn [mstep_d is_overrun negb]; now rewrite andb_false_r|].
    split; [exact I'|]. destruct L as (C & S & T). destruct C as [C1 C2 C3].
    split; [|split].
    + constructor; rewrite ?E1, ?Er; auto. now rewrite (released_same s s').
    + unfold started_rel. now rewrite E1.
    + now rewrite E1, E3.
  - exists m. split; [reflexivity|exact R].
  - (* Wait returns *)
    destruct L as (C & S & T). pose proof C as [C1 C2 C3].
    assert (Lv : m_rel m = false) by (rewrite C3; apply not_released; rewrite Ph; discriminate).
    exists (with_rel m). split.
    + unfold mstep. cbn [mstep_d]. rewrite Lv.
      now rewrite (plan_release_code sh s m fin I (conj C (conj S T)) Ph Tm Ag).
    + split; [exact I'|]. split; [|split].
      * constructor; simpl; rewrite ?E1, ?Er; auto. unfold released. now rewrite E2.
      * unfold started_rel. simpl. now rewrite E1.
      * rewrite E1, E3. intros g Tg. specialize (T g Tg). now destruct g.
Qed.

Lemma link_plan_init sh : link_plan sh init (m_init sh SPlan).
Proof.
  split; [|split].
  - constructor; reflexivity.
  - reflexivity.
  - intros g Tg. destruct g; try discriminate Tg; simpl; apply grel_init; intros i _; discriminate.
Qed.

Lemma mfold_mrun sh sc m tr : mfold sh sc m tr = mrun mst (mstep sh sc) m tr.
Proof. revert m; induction tr as [|e tr IH]; intro m; simpl; auto. destruct (mstep sh sc m e); auto. Qed.

(* the plan scope: every accepted trace satisfies the monitor *)
Theorem plan_scope_holds sh tr s :
  run sh init tr = Some s -> exists m, mfold sh SPlan (m_init sh SPlan) tr = Some m /\ Rp sh s m.
Proof.
  intro H. rewrite mfold_mrun.
  apply (product_run mst (mstep sh SPlan) sh (Rp sh)) with (s := init); auto.
  - intros s0 m s1. apply Rp_eps.
  - intros s0 m e s'. apply Rp_handle.
  - intros s0 m e R St. exists m. split; [|exact R]. destruct R as [_ (C & _)]. eapply stutter_step; eauto.
  - split; [|apply link_plan_init]. apply (inv_reach sh []). reflexivity.
Qed.
