(* C07Plan - the product of the automaton with the C07 monitor of the PLAN scope.  Proofs only. *)
From Coq Require Import Lia.
From Coercion.Base Require Import Plan.
From Coercion.Engine Require Import Shape Event Action ChecksRun Seq Block Final PlanSM Auto Accept AutoLemmas.
From Coercion.C07 Require Import MonC07 Groups Steps Tab Inv FinalFacts InvPlan C07Rel C07Eps C07XInv C07YInv C07Link C07Fin.

Definition link_plan (sh : shape) (s : st) (m : mst) : Prop :=
  common s m /\ started_rel (s_img s) SPlan m /\ tracks_rel sh SPlan (s_img s) (s_g s) m.

Definition Rp (sh : shape) (s : st) (m : mst) : Prop := inv sh s /\ link_plan sh s m.

(* ---- which block an event is about ---- *)
Definition obj_block (o : obj) : option nat :=
  match o with
  | OBlock b | OSeq b _ | OChecks (SBlock b) _ | OAct (AChk (SBlock b) _ _) | OAct (ASeq b _ _) => Some b
  | _ => None
  end.
Definition aref_block (a : aref) : option nat :=
  match a with AChk (SBlock b) _ _ | ASeq b _ _ => Some b | AChk SPlan _ _ => None end.
Definition ev_block (e : event) : option nat :=
  match e with
  | EvStart a | EvEnd a _ => aref_block a
  | EvWrite o _ _ _ _ => obj_block o
  | _ => None
  end.

Lemma chk_op_block e b g op : chk_op e = Some (SBlock b, g, op) -> ev_block e = Some b.
Proof.
  intro H. destruct (chk_op_inv _ _ _ _ H) as
    [(i & -> & _)|[(i & o & -> & _)|[(i & r & -> & _)|[(i & n & ok & r & -> & _)
    |[(i & st & n & ok & r & -> & _)|(st & r & -> & _)]]]]]; reflexivity.
Qed.

Lemma seq_trans_block bs b e bi q sq sq' : seq_trans bs b e bi q sq sq' -> ev_block e = Some bi.
Proof.
  intros [r -> _ _|st r v -> _|j a x i Ha _ _]; try reflexivity.
  destruct e as [a0|a0 o0|o0 stt n ok r|snap|fin]; simpl in Ha; try discriminate.
  - injection Ha as ->. reflexivity.
  - injection Ha as ->. reflexivity.
  - destruct o0; try discriminate. injection Ha as ->. reflexivity.
Qed.

(* an event about a block leaves the plan's own objects alone *)
Lemma block_ev_frame e b im o : ev_block e = Some b -> obj_block o = None -> iget (ev_img e im) o = iget im o.
Proof.
  intros He Ho. apply ev_img_other. intros st n ok r ->. simpl in He. congruence.
Qed.

Lemma chk_op_frame e sc g op im o :
  chk_op e = Some (sc, g, op) -> (forall i, o <> act_obj sc g i) -> o <> OChecks sc g ->
  iget (ev_img e im) o = iget im o.
Proof.
  intros H Na Nc. apply ev_img_other. intros st n ok r ->.
  destruct (chk_op_inv _ _ _ _ H) as
    [(i & Q & _)|[(i & o' & Q & _)|[(i & r' & Q & _)|[(i & n' & ok' & r' & Q & _)
    |[(i & st' & n' & ok' & r' & Q & _)|(st' & r' & Q & _)]]]]]; try discriminate Q;
    injection Q as -> _ _ _ _; try (now elim (Na i)); now elim Nc.
Qed.

(* ---- sizes and presence at plan level ---- *)
Lemma plan_size sh g rs : grp_get (sh_groups sh) g = Some rs -> length rs = group_size sh SPlan g.
Proof. unfold group_size, group_of. simpl. now intros ->. Qed.

(* ---- the table: when the deferred group has not begun ---- *)
Lemma tab_def0 pres stg t th : tab pres stg t th -> stg <> SgDeferred -> stg <> SgEnd -> t_deferred t = g0.
Proof.
  intros [_ T] N1 N2. destruct stg; cbn zeta in T; try tauto.
  - destruct T as [-> _]. reflexivity.
Qed.

Lemma tab_running_early pres stg t th g r acts :
  tab pres stg t th -> tget t g = GRun r acts -> (g = GBypass \/ g = GPre \/ g = GPost) ->
  stg <> SgDeferred /\ stg <> SgEnd.
Proof.
  intros [_ T] Hg Gg. split; intro Q; subst stg; cbn zeta in T.
  - destruct T as (Nb & Cp & _ & Io & _).
    destruct Gg as [-> | [-> | ->]]; cbn [tget] in Hg.
    + apply not_taken_idle in Nb. now rewrite Hg in Nb.
    + apply closed_idle in Cp. now rewrite Hg in Cp.
    + apply idle_once_idle in Io. now rewrite Hg in Io.
  - destruct T as [(Eb & Ep & _ & Eo & _)|(Nb & Cp & _ & Io & _)].
    + unfold g0 in *. destruct Gg as [-> | [-> | ->]]; cbn [tget] in Hg; congruence.
    + destruct Gg as [-> | [-> | ->]]; cbn [tget] in Hg.
      * apply not_taken_idle in Nb. now rewrite Hg in Nb.
      * apply closed_idle in Cp. now rewrite Hg in Cp.
      * apply idle_once_idle in Io. now rewrite Hg in Io.
Qed.

Lemma grel_g0_runs im sc g n t : grel im sc g n g0 t -> k_runs t = 0.
Proof. intros [_ (A & _)]. exact A. Qed.

Lemma released_ph s : released s = true <-> s_ph s = PReleased.
Proof. unfold released. destruct (s_ph s); simpl; split; intro H; try discriminate; auto. Qed.
Lemma released_same s s' : s_ph s' = s_ph s -> released s' = released s.
Proof. unfold released. now intros ->. Qed.
Lemma not_released s : s_ph s <> PReleased -> released s = false.
Proof. intro N. destruct (released s) eqn:E; auto. apply released_ph in E. now elim N. Qed.

(* ---- epsilon-moves and stutters ---- *)
Lemma Rp_eps sh s m s1 : Rp sh s m -> eps sh s = Some s1 -> Rp sh s1 m.
Proof.
  intros [I (C & S & T)] H. split; [eapply inv_eps; eauto|].
  destruct (eps_cases _ _ _ H) as [Ei Er _ _ Eg [_ F2] [_ T2] _]. destruct C as [C1 C2 C3].
  split; [|split].
  - constructor; rewrite ?Ei, ?Er; auto. rewrite C3. now rewrite !not_released.
  - unfold started_rel. now rewrite Ei.
  - rewrite Ei. eapply tracks_rel_settle; eauto.
Qed.

Lemma stutter_step sh sc s m e :
  common s m -> stutter sh s e = true -> mstep sh sc m e = Some m.
Proof.
  intros [C1 _ _] H. destruct e as [a|a o|o stt n ok r|snap|fin]; simpl in H; try discriminate.
  apply andb_true_iff in H as [H _]. apply andb_true_iff in H as [_ H].
  unfold mstep. cbn [mstep_d]. rewrite C1, H. reflexivity.
Qed.

(* ---- a handled event about a block, or about an untracked group: the plan monitor only records it ---- *)
Lemma link_plan_skip sh s s' m e :
  link_plan sh s m ->
  s_img s' = ev_img e (s_img s) -> s_reason s' = s_reason s -> s_ph s' = s_ph s ->
  (forall g, tracked g = true -> tget (s_g s') g = tget (s_g s) g) ->
  (forall o, obj_block o = None -> (forall st n ok r, e <> EvWrite o st n ok r) -> iget (ev_img e (s_img s)) o = iget (s_img s) o) ->
  (forall st n ok r, e <> EvWrite OPlan st n ok r) ->
  (forall g i st n ok r, tracked g = true -> e <> EvWrite (act_obj SPlan g i) st n ok r) ->
  link_plan sh s' (m_after m e).
Proof.
  intros (C & S & T) Ei Er Ep Eg Fr Np Nt. destruct (m_after_fields m e) as (F1 & F2 & F3 & F4).
  split; [|split].
  - apply (common_after s); auto. now apply released_same.
  - unfold started_rel in *. rewrite F1, S, Ei. unfold ist. rewrite Fr; auto.
  - intros g Tg. rewrite Eg, F4 by auto. eapply grel_frame; [apply T; auto|].
    intro j. rewrite Ei. unfold ist. rewrite Fr; auto.
Qed.

Lemma plan_skips_block_ev m e b : ev_block e = Some b -> k_runs (m_def m) = 0 -> skips SPlan m e.
Proof.
  intros He Z. destruct e as [a|a o|o st n ok r|snap|fin]; simpl in *; try discriminate; auto.
  repeat split.
  - intros g i _ Q. subst o. discriminate He.
  - intro Q. subst o. discriminate He.
  - intro Q. subst o. discriminate He.
Qed.

Lemma plan_def0 sh s m :
  inv sh s -> link_plan sh s m -> pstage (s_ph s) <> SgDeferred -> pstage (s_ph s) <> SgEnd -> k_runs (m_def m) = 0.
Proof.
  intros [[P _] _] (_ & _ & T) N1 N2. pose proof (tab_def0 _ _ _ _ (pi_tab _ _ P) N1 N2) as E.
  pose proof (T GDeferred eq_refl) as R. cbn [tget m_track] in R. rewrite E in R. eapply grel_g0_runs; eauto.
Qed.

(* an event inside the current block *)
Lemma Rp_in_block sh s s' m e b owed b' :
  Rp sh s m -> inv sh s' -> s_ph s = PBlocks -> ev_block e = Some b ->
  upd_spec s s' e (s_g s) b' owed -> s_reason s' = s_reason s ->
  exists m', mstep sh SPlan m e = Some m' /\ Rp sh s' m'.
Proof.
  intros [I L] I' Ph He U Er. destruct U as [Ui Up Ug Ut Uc Ub Ul Uf].
  assert (Z : k_runs (m_def m) = 0) by (apply (plan_def0 sh s m I L); rewrite Ph; discriminate).
  exists (m_after m e). split.
  - unfold mstep. now rewrite (skip_step sh SPlan m e (plan_skips_block_ev _ _ _ He Z)).
  - split; [exact I'|]. apply (link_plan_skip sh s); auto.
    + intros g _. now rewrite Ug.
    + intros o Ho _. eapply block_ev_frame; eauto.
    + intros st n ok r ->. discriminate He.
    + intros g i st n ok r _ ->. discriminate He.
Qed.

Lemma plan_entered sh s m : inv sh s -> link_plan sh s m -> s_ph s = PDeferred -> entered sh SPlan m = true.
Proof.
  intros [[P _] Y] (_ & S & T) Ph. unfold entered. apply andb_true_iff. split.
  - rewrite S. destruct (status_eqb (ist (s_img s) (scope_obj SPlan)) NotStarted) eqn:E; auto.
    apply status_eqb_eq in E. exfalso. apply (y_started _ Y); [rewrite Ph; discriminate|exact E].
  - rewrite has_ppres. destruct (pi_tab _ _ P) as [_ Tb]. rewrite Ph in Tb. cbn [pstage] in Tb. cbn zeta in Tb.
    destruct Tb as (Nb & _). unfold not_taken in Nb. destruct (ppres sh GBypass); [|reflexivity]. simpl.
    pose proof (T GBypass eq_refl) as R. cbn [tget m_track] in R. rewrite Nb in R.
    destruct R as [_ (A & _ & C & _)]. destruct (C (le_n 1)) as [Ov El].
    unfold k_done. rewrite A, Ov. simpl. injection El as El. destruct (k_failed (m_byp m)); [reflexivity|discriminate].
Qed.

Lemma op_running ors may dst d g op x owed :
  g_apply ors may dst d g op = Some (x, owed) -> (exists i, op = OpStart i) \/ (exists i o, op = OpEnd i o) ->
  exists r acts, g = GRun r acts.
Proof.
  intros H [[i ->]|(i & o & ->)]; simpl in H.
  - destruct (g_start g i d) as [y|] eqn:E; [|discriminate]. destruct (g_start_spec _ _ _ _ E) as (r & acts & _ & _ & Q & _). eauto.
  - destruct (g_end g i o) as [y|] eqn:E; [|discriminate]. destruct (g_end_spec _ _ _ _ E) as (r & acts & _ & _ & Q & _). eauto.
Qed.

Lemma Rp_plan_chk sh s s' m e g op x owed :
  Rp sh s m -> inv sh s' -> chk_op e = Some (SPlan, g, op) ->
  g_apply (grp_get (sh_groups sh) g) (p_may_start s g) (ist (s_img s) (OChecks SPlan g)) (ev_cell s e)
          (tget (s_g s) g) op = Some (x, owed) ->
  upd_spec s s' e (tset (s_g s) g x) (s_b s) owed -> s_reason s' = s_reason s ->
  exists m', mstep sh SPlan m e = Some m' /\ Rp sh s' m'.
Proof.
  intros [I L] I' Hc Ha U Er. pose proof I as [[P X] Y]. pose proof L as (C & S & T).
  destruct U as [Ui Up Ug Ut Uc Ub Ul Uf].
  assert (NE : ~ ended s) by (intro En; eapply ended_no_plan_op; eauto).
  assert (Lv : m_rel m = false).
  { rewrite (c_rel _ _ C). apply not_released. intro Q. apply NE. now right. }
  (* while a bypass / pre / post group runs the deferred group has not begun *)
  assert (Early : (g = GBypass \/ g = GPre \/ g = GPost) -> (exists r acts, tget (s_g s) g = GRun r acts) ->
                  k_runs (m_def m) = 0).
  { intros Gg (r & acts & Hg). destruct (tab_running_early _ _ _ _ _ _ _ (pi_tab _ _ P) Hg Gg) as [N1 N2]. exact (plan_def0 sh s m I L N1 N2). }
  assert (Fo : ist (s_img s') OPlan = ist (s_img s) OPlan).
  { rewrite Ui. unfold ist. f_equal. eapply chk_op_frame; eauto; discriminate. }
  destruct (tracked g) eqn:Tg.
  - assert (Hmay : p_may_start s g = true ->
             (g_runs (tget (s_g s) g) = 0 \/ g_dead (tget (s_g s) g) = false)
             /\ (g = GDeferred -> entered sh SPlan m = true /\ g_runs (tget (s_g s) g) = 0)).
    { intro M. pose proof (p_may_start_spec _ _ M) as Al. split; [eapply allowed_may; eauto|].
      intros ->. destruct Al as [Sd Z]. split; [|exact Z].
      apply (plan_entered sh s); auto. destruct (s_ph s); try discriminate Sd; reflexivity. }
    assert (Hbyp : g = GBypass -> (exists r acts, tget (s_g s) g = GRun r acts) -> k_runs (m_def m) = 0).
    { intros ->. apply Early. now left. }
    destruct (track_op sh SPlan (s_img s) (s_g s) m e g op x owed _ _ _ Hc Tg Ha
                (fun rs => plan_size sh g rs) (pi_img _ _ P g) (c_img _ _ C) T Lv Hmay Hbyp)
      as (m' & Hm & Ci & Tr & F1 & F2 & F3).
    exists m'. split; [unfold mstep; now rewrite Hm|]. split; [exact I'|]. split; [|split].
    + constructor; [now rewrite Ui| |].
      * rewrite F3, Er. apply (c_reason _ _ C).
      * rewrite F2, (released_same s s') by exact Up. apply (c_rel _ _ C).
    + unfold started_rel in *. cbn [scope_obj] in *. now rewrite F1, Fo.
    + now rewrite Ui, Ug.
  - assert (Gg : g = GPre \/ g = GPost) by (destruct g; try discriminate Tg; auto).
    exists (m_after m e). split.
    + unfold mstep. rewrite (skip_step sh SPlan m e); [reflexivity|].
      destruct (chk_op_inv _ _ _ _ Hc) as
        [(i & -> & ->)|[(i & o & -> & ->)|[(i & r & -> & _)|[(i & n & ok & r & -> & _)
        |[(i & st & n & ok & r & -> & _)|(st & r & -> & _)]]]]]; simpl.
      * right. apply Early; [tauto|]. eapply op_running; eauto.
      * right. right. apply Early; [tauto|]. eapply op_running; eauto.
      * repeat split; try discriminate. intros g' i' Tg' Q. injection Q as -> _. congruence.
      * repeat split; try discriminate. intros g' i' Tg' Q. injection Q as -> _. congruence.
      * repeat split; try discriminate. intros g' i' Tg' Q. injection Q as -> _. congruence.
      * repeat split; try discriminate.
    + split; [exact I'|]. apply (link_plan_skip sh s); auto.
      * intros g' Tg'. rewrite Ug. apply tget_tset_other. intro Q. subst. congruence.
      * intros o _ Hn. now apply ev_img_other.
      * intros st n ok r ->. simpl in Hc. discriminate Hc.
      * intros g' i st n ok r Tg' ->.
        destruct (chk_op_inv _ _ _ _ Hc) as
          [(i0 & Q & _)|[(i0 & o & Q & _)|[(i0 & r0 & Q & _)|[(i0 & n0 & ok0 & r0 & Q & _)
          |[(i0 & st0 & n0 & ok0 & r0 & Q & _)|(st0 & r0 & Q & _)]]]]]; try discriminate Q;
          injection Q as -> _; congruence.
Qed.
