(* [copied from coq/c06 (C06 engineer, commit df26526): shared reachable-state invariants of the automaton] *)
(* InvPlan - the plan-level invariant pinv is kept by every handler and every epsilon-move, hence holds in
   every state the automaton reaches from init. *)
From Coq Require Import Lia.
From Coercion.Base Require Import Plan.
From Coercion.Engine Require Import Shape Event Action ChecksRun Seq Block Final PlanSM Auto Accept AutoLemmas.
From Coercion.C07 Require Import Groups Steps Tab Inv FinalFacts.

Lemma ppres_none sh g : ppres sh g = false -> grp_get (sh_groups sh) g = None.
Proof. unfold ppres, present. destruct (grp_get (sh_groups sh) g); [discriminate|reflexivity]. Qed.

(* pinv only reads these fields *)
Lemma pinv_same sh s s' :
  s_img s' = s_img s -> s_ph s' = s_ph s -> s_g s' = s_g s -> s_thr s' = s_thr s -> s_cb s' = s_cb s ->
  s_b s' = s_b s -> pinv sh s -> pinv sh s'.
Proof.
  intros E1 E2 E3 E4 E5 E6 [P1 P2 P3 P4 P4' P5 P6 P7 P8 P9 P10 P11].
  constructor; unfold ended, ptaken, pbad, pfine, untouched in *; rewrite ?E1, ?E2, ?E3, ?E4, ?E5, ?E6; assumption.
Qed.

(* a plan group that is idle in the table is operated on only if its run may start *)
Lemma plan_not_idle sh s g d op x owed :
  g_apply (grp_get (sh_groups sh) g) (p_may_start s g) (ist (s_img s) (OChecks SPlan g)) d (tget (s_g s) g) op = Some (x, owed) ->
  g_is_idle (tget (s_g s) g) = true -> allowed (pstage (s_ph s)) (s_thr s) (s_g s) g.
Proof. intros H Hi. apply p_may_start_spec. eapply op_on_idle; eauto. Qed.

(* after the end nothing of the plan's groups moves *)
Lemma ended_no_plan_op sh s g d op x owed :
  pinv sh s -> ended s ->
  g_apply (grp_get (sh_groups sh) g) (p_may_start s g) (ist (s_img s) (OChecks SPlan g)) d (tget (s_g s) g) op = Some (x, owed) ->
  False.
Proof.
  intros P E H. pose proof (pi_thr _ _ P E) as Nl. destruct (pi_tab _ _ P) as [A T].
  assert (St : pstage (s_ph s) = SgEnd) by (destruct E as [-> | ->]; reflexivity).
  rewrite St in T. cbn zeta in T.
  assert (Hi : g_is_idle (tget (s_g s) g) = true).
  { destruct T as [(Eb & Ep & Ec & Eo & Ed & Et)|(Nb & Cp & Lc & Io & Id)].
    - destruct g; cbn [tget]; rewrite ?Eb, ?Ep, ?Ec, ?Eo, ?Ed; reflexivity.
    - destruct g; cbn [tget].
      + eapply not_taken_idle; eauto.
      + eapply closed_idle; eauto.
      + unfold cont_late in Lc. destruct (ppres sh GCont).
        * destruct Lc as (_ & Hn & Hd). destruct (s_thr s); [destruct (Hn eq_refl) as [v ->]; reflexivity|now elim Nl|now apply Hd].
        * destruct Lc as [-> _]. reflexivity.
      + now apply idle_once_idle.
      + now apply idle_once_idle. }
  pose proof (plan_not_idle _ _ _ _ _ _ _ H Hi) as Al. rewrite St in Al.
  unfold allowed in Al. destruct g; try (destruct Al; discriminate).
  destruct Al as [[Q _]|[Q _]]; [discriminate|contradiction].
Qed.

Lemma grp_neq_sym (g g' : grp) : grp_eqb g g' = false -> g <> g'.
Proof. intros E Q. subst g'. rewrite (proj2 (grp_eqb_eq g g) eq_refl) in E. discriminate. Qed.

(* an operation on check group g of the plan *)
Lemma pinv_plan_chk sh s e s' g op x owed :
  pinv sh s -> chk_op e = Some (SPlan, g, op) ->
  g_apply (grp_get (sh_groups sh) g) (p_may_start s g) (ist (s_img s) (OChecks SPlan g)) (ev_cell s e)
          (tget (s_g s) g) op = Some (x, owed) ->
  upd_spec s s' e (tset (s_g s) g x) (s_b s) owed -> pinv sh s'.
Proof.
  intros P Hc H [Ui Up Ug Ut Uc Ub Ul Uf].
  pose proof P as [P1 P2 P3 P4 P4' P5 P6 P7 P8 P9 P10 P11].
  destruct (chk_op_img _ _ _ _ (s_img s) Hc) as [Ig Io].
  assert (Hm : p_may_start s g = true -> allowed (pstage (s_ph s)) (s_thr s) (s_g s) g) by apply p_may_start_spec.
  assert (NotIdle : g_is_idle (tget (s_g s) g) = true -> allowed (pstage (s_ph s)) (s_thr s) (s_g s) g).
  { intro Hi. eapply plan_not_idle; eauto. }
  assert (NotEnded : ~ ended s) by (intro E; eapply ended_no_plan_op; eauto).
  assert (Other : forall g', g <> g' -> tget (tset (s_g s) g x) g' = tget (s_g s) g') by (intros; now apply tget_tset_other).
  assert (Dead : forall g', g_dead (tget (s_g s) g') = true -> g_dead (tget (tset (s_g s) g x) g') = true).
  { intros g' D. destruct (grp_eqb g g') eqn:E.
    - apply grp_eqb_eq in E. subst g'. exfalso. exact (dead_no_op _ _ _ _ _ _ _ _ _ _ _ (P1 g) D Hm H).
    - rewrite Other; auto. now apply grp_neq_sym. }
  constructor; unfold ended, ptaken, untouched in *; rewrite ?Ui, ?Up, ?Ug, ?Ut, ?Uc, ?Ub.
  - intro g'. destruct (grp_eqb g g') eqn:E.
    + apply grp_eqb_eq in E. subst g'. rewrite tget_tset_same, Ig.
      eapply g_apply_gimg; eauto. intro M. eapply allowed_may; eauto.
    + pose proof (grp_neq_sym _ _ E) as Ne. rewrite Other by exact Ne.
      rewrite Io; [apply P1|exact I|]. intro Q. injection Q as Q. now apply Ne.
  - exact (tab_op _ _ _ _ _ _ _ _ _ _ _ _ P2 (ppres_none sh g) Hm (P1 g) H).
  - intro E. now elim NotEnded.
  - intros Ph Td. destruct g; cbn [tset t_cont]; auto. exfalso.
    destruct P2 as [A T]. rewrite Ph in T. cbn [pstage] in T. cbn zeta in T. destruct T as (_ & _ & Lc & _).
    assert (Hi : g_is_idle (tget (s_g s) GCont) = true).
    { cbn [tget]. unfold cont_after in Lc. destruct (ppres sh GCont).
      - destruct Lc as [_ [Q|[_ Q]]]; [congruence|exact Q].
      - destruct Lc as [-> _]. reflexivity. }
    specialize (NotIdle Hi). rewrite Ph in NotIdle. destruct NotIdle as [[Q _]|[Q _]]; [discriminate|congruence].
  - intros Ph Tl. destruct g; cbn [tset t_post]; auto. exfalso.
    assert (Hi : g_is_idle (tget (s_g s) GPost) = true) by (cbn [tget]; rewrite (P4' Ph Tl); reflexivity).
    pose proof (op_on_idle _ _ _ _ _ _ _ _ H Hi) as M. unfold p_may_start in M. rewrite Tl in M. simpl in M.
    rewrite andb_false_r in M. discriminate.
  - intros Ph b Hb. rewrite Io; [auto|exact I|discriminate].
  - intros Ph b Hb. rewrite Io; [auto|exact I|discriminate].
  - intros Ph Nt.
    assert (Ph' : s_ph s = PDeferred) by (destruct Ph as [Q|Q]; [exact Q|now elim NotEnded]).
    assert (Nb : g <> GBypass).
    { intros ->. destruct P2 as [A T]. rewrite Ph' in T. cbn [pstage] in T. cbn zeta in T. destruct T as (Nb & _).
      specialize (NotIdle (not_taken_idle _ _ Nb)). rewrite Ph' in NotIdle. destruct NotIdle. discriminate. }
    assert (Nt0 : t_bypass (s_g s) <> GIdle 1 (Some true)).
    { destruct g; cbn [tset t_bypass] in Nt; auto; now elim Nb. }
    destruct (P7 (or_introl Ph') Nt0) as [[(g0 & In0 & Pg & D0)|(b & Hb & Fb)]|(F1 & F2 & F3 & F4 & F5 & F6)].
    + left. left. exists g0. rewrite Ug. auto.
    + left. right. exists b. split; auto. rewrite Ui, Io; [auto|exact I|discriminate].
    + right. unfold pfine. rewrite Ui, Up, Ug, Ut.
      assert (G : g = GDeferred).
      { destruct g; auto; exfalso.
        - now elim Nb.
        - specialize (NotIdle (closed_ok_idle _ _ F1)). rewrite Ph' in NotIdle. destruct NotIdle. discriminate.
        - assert (Hi : g_is_idle (tget (s_g s) GCont) = true).
          { cbn [tget]. unfold cont_fine in F2. destruct (ppres sh GCont) eqn:Pc.
            - destruct (F2 eq_refl) as [r ->]. reflexivity.
            - pose proof (tab_absent _ _ _ _ _ P2 Pc) as Q0. cbn [tget] in Q0. rewrite Q0. reflexivity. }
          specialize (NotIdle Hi). rewrite Ph' in NotIdle. destruct NotIdle as [[Q _]|[Q _]]; [discriminate|contradiction].
        - specialize (NotIdle (closed_ok_idle _ _ F3)). rewrite Ph' in NotIdle. destruct NotIdle. discriminate. }
      subst g. cbn [tset t_pre t_cont t_post t_deferred].
      refine (conj F1 (conj F2 (conj F3 (conj _ (conj _ F6))))).
      * intros b Hb. rewrite Io; [auto|exact I|discriminate].
      * intro Q. now elim Q.
  - intro E. now elim NotEnded.
  - intro E. rewrite Io; [auto|exact I|discriminate].
  - intros b g' U. rewrite Io; [auto|exact I|discriminate].
  - intro Ph. specialize (P11 Ph). destruct (block_of sh (s_cb s)) as [bs|]; [|exact I].
    eapply binv_frame; [exact P11| | |].
    + intro g'. rewrite Io; [reflexivity|exact I|discriminate].
    + intro q. rewrite Io; [reflexivity|exact I|discriminate].
    + apply (Dead GCont).
Qed.

(* objects whose durable status an event inside block b cannot change *)
Definition outside (b : nat) (o : obj) : Prop :=
  match o with
  | OChecks (SBlock b0) _ | OSeq b0 _ | OBlock b0 => b0 <> b
  | OAct _ => False
  | _ => True
  end.

Lemma pinv_in_block sh s e s' b bs b' owed :
  pinv sh s -> cur_block sh s b = Some bs -> upd_spec s s' e (s_g s) b' owed ->
  (forall o, outside b o -> ist (ev_img e (s_img s)) o = ist (s_img s) o) ->
  binv bs (ev_img e (s_img s)) b (g_dead (t_cont (s_g s))) b' -> pinv sh s'.
Proof.
  intros P Hc [Ui Up Ug Ut Uc Ub Ul Uf] Fr Bn.
  destruct (cur_block_spec _ _ _ _ Hc) as (Ph & -> & Hb).
  pose proof P as [P1 P2 P3 P4 P4' P5 P6 P7 P8 P9 P10 P11].
  constructor; unfold ended, ptaken, untouched in *; rewrite ?Ui, ?Up, ?Ug, ?Ut, ?Uc, ?Ub.
  - intro g. rewrite Fr; [apply P1|exact I].
  - exact P2.
  - rewrite Ph. intros [Q|Q]; discriminate.
  - rewrite Ph. discriminate.
  - rewrite Ph. discriminate.
  - intros _ b0 Lt. rewrite Fr; [auto|]. simpl. lia.
  - rewrite Ph. discriminate.
  - rewrite Ph. intros [Q|[Q|Q]]; discriminate.
  - rewrite Ph. intros [Q|Q]; discriminate.
  - intros _. rewrite Fr; [|exact I]. apply P9. rewrite Ph. intros [Q|Q]; discriminate.
  - intros b0 g U. rewrite Fr; [auto|]. simpl. rewrite Ph in U.
    destruct U as [Q|[Q|[Q|[_ Q]]]]; try discriminate. lia.
  - intros _. rewrite Hb. exact Bn.
Qed.

Lemma pinv_handle sh s e s' : pinv sh s -> handle sh s e = Some s' -> pinv sh s'.
Proof.
  intros P H. pose proof P as [P1 P2 P3 P4 P4' P5 P6 P7 P8 P9 P10 P11].
  destruct (handle_cases _ _ _ _ H) as
    [g op x owed Hc Ha _ U _|b bs g op x owed Hc Cb Ha _ U _|b bs q sq sq' owed Cb Hq Ht U _
    |b bs stt r -> Cb Hw U _|stt r -> Hw U Hr|a l -> Hl E1 E2 E3 E4 E5 E6 _ _ _|snap -> ->
    |fin -> Ph Tm Ag E1 E2 E3 E4 E5 E6 _ _].
  - eapply pinv_plan_chk; eauto.
  - destruct (cur_block_spec _ _ _ _ Cb) as (Ph & Eb & Hb). pose proof (P11 Ph) as Bn. rewrite <- Eb, Hb in Bn.
    destruct (chk_op_img _ _ _ _ (s_img s) Hc) as [_ Io].
    eapply pinv_in_block; [exact P|exact Cb|exact U| |].
    + intros o Out. apply Io; [destruct o; simpl in *; auto|].
      intro Q. subst o. simpl in Out. now elim Out.
    + eapply binv_chk; eauto.
  - destruct (cur_block_spec _ _ _ _ Cb) as (Ph & Eb & Hb). pose proof (P11 Ph) as Bn. rewrite <- Eb, Hb in Bn.
    destruct (seq_trans_img _ _ _ _ _ _ _ (s_img s) Ht) as [Io _].
    eapply pinv_in_block; [exact P|exact Cb|exact U| |].
    + intros o Out. apply Io; [destruct o; simpl in *; auto|].
      intro Q. subst o. simpl in Out. now elim Out.
    + eapply binv_seq; eauto.
  - destruct (cur_block_spec _ _ _ _ Cb) as (Ph & Eb & Hb). pose proof (P11 Ph) as Bn. rewrite <- Eb, Hb in Bn.
    assert (Fr : forall o, o <> OBlock b -> ist (ev_img (EvWrite (OBlock b) stt 0 false r) (s_img s)) o = ist (s_img s) o).
    { intros o Ne. simpl. rewrite ist_iset, obj_eqb_neq; auto. }
    eapply pinv_in_block; [exact P|exact Cb|exact U| |].
    + intros o Out. apply Fr. intro Q. subst o. simpl in Out. now elim Out.
    + eapply binv_frame; [exact Bn| | |auto].
      * intro g. apply Fr. discriminate.
      * intro q. apply Fr. discriminate.
  - (* the plan's own status *)
    destruct U as [Ui Up Ug Ut Uc Ub Ul Uf].
    assert (Fr : forall o, o <> OPlan -> ist (ev_img (EvWrite OPlan stt 0 false r) (s_img s)) o = ist (s_img s) o).
    { intros o Ne. simpl. rewrite ist_iset, obj_eqb_neq; auto. }
    assert (Fo : ist (ev_img (EvWrite OPlan stt 0 false r) (s_img s)) OPlan = stt).
    { simpl. now rewrite ist_iset, obj_eqb_refl. }
    constructor; unfold ended, ptaken, pbad, pfine, untouched in *; rewrite ?Ui, ?Up, ?Ug, ?Ut, ?Uc, ?Ub.
    + intro g. rewrite Fr by discriminate. apply P1.
    + exact P2.
    + exact P3.
    + exact P4.
    + exact P4'.
    + intros Ph b Lt. rewrite Fr by discriminate. auto.
    + intros Ph b Lt. rewrite Fr by discriminate. auto.
    + intros Ph Nt. destruct (P7 Ph Nt) as [[B|(b & Lt & Fb)]|(F1 & F2 & F3 & F4 & F5 & F6)].
      * left. left. exact B.
      * left. right. exists b. split; [exact Lt|]. rewrite Fr by discriminate. exact Fb.
      * right. refine (conj F1 (conj F2 (conj F3 (conj _ (conj F5 F6))))). intros b Lt. rewrite Fr by discriminate. auto.
    + intros En _. rewrite Fo.
      unfold p_write in Hw. destruct (s_ph s) eqn:Ph; try discriminate Hw; try (destruct En as [Q|Q]; discriminate Q).
      destruct (is_terminal stt && negb (is_terminal (ist (s_img s) OPlan))
                && status_eqb stt (fst (final sh (ist (s_img s)))) && reason_eqb r (snd (final sh (ist (s_img s))))) eqn:G;
        [|discriminate].
      apply andb_true_iff in G as [G _]. apply andb_true_iff in G as [_ G]. apply status_eqb_eq in G.
      transitivity (fst (final sh (ist (s_img s)))); [exact G|]. apply f_equal. apply final_ext; intros; symmetry; apply Fr; discriminate.
    + intros Ne. rewrite Fo.
      unfold p_write in Hw. destruct (s_ph s) eqn:Ph; try discriminate Hw.
      * destruct (status_eqb stt Running && reason_eqb r FRUnknown) eqn:G; [|discriminate].
        apply andb_true_iff in G as [G _]. apply status_eqb_eq in G. now subst stt.
      * exfalso. apply Ne. now left.
    + intros b g U. rewrite Fr by discriminate. auto.
    + intro Ph. specialize (P11 Ph). destruct (block_of sh (s_cb s)) as [bs|]; [|exact I].
      eapply binv_frame; [exact P11| | |auto].
      * intro g. apply Fr. discriminate.
      * intro q. apply Fr. discriminate.
  - eapply pinv_same; eauto.
  - exact P.
  - (* release *)
    constructor; unfold ended, ptaken, pbad, pfine, untouched in *; rewrite ?E1, ?E2, ?E3, ?E4, ?E5, ?E6.
    + exact P1.
    + rewrite Ph in P2. exact P2.
    + intros _. apply P3. now left.
    + discriminate.
    + discriminate.
    + discriminate.
    + discriminate.
    + intros _ Nt. destruct (P7 (or_intror (or_introl Ph)) Nt) as [B|(F1 & F2 & F3 & F4 & F5 & F6)]; [now left|right].
      refine (conj F1 (conj F2 (conj F3 (conj F4 (conj _ F6))))). intros _. apply F5. rewrite Ph. discriminate.
    + intros _ T. apply P8; auto.
    + intro Ne. exfalso. apply Ne. now right.
    + intros b g [Q|[Q|[Q|[Q _]]]]; discriminate.
    + discriminate.
Qed.

Lemma pinv_init sh : pinv sh init.
Proof.
  constructor; unfold ended, ptaken, untouched; cbn.
  - intro g. destruct g; reflexivity.
  - split; [intros g _; destruct g; reflexivity|]. cbn. auto.
  - discriminate.
  - discriminate.
  - discriminate.
  - discriminate.
  - discriminate.
  - intros [Q|[Q|Q]]; discriminate.
  - intros [Q|Q]; discriminate.
  - reflexivity.
  - reflexivity.
  - discriminate.
Qed.

Ltac psimp := cbn [s_img s_ph s_g s_thr s_cb s_b with_ph with_g with_thr with_block with_b enter_block pstage].

Lemma enter_block_fields sh s cb :
  s_img (enter_block sh s cb) = s_img s /\ s_ph (enter_block sh s cb) = s_ph s /\ s_g (enter_block sh s cb) = s_g s
  /\ s_thr (enter_block sh s cb) = s_thr s /\ s_cb (enter_block sh s cb) = cb
  /\ s_b (enter_block sh s cb) = match block_of sh cb with Some bs => b_init bs | None => b_none end.
Proof. unfold enter_block. destruct (block_of sh cb); cbn; auto 10. Qed.

Lemma block_of_lt sh b bs : block_of sh b = Some bs -> b < length (sh_blocks sh).
Proof. unfold block_of. intro H. eapply nth_error_some_lt; eauto. Qed.
Lemma block_of_none sh b : block_of sh b = None -> length (sh_blocks sh) <= b.
Proof. unfold block_of. intro H. now apply nth_error_None. Qed.

(* goals of pinv that are vacuous because of the phase *)
Ltac byph :=
  try discriminate;
  try (let Q := fresh "Q" in intros [Q|Q]; discriminate Q);
  try (let Q := fresh "Q" in intros [Q|[Q|Q]]; discriminate Q);
  try (let Q := fresh "Q" in intros ? ? [Q|[Q|[Q|[Q _]]]]; discriminate Q).

Ltac pstart := constructor; unfold ended, ptaken, untouched; psimp.

(* the epsilon-moves of the plan *)
Lemma pinv_eps sh s s1 : pinv sh s -> eps sh s = Some s1 -> pinv sh s1.
Proof.
  intros P H. pose proof P as [P1 P2 P3 P4 P4' P5 P6 P7 P8 P9 P10 P11].
  assert (OD : forall g x v, gonce (tget (s_g s) g) ->
            once_done (ppres sh g) (tget (s_g s) g) (ist (s_img s) (OChecks SPlan g)) = Some (x, v) ->
            x = tget (s_g s) g /\ (if ppres sh g then tget (s_g s) g = GIdle 1 (Some v) else tget (s_g s) g = g0 /\ v = true)).
  { intros g x v O Hd. destruct (ppres sh g) eqn:Pg.
    - destruct (once_done_gonce _ _ _ _ (P1 g) O Hd) as [E ->]. auto.
    - destruct (once_done_absent _ _ _ _ Hd) as [-> ->]. split; auto. split; auto. eapply tab_absent; eauto. }
  assert (Run : ~ ended s -> is_terminal (ist (s_img s) OPlan) = false) by exact P9.
  unfold eps, p_eps in H. destruct (s_ph s) eqn:Ph; cbn [pstage] in *; unfold ended in Run; rewrite Ph in Run;
    try (assert (Run' : is_terminal (ist (s_img s) OPlan) = false) by (apply Run; intros [Q|Q]; discriminate Q)).
  - (* PStart *)
    destruct (status_eqb (ist (s_img s) OPlan) Running); [|discriminate]. injection H as <-.
    destruct P2 as [A [Et Eth]].
    pstart; byph.
    + exact P1.
    + split; [exact A|]. rewrite Et. cbn. repeat split; auto.
    + intros _. exact Run'.
    + intros b g _. apply P10. unfold untouched. auto.
  - (* PBypass *)
    destruct P2 as [A (Ob & Ep & Ec & Eo & Ed & Eth)].
    destruct (g_bypass (sh_groups sh)) as [rs|] eqn:Gb.
    + assert (Pb : ppres sh GBypass = true) by (unfold ppres; cbn; now rewrite Gb).
      destruct (once_done true (t_bypass (s_g s)) (ist (s_img s) (OChecks SPlan GBypass))) as [[x v]|] eqn:Od; [|discriminate].
      rewrite <- Pb in Od. destruct (OD GBypass x v Ob Od) as [-> Eb]. rewrite Pb in Eb. cbn [tget] in Eb.
      rewrite tset_same_b in H.
      destruct v; injection H as <-.
      * pstart; byph.
        -- exact P1.
        -- split; [exact A|]. cbn zeta. left. repeat split; auto.
        -- intros _. congruence.
        -- intros _ Nt. now elim Nt.
        -- intros _ T. congruence.
        -- intro Ne. exfalso. apply Ne. now left.
      * pstart; byph.
        -- exact P1.
        -- split; [exact A|]. cbn zeta. unfold not_taken. rewrite Pb, Ep, Ec. repeat split; auto; exact I.
        -- intros _. exact Run'.
        -- intros b g _. apply P10. unfold untouched. auto.
    + injection H as <-.
      assert (Pb : ppres sh GBypass = false) by (unfold ppres; cbn; now rewrite Gb).
      pstart; byph.
      * exact P1.
      * split; [exact A|]. cbn zeta. unfold not_taken. rewrite Pb, Ep, Ec. repeat split; auto; try exact I.
        exact (A GBypass Pb).
      * intros _. exact Run'.
      * intros b g _. apply P10. unfold untouched. auto.
  - (* PPre *)
    destruct P2 as [A (Nb & Op & Oc & Eo & Ed & Eth)].
    change (present (g_pre (sh_groups sh))) with (ppres sh GPre) in H.
    change (present (g_cont (sh_groups sh))) with (ppres sh GCont) in H.
    destruct (once_done (ppres sh GPre) (t_pre (s_g s)) (ist (s_img s) (OChecks SPlan GPre))) as [[x v1]|] eqn:O1; [|discriminate].
    destruct (once_done (ppres sh GCont) (t_cont (s_g s)) (ist (s_img s) (OChecks SPlan GCont))) as [[y v2]|] eqn:O2; [|discriminate].
    destruct (OD GPre x v1 Op O1) as [-> X]. destruct (OD GCont y v2 Oc O2) as [-> Y]. cbn [tget] in X, Y, H.
    rewrite tset_same_p, tset_same_c in H.
    destruct (v1 && v2) eqn:V; injection H as <-.
    + apply andb_true_iff in V as [-> ->].
      destruct (enter_block_fields sh (with_thr (with_g s (s_g s)) (if ppres sh GCont then TLive else TNone)) 0)
        as (F1 & F2 & F3 & F4 & F5 & F6).
      pstart; rewrite ?F1, ?F3, ?F4, ?F5, ?F6; psimp; byph.
      * exact P1.
      * split; [exact A|]. cbn zeta. unfold closed_ok, cont_live, cont_ok.
        assert (X' : if ppres sh GPre then t_pre (s_g s) = GIdle 1 (Some true) else t_pre (s_g s) = g0)
          by (destruct (ppres sh GPre); [exact X|apply X]).
        assert (Y' : if ppres sh GCont then (1 <= g_runs (t_cont (s_g s)) /\ t_cont (s_g s) <> GIdle 1 (Some false))
                                             /\ (if ppres sh GCont then TLive else TNone) = TLive
                     else t_cont (s_g s) = g0 /\ (if ppres sh GCont then TLive else TNone) = TNone).
        { destruct (ppres sh GCont); [rewrite Y; repeat split; simpl; auto; discriminate|split; [apply Y|reflexivity]]. }
        exact (conj Nb (conj X' (conj Y' (conj Eo Ed)))).
      * intros _ b Lt. lia.
      * intros _. exact Run'.
      * intros b g [Q|[Q|[Q|[_ Q]]]]; try discriminate. apply P10. unfold untouched. auto.
      * intros _. destruct (block_of sh 0) as [bs|] eqn:B0; [|exact I].
        apply binv_init. intro g. apply P10. unfold untouched. auto.
    + pstart; unfold pbad; psimp; byph.
      * exact P1.
      * split; [exact A|]. cbn zeta. rewrite Eth. unfold closed, cont_late, idle_once. rewrite Eo, Ed.
        assert (X' : if ppres sh GPre then exists v, t_pre (s_g s) = GIdle 1 (Some v) else t_pre (s_g s) = g0)
          by (destruct (ppres sh GPre); [eauto|apply X]).
        assert (Y' : if ppres sh GCont
                     then 1 <= g_runs (t_cont (s_g s)) /\ (TNone = TNone -> exists v, t_cont (s_g s) = GIdle 1 (Some v))
                          /\ (TNone = TDrained -> g_is_idle (t_cont (s_g s)) = true)
                     else t_cont (s_g s) = g0 /\ TNone = TNone).
        { destruct (ppres sh GCont); [rewrite Y; repeat split; simpl; eauto; discriminate|split; [apply Y|reflexivity]]. }
        exact (conj Nb (conj X' (conj Y' (conj (or_introl eq_refl) I)))).
      * intros _ _. left. left. apply andb_false_iff in V as [->| ->].
        -- exists GPre. destruct (ppres sh GPre) eqn:Pp; [|destruct X; discriminate].
           repeat split; [simpl; auto|]. cbn [tget]. now rewrite X.
        -- exists GCont. destruct (ppres sh GCont) eqn:Pp; [|destruct Y; discriminate].
           repeat split; [simpl; auto|]. cbn [tget]. now rewrite Y.
      * intros _. exact Run'.
  - (* PBlocks *)
    destruct P2 as [A (Nb & Cp & Lc & Eo & Ed)].
    destruct (block_of sh (s_cb s)) as [bs|] eqn:Hb.
    + specialize (P11 eq_refl). cbn beta iota in P11.
      destruct (b_eps bs (s_img s) (s_cb s) (p_visible s) (s_b s)) as [[b'|failed]|] eqn:Be; [| |discriminate].
      * (* the block goes on *)
        injection H as <-.
        pstart; rewrite ?Ph; byph.
        -- exact P1.
        -- split; [exact A|]. exact (conj Nb (conj Cp (conj Lc (conj Eo Ed)))).
        -- intros _. apply P5. reflexivity.
        -- intros _. exact Run'.
        -- intros b g U. apply P10. unfold untouched. rewrite Ph. exact U.
        -- intros _. rewrite Hb. eapply binv_eps; [exact P11| |exact Be].
           unfold p_visible. intro V. apply andb_true_iff in V. apply V.
      * (* the block is over *)
        assert (St : ist (s_img s) (OBlock (s_cb s)) = if failed then Failed else Completed).
        { destruct (b_eps_finished _ _ _ _ _ _ Be) as (_ & _ & -> & E). exact E. }
        destruct failed; injection H as <-.
        -- (* failed: to the plan's deferred checks *)
           pstart; unfold pbad; psimp; byph.
           ++ exact P1.
           ++ split; [exact A|]. cbn zeta. rewrite Eo, Ed. unfold closed, cont_late, idle_once.
              unfold closed_ok, cont_live in *.
              assert (X' : if ppres sh GPre then exists v, t_pre (s_g s) = GIdle 1 (Some v) else t_pre (s_g s) = g0)
                by (destruct (ppres sh GPre); eauto).
              assert (Y' : if ppres sh GCont
                           then 1 <= g_runs (t_cont (s_g s)) /\ (s_thr s = TNone -> exists v, t_cont (s_g s) = GIdle 1 (Some v))
                                /\ (s_thr s = TDrained -> g_is_idle (t_cont (s_g s)) = true)
                           else t_cont (s_g s) = g0 /\ s_thr s = TNone).
              { destruct (ppres sh GCont); [|exact Lc]. destruct Lc as [[R _] ->]. repeat split; auto; discriminate. }
              exact (conj Nb (conj X' (conj Y' (conj (or_introl eq_refl) I)))).
           ++ intros _ _. left. right. exists (s_cb s). split; [eapply block_of_lt; eauto|exact St].
           ++ intros _. exact Run'.
        -- (* completed: the next block *)
           destruct (enter_block_fields sh s (S (s_cb s))) as (F1 & F2 & F3 & F4 & F5 & F6).
           constructor; unfold ended, ptaken, untouched; rewrite ?F1, ?F2, ?F3, ?F4, ?F5, ?F6, ?Ph; psimp; byph.
           ++ exact P1.
           ++ split; [exact A|]. exact (conj Nb (conj Cp (conj Lc (conj Eo Ed)))).
           ++ intros _ b Lt. destruct (Nat.eq_dec b (s_cb s)) as [->|Ne]; [exact St|]. apply P5; [reflexivity|lia].
           ++ intros _. exact Run'.
           ++ intros b g [Q|[Q|[Q|[_ Q]]]]; try discriminate. apply P10. unfold untouched. rewrite Ph.
              right. right. right. split; [reflexivity|lia].
           ++ intros _. destruct (block_of sh (S (s_cb s))) as [bs'|] eqn:B1; [|exact I].
              apply binv_init. intro g. apply P10. unfold untouched. rewrite Ph.
              right. right. right. split; [reflexivity|lia].
    + (* no more blocks *)
      injection H as <-.
      pstart; byph.
      * exact P1.
      * split; [exact A|]. cbn zeta. unfold cont_after, cont_live in *.
        assert (Y' : if ppres sh GCont
                     then cont_ok (t_cont (s_g s)) /\ (s_thr s = TLive \/ s_thr s = TDrained /\ g_is_idle (t_cont (s_g s)) = true)
                     else t_cont (s_g s) = g0 /\ s_thr s = TNone).
        { destruct (ppres sh GCont); [|exact Lc]. destruct Lc as [Ok ->]. auto. }
        rewrite Eo. exact (conj Nb (conj Cp (conj Y' (conj I Ed)))).
      * intros _ Td. exfalso. unfold cont_live in Lc. destruct (ppres sh GCont); destruct Lc as [_ Q]; congruence.
      * intros _ _. exact Eo.
      * intros _ b Lt. apply P5; [reflexivity|]. apply block_of_none in Hb. unfold nblocks in Lt. lia.
      * intros _. exact Run'.
  - (* PPost *)
    destruct P2 as [A (Nb & Cp & Lc & Oo & Ed)].
    destruct (thr_live (s_thr s)) eqn:Lv.
    + (* drain *)
      destruct (g_settle (t_cont (s_g s)) (ist (s_img s) (OChecks SPlan GCont))) as [x|] eqn:Gs; [|discriminate].
      assert (Tl : s_thr s = TLive) by (destruct (s_thr s); try discriminate Lv; reflexivity).
      assert (Pc : ppres sh GCont = true).
      { unfold cont_after in Lc. destruct (ppres sh GCont); auto. destruct Lc as [_ Q]. congruence. }
      unfold cont_after in Lc. rewrite Pc in Lc. destruct Lc as (Ok & _).
      assert (Xs : g_is_idle x = true /\ gimg x (ist (s_img s) (OChecks SPlan GCont)) /\ cont_ok x).
      { destruct (g_settle_spec _ _ _ (P1 GCont) Gs) as [[Hi ->]|(r & acts & E & -> & D)].
        - cbn [tget] in *. exact (conj Hi (conj (P1 GCont) Ok)).
        - refine (conj eq_refl (conj D _)). split; [simpl; lia|discriminate]. }
      destruct Xs as (Xi & Xg & Xo).
      assert (Img : forall g, gimg (tget (tset (s_g s) GCont x) g) (ist (s_img s) (OChecks SPlan g))).
      { intro g. destruct g; cbn [tset tget t_bypass t_pre t_cont t_post t_deferred];
          [apply (P1 GBypass)|apply (P1 GPre)|exact Xg|apply (P1 GPost)|apply (P1 GDeferred)]. }
      assert (Abs : forall g, ppres sh g = false -> tget (tset (s_g s) GCont x) g = g0).
      { intros g Pg. destruct g; cbn [tset tget t_bypass t_pre t_cont t_post t_deferred]; try apply (A _ Pg). congruence. }
      pose proof (P4' eq_refl Tl) as Po.
      destruct (g_dead x) eqn:Dx; injection H as <-.
      * pstart; unfold pbad; psimp; byph.
        -- exact Img.
        -- split; [exact Abs|]. cbn zeta. cbn [tset t_bypass t_pre t_cont t_post t_deferred].
           unfold closed, cont_late, idle_once. rewrite Pc, Ed, Po.
           assert (X' : if ppres sh GPre then exists v, t_pre (s_g s) = GIdle 1 (Some v) else t_pre (s_g s) = g0)
             by (unfold closed_ok in Cp; destruct (ppres sh GPre); eauto).
           destruct Xo as [Xr _].
           refine (conj Nb (conj X' (conj _ (conj (or_introl eq_refl) I)))).
           refine (conj Xr (conj _ (fun _ => Xi))). discriminate.
        -- intros _ _. left. left. exists GCont. repeat split; [simpl; auto|exact Pc|].
           cbn [tget tset t_cont]. exact Dx.
        -- intros _. exact Run'.
      * pstart; rewrite ?Ph; byph.
        -- exact Img.
        -- split; [exact Abs|]. cbn zeta. cbn [tset t_bypass t_pre t_cont t_post t_deferred].
           unfold cont_after. rewrite Pc. exact (conj Nb (conj Cp (conj (conj Xo (or_intror (conj eq_refl Xi))) (conj Oo Ed)))).
        -- intros _ _. cbn [tset t_cont]. exact Dx.
        -- intros _ b Lt. apply P6; auto.
        -- intros _. exact Run'.
    + (* the post checks are over *)
      change (present (g_post (sh_groups sh))) with (ppres sh GPost) in H.
      destruct (once_done (ppres sh GPost) (t_post (s_g s)) (ist (s_img s) (OChecks SPlan GPost))) as [[x v]|] eqn:O1; [|discriminate].
      destruct (OD GPost x v Oo O1) as [-> X]. cbn [tget] in X, H. rewrite tset_same_o in H. injection H as <-.
      assert (Nl : s_thr s <> TLive) by (intro Q; rewrite Q in Lv; discriminate).
      assert (Cf : cont_fine (ppres sh GCont) (t_cont (s_g s))).
      { intro Pc. unfold cont_after in Lc. rewrite Pc in Lc. destruct Lc as ([R _] & [Q|[Td Hi]]); [contradiction|].
        pose proof (P4 eq_refl Td) as Nd. pose proof (P1 GCont) as Ig. cbn [tget] in Ig.
        destruct (t_cont (s_g s)) as [r l|]; [|discriminate Hi]. simpl in R, Ig, Nd.
        destruct r as [|r]; [lia|]. destruct l as [[|]|]; try contradiction; try discriminate Nd. eauto. }
      pstart; unfold pbad, pfine; psimp; byph.
      * exact P1.
      * split; [exact A|]. cbn zeta. unfold closed, cont_late, idle_once. rewrite Ed.
        assert (X' : if ppres sh GPre then exists v, t_pre (s_g s) = GIdle 1 (Some v) else t_pre (s_g s) = g0)
          by (unfold closed_ok in Cp; destruct (ppres sh GPre); eauto).
        assert (Y' : if ppres sh GCont
                     then 1 <= g_runs (t_cont (s_g s)) /\ (s_thr s = TNone -> exists v, t_cont (s_g s) = GIdle 1 (Some v))
                          /\ (s_thr s = TDrained -> g_is_idle (t_cont (s_g s)) = true)
                     else t_cont (s_g s) = g0 /\ s_thr s = TNone).
        { unfold cont_after in Lc. destruct (ppres sh GCont); [|exact Lc].
          destruct Lc as ([R _] & [Q|[Td Hi]]); [contradiction|]. repeat split; auto. intro Q. congruence. }
        assert (Z' : t_post (s_g s) = g0 \/ exists v, t_post (s_g s) = GIdle 1 (Some v))
          by (destruct (ppres sh GPost); [eauto|left; apply X]).
        exact (conj Nb (conj X' (conj Y' (conj Z' I)))).
      * intros _ _. destruct (ppres sh GPost) eqn:Pp; [destruct v|].
        -- right. refine (conj Cp (conj Cf (conj _ (conj (P6 eq_refl) (conj _ Nl))))).
           ++ unfold closed_ok. exact X.
           ++ intro Q. now elim Q.
        -- left. left. exists GPost. repeat split; [simpl; auto|exact Pp|]. cbn [tget]. now rewrite X.
        -- right. refine (conj Cp (conj Cf (conj _ (conj (P6 eq_refl) (conj _ Nl))))).
           ++ unfold closed_ok. apply X.
           ++ intro Q. now elim Q.
      * intros _. exact Run'.
  - (* PDeferred *)
    destruct P2 as [A (Nb & Cp & Lc & Io & Od)].
    destruct (thr_live (s_thr s)) eqn:Lv.
    + (* drain after a failed block *)
      destruct (g_settle (t_cont (s_g s)) (ist (s_img s) (OChecks SPlan GCont))) as [x|] eqn:Gs; [|discriminate].
      injection H as <-.
      assert (Tl : s_thr s = TLive) by (destruct (s_thr s); try discriminate Lv; reflexivity).
      assert (Pc : ppres sh GCont = true).
      { unfold cont_late in Lc. destruct (ppres sh GCont); auto. destruct Lc as [_ Q]. congruence. }
      unfold cont_late in Lc. rewrite Pc in Lc. destruct Lc as (R & _ & _).
      assert (Xs : g_is_idle x = true /\ g_runs (t_cont (s_g s)) <= g_runs x /\ gimg x (ist (s_img s) (OChecks SPlan GCont))
                   /\ (g_dead (t_cont (s_g s)) = true -> x = t_cont (s_g s))).
      { destruct (g_settle_spec _ _ _ (P1 GCont) Gs) as [[Hi ->]|(r & acts & E & -> & D)].
        - cbn [tget] in *. exact (conj Hi (conj (le_n _) (conj (P1 GCont) (fun _ => eq_refl)))).
        - cbn [tget] in E. rewrite E. simpl. refine (conj eq_refl (conj _ (conj D _))); [lia|discriminate]. }
      destruct Xs as (Xi & Xr & Xg & Xd).
      pstart; rewrite ?Ph; unfold pbad; psimp; byph.
      * intro g. destruct g; cbn [tset tget t_bypass t_pre t_cont t_post t_deferred];
          [apply (P1 GBypass)|apply (P1 GPre)|exact Xg|apply (P1 GPost)|apply (P1 GDeferred)].
      * split.
        -- intros g Pg. destruct g; cbn [tset tget t_bypass t_pre t_cont t_post t_deferred]; try apply (A _ Pg). congruence.
        -- cbn zeta. cbn [tset t_bypass t_pre t_cont t_post t_deferred]. unfold cont_late. rewrite Pc.
           refine (conj Nb (conj Cp (conj _ (conj Io Od)))). refine (conj _ (conj _ (fun _ => Xi))); [lia|discriminate].
      * intros _ Nt. cbn [tset t_bypass] in Nt.
        destruct (P7 (or_introl eq_refl) Nt) as [[(g0 & In0 & Pg & D0)|B]|(_ & _ & _ & _ & _ & Q)]; [| |contradiction].
        -- left. left. exists g0. repeat split; auto.
           destruct g0; cbn [tset tget t_bypass t_pre t_cont t_post t_deferred] in *; auto. now rewrite (Xd D0).
        -- left. right. exact B.
      * intros _. exact Run'.
    + (* the deferred checks are over *)
      change (present (g_deferred (sh_groups sh))) with (ppres sh GDeferred) in H.
      destruct (once_done (ppres sh GDeferred) (t_deferred (s_g s)) (ist (s_img s) (OChecks SPlan GDeferred))) as [[x v]|] eqn:O1; [|discriminate].
      destruct (OD GDeferred x v Od O1) as [-> X]. cbn [tget] in X, H. rewrite tset_same_d in H. injection H as <-.
      assert (Nl : s_thr s <> TLive) by (intro Q; rewrite Q in Lv; discriminate).
      pstart; unfold pbad, pfine; psimp; byph.
      * exact P1.
      * split; [exact A|]. cbn zeta. right. unfold idle_once in *.
        assert (Z' : t_deferred (s_g s) = g0 \/ exists v, t_deferred (s_g s) = GIdle 1 (Some v))
          by (destruct (ppres sh GDeferred); [eauto|left; apply X]).
        exact (conj Nb (conj Cp (conj Lc (conj Io Z')))).
      * intros _. exact Nl.
      * intros _ Nt. destruct (P7 (or_introl eq_refl) Nt) as [B|(F1 & F2 & F3 & F4 & F5 & F6)]; [now left|].
        destruct (ppres sh GDeferred) eqn:Pp; [destruct v|].
        -- right. refine (conj F1 (conj F2 (conj F3 (conj F4 (conj _ F6))))). intros _. unfold closed_ok. exact X.
        -- left. left. exists GDeferred. repeat split; [simpl; auto|exact Pp|]. cbn [tget]. now rewrite X.
        -- right. refine (conj F1 (conj F2 (conj F3 (conj F4 (conj _ F6))))). intros _. unfold closed_ok. apply X.
      * intros _ T. congruence.
      * intro Ne. exfalso. apply Ne. now left.
  - discriminate.
  - discriminate.
Qed.

(* every state reached from init satisfies the invariant *)
Theorem pinv_step sh s e s' : pinv sh s -> step sh s e = Some s' -> pinv sh s'.
Proof. apply (step_inv (pinv sh) sh); [apply pinv_eps|apply pinv_handle]. Qed.

Theorem pinv_reach sh tr s : run sh init tr = Some s -> pinv sh s.
Proof. intro H. eapply (run_inv (pinv sh) sh); [apply pinv_step|apply pinv_init|exact H]. Qed.
