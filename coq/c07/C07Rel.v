(* C07Rel - one check group of the automaton (gst, ChecksRun.v) against the monitor's view of its runs
   (track, MonC07.v): the relation [grel] and its preservation by every group operation (Groups.g_apply),
   by silent closures and by writes to other objects.  Proofs only. *)
From Coq Require Import Lia.
From Coercion.Base Require Import Plan.
From Coercion.Engine Require Import Shape Event Action ChecksRun AutoLemmas.
From Coercion.C07 Require Import MonC07 Groups.

Definition abs (a : ast) : astat :=
  match a with
  | AIdle => Unmarked
  | ADone true _ => EndOk
  | ADone false _ => EndFail
  | _ => Going
  end.

(* the durable status of an action against its state: in progress <-> durably Running *)
Definition aimg (a : ast) (st : status) : Prop :=
  match a with AIdle | ADone _ _ => st <> Running | _ => st = Running end.

Definition act_obj (sc : scope) (g : grp) (i : nat) : obj := OAct (AChk sc g i).

Definition grel (im : dimg) (sc : scope) (g : grp) (n : nat) (x : gst) (t : track) : Prop :=
  length (k_acts t) = n /\
  match x with
  | GRun r acts =>
      k_runs t = S r /\ k_acts t = map abs acts
      /\ (forall i a, nth_error acts i = Some a -> aimg a (ist im (act_obj sc g i)))
  | GIdle r last =>
      k_runs t = r
      /\ (r = 0 -> k_acts t = repeat Unmarked n)
      /\ (1 <= r -> k_over t = true /\ last = Some (negb (k_failed t)))
      /\ (forall i, i < n -> ist im (act_obj sc g i) <> Running)
  end.

(* a silent closure (g_settle) or nothing *)
Inductive settle (dst : status) : gst -> gst -> Prop :=
| st_same g : settle dst g g
| st_close r acts : acts_complete acts = true -> dst = verdict_status (acts_verdict acts) ->
                    settle dst (GRun r acts) (GIdle (S r) (Some (acts_verdict acts))).

(* ---- list facts ---- *)
Lemma nth_error_repeat {A} (x : A) n i : i < n -> nth_error (repeat x n) i = Some x.
Proof. revert i; induction n as [|n IH]; intros [|i] H; simpl; try lia; auto. apply IH. lia. Qed.

Lemma map_abs_fresh n i : map abs (upd (repeat AIdle n) i (ARun 0)) = upd (repeat Unmarked n) i Going.
Proof.
  rewrite map_upd. f_equal. clear. induction n; simpl; congruence.
Qed.

Lemma forallb_map {A B} (f : A -> B) (p : B -> bool) l : forallb p (map f l) = forallb (fun a => p (f a)) l.
Proof. induction l; simpl; congruence. Qed.
Lemma existsb_map {A B} (f : A -> B) (p : B -> bool) l : existsb p (map f l) = existsb (fun a => p (f a)) l.
Proof. induction l; simpl; congruence. Qed.

Lemma complete_over acts : acts_complete acts = true -> forallb is_end (map abs acts) = true.
Proof.
  unfold acts_complete. rewrite forallb_map. induction acts as [|a l IH]; simpl; auto.
  intro H. apply andb_true_iff in H as [Ha Hl]. rewrite (IH Hl).
  destruct a; try discriminate Ha. destruct v; reflexivity.
Qed.

Lemma over_complete acts : forallb is_end (map abs acts) = true -> acts_complete acts = true.
Proof.
  unfold acts_complete. rewrite forallb_map. induction acts as [|a l IH]; simpl; auto.
  intro H. apply andb_true_iff in H as [Ha Hl]. rewrite (IH Hl), andb_true_r.
  destruct a as [|k|k|k o|v m|v m]; try discriminate Ha; try reflexivity; destruct v; discriminate Ha.
Qed.

Lemma verdict_failed acts :
  acts_complete acts = true -> acts_verdict acts = negb (existsb is_fail (map abs acts)).
Proof.
  unfold acts_complete, acts_verdict. rewrite existsb_map. induction acts as [|a l IH]; simpl; auto.
  intro H. apply andb_true_iff in H as [Ha Hl]. rewrite (IH Hl).
  destruct a; try discriminate Ha. destruct v; reflexivity.
Qed.

Lemma over_repeat_unmarked n : 0 < n -> forallb is_end (repeat Unmarked n) = false.
Proof. destruct n; [lia|reflexivity]. Qed.
Lemma failed_repeat_unmarked n : existsb is_fail (repeat Unmarked n) = false.
Proof. induction n; simpl; auto. Qed.

Lemma existsb_upd_false {A} (p : A -> bool) l i x :
  existsb p l = false -> p x = false -> existsb p (upd l i x) = false.
Proof.
  revert i; induction l as [|y l IH]; intros [|i] H Hx; simpl in *; auto.
  - apply orb_false_iff in H as [_ H]. now rewrite Hx.
  - apply orb_false_iff in H as [Hy H]. rewrite Hy. simpl. auto.
Qed.

(* ---- frame and settle ---- *)
Lemma grel_frame im im' sc g n x t :
  grel im sc g n x t -> (forall i, ist im' (act_obj sc g i) = ist im (act_obj sc g i)) -> grel im' sc g n x t.
Proof.
  intros [L H] F. split; [exact L|]. destruct x as [r last|r acts].
  - destruct H as (A & B & C & D). refine (conj A (conj B (conj C _))). intros i Hi. rewrite F. auto.
  - destruct H as (A & B & C). refine (conj A (conj B _)). intros i a Hi. rewrite F. eauto.
Qed.

Lemma aimg_done acts i a :
  acts_complete acts = true -> nth_error acts i = Some a -> forall st, aimg a st -> st <> Running.
Proof.
  intros C Hi st Ha. pose proof (forallb_nth _ _ _ _ C Hi) as D.
  destruct a; try discriminate D. exact Ha.
Qed.

Lemma grel_settle im sc g n dst x x' t :
  settle dst x x' -> grel im sc g n x t -> grel im sc g n x' t.
Proof.
  intros S R. destruct S as [x|r acts C D]; [exact R|].
  destruct R as [L (A & B & I)]. split; [exact L|]. refine (conj A (conj _ (conj _ _))).
  - discriminate.
  - intros _. split.
    + unfold k_over. rewrite B. now apply complete_over.
    + unfold k_failed. rewrite B. now rewrite (verdict_failed _ C).
  - intros i Hi. rewrite <- L, B, map_length in Hi.
    destruct (nth_error acts i) as [a|] eqn:E; [|apply nth_error_None in E; lia].
    eapply aimg_done; eauto.
Qed.

(* ---- one action of an open run changes ---- *)
Lemma grel_upd im im' sc g n r acts i a a' t t' :
  grel im sc g n (GRun r acts) t -> nth_error acts i = Some a ->
  k_runs t' = k_runs t -> k_acts t' = upd (k_acts t) i (abs a') ->
  aimg a' (ist im' (act_obj sc g i)) ->
  (forall j, j <> i -> ist im' (act_obj sc g j) = ist im (act_obj sc g j)) ->
  grel im' sc g n (GRun r (upd acts i a')) t'.
Proof.
  intros [L (A & B & I)] Hi Er Ea Ia Fr. split.
  - now rewrite Ea, upd_length.
  - refine (conj _ (conj _ _)).
    + congruence.
    + now rewrite Ea, B, map_upd.
    + intros j b Hj. destruct (Nat.eq_dec j i) as [->|Ne].
      * rewrite nth_upd_same in Hj by (eapply nth_error_some_lt; eauto). injection Hj as <-. exact Ia.
      * rewrite nth_upd_other in Hj by auto. rewrite Fr by exact Ne. eauto.
Qed.

Lemma grel_upd_same im im' sc g n r acts i a a' t :
  grel im sc g n (GRun r acts) t -> nth_error acts i = Some a -> abs a' = abs a ->
  aimg a' (ist im' (act_obj sc g i)) ->
  (forall j, j <> i -> ist im' (act_obj sc g j) = ist im (act_obj sc g j)) ->
  grel im' sc g n (GRun r (upd acts i a')) t.
Proof.
  intros R Hi Ea Ia Fr. eapply grel_upd; eauto.
  destruct R as [_ (_ & B & _)]. rewrite B, Ea. symmetry. apply upd_same.
  now rewrite nth_error_map, Hi.
Qed.

Lemma grel_nth im sc g n r acts t i a :
  grel im sc g n (GRun r acts) t -> nth_error acts i = Some a -> nth_error (k_acts t) i = Some (abs a).
Proof. intros [_ (_ & B & _)] Hi. now rewrite B, nth_error_map, Hi. Qed.

(* ---- sharper form of Groups.g_mark_spec: the silently closed run was complete and passed ---- *)
Lemma g_mark_spec2 rs may dst g i g' :
  gimg g dst -> g_mark rs may dst g i = Some g' ->
  (exists r acts, g = GRun r acts /\ nth_error acts i = Some AIdle /\ g' = GRun r (upd acts i (ARun 0)))
  \/ (may = true /\ i < length rs /\
      exists r, g' = GRun r (upd (repeat AIdle (length rs)) i (ARun 0)) /\
                ((exists l, g = GIdle r l) \/
                 (exists r0 acts, r = S (S r0) /\ g = GRun (S r0) acts /\ dst = Completed
                                  /\ acts_complete acts = true /\ acts_verdict acts = true))).
Proof.
  intros I H. unfold g_mark in H.
  destruct (g_act g i) as [a|] eqn:Ea.
  - destruct g as [r l|r acts]; simpl in Ea; [discriminate|].
    destruct (a_mark a) as [a'|] eqn:Em.
    + injection H as <-. left. exists r, acts. destruct a; try discriminate Em. injection Em as <-. auto.
    + destruct (g_settle (GRun r acts) dst) as [g1|] eqn:Es; [|discriminate].
      simpl in Es. destruct (g_close_silent _ _ _ I Es) as (r0 & acts0 & E & C & V & -> & D).
      injection E as E1 E2. subst r acts0.
      destruct may; simpl in H; [|discriminate]. destruct (i <? length rs) eqn:Li; [|discriminate].
      injection H as <-. right. apply Nat.ltb_lt in Li. repeat split; auto.
      exists (S (S r0)). split; [reflexivity|]. right. exists r0, acts. auto.
  - destruct g as [r l|r acts]; [|discriminate].
    destruct may; simpl in H; [|discriminate]. destruct (i <? length rs) eqn:Li; [|discriminate].
    injection H as <-. right. apply Nat.ltb_lt in Li. repeat split; auto.
    exists r. split; [reflexivity|]. left. exists l. reflexivity.
Qed.

Definition cell_of (st : status) (n : nat) (ok : bool) : cell := {| c_st := st; c_n := n; c_ok := ok |}.

Lemma ist_iset_same im o c : ist (iset im o c) o = c_st c.
Proof. unfold ist. now rewrite iget_iset_same. Qed.
Lemma ist_iset_other im o o' c : o <> o' -> ist (iset im o c) o' = ist im o'.
Proof. intro H. unfold ist. now rewrite iget_iset_other. Qed.

Lemma act_obj_inj sc g i j : j <> i -> act_obj sc g i <> act_obj sc g j.
Proof. intros H E. injection E as E. auto. Qed.

(* fresh run: what the monitor's k_begin gives *)
Lemma grel_begin im sc g n r i t :
  length (k_acts t) = n -> k_runs t = r -> i < n ->
  (forall j, j < n -> j <> i -> ist im (act_obj sc g j) <> Running) ->
  grel (iset im (act_obj sc g i) (cell_of Running 0 false)) sc g n
       (GRun r (upd (repeat AIdle n) i (ARun 0))) (k_begin t i).
Proof.
  intros L Er Li Hj. split.
  - simpl. now rewrite upd_length, repeat_length.
  - refine (conj _ (conj _ _)).
    + simpl. now rewrite Er.
    + simpl. now rewrite L, map_abs_fresh.
    + intros j a Hn. assert (Lj : j < n).
      { apply nth_error_some_lt in Hn. now rewrite upd_length, repeat_length in Hn. }
      destruct (Nat.eq_dec j i) as [->|Ne].
      * rewrite nth_upd_same in Hn by now rewrite repeat_length. injection Hn as <-.
        simpl. now rewrite ist_iset_same.
      * rewrite nth_upd_other in Hn by auto. rewrite nth_error_repeat in Hn by exact Lj. injection Hn as <-.
        simpl. rewrite ist_iset_other by now apply act_obj_inj. auto.
Qed.

(* ---- the operations ---- *)
Section Ops.
  Variables (im : dimg) (sc : scope) (g : grp) (n : nat).
  Notation ao := (act_obj sc g).

  Lemma fr_other i c j : j <> i -> ist (iset im (ao i) c) (ao j) = ist im (ao j).
  Proof. intro H. apply ist_iset_other. now apply act_obj_inj. Qed.

  Lemma grel_mark rs may dst x i x' t :
    gimg x dst -> grel im sc g n x t -> length rs = n -> g_mark rs may dst x i = Some x' ->
    ist im (ao i) <> Running /\
    ((exists t', k_mark t i = KJoin t' /\ grel (iset im (ao i) (cell_of Running 0 false)) sc g n x' t')
     \/ (exists t', k_mark t i = KBegin t' /\ may = true /\ (g_dead x = false -> k_failed t = false)
                    /\ (g_runs x = 0 -> k_runs t = 0)
                    /\ grel (iset im (ao i) (cell_of Running 0 false)) sc g n x' t')).
  Proof.
    intros I R Ln H.
    destruct (g_mark_spec2 _ _ _ _ _ _ I H) as
      [(r & acts & -> & Hi & ->)|(Mt & Li & r & -> & [[l ->]|(r0 & acts & -> & -> & D & C & V)])].
    - (* joins the open run *)
      pose proof (grel_nth _ _ _ _ _ _ _ _ _ R Hi) as Hn. simpl in Hn.
      pose proof R as [L (A & B & Im)]. split; [exact (Im _ _ Hi)|]. left.
      exists (k_set t i Going). split.
      + unfold k_mark. rewrite Hn, A. reflexivity.
      + eapply grel_upd; eauto.
        * simpl. now rewrite ist_iset_same.
        * intros j Ne. now apply fr_other.
    - (* a run begins, the group was idle *)
      rewrite Ln in *. destruct R as [L (A & B & C & Im)]. split; [now apply Im|]. right.
      exists (k_begin t i). assert (Hk : k_mark t i = KBegin (k_begin t i)).
      { unfold k_mark. destruct r as [|r].
        - rewrite (B eq_refl), nth_error_repeat by exact Li. now rewrite A.
        - destruct (C ltac:(lia)) as [Ov _].
          destruct (nth_error (k_acts t) i) as [a|] eqn:E; [|apply nth_error_None in E; lia].
          pose proof (forallb_nth _ _ _ _ Ov E) as Ea. rewrite Ov. destruct a; try discriminate Ea; reflexivity. }
      refine (conj Hk (conj Mt (conj _ (conj _ _)))).
      + intro Dd. destruct r as [|r].
        * unfold k_failed. rewrite (B eq_refl). apply failed_repeat_unmarked.
        * destruct (C ltac:(lia)) as [_ El]. subst l. simpl in Dd.
          destruct (k_failed t); [discriminate Dd|reflexivity].
      + simpl. intro Z. now rewrite A.
      + apply grel_begin; auto.
    - (* a run begins, the previous one is closed silently *)
      rewrite Ln in *. pose proof R as [L (A & B & Im)]. split.
      { destruct (nth_error acts i) as [a|] eqn:E.
        - eapply aimg_done; eauto.
        - apply nth_error_None in E. rewrite <- L, B, map_length in Li. lia. }
      right. exists (k_begin t i).
      assert (Ov : k_over t = true) by (unfold k_over; rewrite B; now apply complete_over).
      assert (Nf : k_failed t = false).
      { unfold k_failed. rewrite B. pose proof (verdict_failed _ C) as Q. rewrite V in Q.
        destruct (existsb is_fail (map abs acts)); [discriminate Q|reflexivity]. }
      assert (Hk : k_mark t i = KBegin (k_begin t i)).
      { unfold k_mark. destruct (nth_error (k_acts t) i) as [a|] eqn:E; [|apply nth_error_None in E; lia].
        pose proof (forallb_nth _ _ _ _ Ov E) as Ea. rewrite Ov. destruct a; try discriminate Ea; reflexivity. }
      refine (conj Hk (conj Mt (conj (fun _ => Nf) (conj _ _)))).
      + simpl. discriminate.
      + apply grel_begin; auto. intros j Lj Ne.
        destruct (nth_error acts j) as [a|] eqn:E.
        * eapply aimg_done; eauto.
        * apply nth_error_None in E. rewrite <- L, B, map_length in Lj. lia.
  Qed.
End Ops.

Section Ops2.
  Variables (im : dimg) (sc : scope) (g : grp) (n : nat).
  Notation ao := (act_obj sc g).

  Lemma grel_start x i d x' t : g_start x i d = Some x' -> grel im sc g n x t -> grel im sc g n x' t.
  Proof.
    intros H R. destruct (g_start_spec _ _ _ _ H) as (r & acts & a & a' & -> & Hi & -> & Hs).
    pose proof R as [_ (_ & _ & Im)]. specialize (Im _ _ Hi).
    destruct a; simpl in Hs; try discriminate Hs.
    destruct (status_eqb (c_st d) Running && Nat.eqb (c_n d) k); [|discriminate Hs]. injection Hs as <-.
    eapply grel_upd_same; eauto.
  Qed.

  Lemma grel_end x i o x' t : g_end x i o = Some x' -> grel im sc g n x t -> grel im sc g n x' t.
  Proof.
    intros H R. destruct (g_end_spec _ _ _ _ H) as (r & acts & a & a' & -> & Hi & -> & Hs).
    pose proof R as [_ (_ & _ & Im)]. specialize (Im _ _ Hi).
    destruct a; simpl in Hs; try discriminate Hs. injection Hs as <-.
    eapply grel_upd_same; eauto.
  Qed.

  Lemma abs_after_attempt r k o : abs (after_attempt r k o) = Going.
  Proof. unfold after_attempt. destruct o; auto; destruct (S k <=? r); reflexivity. Qed.
  Lemma aimg_after_attempt r k o st : aimg (after_attempt r k o) st <-> st = Running.
  Proof. unfold after_attempt. destruct o; try (simpl; tauto); destruct (S k <=? r); simpl; tauto. Qed.

  Lemma a_attempt_abs r a m ok a' owed :
    a_attempt r a m ok = Some (a', owed) -> abs a' = abs a /\ aimg a' Running.
  Proof.
    destruct a; simpl; try discriminate.
    - destruct (Nat.eqb m (S k) && negb ok); [|discriminate]. intro H. injection H as <- _.
      destruct r as [|r]; [simpl; auto|]. destruct (k <=? r); simpl; auto.
    - destruct (Nat.eqb m (S k) && Bool.eqb ok (outcome_ok o)); [|discriminate]. intro H. injection H as <- _.
      split; [apply abs_after_attempt|now apply aimg_after_attempt].
  Qed.

  Lemma grel_attempt rs x i m ok x' owed t :
    g_attempt rs x i m ok = Some (x', owed) -> grel im sc g n x t ->
    grel (iset im (ao i) (cell_of Running m ok)) sc g n x' t.
  Proof.
    intros H R. destruct (g_attempt_spec _ _ _ _ _ _ _ H) as (r & acts & a & a' & -> & Hi & -> & (r0 & _ & Hs)).
    assert (Ea : abs a' = abs a /\ aimg a' Running) by (eapply a_attempt_abs; eauto).
    destruct Ea as [Ea Ia]. eapply grel_upd_same; eauto.
    - now rewrite ist_iset_same.
    - intros j Ne. now apply fr_other.
  Qed.

  Lemma grel_final x i st m ok x' t :
    g_final x i st m ok = Some x' -> grel im sc g n x t ->
    exists v, st = verdict_status v /\ ist im (ao i) = Running
              /\ grel (iset im (ao i) (cell_of st m ok)) sc g n x' (k_final t i v).
  Proof.
    intros H R. destruct (g_final_spec _ _ _ _ _ _ H) as (r & acts & a & a' & -> & Hi & -> & Hs).
    pose proof R as [_ (_ & _ & Im)]. specialize (Im _ _ Hi).
    destruct a; simpl in Hs; try discriminate Hs.
    destruct (Nat.eqb n0 m && status_eqb st (if v then Completed else Failed) && Bool.eqb ok v) eqn:G; [|discriminate Hs].
    injection Hs as <-. apply andb_true_iff in G as [G _]. apply andb_true_iff in G as [_ G].
    apply status_eqb_eq in G. exists v. split; [exact G|]. split; [exact Im|].
    pose proof (grel_nth _ _ _ _ _ _ _ _ _ R Hi) as Hn. simpl in Hn.
    eapply grel_upd; eauto.
    - unfold k_final. rewrite Hn. reflexivity.
    - unfold k_final. rewrite Hn. simpl. destruct v; reflexivity.
    - simpl. rewrite ist_iset_same. simpl. subst st. destruct v; discriminate.
    - intros j Ne. now apply fr_other.
  Qed.

  Lemma grel_verdict x st x' t : g_verdict x st = Some x' -> grel im sc g n x t -> grel im sc g n x' t.
  Proof.
    intros H R. unfold g_verdict in H. destruct (g_close_spec _ _ _ H) as (r & acts & -> & C & _ & ->).
    destruct R as [L (A & B & Im)]. split; [exact L|]. refine (conj A (conj _ (conj _ _))).
    - discriminate.
    - intros _. split.
      + unfold k_over. rewrite B. now apply complete_over.
      + unfold k_failed. rewrite B. now rewrite (verdict_failed _ C).
    - intros i Hi. rewrite <- L, B, map_length in Hi.
      destruct (nth_error acts i) as [a|] eqn:E; [|apply nth_error_None in E; lia].
      eapply aimg_done; eauto.
  Qed.
End Ops2.

(* the initial state *)
Lemma grel_init im sc g n :
  (forall i, i < n -> ist im (act_obj sc g i) <> Running) -> grel im sc g n g0 (k_init n).
Proof.
  intro H. split; [simpl; apply repeat_length|]. simpl. refine (conj eq_refl (conj (fun _ => eq_refl) (conj _ H))). lia.
Qed.

(* g_settle / once_done are silent closures *)
Lemma g_settle_settle g dst x : g_settle g dst = Some x -> settle dst g x.
Proof.
  destruct g as [r l|r acts]; unfold g_settle.
  - intro H. injection H as <-. constructor.
  - intro H. destruct (g_close_spec _ _ _ H) as (r0 & acts0 & E & C & D & ->). injection E as <- <-.
    now constructor.
Qed.

Lemma once_done_settle p g dst x v :
  once_done p g dst = Some (x, v) ->
  settle dst g x /\ (if p then exists r, x = GIdle (S r) (Some v) else x = g /\ v = true).
Proof.
  unfold once_done. destruct p.
  - destruct (g_settle g dst) as [y|] eqn:E; [|discriminate].
    destruct y as [[|r] [w|]|]; try discriminate. intro H. injection H as <- <-.
    split; [now apply g_settle_settle|eauto].
  - intro H. injection H as <- <-. split; [constructor|auto].
Qed.
