(* [copied from coq/c06 (C06 engineer, commit df26526): shared reachable-state invariants of the automaton] *)
(* Tab - which check groups of a scope can be in which state in which stage.  The plan (PStart .. PEnd) and a
   block (BEnter .. BEnd) go through the same seven stages; [tab] is the reachable-state table both satisfy,
   [tab_op] shows that every operation on one group keeps it (given what "a run may start now" implies). *)
From Coq Require Import Lia.
From Coercion.Base Require Import Plan.
From Coercion.Engine Require Import Shape Event Action ChecksRun AutoLemmas.
From Coercion.C07 Require Import Groups.

Inductive stage := SgInit | SgBypass | SgPre | SgBody | SgPost | SgDeferred | SgEnd.

(* ran once and passed / the scope has no such group *)
Definition closed_ok (pres : bool) (g : gst) : Prop := if pres then g = GIdle 1 (Some true) else g = g0.
(* ran once / absent *)
Definition closed (pres : bool) (g : gst) : Prop := if pres then exists v, g = GIdle 1 (Some v) else g = g0.
(* the bypass group did not pass / absent *)
Definition not_taken (pres : bool) (g : gst) : Prop := if pres then g = GIdle 1 (Some false) else g = g0.
(* not run, or ran once *)
Definition idle_once (g : gst) : Prop := g = g0 \/ exists v, g = GIdle 1 (Some v).
(* the initial run of the continuous group passed *)
Definition cont_ok (g : gst) : Prop := 1 <= g_runs g /\ g <> GIdle 1 (Some false).

(* the continuous group and its thread once the scope is past its pre stage *)
Definition cont_late (pres : bool) (g : gst) (th : thr) : Prop :=
  if pres then 1 <= g_runs g /\ (th = TNone -> exists v, g = GIdle 1 (Some v)) /\ (th = TDrained -> g_is_idle g = true)
  else g = g0 /\ th = TNone.
(* ... while the body runs: the initial run passed, the thread is live *)
Definition cont_live (pres : bool) (g : gst) (th : thr) : Prop :=
  if pres then cont_ok g /\ th = TLive else g = g0 /\ th = TNone.
(* ... after the body on the success path: live or drained *)
Definition cont_after (pres : bool) (g : gst) (th : thr) : Prop :=
  if pres then cont_ok g /\ (th = TLive \/ (th = TDrained /\ g_is_idle g = true)) else g = g0 /\ th = TNone.

Section Tab.
  Variable pres : grp -> bool.

  Definition tab (stg : stage) (t : gtab) (th : thr) : Prop :=
    (forall g, pres g = false -> tget t g = g0) /\
    let gb := t_bypass t in let gp := t_pre t in let gc := t_cont t in
    let go := t_post t in let gd := t_deferred t in
    match stg with
    | SgInit => t = gtab0 /\ th = TNone
    | SgBypass => gonce gb /\ gp = g0 /\ gc = g0 /\ go = g0 /\ gd = g0 /\ th = TNone
    | SgPre => not_taken (pres GBypass) gb /\ gonce gp /\ gonce gc /\ go = g0 /\ gd = g0 /\ th = TNone
    | SgBody => not_taken (pres GBypass) gb /\ closed_ok (pres GPre) gp /\ cont_live (pres GCont) gc th
                /\ go = g0 /\ gd = g0
    | SgPost => not_taken (pres GBypass) gb /\ closed_ok (pres GPre) gp /\ cont_after (pres GCont) gc th
                /\ gonce go /\ gd = g0
    | SgDeferred => not_taken (pres GBypass) gb /\ closed (pres GPre) gp /\ cont_late (pres GCont) gc th
                    /\ idle_once go /\ gonce gd
    | SgEnd => (gb = GIdle 1 (Some true) /\ gp = g0 /\ gc = g0 /\ go = g0 /\ gd = g0 /\ th = TNone)
               \/ (not_taken (pres GBypass) gb /\ closed (pres GPre) gp /\ cont_late (pres GCont) gc th
                   /\ idle_once go /\ idle_once gd)
    end.

  (* what "group g may start a run now" implies (p_may_start / b_may_start) *)
  Definition allowed (stg : stage) (th : thr) (t : gtab) (g : grp) : Prop :=
    let r := g_runs (tget t g) in
    match g with
    | GBypass => stg = SgBypass /\ r = 0
    | GPre => stg = SgPre /\ r = 0
    | GCont => (stg = SgPre /\ r = 0) \/ (th = TLive /\ g_dead (tget t g) = false /\ 1 <= r)
    | GPost => stg = SgPost /\ r = 0
    | GDeferred => stg = SgDeferred /\ r = 0
    end.
End Tab.

Lemma tget_tset_same t g x : tget (tset t g x) g = x.
Proof. destruct g; reflexivity. Qed.
Lemma tget_tset_other t g g' x : g <> g' -> tget (tset t g x) g' = tget t g'.
Proof. destruct g, g'; simpl; congruence. Qed.

(* ---- cont_ok is kept by every operation ---- *)
Lemma g_apply_runs ors may dst d g op g' owed :
  gimg g dst -> g_apply ors may dst d g op = Some (g', owed) -> g_runs g <= g_runs g'.
Proof.
  intros I H. destruct op as [i|i|i o|i n ok|i st n ok|st]; simpl in H.
  - destruct ors as [rs|]; [|discriminate].
    destruct (g_mark rs may dst g i) as [x|] eqn:E; [|discriminate]. injection H as <- _.
    destruct (g_mark_spec _ _ _ _ _ _ I E) as [(r & acts & a & a' & -> & _ & _ & ->)|(_ & _ & r & -> & [[l ->]|(r0 & acts & -> & -> & _)])];
      simpl; lia.
  - destruct (g_start g i d) as [x|] eqn:E; [|discriminate]. injection H as <- _.
    destruct (g_start_spec _ _ _ _ E) as (r & acts & a & a' & -> & _ & -> & _). simpl; lia.
  - destruct (g_end g i o) as [x|] eqn:E; [|discriminate]. injection H as <- _.
    destruct (g_end_spec _ _ _ _ E) as (r & acts & a & a' & -> & _ & -> & _). simpl; lia.
  - destruct ors as [rs|]; [|discriminate].
    destruct (g_attempt_spec _ _ _ _ _ _ _ H) as (r & acts & a & a' & -> & _ & -> & _). simpl; lia.
  - destruct (g_final g i st n ok) as [x|] eqn:E; [|discriminate]. injection H as <- _.
    destruct (g_final_spec _ _ _ _ _ _ E) as (r & acts & a & a' & -> & _ & -> & _). simpl; lia.
  - destruct (g_verdict g st) as [x|] eqn:E; [|discriminate]. injection H as <- _.
    destruct (g_close_spec _ _ _ E) as (runs & acts & -> & _ & _ & ->). simpl; lia.
Qed.

Lemma g_apply_cont_ok ors may dst d g op g' owed :
  gimg g dst -> cont_ok g -> g_apply ors may dst d g op = Some (g', owed) -> cont_ok g'.
Proof.
  intros I [R N] H. split.
  - pose proof (g_apply_runs _ _ _ _ _ _ _ _ I H). lia.
  - destruct op as [i|i|i o|i n ok|i st n ok|st]; simpl in H.
    + destruct ors as [rs|]; [|discriminate].
      destruct (g_mark rs may dst g i) as [x|] eqn:E; [|discriminate]. injection H as <- _.
      destruct (g_mark_spec _ _ _ _ _ _ I E) as [(r & acts & a & a' & -> & _ & _ & ->)|(_ & _ & r & -> & _)]; discriminate.
    + destruct (g_start g i d) as [x|] eqn:E; [|discriminate]. injection H as <- _.
      destruct (g_start_spec _ _ _ _ E) as (r & acts & a & a' & -> & _ & -> & _). discriminate.
    + destruct (g_end g i o) as [x|] eqn:E; [|discriminate]. injection H as <- _.
      destruct (g_end_spec _ _ _ _ E) as (r & acts & a & a' & -> & _ & -> & _). discriminate.
    + destruct ors as [rs|]; [|discriminate].
      destruct (g_attempt_spec _ _ _ _ _ _ _ H) as (r & acts & a & a' & -> & _ & -> & _). discriminate.
    + destruct (g_final g i st n ok) as [x|] eqn:E; [|discriminate]. injection H as <- _.
      destruct (g_final_spec _ _ _ _ _ _ E) as (r & acts & a & a' & -> & _ & -> & _). discriminate.
    + destruct (g_verdict g st) as [x|] eqn:E; [|discriminate]. injection H as <- _.
      destruct (g_close_spec _ _ _ E) as (runs & acts & -> & _ & _ & ->). simpl in R.
      destruct runs; [lia|discriminate].
Qed.

(* ---- once_done / g_settle under the image invariant ---- *)
Lemma once_done_absent g dst x v : once_done false g dst = Some (x, v) -> x = g /\ v = true.
Proof. simpl. intro H. injection H as <- <-. auto. Qed.

Lemma once_done_gonce g dst x v :
  gimg g dst -> gonce g -> once_done true g dst = Some (x, v) -> g = GIdle 1 (Some v) /\ x = g.
Proof.
  intros I O. unfold once_done, g_settle. destruct g as [r l|r acts].
  - destruct r as [|[|r]]; destruct l as [w|]; simpl in O; try contradiction; try discriminate.
    intro H. injection H as <- <-. auto.
  - destruct (g_close (GRun r acts) dst) as [g1|] eqn:E; [|discriminate].
    destruct (g_close_silent _ _ _ I E) as (r0 & acts0 & E0 & _). injection E0 as -> _. destruct O.
Qed.

Lemma g_settle_spec g dst x :
  gimg g dst -> g_settle g dst = Some x ->
  (g_is_idle g = true /\ x = g)
  \/ (exists r acts, g = GRun (S r) acts /\ x = GIdle (S (S r)) (Some true) /\ dst = Completed).
Proof.
  intros I. unfold g_settle. destruct g as [r l|r acts].
  - intro H. injection H as <-. left. auto.
  - intro E. destruct (g_close_silent _ _ _ I E) as (r0 & acts0 & E0 & _ & _ & -> & D).
    injection E0 as -> <-. right. exists r0, acts. auto.
Qed.

(* ---- every operation on one group keeps the table ---- *)
Lemma tab_absent pres stg t th g : tab pres stg t th -> pres g = false -> tget t g = g0.
Proof. intros [A _] P. exact (A g P). Qed.

Lemma g0_only_mark ors may dst d op g' owed :
  g_apply ors may dst d g0 op = Some (g', owed) -> may = true /\ ors <> None.
Proof.
  intro H. destruct (g_apply_idle_mark _ _ _ _ _ _ _ _ _ H) as (M & i & rs & _ & -> & _). split; [exact M|discriminate].
Qed.

Lemma op_needs ors may dst d g op g' owed :
  g_apply ors may dst d g op = Some (g', owed) -> may = true \/ exists r acts, g = GRun r acts.
Proof.
  intro H. destruct may; [now left|right]. destruct g as [r l|r acts]; [|eauto].
  rewrite g_apply_idle in H. discriminate.
Qed.

(* idle-form constraints exclude an open run *)
Lemma not_taken_idle p g : not_taken p g -> g_is_idle g = true.
Proof. unfold not_taken. destruct p; intros ->; reflexivity. Qed.
Lemma closed_ok_idle p g : closed_ok p g -> g_is_idle g = true.
Proof. unfold closed_ok. destruct p; intros ->; reflexivity. Qed.
Lemma closed_idle p g : closed p g -> g_is_idle g = true.
Proof. unfold closed. destruct p; [intros [v ->]|intros ->]; reflexivity. Qed.
Lemma idle_once_idle g : idle_once g -> g_is_idle g = true.
Proof. intros [->|[v ->]]; reflexivity. Qed.
Lemma not_taken_runs p g : not_taken p g -> g_runs g = 0 -> g = g0.
Proof. unfold not_taken. destruct p; intros ->; [discriminate|reflexivity]. Qed.

Lemma tab_op pres stg t th g ors may dst d op x owed :
  tab pres stg t th ->
  (pres g = false -> ors = None) ->
  (may = true -> allowed stg th t g) ->
  gimg (tget t g) dst ->
  g_apply ors may dst d (tget t g) op = Some (x, owed) ->
  tab pres stg (tset t g x) th.
Proof.
  intros [A T] Hp Hm I H.
  pose proof (op_needs _ _ _ _ _ _ _ _ H) as N.
  split.
  { intros g' P. destruct (grp_eqb g g') eqn:E.
    - apply grp_eqb_eq in E. subst g'. exfalso.
      rewrite (A g P) in H. destruct (g0_only_mark _ _ _ _ _ _ _ H) as [_ Q]. now apply Q, Hp.
    - rewrite tget_tset_other; [now apply A|]. intro Q. subst g'. rewrite (proj2 (grp_eqb_eq g g) eq_refl) in E. discriminate. }
  (* a group that is idle in the table and may not start takes no operation *)
  assert (Idle : g_is_idle (tget t g) = true -> (may = true -> False) -> False).
  { intros Hi Hn. destruct N as [M|(r & acts & E)]; [now apply Hn|]. rewrite E in Hi. discriminate. }
  assert (Once : gonce (tget t g) -> (may = true -> g_runs (tget t g) = 0) -> gonce x).
  { intros O M. eapply g_apply_gonce; eauto. }
  destruct stg; cbn zeta in *.
  - (* SgInit *) destruct T as [-> ->]. exfalso. apply Idle; [destruct g; reflexivity|].
    intro M. specialize (Hm M). destruct g; simpl in Hm; try (destruct Hm; discriminate).
    destruct Hm as [[? _]|[? _]]; discriminate.
  - (* SgBypass *) destruct T as (Ob & Ep & Ec & Eo & Ed & Et).
    destruct g; cbn [tset t_bypass t_pre t_cont t_post t_deferred tget] in *.
    + repeat split; auto. apply Once; auto. intro M. now destruct (Hm M).
    + exfalso. apply Idle; [now rewrite Ep|]. intro M. destruct (Hm M). discriminate.
    + exfalso. apply Idle; [now rewrite Ec|]. intro M. destruct (Hm M) as [[? _]|[? _]]; [discriminate|congruence].
    + exfalso. apply Idle; [now rewrite Eo|]. intro M. destruct (Hm M). discriminate.
    + exfalso. apply Idle; [now rewrite Ed|]. intro M. destruct (Hm M). discriminate.
  - (* SgPre *) destruct T as (Nb & Op & Oc & Eo & Ed & Et).
    destruct g; cbn [tset t_bypass t_pre t_cont t_post t_deferred tget] in *.
    + exfalso. apply Idle; [eapply not_taken_idle; eauto|]. intro M. destruct (Hm M). discriminate.
    + repeat split; auto. apply Once; auto. intro M. now destruct (Hm M).
    + repeat split; auto. apply Once; auto. intro M. destruct (Hm M) as [[_ ?]|[? _]]; [auto|congruence].
    + exfalso. apply Idle; [now rewrite Eo|]. intro M. destruct (Hm M). discriminate.
    + exfalso. apply Idle; [now rewrite Ed|]. intro M. destruct (Hm M). discriminate.
  - (* SgBody *) destruct T as (Nb & Cp & Lc & Eo & Ed).
    destruct g; cbn [tset t_bypass t_pre t_cont t_post t_deferred tget] in *.
    + exfalso. apply Idle; [eapply not_taken_idle; eauto|]. intro M. destruct (Hm M). discriminate.
    + exfalso. apply Idle; [eapply closed_ok_idle; eauto|]. intro M. destruct (Hm M). discriminate.
    + repeat split; auto. unfold cont_live in *. destruct (pres GCont) eqn:P.
      * destruct Lc as [Ok ->]. split; auto. eapply g_apply_cont_ok; eauto.
      * exfalso. rewrite (Hp eq_refl) in H. destruct Lc as [E _]. rewrite E in H.
        destruct (g0_only_mark _ _ _ _ _ _ _ H) as [_ Q]. now apply Q.
    + exfalso. apply Idle; [now rewrite Eo|]. intro M. destruct (Hm M). discriminate.
    + exfalso. apply Idle; [now rewrite Ed|]. intro M. destruct (Hm M). discriminate.
  - (* SgPost *) destruct T as (Nb & Cp & Lc & Oo & Ed).
    destruct g; cbn [tset t_bypass t_pre t_cont t_post t_deferred tget] in *.
    + exfalso. apply Idle; [eapply not_taken_idle; eauto|]. intro M. destruct (Hm M). discriminate.
    + exfalso. apply Idle; [eapply closed_ok_idle; eauto|]. intro M. destruct (Hm M). discriminate.
    + repeat split; auto. unfold cont_after in *. destruct (pres GCont) eqn:P.
      * destruct Lc as [Ok [->|[-> Hi]]].
        -- split; [eapply g_apply_cont_ok; eauto|now left].
        -- exfalso. apply Idle; [exact Hi|]. intro M. destruct (Hm M) as [[? _]|[? _]]; discriminate.
      * exfalso. rewrite (Hp eq_refl) in H. destruct Lc as [E _]. rewrite E in H.
        destruct (g0_only_mark _ _ _ _ _ _ _ H) as [_ Q]. now apply Q.
    + repeat split; auto. apply Once; auto. intro M. now destruct (Hm M).
    + exfalso. apply Idle; [now rewrite Ed|]. intro M. destruct (Hm M). discriminate.
  - (* SgDeferred *) destruct T as (Nb & Cp & Lc & Io & Od).
    destruct g; cbn [tset t_bypass t_pre t_cont t_post t_deferred tget] in *.
    + exfalso. apply Idle; [eapply not_taken_idle; eauto|]. intro M. destruct (Hm M). discriminate.
    + exfalso. apply Idle; [eapply closed_idle; eauto|]. intro M. destruct (Hm M). discriminate.
    + repeat split; auto. unfold cont_late in *. destruct (pres GCont) eqn:P.
      * destruct Lc as (R & Hn & Hd). destruct th.
        -- exfalso. destruct (Hn eq_refl) as [v E]. apply Idle; [now rewrite E|].
           intro M. destruct (Hm M) as [[? _]|[? _]]; discriminate.
        -- repeat split; try discriminate. pose proof (g_apply_runs _ _ _ _ _ _ _ _ I H). lia.
        -- exfalso. apply Idle; [now apply Hd|]. intro M. destruct (Hm M) as [[? _]|[? _]]; discriminate.
      * exfalso. rewrite (Hp eq_refl) in H. destruct Lc as [E _]. rewrite E in H.
        destruct (g0_only_mark _ _ _ _ _ _ _ H) as [_ Q]. now apply Q.
    + exfalso. apply Idle; [eapply idle_once_idle; eauto|]. intro M. destruct (Hm M). discriminate.
    + repeat split; auto. apply Once; auto. intro M. now destruct (Hm M).
  - (* SgEnd *) destruct T as [(Eb & Ep & Ec & Eo & Ed & Et)|(Nb & Cp & Lc & Io & Id)].
    + exfalso. apply Idle.
      * destruct g; cbn [tget]; rewrite ?Eb, ?Ep, ?Ec, ?Eo, ?Ed; reflexivity.
      * intro M. specialize (Hm M). destruct g; simpl in Hm; try (destruct Hm; discriminate).
        destruct Hm as [[? _]|[? _]]; [discriminate|congruence].
    + right. destruct g; cbn [tset t_bypass t_pre t_cont t_post t_deferred tget] in *.
      * exfalso. apply Idle; [eapply not_taken_idle; eauto|]. intro M. destruct (Hm M). discriminate.
      * exfalso. apply Idle; [eapply closed_idle; eauto|]. intro M. destruct (Hm M). discriminate.
      * repeat split; auto. unfold cont_late in *. destruct (pres GCont) eqn:P.
        -- destruct Lc as (R & Hn & Hd). destruct th.
           ++ exfalso. destruct (Hn eq_refl) as [v E]. apply Idle; [now rewrite E|].
              intro M. destruct (Hm M) as [[? _]|[? _]]; discriminate.
           ++ repeat split; try discriminate. pose proof (g_apply_runs _ _ _ _ _ _ _ _ I H). lia.
           ++ exfalso. apply Idle; [now apply Hd|]. intro M. destruct (Hm M) as [[? _]|[? _]]; discriminate.
        -- exfalso. rewrite (Hp eq_refl) in H. destruct Lc as [E _]. rewrite E in H.
           destruct (g0_only_mark _ _ _ _ _ _ _ H) as [_ Q]. now apply Q.
      * exfalso. apply Idle; [eapply idle_once_idle; eauto|]. intro M. destruct (Hm M). discriminate.
      * exfalso. apply Idle; [eapply idle_once_idle; eauto|]. intro M. destruct (Hm M). discriminate.
Qed.
