(* C07YInv - three small reachable-state facts about Running writes:
     y_started   once the plan has left PStart its durable status is not NotStarted;
     y_r0        in PStart the durable failure reason is still FRUnknown;
     y_bstarted  once the current block has left BEnter its durable status is not NotStarted.
   Proofs only. *)
From Coq Require Import Lia.
From Coercion.Base Require Import Plan.
From Coercion.Engine Require Import Shape Event Action ChecksRun Seq Block Final PlanSM Auto Accept AutoLemmas.
From Coercion.C07 Require Import MonC07 Groups Steps Tab Inv FinalFacts InvPlan C07Rel C07Eps.

Record yinv (s : st) : Prop := {
  y_started : s_ph s <> PStart -> ist (s_img s) OPlan <> NotStarted;
  y_r0 : s_ph s = PStart -> s_reason s = FRUnknown;
  y_bstarted : s_ph s = PBlocks -> b_ph (s_b s) <> BEnter -> ist (s_img s) (OBlock (s_cb s)) <> NotStarted }.

Lemma yinv_init : yinv init.
Proof. constructor; simpl; try discriminate; auto. Qed.

Lemma block_start_ph sh cb : b_ph (block_start sh cb) = BEnter.
Proof. unfold block_start. destruct (block_of sh cb); reflexivity. Qed.

(* a block that leaves BEnter has been written Running *)
Lemma b_eps_leaves_enter bs im bi pvis b b' :
  b_eps bs im bi pvis b = Some (BStay b') -> b_ph b = BEnter -> ist im (OBlock bi) = Running.
Proof.
  unfold b_eps. intros H Ph. rewrite Ph in H.
  destruct (status_eqb (ist im (OBlock bi)) Running) eqn:E; [|discriminate]. now apply status_eqb_eq.
Qed.

Lemma b_eps_not_back bs im bi pvis b b' :
  b_eps bs im bi pvis b = Some (BStay b') -> b_ph b' <> BEnter.
Proof.
  unfold b_eps. destruct (b_ph b) eqn:Ph.
  - destruct (status_eqb (ist im (OBlock bi)) Running); [|discriminate]. intro H. injection H as <-. discriminate.
  - destruct (g_bypass (bs_groups bs)).
    + destruct (once_done true (t_bypass (b_g b)) (ist im (OChecks (SBlock bi) GBypass))) as [[x v]|]; [|discriminate].
      destruct v; intro H; injection H as <-; discriminate.
    + intro H. injection H as <-. discriminate.
  - destruct (once_done (present (g_pre (bs_groups bs))) (t_pre (b_g b)) (ist im (OChecks (SBlock bi) GPre))) as [[x v1]|]; [|discriminate].
    destruct (once_done (present (g_cont (bs_groups bs))) (t_cont (b_g b)) (ist im (OChecks (SBlock bi) GCont))) as [[y v2]|]; [|discriminate].
    destruct (v1 && v2); intro H; injection H as <-; discriminate.
  - destruct (negb (Nat.eqb (inflight b) 0)); [discriminate|].
    destruct (exceeded bs b); [intro H; injection H as <-; discriminate|].
    destruct (all_started b); [intro H; injection H as <-; discriminate|].
    destruct (pvis || thr_live (b_thr b) && g_dead (t_cont (b_g b))); [|discriminate].
    intro H; injection H as <-; discriminate.
  - destruct (once_done (present (g_post (bs_groups bs))) (t_post (b_g b)) (ist im (OChecks (SBlock bi) GPost))) as [[x v]|]; [|discriminate].
    intro H; injection H as <-; discriminate.
  - destruct (once_done (present (g_deferred (bs_groups bs))) (t_deferred (b_g b)) (ist im (OChecks (SBlock bi) GDeferred))) as [[x v]|]; [|discriminate].
    intro H; injection H as <-; discriminate.
  - destruct (thr_live (b_thr b)).
    + destruct (g_settle (t_cont (b_g b)) (ist im (OChecks (SBlock bi) GCont))) as [x|]; [|discriminate].
      intro H; injection H as <-. cbn. rewrite Ph. discriminate.
    + destruct (status_eqb (ist im (OBlock bi)) (if b_cause b then Failed else Completed)); discriminate.
Qed.

Lemma yinv_eps sh s s1 : yinv s -> eps sh s = Some s1 -> yinv s1.
Proof.
  intros [Y1 Y2 Y3] H. destruct (eps_cases _ _ _ H) as [Ei Er _ _ _ _ [To _] Bm].
  constructor; rewrite ?Ei, ?Er.
  - intros _. destruct (s_ph s) eqn:Ph; try (apply Y1; discriminate).
    unfold eps, p_eps in H. rewrite Ph in H.
    destruct (status_eqb (ist (s_img s) OPlan) Running) eqn:E; [|discriminate]. apply status_eqb_eq in E.
    rewrite E. discriminate.
  - intro Q. now elim To.
  - intros Ph1 Ne. destruct Bm as [Ec Eb Np _|_ _ _ Eb|bs Ph _ Ec Hb Be|bs _ Pd _ _ _ _|bs _ _ _ Eb _ _].
    + exfalso. exact (Np Ph1).
    + rewrite Eb, block_start_ph in Ne. exfalso. exact (Ne eq_refl).
    + rewrite Ec. destruct (b_ph (s_b s)) eqn:Bp; try (apply Y3; [exact Ph|discriminate]).
      rewrite (b_eps_leaves_enter _ _ _ _ _ _ Be Bp). discriminate.
    + rewrite Pd in Ph1. discriminate.
    + rewrite Eb, block_start_ph in Ne. exfalso. exact (Ne eq_refl).
Qed.

Lemma yinv_frame s s' :
  yinv s -> s_ph s' = s_ph s -> s_reason s' = s_reason s -> s_cb s' = s_cb s -> b_ph (s_b s') = b_ph (s_b s) ->
  ist (s_img s') OPlan = ist (s_img s) OPlan ->
  (forall b, ist (s_img s') (OBlock b) = ist (s_img s) (OBlock b)) -> yinv s'.
Proof.
  intros [Y1 Y2 Y3] Ep Er Ec Eb Fp Fb. constructor; rewrite ?Ep, ?Er, ?Ec, ?Eb, ?Fp, ?Fb; auto.
Qed.

Lemma yinv_handle sh s e s' : yinv s -> handle sh s e = Some s' -> yinv s'.
Proof.
  intros Y H. pose proof Y as [Y1 Y2 Y3].
  destruct (handle_cases _ _ _ _ H) as
    [g op x owed Hc Ha _ U Er|b bs g op x owed Hc Cb Ha _ U Er|b bs q sq sq' owed Cb Hq Ht U Er
    |b bs stt r -> Cb Hw U Er|stt r -> Hw U Hr|a l -> Hl E1 E2 E3 E4 E5 E6 _ _ Er|snap -> ->
    |fin -> Ph Tm Ag E1 E2 E3 E4 E5 E6 _ Er].
  - destruct U as [Ui Up Ug Ut Uc Ub Ul Uf]. destruct (chk_op_img _ _ _ _ (s_img s) Hc) as [_ Io].
    apply (yinv_frame s); auto; try congruence; [|intro b]; rewrite Ui; apply Io; try exact I; discriminate.
  - destruct U as [Ui Up Ug Ut Uc Ub Ul Uf]. destruct (chk_op_img _ _ _ _ (s_img s) Hc) as [_ Io].
    apply (yinv_frame s); auto; try congruence; [now rewrite Ub| |intro b0]; rewrite Ui; apply Io; try exact I; discriminate.
  - destruct U as [Ui Up Ug Ut Uc Ub Ul Uf]. destruct (seq_trans_img _ _ _ _ _ _ _ (s_img s) Ht) as [Io _].
    apply (yinv_frame s); auto; try congruence; [now rewrite Ub| |intro b0]; rewrite Ui; apply Io; try exact I; discriminate.
  - destruct U as [Ui Up Ug Ut Uc Ub Ul Uf]. destruct (cur_block_spec _ _ _ _ Cb) as (Ph & Eb & Hb).
    constructor; rewrite ?Up, ?Uc, ?Ub, ?Er, ?Ui; cbn [ev_img].
    + intro N. rewrite ist_iset_other by discriminate. auto.
    + exact Y2.
    + intros _ _. rewrite <- Eb, ist_iset_same. cbn.
      unfold b_write in Hw. destruct stt; try discriminate Hw; discriminate.
  - destruct U as [Ui Up Ug Ut Uc Ub Ul Uf].
    constructor; rewrite ?Up, ?Uc, ?Ub, ?Hr, ?Ui; cbn [ev_img].
    + intros _. rewrite ist_iset_same. cbn. unfold p_write in Hw. destruct (s_ph s).
      * destruct (status_eqb stt Running && reason_eqb r FRUnknown) eqn:G; [|discriminate].
        apply andb_true_iff in G as [G _]. apply status_eqb_eq in G. subst. discriminate.
      * discriminate. * discriminate. * discriminate. * discriminate. * discriminate.
      * destruct (is_terminal stt) eqn:T; [|discriminate Hw]. destruct stt; discriminate.
      * discriminate.
    + intro Ph. unfold p_write in Hw. rewrite Ph in Hw.
      destruct (status_eqb stt Running && reason_eqb r FRUnknown) eqn:G; [|discriminate].
      apply andb_true_iff in G as [_ G]. now apply reason_eqb_eq in G.
    + intros Ph Ne. rewrite ist_iset_other by discriminate. auto.
  - apply (yinv_frame s); auto; congruence.
  - exact Y.
  - constructor; rewrite ?E1, ?E2, ?Er.
    + intros _. apply Y1. rewrite Ph. discriminate.
    + discriminate.
    + discriminate.
Qed.

Theorem yinv_reach sh tr s : run sh init tr = Some s -> yinv s.
Proof.
  intro H. eapply (run_inv yinv sh); [|apply yinv_init|exact H].
  apply (step_inv yinv sh); [intros; eapply yinv_eps; eauto|intros; eapply yinv_handle; eauto].
Qed.
