(* Examples - non-vacuity of the C07 theorems: a real trace of the engine (harness/cmd/engine, profile cont, index 71,
   VERIF_SEED 1, -deferred 0.7: two blocks, the plan's continuous group fails at its 2nd run, detected by the drain
   before the post-checks, which are skipped; the plan's deferred group runs once and fails too; block 1 has bypass,
   continuous and deferred groups) is accepted by the automaton and satisfies the monitor; mutated traces do not. *)
From Coercion.Base Require Import Plan.
From Coercion.Engine Require Import Shape Event ChecksRun Accept.
From Coercion.C07 Require Import MonC07.

Definition ex1 : case :=
((Build_shape (Build_groups None (Some [0]) (Some [1; 1]) (Some [0; 1]) (Some [0])) [(Build_bshape (Build_groups None None (Some [0]) None None) [[1]] 2 (2)%Z); (Build_bshape (Build_groups (Some [0]) None (Some [1]) None (Some [1])) [[1; 1]; [1]] 3 (-1)%Z)]), [(EvWrite OPlan Running 0 false FRUnknown);
   (EvWrite OPlan Running 0 false FRUnknown);
   (EvWrite (OChecks SPlan GCont) NotStarted 0 false FRUnknown);
   (EvWrite (OAct (AChk SPlan GCont 0)) Running 0 false FRUnknown);
   (EvWrite (OAct (AChk SPlan GCont 1)) Running 0 false FRUnknown);
   (EvStart (AChk SPlan GCont 1));
   (EvEnd (AChk SPlan GCont 1) OOk);
   (EvStart (AChk SPlan GCont 0));
   (EvEnd (AChk SPlan GCont 0) OOk);
   (EvWrite (OAct (AChk SPlan GCont 1)) Running 1 true FRUnknown);
   (EvWrite (OAct (AChk SPlan GCont 1)) Completed 1 true FRUnknown);
   (EvWrite (OAct (AChk SPlan GCont 1)) Completed 1 true FRUnknown);
   (EvWrite (OChecks SPlan GPre) NotStarted 0 false FRUnknown);
   (EvWrite (OAct (AChk SPlan GPre 0)) Running 0 false FRUnknown);
   (EvStart (AChk SPlan GPre 0));
   (EvEnd (AChk SPlan GPre 0) OOk);
   (EvWrite (OAct (AChk SPlan GPre 0)) Running 1 true FRUnknown);
   (EvWrite (OAct (AChk SPlan GPre 0)) Completed 1 true FRUnknown);
   (EvWrite (OAct (AChk SPlan GPre 0)) Completed 1 true FRUnknown);
   (EvWrite (OChecks SPlan GPre) Completed 0 false FRUnknown);
   (EvWrite (OAct (AChk SPlan GCont 0)) Running 1 true FRUnknown);
   (EvWrite (OAct (AChk SPlan GCont 0)) Completed 1 true FRUnknown);
   (EvWrite (OAct (AChk SPlan GCont 0)) Completed 1 true FRUnknown);
   (EvWrite (OChecks SPlan GCont) Completed 0 false FRUnknown);
   (EvWrite OPlan Running 0 false FRUnknown);
   (EvWrite (OBlock 0) Running 0 false FRUnknown);
   (EvWrite (OBlock 0) Running 0 false FRUnknown);
   (EvWrite (OChecks (SBlock 0) GCont) NotStarted 0 false FRUnknown);
   (EvWrite (OAct (AChk (SBlock 0) GCont 0)) Running 0 false FRUnknown);
   (EvStart (AChk (SBlock 0) GCont 0));
   (EvEnd (AChk (SBlock 0) GCont 0) OOk);
   (EvWrite (OAct (AChk (SBlock 0) GCont 0)) Running 1 true FRUnknown);
   (EvWrite (OAct (AChk (SBlock 0) GCont 0)) Completed 1 true FRUnknown);
   (EvWrite (OAct (AChk (SBlock 0) GCont 0)) Completed 1 true FRUnknown);
   (EvWrite (OChecks (SBlock 0) GCont) Completed 0 false FRUnknown);
   (EvWrite (OBlock 0) Running 0 false FRUnknown);
   (EvWrite (OBlock 0) Running 0 false FRUnknown);
   (EvWrite (OSeq 0 0) Running 0 false FRUnknown);
   (EvWrite (OAct (ASeq 0 0 0)) Running 0 false FRUnknown);
   (EvStart (ASeq 0 0 0));
   (EvWrite (OChecks (SBlock 0) GCont) Completed 0 false FRUnknown);
   (EvWrite (OAct (AChk (SBlock 0) GCont 0)) Running 0 false FRUnknown);
   (EvStart (AChk (SBlock 0) GCont 0));
   (EvEnd (AChk (SBlock 0) GCont 0) OOk);
   (EvWrite (OAct (AChk (SBlock 0) GCont 0)) Running 1 true FRUnknown);
   (EvWrite (OAct (AChk (SBlock 0) GCont 0)) Completed 1 true FRUnknown);
   (EvWrite (OAct (AChk (SBlock 0) GCont 0)) Completed 1 true FRUnknown);
   (EvWrite (OChecks SPlan GCont) Completed 0 false FRUnknown);
   (EvWrite (OAct (AChk SPlan GCont 0)) Running 0 false FRUnknown);
   (EvWrite (OAct (AChk SPlan GCont 1)) Running 0 false FRUnknown);
   (EvStart (AChk SPlan GCont 1));
   (EvEnd (AChk SPlan GCont 1) OOk);
   (EvStart (AChk SPlan GCont 0));
   (EvEnd (AChk SPlan GCont 0) OPerm);
   (EvWrite (OChecks (SBlock 0) GCont) Completed 0 false FRUnknown);
   (EvWrite (OAct (AChk SPlan GCont 1)) Running 1 true FRUnknown);
   (EvWrite (OAct (AChk SPlan GCont 1)) Completed 1 true FRUnknown);
   (EvWrite (OAct (AChk SPlan GCont 1)) Completed 1 true FRUnknown);
   (EvEnd (ASeq 0 0 0) OOk);
   (EvWrite (OAct (AChk SPlan GCont 0)) Running 1 false FRUnknown);
   (EvWrite (OAct (AChk SPlan GCont 0)) Failed 1 false FRUnknown);
   (EvWrite (OAct (AChk SPlan GCont 0)) Failed 1 false FRUnknown);
   (EvWrite (OChecks SPlan GCont) Failed 0 false FRUnknown);
   (EvWrite (OAct (ASeq 0 0 0)) Running 1 true FRUnknown);
   (EvWrite (OAct (ASeq 0 0 0)) Completed 1 true FRUnknown);
   (EvWrite (OAct (ASeq 0 0 0)) Completed 1 true FRUnknown);
   (EvWrite (OSeq 0 0) Completed 0 false FRUnknown);
   (EvWrite (OBlock 0) Running 0 false FRUnknown);
   (EvWrite (OBlock 0) Running 0 false FRUnknown);
   (EvWrite (OBlock 0) Completed 0 false FRUnknown);
   (EvWrite (OBlock 1) Running 0 false FRUnknown);
   (EvWrite (OChecks (SBlock 1) GBypass) NotStarted 0 false FRUnknown);
   (EvWrite (OAct (AChk (SBlock 1) GBypass 0)) Running 0 false FRUnknown);
   (EvStart (AChk (SBlock 1) GBypass 0));
   (EvEnd (AChk (SBlock 1) GBypass 0) OOk);
   (EvWrite (OAct (AChk (SBlock 1) GBypass 0)) Running 1 true FRUnknown);
   (EvWrite (OAct (AChk (SBlock 1) GBypass 0)) Completed 1 true FRUnknown);
   (EvWrite (OAct (AChk (SBlock 1) GBypass 0)) Completed 1 true FRUnknown);
   (EvWrite (OChecks (SBlock 1) GBypass) Completed 0 false FRUnknown);
   (EvWrite (OBlock 1) Running 0 false FRUnknown);
   (EvWrite (OBlock 1) Completed 0 false FRUnknown);
   (EvWrite OPlan Running 0 false FRUnknown);
   (EvWrite (OChecks SPlan GDeferred) NotStarted 0 false FRUnknown);
   (EvWrite (OAct (AChk SPlan GDeferred 0)) Running 0 false FRUnknown);
   (EvStart (AChk SPlan GDeferred 0));
   (EvEnd (AChk SPlan GDeferred 0) OPerm);
   (EvWrite (OAct (AChk SPlan GDeferred 0)) Running 1 false FRUnknown);
   (EvWrite (OAct (AChk SPlan GDeferred 0)) Failed 1 false FRUnknown);
   (EvWrite (OAct (AChk SPlan GDeferred 0)) Failed 1 false FRUnknown);
   (EvWrite (OChecks SPlan GDeferred) Failed 0 false FRUnknown);
   (EvWrite OPlan Running 0 false FRUnknown);
   (EvWrite OPlan Failed 0 false FRContCheck);
   (EvWrite (OChecks SPlan GPre) Completed 0 false FRUnknown);
   (EvWrite (OAct (AChk SPlan GPre 0)) Completed 1 true FRUnknown);
   (EvWrite (OChecks SPlan GCont) Failed 0 false FRUnknown);
   (EvWrite (OAct (AChk SPlan GCont 0)) Failed 1 false FRUnknown);
   (EvWrite (OAct (AChk SPlan GCont 1)) Completed 1 true FRUnknown);
   (EvWrite (OBlock 0) Completed 0 false FRUnknown);
   (EvWrite (OChecks (SBlock 0) GCont) Completed 0 false FRUnknown);
   (EvWrite (OAct (AChk (SBlock 0) GCont 0)) Completed 1 true FRUnknown);
   (EvWrite (OSeq 0 0) Completed 0 false FRUnknown);
   (EvWrite (OAct (ASeq 0 0 0)) Completed 1 true FRUnknown);
   (EvWrite (OBlock 1) Completed 0 false FRUnknown);
   (EvWrite (OChecks (SBlock 1) GBypass) Completed 0 false FRUnknown);
   (EvWrite (OAct (AChk (SBlock 1) GBypass 0)) Completed 1 true FRUnknown);
   (EvWrite (OChecks (SBlock 1) GCont) NotStarted 0 false FRUnknown);
   (EvWrite (OAct (AChk (SBlock 1) GCont 0)) NotStarted 0 false FRUnknown);
   (EvWrite (OSeq 1 0) NotStarted 0 false FRUnknown);
   (EvWrite (OAct (ASeq 1 0 0)) NotStarted 0 false FRUnknown);
   (EvWrite (OAct (ASeq 1 0 1)) NotStarted 0 false FRUnknown);
   (EvWrite (OSeq 1 1) NotStarted 0 false FRUnknown);
   (EvWrite (OAct (ASeq 1 1 0)) NotStarted 0 false FRUnknown);
   (EvWrite (OChecks (SBlock 1) GDeferred) NotStarted 0 false FRUnknown);
   (EvWrite (OAct (AChk (SBlock 1) GDeferred 0)) NotStarted 0 false FRUnknown);
   (EvWrite (OChecks SPlan GPost) NotStarted 0 false FRUnknown);
   (EvWrite (OAct (AChk SPlan GPost 0)) NotStarted 0 false FRUnknown);
   (EvWrite (OAct (AChk SPlan GPost 1)) NotStarted 0 false FRUnknown);
   (EvWrite (OChecks SPlan GDeferred) Failed 0 false FRUnknown);
   (EvWrite (OAct (AChk SPlan GDeferred 0)) Failed 1 false FRUnknown);
   (EvRelease (IM [(OPlan, (OC Failed 0 false (TF false false true))); ((OChecks SPlan GPre), (OC Completed 0 false (TF false false true))); ((OAct (AChk SPlan GPre 0)), (OC Completed 1 true (TF false false true))); ((OChecks SPlan GCont), (OC Failed 0 false (TF false false true))); ((OAct (AChk SPlan GCont 0)), (OC Failed 1 false (TF false false true))); ((OAct (AChk SPlan GCont 1)), (OC Completed 1 true (TF false false true))); ((OChecks SPlan GPost), (OC NotStarted 0 false (TF true true true))); ((OAct (AChk SPlan GPost 0)), (OC NotStarted 0 false (TF true true true))); ((OAct (AChk SPlan GPost 1)), (OC NotStarted 0 false (TF true true true))); ((OChecks SPlan GDeferred), (OC Failed 0 false (TF false false true))); ((OAct (AChk SPlan GDeferred 0)), (OC Failed 1 false (TF false false true))); ((OBlock 0), (OC Completed 0 false (TF false false true))); ((OChecks (SBlock 0) GCont), (OC Completed 0 false (TF false false true))); ((OAct (AChk (SBlock 0) GCont 0)), (OC Completed 1 true (TF false false true))); ((OSeq 0 0), (OC Completed 0 false (TF false false true))); ((OAct (ASeq 0 0 0)), (OC Completed 1 true (TF false false true))); ((OBlock 1), (OC Completed 0 false (TF false false true))); ((OChecks (SBlock 1) GBypass), (OC Completed 0 false (TF false false true))); ((OAct (AChk (SBlock 1) GBypass 0)), (OC Completed 1 true (TF false false true))); ((OChecks (SBlock 1) GCont), (OC NotStarted 0 false (TF true true true))); ((OAct (AChk (SBlock 1) GCont 0)), (OC NotStarted 0 false (TF true true true))); ((OChecks (SBlock 1) GDeferred), (OC NotStarted 0 false (TF true true true))); ((OAct (AChk (SBlock 1) GDeferred 0)), (OC NotStarted 0 false (TF true true true))); ((OSeq 1 0), (OC NotStarted 0 false (TF true true true))); ((OAct (ASeq 1 0 0)), (OC NotStarted 0 false (TF true true true))); ((OAct (ASeq 1 0 1)), (OC NotStarted 0 false (TF true true true))); ((OSeq 1 1), (OC NotStarted 0 false (TF true true true))); ((OAct (ASeq 1 1 0)), (OC NotStarted 0 false (TF true true true)))] FRContCheck));
   (EvRead (IM [(OPlan, (OC Failed 0 false (TF false false true))); ((OChecks SPlan GPre), (OC Completed 0 false (TF false false true))); ((OAct (AChk SPlan GPre 0)), (OC Completed 1 true (TF false false true))); ((OChecks SPlan GCont), (OC Failed 0 false (TF false false true))); ((OAct (AChk SPlan GCont 0)), (OC Failed 1 false (TF false false true))); ((OAct (AChk SPlan GCont 1)), (OC Completed 1 true (TF false false true))); ((OChecks SPlan GPost), (OC NotStarted 0 false (TF true true true))); ((OAct (AChk SPlan GPost 0)), (OC NotStarted 0 false (TF true true true))); ((OAct (AChk SPlan GPost 1)), (OC NotStarted 0 false (TF true true true))); ((OChecks SPlan GDeferred), (OC Failed 0 false (TF false false true))); ((OAct (AChk SPlan GDeferred 0)), (OC Failed 1 false (TF false false true))); ((OBlock 0), (OC Completed 0 false (TF false false true))); ((OChecks (SBlock 0) GCont), (OC Completed 0 false (TF false false true))); ((OAct (AChk (SBlock 0) GCont 0)), (OC Completed 1 true (TF false false true))); ((OSeq 0 0), (OC Completed 0 false (TF false false true))); ((OAct (ASeq 0 0 0)), (OC Completed 1 true (TF false false true))); ((OBlock 1), (OC Completed 0 false (TF false false true))); ((OChecks (SBlock 1) GBypass), (OC Completed 0 false (TF false false true))); ((OAct (AChk (SBlock 1) GBypass 0)), (OC Completed 1 true (TF false false true))); ((OChecks (SBlock 1) GCont), (OC NotStarted 0 false (TF true true true))); ((OAct (AChk (SBlock 1) GCont 0)), (OC NotStarted 0 false (TF true true true))); ((OChecks (SBlock 1) GDeferred), (OC NotStarted 0 false (TF true true true))); ((OAct (AChk (SBlock 1) GDeferred 0)), (OC NotStarted 0 false (TF true true true))); ((OSeq 1 0), (OC NotStarted 0 false (TF true true true))); ((OAct (ASeq 1 0 0)), (OC NotStarted 0 false (TF true true true))); ((OAct (ASeq 1 0 1)), (OC NotStarted 0 false (TF true true true))); ((OSeq 1 1), (OC NotStarted 0 false (TF true true true))); ((OAct (ASeq 1 1 0)), (OC NotStarted 0 false (TF true true true)))] FRContCheck))]).

Example ex1_wf : shape_wf (fst ex1) = true.
Proof. vm_compute. reflexivity. Qed.
(* the hypotheses of c07_cont_deferred are satisfiable on it: the automaton accepts the whole trace *)
Example ex1_accepted : check_case ex1 = [0].
Proof. vm_compute. reflexivity. Qed.
(* the monitor holds: 2 runs of the plan's continuous group, at most 3 of a block's, 3 deferred runs in all
   (plan, block 0 has none, block 1), one scope with a failed continuous run *)
Example ex1_monitor : mon_cont_deferred ex1 = true.
Proof. vm_compute. reflexivity. Qed.
Example ex1_diag : exists a b c d, mon_cont_deferred_diag ex1 = [0; a; b; c; d] /\ 2 <= a /\ 1 <= c /\ d = 1.
Proof. vm_compute. do 4 eexists. split; [reflexivity|]. repeat split; repeat constructor. Qed.

(* ---- mutations of the real trace ---- *)
Definition about (g : grp) (e : event) : bool :=
  match e with
  | EvStart (AChk _ g' _) | EvEnd (AChk _ g' _) _ | EvWrite (OAct (AChk _ g' _)) _ _ _ _ => grp_eqb g g'
  | _ => false
  end.
(* the deferred runs erased: clause 7 (an entered scope with a deferred group and no deferred run) *)
Definition no_deferred (c : case) : case := (fst c, filter (fun e => negb (about GDeferred e)) (snd c)).
Example ex1_without_deferred_runs : exists i sc, mon_cont_deferred_diag (no_deferred ex1) = [7; i; sc].
Proof. vm_compute. eauto. Qed.

(* every deferred event doubled: clause 4 (a second deferred run) or 1 (overlap) *)
Definition twice (c : case) : case :=
  (fst c, flat_map (fun e => match e with
                             | EvWrite (OAct (AChk SPlan GDeferred i)) Completed n ok r
                             | EvWrite (OAct (AChk SPlan GDeferred i)) Failed n ok r =>
                                 [e; EvWrite (OAct (AChk SPlan GDeferred i)) Running 0 false r]
                             | _ => [e] end) (snd c)).
Example ex1_second_deferred_run : exists i sc, mon_cont_deferred_diag (twice ex1) = [4; i; sc].
Proof. vm_compute. eauto. Qed.

(* the released plan shows the plan Completed although a continuous run failed: clause 10 (failure lost) *)
Definition relabel (im : image) : image :=
  IM (map (fun oc => match oc with
                     | (OPlan, OC _ n ok tf) => (OPlan, OC Completed n ok tf)
                     | x => x end) (im_cells im)) (im_reason im).
Definition lost (c : case) : case :=
  (fst c, map (fun e => match e with EvRelease fin => EvRelease (relabel fin) | x => x end) (snd c)).
Example ex1_failure_lost : exists i sc, mon_cont_deferred_diag (lost ex1) = [10; i; sc].
Proof. vm_compute. eauto. Qed.

(* ---- a hand-written bad trace: a continuous group is run again after a failed run (clause 2) ---- *)
Definition sh_small : shape :=
  Build_shape (Build_groups None None (Some [0]) None (Some [0])) [Build_bshape no_groups [[0]] 1 (-1)%Z].
Definition c0 : obj := OAct (AChk SPlan GCont 0).
Definition bad_rerun : list event :=
  [EvWrite OPlan Running 0 false FRUnknown;
   EvWrite c0 Running 0 false FRUnknown; EvStart (AChk SPlan GCont 0); EvEnd (AChk SPlan GCont 0) OPerm;
   EvWrite c0 Running 1 false FRUnknown; EvWrite c0 Failed 1 false FRUnknown;
   EvWrite (OChecks SPlan GCont) Failed 0 false FRUnknown;
   EvWrite c0 Running 0 false FRUnknown].
Example rerun_after_failure_rejected : mon_cont_deferred_diag (sh_small, bad_rerun) = [2; 7; 0].
Proof. vm_compute. reflexivity. Qed.
(* ... and the automaton does not accept it either (the theorem is not vacuous the other way round) *)
Example rerun_after_failure_not_accepted : exists i k p q, check_case (sh_small, bad_rerun) = [1; i; k; p; q].
Proof. vm_compute. eauto 6. Qed.
