(* MonC07 - the monitor of property C07, "Cont-check failures are never lost; deferred checks always run
   once entered".  Model file: NO proofs.  Written over the observed trace only (durable writes, plugin
   Start/End, the plan Wait returned); it never mentions the automaton of coq/engine and uses the shape only
   for what the plan declares (which groups a scope has and how many actions they have).

   ONE SCOPE AT A TIME.  A scope is the plan (SPlan) or a block (SBlock b); [mon_cont_deferred] runs the
   same small fold once per scope and requires all of them to hold.

   RUNS.  A check group is run by resetting every action (the write "Running, 0 attempts"), invoking the
   plugins, and writing each action's terminal status.  Per group the fold keeps a [track]: how many runs
   have begun and, for the current run, per action: Unmarked | Going | EndOk | EndFail.  A run is over when
   every action has ended; it FAILED when some action ended Failed.  A write that repeats the last write of
   the same object says nothing new and is dropped first (the engine re-writes objects freely).

   What the fold remembers about its scope: the last write of every object (only to drop repeats), whether
   the scope's own Running write was seen, whether Wait has returned, the failure reason of the engine's last
   plan write, and the tracks of its bypass, continuous and deferred groups.
     entered m = the scope started and was not bypassed: it has no bypass group, or its bypass run is over
                 and failed.

   THE CLAUSES (numbers = violation codes of mon_cont_deferred_diag)
    while the plan runs:
     1  runs of one group do not overlap: an action is reset again only when the whole run is over;
     2  after a FAILED continuous run NO further run of that group begins            (a failure ends it);
     3  a deferred run begins only in a scope that was entered (never in a bypassed or never-started one);
     4  a second deferred run never begins                                            (at most once);
     5  once the deferred run of the scope has begun NOTHING ELSE of the scope runs any more: no plugin of
        its sequences (for the plan: of anything inside its blocks), of its bypass, pre or post group is
        entered or returns.  Excepted (DESIGN section 11): the scope's own background continuous runs, and
        the late return of a plugin whose attempt the engine had already timed out (outcome OOverrun);
     8  after Wait returned no run of these groups begins or goes on;
    when Wait returns the plan fin (st = status of the scope's object in fin):
     6  no run of the scope's bypass / continuous / deferred group is still in progress (a continuous run
        that ends after Wait can only lose its verdict);
     7  the scope has a deferred group: entered => EXACTLY ONE deferred run has begun (and by 6 is over,
        by 5 after everything else); not entered => none;
     10 a continuous run of the scope failed => st = Failed, and fin shows the continuous group Failed;
     11 the deferred run failed             => st = Failed, and fin shows the deferred group Failed;
     12 (plan) in both cases the failure reason the engine wrote with the plan's terminal status is the FIRST stage that fin shows Failed in the
        order pre, continuous, block, post, deferred: so FRContCheck unless the pre-checks failed, and
        FRDeferredCheck unless an earlier stage failed;
     13 (plan) conversely reason FRContCheck => a continuous run failed; FRDeferredCheck => the deferred
        run failed (no failure is invented: E1 of DESIGN section 7 stored ContCheck for a plan whose
        continuous checks never ran);
     14 (block) in both cases the plan is Failed too, with reason FRBlock - or FRContCheck when fin shows
        the plan's own continuous group Failed (it comes first in the order above);
     15 (plan) the reason of the plan Wait returned is the reason the engine wrote (S4 of DESIGN section 7:
        the stores did not read the reason back).
   "Keeps being re-run" is a liveness statement; its safety half is clause 2 together with the theorem
   c07_thread_alive_plan / _block of props/C07.v (while a scope executes, its continuous thread is live and
   its group may begin a run unless one failed); that re-runs DO happen on the implementation is measured by the driver (lib/props/c07.py: runs
   per continuous group, reported by mon_cont_deferred_diag).  Left to other checks: the order of the other
   stages (C01), gating by the initial continuous run (C06), tolerance (C03), fin = durable image (C04/C08). *)
From Coercion.Base Require Import Plan.
From Coercion.Engine Require Import Shape Event ChecksRun Accept.

(* ---- one check group: its runs as the writes show them ---- *)
Inductive astat := Unmarked | Going | EndOk | EndFail.
Record track := { k_runs : nat; k_acts : list astat }.

Definition k_init (n : nat) : track := {| k_runs := 0; k_acts := repeat Unmarked n |}.
Definition is_end (a : astat) : bool := match a with EndOk | EndFail => true | _ => false end.
Definition is_fail (a : astat) : bool := match a with EndFail => true | _ => false end.
Definition k_over (t : track) : bool := forallb is_end (k_acts t).          (* every action has ended *)
Definition k_open (t : track) : bool := (1 <=? k_runs t) && negb (k_over t). (* a run is in progress *)
Definition k_done (t : track) : bool := (1 <=? k_runs t) && k_over t.        (* a run was made and is over *)
Definition k_failed (t : track) : bool := existsb is_fail (k_acts t).        (* the current run failed *)

Definition k_begin (t : track) (i : nat) : track :=
  {| k_runs := S (k_runs t); k_acts := upd (repeat Unmarked (length (k_acts t))) i Going |}.
Definition k_set (t : track) (i : nat) (a : astat) : track :=
  {| k_runs := k_runs t; k_acts := upd (k_acts t) i a |}.

Inductive kres := KSame | KJoin (t : track) | KBegin (t : track) | KBad.

(* the write (Running, 0 attempts) of action i *)
Definition k_mark (t : track) (i : nat) : kres :=
  match nth_error (k_acts t) i with
  | None => KBad
  | Some Going => KSame
  | Some Unmarked => if Nat.eqb (k_runs t) 0 then KBegin (k_begin t i) else KJoin (k_set t i Going)
  | Some _ => if k_over t then KBegin (k_begin t i) else KBad
  end.

(* the terminal write of action i *)
Definition k_final (t : track) (i : nat) (ok : bool) : track :=
  match nth_error (k_acts t) i with
  | Some Going => k_set t i (if ok then EndOk else EndFail)
  | _ => t
  end.

(* ---- the monitor state of one scope ---- *)
Record mst := {
  m_img : dimg;          (* the last write of every object: only used to drop repeated writes *)
  m_started : bool;      (* the scope's own Running write was seen *)
  m_rel : bool;          (* Wait has returned *)
  m_reason : reason;     (* the failure reason of the engine's last plan write *)
  m_byp : track; m_cont : track; m_def : track }.

Definition group_size (sh : shape) (sc : scope) (g : grp) : nat :=
  match group_of sh sc g with Some rs => length rs | None => 0 end.
Definition has (sh : shape) (sc : scope) (g : grp) : bool :=
  match group_of sh sc g with Some _ => true | None => false end.

Definition m_init (sh : shape) (sc : scope) : mst :=
  {| m_img := []; m_started := false; m_rel := false; m_reason := FRUnknown;
     m_byp := k_init (group_size sh sc GBypass);
     m_cont := k_init (group_size sh sc GCont);
     m_def := k_init (group_size sh sc GDeferred) |}.

Definition scope_obj (sc : scope) : obj := match sc with SPlan => OPlan | SBlock b => OBlock b end.

Definition entered (sh : shape) (sc : scope) (m : mst) : bool :=
  m_started m && (negb (has sh sc GBypass) || (k_done (m_byp m) && k_failed (m_byp m))).

Definition with_img (m : mst) (im : dimg) : mst :=
  {| m_img := im; m_started := m_started m; m_rel := m_rel m; m_reason := m_reason m;
     m_byp := m_byp m; m_cont := m_cont m; m_def := m_def m |}.
Definition with_started (m : mst) : mst :=
  {| m_img := m_img m; m_started := true; m_rel := m_rel m; m_reason := m_reason m;
     m_byp := m_byp m; m_cont := m_cont m; m_def := m_def m |}.
Definition with_reason (m : mst) (r : reason) : mst :=
  {| m_img := m_img m; m_started := m_started m; m_rel := m_rel m; m_reason := r;
     m_byp := m_byp m; m_cont := m_cont m; m_def := m_def m |}.
Definition with_rel (m : mst) : mst :=
  {| m_img := m_img m; m_started := m_started m; m_rel := true; m_reason := m_reason m;
     m_byp := m_byp m; m_cont := m_cont m; m_def := m_def m |}.

(* the three tracked groups *)
Definition tracked (g : grp) : bool := match g with GBypass | GCont | GDeferred => true | _ => false end.
Definition m_track (m : mst) (g : grp) : track :=
  match g with GBypass => m_byp m | GCont => m_cont m | _ => m_def m end.
Definition m_set (m : mst) (g : grp) (t : track) : mst :=
  match g with
  | GBypass => {| m_img := m_img m; m_started := m_started m; m_rel := m_rel m; m_reason := m_reason m;
                  m_byp := t; m_cont := m_cont m; m_def := m_def m |}
  | GCont => {| m_img := m_img m; m_started := m_started m; m_rel := m_rel m; m_reason := m_reason m;
                m_byp := m_byp m; m_cont := t; m_def := m_def m |}
  | _ => {| m_img := m_img m; m_started := m_started m; m_rel := m_rel m; m_reason := m_reason m;
            m_byp := m_byp m; m_cont := m_cont m; m_def := t |}
  end.

(* may a run of tracked group g begin now?  0 = yes, else the violated clause *)
Definition begin_code (sh : shape) (sc : scope) (m : mst) (g : grp) : nat :=
  match g with
  | GCont => if k_failed (m_cont m) then 2 else 0
  | GDeferred => if negb (entered sh sc m) then 3 else if 1 <=? k_runs (m_def m) then 4 else 0
  | _ => 0
  end.

(* a (non-repeated) write of check action (g, i) of the scope, g tracked *)
Definition chk_write (sh : shape) (sc : scope) (m : mst) (g : grp) (i : nat) (st : status) (n : nat) : mst + nat :=
  match st, n with
  | Running, 0 =>
      match k_mark (m_track m g) i with
      | KSame => inl m
      | KJoin t => if m_rel m then inr 8 else inl (m_set m g t)
      | KBegin t => if m_rel m then inr 8 else
                    match begin_code sh sc m g with 0 => inl (m_set m g t) | c => inr c end
      | KBad => inr 1
      end
  | Completed, _ => inl (m_set m g (k_final (m_track m g) i true))
  | Failed, _ => inl (m_set m g (k_final (m_track m g) i false))
  | _, _ => inl m
  end.

(* "something else of the scope": not its own continuous or deferred group *)
Definition other_of (sc : scope) (a : aref) : bool :=
  match sc, a with
  | SPlan, AChk SPlan g _ => negb (match g with GCont | GDeferred => true | _ => false end)
  | SPlan, _ => true
  | SBlock b, AChk (SBlock b') g _ => Nat.eqb b b' && negb (match g with GCont | GDeferred => true | _ => false end)
  | SBlock b, ASeq b' _ _ => Nat.eqb b b'
  | SBlock _, AChk SPlan _ _ => false
  end.

Definition is_overrun (o : outcome) : bool := match o with OOverrun => true | _ => false end.

(* ---- what the released plan must show ---- *)
Definition fin_st (fin : image) (o : obj) : status :=
  match im_lookup fin o with Some c => oc_st c | None => NotStarted end.

Section Release.
  Variable sh : shape.
  Variable fin : image.

  Definition failed_in_fin (o : obj) : bool := status_eqb (fin_st fin o) Failed.
  Definition grp_failed (sc : scope) (g : grp) : bool := has sh sc g && failed_in_fin (OChecks sc g).
  Definition some_block_failed : bool :=
    existsb (fun b => failed_in_fin (OBlock b)) (seq 0 (length (sh_blocks sh))).

  (* the first stage fin shows Failed, in the order pre, continuous, block, post, deferred *)
  Definition stage_reason : reason :=
    if grp_failed SPlan GPre then FRPreCheck
    else if grp_failed SPlan GCont then FRContCheck
    else if some_block_failed then FRBlock
    else if grp_failed SPlan GPost then FRPostCheck
    else if grp_failed SPlan GDeferred then FRDeferredCheck
    else FRUnknown.

  (* clauses 6, 7, 10-14; 0 = all hold *)
  Definition release_code (sc : scope) (m : mst) : nat :=
    let st := fin_st fin (scope_obj sc) in
    let cf := k_failed (m_cont m) in
    let df := k_failed (m_def m) in
    let r := m_reason m in       (* what the engine decided: the reason of its last plan write *)
    if k_open (m_byp m) || k_open (m_cont m) || k_open (m_def m) then 6
    else if has sh sc GDeferred
            && negb (Nat.eqb (k_runs (m_def m)) (if entered sh sc m then 1 else 0)) then 7
    else if cf && negb (status_eqb st Failed && grp_failed sc GCont) then 10
    else if df && negb (status_eqb st Failed && grp_failed sc GDeferred) then 11
    else match sc with
         | SPlan =>
             if (cf || df) && negb (reason_eqb r stage_reason) then 12
             else if (reason_eqb r FRContCheck && negb cf) || (reason_eqb r FRDeferredCheck && negb df) then 13
             else if negb (reason_eqb r (im_reason fin)) then 15
             else 0
         | SBlock _ =>
             if (cf || df)
                && negb (failed_in_fin OPlan
                         && (reason_eqb r FRBlock || (reason_eqb r FRContCheck && grp_failed SPlan GCont)))
             then 14 else 0
         end.
End Release.

(* ---- one step of the monitor of scope sc: inl = goes on, inr code = clause [code] is violated ---- *)
Definition mstep_d (sh : shape) (sc : scope) (m : mst) (e : event) : mst + nat :=
  match e with
  | EvWrite o st n ok r =>
      let c := {| c_st := st; c_n := n; c_ok := ok |} in
      if cell_eqb (iget (m_img m) o) c then inl m                    (* a repeated write says nothing *)
      else
        let m1 := with_img m (iset (m_img m) o c) in
        match o with
        | OAct (AChk sc' g i) =>
            if scope_eqb sc sc' && tracked g then chk_write sh sc m1 g i st n else inl m1
        | OPlan =>
            let m2 := with_reason m1 r in
            match sc with SPlan => if status_eqb st Running then inl (with_started m2) else inl m2 | _ => inl m2 end
        | _ =>
            if obj_eqb o (scope_obj sc) && status_eqb st Running then inl (with_started m1) else inl m1
        end
  | EvStart a =>
      if other_of sc a && (1 <=? k_runs (m_def m)) then inr 5 else inl m
  | EvEnd a o =>
      if other_of sc a && negb (is_overrun o) && (1 <=? k_runs (m_def m)) then inr 5 else inl m
  | EvRelease fin =>
      if m_rel m then inr 8 else
      match release_code sh fin sc m with 0 => inl (with_rel m) | c => inr c end
  | EvRead _ => inl m
  end.

Definition mstep (sh : shape) (sc : scope) (m : mst) (e : event) : option mst :=
  match mstep_d sh sc m e with inl m' => Some m' | inr _ => None end.

Fixpoint mfold (sh : shape) (sc : scope) (m : mst) (tr : list event) : option mst :=
  match tr with
  | [] => Some m
  | e :: tr' => match mstep sh sc m e with Some m' => mfold sh sc m' tr' | None => None end
  end.

(* inl final state | inr (code, index of the event) *)
Fixpoint mfold_d (sh : shape) (sc : scope) (m : mst) (tr : list event) (i : nat) : mst + (nat * nat) :=
  match tr with
  | [] => inl m
  | e :: tr' => match mstep_d sh sc m e with
                | inl m' => mfold_d sh sc m' tr' (S i)
                | inr c => inr (c, i)
                end
  end.

Definition scopes (sh : shape) : list scope := SPlan :: map SBlock (seq 0 (length (sh_blocks sh))).

Definition mon_scope (sh : shape) (sc : scope) (tr : list event) : bool :=
  match mfold sh sc (m_init sh sc) tr with Some _ => true | None => false end.

(* THE MONITOR *)
Definition mon_cont_deferred (c : case) : bool :=
  forallb (fun sc => mon_scope (fst c) sc (snd c)) (scopes (fst c)).

(* diagnosis: [code; event index; scope] (scope 0 = the plan, b+1 = block b) for the first scope that fails;
   [0; runs of the plan's continuous group; most runs of a block's continuous group; deferred runs in all scopes;
    scopes in which a continuous run failed] when it holds *)
Definition scope_code (sc : scope) : nat := match sc with SPlan => 0 | SBlock b => S b end.
Fixpoint diag_scopes (sh : shape) (tr : list event) (scs : list scope) (acc : list nat) : list nat :=
  match scs, acc with
  | [], _ => 0 :: acc
  | sc :: scs', [pc; bc; d; f] =>
      match mfold_d sh sc (m_init sh sc) tr 0 with
      | inr (c, i) => [c; i; scope_code sc]
      | inl m =>
          let cr := k_runs (m_cont m) in
          diag_scopes sh tr scs'
            [match sc with SPlan => cr | _ => pc end;
             match sc with SPlan => bc | _ => Nat.max bc cr end;
             d + k_runs (m_def m);
             f + (if k_failed (m_cont m) then 1 else 0)]
      end
  | _, _ => [99]
  end.
Definition mon_cont_deferred_diag (c : case) : list nat :=
  diag_scopes (fst c) (snd c) (scopes (fst c)) [0; 0; 0; 0].

(* ================= the STRICT reading of "after everything else in that scope" (known finding K2) =================
   mon_cont_deferred exempts, in clause 5 (other_of), the scope's OWN continuous group from "nothing else of the scope
   runs once its deferred run has begun" (DESIGN section 11: the engine stops a block's continuous thread in BlockEnd,
   after BlockPostChecks and BlockDeferredChecks).  The strict monitor removes the exemption for the BEGINNING of runs:
     20  a run of the scope's continuous group begins after the scope's deferred run has begun;
     21  a run of the scope's continuous group begins after the scope's post run has begun.
   At plan level the engine drains the thread before PlanPostChecks / PlanDeferredChecks; at block level it does not:
   the strict monitor is false on accepted traces (c07_deferred_last_refuted_block). *)
Definition post_mark (sc : scope) (e : event) : bool :=
  match e with
  | EvWrite (OAct (AChk sc' GPost _)) Running 0 _ _ => scope_eqb sc sc'
  | _ => false
  end.

(* e begins a run of the scope's own continuous group (a reset write that is not a repeat and opens a run) *)
Definition cont_begins (sc : scope) (m : mst) (e : event) : bool :=
  match e with
  | EvWrite (OAct (AChk sc' GCont i)) Running 0 ok _ =>
      scope_eqb sc sc'
      && negb (cell_eqb (iget (m_img m) (OAct (AChk sc' GCont i))) {| c_st := Running; c_n := 0; c_ok := ok |})
      && match k_mark (m_cont m) i with KBegin _ => true | _ => false end
  | _ => false
  end.

Definition sstep_d (sh : shape) (sc : scope) (x : mst * bool) (e : event) : (mst * bool) + nat :=
  let (m, pb) := x in
  if cont_begins sc m e && (1 <=? k_runs (m_def m)) then inr 20
  else if cont_begins sc m e && pb then inr 21
  else match mstep_d sh sc m e with
       | inl m' => inl (m', pb || post_mark sc e)
       | inr c => inr c
       end.

(* inl final state | inr (code, event index, runs of the continuous group begun so far) *)
Fixpoint sfold_d (sh : shape) (sc : scope) (x : mst * bool) (tr : list event) (i : nat) : (mst * bool) + (nat * nat * nat) :=
  match tr with
  | [] => inl x
  | e :: tr' => match sstep_d sh sc x e with
                | inl x' => sfold_d sh sc x' tr' (S i)
                | inr c => inr (c, i, k_runs (m_cont (fst x)))
                end
  end.

Definition strict_scope (sh : shape) (sc : scope) (tr : list event) : bool :=
  match sfold_d sh sc (m_init sh sc, false) tr 0 with inl _ => true | inr _ => false end.

(* THE STRICT MONITOR *)
Definition mon_cont_deferred_strict (c : case) : bool :=
  forallb (fun sc => strict_scope (fst c) sc (snd c)) (scopes (fst c)).

(* [] = holds; [code; event index; scope; run number] for the first scope (plan first) on which it fails *)
Fixpoint strict_diag (sh : shape) (tr : list event) (scs : list scope) : list nat :=
  match scs with
  | [] => []
  | sc :: scs' => match sfold_d sh sc (m_init sh sc, false) tr 0 with
                  | inl _ => strict_diag sh tr scs'
                  | inr (c, i, k) => [c; i; scope_code sc; S k]
                  end
  end.
(* mon_cont_deferred_diag followed by the strict diagnosis (the head stays that of mon_cont_deferred_diag) *)
Definition mon_cont_deferred_diag2 (c : case) : list nat :=
  match mon_cont_deferred_diag c with
  | 0 :: rest => 0 :: rest ++ strict_diag (fst c) (snd c) (scopes (fst c))
  | r => r
  end.
