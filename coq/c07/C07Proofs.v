(* C07Proofs - the property theorems of C07, assembled from C07Plan / C07Block.  Proofs only. *)
From Coq Require Import Lia.
From Coercion.Base Require Import Plan.
From Coercion.Engine Require Import Shape Event Action ChecksRun Seq Block Final PlanSM Auto Accept AutoLemmas.
From Coercion.C07 Require Import MonC07 Groups Steps Tab Inv FinalFacts InvPlan C07Rel C07Eps C07XInv C07YInv C07Link C07Fin C07Plan C07Block.

Lemma scope_holds sh tr s sc :
  run sh init tr = Some s -> In sc (scopes sh) -> exists m, mfold sh sc (m_init sh sc) tr = Some m.
Proof.
  intros H Hi. destruct Hi as [<-|Hi].
  - destruct (plan_scope_holds _ _ _ H) as (m & Hm & _). eauto.
  - apply in_map_iff in Hi as (b & <- & Hb). apply in_seq in Hb.
    destruct (nth_error (sh_blocks sh) b) as [bs|] eqn:E; [|apply nth_error_None in E; lia].
    destruct (block_scope_holds sh b bs _ _ E H) as (m & Hm & _). eauto.
Qed.

(* THE THEOREM: every trace the observable automaton accepts from its initial state satisfies the monitor,
   for every shape, every trace, every interleaving *)
Theorem c07_cont_deferred_l : forall sh tr s,
  shape_wf sh = true -> run sh init tr = Some s -> mon_cont_deferred (sh, tr) = true.
Proof.
  intros sh tr s _ H. unfold mon_cont_deferred. cbn [fst snd]. apply forallb_forall. intros sc Hi.
  unfold mon_scope. destruct (scope_holds _ _ _ _ H Hi) as (m & ->). reflexivity.
Qed.

(* ---- the "exactly once" half, at traces that end with the return of Wait ---- *)
Lemma mfold_app sh sc m tr1 tr2 :
  mfold sh sc m (tr1 ++ tr2) = match mfold sh sc m tr1 with Some m1 => mfold sh sc m1 tr2 | None => None end.
Proof. revert m; induction tr1 as [|e tr IH]; intro m; simpl; auto. destruct (mstep sh sc m e); auto. Qed.

Theorem c07_deferred_exactly_once_l : forall sh tr fin s sc,
  shape_wf sh = true -> run sh init (tr ++ [EvRelease fin]) = Some s -> In sc (scopes sh) ->
  exists m, mfold sh sc (m_init sh sc) tr = Some m
            /\ k_open (m_byp m) = false /\ k_open (m_cont m) = false /\ k_open (m_def m) = false
            /\ (has sh sc GDeferred = true -> k_runs (m_def m) = if entered sh sc m then 1 else 0)
            /\ (k_failed (m_cont m) = true -> fin_st fin (scope_obj sc) = Failed)
            /\ (k_failed (m_def m) = true -> fin_st fin (scope_obj sc) = Failed).
Proof.
  intros sh tr fin s sc _ H Hi. destruct (scope_holds _ _ _ _ H Hi) as (m' & Hm). rewrite mfold_app in Hm.
  destruct (mfold sh sc (m_init sh sc) tr) as [m|] eqn:E; [|discriminate]. exists m. split; [reflexivity|].
  simpl in Hm. unfold mstep in Hm. cbn [mstep_d] in Hm. destruct (m_rel m); [discriminate|].
  destruct (release_code sh fin sc m) eqn:Rc; [|discriminate]. clear Hm. unfold release_code in Rc.
  destruct (k_open (m_byp m)); [discriminate|]. destruct (k_open (m_cont m)); [discriminate|].
  destruct (k_open (m_def m)); [discriminate|]. cbn [orb] in Rc. repeat split; auto.
  - intro Hd. rewrite Hd in Rc. cbn [andb] in Rc.
    destruct (Nat.eqb (k_runs (m_def m)) (if entered sh sc m then 1 else 0)) eqn:Q; [now apply Nat.eqb_eq|discriminate].
  - intro Cf. rewrite Cf in Rc.
    destruct (has sh sc GDeferred && negb (Nat.eqb (k_runs (m_def m)) (if entered sh sc m then 1 else 0))); [discriminate|].
    cbn [andb] in Rc. destruct (status_eqb (fin_st fin (scope_obj sc)) Failed) eqn:Q; [now apply status_eqb_eq|discriminate].
  - intro Df. rewrite Df in Rc.
    destruct (has sh sc GDeferred && negb (Nat.eqb (k_runs (m_def m)) (if entered sh sc m then 1 else 0))); [discriminate|].
    destruct (k_failed (m_cont m) && negb (status_eqb (fin_st fin (scope_obj sc)) Failed && grp_failed sh fin sc GCont)); [discriminate|].
    cbn [andb] in Rc. destruct (status_eqb (fin_st fin (scope_obj sc)) Failed) eqn:Q; [now apply status_eqb_eq|discriminate].
Qed.

(* ---- "keeps being re-run", safety half: while a scope executes, its continuous group may begin a new run
   at any moment unless a run failed (the thread is live and not dead) ---- *)
Theorem c07_thread_alive_plan_l : forall sh tr s,
  run sh init tr = Some s -> s_ph s = PBlocks -> ppres sh GCont = true ->
  s_thr s = TLive
  /\ (g_dead (t_cont (s_g s)) = false -> p_may_start s GCont = true).
Proof.
  intros sh tr s H Ph Pc. destruct (inv_reach _ _ _ H) as [[P _] _].
  destruct (pi_tab _ _ P) as [_ T]. rewrite Ph in T. cbn [pstage] in T. cbn zeta in T.
  destruct T as (_ & _ & Lc & _). unfold cont_live in Lc. rewrite Pc in Lc. destruct Lc as [[R1 _] Th].
  split; [exact Th|]. intro D. unfold p_may_start. rewrite Th, D. cbn [thr_live negb andb tget].
  apply orb_true_iff. right. now apply Nat.leb_le.
Qed.

Theorem c07_thread_alive_block_l : forall sh tr s bs,
  run sh init tr = Some s -> s_ph s = PBlocks -> block_of sh (s_cb s) = Some bs -> b_ph (s_b s) = BSeqs ->
  bpres bs GCont = true ->
  b_thr (s_b s) = TLive
  /\ (g_dead (t_cont (b_g (s_b s))) = false -> b_may_start (s_b s) GCont = true).
Proof.
  intros sh tr s bs H Ph Hb Bp Pc. destruct (inv_reach _ _ _ H) as [[P _] _].
  pose proof (pi_block _ _ P Ph) as Bn. rewrite Hb in Bn.
  destruct (bi_tab _ _ _ _ _ Bn) as [_ T]. rewrite Bp in T. cbn [bstage] in T. cbn zeta in T.
  destruct T as (_ & _ & Lc & _). unfold cont_live in Lc. rewrite Pc in Lc. destruct Lc as [[R1 _] Th].
  split; [exact Th|]. intro D. unfold b_may_start. cbn [tget]. rewrite Th, D. cbn [thr_live negb andb].
  apply orb_true_iff. right. now apply Nat.leb_le.
Qed.

(* ---- K2, plan level: the automaton lets the plan's post / deferred group begin a run only when the plan's continuous
   thread is no longer live, lets a continuous re-run begin only while it is live, and in PPost a live thread means
   that the post group has not begun (the trace-level strict clause at plan level is not proved here) ---- *)
Theorem c07_plan_deferred_guard_l : forall sh tr s,
  run sh init tr = Some s ->
  (p_may_start s GPost = true \/ p_may_start s GDeferred = true -> thr_live (s_thr s) = false)
  /\ (p_may_start s GCont = true -> s_ph s = PPre \/ thr_live (s_thr s) = true)
  /\ (s_ph s = PPost -> s_thr s = TLive -> t_post (s_g s) = g0).
Proof.
  intros sh tr s H. destruct (inv_reach _ _ _ H) as [[P _] _]. split; [|split].
  - unfold p_may_start. intros [Q|Q]; apply andb_true_iff in Q as [Q _]; apply andb_true_iff in Q as [_ Q];
      now apply negb_true_iff in Q.
  - unfold p_may_start. intro Q. apply orb_true_iff in Q as [Q|Q].
    + left. apply andb_true_iff in Q as [Q _]. destruct (s_ph s); try discriminate Q. reflexivity.
    + right. apply andb_true_iff in Q as [Q _]. now apply andb_true_iff in Q as [Q _].
  - apply (pi_post _ _ P).
Qed.
