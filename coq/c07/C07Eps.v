(* C07Eps - what one epsilon-move (phase change) of the automaton does to the parts of the state the C07
   relation looks at: the image, reason, late list and released image are untouched, check groups are at
   most closed silently, and the current block stays / ends / is replaced by the next one.  Proofs only. *)
From Coq Require Import Lia.
From Coercion.Base Require Import Plan.
From Coercion.Engine Require Import Shape Event Action ChecksRun Seq Block Final PlanSM Auto Accept AutoLemmas.
From Coercion.C07 Require Import MonC07 Groups Steps Tab Inv C07Rel.

Definition tsettle (im : dimg) (sc : scope) (t t' : gtab) : Prop :=
  forall g, settle (ist im (OChecks sc g)) (tget t g) (tget t' g).

Lemma tsettle_refl im sc t : tsettle im sc t t.
Proof. intro g. constructor. Qed.

Ltac tset_cases := let g := fresh "g" in intro g; destruct g; simpl; try constructor; auto.

(* the block goes on: its groups are at most closed silently, its sequences are untouched *)
Lemma b_eps_stay bs im bi pvis b b' :
  b_eps bs im bi pvis b = Some (BStay b') ->
  tsettle im (SBlock bi) (b_g b) (b_g b') /\ b_seqs b' = b_seqs b.
Proof.
  unfold b_eps. destruct (b_ph b).
  - destruct (status_eqb (ist im (OBlock bi)) Running); [|discriminate]. intro H. injection H as <-.
    split; [apply tsettle_refl|reflexivity].
  - destruct (g_bypass (bs_groups bs)).
    + destruct (once_done true (t_bypass (b_g b)) (ist im (OChecks (SBlock bi) GBypass))) as [[x v]|] eqn:Od; [|discriminate].
      destruct (once_done_settle _ _ _ _ _ Od) as [S _].
      destruct v; intro H; injection H as <-; (split; [tset_cases|reflexivity]).
    + intro H. injection H as <-. split; [apply tsettle_refl|reflexivity].
  - destruct (once_done (present (g_pre (bs_groups bs))) (t_pre (b_g b)) (ist im (OChecks (SBlock bi) GPre))) as [[x v1]|] eqn:O1; [|discriminate].
    destruct (once_done (present (g_cont (bs_groups bs))) (t_cont (b_g b)) (ist im (OChecks (SBlock bi) GCont))) as [[y v2]|] eqn:O2; [|discriminate].
    destruct (once_done_settle _ _ _ _ _ O1) as [S1 _]. destruct (once_done_settle _ _ _ _ _ O2) as [S2 _].
    destruct (v1 && v2); intro H; injection H as <-; (split; [tset_cases|reflexivity]).
  - destruct (negb (Nat.eqb (inflight b) 0)); [discriminate|].
    destruct (exceeded bs b); [intro H; injection H as <-; split; [apply tsettle_refl|reflexivity]|].
    destruct (all_started b); [intro H; injection H as <-; split; [apply tsettle_refl|reflexivity]|].
    destruct (pvis || thr_live (b_thr b) && g_dead (t_cont (b_g b))); [|discriminate].
    intro H; injection H as <-; split; [apply tsettle_refl|reflexivity].
  - destruct (once_done (present (g_post (bs_groups bs))) (t_post (b_g b)) (ist im (OChecks (SBlock bi) GPost))) as [[x v]|] eqn:Od; [|discriminate].
    destruct (once_done_settle _ _ _ _ _ Od) as [S _].
    intro H; injection H as <-; (split; [tset_cases|reflexivity]).
  - destruct (once_done (present (g_deferred (bs_groups bs))) (t_deferred (b_g b)) (ist im (OChecks (SBlock bi) GDeferred))) as [[x v]|] eqn:Od; [|discriminate].
    destruct (once_done_settle _ _ _ _ _ Od) as [S _].
    intro H; injection H as <-; (split; [tset_cases|reflexivity]).
  - destruct (thr_live (b_thr b)).
    + destruct (g_settle (t_cont (b_g b)) (ist im (OChecks (SBlock bi) GCont))) as [x|] eqn:Gs; [|discriminate].
      pose proof (g_settle_settle _ _ _ Gs) as S.
      intro H; injection H as <-; (split; [tset_cases|reflexivity]).
    + destruct (status_eqb (ist im (OBlock bi)) (if b_cause b then Failed else Completed)); discriminate.
Qed.

(* what happens to the current block *)
Definition block_start (sh : shape) (cb : nat) : bst :=
  match block_of sh cb with Some bs => b_init bs | None => b_none end.

Inductive block_move (sh : shape) (s s1 : st) : Prop :=
| BM_same : s_cb s1 = s_cb s -> s_b s1 = s_b s -> s_ph s1 <> PBlocks ->
            (s_ph s = PBlocks -> block_of sh (s_cb s) = None /\ s_ph s1 = PPost) -> block_move sh s s1
| BM_first : s_ph s = PPre -> s_ph s1 = PBlocks -> s_cb s1 = 0 -> s_b s1 = block_start sh 0 -> block_move sh s s1
| BM_stay bs : s_ph s = PBlocks -> s_ph s1 = PBlocks -> s_cb s1 = s_cb s -> block_of sh (s_cb s) = Some bs ->
               b_eps bs (s_img s) (s_cb s) (p_visible s) (s_b s) = Some (BStay (s_b s1)) -> block_move sh s s1
| BM_fail bs : s_ph s = PBlocks -> s_ph s1 = PDeferred -> s_cb s1 = s_cb s -> s_b s1 = s_b s ->
               block_of sh (s_cb s) = Some bs ->
               b_eps bs (s_img s) (s_cb s) (p_visible s) (s_b s) = Some (BFinished true) -> block_move sh s s1
| BM_next bs : s_ph s = PBlocks -> s_ph s1 = PBlocks -> s_cb s1 = S (s_cb s) -> s_b s1 = block_start sh (S (s_cb s)) ->
               block_of sh (s_cb s) = Some bs ->
               b_eps bs (s_img s) (s_cb s) (p_visible s) (s_b s) = Some (BFinished false) -> block_move sh s s1.

Record eps_spec (sh : shape) (s s1 : st) : Prop := {
  es_img : s_img s1 = s_img s;
  es_reason : s_reason s1 = s_reason s;
  es_late : s_late s1 = s_late s;
  es_fin : s_fin s1 = s_fin s;
  es_g : tsettle (s_img s) SPlan (s_g s) (s_g s1);
  es_from : s_ph s <> PEnd /\ s_ph s <> PReleased;
  es_to : s_ph s1 <> PStart /\ s_ph s1 <> PReleased;
  es_block : block_move sh s s1 }.

Lemma enter_block_all sh s cb :
  s_img (enter_block sh s cb) = s_img s /\ s_reason (enter_block sh s cb) = s_reason s
  /\ s_late (enter_block sh s cb) = s_late s /\ s_fin (enter_block sh s cb) = s_fin s
  /\ s_g (enter_block sh s cb) = s_g s /\ s_ph (enter_block sh s cb) = s_ph s
  /\ s_cb (enter_block sh s cb) = cb /\ s_b (enter_block sh s cb) = block_start sh cb.
Proof. unfold enter_block, block_start. destruct (block_of sh cb); cbn; auto 10. Qed.

Ltac es_plan := constructor; simpl; auto using tsettle_refl; try (split; discriminate);
  try (match goal with P : s_ph _ = _ |- _ => rewrite P end; split; discriminate).

Lemma eps_cases sh s s1 : eps sh s = Some s1 -> eps_spec sh s s1.
Proof.
  unfold eps, p_eps. destruct (s_ph s) eqn:Ph.
  - (* PStart *)
    destruct (status_eqb (ist (s_img s) OPlan) Running); [|discriminate]. intro H. injection H as <-.
    es_plan. apply BM_same; simpl; auto; try discriminate. rewrite Ph. discriminate.
  - (* PBypass *)
    destruct (g_bypass (sh_groups sh)).
    + destruct (once_done true (t_bypass (s_g s)) (ist (s_img s) (OChecks SPlan GBypass))) as [[x v]|] eqn:Od; [|discriminate].
      destruct (once_done_settle _ _ _ _ _ Od) as [S _].
      destruct v; intro H; injection H as <-; es_plan; try tset_cases;
        (apply BM_same; simpl; auto; try discriminate; rewrite Ph; discriminate).
    + intro H. injection H as <-. es_plan. apply BM_same; simpl; auto; try discriminate. rewrite Ph. discriminate.
  - (* PPre *)
    destruct (once_done (present (g_pre (sh_groups sh))) (t_pre (s_g s)) (ist (s_img s) (OChecks SPlan GPre))) as [[x v1]|] eqn:O1; [|discriminate].
    destruct (once_done (present (g_cont (sh_groups sh))) (t_cont (s_g s)) (ist (s_img s) (OChecks SPlan GCont))) as [[y v2]|] eqn:O2; [|discriminate].
    destruct (once_done_settle _ _ _ _ _ O1) as [S1 _]. destruct (once_done_settle _ _ _ _ _ O2) as [S2 _].
    destruct (v1 && v2); intro H; injection H as <-.
    + match goal with |- eps_spec _ _ (with_ph (enter_block ?sh ?s0 0) _) =>
        destruct (enter_block_all sh s0 0) as (E1 & E2 & E3 & E4 & E5 & E6 & E7 & E8) end.
      constructor; cbn [s_img s_reason s_late s_fin s_g s_ph s_cb s_b with_ph].
      * rewrite E1. reflexivity.
      * rewrite E2. reflexivity.
      * rewrite E3. reflexivity.
      * rewrite E4. reflexivity.
      * rewrite E5. cbn. tset_cases.
      * rewrite Ph. split; discriminate.
      * split; discriminate.
      * apply BM_first; cbn [s_img s_reason s_late s_fin s_g s_ph s_cb s_b with_ph]; auto.
    + es_plan; try tset_cases. apply BM_same; simpl; auto; try discriminate. rewrite Ph. discriminate.
  - (* PBlocks *)
    destruct (block_of sh (s_cb s)) as [bs|] eqn:Hb.
    + destruct (b_eps bs (s_img s) (s_cb s) (p_visible s) (s_b s)) as [[b'|[|]]|] eqn:Be; [| | |discriminate];
        intro H; injection H as <-.
      * es_plan. eapply BM_stay; eauto.
      * es_plan. eapply BM_fail; eauto.
      * destruct (enter_block_all sh s (S (s_cb s))) as (E1 & E2 & E3 & E4 & E5 & E6 & E7 & E8).
        constructor; rewrite ?E1, ?E2, ?E3, ?E4, ?E5, ?E6; auto using tsettle_refl; try (rewrite Ph; split; discriminate).
        eapply BM_next; eauto. now rewrite E6.
    + intro H. injection H as <-. es_plan. apply BM_same; simpl; auto; discriminate.
  - (* PPost *)
    destruct (thr_live (s_thr s)).
    + destruct (g_settle (t_cont (s_g s)) (ist (s_img s) (OChecks SPlan GCont))) as [x|] eqn:Gs; [|discriminate].
      pose proof (g_settle_settle _ _ _ Gs) as S.
      intro H. injection H as <-. destruct (g_dead x); es_plan; try tset_cases; try (rewrite Ph; split; discriminate);
        (apply BM_same; simpl; rewrite ?Ph; auto; discriminate).
    + destruct (once_done (present (g_post (sh_groups sh))) (t_post (s_g s)) (ist (s_img s) (OChecks SPlan GPost))) as [[x v]|] eqn:Od; [|discriminate].
      destruct (once_done_settle _ _ _ _ _ Od) as [S _].
      intro H. injection H as <-. es_plan; try tset_cases. apply BM_same; simpl; rewrite ?Ph; auto; discriminate.
  - (* PDeferred *)
    destruct (thr_live (s_thr s)).
    + destruct (g_settle (t_cont (s_g s)) (ist (s_img s) (OChecks SPlan GCont))) as [x|] eqn:Gs; [|discriminate].
      pose proof (g_settle_settle _ _ _ Gs) as S.
      intro H. injection H as <-. es_plan; try tset_cases; try (rewrite Ph; split; discriminate).
      apply BM_same; simpl; rewrite ?Ph; auto; discriminate.
    + destruct (once_done (present (g_deferred (sh_groups sh))) (t_deferred (s_g s)) (ist (s_img s) (OChecks SPlan GDeferred))) as [[x v]|] eqn:Od; [|discriminate].
      destruct (once_done_settle _ _ _ _ _ Od) as [S _].
      intro H. injection H as <-. es_plan; try tset_cases. apply BM_same; simpl; rewrite ?Ph; auto; discriminate.
  - discriminate.
  - discriminate.
Qed.
