(* [copied from coq/c06 (C06 engineer, commit df26526): shared reachable-state invariants of the automaton] *)
(* Inv - reachable-state invariants of the automaton (no monitor here):
     binv  one block: image of its groups, the stage table, its sequences, why it fails / that it ran
     pinv  the plan: the same at plan level, the blocks before / after the current one, the final status. *)
From Coq Require Import Lia.
From Coercion.Base Require Import Plan.
From Coercion.Engine Require Import Shape Event Action ChecksRun Seq Block Final PlanSM Auto Accept AutoLemmas.
From Coercion.C07 Require Import Groups Steps Tab.

Definition pstage (p : pphase) : stage :=
  match p with
  | PStart => SgInit | PBypass => SgBypass | PPre => SgPre | PBlocks => SgBody | PPost => SgPost
  | PDeferred => SgDeferred | PEnd | PReleased => SgEnd
  end.
Definition bstage (p : bphase) : stage :=
  match p with
  | BEnter => SgInit | BBypass => SgBypass | BPre => SgPre | BSeqs => SgBody | BPost => SgPost
  | BDeferred => SgDeferred | BEnd => SgEnd
  end.

Definition ppres (sh : shape) (g : grp) : bool := present (grp_get (sh_groups sh) g).
Definition bpres (bs : bshape) (g : grp) : bool := present (grp_get (bs_groups bs) g).

(* the stages of a scope other than its bypass *)
Definition stages : list grp := [GPre; GCont; GPost; GDeferred].

Definition seq_rest (sq : sst) : bool := s_idle sq || s_done sq.

(* ---- one block ---- *)
Section BInv.
  Variable bs : bshape.
  Variable im : dimg.
  Variable bi : nat.
  Variable pdead : bool.       (* the plan's continuous group has failed *)
  Variable b : bst.

  Definition btaken : Prop := t_bypass (b_g b) = GIdle 1 (Some true).

  (* a stage other than the bypass has failed *)
  Definition cause_w : Prop :=
    (exists g, In g stages /\ bpres bs g = true /\ g_dead (tget (b_g b) g) = true)
    \/ pdead = true \/ exceeded bs b = true.

  Definition cont_fine (pres : bool) (g : gst) : Prop := pres = true -> exists r, g = GIdle (S r) (Some true).

  (* the block ran normally so far *)
  Definition fine_w : Prop :=
    match bstage (b_ph b) with
    | SgPost => forallb s_done (b_seqs b) = true
    | SgDeferred =>
        forallb s_done (b_seqs b) = true /\ closed_ok (bpres bs GPre) (t_pre (b_g b))
        /\ (bpres bs GCont = true -> cont_ok (t_cont (b_g b))) /\ closed_ok (bpres bs GPost) (t_post (b_g b))
        /\ (bpres bs GCont = true -> b_thr b <> TNone)
    | SgEnd =>
        ~ btaken ->
        forallb s_done (b_seqs b) = true /\ closed_ok (bpres bs GPre) (t_pre (b_g b))
        /\ (bpres bs GCont = true -> cont_ok (t_cont (b_g b))) /\ closed_ok (bpres bs GPost) (t_post (b_g b))
        /\ closed_ok (bpres bs GDeferred) (t_deferred (b_g b))
        /\ (b_thr b = TDrained -> cont_fine (bpres bs GCont) (t_cont (b_g b)))
        /\ (bpres bs GCont = true -> b_thr b <> TNone)
    | _ => True
    end.

  Record binv : Prop := {
    bi_img : forall g, gimg (tget (b_g b) g) (ist im (OChecks (SBlock bi) g));
    bi_tab : tab (bpres bs) (bstage (b_ph b)) (b_g b) (b_thr b);
    bi_len : length (b_seqs b) = length (bs_seqs bs);
    bi_seq : forall q v, nth_error (b_seqs b) q = Some (SDone v) -> ist im (OSeq bi q) = verdict_status v;
    bi_rest : bstage (b_ph b) <> SgBody -> forallb seq_rest (b_seqs b) = true;
    bi_thr : b_thr b = TDrained -> bstage (b_ph b) = SgEnd;
    bi_cause : b_cause b = true ->
               (bstage (b_ph b) = SgDeferred \/ bstage (b_ph b) = SgEnd) /\ ~ btaken /\ cause_w;
    bi_fine : b_cause b = false -> fine_w }.
End BInv.

(* ---- the plan ---- *)
Section PInv.
  Variable sh : shape.
  Variable s : st.

  Definition nblocks : nat := length (sh_blocks sh).
  Definition ptaken : Prop := t_bypass (s_g s) = GIdle 1 (Some true).

  Definition pbad : Prop :=
    (exists g, In g stages /\ ppres sh g = true /\ g_dead (tget (s_g s) g) = true)
    \/ (exists b, b < nblocks /\ ist (s_img s) (OBlock b) = Failed).

  Definition pfine : Prop :=
    closed_ok (ppres sh GPre) (t_pre (s_g s))
    /\ cont_fine (ppres sh GCont) (t_cont (s_g s))
    /\ closed_ok (ppres sh GPost) (t_post (s_g s))
    /\ (forall b, b < nblocks -> ist (s_img s) (OBlock b) = Completed)
    /\ (s_ph s <> PDeferred -> closed_ok (ppres sh GDeferred) (t_deferred (s_g s)))
    /\ s_thr s <> TLive.

  Definition ended : Prop := s_ph s = PEnd \/ s_ph s = PReleased.
  (* block b has not been entered yet *)
  Definition untouched (b : nat) : Prop :=
    s_ph s = PStart \/ s_ph s = PBypass \/ s_ph s = PPre \/ (s_ph s = PBlocks /\ s_cb s < b).

  Record pinv : Prop := {
    pi_img : forall g, gimg (tget (s_g s) g) (ist (s_img s) (OChecks SPlan g));
    pi_tab : tab (ppres sh) (pstage (s_ph s)) (s_g s) (s_thr s);
    pi_thr : ended -> s_thr s <> TLive;
    pi_drained : s_ph s = PPost -> s_thr s = TDrained -> g_dead (t_cont (s_g s)) = false;
    pi_post : s_ph s = PPost -> s_thr s = TLive -> t_post (s_g s) = g0;
    pi_before : s_ph s = PBlocks -> forall b, b < s_cb s -> ist (s_img s) (OBlock b) = Completed;
    pi_all : s_ph s = PPost -> forall b, b < nblocks -> ist (s_img s) (OBlock b) = Completed;
    pi_chain : s_ph s = PDeferred \/ ended -> ~ ptaken -> pbad \/ pfine;
    pi_final : ended -> is_terminal (ist (s_img s) OPlan) = true ->
               ist (s_img s) OPlan = fst (final sh (ist (s_img s)));
    pi_running : ~ ended -> is_terminal (ist (s_img s) OPlan) = false;
    pi_untouched : forall b g, untouched b -> ist (s_img s) (OChecks (SBlock b) g) = NotStarted;
    pi_block : s_ph s = PBlocks ->
               match block_of sh (s_cb s) with
               | Some bs => binv bs (s_img s) (s_cb s) (g_dead (t_cont (s_g s))) (s_b s)
               | None => True
               end }.
End PInv.

(* ---- what "may start" implies ---- *)
Lemma b_may_start_spec b g :
  b_may_start b g = true -> allowed (bstage (b_ph b)) (b_thr b) (b_g b) g.
Proof.
  unfold b_may_start, allowed. destruct g; intro H.
  - apply andb_true_iff in H as [P R]. apply Nat.eqb_eq in R. destruct (b_ph b); try discriminate P. auto.
  - apply andb_true_iff in H as [P R]. apply Nat.eqb_eq in R. destruct (b_ph b); try discriminate P. auto.
  - apply orb_true_iff in H as [H|H].
    + apply andb_true_iff in H as [P R]. apply Nat.eqb_eq in R. destruct (b_ph b); try discriminate P. auto.
    + apply andb_true_iff in H as [H R]. apply andb_true_iff in H as [L D]. right.
      apply Nat.leb_le in R. apply negb_true_iff in D. destruct (b_thr b); try discriminate L. auto.
  - apply andb_true_iff in H as [P R]. apply Nat.eqb_eq in R. destruct (b_ph b); try discriminate P. auto.
  - apply andb_true_iff in H as [P R]. apply Nat.eqb_eq in R. destruct (b_ph b); try discriminate P. auto.
Qed.

Lemma p_may_start_spec s g :
  p_may_start s g = true -> allowed (pstage (s_ph s)) (s_thr s) (s_g s) g.
Proof.
  unfold p_may_start, allowed. destruct g; intro H.
  - apply andb_true_iff in H as [P R]. apply Nat.eqb_eq in R. destruct (s_ph s); try discriminate P. auto.
  - apply andb_true_iff in H as [P R]. apply Nat.eqb_eq in R. destruct (s_ph s); try discriminate P. auto.
  - apply orb_true_iff in H as [H|H].
    + apply andb_true_iff in H as [P R]. apply Nat.eqb_eq in R. destruct (s_ph s); try discriminate P. auto.
    + apply andb_true_iff in H as [H R]. apply andb_true_iff in H as [L D]. right.
      apply Nat.leb_le in R. apply negb_true_iff in D. destruct (s_thr s); try discriminate L. auto.
  - apply andb_true_iff in H as [H R]. apply andb_true_iff in H as [P L].
    apply Nat.eqb_eq in R. destruct (s_ph s); try discriminate P. auto.
  - apply andb_true_iff in H as [H R]. apply andb_true_iff in H as [P L].
    apply Nat.eqb_eq in R. destruct (s_ph s); try discriminate P. auto.
Qed.

(* allowed => the premise of g_apply_gimg / g_apply_gfl *)
Lemma allowed_may stg th t g : allowed stg th t g -> g_runs (tget t g) = 0 \/ g_dead (tget t g) = false.
Proof. unfold allowed. destruct g; intuition. Qed.

(* ---- the durable image after an event ---- *)
Lemma ist_iset im o c o' : ist (iset im o c) o' = if obj_eqb o o' then c_st c else ist im o'.
Proof. unfold ist, iset. simpl. destruct (obj_eqb o o'); reflexivity. Qed.

Definition not_act (o : obj) : Prop := match o with OAct _ => False | _ => True end.

Lemma obj_eqb_refl o : obj_eqb o o = true.
Proof. now apply obj_eqb_eq. Qed.
Lemma obj_eqb_neq o o' : o <> o' -> obj_eqb o o' = false.
Proof. intro H. destruct (obj_eqb o o') eqn:E; auto. apply obj_eqb_eq in E. contradiction. Qed.

Lemma chk_op_img e sc g op im :
  chk_op e = Some (sc, g, op) ->
  ist (ev_img e im) (OChecks sc g) = dst_after (ist im (OChecks sc g)) op
  /\ forall o, not_act o -> o <> OChecks sc g -> ist (ev_img e im) o = ist im o.
Proof.
  destruct e as [a|a o|o stt n ok r|snap|fin]; simpl; try discriminate.
  - destruct a; [|discriminate]. intro H. injection H as <- <- <-. simpl. auto.
  - destruct a; [|discriminate]. intro H. injection H as <- <- <-. simpl. auto.
  - destruct o as [|sc' g'|b|b q|a]; try discriminate.
    + destruct stt; try discriminate; (destruct n; [|discriminate]); (destruct ok; [discriminate|]);
        intro H; injection H as <- <- <-; simpl; rewrite ist_iset, obj_eqb_refl; (split; [reflexivity|]);
        intros o Na Ne; rewrite ist_iset, obj_eqb_neq; auto.
    + destruct a as [sc' g' i|]; [|discriminate].
      assert (F : forall c, ist (iset im (OAct (AChk sc' g' i)) c) (OChecks sc' g') = ist im (OChecks sc' g')
                          /\ forall o, not_act o -> ist (iset im (OAct (AChk sc' g' i)) c) o = ist im o).
      { intro c. split; [rewrite ist_iset; reflexivity|]. intros o Na. rewrite ist_iset. destruct o; try reflexivity. destruct Na. }
      destruct stt; try discriminate.
      * destruct n; [destruct ok; [discriminate|]|]; intro H; injection H as <- <- <-; simpl;
          (split; [exact (proj1 (F _))|intros o Na _; exact (proj2 (F _) o Na)]).
      * intro H; injection H as <- <- <-; simpl; (split; [exact (proj1 (F _))|intros o Na _; exact (proj2 (F _) o Na)]).
      * intro H; injection H as <- <- <-; simpl; (split; [exact (proj1 (F _))|intros o Na _; exact (proj2 (F _) o Na)]).
Qed.

Lemma seq_trans_img bs b e bi q sq sq' im :
  seq_trans bs b e bi q sq sq' ->
  (forall o, not_act o -> o <> OSeq bi q -> ist (ev_img e im) o = ist im o)
  /\ (forall v, sq' = SDone v -> ist (ev_img e im) (OSeq bi q) = verdict_status v)
  /\ (forall v, sq = SDone v -> False).
Proof.
  intros [r -> _ _|st r v -> ->|j a x i Ha Hi Hd].
  - repeat split; try discriminate. intros o Na Ne. simpl. rewrite ist_iset, obj_eqb_neq; auto.
  - repeat split; try discriminate.
    + intros o Na Ne. simpl. rewrite ist_iset, obj_eqb_neq; auto.
    + intros v' E. injection E as <-. simpl. now rewrite ist_iset, obj_eqb_refl.
  - repeat split; try discriminate.
    + intros o Na _. destruct e as [a0|a0 o0|o0 stt n ok r|snap|fin]; simpl; auto.
      simpl in Ha. destruct o0; try discriminate. rewrite ist_iset. destruct o; try reflexivity. destruct Na.
    + intros v ->. discriminate Hd.
Qed.

(* ================================================================== one block *)
Lemma tset_same t g : tset t g (tget t g) = t.
Proof. destruct t, g; reflexivity. Qed.
Lemma tset_same_b t : tset t GBypass (t_bypass t) = t. Proof. now destruct t. Qed.
Lemma tset_same_p t : tset t GPre (t_pre t) = t. Proof. now destruct t. Qed.
Lemma tset_same_c t : tset t GCont (t_cont t) = t. Proof. now destruct t. Qed.
Lemma tset_same_o t : tset t GPost (t_post t) = t. Proof. now destruct t. Qed.
Lemma tset_same_d t : tset t GDeferred (t_deferred t) = t. Proof. now destruct t. Qed.
Lemma b_with_g_same b : b_with_g b (b_g b) = b. Proof. now destruct b. Qed.
Ltac tsame H := cbn [tget] in H; rewrite ?tset_same_b, ?tset_same_p, ?tset_same_c, ?tset_same_o, ?tset_same_d, ?b_with_g_same in H.

Lemma op_on_idle ors may dst d g op g' owed :
  g_apply ors may dst d g op = Some (g', owed) -> g_is_idle g = true -> may = true.
Proof.
  intros H Hi. destruct (op_needs _ _ _ _ _ _ _ _ H) as [M|(r & acts & E)]; [exact M|].
  rewrite E in Hi. discriminate.
Qed.

(* a failed (dead) group takes no further operation *)
Lemma dead_no_op stg th t g ors may dst d op g' owed :
  gimg (tget t g) dst -> g_dead (tget t g) = true -> (may = true -> allowed stg th t g) ->
  g_apply ors may dst d (tget t g) op = Some (g', owed) -> False.
Proof.
  intros I D Hm H.
  assert (Hi : g_is_idle (tget t g) = true) by (destruct (tget t g) as [r [[|]|]|]; try discriminate D; reflexivity).
  specialize (Hm (op_on_idle _ _ _ _ _ _ _ _ H Hi)).
  assert (R : 1 <= g_runs (tget t g)).
  { destruct (tget t g) as [r [[|]|]|]; try discriminate D. simpl in *. destruct r; [contradiction|lia]. }
  unfold allowed in Hm. destruct g; try (destruct Hm as [_ Z]; lia).
  destruct Hm as [[_ Z]|(_ & Z & _)]; [lia|congruence].
Qed.

Lemma binv_init bs im bi pdead :
  (forall g, ist im (OChecks (SBlock bi) g) = NotStarted) -> binv bs im bi pdead (b_init bs).
Proof.
  intro U. constructor; cbn.
  - intro g. destruct g; cbn; apply U.
  - split; [intros g _; destruct g; reflexivity|]. cbn. auto.
  - apply repeat_length.
  - intros q v H. exfalso. revert q H. generalize (length (bs_seqs bs)). intro n.
    induction n as [|n IH]; intros [|q] H; simpl in H; try discriminate; eauto.
  - intros _. generalize (length (bs_seqs bs)). intro n. induction n; simpl; auto.
  - discriminate.
  - discriminate.
  - intros _. exact I.
Qed.

(* the image and the plan's failure flag may change outside the block *)
Lemma binv_frame bs im im' bi pdead pdead' b :
  binv bs im bi pdead b ->
  (forall g, ist im' (OChecks (SBlock bi) g) = ist im (OChecks (SBlock bi) g)) ->
  (forall q, ist im' (OSeq bi q) = ist im (OSeq bi q)) ->
  (pdead = true -> pdead' = true) ->
  binv bs im' bi pdead' b.
Proof.
  intros [B1 B2 B3 B4 B5 B5' B6 B7] Hg Hq Hd. constructor; auto.
  - intro g. rewrite Hg. apply B1.
  - intros q v H. rewrite Hq. eauto.
  - intro C. destruct (B6 C) as (S1 & S2 & [W|[W|W]]). repeat split; auto.
    + left. exact W.
    + repeat split; auto. right. left. auto.
    + repeat split; auto. right. right. exact W.
Qed.

Lemma bstage_cases p : bstage p = SgDeferred \/ bstage p = SgEnd -> bstage p <> SgBypass /\ bstage p <> SgPre /\ bstage p <> SgPost /\ bstage p <> SgBody.
Proof. intros [E|E]; rewrite E; repeat split; discriminate. Qed.

(* an operation on check group g of the block *)
Lemma binv_chk bs im bi pdead b e g op d x owed :
  binv bs im bi pdead b ->
  chk_op e = Some (SBlock bi, g, op) ->
  g_apply (grp_get (bs_groups bs) g) (b_may_start b g) (ist im (OChecks (SBlock bi) g)) d
          (tget (b_g b) g) op = Some (x, owed) ->
  binv bs (ev_img e im) bi pdead (b_with_g b (tset (b_g b) g x)).
Proof.
  intros [B1 B2 B3 B4 B5 B5' B6 B7] Hc H.
  destruct (chk_op_img _ _ _ _ im Hc) as [Ig Io].
  assert (Hm : b_may_start b g = true -> allowed (bstage (b_ph b)) (b_thr b) (b_g b) g) by apply b_may_start_spec.
  assert (Hp : bpres bs g = false -> grp_get (bs_groups bs) g = None).
  { unfold bpres, present. destruct (grp_get (bs_groups bs) g); [discriminate|reflexivity]. }
  assert (T' : tab (bpres bs) (bstage (b_ph b)) (tset (b_g b) g x) (b_thr b)).
  { eapply tab_op; eauto. }
  (* an idle group of the table that may not start in this stage is not the one operated on *)
  assert (NotIdle : g_is_idle (tget (b_g b) g) = true -> allowed (bstage (b_ph b)) (b_thr b) (b_g b) g).
  { intro Hi. apply Hm. eapply op_on_idle; eauto. }
  assert (Byp : (bstage (b_ph b) = SgDeferred \/ bstage (b_ph b) = SgEnd) -> g <> GBypass).
  { intros St ->. destruct B2 as [_ T]. 
    assert (Hi : g_is_idle (t_bypass (b_g b)) = true).
    { destruct St as [St|St]; rewrite St in T; cbn zeta in T.
      - destruct T as (Nb & _). eapply not_taken_idle; eauto.
      - destruct T as [(Eb & _)|(Nb & _)]; [now rewrite Eb|eapply not_taken_idle; eauto]. }
    destruct (NotIdle Hi) as [Q _]. destruct St as [St|St]; rewrite St in Q; discriminate. }
  constructor; cbn [b_g b_ph b_thr b_cause b_seqs b_with_g].
  - intro g'. destruct (grp_eqb g g') eqn:E.
    + apply grp_eqb_eq in E. subst g'. rewrite tget_tset_same, Ig.
      eapply g_apply_gimg; eauto. intro M. eapply allowed_may; eauto.
    + assert (Ne : g <> g') by (intro Q; subst g'; rewrite (proj2 (grp_eqb_eq g g) eq_refl) in E; discriminate).
      rewrite tget_tset_other by exact Ne. rewrite Io; [apply B1|exact I|]. intro Q. injection Q as Q. now apply Ne.
  - exact T'.
  - exact B3.
  - intros q v Hq. rewrite Io; [eauto|exact I|discriminate].
  - exact B5.
  - exact B5'.
  - intro C. destruct (B6 C) as (St & Nt & W). pose proof (Byp St) as Nb.
    split; [exact St|]. split.
    + unfold btaken in *. cbn [b_g b_with_g]. destruct g; cbn [tset t_bypass]; auto; now elim Nb.
    + destruct W as [(g0 & In0 & P0 & D0)|[W|W]].
      * left. exists g0. repeat split; auto. cbn [b_g b_with_g].
        destruct (grp_eqb g g0) eqn:E.
        -- apply grp_eqb_eq in E. subst g0. exfalso. exact (dead_no_op _ _ _ _ _ _ _ _ _ _ _ (B1 g) D0 Hm H).
        -- rewrite tget_tset_other; auto. intro Q; subst g0. rewrite (proj2 (grp_eqb_eq g g) eq_refl) in E. discriminate.
      * right. left. exact W.
      * right. right. exact W.
  - intro C. specialize (B7 C). unfold fine_w in *. cbn [b_g b_ph b_thr b_seqs b_with_g].
    destruct B2 as [A T].
    destruct (bstage (b_ph b)) eqn:St; auto; cbn zeta in T.
    + (* SgDeferred *)
      destruct B7 as (F1 & F2 & F3 & F4 & F5). destruct T as (Nb & Cp & Lc & Io' & Od).
      refine (conj F1 (conj _ (conj _ (conj _ F5)))).
      * destruct g; cbn [tset t_pre]; auto. exfalso.
        destruct (NotIdle (closed_ok_idle _ _ F2)) as [Q _]. discriminate.
      * intro Pc. specialize (F3 Pc). destruct g; cbn [tset t_cont]; auto. exact (g_apply_cont_ok _ _ _ _ _ _ _ _ (B1 GCont) F3 H).
      * destruct g; cbn [tset t_post]; auto. exfalso.
        destruct (NotIdle (closed_ok_idle _ _ F4)) as [Q _]. discriminate.
    + (* SgEnd *)
      assert (Nb : g <> GBypass) by (apply Byp; auto).
      intro Nt. assert (Nt0 : ~ btaken b).
      { unfold btaken in *. cbn [b_g b_with_g] in Nt. destruct g; cbn [tset t_bypass] in Nt; auto; now elim Nb. }
      destruct (B7 Nt0) as (F1 & F2 & F3 & F4 & F5 & F6 & F7).
      refine (conj F1 (conj _ (conj _ (conj _ (conj _ (conj _ F7)))))).
      * destruct g; cbn [tset t_pre]; auto. exfalso.
        destruct (NotIdle (closed_ok_idle _ _ F2)) as [Q _]. discriminate.
      * intro Pc. specialize (F3 Pc). destruct g; cbn [tset t_cont]; auto. exact (g_apply_cont_ok _ _ _ _ _ _ _ _ (B1 GCont) F3 H).
      * destruct g; cbn [tset t_post]; auto. exfalso.
        destruct (NotIdle (closed_ok_idle _ _ F4)) as [Q _]. discriminate.
      * destruct g; cbn [tset t_deferred]; auto. exfalso.
        destruct (NotIdle (closed_ok_idle _ _ F5)) as [Q _]. discriminate.
      * intros Td Pc. destruct (F6 Td Pc) as [r Er]. destruct g; cbn [tset t_cont]; eauto. exfalso.
        assert (Hi : g_is_idle (tget (b_g b) GCont) = true) by (cbn [tget]; now rewrite Er).
        destruct (NotIdle Hi) as [[Q _]|[Q _]]; [discriminate|congruence].
Qed.

(* an event of sequence q of the block: only while the sequences run *)
Lemma binv_seq bs im bi pdead b e q sq sq' :
  binv bs im bi pdead b -> nth_error (b_seqs b) q = Some sq -> seq_trans bs b e bi q sq sq' ->
  binv bs (ev_img e im) bi pdead (b_with_seqs b (upd (b_seqs b) q sq')).
Proof.
  intros [B1 B2 B3 B4 B5 B5' B6 B7] Hq Ht.
  destruct (seq_trans_img _ _ _ _ _ _ _ im Ht) as (Io & Iq & Nd).
  assert (St : bstage (b_ph b) = SgBody).
  { destruct (bstage (b_ph b)) eqn:E; auto;
      (assert (Ne : bstage (b_ph b) <> SgBody) by (rewrite E; discriminate));
      rewrite <- E in *; specialize (B5 Ne); pose proof (forallb_nth _ _ _ _ B5 Hq) as R;
      destruct Ht as [r _ P _| |]; try discriminate R; rewrite P in E; discriminate E. }
  assert (Cf : b_cause b = false).
  { destruct (b_cause b) eqn:C; auto. destruct (B6 eq_refl) as ([Q|Q] & _); rewrite St in Q; discriminate. }
  constructor; cbn [b_g b_ph b_thr b_cause b_seqs b_with_seqs].
  - intro g. rewrite Io; [apply B1|exact I|discriminate].
  - exact B2.
  - now rewrite upd_length.
  - intros q' v H. destruct (Nat.eq_dec q q') as [->|Ne].
    + rewrite nth_upd_same in H by (eapply nth_error_some_lt; eauto). injection H as ->. now apply Iq.
    + rewrite nth_upd_other in H by exact Ne. rewrite Io; [eauto|exact I|]. intro Q. injection Q as Q. now apply Ne.
  - intro Ne. now elim Ne.
  - exact B5'.
  - rewrite Cf. discriminate.
  - intros _. unfold fine_w. cbn [b_ph b_with_seqs]. now rewrite St.
Qed.

Lemma inflight_zero_rest b : inflight b = 0 -> forallb seq_rest (b_seqs b) = true.
Proof.
  unfold inflight, count. induction (b_seqs b) as [|sq l IH]; simpl; auto.
  destruct sq; simpl; auto; discriminate.
Qed.

Lemma started_rest_done l :
  forallb (fun s => negb (s_idle s)) l = true -> forallb seq_rest l = true -> forallb s_done l = true.
Proof.
  induction l as [|sq l IH]; simpl; auto. intros H1 H2.
  apply andb_true_iff in H1 as [A1 B1]. apply andb_true_iff in H2 as [A2 B2].
  rewrite IH by auto. destruct sq; simpl in *; auto; discriminate.
Qed.

Lemma not_taken_not_taken p g : not_taken p g -> g <> GIdle 1 (Some true).
Proof. unfold not_taken. destruct p; intros ->; discriminate. Qed.

Lemma dead_present pres stg t th g : tab pres stg t th -> g_dead (tget t g) = true -> pres g = true.
Proof.
  intros T D. destruct (pres g) eqn:P; auto. rewrite (tab_absent _ _ _ _ _ T P) in D. discriminate.
Qed.

(* the epsilon-moves of a block that do not end it *)
Ltac bsimp := cbn [b_g b_ph b_thr b_cause b_seqs b_with_ph b_with_g b_with_cause b_with_thr bstage].

Lemma binv_eps bs im bi pdead pvis b b' :
  binv bs im bi pdead b -> (pvis = true -> pdead = true) ->
  b_eps bs im bi pvis b = Some (BStay b') -> binv bs im bi pdead b'.
Proof.
  intros Inv Hv H. pose proof Inv as [B1 B2 B3 B4 B5 B5' B6 B7].
  assert (Cf : bstage (b_ph b) <> SgDeferred -> bstage (b_ph b) <> SgEnd -> b_cause b = false).
  { intros N1 N2. destruct (b_cause b) eqn:C; auto. destruct (B6 eq_refl) as ([Q|Q] & _); contradiction. }
  assert (OD : forall g x v, gonce (tget (b_g b) g) ->
            once_done (bpres bs g) (tget (b_g b) g) (ist im (OChecks (SBlock bi) g)) = Some (x, v) ->
            x = tget (b_g b) g /\ (if bpres bs g then tget (b_g b) g = GIdle 1 (Some v) else tget (b_g b) g = g0 /\ v = true)).
  { intros g x v O Hd. destruct (bpres bs g) eqn:P.
    - destruct (once_done_gonce _ _ _ _ (B1 g) O Hd) as [E ->]. auto.
    - destruct (once_done_absent _ _ _ _ Hd) as [-> ->]. split; auto. split; auto. eapply tab_absent; eauto. }
  unfold b_eps in H. destruct (b_ph b) eqn:Ph; cbn [bstage] in *.
  - (* BEnter *)
    destruct (status_eqb (ist im (OBlock bi)) Running); [|discriminate]. injection H as <-.
    destruct B2 as [A [Et Eth]].
    constructor; bsimp; [exact B1| |exact B3|exact B4| | | |].
    + split; [exact A|]. rewrite Et. cbn. repeat split; auto.
    + intros _. apply B5. discriminate.
    + intro Q. specialize (B5' Q). discriminate.
    + rewrite Cf by discriminate. discriminate.
    + intros _. exact Logic.I.
  - (* BBypass *)
    destruct B2 as [A (Ob & Ep & Ec & Eo & Ed & Eth)].
    destruct (g_bypass (bs_groups bs)) as [rs|] eqn:Gb.
    + assert (Pb : bpres bs GBypass = true) by (unfold bpres; cbn; now rewrite Gb).
      destruct (once_done true (t_bypass (b_g b)) (ist im (OChecks (SBlock bi) GBypass))) as [[x v]|] eqn:Od; [|discriminate].
      rewrite <- Pb in Od. destruct (OD GBypass x v Ob Od) as [-> Eb]. rewrite Pb in Eb. cbn [tget] in Eb. tsame H.
      destruct v; injection H as <-.
      * constructor; bsimp; [exact B1| |exact B3|exact B4| | | |].
        -- split; [exact A|]. cbn zeta. left. repeat split; auto.
        -- intros _. apply B5. discriminate.
        -- intro Q. congruence.
        -- rewrite Cf by discriminate. discriminate.
        -- intros _. unfold fine_w. bsimp. intro Nt. now elim Nt.
      * constructor; bsimp; [exact B1| |exact B3|exact B4| | | |].
        -- split; [exact A|]. cbn zeta. unfold not_taken. rewrite Pb, Ep, Ec. repeat split; auto; exact Logic.I.
        -- intros _. apply B5. discriminate.
        -- intro Q. congruence.
        -- rewrite Cf by discriminate. discriminate.
        -- intros _. exact Logic.I.
    + injection H as <-.
      assert (Pb : bpres bs GBypass = false) by (unfold bpres; cbn; now rewrite Gb).
      constructor; bsimp; [exact B1| |exact B3|exact B4| | | |].
      * split; [exact A|]. cbn zeta. unfold not_taken. rewrite Pb, Ep, Ec. repeat split; auto; try exact Logic.I.
        exact (A GBypass Pb).
      * intros _. apply B5. discriminate.
      * intro Q. congruence.
      * rewrite Cf by discriminate. discriminate.
      * intros _. exact Logic.I.
  - (* BPre *)
    destruct B2 as [A (Nb & Op & Oc & Eo & Ed & Eth)].
    change (present (g_pre (bs_groups bs))) with (bpres bs GPre) in H.
    change (present (g_cont (bs_groups bs))) with (bpres bs GCont) in H.
    destruct (once_done (bpres bs GPre) (t_pre (b_g b)) (ist im (OChecks (SBlock bi) GPre))) as [[x v1]|] eqn:O1; [|discriminate].
    destruct (once_done (bpres bs GCont) (t_cont (b_g b)) (ist im (OChecks (SBlock bi) GCont))) as [[y v2]|] eqn:O2; [|discriminate].
    destruct (OD GPre x v1 Op O1) as [-> X]. destruct (OD GCont y v2 Oc O2) as [-> Y]. cbn [tget] in X, Y. tsame H.
    destruct (v1 && v2) eqn:V; injection H as <-.
    + apply andb_true_iff in V as [-> ->].
      constructor; bsimp; [exact B1| |exact B3|exact B4| | | |].
      * split; [exact A|]. cbn zeta. unfold closed_ok, cont_live, cont_ok.
        assert (X' : if bpres bs GPre then t_pre (b_g b) = GIdle 1 (Some true) else t_pre (b_g b) = g0)
          by (destruct (bpres bs GPre); [exact X|apply X]).
        assert (Y' : if bpres bs GCont then (1 <= g_runs (t_cont (b_g b)) /\ t_cont (b_g b) <> GIdle 1 (Some false))
                                             /\ (if bpres bs GCont then TLive else TNone) = TLive
                     else t_cont (b_g b) = g0 /\ (if bpres bs GCont then TLive else TNone) = TNone).
        { destruct (bpres bs GCont); [rewrite Y; repeat split; simpl; auto; discriminate|split; [apply Y|reflexivity]]. }
        exact (conj Nb (conj X' (conj Y' (conj Eo Ed)))).
      * intro Ne. now elim Ne.
      * destruct (bpres bs GCont); discriminate.
      * rewrite Cf by discriminate. discriminate.
      * intros _. exact Logic.I.
    + constructor; bsimp; [exact B1| |exact B3|exact B4| | | |].
      * split; [exact A|]. cbn zeta. rewrite Eth. unfold closed, cont_late, idle_once. rewrite Eo, Ed.
        assert (X' : if bpres bs GPre then exists v, t_pre (b_g b) = GIdle 1 (Some v) else t_pre (b_g b) = g0)
          by (destruct (bpres bs GPre); [eauto|apply X]).
        assert (Y' : if bpres bs GCont
                     then 1 <= g_runs (t_cont (b_g b)) /\ (TNone = TNone -> exists v, t_cont (b_g b) = GIdle 1 (Some v))
                          /\ (TNone = TDrained -> g_is_idle (t_cont (b_g b)) = true)
                     else t_cont (b_g b) = g0 /\ TNone = TNone).
        { destruct (bpres bs GCont); [rewrite Y; repeat split; simpl; eauto; discriminate|split; [apply Y|reflexivity]]. }
        exact (conj Nb (conj X' (conj Y' (conj (or_introl eq_refl) Logic.I)))).
      * intros _. apply B5. discriminate.
      * rewrite Eth. discriminate.
      * intros _. split; [auto|]. split; [now apply not_taken_not_taken in Nb|].
        left. apply andb_false_iff in V as [->| ->].
        -- exists GPre. destruct (bpres bs GPre) eqn:P; [|destruct X; discriminate].
           repeat split; [simpl; auto|]. bsimp. cbn [tget]. now rewrite X.
        -- exists GCont. destruct (bpres bs GCont) eqn:P; [|destruct Y; discriminate].
           repeat split; [simpl; auto|]. bsimp. cbn [tget]. now rewrite Y.
      * discriminate.
  - (* BSeqs *)
    destruct B2 as [A (Nb & Cp & Lc & Eo & Ed)].
    destruct (negb (Nat.eqb (inflight b) 0)) eqn:Fl; [discriminate|].
    apply negb_false_iff, Nat.eqb_eq in Fl. pose proof (inflight_zero_rest _ Fl) as Rest.
    assert (ToDeferred : forall W : cause_w bs pdead b,
              binv bs im bi pdead (b_with_ph (b_with_cause b true) BDeferred)).
    { intro W. constructor; bsimp; [exact B1| |exact B3|exact B4| | | |].
      - split; [exact A|]. cbn zeta. rewrite Eo, Ed. unfold closed, cont_late, idle_once.
        unfold closed_ok, cont_live in *.
        assert (X' : if bpres bs GPre then exists v, t_pre (b_g b) = GIdle 1 (Some v) else t_pre (b_g b) = g0)
          by (destruct (bpres bs GPre); eauto).
        assert (Y' : if bpres bs GCont
                     then 1 <= g_runs (t_cont (b_g b)) /\ (b_thr b = TNone -> exists v, t_cont (b_g b) = GIdle 1 (Some v))
                          /\ (b_thr b = TDrained -> g_is_idle (t_cont (b_g b)) = true)
                     else t_cont (b_g b) = g0 /\ b_thr b = TNone).
        { destruct (bpres bs GCont); [|exact Lc]. destruct Lc as [[R _] ->]. repeat split; auto; discriminate. }
        exact (conj Nb (conj X' (conj Y' (conj (or_introl eq_refl) Logic.I)))).
      - intros _. exact Rest.
      - intro Q. specialize (B5' Q). discriminate.
      - intros _. split; [auto|]. split; [now apply not_taken_not_taken in Nb|exact W].
      - discriminate. }
    destruct (exceeded bs b) eqn:Ex.
    { injection H as <-. apply ToDeferred. right. right. exact Ex. }
    destruct (all_started b) eqn:As.
    { injection H as <-.
      constructor; bsimp; [exact B1| |exact B3|exact B4| | | |].
      - split; [exact A|]. cbn zeta. unfold cont_after, cont_live in *.
        assert (Y' : if bpres bs GCont
                     then cont_ok (t_cont (b_g b)) /\ (b_thr b = TLive \/ b_thr b = TDrained /\ g_is_idle (t_cont (b_g b)) = true)
                     else t_cont (b_g b) = g0 /\ b_thr b = TNone).
        { destruct (bpres bs GCont); [|exact Lc]. destruct Lc as [Ok ->]. auto. }
        rewrite Eo. exact (conj Nb (conj Cp (conj Y' (conj Logic.I Ed)))).
      - intros _. exact Rest.
      - intro Q. specialize (B5' Q). discriminate.
      - rewrite Cf by discriminate. discriminate.
      - intros _. unfold fine_w. bsimp. now apply started_rest_done. }
    destruct (pvis || thr_live (b_thr b) && g_dead (t_cont (b_g b))) eqn:Vis; [|discriminate].
    injection H as <-. apply ToDeferred. apply orb_true_iff in Vis as [Vis|Vis].
    + right. left. now apply Hv.
    + apply andb_true_iff in Vis as [_ D]. left. exists GCont. repeat split; [simpl; auto| |exact D].
      eapply dead_present; [exact (bi_tab _ _ _ _ _ Inv)|exact D].
  - (* BPost *)
    destruct B2 as [A (Nb & Cp & Lc & Oo & Ed)].
    change (present (g_post (bs_groups bs))) with (bpres bs GPost) in H.
    destruct (once_done (bpres bs GPost) (t_post (b_g b)) (ist im (OChecks (SBlock bi) GPost))) as [[x v]|] eqn:O1; [|discriminate].
    destruct (OD GPost x v Oo O1) as [-> X]. cbn [tget] in X. tsame H.
    injection H as <-. pose proof (Cf ltac:(discriminate) ltac:(discriminate)) as C0.
    assert (Thr : bpres bs GCont = true -> b_thr b = TLive).
    { intro P. unfold cont_after in Lc. rewrite P in Lc. destruct Lc as [_ [E|[E _]]]; auto.
      specialize (B5' E). discriminate. }
    constructor; bsimp; [exact B1| |exact B3|exact B4| | | |].
    + split; [exact A|]. cbn zeta. unfold closed, cont_late, idle_once, closed_ok, cont_after in *.
      assert (X' : if bpres bs GPre then exists v, t_pre (b_g b) = GIdle 1 (Some v) else t_pre (b_g b) = g0)
        by (destruct (bpres bs GPre); eauto).
      assert (Y' : if bpres bs GCont
                   then 1 <= g_runs (t_cont (b_g b)) /\ (b_thr b = TNone -> exists v, t_cont (b_g b) = GIdle 1 (Some v))
                        /\ (b_thr b = TDrained -> g_is_idle (t_cont (b_g b)) = true)
                   else t_cont (b_g b) = g0 /\ b_thr b = TNone).
      { destruct (bpres bs GCont); [|exact Lc]. destruct Lc as [[R _] Th]. rewrite (Thr eq_refl). repeat split; auto; discriminate. }
      assert (Z' : t_post (b_g b) = g0 \/ exists v, t_post (b_g b) = GIdle 1 (Some v))
        by (destruct (bpres bs GPost); [eauto|left; apply X]).
      rewrite Ed. exact (conj Nb (conj X' (conj Y' (conj Z' Logic.I)))).
    + intros _. apply B5. discriminate.
    + intro Q. specialize (B5' Q). discriminate.
    + rewrite C0. cbn [orb]. intro V. apply negb_true_iff in V. subst v. split; [auto|]. split; [now apply not_taken_not_taken in Nb|].
      left. exists GPost. destruct (bpres bs GPost) eqn:P; [|destruct X; discriminate].
      repeat split; [simpl; auto|]. bsimp. cbn [tget]. now rewrite X.
    + rewrite C0. cbn [orb]. intro V. apply negb_false_iff in V. subst v. unfold fine_w in *. bsimp.
      specialize (B7 C0). rewrite Ph in B7. cbn [bstage] in B7.
      refine (conj B7 (conj Cp (conj _ (conj _ _)))).
      * intro P. unfold cont_after in Lc. rewrite P in Lc. apply Lc.
      * unfold closed_ok. destruct (bpres bs GPost); [exact X|apply X].
      * intro P. rewrite (Thr P). discriminate.
  - (* BDeferred *)
    destruct B2 as [A (Nb & Cp & Lc & Io & Od)].
    change (present (g_deferred (bs_groups bs))) with (bpres bs GDeferred) in H.
    destruct (once_done (bpres bs GDeferred) (t_deferred (b_g b)) (ist im (OChecks (SBlock bi) GDeferred))) as [[x v]|] eqn:O1; [|discriminate].
    destruct (OD GDeferred x v Od O1) as [-> X]. cbn [tget] in X. tsame H.
    injection H as <-.
    constructor; bsimp; [exact B1| |exact B3|exact B4| | | |].
    + split; [exact A|]. cbn zeta. right. unfold idle_once in *.
      assert (Z' : t_deferred (b_g b) = g0 \/ exists v, t_deferred (b_g b) = GIdle 1 (Some v))
        by (destruct (bpres bs GDeferred); [eauto|left; apply X]).
      exact (conj Nb (conj Cp (conj Lc (conj Io Z')))).
    + intros _. apply B5. discriminate.
    + intro Q. specialize (B5' Q). discriminate.
    + intro V. apply orb_true_iff in V as [C|V].
      * destruct (B6 C) as (_ & Nt & W). auto.
      * apply negb_true_iff in V. subst v. split; [auto|]. split; [now apply not_taken_not_taken in Nb|].
        left. exists GDeferred. destruct (bpres bs GDeferred) eqn:P; [|destruct X; discriminate].
        repeat split; [simpl; auto|]. bsimp. cbn [tget]. now rewrite X.
    + intro V. apply orb_false_iff in V as [C V]. apply negb_false_iff in V. subst v.
      unfold fine_w in *. bsimp. specialize (B7 C). rewrite Ph in B7. cbn [bstage] in B7.
      destruct B7 as (F1 & F2 & F3 & F4 & F5). intros _.
      refine (conj F1 (conj F2 (conj F3 (conj F4 (conj _ (conj _ F5)))))).
      * unfold closed_ok. destruct (bpres bs GDeferred); [exact X|apply X].
      * intro Q. specialize (B5' Q). discriminate.
  - (* BEnd *)
    destruct (thr_live (b_thr b)) eqn:Lv.
    2: { destruct (status_eqb (ist im (OBlock bi)) (if b_cause b then Failed else Completed)); discriminate. }
    destruct (g_settle (t_cont (b_g b)) (ist im (OChecks (SBlock bi) GCont))) as [x|] eqn:Gs; [|discriminate].
    injection H as <-.
    assert (Tl : b_thr b = TLive) by (destruct (b_thr b); try discriminate Lv; reflexivity).
    destruct B2 as [A [(Eb & Ep & Ec & Eo & Ed & Eth)|(Nb & Cp & Lc & Io & Id)]]; [congruence|].
    assert (Pc : bpres bs GCont = true).
    { unfold cont_late in Lc. destruct (bpres bs GCont); auto. destruct Lc as [_ Q]. congruence. }
    unfold cont_late in Lc. rewrite Pc in Lc. destruct Lc as (R & _ & _).
    assert (Xs : g_is_idle x = true /\ g_runs (t_cont (b_g b)) <= g_runs x /\ gimg x (ist im (OChecks (SBlock bi) GCont))
                 /\ (g_dead (t_cont (b_g b)) = true -> x = t_cont (b_g b))
                 /\ (cont_ok (t_cont (b_g b)) -> cont_ok x)).
    { destruct (g_settle_spec _ _ _ (B1 GCont) Gs) as [[Hi ->]|(r & acts & E & -> & D)].
      - cbn [tget] in *. exact (conj Hi (conj (le_n _) (conj (B1 GCont) (conj (fun _ => eq_refl) (fun Q => Q))))).
      - cbn [tget] in E. rewrite E. simpl.
        refine (conj eq_refl (conj _ (conj D (conj _ _)))); [lia|discriminate|].
        intros _. split; [simpl; lia|discriminate]. }
    destruct Xs as (Xi & Xr & Xg & Xd & Xo).
    constructor; bsimp; rewrite ?Ph; cbn [bstage]; [| |exact B3|exact B4| | | |].
    + intro g. destruct g; cbn [tset tget t_bypass t_pre t_cont t_post t_deferred];
        [apply (B1 GBypass)|apply (B1 GPre)|exact Xg|apply (B1 GPost)|apply (B1 GDeferred)].
    + split.
      * intros g P. destruct g; cbn [tset tget t_bypass t_pre t_cont t_post t_deferred]; try apply (A _ P). congruence.
      * cbn zeta. right. cbn [tset t_bypass t_pre t_cont t_post t_deferred]. unfold cont_late. rewrite Pc.
        refine (conj Nb (conj Cp (conj _ (conj Io Id)))). repeat split; auto; try discriminate. lia.
    + intros _. apply B5. discriminate.
    + auto.
    + intro V. apply orb_true_iff in V as [C|V].
      * destruct (B6 C) as (_ & Nt & W). split; [auto|]. split.
        -- unfold btaken in *. cbn [b_g b_with_g tset t_bypass]. exact Nt.
        -- destruct W as [(g0 & In0 & P0 & D0)|[W|W]]; [left|right; left; exact W|right; right; exact W].
           exists g0. repeat split; auto. cbn [b_g b_with_g].
           destruct g0; cbn [tset tget t_bypass t_pre t_cont t_post t_deferred] in *; auto.
           now rewrite (Xd D0).
      * split; [auto|]. split.
        -- unfold btaken. cbn [b_g b_with_g tset t_bypass]. now apply not_taken_not_taken in Nb.
        -- left. exists GCont. repeat split; [simpl; auto|exact Pc|]. cbn [b_g b_with_g tget tset t_cont]. exact V.
    + intro V. apply orb_false_iff in V as [C V].
      unfold fine_w in *. bsimp. specialize (B7 C). rewrite Ph in B7. rewrite Ph. cbn [bstage] in B7 |- *.
      intro Nt. assert (Nt0 : ~ btaken b) by (unfold btaken in *; cbn [b_g b_with_g tset t_bypass] in Nt; exact Nt).
      destruct (B7 Nt0) as (F1 & F2 & F3 & F4 & F5 & F6 & F7).
      cbn [tset t_bypass t_pre t_cont t_post t_deferred].
      refine (conj F1 (conj F2 (conj _ (conj F4 (conj F5 (conj _ _)))))).
      * intro P. apply Xo. now apply F3.
      * intros _ _. destruct x as [r l|]; [|discriminate Xi]. simpl in Xr, Xg, V.
        destruct r as [|r]; [lia|]. destruct l as [[|]|]; try contradiction; try discriminate V. eauto.
      * intros _. discriminate.
Qed.

(* the only epsilon-move that ends a block *)
Lemma b_eps_finished bs im bi pvis b f :
  b_eps bs im bi pvis b = Some (BFinished f) ->
  b_ph b = BEnd /\ thr_live (b_thr b) = false /\ f = b_cause b
  /\ ist im (OBlock bi) = (if b_cause b then Failed else Completed).
Proof.
  unfold b_eps. destruct (b_ph b).
  - destruct (status_eqb (ist im (OBlock bi)) Running); discriminate.
  - destruct (g_bypass (bs_groups bs)); [|discriminate].
    destruct (once_done true (t_bypass (b_g b)) (ist im (OChecks (SBlock bi) GBypass))) as [[x v]|]; [|discriminate].
    destruct v; discriminate.
  - destruct (once_done (present (g_pre (bs_groups bs))) (t_pre (b_g b)) (ist im (OChecks (SBlock bi) GPre))) as [[x v1]|]; [|discriminate].
    destruct (once_done (present (g_cont (bs_groups bs))) (t_cont (b_g b)) (ist im (OChecks (SBlock bi) GCont))) as [[y v2]|]; [|discriminate].
    destruct (v1 && v2); discriminate.
  - destruct (negb (Nat.eqb (inflight b) 0)); [discriminate|].
    destruct (exceeded bs b); [discriminate|]. destruct (all_started b); [discriminate|].
    destruct (pvis || thr_live (b_thr b) && g_dead (t_cont (b_g b))); discriminate.
  - destruct (once_done (present (g_post (bs_groups bs))) (t_post (b_g b)) (ist im (OChecks (SBlock bi) GPost))) as [[x v]|]; discriminate.
  - destruct (once_done (present (g_deferred (bs_groups bs))) (t_deferred (b_g b)) (ist im (OChecks (SBlock bi) GDeferred))) as [[x v]|]; discriminate.
  - destruct (thr_live (b_thr b)).
    + destruct (g_settle (t_cont (b_g b)) (ist im (OChecks (SBlock bi) GCont))); discriminate.
    + destruct (status_eqb (ist im (OBlock bi)) (if b_cause b then Failed else Completed)) eqn:E; [|discriminate].
      intro H. injection H as <-. apply status_eqb_eq in E. auto.
Qed.
