(* K2Witness - a real trace of the engine (harness/cmd/c07k2: one block with a continuous group whose runs work 30 ms,
   one sequence with one 5 ms action, a deferred check of 150 ms; no fault) on which the STRICT reading of "deferred
   checks run after everything else in that scope" fails at block level: run 3 of the block's continuous group begins
   after the block's deferred run has begun (known finding K2).  The automaton accepts it (it models the code) and
   mon_cont_deferred holds on it (its clause 5 exempts the scope's own continuous group). *)
From Coercion.Base Require Import Plan.
From Coercion.Engine Require Import Shape Event ChecksRun Accept.
From Coercion.C07 Require Import MonC07.

Definition k2_case : case :=
((Build_shape (Build_groups None None None None None) [(Build_bshape (Build_groups None None (Some [0]) None (Some [0])) [[0]] 1 (0)%Z)]), [(EvWrite OPlan Running 0 false FRUnknown);
   (EvWrite OPlan Running 0 false FRUnknown);
   (EvWrite OPlan Running 0 false FRUnknown);
   (EvWrite (OBlock 0) Running 0 false FRUnknown);
   (EvWrite (OBlock 0) Running 0 false FRUnknown);
   (EvWrite (OChecks (SBlock 0) GCont) NotStarted 0 false FRUnknown);
   (EvWrite (OAct (AChk (SBlock 0) GCont 0)) Running 0 false FRUnknown);
   (EvStart (AChk (SBlock 0) GCont 0));
   (EvEnd (AChk (SBlock 0) GCont 0) OOk);
   (EvWrite (OAct (AChk (SBlock 0) GCont 0)) Running 1 true FRUnknown);
   (EvWrite (OAct (AChk (SBlock 0) GCont 0)) Completed 1 true FRUnknown);
   (EvWrite (OAct (AChk (SBlock 0) GCont 0)) Completed 1 true FRUnknown);
   (EvWrite (OChecks (SBlock 0) GCont) Completed 0 false FRUnknown);
   (EvWrite (OBlock 0) Running 0 false FRUnknown);
   (EvWrite (OBlock 0) Running 0 false FRUnknown);
   (EvWrite (OSeq 0 0) Running 0 false FRUnknown);
   (EvWrite (OAct (ASeq 0 0 0)) Running 0 false FRUnknown);
   (EvStart (ASeq 0 0 0));
   (EvWrite (OChecks (SBlock 0) GCont) Completed 0 false FRUnknown);
   (EvWrite (OAct (AChk (SBlock 0) GCont 0)) Running 0 false FRUnknown);
   (EvStart (AChk (SBlock 0) GCont 0));
   (EvEnd (ASeq 0 0 0) OOk);
   (EvWrite (OAct (ASeq 0 0 0)) Running 1 true FRUnknown);
   (EvWrite (OAct (ASeq 0 0 0)) Completed 1 true FRUnknown);
   (EvWrite (OAct (ASeq 0 0 0)) Completed 1 true FRUnknown);
   (EvWrite (OSeq 0 0) Completed 0 false FRUnknown);
   (EvWrite (OBlock 0) Running 0 false FRUnknown);
   (EvWrite (OChecks (SBlock 0) GDeferred) NotStarted 0 false FRUnknown);
   (EvWrite (OAct (AChk (SBlock 0) GDeferred 0)) Running 0 false FRUnknown);
   (EvStart (AChk (SBlock 0) GDeferred 0));
   (EvEnd (AChk (SBlock 0) GCont 0) OOk);
   (EvWrite (OAct (AChk (SBlock 0) GCont 0)) Running 1 true FRUnknown);
   (EvWrite (OAct (AChk (SBlock 0) GCont 0)) Completed 1 true FRUnknown);
   (EvWrite (OAct (AChk (SBlock 0) GCont 0)) Completed 1 true FRUnknown);
   (EvWrite (OChecks (SBlock 0) GCont) Completed 0 false FRUnknown);
   (EvWrite (OChecks (SBlock 0) GCont) Completed 0 false FRUnknown);
   (EvWrite (OAct (AChk (SBlock 0) GCont 0)) Running 0 false FRUnknown);
   (EvStart (AChk (SBlock 0) GCont 0));
   (EvEnd (AChk (SBlock 0) GCont 0) OOk);
   (EvWrite (OAct (AChk (SBlock 0) GCont 0)) Running 1 true FRUnknown);
   (EvWrite (OAct (AChk (SBlock 0) GCont 0)) Completed 1 true FRUnknown);
   (EvWrite (OAct (AChk (SBlock 0) GCont 0)) Completed 1 true FRUnknown);
   (EvWrite (OChecks (SBlock 0) GCont) Completed 0 false FRUnknown);
   (EvEnd (AChk (SBlock 0) GDeferred 0) OOk);
   (EvWrite (OAct (AChk (SBlock 0) GDeferred 0)) Running 1 true FRUnknown);
   (EvWrite (OAct (AChk (SBlock 0) GDeferred 0)) Completed 1 true FRUnknown);
   (EvWrite (OAct (AChk (SBlock 0) GDeferred 0)) Completed 1 true FRUnknown);
   (EvWrite (OChecks (SBlock 0) GDeferred) Completed 0 false FRUnknown);
   (EvWrite (OBlock 0) Running 0 false FRUnknown);
   (EvWrite (OBlock 0) Completed 0 false FRUnknown);
   (EvWrite OPlan Running 0 false FRUnknown);
   (EvWrite OPlan Running 0 false FRUnknown);
   (EvWrite OPlan Completed 0 false FRUnknown);
   (EvWrite (OBlock 0) Completed 0 false FRUnknown);
   (EvWrite (OChecks (SBlock 0) GCont) Completed 0 false FRUnknown);
   (EvWrite (OAct (AChk (SBlock 0) GCont 0)) Completed 1 true FRUnknown);
   (EvWrite (OSeq 0 0) Completed 0 false FRUnknown);
   (EvWrite (OAct (ASeq 0 0 0)) Completed 1 true FRUnknown);
   (EvWrite (OChecks (SBlock 0) GDeferred) Completed 0 false FRUnknown);
   (EvWrite (OAct (AChk (SBlock 0) GDeferred 0)) Completed 1 true FRUnknown);
   (EvRelease (IM [(OPlan, (OC Completed 0 false (TF false false true))); ((OBlock 0), (OC Completed 0 false (TF false false true))); ((OChecks (SBlock 0) GCont), (OC Completed 0 false (TF false false true))); ((OAct (AChk (SBlock 0) GCont 0)), (OC Completed 1 true (TF false false true))); ((OChecks (SBlock 0) GDeferred), (OC Completed 0 false (TF false false true))); ((OAct (AChk (SBlock 0) GDeferred 0)), (OC Completed 1 true (TF false false true))); ((OSeq 0 0), (OC Completed 0 false (TF false false true))); ((OAct (ASeq 0 0 0)), (OC Completed 1 true (TF false false true)))] FRUnknown));
   (EvRead (IM [(OPlan, (OC Completed 0 false (TF false false true))); ((OBlock 0), (OC Completed 0 false (TF false false true))); ((OChecks (SBlock 0) GCont), (OC Completed 0 false (TF false false true))); ((OAct (AChk (SBlock 0) GCont 0)), (OC Completed 1 true (TF false false true))); ((OChecks (SBlock 0) GDeferred), (OC Completed 0 false (TF false false true))); ((OAct (AChk (SBlock 0) GDeferred 0)), (OC Completed 1 true (TF false false true))); ((OSeq 0 0), (OC Completed 0 false (TF false false true))); ((OAct (ASeq 0 0 0)), (OC Completed 1 true (TF false false true)))] FRUnknown))]).

Lemma k2_witness_l :
  accepts (fst k2_case) (snd k2_case) = true /\ mon_cont_deferred k2_case = true
  /\ mon_cont_deferred_strict k2_case = false
  /\ exists i, strict_diag (fst k2_case) (snd k2_case) (scopes (fst k2_case)) = [20; i; 1; 3].
Proof. vm_compute. repeat split; eauto. Qed.

Lemma c07_deferred_last_refuted_block_l :
  exists (sh : shape) (tr : list event),
    accepts sh tr = true /\ mon_cont_deferred (sh, tr) = true /\ mon_cont_deferred_strict (sh, tr) = false.
Proof.
  exists (fst k2_case), (snd k2_case). destruct k2_witness_l as (A & B & C & _). repeat split; assumption.
Qed.
