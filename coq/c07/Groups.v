(* [copied from coq/c06/Groups.v (C06 engineer's file, commit df26526) without the parts that concern the C06 monitor]
   Groups - facts about ONE check group of the automaton (ChecksRun.v), independent of the scope it
   belongs to: every event that concerns a group is one [gop]; [g_apply] is the corresponding function of
   ChecksRun.v.  Invariants proved here for one operation:
     gimg   the group state determines the durable status of the group object;
     gshape a group that runs once per scope is GIdle 0 None | GRun 0 _ | GIdle 1 (Some _);
     gfl    the monitor's per-action flags ("the plugin has returned OOk") against the group state. *)
From Coq Require Import Lia.
From Coercion.Base Require Import Plan.
From Coercion.Engine Require Import Shape Event Action ChecksRun AutoLemmas.

Inductive gop :=
| OpMark (i : nat)
| OpStart (i : nat)
| OpEnd (i : nat) (o : outcome)
| OpAttempt (i n : nat) (lastok : bool)
| OpFinal (i : nat) (st : status) (n : nat) (lastok : bool)
| OpVerdict (st : status).

(* ors = the retries of the group's actions (None = the shape has no such group); may = a run may start now;
   dst = durable status of the group; d = durable cell of the action the operation concerns *)
Definition g_apply (ors : option (list nat)) (may : bool) (dst : status) (d : cell) (g : gst) (op : gop)
  : option (gst * bool) :=
  match op with
  | OpMark i => match ors with
                | Some rs => option_map (fun x => (x, false)) (g_mark rs may dst g i)
                | None => None end
  | OpStart i => option_map (fun x => (x, false)) (g_start g i d)
  | OpEnd i o => option_map (fun x => (x, false)) (g_end g i o)
  | OpAttempt i n lastok => match ors with Some rs => g_attempt rs g i n lastok | None => None end
  | OpFinal i st n lastok => option_map (fun x => (x, false)) (g_final g i st n lastok)
  | OpVerdict st => option_map (fun x => (x, false)) (g_verdict g st)
  end.

(* the durable status of the group object after the operation (only a verdict write changes it) *)
Definition dst_after (dst : status) (op : gop) : status :=
  match op with OpVerdict st => st | _ => dst end.

(* ---- the durable status of a group is a function of its state ---- *)
Definition gimg (g : gst) (dst : status) : Prop :=
  match g with
  | GIdle 0 None => dst = NotStarted
  | GIdle (S _) (Some v) => dst = verdict_status v
  | GRun 0 _ => dst = NotStarted
  | GRun (S _) _ => dst = Completed
  | _ => False
  end.

(* a group that runs once *)
Definition gonce (g : gst) : Prop :=
  match g with
  | GIdle 0 None | GRun 0 _ | GIdle 1 (Some _) => True
  | _ => False
  end.

(* the plugin of an action has returned OOk in the open run *)
Definition okish (a : ast) : bool :=
  match a with ARet _ OOk | APend true _ | ADone true _ => true | _ => false end.
(* the states of an action whose plugin End is still owed (the engine timed the attempt out) *)
Definition quiet (a : ast) : bool :=
  match a with ARun _ | APend false _ | ADone false _ => true | _ => false end.


(* ---- small list facts ---- *)
Lemma upd_same {A} (l : list A) i x : nth_error l i = Some x -> upd l i x = l.
Proof.
  revert i; induction l as [|y l IH]; intros [|i] H; simpl in *; try discriminate; auto.
  - now injection H as ->.
  - now rewrite IH.
Qed.

Lemma map_upd_same {A B} (f : A -> B) (l : list A) i a a' :
  nth_error l i = Some a -> f a' = f a -> map f (upd l i a') = map f l.
Proof.
  intros H E. rewrite map_upd, E. apply upd_same. now rewrite nth_error_map, H.
Qed.

Lemma upd_out {A} (l : list A) i x : length l <= i -> upd l i x = l.
Proof.
  revert i; induction l as [|y l IH]; intros [|i] H; simpl in *; auto; try lia.
  rewrite IH; auto. lia.
Qed.

Lemma map_okish_fresh n i : map okish (upd (repeat AIdle n) i (ARun 0)) = repeat false n.
Proof.
  revert i; induction n as [|n IH]; intros [|i]; simpl; auto.
  - f_equal. clear. induction n; simpl; congruence.
  - now rewrite IH.
Qed.

(* ---- a_* functions and okish ---- *)
Ltac dif := match goal with |- context[if ?c then _ else _] => destruct c end.

Lemma after_attempt_okish r k o : okish (after_attempt r k o) = outcome_ok o.
Proof. destruct o; unfold after_attempt; auto; dif; reflexivity. Qed.

Lemma a_attempt_okish r a n ok a' owed :
  a_attempt r a n ok = Some (a', owed) -> okish a' = okish a.
Proof.
  destruct a; try (simpl; discriminate); unfold a_attempt.
  - destruct (Nat.eqb n (S k) && negb ok); [|discriminate]. intro H. injection H as <- _.
    dif; reflexivity.
  - destruct (Nat.eqb n (S k) && Bool.eqb ok (outcome_ok o)); [|discriminate]. intro H. injection H as <- _.
    rewrite after_attempt_okish. destruct o; reflexivity.
Qed.

Lemma a_attempt_owed r a n ok a' :
  a_attempt r a n ok = Some (a', true) -> okish a = false /\ quiet a' = true.
Proof.
  destruct a; try (simpl; discriminate); unfold a_attempt.
  - destruct (Nat.eqb n (S k) && negb ok); [|discriminate]. intro H. injection H as <-.
    split; [reflexivity|]. dif; reflexivity.
  - destruct (Nat.eqb n (S k) && Bool.eqb ok (outcome_ok o)); discriminate.
Qed.

Lemma a_final_okish a st n ok a' : a_final a st n ok = Some a' -> okish a' = okish a.
Proof.
  destruct a; simpl; try discriminate.
  destruct (Nat.eqb n0 n && status_eqb st (if v then Completed else Failed) && Bool.eqb ok v); [|discriminate].
  intro H. injection H as <-. reflexivity.
Qed.

Lemma a_mark_okish a a' : a_mark a = Some a' -> okish a' = okish a.
Proof. destruct a; simpl; try discriminate. intro H. injection H as <-. reflexivity. Qed.

Lemma a_start_okish a d a' : a_start a d = Some a' -> okish a' = okish a.
Proof.
  destruct a; simpl; try discriminate.
  destruct (status_eqb (c_st d) Running && Nat.eqb (c_n d) k); [|discriminate]. intro H. injection H as <-. reflexivity.
Qed.

Lemma a_end_okish a o a' : a_end a o = Some a' -> okish a = false /\ okish a' = outcome_ok o.
Proof. destruct a; simpl; try discriminate. intro H. injection H as <-. destruct o; auto. Qed.

(* quiet states take no Start, End, attempt or mark; a final keeps them quiet *)
Lemma quiet_no_start a d : quiet a = true -> a_start a d <> None -> exists k, a = ARun k.
Proof. destruct a; simpl; try discriminate; eauto; intros _ H; now elim H. Qed.
Lemma quiet_no_end a o : quiet a = true -> a_end a o = None.
Proof. destruct a; simpl; auto; discriminate. Qed.
Lemma quiet_no_attempt r a n ok : quiet a = true -> a_attempt r a n ok = None.
Proof. destruct a; simpl; auto; discriminate. Qed.
Lemma quiet_no_mark a : quiet a = true -> a_mark a = None.
Proof. destruct a; simpl; auto; discriminate. Qed.
Lemma quiet_final a st n ok a' : quiet a = true -> a_final a st n ok = Some a' -> quiet a' = true.
Proof.
  destruct a; simpl; try discriminate. destruct v; [discriminate|]. intros _.
  destruct (Nat.eqb n0 n && status_eqb st Failed && Bool.eqb ok false); [|discriminate].
  intro H. injection H as <-. reflexivity.
Qed.

(* ---- g_close ---- *)
Lemma g_close_spec g st g' :
  g_close g st = Some g' ->
  exists runs acts, g = GRun runs acts /\ acts_complete acts = true
                    /\ st = verdict_status (acts_verdict acts) /\ g' = GIdle (S runs) (Some (acts_verdict acts)).
Proof.
  destruct g as [r l|runs acts]; simpl; [discriminate|].
  destruct (acts_complete acts) eqn:C; simpl; [|discriminate].
  destruct (status_eqb st (verdict_status (acts_verdict acts))) eqn:E; [|discriminate].
  intro H. injection H as <-. apply status_eqb_eq in E. exists runs, acts. auto.
Qed.

(* with the image invariant a silent closure happens only for a re-run (runs >= 1) that succeeded *)
Lemma g_close_silent g dst g' :
  gimg g dst -> g_close g dst = Some g' ->
  exists r acts, g = GRun (S r) acts /\ acts_complete acts = true /\ acts_verdict acts = true
                 /\ g' = GIdle (S (S r)) (Some true) /\ dst = Completed.
Proof.
  intros I H. destruct (g_close_spec _ _ _ H) as (runs & acts & -> & C & E & ->).
  destruct runs as [|r]; simpl in I.
  - subst dst. destruct (acts_verdict acts); discriminate E.
  - subst dst. destruct (acts_verdict acts) eqn:V; [|discriminate E]. exists r, acts. auto.
Qed.

(* ---- what a mark does ---- *)
Lemma g_mark_spec rs may dst g i g' :
  gimg g dst -> g_mark rs may dst g i = Some g' ->
  (exists r acts a a', g = GRun r acts /\ nth_error acts i = Some a /\ a_mark a = Some a' /\ g' = GRun r (upd acts i a'))
  \/ (may = true /\ i < length rs /\
      exists r, g' = GRun r (upd (repeat AIdle (length rs)) i (ARun 0)) /\
                ((exists l, g = GIdle r l) \/
                 (exists r0 acts, r = S (S r0) /\ g = GRun (S r0) acts /\ dst = Completed))).
Proof.
  intros I H. unfold g_mark in H.
  destruct (g_act g i) as [a|] eqn:Ea.
  - destruct g as [r l|r acts]; simpl in Ea; [discriminate|].
    destruct (a_mark a) as [a'|] eqn:Em.
    + injection H as <-. left. exists r, acts, a, a'. auto.
    + destruct (g_settle (GRun r acts) dst) as [g1|] eqn:Es; [|discriminate].
      simpl in Es. destruct (g_close_silent _ _ _ I Es) as (r0 & acts0 & E & _ & _ & -> & D).
      injection E as E1 E2. subst r acts0.
      destruct may; simpl in H; [|discriminate]. destruct (i <? length rs) eqn:Li; [|discriminate].
      injection H as <-. right. apply Nat.ltb_lt in Li. repeat split; auto.
      exists (S (S r0)). split; [reflexivity|]. right. exists r0, acts. auto.
  - destruct g as [r l|r acts]; [|discriminate].
    destruct may; simpl in H; [|discriminate]. destruct (i <? length rs) eqn:Li; [|discriminate].
    injection H as <-. right. apply Nat.ltb_lt in Li. repeat split; auto.
    exists r. split; [reflexivity|]. left. exists l. reflexivity.
Qed.

(* an operation on action i of an open run: the run stays open, only action i changes *)
Definition act_step (g g' : gst) (i : nat) (P : ast -> ast -> Prop) : Prop :=
  exists r acts a a', g = GRun r acts /\ nth_error acts i = Some a /\ g' = GRun r (upd acts i a') /\ P a a'.

Lemma g_start_spec g i d g' :
  g_start g i d = Some g' -> act_step g g' i (fun a a' => a_start a d = Some a').
Proof.
  destruct g as [r l|r acts]; simpl; [discriminate|].
  destruct (nth_error acts i) as [a|] eqn:E; [|discriminate].
  destruct (a_start a d) as [a'|] eqn:S; [|discriminate].
  destruct (acts_marked acts); [|discriminate]. intro H. injection H as <-.
  exists r, acts, a, a'. auto.
Qed.

Lemma g_end_spec g i o g' :
  g_end g i o = Some g' -> act_step g g' i (fun a a' => a_end a o = Some a').
Proof.
  unfold g_end. destruct g as [r l|r acts]; simpl; [discriminate|].
  destruct (nth_error acts i) as [a|] eqn:E; [|discriminate].
  destruct (a_end a o) as [a'|] eqn:S; [|discriminate]. intro H. injection H as <-.
  exists r, acts, a, a'. auto.
Qed.

Lemma g_attempt_spec rs g i n ok g' owed :
  g_attempt rs g i n ok = Some (g', owed) ->
  act_step g g' i (fun a a' => exists r, nth_error rs i = Some r /\ a_attempt r a n ok = Some (a', owed)).
Proof.
  unfold g_attempt. destruct g as [r l|r acts]; simpl; [discriminate|].
  destruct (nth_error acts i) as [a|] eqn:E; [|discriminate].
  destruct (nth_error rs i) as [r0|] eqn:R; [|discriminate].
  destruct (a_attempt r0 a n ok) as [[a' ow]|] eqn:S; [|discriminate]. intro H. injection H as <- <-.
  exists r, acts, a, a'. repeat split; auto. exists r0. auto.
Qed.

Lemma g_final_spec g i st n ok g' :
  g_final g i st n ok = Some g' -> act_step g g' i (fun a a' => a_final a st n ok = Some a').
Proof.
  unfold g_final. destruct g as [r l|r acts]; simpl; [discriminate|].
  destruct (nth_error acts i) as [a|] eqn:E; [|discriminate].
  destruct (a_final a st n ok) as [a'|] eqn:S; [|discriminate]. intro H. injection H as <-.
  exists r, acts, a, a'. auto.
Qed.

(* ---- gimg is kept by every operation ---- *)
Lemma act_step_gimg g g' i (P : ast -> ast -> Prop) dst : act_step g g' i P -> gimg g dst -> gimg g' dst.
Proof. intros (r & acts & a & a' & -> & _ & -> & _). destruct r; auto. Qed.

Lemma g_apply_gimg ors may dst d g op g' owed :
  gimg g dst -> (may = true -> g_runs g = 0 \/ g_dead g = false) ->
  g_apply ors may dst d g op = Some (g', owed) -> gimg g' (dst_after dst op).
Proof.
  intros I M H. destruct op as [i|i|i o|i n ok|i st n ok|st]; simpl in *.
  - destruct ors as [rs|]; [|discriminate].
    destruct (g_mark rs may dst g i) as [x|] eqn:E; [|discriminate]. injection H as <- _.
    destruct (g_mark_spec _ _ _ _ _ _ I E) as [(r & acts & a & a' & -> & _ & _ & ->)|(Mt & _ & r & -> & [[l ->]|(r0 & acts & -> & -> & D)])].
    + destruct r; auto.
    + destruct r as [|r]; simpl in *.
      * destruct l; [contradiction|auto].
      * destruct l as [v|]; [|contradiction]. destruct (M Mt) as [Z|Z]; [discriminate|].
        destruct v; [exact I|discriminate].
    + simpl. exact D.
  - destruct (g_start g i d) as [x|] eqn:E; [|discriminate]. injection H as <- _.
    eapply act_step_gimg; eauto using g_start_spec.
  - destruct (g_end g i o) as [x|] eqn:E; [|discriminate]. injection H as <- _.
    eapply act_step_gimg; eauto using g_end_spec.
  - destruct ors as [rs|]; [|discriminate].
    eapply act_step_gimg; eauto using g_attempt_spec.
  - destruct (g_final g i st n ok) as [x|] eqn:E; [|discriminate]. injection H as <- _.
    eapply act_step_gimg; eauto using g_final_spec.
  - destruct (g_verdict g st) as [x|] eqn:E; [|discriminate]. injection H as <- _.
    unfold g_verdict in E. destruct (g_close_spec _ _ _ E) as (runs & acts & -> & _ & -> & ->). reflexivity.
Qed.

(* ---- shapes ---- *)
Lemma g_apply_not_fresh ors may dst d g op g' owed :
  g_apply ors may dst d g op = Some (g', owed) -> g' <> GIdle 0 None.
Proof.
  intro H. destruct op as [i|i|i o|i n ok|i st n ok|st]; simpl in H.
  - destruct ors as [rs|]; [|discriminate].
    destruct (g_mark rs may dst g i) as [x|] eqn:E; [|discriminate]. injection H as <- _.
    unfold g_mark in E. destruct (g_act g i) as [a|] eqn:Ea.
    + destruct (a_mark a).
      * injection E as <-. destruct g; [discriminate Ea|discriminate].
      * destruct (g_settle g dst) as [[r l|]|]; try discriminate.
        destruct (may && (i <? length rs)); [|discriminate]. injection E as <-. discriminate.
    + destruct g; [|discriminate]. destruct (may && (i <? length rs)); [|discriminate]. injection E as <-. discriminate.
  - destruct (g_start g i d) as [x|] eqn:E; [|discriminate]. injection H as <- _.
    destruct (g_start_spec _ _ _ _ E) as (r & acts & a & a' & _ & _ & -> & _). discriminate.
  - destruct (g_end g i o) as [x|] eqn:E; [|discriminate]. injection H as <- _.
    destruct (g_end_spec _ _ _ _ E) as (r & acts & a & a' & _ & _ & -> & _). discriminate.
  - destruct ors as [rs|]; [|discriminate].
    destruct (g_attempt_spec _ _ _ _ _ _ _ H) as (r & acts & a & a' & _ & _ & -> & _). discriminate.
  - destruct (g_final g i st n ok) as [x|] eqn:E; [|discriminate]. injection H as <- _.
    destruct (g_final_spec _ _ _ _ _ _ E) as (r & acts & a & a' & _ & _ & -> & _). discriminate.
  - destruct (g_verdict g st) as [x|] eqn:E; [|discriminate]. injection H as <- _.
    destruct (g_close_spec _ _ _ E) as (runs & acts & _ & _ & _ & ->). discriminate.
Qed.

(* a group with no run open takes no operation unless a run may start *)
Lemma g_apply_idle ors dst d r l op :
  g_apply ors false dst d (GIdle r l) op = None.
Proof.
  destruct op as [i|i|i o|i n ok|i st n ok|st]; simpl; auto.
  - destruct ors; reflexivity.
  - destruct ors; reflexivity.
Qed.

(* only a mark opens a run *)
Lemma g_apply_idle_mark ors may dst d r l op g' owed :
  g_apply ors may dst d (GIdle r l) op = Some (g', owed) ->
  may = true /\ exists i rs, op = OpMark i /\ ors = Some rs /\ i < length rs
                             /\ g' = GRun r (upd (repeat AIdle (length rs)) i (ARun 0)) /\ owed = false.
Proof.
  destruct op as [i|i|i o|i n ok|i st n ok|st]; simpl; try discriminate.
  - destruct ors as [rs|]; [|discriminate]. unfold g_mark; simpl. destruct may; simpl; [|discriminate].
    destruct (i <? length rs) eqn:L; simpl; [|discriminate]. intro H. injection H as <- <-.
    apply Nat.ltb_lt in L. split; auto. exists i, rs. auto.
  - destruct ors; discriminate.
Qed.

Lemma g_apply_gonce ors may dst d g op g' owed :
  gimg g dst -> (may = true -> g_runs g = 0) -> gonce g ->
  g_apply ors may dst d g op = Some (g', owed) -> gonce g'.
Proof.
  intros I M O H. destruct op as [i|i|i o|i n ok|i st n ok|st]; simpl in H.
  - destruct ors as [rs|]; [|discriminate].
    destruct (g_mark rs may dst g i) as [x|] eqn:E; [|discriminate]. injection H as <- _.
    destruct (g_mark_spec _ _ _ _ _ _ I E) as [(r & acts & a & a' & -> & _ & _ & ->)|(Mt & _ & r & -> & [[l ->]|(r0 & acts & -> & -> & D)])].
    + exact O.
    + simpl in M. rewrite (M Mt). exact Logic.I.
    + destruct O.
  - destruct (g_start g i d) as [x|] eqn:E; [|discriminate]. injection H as <- _.
    destruct (g_start_spec _ _ _ _ E) as (r & acts & a & a' & -> & _ & -> & _). exact O.
  - destruct (g_end g i o) as [x|] eqn:E; [|discriminate]. injection H as <- _.
    destruct (g_end_spec _ _ _ _ E) as (r & acts & a & a' & -> & _ & -> & _). exact O.
  - destruct ors as [rs|]; [|discriminate].
    destruct (g_attempt_spec _ _ _ _ _ _ _ H) as (r & acts & a & a' & -> & _ & -> & _). exact O.
  - destruct (g_final g i st n ok) as [x|] eqn:E; [|discriminate]. injection H as <- _.
    destruct (g_final_spec _ _ _ _ _ _ E) as (r & acts & a & a' & -> & _ & -> & _). exact O.
  - destruct (g_verdict g st) as [x|] eqn:E; [|discriminate]. injection H as <- _.
    destruct (g_close_spec _ _ _ E) as (runs & acts & -> & _ & _ & ->). destruct runs; [exact Logic.I|destruct O].
Qed.

