(* [copied from coq/c06 (C06 engineer, commit df26526): shared reachable-state invariants of the automaton] *)
(* Steps - the shape of one handled event of the automaton (Auto.handle), in a form the invariant proofs
   can use: which sub-automaton moves and how the state is rebuilt.  No property-specific content. *)
From Coq Require Import Lia.
From Coercion.Base Require Import Plan.
From Coercion.Engine Require Import Shape Event Action ChecksRun Seq Block Final PlanSM Auto Accept AutoLemmas.
From Coercion.C07 Require Import Groups.

(* ---- decoding an event ---- *)
(* the check group operation an event is, if it concerns a check action or a check group *)
Definition chk_op (e : event) : option (scope * grp * gop) :=
  match e with
  | EvStart (AChk sc g i) => Some (sc, g, OpStart i)
  | EvEnd (AChk sc g i) o => Some (sc, g, OpEnd i o)
  | EvWrite (OAct (AChk sc g i)) Running 0 false _ => Some (sc, g, OpMark i)
  | EvWrite (OAct (AChk sc g i)) Running (S n) ok _ => Some (sc, g, OpAttempt i (S n) ok)
  | EvWrite (OAct (AChk sc g i)) Completed n ok _ => Some (sc, g, OpFinal i Completed n ok)
  | EvWrite (OAct (AChk sc g i)) Failed n ok _ => Some (sc, g, OpFinal i Failed n ok)
  | EvWrite (OChecks sc g) Completed 0 false _ => Some (sc, g, OpVerdict Completed)
  | EvWrite (OChecks sc g) Failed 0 false _ => Some (sc, g, OpVerdict Failed)
  | _ => None
  end.

(* the action an event concerns *)
Definition ev_aref (e : event) : option aref :=
  match e with
  | EvStart a | EvEnd a _ | EvWrite (OAct a) _ _ _ _ => Some a
  | _ => None
  end.

(* the durable image after the event *)
Definition ev_img (e : event) (im : dimg) : dimg :=
  match e with
  | EvWrite o stt n ok _ => iset im o {| c_st := stt; c_n := n; c_ok := ok |}
  | _ => im
  end.

Definition ev_cell (s : st) (e : event) : cell :=
  match e with EvStart a => iget (s_img s) (OAct a) | _ => cell0 end.

Definition late_after (l : list aref) (e : event) (owed : bool) : list aref :=
  match ev_aref e with Some a => if owed then a :: l else l | None => l end.

(* ---- projections of the state builders ---- *)
Lemma owe_g s a o : s_g (owe s a o) = s_g s. Proof. now destruct o. Qed.
Lemma owe_ph s a o : s_ph (owe s a o) = s_ph s. Proof. now destruct o. Qed.
Lemma owe_thr s a o : s_thr (owe s a o) = s_thr s. Proof. now destruct o. Qed.
Lemma owe_cb s a o : s_cb (owe s a o) = s_cb s. Proof. now destruct o. Qed.
Lemma owe_b s a o : s_b (owe s a o) = s_b s. Proof. now destruct o. Qed.
Lemma owe_img s a o : s_img (owe s a o) = s_img s. Proof. now destruct o. Qed.
Lemma owe_fin s a o : s_fin (owe s a o) = s_fin s. Proof. now destruct o. Qed.
Lemma owe_reason s a o : s_reason (owe s a o) = s_reason s. Proof. now destruct o. Qed.
Lemma owe_late s a o : s_late (owe s a o) = if o then a :: s_late s else s_late s. Proof. now destruct o. Qed.

(* one handled event: the fields of the new state *)
Record upd_spec (s s' : st) (e : event) (g' : gtab) (b' : bst) (owed : bool) : Prop := {
  us_img : s_img s' = ev_img e (s_img s);
  us_ph : s_ph s' = s_ph s;
  us_g : s_g s' = g';
  us_thr : s_thr s' = s_thr s;
  us_cb : s_cb s' = s_cb s;
  us_b : s_b s' = b';
  us_late : s_late s' = late_after (s_late s) e owed;
  us_fin : s_fin s' = s_fin s }.

(* the sequence events of the current block *)
Inductive seq_trans (bs : bshape) (b : bst) (e : event) (bi q : nat) : sst -> sst -> Prop :=
| ST_launch r : e = EvWrite (OSeq bi q) Running 0 false r -> b_ph b = BSeqs -> launch_guard bs b = true ->
                seq_trans bs b e bi q SIdle (SRun 0 AIdle)
| ST_terminal st r v : e = EvWrite (OSeq bi q) st 0 false r -> st = verdict_status v ->
                seq_trans bs b e bi q (SPend v) (SDone v)
| ST_action j a x i : ev_aref e = Some (ASeq bi q i) -> s_idle x = false -> s_done x = false ->
                seq_trans bs b e bi q (SRun j a) x.

Inductive hcase (sh : shape) (s : st) (e : event) (s' : st) : Prop :=
| HC_plan_chk g op x owed :
    chk_op e = Some (SPlan, g, op) ->
    g_apply (grp_get (sh_groups sh) g) (p_may_start s g) (ist (s_img s) (OChecks SPlan g)) (ev_cell s e)
            (tget (s_g s) g) op = Some (x, owed) ->
    (forall a, e = EvStart a -> owes (s_late s) a = false) ->
    upd_spec s s' e (tset (s_g s) g x) (s_b s) owed ->
    s_reason s' = s_reason s -> hcase sh s e s'
| HC_block_chk b bs g op x owed :
    chk_op e = Some (SBlock b, g, op) -> cur_block sh s b = Some bs ->
    g_apply (grp_get (bs_groups bs) g) (b_may_start (s_b s) g) (ist (s_img s) (OChecks (SBlock b) g)) (ev_cell s e)
            (tget (b_g (s_b s)) g) op = Some (x, owed) ->
    (forall a, e = EvStart a -> owes (s_late s) a = false) ->
    upd_spec s s' e (s_g s) (b_with_g (s_b s) (tset (b_g (s_b s)) g x)) owed ->
    s_reason s' = s_reason s -> hcase sh s e s'
| HC_seq b bs q sq sq' owed :
    cur_block sh s b = Some bs -> nth_error (b_seqs (s_b s)) q = Some sq ->
    seq_trans bs (s_b s) e b q sq sq' ->
    upd_spec s s' e (s_g s) (b_with_seqs (s_b s) (upd (b_seqs (s_b s)) q sq')) owed ->
    s_reason s' = s_reason s -> hcase sh s e s'
| HC_block_write b bs stt r :
    e = EvWrite (OBlock b) stt 0 false r -> cur_block sh s b = Some bs -> b_write (s_b s) stt = Some (s_b s) ->
    upd_spec s s' e (s_g s) (s_b s) false ->
    s_reason s' = s_reason s -> hcase sh s e s'
| HC_plan_write stt r :
    e = EvWrite OPlan stt 0 false r -> p_write sh s stt r = Some s ->
    upd_spec s s' e (s_g s) (s_b s) false -> s_reason s' = r -> hcase sh s e s'
| HC_late a l :
    e = EvEnd a OOverrun -> remove_one a (s_late s) = Some l ->
    s_img s' = s_img s -> s_ph s' = s_ph s -> s_g s' = s_g s -> s_thr s' = s_thr s -> s_cb s' = s_cb s ->
    s_b s' = s_b s -> s_late s' = l -> s_fin s' = s_fin s -> s_reason s' = s_reason s -> hcase sh s e s'
| HC_read snap : e = EvRead snap -> s' = s -> hcase sh s e s'
| HC_release fin :
    e = EvRelease fin -> s_ph s = PEnd -> is_terminal (ist (s_img s) OPlan) = true ->
    image_agrees (all_objs sh) (s_img s) (s_reason s) fin = true ->
    s_img s' = s_img s -> s_ph s' = PReleased -> s_g s' = s_g s -> s_thr s' = s_thr s -> s_cb s' = s_cb s ->
    s_b s' = s_b s -> s_late s' = s_late s -> s_reason s' = s_reason s -> hcase sh s e s'.

Lemma cur_block_spec sh s b bs :
  cur_block sh s b = Some bs -> s_ph s = PBlocks /\ b = s_cb s /\ block_of sh b = Some bs.
Proof.
  unfold cur_block. destruct (pphase_eqb (s_ph s) PBlocks) eqn:P; simpl; [|discriminate].
  destruct (Nat.eqb b (s_cb s)) eqn:E; [|discriminate]. intro H. apply Nat.eqb_eq in E.
  destruct (s_ph s); try discriminate P. auto.
Qed.

Lemma remove_one_incl a l l' : remove_one a l = Some l' -> forall x, In x l' -> In x l.
Proof.
  revert l'; induction l as [|y l IH]; simpl; intros l' H x Hx; [discriminate|].
  destruct (aref_eqb y a).
  - injection H as <-. now right.
  - destruct (remove_one a l) as [r|]; [|discriminate]. injection H as <-.
    destruct Hx as [->|Hx]; [now left|right; eauto].
Qed.

(* ---- sequence functions: the sequence is running before, and neither idle nor done after ---- *)
Lemma s_mark_run sq i sq' : s_mark sq i = Some sq' -> exists j a, sq = SRun j a /\ s_idle sq' = false /\ s_done sq' = false.
Proof.
  destruct sq as [|j a|v|v]; simpl; try discriminate. destruct (Nat.eqb i j); [|discriminate].
  destruct (a_mark a); simpl; [|discriminate]. intro H. injection H as <-. eauto.
Qed.
Lemma s_start_run sq i d sq' : s_start sq i d = Some sq' -> exists j a, sq = SRun j a /\ s_idle sq' = false /\ s_done sq' = false.
Proof.
  destruct sq as [|j a|v|v]; simpl; try discriminate. destruct (Nat.eqb i j); [|discriminate].
  destruct (a_start a d); simpl; [|discriminate]. intro H. injection H as <-. eauto.
Qed.
Lemma s_end_run sq i o sq' : s_end sq i o = Some sq' -> exists j a, sq = SRun j a /\ s_idle sq' = false /\ s_done sq' = false.
Proof.
  destruct sq as [|j a|v|v]; simpl; try discriminate. destruct (Nat.eqb i j); [|discriminate].
  destruct (a_end a o); simpl; [|discriminate]. intro H. injection H as <-. eauto.
Qed.
Lemma s_attempt_run rs sq i n ok sq' owed :
  s_attempt rs sq i n ok = Some (sq', owed) -> exists j a, sq = SRun j a /\ s_idle sq' = false /\ s_done sq' = false.
Proof.
  destruct sq as [|j a|v|v]; simpl; try discriminate. destruct (nth_error rs i); [|discriminate].
  destruct (Nat.eqb i j); [|discriminate].
  destruct (a_attempt n0 a n ok) as [[a' ow]|]; [|discriminate]. intro H. injection H as <- _. eauto.
Qed.
Lemma s_final_run rs sq i st n ok sq' :
  s_final rs sq i st n ok = Some sq' -> exists j a, sq = SRun j a /\ s_idle sq' = false /\ s_done sq' = false.
Proof.
  destruct sq as [|j a|v|v]; simpl; try discriminate. destruct (Nat.eqb i j); [|discriminate].
  destruct (a_final a st n ok) as [[]|]; try discriminate.
  destruct v.
  - destruct (S j <? length rs); intro H; injection H as <-; eauto.
  - intro H; injection H as <-; eauto.
Qed.

Lemma b_seq_upd_spec b q f b' :
  b_seq_upd b q f = Some b' ->
  exists sq sq', nth_error (b_seqs b) q = Some sq /\ f sq = Some sq' /\ b' = b_with_seqs b (upd (b_seqs b) q sq').
Proof.
  unfold b_seq_upd. destruct (nth_error (b_seqs b) q) as [sq|]; [|discriminate].
  destruct (f sq) as [sq'|] eqn:E; [|discriminate]. intro H. injection H as <-. eauto.
Qed.

Lemma with_b_same s : with_b s (s_b s) = s.
Proof. destruct s; reflexivity. Qed.

Ltac mk_spec :=
  constructor; cbn;
  rewrite ?owe_img, ?owe_ph, ?owe_g, ?owe_thr, ?owe_cb, ?owe_b, ?owe_late, ?owe_fin, ?owe_reason;
  try reflexivity.

Ltac no_start := let a := fresh "a" in let E := fresh "E" in intros a E; try discriminate E.

(* the sub-automaton part of an End *)
Lemma h_end_sub_cases sh s a o s' :
  h_end_sub sh s a o = Some s' -> hcase sh s (EvEnd a o) s'.
Proof.
  unfold h_end_sub. destruct a as [[|b] g i|b q i].
  - unfold p_chk_end. destruct (g_end (tget (s_g s) g) i o) as [x|] eqn:E; [|discriminate].
    intro H. injection H as <-.
    eapply (HC_plan_chk _ _ _ _ g (OpEnd i o) x false); [reflexivity| |no_start| |reflexivity].
    + cbn [g_apply]. now rewrite E.
    + mk_spec.
  - destruct (cur_block sh s b) as [bs|] eqn:C; [|discriminate]. unfold b_chk_end.
    destruct (g_end (tget (b_g (s_b s)) g) i o) as [x|] eqn:E; [|discriminate]. simpl.
    intro H. injection H as <-.
    eapply (HC_block_chk _ _ _ _ b bs g (OpEnd i o) x false); [reflexivity|exact C| |no_start| |reflexivity].
    + cbn [g_apply]. now rewrite E.
    + mk_spec.
  - destruct (cur_block sh s b) as [bs|] eqn:C; [|discriminate]. unfold b_act_end.
    destruct (b_seq_upd (s_b s) q (fun q0 => s_end q0 i o)) as [b'|] eqn:E; [|discriminate]. simpl.
    intro H. injection H as <-.
    destruct (b_seq_upd_spec _ _ _ _ E) as (sq & sq' & En & Ef & ->).
    destruct (s_end_run _ _ _ _ Ef) as (j & a & -> & I1 & I2).
    eapply (HC_seq _ _ _ _ b bs q _ sq' false); [exact C|exact En| | |reflexivity].
    + eapply ST_action; eauto. reflexivity.
    + mk_spec.
Qed.

Lemma h_start_cases sh s a s' :
  h_start sh s a = Some s' -> hcase sh s (EvStart a) s'.
Proof.
  unfold h_start. destruct (owes (s_late s) a) eqn:Ow; [discriminate|].
  assert (NS : forall a0, EvStart a = EvStart a0 -> owes (s_late s) a0 = false).
  { intros a0 E. injection E as <-. exact Ow. }
  destruct a as [[|b] g i|b q i].
  - unfold p_chk_start.
    destruct (g_start (tget (s_g s) g) i (iget (s_img s) (OAct (AChk SPlan g i)))) as [x|] eqn:E; [|discriminate].
    intro H. injection H as <-.
    eapply (HC_plan_chk _ _ _ _ g (OpStart i) x false); [reflexivity| |exact NS| |reflexivity].
    + cbn [g_apply ev_cell]. now rewrite E.
    + mk_spec.
  - destruct (cur_block sh s b) as [bs|] eqn:C; [|discriminate]. unfold b_chk_start.
    destruct (g_start (tget (b_g (s_b s)) g) i (iget (s_img s) (OAct (AChk (SBlock b) g i)))) as [x|] eqn:E; [|discriminate].
    simpl. intro H. injection H as <-.
    eapply (HC_block_chk _ _ _ _ b bs g (OpStart i) x false); [reflexivity|exact C| |exact NS| |reflexivity].
    + cbn [g_apply ev_cell]. now rewrite E.
    + mk_spec.
  - destruct (cur_block sh s b) as [bs|] eqn:C; [|discriminate]. unfold b_act_start.
    destruct (b_seq_upd (s_b s) q (fun q0 => s_start q0 i (iget (s_img s) (OAct (ASeq b q i))))) as [b'|] eqn:E; [|discriminate].
    simpl. intro H. injection H as <-.
    destruct (b_seq_upd_spec _ _ _ _ E) as (sq & sq' & En & Ef & ->).
    destruct (s_start_run _ _ _ _ Ef) as (j & a & -> & I1 & I2).
    eapply (HC_seq _ _ _ _ b bs q _ sq' false); [exact C|exact En| | |reflexivity].
    + eapply ST_action; eauto. reflexivity.
    + mk_spec.
Qed.

(* the write of an action *)
Lemma h_write_act_cases sh s a stt n ok r s1 :
  h_write_act sh s a stt n ok = Some s1 ->
  hcase sh s (EvWrite (OAct a) stt n ok r) (put s1 (OAct a) stt n ok).
Proof.
  unfold h_write_act. destruct stt; try discriminate.
  - (* Running *)
    destruct n as [|n].
    + destruct ok; [discriminate|]. destruct a as [[|b] g i|b q i].
      * unfold p_chk_mark. destruct (grp_get (sh_groups sh) g) as [rs|] eqn:G; [|discriminate].
        destruct (g_mark rs (p_may_start s g) (ist (s_img s) (OChecks SPlan g)) (tget (s_g s) g) i) as [x|] eqn:E; [|discriminate].
        intro H. injection H as <-.
        eapply (HC_plan_chk _ _ _ _ g (OpMark i) x false); [reflexivity| |no_start| |reflexivity].
        -- cbn [g_apply]. now rewrite G, E.
        -- mk_spec.
      * destruct (cur_block sh s b) as [bs|] eqn:C; [|discriminate]. unfold b_chk_mark.
        destruct (grp_get (bs_groups bs) g) as [rs|] eqn:G; [|discriminate].
        destruct (g_mark rs (b_may_start (s_b s) g) (ist (s_img s) (OChecks (SBlock b) g)) (tget (b_g (s_b s)) g) i) as [x|] eqn:E; [|discriminate].
        simpl. intro H. injection H as <-.
        eapply (HC_block_chk _ _ _ _ b bs g (OpMark i) x false); [reflexivity|exact C| |no_start| |reflexivity].
        -- cbn [g_apply]. now rewrite G, E.
        -- mk_spec.
      * destruct (cur_block sh s b) as [bs|] eqn:C; [|discriminate]. unfold b_act_mark.
        destruct (b_seq_upd (s_b s) q (fun q0 => s_mark q0 i)) as [b'|] eqn:E; [|discriminate].
        simpl. intro H. injection H as <-.
        destruct (b_seq_upd_spec _ _ _ _ E) as (sq & sq' & En & Ef & ->).
        destruct (s_mark_run _ _ _ Ef) as (j & a & -> & I1 & I2).
        eapply (HC_seq _ _ _ _ b bs q _ sq' false); [exact C|exact En| | |reflexivity].
        -- eapply ST_action; eauto. reflexivity.
        -- mk_spec.
    + destruct a as [[|b] g i|b q i].
      * unfold p_chk_attempt. destruct (grp_get (sh_groups sh) g) as [rs|] eqn:G; [|discriminate].
        destruct (g_attempt rs (tget (s_g s) g) i (S n) ok) as [[x owed]|] eqn:E; [|discriminate].
        intro H. injection H as <-.
        eapply (HC_plan_chk _ _ _ _ g (OpAttempt i (S n) ok) x owed); [reflexivity| |no_start| |].
        -- cbn [g_apply]. now rewrite G, E.
        -- mk_spec.
        -- cbn. now rewrite owe_reason.
      * destruct (cur_block sh s b) as [bs|] eqn:C; [|discriminate]. unfold b_chk_attempt.
        destruct (grp_get (bs_groups bs) g) as [rs|] eqn:G; [|discriminate].
        destruct (g_attempt rs (tget (b_g (s_b s)) g) i (S n) ok) as [[x owed]|] eqn:E; [|discriminate].
        intro H. injection H as <-.
        eapply (HC_block_chk _ _ _ _ b bs g (OpAttempt i (S n) ok) x owed); [reflexivity|exact C| |no_start| |].
        -- cbn [g_apply]. now rewrite G, E.
        -- mk_spec.
        -- cbn. now rewrite owe_reason.
      * destruct (cur_block sh s b) as [bs|] eqn:C; [|discriminate]. unfold b_act_attempt.
        destruct (nth_error (b_seqs (s_b s)) q) as [sq|] eqn:En; [|discriminate].
        destruct (nth_error (bs_seqs bs) q) as [rs|]; [|discriminate].
        destruct (s_attempt rs sq i (S n) ok) as [[sq' owed]|] eqn:Ef; [|discriminate].
        intro H. injection H as <-.
        destruct (s_attempt_run _ _ _ _ _ _ _ Ef) as (j & a & -> & I1 & I2).
        eapply (HC_seq _ _ _ _ b bs q _ sq' owed); [exact C|exact En| | |].
        -- eapply ST_action; eauto. reflexivity.
        -- mk_spec.
        -- cbn. now rewrite owe_reason.
  - (* Completed *)
    destruct a as [[|b] g i|b q i].
    + unfold p_chk_final. destruct (g_final (tget (s_g s) g) i Completed n ok) as [x|] eqn:E; [|discriminate].
      intro H. injection H as <-.
      eapply (HC_plan_chk _ _ _ _ g (OpFinal i Completed n ok) x false); [reflexivity| |no_start| |reflexivity].
      * cbn [g_apply]. now rewrite E.
      * mk_spec.
    + destruct (cur_block sh s b) as [bs|] eqn:C; [|discriminate]. unfold b_chk_final.
      destruct (g_final (tget (b_g (s_b s)) g) i Completed n ok) as [x|] eqn:E; [|discriminate].
      simpl. intro H. injection H as <-.
      eapply (HC_block_chk _ _ _ _ b bs g (OpFinal i Completed n ok) x false); [reflexivity|exact C| |no_start| |reflexivity].
      * cbn [g_apply]. now rewrite E.
      * mk_spec.
    + destruct (cur_block sh s b) as [bs|] eqn:C; [|discriminate]. unfold b_act_final.
      destruct (nth_error (bs_seqs bs) q) as [rs|]; [|discriminate].
      destruct (b_seq_upd (s_b s) q (fun q0 => s_final rs q0 i Completed n ok)) as [b'|] eqn:E; [|discriminate].
      simpl. intro H. injection H as <-.
      destruct (b_seq_upd_spec _ _ _ _ E) as (sq & sq' & En & Ef & ->).
      destruct (s_final_run _ _ _ _ _ _ _ Ef) as (j & a & -> & I1 & I2).
      eapply (HC_seq _ _ _ _ b bs q _ sq' false); [exact C|exact En| | |reflexivity].
      * eapply ST_action; eauto. reflexivity.
      * mk_spec.
  - (* Failed *)
    destruct a as [[|b] g i|b q i].
    + unfold p_chk_final. destruct (g_final (tget (s_g s) g) i Failed n ok) as [x|] eqn:E; [|discriminate].
      intro H. injection H as <-.
      eapply (HC_plan_chk _ _ _ _ g (OpFinal i Failed n ok) x false); [reflexivity| |no_start| |reflexivity].
      * cbn [g_apply]. now rewrite E.
      * mk_spec.
    + destruct (cur_block sh s b) as [bs|] eqn:C; [|discriminate]. unfold b_chk_final.
      destruct (g_final (tget (b_g (s_b s)) g) i Failed n ok) as [x|] eqn:E; [|discriminate].
      simpl. intro H. injection H as <-.
      eapply (HC_block_chk _ _ _ _ b bs g (OpFinal i Failed n ok) x false); [reflexivity|exact C| |no_start| |reflexivity].
      * cbn [g_apply]. now rewrite E.
      * mk_spec.
    + destruct (cur_block sh s b) as [bs|] eqn:C; [|discriminate]. unfold b_act_final.
      destruct (nth_error (bs_seqs bs) q) as [rs|]; [|discriminate].
      destruct (b_seq_upd (s_b s) q (fun q0 => s_final rs q0 i Failed n ok)) as [b'|] eqn:E; [|discriminate].
      simpl. intro H. injection H as <-.
      destruct (b_seq_upd_spec _ _ _ _ E) as (sq & sq' & En & Ef & ->).
      destruct (s_final_run _ _ _ _ _ _ _ Ef) as (j & a & -> & I1 & I2).
      eapply (HC_seq _ _ _ _ b bs q _ sq' false); [exact C|exact En| | |reflexivity].
      * eapply ST_action; eauto. reflexivity.
      * mk_spec.
Qed.

Lemma s_launch_spec sq sq' : s_launch sq = Some sq' -> sq = SIdle /\ sq' = SRun 0 AIdle.
Proof. destruct sq; simpl; try discriminate. intro H. injection H as <-. auto. Qed.

Lemma s_terminal_spec sq st sq' :
  s_terminal sq st = Some sq' -> exists v, sq = SPend v /\ sq' = SDone v /\ st = verdict_status v.
Proof.
  destruct sq as [|j a|v|v]; simpl; try discriminate.
  destruct (status_eqb st (if v then Completed else Failed)) eqn:E; [|discriminate].
  intro H. injection H as <-. apply status_eqb_eq in E. exists v. auto.
Qed.

Lemma b_write_same b stt b' : b_write b stt = Some b' -> b' = b.
Proof.
  unfold b_write. destruct stt; try discriminate.
  - destruct (bphase_eqb (b_ph b) BEnter); [|discriminate]. intro H. now injection H.
  - destruct (bphase_eqb (b_ph b) BEnd && negb (b_cause b) && negb (thr_live (b_thr b))); [|discriminate].
    intro H. now injection H.
  - destruct (b_cause b); [|discriminate]. intro H. now injection H.
Qed.

Lemma p_write_same sh s stt r s' : p_write sh s stt r = Some s' -> s' = s.
Proof.
  unfold p_write. destruct (s_ph s); try discriminate.
  - destruct (status_eqb stt Running && reason_eqb r FRUnknown); [|discriminate]. intro H. now injection H.
  - destruct (is_terminal stt && negb (is_terminal (ist (s_img s) OPlan))
              && status_eqb stt (fst (final sh (ist (s_img s)))) && reason_eqb r (snd (final sh (ist (s_img s)))));
      [|discriminate]. intro H. now injection H.
Qed.

Lemma h_write_obj_cases sh s o stt n ok r s1 :
  h_write_obj sh s o stt n ok r = Some s1 ->
  (match o with OAct _ => True | _ => n = 0 /\ ok = false end) ->
  hcase sh s (EvWrite o stt n ok r) (put s1 o stt n ok).
Proof.
  intros H Hn. destruct o as [|[|b] g|b|b q|a]; cbn [h_write_obj] in H.
  - (* OPlan *)
    destruct Hn as [-> ->]. destruct (p_write sh s stt r) as [s2|] eqn:E; [|discriminate].
    simpl in H. injection H as <-. pose proof (p_write_same _ _ _ _ _ E) as ->.
    eapply HC_plan_write; [reflexivity|exact E| |reflexivity]. mk_spec.
  - (* plan group verdict *)
    destruct Hn as [-> ->].
    assert (V : forall v, stt = verdict_status v -> p_chk_verdict s g stt = Some s1 ->
                hcase sh s (EvWrite (OChecks SPlan g) stt 0 false r) (put s1 (OChecks SPlan g) stt 0 false)).
    { intros v -> Hv. unfold p_chk_verdict in Hv.
      destruct (g_verdict (tget (s_g s) g) (verdict_status v)) as [x|] eqn:E; [|discriminate]. injection Hv as <-.
      eapply (HC_plan_chk _ _ _ _ g (OpVerdict (verdict_status v)) x false); [destruct v; reflexivity| |no_start| |reflexivity].
      - cbn [g_apply]. now rewrite E.
      - mk_spec. }
    destruct stt; try discriminate; [apply (V true)|apply (V false)]; auto.
  - (* block group verdict *)
    destruct Hn as [-> ->].
    assert (V : forall v bs, stt = verdict_status v -> cur_block sh s b = Some bs ->
                option_map (with_b s) (b_chk_verdict (s_b s) g stt) = Some s1 ->
                hcase sh s (EvWrite (OChecks (SBlock b) g) stt 0 false r) (put s1 (OChecks (SBlock b) g) stt 0 false)).
    { intros v bs -> C Hv. unfold b_chk_verdict in Hv.
      destruct (g_verdict (tget (b_g (s_b s)) g) (verdict_status v)) as [x|] eqn:E; [|discriminate].
      simpl in Hv. injection Hv as <-.
      eapply (HC_block_chk _ _ _ _ b bs g (OpVerdict (verdict_status v)) x false);
        [destruct v; reflexivity|exact C| |no_start| |reflexivity].
      - cbn [g_apply]. now rewrite E.
      - mk_spec. }
    destruct (cur_block sh s b) as [bs|] eqn:C; [|destruct stt; discriminate].
    destruct stt; try discriminate; [apply (V true bs)|apply (V false bs)]; auto.
  - (* block *)
    destruct Hn as [-> ->]. destruct (cur_block sh s b) as [bs|] eqn:C; [|discriminate].
    destruct (b_write (s_b s) stt) as [b'|] eqn:E; [|discriminate]. simpl in H. injection H as <-.
    pose proof (b_write_same _ _ _ E) as ->. rewrite with_b_same.
    eapply HC_block_write; [reflexivity|exact C|exact E| |reflexivity]. mk_spec.
  - (* sequence *)
    destruct Hn as [-> ->]. destruct (cur_block sh s b) as [bs|] eqn:C; [|discriminate].
    assert (T : forall v, stt = verdict_status v ->
                option_map (with_b s) (b_seq_terminal (s_b s) q stt) = Some s1 ->
                hcase sh s (EvWrite (OSeq b q) stt 0 false r) (put s1 (OSeq b q) stt 0 false)).
    { intros v -> Hv. unfold b_seq_terminal in Hv.
      destruct (b_seq_upd (s_b s) q (fun q0 => s_terminal q0 (verdict_status v))) as [b'|] eqn:E; [|discriminate].
      simpl in Hv. injection Hv as <-.
      destruct (b_seq_upd_spec _ _ _ _ E) as (sq & sq' & En & Ef & ->).
      destruct (s_terminal_spec _ _ _ Ef) as (v' & -> & -> & Ev).
      eapply (HC_seq _ _ _ _ b bs q _ _ false); [exact C|exact En| | |reflexivity].
      - eapply ST_terminal; [reflexivity|exact Ev].
      - mk_spec. }
    destruct stt; try discriminate; [|apply (T true)|apply (T false)]; auto.
    unfold b_seq_launch in H.
    destruct (bphase_eqb (b_ph (s_b s)) BSeqs) eqn:P; simpl in H; [|discriminate].
    destruct (launch_guard bs (s_b s)) eqn:L; [|discriminate].
    destruct (b_seq_upd (s_b s) q s_launch) as [b'|] eqn:E; [|discriminate]. simpl in H. injection H as <-.
    destruct (b_seq_upd_spec _ _ _ _ E) as (sq & sq' & En & Ef & ->).
    destruct (s_launch_spec _ _ Ef) as [-> ->].
    eapply (HC_seq _ _ _ _ b bs q _ _ false); [exact C|exact En| | |reflexivity].
    + eapply ST_launch; [reflexivity| |exact L]. destruct (b_ph (s_b s)); try discriminate P; reflexivity.
    + mk_spec.
  - apply h_write_act_cases. exact H.
Qed.

Theorem handle_cases sh s e s' : handle sh s e = Some s' -> hcase sh s e s'.
Proof.
  destruct e as [a|a o|o stt n ok r|snap|fin]; cbn [handle].
  - destruct (released s); [discriminate|]. apply h_start_cases.
  - unfold h_end. destruct (h_end_sub sh s a o) as [s1|] eqn:E.
    + intro H. injection H as <-. now apply h_end_sub_cases.
    + destruct o; try discriminate. destruct (remove_one a (s_late s)) as [l|] eqn:R; [|discriminate].
      simpl. intro H. injection H as <-. eapply HC_late; eauto.
  - destruct (released s); [discriminate|]. unfold h_write.
    destruct (negb (obj_in_shape sh o)); [discriminate|].
    assert (W : forall o, (match o with OAct _ => True | _ => n = 0 /\ ok = false end) ->
                option_map (fun s1 => put s1 o stt n ok) (h_write_obj sh s o stt n ok r) = Some s' ->
                hcase sh s (EvWrite o stt n ok r) s').
    { intros o0 Hn H. destruct (h_write_obj sh s o0 stt n ok r) as [s1|] eqn:E; [|discriminate].
      simpl in H. injection H as <-. apply h_write_obj_cases; auto. }
    destruct o as [|sc g|b|b q|a]; try (apply W; exact I);
      (destruct n; [|discriminate]; destruct ok; [discriminate|]; apply W; auto).
  - unfold h_read. destruct (s_fin s) as [f|].
    + destruct (images_agree (all_objs sh) f snap); [|discriminate]. intro H. injection H as <-.
      eapply HC_read; eauto.
    + intro H. injection H as <-. eapply HC_read; eauto.
  - unfold h_release.
    destruct (pphase_eqb (s_ph s) PEnd) eqn:P; simpl; [|discriminate].
    destruct (is_terminal (ist (s_img s) OPlan)) eqn:T; simpl; [|discriminate].
    destruct (image_agrees (all_objs sh) (s_img s) (s_reason s) fin) eqn:A; [|discriminate].
    intro H. injection H as <-.
    eapply HC_release; eauto. destruct (s_ph s); try discriminate P; reflexivity.
Qed.
