(* C07XInv - four reachable-state facts C07 needs beyond Inv.pinv:
     x_def    at the end of a plan that was not bypassed its deferred group, if any, HAS run;
     x_bdef   the same for the current block once it is in BEnd;
     x_post   if the plan's post group was skipped an earlier stage failed (pre, continuous, a block);
     x_reason the durable failure reason is the one finalStates computes.
   Proofs only. *)
From Coq Require Import Lia.
From Coercion.Base Require Import Plan.
From Coercion.Engine Require Import Shape Event Action ChecksRun Seq Block Final PlanSM Auto Accept AutoLemmas.
From Coercion.C07 Require Import MonC07 Groups Steps Tab Inv FinalFacts InvPlan C07Rel C07Eps.

Section XInv.
  Variable sh : shape.
  Variable s : st.

  Definition early_fail : Prop :=
    g_dead (t_pre (s_g s)) = true \/ g_dead (t_cont (s_g s)) = true
    \/ exists b, b < nblocks sh /\ ist (s_img s) (OBlock b) = Failed.

  Record xinv : Prop := {
    x_def : ended s -> ~ ptaken s -> ppres sh GDeferred = true -> t_deferred (s_g s) <> g0;
    x_post : s_ph s = PDeferred \/ ended s -> ~ ptaken s -> ppres sh GPost = true ->
             t_post (s_g s) = g0 -> early_fail;
    x_reason : ended s -> is_terminal (ist (s_img s) OPlan) = true ->
               s_reason s = snd (final sh (ist (s_img s)));
    x_bdef : s_ph s = PBlocks -> forall bs, block_of sh (s_cb s) = Some bs ->
             b_ph (s_b s) = BEnd -> ~ btaken (s_b s) -> bpres bs GDeferred = true ->
             t_deferred (b_g (s_b s)) <> g0 }.
End XInv.

Lemma xinv_init sh : xinv sh init.
Proof.
  constructor; unfold ended; simpl.
  - intros [Q|Q]; discriminate Q.
  - intros [Q|[Q|Q]]; discriminate Q.
  - intros [Q|Q]; discriminate Q.
  - discriminate.
Qed.

(* the fields of a state that only differ in late / fin *)
Lemma xinv_same sh s s' :
  s_img s' = s_img s -> s_ph s' = s_ph s -> s_g s' = s_g s -> s_cb s' = s_cb s -> s_b s' = s_b s ->
  s_reason s' = s_reason s -> xinv sh s -> xinv sh s'.
Proof.
  intros E1 E2 E3 E4 E5 E6 [X1 X2 X3 X4].
  constructor; unfold ended, ptaken, early_fail in *; rewrite ?E1, ?E2, ?E3, ?E4, ?E5, ?E6; auto.
Qed.

Lemma tget_tset_neq t g g' x : g <> g' -> tget (tset t g x) g' = tget t g'.
Proof. apply tget_tset_other. Qed.

Lemma dead_idle g : g_dead g = true -> g_is_idle g = true.
Proof. destruct g as [r [[|]|]|]; simpl; auto; discriminate. Qed.

(* a plan-level group operation outside the end phases *)
Lemma xinv_plan_chk sh s e s' g op x owed :
  pinv sh s -> xinv sh s ->
  chk_op e = Some (SPlan, g, op) ->
  g_apply (grp_get (sh_groups sh) g) (p_may_start s g) (ist (s_img s) (OChecks SPlan g)) (ev_cell s e)
          (tget (s_g s) g) op = Some (x, owed) ->
  upd_spec s s' e (tset (s_g s) g x) (s_b s) owed -> s_reason s' = s_reason s -> xinv sh s'.
Proof.
  intros P X Hc Ha U Er. destruct U as [Ui Up Ug Ut Uc Ub Ul Uf]. destruct X as [X1 X2 X3 X4].
  assert (NE : ~ ended s) by (intro En; eapply ended_no_plan_op; eauto).
  assert (Fr : forall b, ist (s_img s') (OBlock b) = ist (s_img s) (OBlock b)).
  { intro b. rewrite Ui. destruct (chk_op_img _ _ _ _ (s_img s) Hc) as [_ Io]. apply Io; [exact I|discriminate]. }
  constructor; unfold ended, ptaken, early_fail in *; rewrite ?Up, ?Uc, ?Ub.
  - intro En. exfalso. exact (NE En).
  - intros [Ph|En]; [|exfalso; exact (NE En)]. rewrite Ug. intros Nt Pp Ep.
    destruct (pi_tab _ _ P) as [A T]. rewrite Ph in T. cbn [pstage] in T. cbn zeta in T.
    destruct T as (Nb & Cp & Lc & Io & Od).
    (* which group moved: only the continuous (thread live) or the deferred group can *)
    assert (Al : g_is_idle (tget (s_g s) g) = true -> allowed SgDeferred (s_thr s) (s_g s) g).
    { intro Hi. pose proof (plan_not_idle _ _ _ _ _ _ _ Ha Hi) as Q. now rewrite Ph in Q. }
    destruct g; cbn [tget tset t_pre t_cont t_post t_bypass] in *.
    + exfalso. specialize (Al (not_taken_idle _ _ Nb)). destruct Al as [Q _]. discriminate Q.
    + exfalso. specialize (Al (closed_idle _ _ Cp)). destruct Al as [Q _]. discriminate Q.
    + (* continuous group: a dead group takes no operation; otherwise pre / blocks give the cause *)
      destruct (X2 (or_introl Ph) Nt Pp Ep) as [D|[D|(b & Lb & Fb)]].
      * left. exact D.
      * exfalso. refine (dead_no_op SgDeferred (s_thr s) (s_g s) GCont _ _ _ _ _ _ _ (pi_img _ _ P GCont) D _ Ha).
        intro M. pose proof (p_may_start_spec _ _ M) as Q. now rewrite Ph in Q.
      * right. right. exists b. split; [exact Lb|]. now rewrite Fr.
    + exfalso. specialize (Al (idle_once_idle _ Io)). destruct Al as [Q _]. discriminate Q.
    + destruct (X2 (or_introl Ph) Nt Pp Ep) as [D|[D|(b & Lb & Fb)]]; [now left|now right; left|].
      right. right. exists b. split; [exact Lb|]. now rewrite Fr.
  - intro En. exfalso. exact (NE En).
  - exact X4.
Qed.

(* a step inside the current block: only x_bdef is at stake *)
Lemma xinv_in_block sh s s' :
  s_ph s = PBlocks -> s_ph s' = PBlocks -> s_cb s' = s_cb s ->
  (forall bs, block_of sh (s_cb s) = Some bs -> b_ph (s_b s') = BEnd -> ~ btaken (s_b s') ->
              bpres bs GDeferred = true -> t_deferred (b_g (s_b s')) <> g0) ->
  xinv sh s'.
Proof.
  intros Ph Ph' Ec Hb. constructor; unfold ended; rewrite ?Ph', ?Ec.
  - intros [Q|Q]; discriminate Q.
  - intros [Q|[Q|Q]]; discriminate Q.
  - intros [Q|Q]; discriminate Q.
  - intros _. exact Hb.
Qed.

Lemma xinv_handle sh s e s' : pinv sh s -> xinv sh s -> handle sh s e = Some s' -> xinv sh s'.
Proof.
  intros P X H.
  destruct (handle_cases _ _ _ _ H) as
    [g op x owed Hc Ha _ U Er|b bs g op x owed Hc Cb Ha _ U _|b bs q sq sq' owed Cb Hq Ht U _
    |b bs stt r -> Cb Hw U _|stt r -> Hw U Hr|a l -> Hl E1 E2 E3 E4 E5 E6 _ _ Er|snap -> ->
    |fin -> Ph Tm Ag E1 E2 E3 E4 E5 E6 _ Er].
  - eapply xinv_plan_chk; eauto.
  - destruct (cur_block_spec _ _ _ _ Cb) as (Ph & Eb & Hb). destruct U as [Ui Up Ug Ut Uc Ub Ul Uf].
    apply (xinv_in_block sh s); auto; [congruence|].
    intros bs' Hb' Be Nt Pd. rewrite <- Eb, Hb in Hb'. injection Hb' as <-.
    rewrite Ub in *. cbn [b_ph b_g b_with_g] in *.
    pose proof (pi_block _ _ P Ph) as Bn. rewrite <- Eb, Hb in Bn.
    destruct (grp_eqb g GDeferred) eqn:Gd.
    + apply grp_eqb_eq in Gd. subst g. cbn [tset t_deferred]. eapply g_apply_not_fresh; eauto.
    + assert (Ne : g <> GDeferred) by (intro Q; subst g; discriminate Gd).
      assert (Ed : t_deferred (tset (b_g (s_b s)) g x) = t_deferred (b_g (s_b s))).
      { change (tget (tset (b_g (s_b s)) g x) GDeferred = tget (b_g (s_b s)) GDeferred). now apply tget_tset_other. }
      rewrite Ed. apply (x_bdef _ _ X Ph bs); auto; [congruence|].
      intro Bt. apply Nt. unfold btaken in *. cbn [b_g b_with_g].
      destruct (grp_eqb g GBypass) eqn:Gb.
      * apply grp_eqb_eq in Gb. subst g. exfalso.
        assert (Hi : g_is_idle (tget (b_g (s_b s)) GBypass) = true) by (cbn [tget]; now rewrite Bt).
        pose proof (b_may_start_spec _ _ (op_on_idle _ _ _ _ _ _ _ _ Ha Hi)) as Al.
        rewrite Be in Al. destruct Al as [Q _]. discriminate Q.
      * assert (Nb : g <> GBypass) by (intro Q; subst g; discriminate Gb).
        change (tget (tset (b_g (s_b s)) g x) GBypass = GIdle 1 (Some true)). now rewrite tget_tset_other.
  - destruct (cur_block_spec _ _ _ _ Cb) as (Ph & Eb & Hb). destruct U as [Ui Up Ug Ut Uc Ub Ul Uf].
    apply (xinv_in_block sh s); auto; [congruence|]. rewrite Ub. cbn [b_ph b_g b_with_seqs]. unfold btaken. cbn [b_g b_with_seqs].
    intros bs'. apply (x_bdef _ _ X Ph).
  - destruct (cur_block_spec _ _ _ _ Cb) as (Ph & Eb & Hb). destruct U as [Ui Up Ug Ut Uc Ub Ul Uf].
    apply (xinv_in_block sh s); auto; [congruence|]. rewrite Ub. intros bs'. apply (x_bdef _ _ X Ph).
  - (* the plan's own status *)
    destruct U as [Ui Up Ug Ut Uc Ub Ul Uf]. destruct X as [X1 X2 X3 X4].
    assert (Fr : forall o, o <> OPlan -> ist (s_img s') o = ist (s_img s) o).
    { intros o Ne. rewrite Ui. simpl. rewrite ist_iset, obj_eqb_neq; auto. }
    constructor; unfold ended, ptaken, early_fail in *; rewrite ?Up, ?Ug, ?Uc, ?Ub.
    + exact X1.
    + intros Q Nt Pp Ep. destruct (X2 Q Nt Pp Ep) as [D|[D|(b & Lb & Fb)]]; [now left|now right; left|].
      right. right. exists b. split; [exact Lb|]. rewrite Fr by discriminate. exact Fb.
    + intros En _. rewrite Hr.
      unfold p_write in Hw. destruct (s_ph s) eqn:Ph; try discriminate Hw; try (destruct En as [Q|Q]; discriminate Q).
      destruct (is_terminal stt && negb (is_terminal (ist (s_img s) OPlan))
                && status_eqb stt (fst (final sh (ist (s_img s)))) && reason_eqb r (snd (final sh (ist (s_img s))))) eqn:G;
        [|discriminate].
      apply andb_true_iff in G as [_ G]. apply reason_eqb_eq in G.
      transitivity (snd (final sh (ist (s_img s)))); [exact G|]. apply f_equal. apply final_ext; intros; symmetry; apply Fr; discriminate.
    + exact X4.
  - eapply xinv_same; eauto.
  - exact X.
  - (* release *)
    destruct X as [X1 X2 X3 X4].
    constructor; unfold ended, ptaken, early_fail in *; rewrite ?E1, ?E2, ?E3, ?E5, ?E6, ?Er.
    + intros _. apply X1. now left.
    + intros _. apply X2. right. now left.
    + intros _. apply X3. now left.
    + discriminate.
Qed.

(* ---- epsilon-moves ---- *)
Ltac xvac := constructor; unfold ended; cbn; try match goal with P : s_ph _ = _ |- _ => rewrite ?P end;
  try (intros [Q|Q]; discriminate Q); try (intros [Q|[Q|Q]]; discriminate Q); try discriminate.

Lemma once_done_present g dst x v : once_done true g dst = Some (x, v) -> exists r, x = GIdle (S r) (Some v).
Proof. intro H. now destruct (once_done_settle _ _ _ _ _ H) as [_ E]. Qed.

Lemma once_done_false p g dst x : once_done p g dst = Some (x, false) -> p = true /\ g_dead x = true.
Proof.
  intro H. destruct (once_done_settle _ _ _ _ _ H) as [_ E]. destruct p.
  - destruct E as [r ->]. auto.
  - destruct E as [_ Q]. discriminate Q.
Qed.

Lemma g_settle_idle g dst x : g_is_idle g = true -> g_settle g dst = Some x -> x = g.
Proof. destruct g; simpl; [intros _ H; now injection H|discriminate]. Qed.

(* the current block goes on *)
Lemma xb_stay bs im bi pd pvis b b' :
  binv bs im bi pd b ->
  (b_ph b = BEnd -> ~ btaken b -> bpres bs GDeferred = true -> t_deferred (b_g b) <> g0) ->
  b_eps bs im bi pvis b = Some (BStay b') ->
  b_ph b' = BEnd -> ~ btaken b' -> bpres bs GDeferred = true -> t_deferred (b_g b') <> g0.
Proof.
  intros Bn X4. destruct Bn as [Bimg Btab _ _ _ _ _ _]. unfold b_eps, btaken. destruct (b_ph b) eqn:Ph.
  - destruct (status_eqb (ist im (OBlock bi)) Running); [|discriminate]. intro H. injection H as <-. discriminate.
  - cbn [bstage] in Btab. destruct Btab as [_ (Ob & _)].
    destruct (g_bypass (bs_groups bs)).
    + destruct (once_done true (t_bypass (b_g b)) (ist im (OChecks (SBlock bi) GBypass))) as [[x v]|] eqn:Od; [|discriminate].
      destruct (once_done_gonce _ _ _ _ (Bimg GBypass) Ob Od) as [E ->]. cbn [tget] in E.
      destruct v; intro H; injection H as <-; cbn; [|discriminate].
      intros _ Nt. now elim Nt.
    + intro H. injection H as <-. discriminate.
  - destruct (once_done (present (g_pre (bs_groups bs))) (t_pre (b_g b)) (ist im (OChecks (SBlock bi) GPre))) as [[x v1]|]; [|discriminate].
    destruct (once_done (present (g_cont (bs_groups bs))) (t_cont (b_g b)) (ist im (OChecks (SBlock bi) GCont))) as [[y v2]|]; [|discriminate].
    destruct (v1 && v2); intro H; injection H as <-; discriminate.
  - destruct (negb (Nat.eqb (inflight b) 0)); [discriminate|].
    destruct (exceeded bs b); [intro H; injection H as <-; discriminate|].
    destruct (all_started b); [intro H; injection H as <-; discriminate|].
    destruct (pvis || thr_live (b_thr b) && g_dead (t_cont (b_g b))); [|discriminate].
    intro H; injection H as <-; discriminate.
  - destruct (once_done (present (g_post (bs_groups bs))) (t_post (b_g b)) (ist im (OChecks (SBlock bi) GPost))) as [[x v]|]; [|discriminate].
    intro H; injection H as <-; discriminate.
  - destruct (once_done (present (g_deferred (bs_groups bs))) (t_deferred (b_g b)) (ist im (OChecks (SBlock bi) GDeferred))) as [[x v]|] eqn:Od; [|discriminate].
    intro H; injection H as <-. cbn. intros _ _ Pd. unfold bpres in Pd. cbn in Pd. rewrite Pd in Od.
    destruct (once_done_present _ _ _ _ Od) as [r ->]. discriminate.
  - destruct (thr_live (b_thr b)).
    + destruct (g_settle (t_cont (b_g b)) (ist im (OChecks (SBlock bi) GCont))) as [x|]; [|discriminate].
      intro H; injection H as <-. cbn. intros _. apply X4. reflexivity.
    + destruct (status_eqb (ist im (OBlock bi)) (if b_cause b then Failed else Completed)); discriminate.
Qed.

Lemma xinv_eps sh s s1 : pinv sh s -> xinv sh s -> eps sh s = Some s1 -> xinv sh s1.
Proof.
  intros P X H. pose proof X as [X1 X2 X3 X4].
  assert (Run : ~ ended s -> is_terminal (ist (s_img s) OPlan) = false) by exact (pi_running _ _ P).
  destruct (pi_tab _ _ P) as [A T].
  unfold eps, p_eps in H. destruct (s_ph s) eqn:Ph; cbn [pstage] in T; cbn zeta in T.
  - destruct (status_eqb (ist (s_img s) OPlan) Running); [|discriminate]. injection H as <-. xvac.
  - (* PBypass *)
    destruct T as (Ob & _).
    destruct (g_bypass (sh_groups sh)).
    + destruct (once_done true (t_bypass (s_g s)) (ist (s_img s) (OChecks SPlan GBypass))) as [[x v]|] eqn:Od; [|discriminate].
      destruct (once_done_gonce _ _ _ _ (pi_img _ _ P GBypass) Ob Od) as [E ->]. cbn [tget] in E.
      destruct v; injection H as <-; [|xvac].
      constructor; unfold ended, ptaken; cbn.
      * intros _ Nt. now elim Nt.
      * intros _ Nt. now elim Nt.
      * intros _ Tm. rewrite Run in Tm; [discriminate|]. unfold ended. rewrite Ph. intros [Q|Q]; discriminate Q.
      * discriminate.
    + injection H as <-. xvac.
  - (* PPre *)
    destruct (once_done (present (g_pre (sh_groups sh))) (t_pre (s_g s)) (ist (s_img s) (OChecks SPlan GPre))) as [[x v1]|] eqn:O1; [|discriminate].
    destruct (once_done (present (g_cont (sh_groups sh))) (t_cont (s_g s)) (ist (s_img s) (OChecks SPlan GCont))) as [[y v2]|] eqn:O2; [|discriminate].
    destruct (v1 && v2) eqn:V; injection H as <-.
    + match goal with |- xinv _ (with_ph (enter_block ?sh ?s0 0) _) =>
        destruct (enter_block_all sh s0 0) as (E1 & E2 & E3 & E4 & E5 & E6 & E7 & E8) end.
      constructor; unfold ended; cbn [s_img s_reason s_g s_ph s_cb s_b with_ph];
        try (intros [Q|Q]; discriminate Q); try (intros [Q|[Q|Q]]; discriminate Q).
      intros _ bs Hb. rewrite E8. rewrite E7 in Hb. unfold block_start. rewrite Hb. discriminate.
    + constructor; unfold ended, ptaken, early_fail; cbn; try (intros [Q|Q]; discriminate Q); try discriminate.
      intros _ _ _ _. apply andb_false_iff in V as [V|V]; subst.
      * left. now destruct (once_done_false _ _ _ _ O1).
      * right. left. now destruct (once_done_false _ _ _ _ O2).
  - (* PBlocks *)
    destruct (block_of sh (s_cb s)) as [bs|] eqn:Hb.
    + pose proof (pi_block _ _ P Ph) as Bn. rewrite Hb in Bn.
      destruct (b_eps bs (s_img s) (s_cb s) (p_visible s) (s_b s)) as [[b'|[|]]|] eqn:Be; [| | |discriminate];
        injection H as <-.
      * apply (xinv_in_block sh s); auto. cbn. intros bs' Hb'. rewrite Hb in Hb'. injection Hb' as <-.
        eapply xb_stay; eauto.
      * destruct (b_eps_finished _ _ _ _ _ _ Be) as (_ & _ & Ef & Ei). rewrite <- Ef in Ei.
        constructor; unfold ended, ptaken, early_fail; cbn; try (intros [Q|Q]; discriminate Q); try discriminate.
        intros _ _ _ _. right. right. exists (s_cb s). split; [eapply block_of_lt; eauto|exact Ei].
      * destruct (enter_block_all sh s (S (s_cb s))) as (E1 & E2 & E3 & E4 & E5 & E6 & E7 & E8).
        constructor; unfold ended; rewrite ?E6, ?Ph;
          try (intros [Q|Q]; discriminate Q); try (intros [Q|[Q|Q]]; discriminate Q).
        intros _ bs' Hb'. rewrite E8. rewrite E7 in Hb'. unfold block_start. rewrite Hb'. discriminate.
    + injection H as <-. xvac.
  - (* PPost *)
    destruct (thr_live (s_thr s)).
    + destruct (g_settle (t_cont (s_g s)) (ist (s_img s) (OChecks SPlan GCont))) as [x|] eqn:Gs; [|discriminate].
      injection H as <-. destruct (g_dead x) eqn:D; [|xvac].
      constructor; unfold ended, ptaken, early_fail; cbn; try (intros [Q|Q]; discriminate Q); try discriminate.
      intros _ _ _ _. right. left. exact D.
    + destruct (once_done (present (g_post (sh_groups sh))) (t_post (s_g s)) (ist (s_img s) (OChecks SPlan GPost))) as [[x v]|] eqn:Od; [|discriminate].
      injection H as <-.
      constructor; unfold ended, ptaken, early_fail; cbn; try (intros [Q|Q]; discriminate Q); try discriminate.
      intros _ _ Pp Ep. unfold ppres in Pp. cbn in Pp. rewrite Pp in Od.
      destruct (once_done_present _ _ _ _ Od) as [r ->]. discriminate Ep.
  - (* PDeferred *)
    destruct (thr_live (s_thr s)).
    + destruct (g_settle (t_cont (s_g s)) (ist (s_img s) (OChecks SPlan GCont))) as [x|] eqn:Gs; [|discriminate].
      injection H as <-.
      constructor; unfold ended, ptaken, early_fail in *; cbn; rewrite ?Ph; try (intros [Q|Q]; discriminate Q); try discriminate.
      intros _ Nt Pp Ep. destruct (X2 (or_introl eq_refl) Nt Pp Ep) as [D|[D|B]]; [now left| |now right; right].
      right. left. rewrite (g_settle_idle _ _ _ (dead_idle _ D) Gs). exact D.
    + destruct (once_done (present (g_deferred (sh_groups sh))) (t_deferred (s_g s)) (ist (s_img s) (OChecks SPlan GDeferred))) as [[x v]|] eqn:Od; [|discriminate].
      injection H as <-.
      constructor; unfold ended, ptaken, early_fail in *; cbn.
      * intros _ _ Pd. unfold ppres in Pd. cbn in Pd. rewrite Pd in Od.
        destruct (once_done_present _ _ _ _ Od) as [r ->]. discriminate.
      * intros _ Nt Pp Ep. exact (X2 (or_introl eq_refl) Nt Pp Ep).
      * intros _ Tm. rewrite Run in Tm; [discriminate|]. unfold ended. rewrite Ph. intros [Q|Q]; discriminate Q.
      * discriminate.
  - discriminate.
  - discriminate.
Qed.

(* ---- both invariants hold in every reachable state ---- *)
Definition ainv (sh : shape) (s : st) : Prop := pinv sh s /\ xinv sh s.

Lemma ainv_eps sh s s1 : ainv sh s -> eps sh s = Some s1 -> ainv sh s1.
Proof. intros [P X] H. split; [eapply pinv_eps; eauto|eapply xinv_eps; eauto]. Qed.
Lemma ainv_handle sh s e s' : ainv sh s -> handle sh s e = Some s' -> ainv sh s'.
Proof. intros [P X] H. split; [eapply pinv_handle; eauto|eapply xinv_handle; eauto]. Qed.

Theorem ainv_step sh s e s' : ainv sh s -> step sh s e = Some s' -> ainv sh s'.
Proof. apply (step_inv (ainv sh) sh); [apply ainv_eps|apply ainv_handle]. Qed.

Theorem ainv_reach sh tr s : run sh init tr = Some s -> ainv sh s.
Proof.
  intro H. eapply (run_inv (ainv sh) sh); [apply ainv_step| |exact H].
  split; [apply pinv_init|apply xinv_init].
Qed.
