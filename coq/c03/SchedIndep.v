(* C03, schedule independence of the block verdict at the level of the observable automaton:
   with an action-determined oracle (every sequence's outcome fixed in advance by [fails]) and no failing check,
   the block's deciding write is Failed iff the sequences that would fail exceed the tolerance - whatever the
   schedule (order of launches, completions, interleaving with everything else). *)
From Coq Require Import Lia.
From Coercion.Base Require Import Plan.
From Coercion.Engine Require Import Shape Event Action ChecksRun Seq Block Final PlanSM Auto Accept AutoLemmas.
From Coercion.C03 Require Import MonC03 C03Lemmas InvC03 InvC03Proofs MonC03Proofs.

(* number of sequences among 0 .. n-1 that would fail *)
Definition would_fail (fails : nat -> bool) (n : nat) : nat := length (filter fails (seq 0 n)).

(* ---------- a second invariant: before the sequences nothing has started; after them (without a cause)
   either every sequence is done or none was started (bypassed block) ---------- *)
Definition J (b : bst) : Prop :=
  (b_early (b_ph b) = true -> forallb s_idle (b_seqs b) = true) /\
  (after_seqs (b_ph b) = true -> b_cause b = false ->
   forallb s_done (b_seqs b) = true \/ forallb s_idle (b_seqs b) = true).

Lemma done_of_started l :
  forallb (fun s => negb (s_idle s)) l = true -> count s_inflight l = 0 -> forallb s_done l = true.
Proof.
  induction l as [|x l IH]; [reflexivity|]. simpl. rewrite count_cons. intros H Hc.
  apply andb_true_iff in H as [Hx H]. destruct x; simpl in *; try discriminate; try lia.
  apply IH; [exact H|lia].
Qed.

Section Sched.
Variable sh : shape.

Lemma J_entry cb : J (entry sh cb).
Proof.
  unfold entry. destruct (block_of sh cb) as [bs|]; split; simpl; try discriminate; intros _.
  - induction (length (bs_seqs bs)); simpl; auto.
  - reflexivity.
Qed.

Lemma J_eps bs im cb pvis b b' : J b -> b_eps bs im cb pvis b = Some (BStay b') -> J b'.
Proof.
  intros [J1 J2]. unfold b_eps. destruct (b_ph b) eqn:Eph; spec J1; spec J2.
  - destruct (status_eqb _ _); [|discriminate]. intro H; injection H as <-. split; bsimpl; auto; discriminate.
  - destruct (g_bypass (bs_groups bs)).
    + destruct (once_done true _ _) as [[x [|]]|]; try discriminate; intro H; injection H as <-; split; bsimpl; auto; discriminate.
    + intro H; injection H as <-. split; bsimpl; auto; discriminate.
  - destruct (once_done _ (t_pre (b_g b)) _) as [[x v1]|]; [|discriminate].
    destruct (once_done _ (t_cont (b_g b)) _) as [[y v2]|]; [|discriminate].
    destruct (v1 && v2); intro H; injection H as <-; split; bsimpl; auto; discriminate.
  - destruct (negb (Nat.eqb (inflight b) 0)) eqn:Ei; [discriminate|].
    apply negb_false_iff in Ei. apply Nat.eqb_eq in Ei.
    destruct (exceeded bs b).
    + intro H; injection H as <-. split; bsimpl; auto; discriminate.
    + destruct (all_started b) eqn:Ea.
      * intro H; injection H as <-. split; bsimpl; [discriminate|]. intros _ _. left.
        apply done_of_started; assumption.
      * destruct (_ || _); [|discriminate]. intro H; injection H as <-. split; bsimpl; auto; discriminate.
  - destruct (once_done _ (t_post (b_g b)) _) as [[x v]|]; [|discriminate].
    intro H; injection H as <-. split; bsimpl; [discriminate|]. intros _ A. apply orb_false_iff in A as [A _]. auto.
  - destruct (once_done _ (t_deferred (b_g b)) _) as [[x v]|]; [|discriminate].
    intro H; injection H as <-. split; bsimpl; [discriminate|]. intros _ A. apply orb_false_iff in A as [A _]. auto.
  - destruct (thr_live (b_thr b)).
    + destruct (g_settle _ _) as [x|]; [|discriminate]. intro H; injection H as <-. split; bsimpl; rewrite ?Eph; [discriminate|].
      intros _ A. apply orb_false_iff in A as [A _]. auto.
    + destruct (status_eqb _ _); discriminate.
Qed.

Lemma J_phase b b' :
  b_ph b' = b_ph b -> b_cause b' = b_cause b -> b_seqs b' = b_seqs b -> J b -> J b'.
Proof. intros E1 E2 E3 [J1 J2]. split; rewrite E1, ?E2, E3; assumption. Qed.

Lemma J_bseqs b l : b_ph b = BSeqs -> J (b_with_seqs b l).
Proof. intro E. split; bsimpl; rewrite E; discriminate. Qed.

Lemma seq_phase s bs q y :
  Inv sh s -> in_block sh s bs -> nth_error (b_seqs (s_b s)) q = Some y -> s_inflight y = true -> b_ph (s_b s) = BSeqs.
Proof.
  intros [_ HBk] [Eph Hbs] Hq Hy. destruct HBk as [[C E]|(bs' & Hbs' & HB)].
  - exfalso. rewrite (E Eph) in Hq. apply entry_seqs_idle in Hq. subst y. discriminate.
  - eapply inflight_phase; eauto.
Qed.

Lemma J_trans s e s' : Inv sh s -> J (s_b s) -> trans sh s e s' -> J (s_b s').
Proof.
  intros HI HJ T.
  destruct T as [g i e w x Hev Hx s' Hc|g st r x Hx s' Hc|bs g i e w x Hin Hev Hx s' Hc|bs g st r x Hin Hx s' Hc
                |bs q i e w y y' Hin Hev Hq Hy s' Hc|bs q r Hin Hp Hg Hq s' Hc|bs q v r Hin Hq s' Hc|bs st r Hin Hw s' Hc
                |st r Hw s' Hc|a s' Hc| |fin Hp Ht Ha s' Hc];
    try (destruct Hc as (_ & _ & _ & _ & _ & ->)); try exact HJ.
  - apply J_bseqs. destruct Hy as [Hy _]. eapply seq_phase; eauto.
  - apply J_bseqs. exact Hp.
  - apply J_bseqs. eapply seq_phase; eauto.
Qed.

Lemma J_peps s s1 : J (s_b s) -> eps sh s = Some s1 -> J (s_b s1).
Proof.
  intros HJ. unfold eps, p_eps. destruct (s_ph s).
  - destruct (status_eqb _ _); [|discriminate]. intro H; injection H as <-. exact HJ.
  - destruct (g_bypass (sh_groups sh)).
    + destruct (once_done true _ _) as [[x [|]]|]; try discriminate; intro H; injection H as <-; exact HJ.
    + intro H; injection H as <-. exact HJ.
  - destruct (once_done _ (t_pre (s_g s)) _) as [[x v1]|]; [|discriminate].
    destruct (once_done _ (t_cont (s_g s)) _) as [[y v2]|]; [|discriminate].
    destruct (v1 && v2); intro H; injection H as <-.
    + match goal with |- context [enter_block sh ?s0 0] =>
        destruct (enter_block_proj sh s0 0) as (_ & _ & _ & _ & _ & Eb) end.
      ssimpl. rewrite Eb. apply J_entry.
    + exact HJ.
  - destruct (block_of sh (s_cb s)) as [bs|].
    + destruct (b_eps bs (s_img s) (s_cb s) (p_visible s) (s_b s)) as [[b'|[|]]|] eqn:Eb; try discriminate;
        intro H; injection H as <-.
      * ssimpl. eapply J_eps; eauto.
      * exact HJ.
      * destruct (enter_block_proj sh s (S (s_cb s))) as (_ & _ & _ & _ & _ & Ebb). rewrite Ebb. apply J_entry.
    + intro H; injection H as <-. exact HJ.
  - destruct (thr_live (s_thr s)).
    + destruct (g_settle _ _) as [x|]; [|discriminate]. intro H; injection H as <-. destruct (g_dead x); exact HJ.
    + destruct (once_done _ _ _) as [[x v]|]; [|discriminate]. intro H; injection H as <-. exact HJ.
  - destruct (thr_live (s_thr s)).
    + destruct (g_settle _ _) as [x|]; [|discriminate]. intro H; injection H as <-. exact HJ.
    + destruct (once_done _ _ _) as [[x v]|]; [|discriminate]. intro H; injection H as <-. exact HJ.
  - discriminate.
  - discriminate.
Qed.

Definition Inv2 (s : st) : Prop := Inv sh s /\ J (s_b s).

Lemma Inv2_run tr s : run sh init tr = Some s -> Inv2 s.
Proof.
  apply (run_inv Inv2 sh).
  - apply (step_inv Inv2 sh).
    + intros s0 s1 [HI HJ] He. split; [eapply eps_inv; eauto|eapply J_peps; eauto].
    + intros s0 e s1 [HI HJ] Hh. pose proof (handle_trans sh _ _ _ Hh) as T.
      split; [eapply trans_inv; eauto|eapply J_trans; eauto].
  - split; [apply Inv_init|]. split; simpl; auto.
Qed.

Lemma eps_star_R s s0 m : eps_star sh s s0 -> R sh s m -> R sh s0 m.
Proof. intro H. induction H; intro HR; [exact HR|]. apply IHeps_star. eapply eps_R; eauto. Qed.

Lemma eps_star_J s s0 : eps_star sh s s0 -> J (s_b s) -> J (s_b s0).
Proof. intro H. induction H; intro HJ; [exact HJ|]. apply IHeps_star. eapply J_peps; eauto. Qed.

Lemma cnt_le_filter fails l : forall k,
  (forall q, nth_error l q = Some QFail -> fails (k + q) = true) ->
  cnt q_fail l <= length (filter fails (seq k (length l))).
Proof.
  induction l as [|x l IH]; intros k H; simpl; [lia|].
  assert (Ht : cnt q_fail l <= length (filter fails (seq (S k) (length l)))).
  { apply IH. intros q Hq. replace (S k + q) with (k + S q) by lia. apply H. exact Hq. }
  destruct x; simpl; try (destruct (fails k); simpl; lia).
  rewrite <- (Nat.add_0_r k) at 1. rewrite (H 0 eq_refl). simpl. lia.
Qed.

Lemma cnt_eq_filter fails l : forall k,
  (forall q x, nth_error l q = Some x -> (x = QFail /\ fails (k + q) = true) \/ (x = QOk /\ fails (k + q) = false)) ->
  cnt q_fail l = length (filter fails (seq k (length l))).
Proof.
  induction l as [|x l IH]; intros k H; simpl; [reflexivity|].
  assert (Ht : cnt q_fail l = length (filter fails (seq (S k) (length l)))).
  { apply IH. intros q y Hq. replace (S k + q) with (k + S q) by lia. apply H. exact Hq. }
  destruct (H 0 x eq_refl) as [[-> Hf]|[-> Hf]]; rewrite Nat.add_0_r in Hf; rewrite Hf; simpl; lia.
Qed.

Lemma done_abs l q x : forallb s_done l = true -> nth_error (map abs l) q = Some x -> x = QOk \/ x = QFail.
Proof.
  intros H Hq. rewrite nth_map_abs in Hq. destruct (nth_error l q) as [y|] eqn:E; [|discriminate].
  injection Hq as <-. pose proof (forallb_nth _ _ _ _ H E) as Hy. destruct y as [| | |[|]]; simpl in *; try discriminate; auto.
Qed.

Lemma idle_abs l q x : forallb s_idle l = true -> nth_error (map abs l) q = Some x -> x = QNot.
Proof.
  intros H Hq. rewrite nth_map_abs in Hq. destruct (nth_error l q) as [y|] eqn:E; [|discriminate].
  injection Hq as <-. pose proof (forallb_nth _ _ _ _ H E) as Hy. destruct y; simpl in *; try discriminate; auto.
Qed.

Theorem c03_block_verdict_schedule_independent_l
  tr c st n ok r s m bs (fails : nat -> bool) :
  run sh init (tr ++ [EvWrite (OBlock c) st n ok r]) = Some s ->
  mon_run sh m0 tr = Some m -> m_cur m = Some c -> m_bst m = Running -> st = Completed \/ st = Failed ->
  block_of sh c = Some bs ->
  (forall q, nth_error (m_seqs m) q = Some QFail -> fails q = true) ->
  (forall q, nth_error (m_seqs m) q = Some QOk -> fails q = false) ->
  m_chk m = false -> m_pcont m = false ->
  (exists q x, nth_error (m_seqs m) q = Some x /\ x <> QNot) ->
  (st = Failed <-> (0 <= bs_tol bs)%Z /\ (bs_tol bs < Z.of_nat (would_fail fails (length (bs_seqs bs))))%Z).
Proof.
  intros Hrun Hmon Hcur Hbst Hst Hbs Hf1 Hf2 Hchk Hpc (q0 & x0 & Hq0 & Hx0).
  rewrite run_app in Hrun. destruct (run sh init tr) as [s1|] eqn:Hr1; [|discriminate].
  simpl in Hrun. destruct (step sh s1 (EvWrite (OBlock c) st n ok r)) as [s2|] eqn:Hstep; [|discriminate].
  destruct (run_R sh tr s1 Hr1) as (m1 & Hm1 & HR1). assert (m1 = m) by congruence. subst m1.
  pose proof (Inv2_run tr s1 Hr1) as [_ HJ1].
  destruct (step_spec _ _ _ _ Hstep) as [(s0 & Hs & Hh)|[_ Hstut]].
  2: { (* a stutter would repeat Running *)
       exfalso. destruct HR1 as [_ HRel]. pose proof (r_mem _ _ _ _ _ _ _ HRel c Hcur) as HM.
       unfold stutter in Hstut. apply andb_true_iff in Hstut as [Hstut _]. apply andb_true_iff in Hstut as [_ Hc].
       unfold cell_eqb in Hc. apply andb_true_iff in Hc as [Hc _]. apply andb_true_iff in Hc as [Hc _].
       apply status_eqb_eq in Hc. simpl in Hc. rewrite (me_bst _ _ _ _ HM) in Hbst. unfold ist in Hbst.
       destruct Hst; congruence. }
  pose proof (eps_star_R _ _ _ Hs HR1) as [HI HRel]. pose proof (eps_star_J _ _ Hs HJ1) as [_ HJ].
  pose proof (handle_trans sh _ _ _ Hh) as T.
  inversion T as [g i e w x Hev Hx s' Hc|g st' r' x Hx s' Hc|bs' g i e w x Hin Hev Hx s' Hc|bs' g st' r' x Hin Hx s' Hc
                 |bs' q i e w y y' Hin Hev Hq Hy s' Hc|bs' q r' Hin Hp Hg Hq s' Hc|bs' q v r' Hin Hq s' Hc|bs' st' r' Hin Hw s' Hc
                 |st' r' Hw s' Hc|a s' Hc| |fin Hp Ht Ha s' Hc]; subst;
    try match goal with H : act_event _ (EvWrite (OBlock _) _ _ _ _) _ |- _ => inversion H end.
  (* the block write *)
  destruct Hin as [Eph Hbs'].
  assert (bs' = bs) by congruence. subst bs'.
  unfold Rel in HRel. pose proof HRel as [R1 R2 R3 R4 R5].
  assert (HS : Sync sh (s_img s0) (s_ph s0) (s_cb s0) (s_b s0) m).
  { destruct R5 as [HS|(_ & _ & A)]; [exact HS|]. rewrite Hcur in A. destruct A as [A _]. lia. }
  destruct (sync_binv _ _ _ _ _ _ _ HI HRel HS) as (bs' & Hbs'' & HB). assert (bs' = bs) by congruence. subst bs'.
  pose proof (sy_seqs _ _ _ _ _ _ HS) as Hseqs.
  assert (Hlen : length (m_seqs m) = length (bs_seqs bs)).
  { rewrite Hseqs, map_length. apply (bi_len _ _ _ _ HB). }
  assert (Hle : n_failed m <= would_fail fails (length (bs_seqs bs))).
  { unfold n_failed, would_fail. rewrite <- Hlen. apply cnt_le_filter. intros q Hq. simpl. auto. }
  destruct (b_write_spec _ _ Hw) as [[-> _]|[[-> Hcz]|(-> & Hp & Hcz & Hl)]].
  - destruct Hst; discriminate.
  - (* Failed: the only possible cause is the tolerance *)
    split; [intros _|reflexivity].
    destruct (sy_cause _ _ _ _ _ _ HS Hcz bs Hbs) as [A|[A|A]]; [|congruence|congruence].
    unfold exceeded_m in A. apply andb_true_iff in A as [A1 A2]. apply Z.leb_le in A1. apply Z.ltb_lt in A2. lia.
  - (* Completed: every sequence ran, so the failures are exactly the would-fail sequences *)
    split; [discriminate|]. intros [A1 A2]. exfalso.
    destruct (HJ (eq_trans (f_equal after_seqs Hp) eq_refl) Hcz) as [Hd|Hi].
    + assert (He : n_failed m = would_fail fails (length (bs_seqs bs))).
      { unfold n_failed, would_fail. rewrite <- Hlen. apply cnt_eq_filter. intros q x Hq. simpl.
        rewrite Hseqs in Hq. destruct (done_abs _ _ _ Hd Hq) as [-> | ->]; rewrite <- Hseqs in Hq; [right|left]; auto. }
      pose proof (bi_exc _ _ _ _ HB (eq_trans (f_equal after_seqs Hp) eq_refl) Hcz) as Hx.
      rewrite <- (exceeded_sync _ _ _ Hseqs) in Hx. unfold exceeded_m in Hx. rewrite He in Hx.
      apply andb_false_iff in Hx as [Hx|Hx]; [apply Z.leb_gt in Hx|apply Z.ltb_ge in Hx]; lia.
    + rewrite Hseqs in Hq0. apply Hx0. eapply idle_abs; eauto.
Qed.

End Sched.
