(* Reachable-state invariants of the observable engine automaton needed by C03, and the abstract view of the
   handlers ([trans]) on which the invariant and the product relation are proved.  Automaton only: the
   monitor's state does not occur here (MonC03 is imported for [counts] / [obj_block] only). *)
From Coq Require Import Lia.
From Coercion.Base Require Import Plan.
From Coercion.Engine Require Import Shape Event Action ChecksRun Seq Block Final PlanSM Auto Accept AutoLemmas.
From Coercion.C03 Require Import MonC03 C03Lemmas.

(* ---------- small facts ---------- *)
Lemma ist_iset_same im o c : ist (iset im o c) o = c_st c.
Proof. unfold ist. now rewrite iget_iset_same. Qed.
Lemma ist_iset_other im o o' c : o <> o' -> ist (iset im o c) o' = ist im o'.
Proof. intro H. unfold ist. now rewrite iget_iset_other. Qed.

Lemma bphase_eqb_eq a b : bphase_eqb a b = true <-> a = b.
Proof. destruct a, b; simpl; split; intro H; try reflexivity; discriminate H. Qed.
Lemma pphase_eqb_eq a b : pphase_eqb a b = true <-> a = b.
Proof. destruct a, b; simpl; split; intro H; try reflexivity; discriminate H. Qed.
Lemma bphase_eq_dec (a b : bphase) : {a = b} + {a <> b}.
Proof. decide equality. Qed.
Lemma pphase_eq_dec (a b : pphase) : {a = b} + {a <> b}.
Proof. decide equality. Qed.

Definition sst_status (x : sst) : status :=
  match x with SIdle => NotStarted | SRun _ _ | SPend _ => Running | SDone v => verdict_status v end.

Lemma inflight_status x : s_inflight x = true -> sst_status x = Running.
Proof. destruct x; simpl; try discriminate; reflexivity. Qed.
Lemma inflight_not_failed x : s_inflight x = true -> s_failed x = false.
Proof. destruct x; simpl; try discriminate; reflexivity. Qed.
Lemma inflight_not_idle x : s_inflight x = true -> x <> SIdle.
Proof. destruct x; simpl; try discriminate; congruence. Qed.

Definition early (p : pphase) : bool := match p with PStart | PBypass | PPre => true | _ => false end.
Definition mid (p : pphase) : bool := match p with PStart | PEnd | PReleased => false | _ => true end.
Definition ph_of (g : grp) : bphase :=
  match g with GBypass => BBypass | GPre | GCont => BPre | GPost => BPost | GDeferred => BDeferred end.
Definition before_def (p : bphase) : bool := match p with BDeferred | BEnd => false | _ => true end.
Definition after_seqs (p : bphase) : bool := match p with BPost | BDeferred | BEnd => true | _ => false end.
Definition b_early (p : bphase) : bool := match p with BEnter | BBypass | BPre => true | _ => false end.

Definition cellsfree (im : dimg) (b : nat) : Prop := forall o, obj_block o = Some b -> iget im o = cell0.
Definition future (im : dimg) (cb : nat) : Prop := forall o b, obj_block o = Some b -> cb < b -> iget im o = cell0.

Section Inv.
Variable sh : shape.

Definition entry (cb : nat) : bst := match block_of sh cb with Some bs => b_init bs | None => b_none end.
Definition p_byp (im : dimg) : Prop := g_bypass (sh_groups sh) <> None -> ist im (OChecks SPlan GBypass) = Failed.

(* ---------- the block that is running ---------- *)
Record BInv (bs : bshape) (im : dimg) (cb : nat) (b : bst) : Prop := {
  bi_len : length (b_seqs b) = length (bs_seqs bs);
  bi_early : b_early (b_ph b) = true -> failed_seqs b = 0;
  bi_quiet : b_ph b <> BSeqs -> inflight b = 0;
  bi_cause : before_def (b_ph b) = true -> b_cause b = false;
  bi_exc : after_seqs (b_ph b) = true -> b_cause b = false -> exceeded bs b = false;
  bi_tol : (bs_tol bs < 0)%Z \/ (Z.of_nat (failed_seqs b + inflight b) <= bs_tol bs + Z.of_nat (bs_conc bs))%Z;
  bi_gidle : forall g, counts g = true -> g_is_idle (tget (b_g b) g) = false ->
             b_ph b = ph_of g \/ (g = GCont /\ b_thr b = TLive);
  bi_gdead : forall g, counts g = true -> g_dead (tget (b_g b) g) = true ->
             b_cause b = true \/ b_ph b = ph_of g \/ (g = GCont /\ b_thr b = TLive);
  bi_gwf : forall g, gwf (tget (b_g b) g);
  bi_absent : forall g, grp_get (bs_groups bs) g = None -> tget (b_g b) g = g0;
  bi_bimg_f : ist im (OBlock cb) = Failed -> b_cause b = true;
  bi_bimg_c : ist im (OBlock cb) = Completed -> b_ph b = BEnd /\ b_cause b = false /\ thr_live (b_thr b) = false;
  bi_bimg_s : ist im (OBlock cb) <> Stopped;
  bi_bimg_n : ist im (OBlock cb) = NotStarted -> b_ph b = BEnter;
  bi_simg : forall q x, nth_error (b_seqs b) q = Some x -> ist im (OSeq cb q) = sst_status x;
  bi_aimg : forall q i, nth_error (b_seqs b) q = Some SIdle -> ist im (OAct (ASeq cb q i)) = NotStarted }.

(* ---------- the plan level ---------- *)
Record PInv (im : dimg) (ph : pphase) (G : gtab) (cb : nat) : Prop := {
  pi_bidle : ph <> PBypass \/ g_bypass (sh_groups sh) = None -> g_is_idle (t_bypass G) = true;
  pi_bimg : g_last (t_bypass G) = Some false -> ist im (OChecks SPlan GBypass) = Failed;
  pi_plan : mid ph = true -> ist im OPlan = Running;
  pi_early : early ph = true -> cb = 0 /\ cellsfree im 0;
  pi_fut : future im cb;
  pi_byp : ph = PPre \/ ph = PBlocks -> p_byp im }.

(* the current block has not been entered (nothing of it written), or its invariant holds *)
Definition BlockInv (im : dimg) (ph : pphase) (cb : nat) (b : bst) : Prop :=
  (cellsfree im cb /\ (ph = PBlocks -> b = entry cb)) \/ (exists bs, block_of sh cb = Some bs /\ BInv bs im cb b).

Definition InvC (im : dimg) (ph : pphase) (G : gtab) (cb : nat) (b : bst) : Prop :=
  PInv im ph G cb /\ BlockInv im ph cb b.
Definition Inv (s : st) : Prop := InvC (s_img s) (s_ph s) (s_g s) (s_cb s) (s_b s).

(* ---------- the handlers, abstractly ---------- *)
Definition is_core (s' : st) (im : dimg) (ph : pphase) (G : gtab) (t : thr) (cb : nat) (b : bst) : Prop :=
  s_img s' = im /\ s_ph s' = ph /\ s_g s' = G /\ s_thr s' = t /\ s_cb s' = cb /\ s_b s' = b.

Definition mkcell (st : status) (n : nat) (ok : bool) : cell := {| c_st := st; c_n := n; c_ok := ok |}.

(* events of an action (Start, End, writes of the action object) *)
Inductive act_event (a : aref) : event -> option cell -> Prop :=
| AE_start : act_event a (EvStart a) None
| AE_end o : act_event a (EvEnd a o) None
| AE_write st n ok r : act_event a (EvWrite (OAct a) st n ok r) (Some (mkcell st n ok)).

Definition img_after (im : dimg) (o : obj) (w : option cell) : dimg :=
  match w with Some c => iset im o c | None => im end.

Definition in_block (s : st) (bs : bshape) : Prop := s_ph s = PBlocks /\ block_of sh (s_cb s) = Some bs.

Inductive trans (s : st) : event -> st -> Prop :=
| T_pg g i e w x :
    act_event (AChk SPlan g i) e w ->
    grun (tget (s_g s) g) x \/ (gopen (p_may_start s g) (tget (s_g s) g) x /\ grp_get (sh_groups sh) g <> None) ->
    forall s', is_core s' (img_after (s_img s) (OAct (AChk SPlan g i)) w) (s_ph s) (tset (s_g s) g x) (s_thr s) (s_cb s) (s_b s) ->
    trans s e s'
| T_pv g st r x :
    gclose st (tget (s_g s) g) x ->
    forall s', is_core s' (iset (s_img s) (OChecks SPlan g) (mkcell st 0 false)) (s_ph s) (tset (s_g s) g x) (s_thr s) (s_cb s) (s_b s) ->
    trans s (EvWrite (OChecks SPlan g) st 0 false r) s'
| T_bg bs g i e w x :
    in_block s bs ->
    act_event (AChk (SBlock (s_cb s)) g i) e w ->
    grun (tget (b_g (s_b s)) g) x \/ (gopen (b_may_start (s_b s) g) (tget (b_g (s_b s)) g) x /\ grp_get (bs_groups bs) g <> None) ->
    forall s', is_core s' (img_after (s_img s) (OAct (AChk (SBlock (s_cb s)) g i)) w) (s_ph s) (s_g s) (s_thr s) (s_cb s)
                       (b_with_g (s_b s) (tset (b_g (s_b s)) g x)) ->
    trans s e s'
| T_bv bs g st r x :
    in_block s bs ->
    gclose st (tget (b_g (s_b s)) g) x ->
    forall s', is_core s' (iset (s_img s) (OChecks (SBlock (s_cb s)) g) (mkcell st 0 false)) (s_ph s) (s_g s) (s_thr s) (s_cb s)
                       (b_with_g (s_b s) (tset (b_g (s_b s)) g x)) ->
    trans s (EvWrite (OChecks (SBlock (s_cb s)) g) st 0 false r) s'
| T_sq bs q i e w y y' :
    in_block s bs ->
    act_event (ASeq (s_cb s) q i) e w ->
    nth_error (b_seqs (s_b s)) q = Some y -> srun y y' ->
    forall s', is_core s' (img_after (s_img s) (OAct (ASeq (s_cb s) q i)) w) (s_ph s) (s_g s) (s_thr s) (s_cb s)
                       (b_with_seqs (s_b s) (upd (b_seqs (s_b s)) q y')) ->
    trans s e s'
| T_sl bs q r :
    in_block s bs ->
    b_ph (s_b s) = BSeqs -> launch_guard bs (s_b s) = true ->
    nth_error (b_seqs (s_b s)) q = Some SIdle ->
    forall s', is_core s' (iset (s_img s) (OSeq (s_cb s) q) (mkcell Running 0 false)) (s_ph s) (s_g s) (s_thr s) (s_cb s)
                       (b_with_seqs (s_b s) (upd (b_seqs (s_b s)) q (SRun 0 AIdle))) ->
    trans s (EvWrite (OSeq (s_cb s) q) Running 0 false r) s'
| T_st bs q v r :
    in_block s bs ->
    nth_error (b_seqs (s_b s)) q = Some (SPend v) ->
    forall s', is_core s' (iset (s_img s) (OSeq (s_cb s) q) (mkcell (verdict_status v) 0 false)) (s_ph s) (s_g s) (s_thr s) (s_cb s)
                       (b_with_seqs (s_b s) (upd (b_seqs (s_b s)) q (SDone v))) ->
    trans s (EvWrite (OSeq (s_cb s) q) (verdict_status v) 0 false r) s'
| T_bw bs st r :
    in_block s bs ->
    b_write (s_b s) st = Some (s_b s) ->
    forall s', is_core s' (iset (s_img s) (OBlock (s_cb s)) (mkcell st 0 false)) (s_ph s) (s_g s) (s_thr s) (s_cb s) (s_b s) ->
    trans s (EvWrite (OBlock (s_cb s)) st 0 false r) s'
| T_pw st r :
    (s_ph s = PStart /\ st = Running) \/
    (s_ph s = PEnd /\ is_terminal st = true /\ st = fst (final sh (ist (s_img s)))) ->
    forall s', is_core s' (iset (s_img s) OPlan (mkcell st 0 false)) (s_ph s) (s_g s) (s_thr s) (s_cb s) (s_b s) ->
    trans s (EvWrite OPlan st 0 false r) s'
| T_late a :
    forall s', is_core s' (s_img s) (s_ph s) (s_g s) (s_thr s) (s_cb s) (s_b s) ->
    trans s (EvEnd a OOverrun) s'
| T_read snap : trans s (EvRead snap) s
| T_rel fin :
    s_ph s = PEnd -> is_terminal (ist (s_img s) OPlan) = true ->
    image_agrees (all_objs sh) (s_img s) (s_reason s) fin = true ->
    forall s', is_core s' (s_img s) PReleased (s_g s) (s_thr s) (s_cb s) (s_b s) ->
    trans s (EvRelease fin) s'.

Lemma cur_block_spec s b bs : cur_block sh s b = Some bs -> b = s_cb s /\ in_block s bs.
Proof.
  unfold cur_block, in_block. destruct (pphase_eqb (s_ph s) PBlocks) eqn:E1; [|discriminate].
  destruct (Nat.eqb b (s_cb s)) eqn:E2; [|discriminate]. simpl.
  apply pphase_eqb_eq in E1. apply Nat.eqb_eq in E2. subst b. auto.
Qed.

Ltac core := repeat split; reflexivity.

Lemma b_seq_upd_spec b q f b' :
  b_seq_upd b q f = Some b' ->
  exists y y', nth_error (b_seqs b) q = Some y /\ f y = Some y' /\ b' = b_with_seqs b (upd (b_seqs b) q y').
Proof.
  unfold b_seq_upd. destruct (nth_error (b_seqs b) q) as [y|]; [|discriminate].
  destruct (f y) as [y'|] eqn:E; [|discriminate]. intro H; injection H as <-. eauto.
Qed.

Lemma h_start_trans s a s' : h_start sh s a = Some s' -> trans s (EvStart a) s'.
Proof.
  unfold h_start. destruct (owes (s_late s) a); [discriminate|].
  destruct a as [[|b] g i|b q i].
  - unfold p_chk_start. destruct (g_start _ _ _) as [x|] eqn:E; [|discriminate]. intro H; injection H as <-.
    eapply T_pg with (w := None); [constructor|left; eapply g_start_spec; eauto|core].
  - destruct (cur_block sh s b) as [bs|] eqn:Ec; [|discriminate]. destruct (cur_block_spec _ _ _ Ec) as [-> Hb].
    unfold b_chk_start. destruct (g_start _ _ _) as [x|] eqn:E; [|discriminate]. simpl. intro H; injection H as <-.
    eapply T_bg with (w := None); [exact Hb|constructor|left; eapply g_start_spec; eauto|core].
  - destruct (cur_block sh s b) as [bs|] eqn:Ec; [|discriminate]. destruct (cur_block_spec _ _ _ Ec) as [-> Hb].
    unfold b_act_start. destruct (b_seq_upd _ _ _) as [b'|] eqn:E; [|discriminate]. simpl. intro H; injection H as <-.
    destruct (b_seq_upd_spec _ _ _ _ E) as (y & y' & Hn & Hf & ->).
    eapply T_sq with (w := None); [exact Hb|constructor|exact Hn|eapply s_start_spec; eauto|core].
Qed.

Lemma h_end_trans s a o s' : h_end sh s a o = Some s' -> trans s (EvEnd a o) s'.
Proof.
  unfold h_end. destruct (h_end_sub sh s a o) as [s1|] eqn:E.
  - intro H; injection H as <-. unfold h_end_sub in E. destruct a as [[|b] g i|b q i].
    + unfold p_chk_end in E. destruct (g_end _ _ _) as [x|] eqn:Eg; [|discriminate]. injection E as <-.
      eapply T_pg with (w := None); [constructor|left; eapply g_end_spec; eauto|core].
    + destruct (cur_block sh s b) as [bs|] eqn:Ec; [|discriminate]. destruct (cur_block_spec _ _ _ Ec) as [-> Hb].
      unfold b_chk_end in E. destruct (g_end _ _ _) as [x|] eqn:Eg; [|discriminate]. simpl in E. injection E as <-.
      eapply T_bg with (w := None); [exact Hb|constructor|left; eapply g_end_spec; eauto|core].
    + destruct (cur_block sh s b) as [bs|] eqn:Ec; [|discriminate]. destruct (cur_block_spec _ _ _ Ec) as [-> Hb].
      unfold b_act_end in E. destruct (b_seq_upd _ _ _) as [b'|] eqn:Eq; [|discriminate]. simpl in E. injection E as <-.
      destruct (b_seq_upd_spec _ _ _ _ Eq) as (y & y' & Hn & Hf & ->).
      eapply T_sq with (w := None); [exact Hb|constructor|exact Hn|eapply s_end_spec; eauto|core].
  - destruct o; try discriminate. destruct (remove_one a (s_late s)); [|discriminate]. simpl.
    intro H; injection H as <-. apply T_late. core.
Qed.

Lemma is_core_put_owe s1 a owed o st n ok im ph G t cb b :
  is_core s1 im ph G t cb b -> is_core (put (owe s1 a owed) o st n ok) (iset im o (mkcell st n ok)) ph G t cb b.
Proof. intros (<- & <- & <- & <- & <- & <-). destruct owed; core. Qed.

Lemma is_core_put s1 o st n ok im ph G t cb b :
  is_core s1 im ph G t cb b -> is_core (put s1 o st n ok) (iset im o (mkcell st n ok)) ph G t cb b.
Proof. intros (<- & <- & <- & <- & <- & <-). core. Qed.

Lemma h_write_act_trans s a st n ok r s1 :
  h_write_act sh s a st n ok = Some s1 -> trans s (EvWrite (OAct a) st n ok r) (put s1 (OAct a) st n ok).
Proof.
  unfold h_write_act. destruct st; try discriminate.
  - (* Running *)
    destruct n as [|n].
    + destruct ok; [discriminate|]. destruct a as [[|b] g i|b q i].
      * unfold p_chk_mark. destruct (grp_get (sh_groups sh) g) as [rs|] eqn:Eg; [|discriminate].
        destruct (g_mark _ _ _ _ _) as [x|] eqn:E; [|discriminate]. intro H; injection H as <-.
        eapply T_pg with (w := Some _); [constructor| |apply is_core_put; core].
        destruct (g_mark_spec _ _ _ _ _ _ E) as [Hr|Ho]; [left; exact Hr|right; split; [exact Ho|congruence]].
      * destruct (cur_block sh s b) as [bs|] eqn:Ec; [|discriminate]. destruct (cur_block_spec _ _ _ Ec) as [-> Hb].
        unfold b_chk_mark. destruct (grp_get (bs_groups bs) g) as [rs|] eqn:Eg; [|discriminate].
        destruct (g_mark _ _ _ _ _) as [x|] eqn:E; [|discriminate]. simpl. intro H; injection H as <-.
        eapply T_bg with (w := Some _); [exact Hb|constructor| |apply is_core_put; core].
        destruct (g_mark_spec _ _ _ _ _ _ E) as [Hr|Ho]; [left; exact Hr|right; split; [exact Ho|congruence]].
      * destruct (cur_block sh s b) as [bs|] eqn:Ec; [|discriminate]. destruct (cur_block_spec _ _ _ Ec) as [-> Hb].
        unfold b_act_mark. destruct (b_seq_upd _ _ _) as [b'|] eqn:Eq; [|discriminate]. simpl. intro H; injection H as <-.
        destruct (b_seq_upd_spec _ _ _ _ Eq) as (y & y' & Hn & Hf & ->).
        eapply T_sq with (w := Some _); [exact Hb|constructor|exact Hn|eapply s_mark_spec; eauto|apply is_core_put; core].
    + destruct a as [[|b] g i|b q i].
      * unfold p_chk_attempt. destruct (grp_get (sh_groups sh) g) as [rs|]; [|discriminate].
        destruct (g_attempt _ _ _ _ _) as [[x owed]|] eqn:E; [|discriminate]. intro H; injection H as <-.
        eapply T_pg with (w := Some _); [constructor|left; eapply g_attempt_spec; eauto|apply is_core_put_owe; core].
      * destruct (cur_block sh s b) as [bs|] eqn:Ec; [|discriminate]. destruct (cur_block_spec _ _ _ Ec) as [-> Hb].
        unfold b_chk_attempt. destruct (grp_get (bs_groups bs) g) as [rs|]; [|discriminate].
        destruct (g_attempt _ _ _ _ _) as [[x owed]|] eqn:E; [|discriminate]. intro H; injection H as <-.
        eapply T_bg with (w := Some _); [exact Hb|constructor|left; eapply g_attempt_spec; eauto|apply is_core_put_owe; core].
      * destruct (cur_block sh s b) as [bs|] eqn:Ec; [|discriminate]. destruct (cur_block_spec _ _ _ Ec) as [-> Hb].
        unfold b_act_attempt. destruct (nth_error (b_seqs (s_b s)) q) as [y|] eqn:Hn; [|discriminate].
        destruct (nth_error (bs_seqs bs) q) as [rs|]; [|discriminate].
        destruct (s_attempt _ _ _ _ _) as [[y' owed]|] eqn:E; [|discriminate]. intro H; injection H as <-.
        eapply T_sq with (w := Some _); [exact Hb|constructor|exact Hn|eapply s_attempt_spec; eauto|apply is_core_put_owe; core].
  - (* Completed *)
    destruct a as [[|b] g i|b q i].
    + unfold p_chk_final. destruct (g_final _ _ _ _ _) as [x|] eqn:E; [|discriminate]. intro H; injection H as <-.
      eapply T_pg with (w := Some _); [constructor|left; eapply g_final_spec; eauto|apply is_core_put; core].
    + destruct (cur_block sh s b) as [bs|] eqn:Ec; [|discriminate]. destruct (cur_block_spec _ _ _ Ec) as [-> Hb].
      unfold b_chk_final. destruct (g_final _ _ _ _ _) as [x|] eqn:E; [|discriminate]. simpl. intro H; injection H as <-.
      eapply T_bg with (w := Some _); [exact Hb|constructor|left; eapply g_final_spec; eauto|apply is_core_put; core].
    + destruct (cur_block sh s b) as [bs|] eqn:Ec; [|discriminate]. destruct (cur_block_spec _ _ _ Ec) as [-> Hb].
      unfold b_act_final. destruct (nth_error (bs_seqs bs) q) as [rs|]; [|discriminate].
      destruct (b_seq_upd _ _ _) as [b'|] eqn:Eq; [|discriminate]. simpl. intro H; injection H as <-.
      destruct (b_seq_upd_spec _ _ _ _ Eq) as (y & y' & Hn & Hf & ->).
      eapply T_sq with (w := Some _); [exact Hb|constructor|exact Hn|eapply s_final_spec; eauto|apply is_core_put; core].
  - (* Failed *)
    destruct a as [[|b] g i|b q i].
    + unfold p_chk_final. destruct (g_final _ _ _ _ _) as [x|] eqn:E; [|discriminate]. intro H; injection H as <-.
      eapply T_pg with (w := Some _); [constructor|left; eapply g_final_spec; eauto|apply is_core_put; core].
    + destruct (cur_block sh s b) as [bs|] eqn:Ec; [|discriminate]. destruct (cur_block_spec _ _ _ Ec) as [-> Hb].
      unfold b_chk_final. destruct (g_final _ _ _ _ _) as [x|] eqn:E; [|discriminate]. simpl. intro H; injection H as <-.
      eapply T_bg with (w := Some _); [exact Hb|constructor|left; eapply g_final_spec; eauto|apply is_core_put; core].
    + destruct (cur_block sh s b) as [bs|] eqn:Ec; [|discriminate]. destruct (cur_block_spec _ _ _ Ec) as [-> Hb].
      unfold b_act_final. destruct (nth_error (bs_seqs bs) q) as [rs|]; [|discriminate].
      destruct (b_seq_upd _ _ _) as [b'|] eqn:Eq; [|discriminate]. simpl. intro H; injection H as <-.
      destruct (b_seq_upd_spec _ _ _ _ Eq) as (y & y' & Hn & Hf & ->).
      eapply T_sq with (w := Some _); [exact Hb|constructor|exact Hn|eapply s_final_spec; eauto|apply is_core_put; core].
Qed.

Lemma b_write_same b st b' : b_write b st = Some b' -> b' = b.
Proof.
  unfold b_write. destruct st; try discriminate.
  - destruct (bphase_eqb (b_ph b) BEnter); [|discriminate]. now intro H; injection H.
  - destruct (_ && _); [|discriminate]. now intro H; injection H.
  - destruct (b_cause b); [|discriminate]. now intro H; injection H.
Qed.

Lemma h_write_trans s o st n ok r s' : h_write sh s o st n ok r = Some s' -> trans s (EvWrite o st n ok r) s'.
Proof.
  unfold h_write. destruct (negb (obj_in_shape sh o)); [discriminate|].
  destruct o as [|sc g|b|b q|a].
  5: { unfold h_write_obj. destruct (h_write_act sh s a st n ok) as [s1|] eqn:E; [|discriminate]. simpl.
       intro H; injection H as <-. now apply h_write_act_trans. }
  all: destruct n as [|n]; [|discriminate]; destruct ok; [discriminate|]; unfold h_write_obj.
  - (* OPlan *)
    destruct (p_write sh s st r) as [s1|] eqn:E; [|discriminate]. simpl. intro H; injection H as <-.
    unfold p_write in E. destruct (s_ph s) eqn:Ep; try discriminate.
    + destruct (status_eqb st Running && reason_eqb r FRUnknown) eqn:Ec; [|discriminate]. injection E as <-.
      apply andb_true_iff in Ec as [Ec _]. apply status_eqb_eq in Ec.
      apply T_pw; [left; auto|]. apply is_core_put. repeat split; auto.
    + destruct (_ && _) eqn:Ec in E; [|discriminate]. injection E as <-.
      apply andb_true_iff in Ec as [Ec _]. apply andb_true_iff in Ec as [Ec E3]. apply andb_true_iff in Ec as [E1 _].
      apply status_eqb_eq in E3.
      apply T_pw; [right; auto|]. apply is_core_put. repeat split; auto.
  - (* OChecks *)
    destruct sc as [|b].
    + destruct st; try discriminate; unfold p_chk_verdict, g_verdict;
        (destruct (g_close _ _) as [x|] eqn:E; [|discriminate]); simpl; intro H; injection H as <-;
        (eapply T_pv; [eapply g_close_spec; eauto|apply is_core_put; core]).
    + destruct st; try discriminate;
        (destruct (cur_block sh s b) as [bs|] eqn:Ec; [|discriminate]); destruct (cur_block_spec _ _ _ Ec) as [-> Hb];
        unfold b_chk_verdict, g_verdict; (destruct (g_close _ _) as [x|] eqn:E; [|discriminate]); simpl;
        intro H; injection H as <-;
        (eapply T_bv; [exact Hb|eapply g_close_spec; eauto|apply is_core_put; core]).
  - (* OBlock *)
    destruct (cur_block sh s b) as [bs|] eqn:Ec; [|discriminate]. destruct (cur_block_spec _ _ _ Ec) as [-> Hb].
    destruct (b_write (s_b s) st) as [b'|] eqn:E; [|discriminate]. simpl. intro H; injection H as <-.
    pose proof (b_write_same _ _ _ E) as ->.
    eapply T_bw; [exact Hb|exact E|apply is_core_put; core].
  - (* OSeq *)
    destruct (cur_block sh s b) as [bs|] eqn:Ec; [|discriminate]. destruct (cur_block_spec _ _ _ Ec) as [-> Hb].
    destruct st; try discriminate.
    + unfold b_seq_launch. destruct (bphase_eqb (b_ph (s_b s)) BSeqs && launch_guard bs (s_b s)) eqn:Eg; [|discriminate].
      apply andb_true_iff in Eg as [Ep Eg]. apply bphase_eqb_eq in Ep.
      destruct (b_seq_upd _ _ _) as [b'|] eqn:Eq; [|discriminate]. simpl. intro H; injection H as <-.
      destruct (b_seq_upd_spec _ _ _ _ Eq) as (y & y' & Hn & Hf & ->).
      destruct (s_launch_spec _ _ Hf) as [-> ->].
      eapply T_sl; [exact Hb|exact Ep|exact Eg|exact Hn|apply is_core_put; core].
    + unfold b_seq_terminal. destruct (b_seq_upd _ _ _) as [b'|] eqn:Eq; [|discriminate]. simpl. intro H; injection H as <-.
      destruct (b_seq_upd_spec _ _ _ _ Eq) as (y & y' & Hn & Hf & ->).
      destruct (s_terminal_spec _ _ _ Hf) as (v & -> & -> & Hv).
      rewrite Hv. eapply T_st; [exact Hb|exact Hn|]. rewrite <- Hv. apply is_core_put; core.
    + unfold b_seq_terminal. destruct (b_seq_upd _ _ _) as [b'|] eqn:Eq; [|discriminate]. simpl. intro H; injection H as <-.
      destruct (b_seq_upd_spec _ _ _ _ Eq) as (y & y' & Hn & Hf & ->).
      destruct (s_terminal_spec _ _ _ Hf) as (v & -> & -> & Hv).
      rewrite Hv. eapply T_st; [exact Hb|exact Hn|]. rewrite <- Hv. apply is_core_put; core.
Qed.

Lemma handle_trans s e s' : handle sh s e = Some s' -> trans s e s'.
Proof.
  unfold handle. destruct e as [a|a o|o st n ok r|snap|fin].
  - destruct (released s); [discriminate|]. apply h_start_trans.
  - apply h_end_trans.
  - destruct (released s); [discriminate|]. apply h_write_trans.
  - unfold h_read. destruct (s_fin s) as [f|].
    + destruct (images_agree _ _ _); [|discriminate]. intro H; injection H as <-. constructor.
    + intro H; injection H as <-. constructor.
  - unfold h_release. destruct (_ && _) eqn:E; [|discriminate]. intro H; injection H as <-.
    apply andb_true_iff in E as [E E3]. apply andb_true_iff in E as [E1 E2]. apply pphase_eqb_eq in E1.
    apply T_rel; auto. core.
Qed.

End Inv.
