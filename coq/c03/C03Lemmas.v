(* Generic facts about the engine automaton's sub-automata used by the C03 proof: what each handler of a
   check group / a sequence does to the few observables the invariants speak about (idle / dead / in flight /
   failed), counting under [upd], membership in [all_objs]. *)
From Coq Require Import Lia.
From Coercion.Base Require Import Plan.
From Coercion.Engine Require Import Shape Event Action ChecksRun Seq Block Final PlanSM Auto Accept AutoLemmas.

(* ---------- gtab ---------- *)
Lemma tget_tset_same t g x : tget (tset t g x) g = x.
Proof. destruct g; reflexivity. Qed.

Lemma tget_tset_other t g g' x : g <> g' -> tget (tset t g x) g' = tget t g'.
Proof. destruct g, g'; intro H; try reflexivity; congruence. Qed.

Lemma grp_eq_dec (g g' : grp) : {g = g'} + {g <> g'}.
Proof. decide equality. Qed.

(* ---------- a check group's transitions, seen through idle / dead / last ---------- *)
Definition gwf (g : gst) : Prop := match g with GIdle 0 (Some _) => False | _ => True end.

(* the run goes on (or was silently closed and re-opened): open before and after *)
Definition grun (g x : gst) : Prop := g_is_idle g = false /\ g_is_idle x = false.
(* a run is opened *)
Definition gopen (may : bool) (g x : gst) : Prop := g_is_idle g = true /\ may = true /\ g_is_idle x = false.
(* the open run is closed with the verdict that status st states *)
Definition gclose (st : status) (g x : gst) : Prop :=
  g_is_idle g = false /\ exists v, x = GIdle (S (g_runs g)) (Some v) /\ st = verdict_status v.

Lemma g_set_run g i a : g_is_idle g = false -> g_is_idle (g_set g i a) = false.
Proof. destruct g; simpl; auto. Qed.

Lemma g_act_run g i a : g_act g i = Some a -> g_is_idle g = false.
Proof. destruct g; simpl; [discriminate|auto]. Qed.

Lemma g_mark_spec rs may dst g i x :
  g_mark rs may dst g i = Some x -> grun g x \/ gopen may g x.
Proof.
  unfold g_mark. destruct (g_act g i) as [a|] eqn:Ea.
  - pose proof (g_act_run _ _ _ Ea) as Hr.
    destruct (a_mark a) as [a'|].
    + intro H; injection H as <-. left. split; [assumption|now apply g_set_run].
    + destruct (g_settle g dst) as [[runs l|? ?]|]; try discriminate.
      destruct (may && (i <? length rs)); [|discriminate].
      intro H; injection H as <-. left. split; [assumption|reflexivity].
  - destruct g as [runs l|runs acts]; [|discriminate].
    destruct may; simpl; [|discriminate].
    destruct (i <? length rs); [|discriminate].
    intro H; injection H as <-. right. repeat split.
Qed.

Lemma g_start_spec g i d x : g_start g i d = Some x -> grun g x.
Proof.
  unfold g_start. destruct g as [|r acts]; [discriminate|].
  destruct (nth_error acts i); [|discriminate]. destruct (a_start a d); [|discriminate].
  destruct (acts_marked acts); [|discriminate]. intro H; injection H as <-. split; reflexivity.
Qed.

Lemma g_end_spec g i o x : g_end g i o = Some x -> grun g x.
Proof.
  unfold g_end. destruct (g_act g i) eqn:Ea; [|discriminate]. destruct (a_end a o); [|discriminate].
  intro H; injection H as <-. pose proof (g_act_run _ _ _ Ea). split; [assumption|now apply g_set_run].
Qed.

Lemma g_attempt_spec rs g i n ok x owed : g_attempt rs g i n ok = Some (x, owed) -> grun g x.
Proof.
  unfold g_attempt. destruct (g_act g i) eqn:Ea; [|discriminate]. destruct (nth_error rs i); [|discriminate].
  destruct (a_attempt n0 a n ok) as [[a' ow]|]; [|discriminate].
  intro H; injection H as <- <-. pose proof (g_act_run _ _ _ Ea). split; [assumption|now apply g_set_run].
Qed.

Lemma g_final_spec g i st n ok x : g_final g i st n ok = Some x -> grun g x.
Proof.
  unfold g_final. destruct (g_act g i) eqn:Ea; [|discriminate]. destruct (a_final a st n ok); [|discriminate].
  intro H; injection H as <-. pose proof (g_act_run _ _ _ Ea). split; [assumption|now apply g_set_run].
Qed.

Lemma g_close_spec g st x : g_close g st = Some x -> gclose st g x.
Proof.
  unfold g_close. destruct g as [|runs acts]; [discriminate|].
  destruct (acts_complete acts); simpl; [|discriminate].
  destruct (status_eqb st (verdict_status (acts_verdict acts))) eqn:E; [|discriminate].
  intro H; injection H as <-. apply status_eqb_eq in E. split; [reflexivity|]. eexists; split; [reflexivity|exact E].
Qed.

Lemma g_settle_spec g dst x : g_settle g dst = Some x -> x = g /\ g_is_idle g = true \/ gclose dst g x.
Proof.
  unfold g_settle. destruct g as [r l|r acts].
  - intro H; injection H as <-. left. split; reflexivity.
  - intro H. right. now apply g_close_spec.
Qed.

(* once_done: the single run is over *)
Lemma once_done_spec present g dst x v :
  once_done present g dst = Some (x, v) ->
  (present = false /\ x = g /\ v = true) \/
  (present = true /\ g_is_idle x = true /\ g_last x = Some v /\ gwf x /\ (x = g \/ gclose dst g x)).
Proof.
  unfold once_done. destruct present.
  - destruct (g_settle g dst) as [y|] eqn:E; [|discriminate].
    destruct y as [[|r] [w|]|]; try discriminate.
    intro H; injection H as <- <-. right. repeat split.
    destruct (g_settle_spec _ _ _ E) as [[-> _]|Hc]; [left; reflexivity|right; exact Hc].
  - intro H; injection H as <- <-. left. repeat split.
Qed.

Lemma gclose_idle st g x : gclose st g x -> g_is_idle x = true.
Proof. intros (_ & v & -> & _). reflexivity. Qed.
Lemma gclose_wf st g x : gclose st g x -> gwf x.
Proof. intros (_ & v & -> & _). exact I. Qed.
Lemma gclose_dead st g x : gclose st g x -> g_dead x = true -> st = Failed.
Proof. intros (_ & v & -> & ->). destruct v; simpl; [discriminate|reflexivity]. Qed.
Lemma gclose_last st g x : gclose st g x -> g_last x = Some false -> st = Failed.
Proof. intros (_ & v & -> & ->). simpl. intro H; injection H as ->. reflexivity. Qed.
Lemma gclose_status st g x : gclose st g x -> st = Completed \/ st = Failed.
Proof. intros (_ & v & _ & ->). destruct v; simpl; auto. Qed.

Lemma idle_false_dead g : g_is_idle g = false -> g_dead g = false.
Proof. destruct g; simpl; [discriminate|reflexivity]. Qed.
Lemma idle_false_last g : g_is_idle g = false -> g_last g = None.
Proof. destruct g; simpl; [discriminate|reflexivity]. Qed.
Lemma idle_false_wf g : g_is_idle g = false -> gwf g.
Proof. destruct g; simpl; [discriminate|trivial]. Qed.
Lemma dead_idle g : g_dead g = true -> g_is_idle g = true.
Proof. destruct g; simpl; [reflexivity|discriminate]. Qed.
Lemma dead_last g : g_dead g = true <-> g_last g = Some false.
Proof. destruct g as [r [[|]|]|]; simpl; split; intro H; try reflexivity; try discriminate. Qed.
Lemma wf_runs0_not_dead g : gwf g -> g_runs g = 0 -> g_dead g = false.
Proof. destruct g as [[|r] [[|]|]|]; simpl; intros W H; try reflexivity; try discriminate; contradiction. Qed.

(* ---------- a sequence's transitions ---------- *)
Definition srun (q q' : sst) : Prop := s_inflight q = true /\ s_inflight q' = true.

Lemma s_mark_spec q i q' : s_mark q i = Some q' -> srun q q'.
Proof.
  unfold s_mark. destruct q as [|j a| |]; try discriminate. destruct (Nat.eqb i j); [|discriminate].
  destruct (a_mark a); simpl; [|discriminate]. intro H; injection H as <-. split; reflexivity.
Qed.
Lemma s_start_spec q i d q' : s_start q i d = Some q' -> srun q q'.
Proof.
  unfold s_start. destruct q as [|j a| |]; try discriminate. destruct (Nat.eqb i j); [|discriminate].
  destruct (a_start a d); simpl; [|discriminate]. intro H; injection H as <-. split; reflexivity.
Qed.
Lemma s_end_spec q i o q' : s_end q i o = Some q' -> srun q q'.
Proof.
  unfold s_end. destruct q as [|j a| |]; try discriminate. destruct (Nat.eqb i j); [|discriminate].
  destruct (a_end a o); simpl; [|discriminate]. intro H; injection H as <-. split; reflexivity.
Qed.
Lemma s_attempt_spec rs q i n ok q' owed : s_attempt rs q i n ok = Some (q', owed) -> srun q q'.
Proof.
  unfold s_attempt. destruct q as [|j a| |]; try discriminate. destruct (nth_error rs i); [|discriminate].
  destruct (Nat.eqb i j); [|discriminate]. destruct (a_attempt n0 a n ok) as [[a' ow]|]; [|discriminate].
  intro H; injection H as <- <-. split; reflexivity.
Qed.
Lemma s_final_spec rs q i st n ok q' : s_final rs q i st n ok = Some q' -> srun q q'.
Proof.
  unfold s_final. destruct q as [|j a| |]; try discriminate. destruct (Nat.eqb i j); [|discriminate].
  destruct (a_final a st n ok) as [[| | | | |[|] m]|]; try discriminate.
  - destruct (S j <? length rs); intro H; injection H as <-; split; reflexivity.
  - intro H; injection H as <-; split; reflexivity.
Qed.
Lemma s_launch_spec q q' : s_launch q = Some q' -> q = SIdle /\ q' = SRun 0 AIdle.
Proof. destruct q; simpl; try discriminate. intro H; injection H as <-. auto. Qed.
Lemma s_terminal_spec q st q' : s_terminal q st = Some q' -> exists v, q = SPend v /\ q' = SDone v /\ st = verdict_status v.
Proof.
  destruct q as [| |v|]; simpl; try discriminate.
  destruct (status_eqb st (if v then Completed else Failed)) eqn:E; [|discriminate].
  intro H; injection H as <-. apply status_eqb_eq in E. exists v. auto.
Qed.

(* ---------- counting under upd ---------- *)
Definition b2n (b : bool) : nat := if b then 1 else 0.

Lemma count_cons {A} (p : A -> bool) x l : count p (x :: l) = b2n (p x) + count p l.
Proof. unfold count. simpl. destruct (p x); reflexivity. Qed.

Lemma count_upd {A} (p : A -> bool) l i x y :
  nth_error l i = Some y -> count p (upd l i x) + b2n (p y) = count p l + b2n (p x).
Proof.
  revert i; induction l as [|z l IH]; intros [|i] H; simpl in H; try discriminate.
  - injection H as ->. simpl. rewrite !count_cons. lia.
  - simpl. rewrite !count_cons. specialize (IH _ H). lia.
Qed.

Lemma count_pos {A} (p : A -> bool) l i y : nth_error l i = Some y -> p y = true -> 1 <= count p l.
Proof.
  revert i; induction l as [|z l IH]; intros [|i] H Hp; simpl in H; try discriminate.
  - injection H as ->. rewrite count_cons, Hp. simpl. lia.
  - rewrite count_cons. specialize (IH _ H Hp). lia.
Qed.

Lemma count_repeat_false {A} (p : A -> bool) x n : p x = false -> count p (repeat x n) = 0.
Proof. intro H. induction n; simpl; [reflexivity|]. rewrite count_cons, H, IHn. reflexivity. Qed.

Lemma count_zero_nth {A} (p : A -> bool) l i y : count p l = 0 -> nth_error l i = Some y -> p y = false.
Proof.
  intros H0 H. destruct (p y) eqn:E; [|reflexivity]. pose proof (count_pos p l i y H E). lia.
Qed.

Lemma upd_same_map {A B} (f : A -> B) l i x y :
  nth_error l i = Some y -> f x = f y -> map f (upd l i x) = map f l.
Proof.
  revert i; induction l as [|z l IH]; intros [|i] H E; simpl in *; try discriminate; auto.
  - injection H as ->. now rewrite E.
  - f_equal. eauto.
Qed.

Lemma nth_error_repeat {A} (x : A) n i y : nth_error (repeat x n) i = Some y -> y = x.
Proof.
  revert i; induction n; intros [|i] H; simpl in H; try discriminate.
  - now injection H.
  - eauto.
Qed.

(* ---------- all_objs ---------- *)
Lemma in_blocks_objs bl : forall k b bs, nth_error bl b = Some bs -> In (OBlock (k + b)) (blocks_objs k bl).
Proof.
  induction bl as [|x bl IH]; intros k [|b] bs H; simpl in H; try discriminate.
  - simpl. left. f_equal. lia.
  - simpl. right. apply in_or_app. right. replace (k + S b) with (S k + b) by lia. eapply IH; eauto.
Qed.

Lemma in_all_objs_block sh b bs : block_of sh b = Some bs -> In (OBlock b) (all_objs sh).
Proof.
  unfold block_of, all_objs. intro H. right. apply in_or_app. right.
  change b with (0 + b). eapply in_blocks_objs; eauto.
Qed.

Lemma in_all_objs_plan sh : In OPlan (all_objs sh).
Proof. left. reflexivity. Qed.

Lemma image_agrees_status objs im r fin o :
  image_agrees objs im r fin = true -> In o objs ->
  exists c, im_lookup fin o = Some c /\ oc_st c = ist im o.
Proof.
  unfold image_agrees. intros H Hin. apply andb_true_iff in H as [_ H].
  rewrite forallb_forall in H. specialize (H _ Hin).
  destruct (im_lookup fin o) as [c|]; [|discriminate]. exists c. split; [reflexivity|].
  unfold cell_eqb in H. apply andb_true_iff in H as [H _]. apply andb_true_iff in H as [H _].
  apply status_eqb_eq in H. unfold ist. simpl in H. congruence.
Qed.
