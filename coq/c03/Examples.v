(* Non-vacuity of C03: real traces of the engine (harness/cmd/engine, profile tol, VERIF_SEED=1) are accepted by the
   automaton AND satisfy the monitor; the monitor rejects specific bad traces, clause by clause; the hypotheses of
   the theorem are satisfiable on multi-block traces with failures.  Everything by vm_compute. *)
From Coercion.Base Require Import Plan.
From Coercion.Engine Require Import Shape Event Accept.
From Coercion.C03 Require Import MonC03 SchedIndep.

(* drop the i-th element / insert before the i-th element *)
Fixpoint drop_nth {A} (l : list A) (i : nat) : list A :=
  match l, i with [] , _ => [] | _ :: l', 0 => l' | x :: l', S i' => x :: drop_nth l' i' end.
Fixpoint insert_at {A} (l : list A) (i : nat) (x : A) : list A :=
  match l, i with l, 0 => x :: l | [], _ => [x] | y :: l', S i' => y :: insert_at l' i' x end.

(* tol-208 (tol=0-conc=2-seqs=1-fail=0001): two blocks, tol 0, conc 2: the only sequence of block 0 fails -> block Failed, block 1 never runs, plan Failed/FRBlock *)
Definition sh_t208 : shape :=
  (Build_shape (Build_groups None None None None None) [(Build_bshape (Build_groups None None None None None) [[1]] 2 (0)%Z); (Build_bshape (Build_groups None None None None None) [[1; 0]; [0]] 3 (-1)%Z)]).
Definition tr_t208 : list event :=
  [ (EvWrite OPlan Running 0 false FRUnknown);
    (EvWrite OPlan Running 0 false FRUnknown);
    (EvWrite OPlan Running 0 false FRUnknown);
    (EvWrite (OBlock 0) Running 0 false FRUnknown);
    (EvWrite (OBlock 0) Running 0 false FRUnknown);
    (EvWrite (OBlock 0) Running 0 false FRUnknown);
    (EvWrite (OBlock 0) Running 0 false FRUnknown);
    (EvWrite (OSeq 0 0) Running 0 false FRUnknown);
    (EvWrite (OAct (ASeq 0 0 0)) Running 0 false FRUnknown);
    (EvStart (ASeq 0 0 0));
    (EvEnd (ASeq 0 0 0) OPerm);
    (EvWrite (OAct (ASeq 0 0 0)) Running 1 false FRUnknown);
    (EvWrite (OAct (ASeq 0 0 0)) Failed 1 false FRUnknown);
    (EvWrite (OAct (ASeq 0 0 0)) Failed 1 false FRUnknown);
    (EvWrite (OSeq 0 0) Failed 0 false FRUnknown);
    (EvWrite (OBlock 0) Failed 0 false FRUnknown);
    (EvWrite (OBlock 0) Failed 0 false FRUnknown);
    (EvWrite OPlan Running 0 false FRUnknown);
    (EvWrite OPlan Failed 0 false FRBlock);
    (EvWrite (OBlock 0) Failed 0 false FRUnknown);
    (EvWrite (OSeq 0 0) Failed 0 false FRUnknown);
    (EvWrite (OAct (ASeq 0 0 0)) Failed 1 false FRUnknown);
    (EvWrite (OBlock 1) NotStarted 0 false FRUnknown);
    (EvWrite (OSeq 1 0) NotStarted 0 false FRUnknown);
    (EvWrite (OAct (ASeq 1 0 0)) NotStarted 0 false FRUnknown);
    (EvWrite (OAct (ASeq 1 0 1)) NotStarted 0 false FRUnknown);
    (EvWrite (OSeq 1 1) NotStarted 0 false FRUnknown);
    (EvWrite (OAct (ASeq 1 1 0)) NotStarted 0 false FRUnknown);
    (EvRelease (IM [(OPlan, (OC Failed 0 false (TF false false true))); ((OBlock 0), (OC Failed 0 false (TF false false true))); ((OSeq 0 0), (OC Failed 0 false (TF false false true))); ((OAct (ASeq 0 0 0)), (OC Failed 1 false (TF false false true))); ((OBlock 1), (OC NotStarted 0 false (TF true true true))); ((OSeq 1 0), (OC NotStarted 0 false (TF true true true))); ((OAct (ASeq 1 0 0)), (OC NotStarted 0 false (TF true true true))); ((OAct (ASeq 1 0 1)), (OC NotStarted 0 false (TF true true true))); ((OSeq 1 1), (OC NotStarted 0 false (TF true true true))); ((OAct (ASeq 1 1 0)), (OC NotStarted 0 false (TF true true true)))] FRBlock));
    (EvRead (IM [(OPlan, (OC Failed 0 false (TF false false true))); ((OBlock 0), (OC Failed 0 false (TF false false true))); ((OSeq 0 0), (OC Failed 0 false (TF false false true))); ((OAct (ASeq 0 0 0)), (OC Failed 1 false (TF false false true))); ((OBlock 1), (OC NotStarted 0 false (TF true true true))); ((OSeq 1 0), (OC NotStarted 0 false (TF true true true))); ((OAct (ASeq 1 0 0)), (OC NotStarted 0 false (TF true true true))); ((OAct (ASeq 1 0 1)), (OC NotStarted 0 false (TF true true true))); ((OSeq 1 1), (OC NotStarted 0 false (TF true true true))); ((OAct (ASeq 1 1 0)), (OC NotStarted 0 false (TF true true true)))] FRBlock)) ].
Example t208_accepted : accepts sh_t208 tr_t208 = true.
Proof. vm_compute. reflexivity. Qed.
Example t208_monitor : mon_tol (sh_t208, tr_t208) = true.
Proof. vm_compute. reflexivity. Qed.

(* tol-338 (tol=0-conc=2-seqs=3-fail=0111): tol 0, conc 2, three would-fail sequences: TWO fail (= tol + conc, the bound is attained), the third is never started *)
Definition sh_t338 : shape :=
  (Build_shape (Build_groups None None None None None) [(Build_bshape (Build_groups None None None None None) [[0; 0]; [0; 1]; [1]] 2 (0)%Z)]).
Definition tr_t338 : list event :=
  [ (EvWrite OPlan Running 0 false FRUnknown);
    (EvWrite OPlan Running 0 false FRUnknown);
    (EvWrite OPlan Running 0 false FRUnknown);
    (EvWrite (OBlock 0) Running 0 false FRUnknown);
    (EvWrite (OBlock 0) Running 0 false FRUnknown);
    (EvWrite (OBlock 0) Running 0 false FRUnknown);
    (EvWrite (OBlock 0) Running 0 false FRUnknown);
    (EvWrite (OSeq 0 1) Running 0 false FRUnknown);
    (EvWrite (OAct (ASeq 0 1 0)) Running 0 false FRUnknown);
    (EvStart (ASeq 0 1 0));
    (EvEnd (ASeq 0 1 0) OErr);
    (EvWrite (OAct (ASeq 0 1 0)) Running 1 false FRUnknown);
    (EvWrite (OSeq 0 0) Running 0 false FRUnknown);
    (EvWrite (OAct (ASeq 0 0 0)) Running 0 false FRUnknown);
    (EvStart (ASeq 0 0 0));
    (EvEnd (ASeq 0 0 0) OOk);
    (EvWrite (OAct (ASeq 0 0 0)) Running 1 true FRUnknown);
    (EvWrite (OAct (ASeq 0 0 0)) Completed 1 true FRUnknown);
    (EvWrite (OAct (ASeq 0 0 0)) Completed 1 true FRUnknown);
    (EvWrite (OAct (ASeq 0 0 1)) Running 0 false FRUnknown);
    (EvStart (ASeq 0 0 1));
    (EvWrite (OAct (ASeq 0 1 0)) Failed 1 false FRUnknown);
    (EvWrite (OAct (ASeq 0 1 0)) Failed 1 false FRUnknown);
    (EvWrite (OSeq 0 1) Failed 0 false FRUnknown);
    (EvEnd (ASeq 0 0 1) OErr);
    (EvWrite (OAct (ASeq 0 0 1)) Running 1 false FRUnknown);
    (EvWrite (OAct (ASeq 0 0 1)) Failed 1 false FRUnknown);
    (EvWrite (OAct (ASeq 0 0 1)) Failed 1 false FRUnknown);
    (EvWrite (OSeq 0 0) Failed 0 false FRUnknown);
    (EvWrite (OBlock 0) Failed 0 false FRUnknown);
    (EvWrite (OBlock 0) Failed 0 false FRUnknown);
    (EvWrite OPlan Running 0 false FRUnknown);
    (EvWrite OPlan Failed 0 false FRBlock);
    (EvWrite (OBlock 0) Failed 0 false FRUnknown);
    (EvWrite (OSeq 0 0) Failed 0 false FRUnknown);
    (EvWrite (OAct (ASeq 0 0 0)) Completed 1 true FRUnknown);
    (EvWrite (OAct (ASeq 0 0 1)) Failed 1 false FRUnknown);
    (EvWrite (OSeq 0 1) Failed 0 false FRUnknown);
    (EvWrite (OAct (ASeq 0 1 0)) Failed 1 false FRUnknown);
    (EvWrite (OAct (ASeq 0 1 1)) NotStarted 0 false FRUnknown);
    (EvWrite (OSeq 0 2) NotStarted 0 false FRUnknown);
    (EvWrite (OAct (ASeq 0 2 0)) NotStarted 0 false FRUnknown);
    (EvRelease (IM [(OPlan, (OC Failed 0 false (TF false false true))); ((OBlock 0), (OC Failed 0 false (TF false false true))); ((OSeq 0 0), (OC Failed 0 false (TF false false true))); ((OAct (ASeq 0 0 0)), (OC Completed 1 true (TF false false true))); ((OAct (ASeq 0 0 1)), (OC Failed 1 false (TF false false true))); ((OSeq 0 1), (OC Failed 0 false (TF false false true))); ((OAct (ASeq 0 1 0)), (OC Failed 1 false (TF false false true))); ((OAct (ASeq 0 1 1)), (OC NotStarted 0 false (TF true true true))); ((OSeq 0 2), (OC NotStarted 0 false (TF true true true))); ((OAct (ASeq 0 2 0)), (OC NotStarted 0 false (TF true true true)))] FRBlock));
    (EvRead (IM [(OPlan, (OC Failed 0 false (TF false false true))); ((OBlock 0), (OC Failed 0 false (TF false false true))); ((OSeq 0 0), (OC Failed 0 false (TF false false true))); ((OAct (ASeq 0 0 0)), (OC Completed 1 true (TF false false true))); ((OAct (ASeq 0 0 1)), (OC Failed 1 false (TF false false true))); ((OSeq 0 1), (OC Failed 0 false (TF false false true))); ((OAct (ASeq 0 1 0)), (OC Failed 1 false (TF false false true))); ((OAct (ASeq 0 1 1)), (OC NotStarted 0 false (TF true true true))); ((OSeq 0 2), (OC NotStarted 0 false (TF true true true))); ((OAct (ASeq 0 2 0)), (OC NotStarted 0 false (TF true true true)))] FRBlock)) ].
Example t338_accepted : accepts sh_t338 tr_t338 = true.
Proof. vm_compute. reflexivity. Qed.
Example t338_monitor : mon_tol (sh_t338, tr_t338) = true.
Proof. vm_compute. reflexivity. Qed.

(* tol-176 (tol=-1-conc=2-seqs=3-fail=0110): tol -1 (unlimited), conc 2: two of three sequences fail, the block ends Completed *)
Definition sh_t176 : shape :=
  (Build_shape (Build_groups None None None None None) [(Build_bshape (Build_groups None None None None None) [[1; 0]; [0; 0]; [0]] 2 (-1)%Z)]).
Definition tr_t176 : list event :=
  [ (EvWrite OPlan Running 0 false FRUnknown);
    (EvWrite OPlan Running 0 false FRUnknown);
    (EvWrite OPlan Running 0 false FRUnknown);
    (EvWrite (OBlock 0) Running 0 false FRUnknown);
    (EvWrite (OBlock 0) Running 0 false FRUnknown);
    (EvWrite (OBlock 0) Running 0 false FRUnknown);
    (EvWrite (OBlock 0) Running 0 false FRUnknown);
    (EvWrite (OSeq 0 1) Running 0 false FRUnknown);
    (EvWrite (OAct (ASeq 0 1 0)) Running 0 false FRUnknown);
    (EvStart (ASeq 0 1 0));
    (EvEnd (ASeq 0 1 0) OPerm);
    (EvWrite (OAct (ASeq 0 1 0)) Running 1 false FRUnknown);
    (EvWrite (OSeq 0 0) Running 0 false FRUnknown);
    (EvWrite (OAct (ASeq 0 0 0)) Running 0 false FRUnknown);
    (EvStart (ASeq 0 0 0));
    (EvEnd (ASeq 0 0 0) OOk);
    (EvWrite (OAct (ASeq 0 1 0)) Failed 1 false FRUnknown);
    (EvWrite (OAct (ASeq 0 1 0)) Failed 1 false FRUnknown);
    (EvWrite (OAct (ASeq 0 0 0)) Running 1 true FRUnknown);
    (EvWrite (OAct (ASeq 0 0 0)) Completed 1 true FRUnknown);
    (EvWrite (OAct (ASeq 0 0 0)) Completed 1 true FRUnknown);
    (EvWrite (OAct (ASeq 0 0 1)) Running 0 false FRUnknown);
    (EvStart (ASeq 0 0 1));
    (EvWrite (OSeq 0 1) Failed 0 false FRUnknown);
    (EvWrite (OSeq 0 2) Running 0 false FRUnknown);
    (EvWrite (OAct (ASeq 0 2 0)) Running 0 false FRUnknown);
    (EvStart (ASeq 0 2 0));
    (EvEnd (ASeq 0 0 1) OOk);
    (EvWrite (OAct (ASeq 0 0 1)) Running 1 true FRUnknown);
    (EvWrite (OAct (ASeq 0 0 1)) Completed 1 true FRUnknown);
    (EvWrite (OAct (ASeq 0 0 1)) Completed 1 true FRUnknown);
    (EvWrite (OSeq 0 0) Completed 0 false FRUnknown);
    (EvEnd (ASeq 0 2 0) OWrongType);
    (EvWrite (OAct (ASeq 0 2 0)) Running 1 false FRUnknown);
    (EvWrite (OAct (ASeq 0 2 0)) Failed 1 false FRUnknown);
    (EvWrite (OAct (ASeq 0 2 0)) Failed 1 false FRUnknown);
    (EvWrite (OSeq 0 2) Failed 0 false FRUnknown);
    (EvWrite (OBlock 0) Running 0 false FRUnknown);
    (EvWrite (OBlock 0) Running 0 false FRUnknown);
    (EvWrite (OBlock 0) Completed 0 false FRUnknown);
    (EvWrite OPlan Running 0 false FRUnknown);
    (EvWrite OPlan Running 0 false FRUnknown);
    (EvWrite OPlan Completed 0 false FRUnknown);
    (EvWrite (OBlock 0) Completed 0 false FRUnknown);
    (EvWrite (OSeq 0 0) Completed 0 false FRUnknown);
    (EvWrite (OAct (ASeq 0 0 0)) Completed 1 true FRUnknown);
    (EvWrite (OAct (ASeq 0 0 1)) Completed 1 true FRUnknown);
    (EvWrite (OSeq 0 1) Failed 0 false FRUnknown);
    (EvWrite (OAct (ASeq 0 1 0)) Failed 1 false FRUnknown);
    (EvWrite (OAct (ASeq 0 1 1)) NotStarted 0 false FRUnknown);
    (EvWrite (OSeq 0 2) Failed 0 false FRUnknown);
    (EvWrite (OAct (ASeq 0 2 0)) Failed 1 false FRUnknown);
    (EvRelease (IM [(OPlan, (OC Completed 0 false (TF false false true))); ((OBlock 0), (OC Completed 0 false (TF false false true))); ((OSeq 0 0), (OC Completed 0 false (TF false false true))); ((OAct (ASeq 0 0 0)), (OC Completed 1 true (TF false false true))); ((OAct (ASeq 0 0 1)), (OC Completed 1 true (TF false false true))); ((OSeq 0 1), (OC Failed 0 false (TF false false true))); ((OAct (ASeq 0 1 0)), (OC Failed 1 false (TF false false true))); ((OAct (ASeq 0 1 1)), (OC NotStarted 0 false (TF true true true))); ((OSeq 0 2), (OC Failed 0 false (TF false false true))); ((OAct (ASeq 0 2 0)), (OC Failed 1 false (TF false false true)))] FRUnknown));
    (EvRead (IM [(OPlan, (OC Completed 0 false (TF false false true))); ((OBlock 0), (OC Completed 0 false (TF false false true))); ((OSeq 0 0), (OC Completed 0 false (TF false false true))); ((OAct (ASeq 0 0 0)), (OC Completed 1 true (TF false false true))); ((OAct (ASeq 0 0 1)), (OC Completed 1 true (TF false false true))); ((OSeq 0 1), (OC Failed 0 false (TF false false true))); ((OAct (ASeq 0 1 0)), (OC Failed 1 false (TF false false true))); ((OAct (ASeq 0 1 1)), (OC NotStarted 0 false (TF true true true))); ((OSeq 0 2), (OC Failed 0 false (TF false false true))); ((OAct (ASeq 0 2 0)), (OC Failed 1 false (TF false false true)))] FRUnknown)) ].
Example t176_accepted : accepts sh_t176 tr_t176 = true.
Proof. vm_compute. reflexivity. Qed.
Example t176_monitor : mon_tol (sh_t176, tr_t176) = true.
Proof. vm_compute. reflexivity. Qed.

(* ---------- the monitor is not trivially true: specific bad traces, clause by clause ---------- *)
Definition with_tol_conc (sh : shape) (tol : Z) (conc : nat) : shape :=
  match sh_blocks sh with
  | b :: rest => Build_shape (sh_groups sh) (Build_bshape (bs_groups b) (bs_seqs b) conc tol :: rest)
  | [] => sh
  end.

(* [11] a later block is entered after the Failed block (and the automaton rejects that trace, too) *)
Example bad_later_block :
  mon_tol_diag (sh_t208, insert_at tr_t208 17 (EvWrite (OBlock 1) Running 0 false FRUnknown)) = [11; 17]
  /\ accepts sh_t208 (insert_at tr_t208 17 (EvWrite (OBlock 1) Running 0 false FRUnknown)) = false.
Proof. vm_compute. split; reflexivity. Qed.

(* [12] the plan is written Completed although block 0 Failed *)
Example bad_plan_completed :
  mon_tol_diag (sh_t208, insert_at (drop_nth tr_t208 18) 18 (EvWrite OPlan Completed 0 false FRUnknown)) = [12; 18].
Proof. vm_compute. reflexivity. Qed.

(* [7] the same trace with ToleratedFailures = 1: one failure is tolerated, the block must not be Failed
   (this is what a `>=` in exceededFailures produces) *)
Example bad_failed_without_cause : mon_tol_diag (with_tol_conc sh_t208 1 2, tr_t208) = [7; 15].
Proof. vm_compute. reflexivity. Qed.

(* [9] the block is written Failed while its sequence is still in flight (defect E3: early return without g.Wait) *)
Example bad_decided_in_flight : mon_tol_diag (sh_t208, drop_nth tr_t208 14) = [9; 14].
Proof. vm_compute. reflexivity. Qed.

(* [2] the trace of a Concurrency-2 block is not admissible for Concurrency 1: a second sequence starts while one is in flight *)
Example bad_second_in_flight : mon_tol_diag (with_tol_conc sh_t338 0 1, tr_t338) = [2; 12].
Proof. vm_compute. reflexivity. Qed.

(* [2] tol = 0, conc = 2: a third sequence started after a failure while another sequence is in flight
   (f + I = 2 > tol + conc - 1): the trace of the unlimited block t176 under tolerance 0 *)
Example bad_start_after_exceeded : mon_tol_diag (with_tol_conc sh_t176 0 2, tr_t176) = [2; 24].
Proof. vm_compute. reflexivity. Qed.

(* [8] two failures under tolerance 1: the block must not end Completed *)
Example bad_completed_exceeded : mon_tol_diag (with_tol_conc sh_t176 1 2, tr_t176) = [8; 39].
Proof. vm_compute. reflexivity. Qed.

(* [8] block written Completed with the tolerance exceeded *)
Example bad_completed_exceeded2 :
  mon_tol_diag (sh_t208, insert_at (drop_nth tr_t208 15) 15 (EvWrite (OBlock 0) Completed 0 false FRUnknown)) = [8; 15].
Proof. vm_compute. reflexivity. Qed.

(* [5] [6] [4] the never-started sequence 2 of t338 invokes a plugin / has an action written Running; sequence 1 restarts *)
Example bad_plugin_of_unstarted : mon_tol_diag (sh_t338, insert_at tr_t338 24 (EvStart (ASeq 0 2 0))) = [5; 24].
Proof. vm_compute. reflexivity. Qed.
Example bad_action_of_unstarted :
  mon_tol_diag (sh_t338, insert_at tr_t338 24 (EvWrite (OAct (ASeq 0 2 0)) Running 0 false FRUnknown)) = [6; 24].
Proof. vm_compute. reflexivity. Qed.
Example bad_restart : mon_tol_diag (sh_t338, insert_at tr_t338 24 (EvWrite (OSeq 0 1) Running 0 false FRUnknown)) = [4; 24].
Proof. vm_compute. reflexivity. Qed.

(* [13] the block's Failed writes are lost: the released plan shows a status that was never written *)
Example bad_release_status : mon_tol_diag (sh_t208, drop_nth (drop_nth (drop_nth tr_t208 19) 16) 15) = [13; 25].
Proof. vm_compute. reflexivity. Qed.

(* [3] Concurrency 1, tolerance 0: a sequence starts after the failure that exceeded the tolerance *)
Definition sh_c1 : shape :=
  Build_shape (Build_groups None None None None None)
              [Build_bshape (Build_groups None None None None None) [[0]; [0]] 1 0%Z].
Definition tr_c1 : list event :=
  [ EvWrite OPlan Running 0 false FRUnknown; EvWrite (OBlock 0) Running 0 false FRUnknown;
    EvWrite (OSeq 0 0) Running 0 false FRUnknown; EvWrite (OAct (ASeq 0 0 0)) Running 0 false FRUnknown;
    EvStart (ASeq 0 0 0); EvEnd (ASeq 0 0 0) OPerm; EvWrite (OAct (ASeq 0 0 0)) Running 1 false FRUnknown;
    EvWrite (OAct (ASeq 0 0 0)) Failed 1 false FRUnknown; EvWrite (OSeq 0 0) Failed 0 false FRUnknown;
    EvWrite (OSeq 0 1) Running 0 false FRUnknown ].
Example bad_conc1_goes_on : mon_tol_diag (sh_c1, tr_c1) = [3; 9] /\ accepts sh_c1 tr_c1 = false.
Proof. vm_compute. split; reflexivity. Qed.
(* ... while under tolerance 1 the same prefix is fine *)
Example conc1_tolerated : mon_tol_diag (with_tol_conc sh_c1 1 1, tr_c1) = [0].
Proof. vm_compute. reflexivity. Qed.

(* the hypotheses of c03_tolerance are satisfiable on a multi-block trace with a failure *)
Example hypotheses_satisfiable : shape_wf sh_t208 = true /\ run sh_t208 PlanSM.init tr_t208 <> None.
Proof. split; [reflexivity|]. vm_compute. discriminate. Qed.

(* the hypotheses of c03_block_verdict_schedule_independent are satisfiable: the deciding write of t338's block
   (index 29), with the oracle "every sequence fails": 3 would fail > tol = 0, and the write is Failed *)
Example sched_indep_hypotheses :
  let tr := firstn 29 tr_t338 in
  nth_error tr_t338 29 = Some (EvWrite (OBlock 0) Failed 0 false FRUnknown) /\
  run sh_t338 PlanSM.init (tr ++ [EvWrite (OBlock 0) Failed 0 false FRUnknown]) <> None /\
  (exists m, mon_run sh_t338 m0 tr = Some m /\ m_cur m = Some 0 /\ m_bst m = Running /\
             m_chk m = false /\ m_pcont m = false /\ m_seqs m = [QFail; QFail; QNot]) /\
  would_fail (fun _ => true) 3 = 3.
Proof.
  split; [reflexivity|]. split; [vm_compute; discriminate|]. split; [|reflexivity].
  eexists. split; [vm_compute; reflexivity|]. repeat split.
Qed.
