(* The product relation between the automaton's state and the monitor's state, and the proof that every
   accepted trace satisfies the monitor (C03). *)
From Coq Require Import Lia.
From Coercion.Base Require Import Plan.
From Coercion.Engine Require Import Shape Event Action ChecksRun Seq Block Final PlanSM Auto Accept AutoLemmas.
From Coercion.C03 Require Import MonC03 C03Lemmas InvC03 InvC03Proofs.

(* what the monitor has seen of a sequence in automaton state x *)
Definition abs (x : sst) : qst :=
  match x with SIdle => QNot | SRun _ _ | SPend _ => QRun | SDone true => QOk | SDone false => QFail end.

Lemma q_status_abs x : q_status (abs x) = sst_status x.
Proof. destruct x as [| | |[|]]; reflexivity. Qed.
Lemma q_run_abs x : q_run (abs x) = s_inflight x.
Proof. destruct x as [| | |[|]]; reflexivity. Qed.
Lemma q_fail_abs x : q_fail (abs x) = s_failed x.
Proof. destruct x as [| | |[|]]; reflexivity. Qed.
Lemma abs_inflight x : s_inflight x = true -> abs x = QRun.
Proof. destruct x as [| | |[|]]; simpl; try discriminate; reflexivity. Qed.

Lemma cnt_map_abs p q l : (forall x, q (abs x) = p x) -> cnt q (map abs l) = count p l.
Proof.
  intro H. induction l as [|x l IH]; [reflexivity|]. simpl. rewrite count_cons, H, IH. destruct (p x); reflexivity.
Qed.

Lemma qset_upd l i x : qset l i x = upd l i x.
Proof. revert i; induction l as [|y l IH]; intros [|i]; simpl; auto. now rewrite IH. Qed.

Lemma nth_map_abs l q : nth_error (map abs l) q = option_map abs (nth_error l q).
Proof. revert q; induction l as [|x l IH]; intros [|q]; simpl; auto. Qed.

Lemma in_flight_sync m b : m_seqs m = map abs (b_seqs b) -> in_flight m = inflight b.
Proof. unfold in_flight, inflight. intros ->. apply cnt_map_abs. apply q_run_abs. Qed.
Lemma n_failed_sync m b : m_seqs m = map abs (b_seqs b) -> n_failed m = failed_seqs b.
Proof. unfold n_failed, failed_seqs. intros ->. apply cnt_map_abs. apply q_fail_abs. Qed.
Lemma exceeded_sync bs m b : m_seqs m = map abs (b_seqs b) -> exceeded_m bs m = exceeded bs b.
Proof. intro H. unfold exceeded_m, exceeded. now rewrite (n_failed_sync _ _ H). Qed.
Lemma may_launch_sync bs m b : m_seqs m = map abs (b_seqs b) -> may_launch bs m = launch_guard bs b.
Proof. intro H. unfold may_launch, launch_guard. now rewrite (n_failed_sync _ _ H), (in_flight_sync _ _ H). Qed.

Ltac msimpl := cbn [m_cur m_seqs m_bst m_chk m_pcont set_seqs set_bst set_chk set_pcont enter].

Section Rel.
Variable sh : shape.

(* what the monitor remembers of its current block c agrees with the durable image *)
Record Mem (c : nat) (im : dimg) (m : mst) : Prop := {
  me_blk : exists bs, block_of sh c = Some bs;
  me_bst : m_bst m = ist im (OBlock c);
  me_seq : forall q x, nth_error (m_seqs m) q = Some x -> ist im (OSeq c q) = q_status x;
  me_act : forall q i, nth_error (m_seqs m) q = Some QNot -> ist im (OAct (ASeq c q i)) = NotStarted;
  me_chk : forall g, counts g = true -> ist im (OChecks (SBlock c) g) = Failed -> m_chk m = true;
  me_cmp : m_bst m = Completed -> m_chk m = false }.

(* the monitor's current block is the automaton's current block *)
Record Sync (im : dimg) (ph : pphase) (cb : nat) (b : bst) (m : mst) : Prop := {
  sy_cur : m_cur m = Some cb;
  sy_seqs : m_seqs m = map abs (b_seqs b);
  sy_ns : m_bst m <> NotStarted;
  sy_byp : p_byp sh im;
  sy_late : early ph = false;
  sy_dead : forall g, counts g = true -> g_dead (tget (b_g b) g) = true -> m_chk m = true;
  sy_chk : m_chk m = true -> b_cause b = true \/ exists g, counts g = true /\ g_dead (tget (b_g b) g) = true;
  sy_cause : b_cause b = true ->
             forall bs, block_of sh cb = Some bs -> exceeded_m bs m = true \/ m_chk m = true \/ m_pcont m = true }.

(* the automaton has moved on to a block of which nothing has been written yet *)
Definition Ahead (im : dimg) (ph : pphase) (cb : nat) (b : bst) (m : mst) : Prop :=
  cellsfree im cb /\ (ph = PBlocks -> b = entry sh cb) /\
  match m_cur m with
  | Some c => cb = S c /\ m_bst m = Completed
  | None => cb = 0 /\ m_bst m = NotStarted
  end.

Record RelC (im : dimg) (ph : pphase) (G : gtab) (cb : nat) (b : bst) (m : mst) : Prop := {
  r_pc1 : g_dead (t_cont G) = true -> m_pcont m = true;
  r_pc2 : ist im (OChecks SPlan GCont) = Failed -> m_pcont m = true;
  r_pl : m_bst m = Failed -> is_terminal (ist im OPlan) = true -> ist im OPlan = Failed;
  r_mem : forall c, m_cur m = Some c -> Mem c im m;
  r_mode : Sync im ph cb b m \/ Ahead im ph cb b m }.

Definition Rel (s : st) (m : mst) : Prop := RelC (s_img s) (s_ph s) (s_g s) (s_cb s) (s_b s) m.
Definition R (s : st) (m : mst) : Prop := Inv sh s /\ Rel s m.

(* in Sync mode the block invariant holds *)
Lemma sync_binv im ph G cb b m :
  InvC sh im ph G cb b -> RelC im ph G cb b m -> Sync im ph cb b m ->
  exists bs, block_of sh cb = Some bs /\ BInv bs im cb b.
Proof.
  intros [_ [[C _]|H]] HR HS; [|exact H]. exfalso.
  pose proof (r_mem _ _ _ _ _ _ HR _ (sy_cur _ _ _ _ _ HS)) as HM.
  apply (sy_ns _ _ _ _ _ HS). rewrite (me_bst _ _ _ HM). unfold ist. rewrite C by reflexivity. reflexivity.
Qed.

Lemma set_pcont_id m : m_pcont m = true -> set_pcont m = m.
Proof. destruct m; simpl; intros ->; reflexivity. Qed.
Lemma set_chk_id m : m_chk m = true -> set_chk m = m.
Proof. destruct m; simpl; intros ->; reflexivity. Qed.

Lemma obj_in_shape_block o b :
  obj_in_shape sh o = true -> obj_block o = Some b -> exists bs, block_of sh b = Some bs.
Proof.
  destruct o as [|[|b'] g|b'|b' q|[[|b'] g i|b' q i]]; simpl; try discriminate; intros H E; injection E as <-;
    unfold retries_of, group_of, seq_of, scope_groups in H; destruct (block_of sh b') eqn:Eb; eauto; discriminate.
Qed.

Lemma where_current m b : where_ m b = Current -> m_cur m = Some b.
Proof.
  unfold where_. destruct (m_cur m) as [c|]; [|discriminate]. destruct (b <? c); [discriminate|].
  destruct (Nat.eqb b c) eqn:E; [|discriminate]. apply Nat.eqb_eq in E. now subst.
Qed.

Lemma where_later m b : where_ m b = Later -> match m_cur m with Some c => c < b | None => True end.
Proof.
  unfold where_. destruct (m_cur m) as [c|]; [|trivial]. destruct (b <? c) eqn:E1; [discriminate|].
  destruct (Nat.eqb b c) eqn:E2; [discriminate|]. apply Nat.ltb_ge in E1. apply Nat.eqb_neq in E2. lia.
Qed.

Lemma later_cell0 im ph G cb b m o bk :
  InvC sh im ph G cb b -> RelC im ph G cb b m -> obj_block o = Some bk -> where_ m bk = Later -> iget im o = cell0.
Proof.
  intros [HP _] HR Ho Hw. apply where_later in Hw.
  destruct (r_mode _ _ _ _ _ _ HR) as [HS|(C & _ & HA)].
  - rewrite (sy_cur _ _ _ _ _ HS) in Hw. apply (pi_fut _ _ _ _ _ HP o bk Ho Hw).
  - destruct (m_cur m) as [c|].
    + destruct HA as [-> _]. destruct (Nat.eq_dec bk (S c)) as [->|N]; [apply C; exact Ho|].
      apply (pi_fut _ _ _ _ _ HP o bk Ho). lia.
    + destruct HA as [-> _]. destruct (Nat.eq_dec bk 0) as [->|N]; [apply C; exact Ho|].
      apply (pi_fut _ _ _ _ _ HP o bk Ho). lia.
Qed.

Lemma where_sync m cb : m_cur m = Some cb -> where_ m cb = Current.
Proof. unfold where_. intros ->. rewrite Nat.ltb_irrefl, Nat.eqb_refl. reflexivity. Qed.

Ltac later_ns :=
  match goal with
  | HI : InvC _ _ _ _ _ _, HR : RelC _ _ _ _ _ _, Ew : where_ _ ?bk = Later, Hst : ist _ ?o = ?st |- _ =>
      unfold ist in Hst; rewrite (later_cell0 _ _ _ _ _ _ o bk HI HR eq_refl Ew) in Hst; simpl in Hst;
      rewrite <- Hst; reflexivity
  end.

(* a write that repeats the durable image changes nothing for the monitor *)
Lemma stutter_mstep s m o st n ok r :
  R s m -> obj_in_shape sh o = true -> ist (s_img s) o = st -> mstep sh m (EvWrite o st n ok r) = MOk m.
Proof.
  intros [HI HR] Hin Hst. unfold Inv in HI. unfold Rel in HR.
  destruct o as [|[|bk] g|bk|bk q|[[|bk] g i|bk q i]]; cbn [mstep].
  - (* OPlan *)
    destruct (is_terminal st) eqn:Et; [|reflexivity]. destruct (status_eqb (m_bst m) Failed) eqn:Ef; [|reflexivity].
    apply status_eqb_eq in Ef. rewrite <- Hst in Et. rewrite (r_pl _ _ _ _ _ _ HR Ef Et) in Hst. subst st. reflexivity.
  - (* plan group *)
    destruct (is_cont g && status_eqb st Failed) eqn:E; [|reflexivity].
    apply andb_true_iff in E as [Eg Es]. destruct g; try discriminate. apply status_eqb_eq in Es. rewrite Es in *.
    rewrite set_pcont_id; [reflexivity|]. apply (r_pc2 _ _ _ _ _ _ HR Hst).
  - (* block group *)
    cbn [obj_block]. destruct (obj_in_shape_block _ bk Hin eq_refl) as [bs ->].
    destruct (where_ m bk) eqn:Ew; [reflexivity| |].
    + pose proof (r_mem _ _ _ _ _ _ HR _ (where_current _ _ Ew)) as HM. unfold on_group_write.
      destruct (counts g && status_eqb st Failed) eqn:E; [|reflexivity].
      apply andb_true_iff in E as [Eg Es]. apply status_eqb_eq in Es. rewrite Es in *.
      pose proof (me_chk _ _ _ HM g Eg Hst) as Hc.
      destruct (status_eqb (m_bst m) Completed) eqn:Ec.
      * apply status_eqb_eq in Ec. rewrite (me_cmp _ _ _ HM Ec) in Hc. discriminate.
      * now rewrite set_chk_id.
    + later_ns.
  - (* block *)
    cbn [obj_block]. destruct (obj_in_shape_block _ bk Hin eq_refl) as [bs ->].
    destruct (where_ m bk) eqn:Ew; [reflexivity| |].
    + pose proof (r_mem _ _ _ _ _ _ HR _ (where_current _ _ Ew)) as HM. unfold on_block_write.
      rewrite (me_bst _ _ _ HM), Hst. rewrite (proj2 (status_eqb_eq st st) eq_refl). reflexivity.
    + later_ns.
  - (* sequence *)
    cbn [obj_block]. destruct (obj_in_shape_block _ bk Hin eq_refl) as [bs ->].
    destruct (where_ m bk) eqn:Ew; [reflexivity| |].
    + pose proof (r_mem _ _ _ _ _ _ HR _ (where_current _ _ Ew)) as HM. unfold on_seq_write.
      destruct (nth_error (m_seqs m) q) as [x|] eqn:Eq; [|reflexivity].
      rewrite <- (me_seq _ _ _ HM q x Eq), Hst. rewrite (proj2 (status_eqb_eq st st) eq_refl). reflexivity.
    + later_ns.
  - (* plan check action *) reflexivity.
  - (* block check action *)
    cbn [obj_block aref_block]. destruct (obj_in_shape_block _ bk Hin eq_refl) as [bs ->].
    destruct (where_ m bk) eqn:Ew; [reflexivity|reflexivity|].
    later_ns.
  - (* sequence action *)
    cbn [obj_block aref_block]. destruct (obj_in_shape_block _ bk Hin eq_refl) as [bs ->].
    destruct (where_ m bk) eqn:Ew; [reflexivity| |].
    + pose proof (r_mem _ _ _ _ _ _ HR _ (where_current _ _ Ew)) as HM. unfold on_seq_act_write.
      destruct (nth_error (m_seqs m) q) as [[| | |]|] eqn:Eq; try reflexivity.
      rewrite <- Hst, (me_act _ _ _ HM q i Eq). reflexivity.
    + later_ns.
Qed.

Lemma stutter_R s m e : R s m -> stutter sh s e = true -> exists m', mstep_opt sh m e = Some m' /\ R s m'.
Proof.
  intros HR Hs. destruct e as [| |o st n ok r| |]; try discriminate. unfold stutter in Hs.
  apply andb_true_iff in Hs as [Hs _]. apply andb_true_iff in Hs as [Hs Hc]. apply andb_true_iff in Hs as [_ Hin].
  unfold cell_eqb in Hc. apply andb_true_iff in Hc as [Hc _]. apply andb_true_iff in Hc as [Hc _].
  apply status_eqb_eq in Hc. simpl in Hc.
  exists m. split; [|exact HR]. unfold mstep_opt. rewrite (stutter_mstep s m o st n ok r HR Hin Hc). reflexivity.
Qed.

(* ---------- epsilon-moves keep the relation (the monitor does not move) ---------- *)
Lemma once_done_facts present g dst x v :
  once_done present g dst = Some (x, v) ->
  (g_dead x = true -> g_dead g = true \/ dst = Failed) /\
  (g_dead g = true -> x = g) /\
  (v = false -> g_dead x = true).
Proof.
  intro H. destruct (once_done_spec _ _ _ _ _ H) as [(Hp & -> & ->)|(Hp & Hi & Hl & Hw & Hc)].
  - repeat split; auto. discriminate.
  - repeat split.
    + intro Hd. destruct Hc as [->|Hc]; [left; exact Hd|right; eapply gclose_dead; eauto].
    + intro Hd. destruct Hc as [->|[Ho _]]; [reflexivity|]. rewrite (idle_false_dead _ Ho) in Hd. discriminate.
    + intros ->. apply dead_last. exact Hl.
Qed.

Lemma settle_facts g dst x :
  g_settle g dst = Some x ->
  (g_dead x = true -> g_dead g = true \/ dst = Failed) /\ (g_dead g = true -> x = g).
Proof.
  intro H. destruct (g_settle_spec _ _ _ H) as [[-> _]|Hc].
  - split; auto.
  - split.
    + intro Hd. right. eapply gclose_dead; eauto.
    + intro Hd. destruct Hc as [Ho _]. rewrite (idle_false_dead _ Ho) in Hd. discriminate.
Qed.

Definition dst_of (im : dimg) (cb : nat) (g : grp) : status := ist im (OChecks (SBlock cb) g).

Record EpsFacts (bs : bshape) (im : dimg) (cb : nat) (pvis : bool) (b b' : bst) : Prop := {
  ef_seqs : b_seqs b' = b_seqs b;
  ef_new : forall g, counts g = true -> g_dead (tget (b_g b') g) = true ->
           g_dead (tget (b_g b) g) = true \/ dst_of im cb g = Failed;
  ef_mono : forall g, counts g = true -> g_dead (tget (b_g b) g) = true -> g_dead (tget (b_g b') g) = true;
  ef_cause : b_cause b = true -> b_cause b' = true;
  ef_why : b_cause b' = true ->
           b_cause b = true \/ exceeded bs b = true \/ pvis = true \/
           exists g, counts g = true /\ g_dead (tget (b_g b') g) = true }.

Lemma b_eps_facts bs im cb pvis b b' :
  b_eps bs im cb pvis b = Some (BStay b') -> EpsFacts bs im cb pvis b b'.
Proof.
  unfold b_eps. destruct (b_ph b) eqn:Eph.
  - destruct (status_eqb _ _); [|discriminate]. intro H; injection H as <-. constructor; bsimpl; auto.
  - destruct (g_bypass (bs_groups bs)).
    + destruct (once_done true (t_bypass (b_g b)) _) as [[x [|]]|]; try discriminate; intro H; injection H as <-;
        (constructor; bsimpl; auto; intros g Hc Hd; destruct g; try discriminate Hc; gred Hd; gredg; auto).
    + intro H; injection H as <-. constructor; bsimpl; auto.
  - destruct (once_done _ (t_pre (b_g b)) _) as [[x v1]|] eqn:E1; [|discriminate].
    destruct (once_done _ (t_cont (b_g b)) _) as [[y v2]|] eqn:E2; [|discriminate].
    destruct (once_done_facts _ _ _ _ _ E1) as (X1 & X2 & X3). destruct (once_done_facts _ _ _ _ _ E2) as (Y1 & Y2 & Y3).
    assert (Hnew : forall g, counts g = true -> g_dead (tget (tset (tset (b_g b) GPre x) GCont y) g) = true ->
                   g_dead (tget (b_g b) g) = true \/ dst_of im cb g = Failed).
    { intros g Hc Hd. destruct g; try discriminate Hc; gred Hd; auto. }
    assert (Hmono : forall g, counts g = true -> g_dead (tget (b_g b) g) = true ->
                    g_dead (tget (tset (tset (b_g b) GPre x) GCont y) g) = true).
    { intros g Hc Hd. destruct g; try discriminate Hc; gredg; auto.
      - rewrite (X2 Hd). exact Hd.
      - rewrite (Y2 Hd). exact Hd. }
    destruct (v1 && v2) eqn:Ev; intro H; injection H as <-; constructor; bsimpl; auto.
    intros _. right; right; right. apply andb_false_iff in Ev as [->| ->].
    + exists GPre. split; [reflexivity|]. gredg. auto.
    + exists GCont. split; [reflexivity|]. gredg. auto.
  - destruct (negb _); [discriminate|]. destruct (exceeded bs b) eqn:Ex.
    + intro H; injection H as <-. constructor; bsimpl; auto.
    + destruct (all_started b).
      * intro H; injection H as <-. constructor; bsimpl; auto.
      * destruct pvis; simpl.
        -- intro H; injection H as <-. constructor; bsimpl; auto.
        -- destruct (thr_live (b_thr b) && g_dead (t_cont (b_g b))) eqn:Ed; [|discriminate].
           intro H; injection H as <-. constructor; bsimpl; auto.
           intros _. right; right; right. exists GCont. split; [reflexivity|].
           apply andb_true_iff in Ed as [_ Ed]. exact Ed.
  - destruct (once_done _ (t_post (b_g b)) _) as [[x v]|] eqn:E1; [|discriminate].
    destruct (once_done_facts _ _ _ _ _ E1) as (X1 & X2 & X3).
    intro H; injection H as <-. constructor; bsimpl.
    + reflexivity.
    + intros g Hc Hd. destruct g; try discriminate Hc; gred Hd; auto.
    + intros g Hc Hd. destruct g; try discriminate Hc; gredg; auto. rewrite (X2 Hd). exact Hd.
    + intros ->. reflexivity.
    + intro A. apply orb_true_iff in A as [A|A]; [left; exact A|].
      right; right; right. exists GPost. split; [reflexivity|]. gredg. apply X3. destruct v; [discriminate|reflexivity].
  - destruct (once_done _ (t_deferred (b_g b)) _) as [[x v]|] eqn:E1; [|discriminate].
    destruct (once_done_facts _ _ _ _ _ E1) as (X1 & X2 & X3).
    intro H; injection H as <-. constructor; bsimpl.
    + reflexivity.
    + intros g Hc Hd. destruct g; try discriminate Hc; gred Hd; auto.
    + intros g Hc Hd. destruct g; try discriminate Hc; gredg; auto. rewrite (X2 Hd). exact Hd.
    + intros ->. reflexivity.
    + intro A. apply orb_true_iff in A as [A|A]; [left; exact A|].
      right; right; right. exists GDeferred. split; [reflexivity|]. gredg. apply X3. destruct v; [discriminate|reflexivity].
  - destruct (thr_live (b_thr b)).
    + destruct (g_settle (t_cont (b_g b)) _) as [x|] eqn:Es; [|discriminate].
      destruct (settle_facts _ _ _ Es) as (X1 & X2).
      intro H; injection H as <-. constructor; bsimpl.
      * reflexivity.
      * intros g Hc Hd. destruct g; try discriminate Hc; gred Hd; auto.
      * intros g Hc Hd. destruct g; try discriminate Hc; gredg; auto. rewrite (X2 Hd). exact Hd.
      * intros ->. reflexivity.
      * intro A. apply orb_true_iff in A as [A|A]; [left; exact A|].
        right; right; right. exists GCont. split; [reflexivity|]. gredg. exact A.
    + destruct (status_eqb _ _); discriminate.
Qed.

Lemma b_eps_sync bs im ph cb pvis b b' m :
  block_of sh cb = Some bs -> Mem cb im m -> (pvis = true -> m_pcont m = true) ->
  Sync im ph cb b m -> b_eps bs im cb pvis b = Some (BStay b') -> Sync im ph cb b' m.
Proof.
  intros Hbs HM Hpv [S1 S2 S3 S4 S5 S6 S7 S8] He.
  destruct (b_eps_facts _ _ _ _ _ _ He) as [F1 F2 F3 F4 F5].
  assert (D' : forall g, counts g = true -> g_dead (tget (b_g b') g) = true -> m_chk m = true).
  { intros g Hc Hd. destruct (F2 g Hc Hd) as [A|A]; [eauto|]. eapply (me_chk _ _ _ HM); eauto. }
  constructor; auto.
  - now rewrite F1.
  - intro Hc. destruct (S7 Hc) as [A|(g & Hg & Hd)]; [left; auto|right; exists g; auto].
  - intros Hc bs' Hbs'. assert (bs' = bs) by congruence. subst bs'.
    destruct (F5 Hc) as [A|[A|[A|(g & Hg & Hd)]]].
    + eauto.
    + left. rewrite (exceeded_sync _ _ _ S2). exact A.
    + right; right. auto.
    + right; left. eauto.
Qed.

Lemma RelC_plan_move im ph ph' G G' cb b m :
  RelC im ph G cb b m ->
  (g_dead (t_cont G') = true -> m_pcont m = true) ->
  (early ph' = true -> early ph = true) -> (ph' = PBlocks -> ph = PBlocks) ->
  RelC im ph' G' cb b m.
Proof.
  intros [R1 R2 R3 R4 R5] Hd He Hb. constructor; auto.
  destruct R5 as [[S1 S2 S3 S4 S5 S6 S7 S8]|(C & E & A)].
  - left. constructor; auto. destruct (early ph') eqn:E; [|reflexivity]. rewrite (He eq_refl) in S5. discriminate.
  - right. split; [exact C|]. split; [|exact A]. auto.
Qed.

Lemma eps_R s m s1 : R s m -> eps sh s = Some s1 -> R s1 m.
Proof.
  intros [HI HR] He. split; [eapply eps_inv; eauto|].
  pose proof HR as [R1 R2 R3 R4 R5]. unfold Rel in *. unfold Inv in HI.
  assert (Hset : forall x, g_settle (t_cont (s_g s)) (ist (s_img s) (OChecks SPlan GCont)) = Some x ->
                           g_dead x = true -> m_pcont m = true).
  { intros x Hs Hd. destruct (settle_facts _ _ _ Hs) as [A _]. destruct (A Hd); auto. }
  assert (Honce : forall p x v, once_done p (t_cont (s_g s)) (ist (s_img s) (OChecks SPlan GCont)) = Some (x, v) ->
                                g_dead x = true -> m_pcont m = true).
  { intros p x v Hs Hd. destruct (once_done_facts _ _ _ _ _ Hs) as [A _]. destruct (A Hd); auto. }
  revert He. unfold eps, p_eps. destruct (s_ph s) eqn:Eph.
  - destruct (status_eqb _ _); [|discriminate]. intro H; injection H as <-. ssimpl.
    eapply RelC_plan_move; [exact HR|exact R1|auto|discriminate].
  - destruct (g_bypass (sh_groups sh)).
    + destruct (once_done true _ _) as [[x [|]]|]; try discriminate; intro H; injection H as <-; ssimpl;
        (eapply RelC_plan_move; [exact HR|exact R1|auto; discriminate|discriminate]).
    + intro H; injection H as <-. ssimpl. eapply RelC_plan_move; [exact HR|exact R1|auto|discriminate].
  - destruct (once_done _ (t_pre (s_g s)) _) as [[x v1]|] eqn:E1; [|discriminate].
    destruct (once_done _ (t_cont (s_g s)) _) as [[y v2]|] eqn:E2; [|discriminate].
    destruct (v1 && v2); intro H; injection H as <-.
    + match goal with |- context [enter_block sh ?s0 0] =>
        destruct (enter_block_proj sh s0 0) as (Ei & Ep & Eg & _ & Ec & Eb) end.
      ssimpl. rewrite Ei, Eg, Ec, Eb. ssimpl.
      destruct HI as [HP _]. destruct (pi_early _ _ _ _ _ HP eq_refl) as [Ecb Cf].
      destruct R5 as [HS|(C & E & A)]; [pose proof (sy_late _ _ _ _ _ HS) as A; discriminate A|].
      constructor; auto.
      * gredg. eauto.
      * right. split; [exact Cf|]. split; [reflexivity|]. rewrite Ecb in A. destruct (m_cur m); [destruct A; discriminate|exact A].
    + ssimpl. eapply RelC_plan_move; [exact HR| |discriminate|discriminate]. gredg. eauto.
  - destruct (block_of sh (s_cb s)) as [bs|] eqn:Ebs.
    + destruct (b_eps bs (s_img s) (s_cb s) (p_visible s) (s_b s)) as [[b'|[|]]|] eqn:Eb; try discriminate;
        intro H; injection H as <-.
      * (* BStay *)
        ssimpl. rewrite Eph. constructor; auto.
        destruct R5 as [HS|(C & E & A)].
        -- left. eapply b_eps_sync; [exact Ebs|apply R4; apply (sy_cur _ _ _ _ _ HS)| |exact HS|exact Eb].
           unfold p_visible. intro A. apply andb_true_iff in A as [_ A]. auto.
        -- exfalso. rewrite (E eq_refl), (entry_some _ _ _ Ebs) in Eb. unfold b_eps in Eb. simpl in Eb.
           unfold ist in Eb. rewrite C in Eb by reflexivity. discriminate.
      * (* failed block *)
        ssimpl. eapply RelC_plan_move; [exact HR|exact R1|discriminate|discriminate].
      * (* next block *)
        destruct (enter_block_proj sh s (S (s_cb s))) as (Ei & Ep & Eg & _ & Ec & Ebb).
        rewrite Ei, Ep, Eg, Ec, Ebb, Eph.
        destruct (b_eps_finished _ _ _ _ _ _ Eb) as (F1 & F2 & F3 & F4). rewrite <- F3 in F4.
        destruct HI as [HP HBk].
        destruct R5 as [HS|(C & E & A)].
        -- constructor; auto. right. split; [|split; [reflexivity|]].
           ++ intros o Ho. apply (pi_fut _ _ _ _ _ HP o _ Ho). lia.
           ++ rewrite (sy_cur _ _ _ _ _ HS). split; [reflexivity|].
              rewrite (me_bst _ _ _ (R4 _ (sy_cur _ _ _ _ _ HS))). exact F4.
        -- exfalso. rewrite (E eq_refl), (entry_some _ _ _ Ebs) in F1. discriminate.
    + intro H; injection H as <-. ssimpl. eapply RelC_plan_move; [exact HR|exact R1|discriminate|discriminate].
  - destruct (thr_live (s_thr s)).
    + destruct (g_settle (t_cont (s_g s)) _) as [x|] eqn:Es; [|discriminate].
      intro H; injection H as <-. destruct (g_dead x) eqn:Ed; ssimpl.
      * eapply RelC_plan_move; [exact HR| |discriminate|discriminate]. gredg. eauto.
      * rewrite Eph. eapply RelC_plan_move; [exact HR| |auto|auto]. gredg. congruence.
    + destruct (once_done _ (t_post (s_g s)) _) as [[x v]|]; [|discriminate].
      intro H; injection H as <-. ssimpl. eapply RelC_plan_move; [exact HR|exact R1|discriminate|discriminate].
  - destruct (thr_live (s_thr s)).
    + destruct (g_settle (t_cont (s_g s)) _) as [x|] eqn:Es; [|discriminate].
      intro H; injection H as <-. ssimpl. rewrite Eph. eapply RelC_plan_move; [exact HR| |auto|auto]. gredg. eauto.
    + destruct (once_done _ (t_deferred (s_g s)) _) as [[x v]|]; [|discriminate].
      intro H; injection H as <-. ssimpl. eapply RelC_plan_move; [exact HR|exact R1|discriminate|discriminate].
  - discriminate.
  - discriminate.
Qed.

(* ---------- the monitor's answer to the events of one action ---------- *)
Lemma mstep_plan_chk_event g i e w m : act_event (AChk SPlan g i) e w -> mstep sh m e = MOk m.
Proof. intro H. destruct H as [|o|st n ok r]; [reflexivity|destruct o; reflexivity|reflexivity]. Qed.

Lemma mstep_block_chk_event cb bs g i e w m :
  act_event (AChk (SBlock cb) g i) e w -> block_of sh cb = Some bs -> m_cur m = Some cb -> mstep sh m e = MOk m.
Proof.
  intros H Hbs Hc. pose proof (where_sync _ _ Hc) as Hw.
  destruct H as [|o|st n ok r].
  - cbn [mstep on_plugin aref_block]. rewrite Hbs, Hw. reflexivity.
  - destruct o; cbn [mstep on_plugin aref_block]; rewrite ?Hbs, ?Hw; reflexivity.
  - cbn [mstep obj_block aref_block]. rewrite Hbs, Hw. reflexivity.
Qed.

Lemma mstep_seq_event cb bs q i e w m :
  act_event (ASeq cb q i) e w -> block_of sh cb = Some bs -> m_cur m = Some cb ->
  nth_error (m_seqs m) q = Some QRun -> halted bs m = false -> mstep sh m e = MOk m.
Proof.
  intros H Hbs Hc Hq Hh. pose proof (where_sync _ _ Hc) as Hw.
  destruct H as [|o|st n ok r].
  - cbn [mstep on_plugin aref_block]. rewrite Hbs, Hw. unfold on_seq_plugin. rewrite Hq, Hh. reflexivity.
  - destruct o; cbn [mstep on_plugin aref_block]; rewrite ?Hbs, ?Hw; unfold on_seq_plugin; rewrite ?Hq, ?Hh; reflexivity.
  - cbn [mstep obj_block aref_block]. rewrite Hbs, Hw. unfold on_seq_act_write. rewrite Hq. reflexivity.
Qed.

(* ---------- transport of the relation ---------- *)
Lemma Mem_img c im im' m :
  ist im' (OBlock c) = ist im (OBlock c) ->
  (forall q, ist im' (OSeq c q) = ist im (OSeq c q)) ->
  (forall q i, nth_error (m_seqs m) q = Some QNot -> ist im' (OAct (ASeq c q i)) = ist im (OAct (ASeq c q i))) ->
  (forall g, ist im' (OChecks (SBlock c) g) = ist im (OChecks (SBlock c) g)) ->
  Mem c im m -> Mem c im' m.
Proof.
  intros H1 H2 H3 H4 [M1 M2 M3 M4 M5 M6]. constructor; auto.
  - now rewrite H1.
  - intros q x Hq. rewrite H2. auto.
  - intros q i Hq. rewrite H3 by exact Hq. auto.
  - intros g Hc. rewrite H4. apply M5. exact Hc.
Qed.

Lemma Mem_blockfree c im im' m :
  (forall o, obj_block o = Some c -> iget im' o = iget im o) -> Mem c im m -> Mem c im' m.
Proof.
  intro H. apply Mem_img; unfold ist; intros; rewrite H; reflexivity.
Qed.

Lemma Mem_m c im m m' :
  m_seqs m' = m_seqs m -> m_bst m' = m_bst m -> m_chk m' = m_chk m -> Mem c im m -> Mem c im m'.
Proof. intros E1 E2 E3 [M1 M2 M3 M4 M5 M6]. constructor; rewrite ?E1, ?E2, ?E3; auto. Qed.

Lemma exceeded_m_eq bs m m' : m_seqs m' = m_seqs m -> exceeded_m bs m' = exceeded_m bs m.
Proof. intro E. unfold exceeded_m, n_failed. now rewrite E. Qed.

Lemma Sync_m im ph cb b m m' :
  m_cur m' = m_cur m -> m_seqs m' = m_seqs m -> m_bst m' = m_bst m -> m_chk m' = m_chk m ->
  (m_pcont m = true -> m_pcont m' = true) -> Sync im ph cb b m -> Sync im ph cb b m'.
Proof.
  intros E0 E1 E2 E3 E4 [S1 S2 S3 S4 S5 S6 S7 S8]. constructor; rewrite ?E0, ?E1, ?E2, ?E3; auto.
  intros Hc bs Hbs. rewrite (exceeded_m_eq bs m m' E1). destruct (S8 Hc bs Hbs) as [A|[A|A]]; auto.
Qed.

Lemma Ahead_m im ph cb b m m' : m_cur m' = m_cur m -> m_bst m' = m_bst m -> Ahead im ph cb b m -> Ahead im ph cb b m'.
Proof. intros E0 E2 (C & E & A). split; [exact C|split; [exact E|]]. rewrite E0, E2. exact A. Qed.

Lemma Sync_img im im' ph cb b m :
  ist im' (OChecks SPlan GBypass) = ist im (OChecks SPlan GBypass) -> Sync im ph cb b m -> Sync im' ph cb b m.
Proof. intros E [S1 S2 S3 S4 S5 S6 S7 S8]. constructor; auto. unfold p_byp. rewrite E. exact S4. Qed.

(* a plan-level step: the block state, the phase and every object of every block are untouched *)
Lemma RelC_plan im im' ph G G' cb b m m' :
  RelC im ph G cb b m ->
  (forall o bk, obj_block o = Some bk -> iget im' o = iget im o) ->
  (early ph = false -> ist im' (OChecks SPlan GBypass) = ist im (OChecks SPlan GBypass)) ->
  m_cur m' = m_cur m -> m_seqs m' = m_seqs m -> m_bst m' = m_bst m -> m_chk m' = m_chk m ->
  (m_pcont m = true -> m_pcont m' = true) ->
  (g_dead (t_cont G') = true -> m_pcont m' = true) ->
  (ist im' (OChecks SPlan GCont) = Failed -> m_pcont m' = true) ->
  (m_bst m' = Failed -> is_terminal (ist im' OPlan) = true -> ist im' OPlan = Failed) ->
  RelC im' ph G' cb b m'.
Proof.
  intros [R1 R2 R3 R4 R5] Hblk Hbyp E0 E1 E2 E3 E4 N1 N2 N3. constructor; auto.
  - intros c Hc. rewrite E0 in Hc. apply (Mem_m c im' m m' E1 E2 E3).
    eapply Mem_blockfree; [|apply R4; exact Hc]. intros o Ho. eapply Hblk; eauto.
  - destruct R5 as [HS|HA].
    + left. apply (Sync_m im' ph cb b m m' E0 E1 E2 E3 E4). apply (Sync_img im im'); [|exact HS].
      apply Hbyp. apply (sy_late _ _ _ _ _ HS).
    + right. apply (Ahead_m im' ph cb b m m' E0 E2). destruct HA as (C & E & A). split; [|split; assumption].
      intros o Ho. rewrite (Hblk o cb Ho). auto.
Qed.

(* a step of the current block *)
Lemma RelC_block im im' ph G cb b b' m m' :
  RelC im ph G cb b m ->
  ist im' (OChecks SPlan GCont) = ist im (OChecks SPlan GCont) -> ist im' OPlan = ist im OPlan ->
  m_pcont m' = m_pcont m ->
  (m_bst m' = Failed -> m_bst m = Failed \/ is_terminal (ist im OPlan) = false) ->
  m_cur m' = Some cb -> Mem cb im' m' -> Sync im' ph cb b' m' -> RelC im' ph G cb b' m'.
Proof.
  intros [R1 R2 R3 R4 R5] E1 E2 E3 Hb Hc HM HS. constructor.
  - rewrite E3. exact R1.
  - rewrite E1, E3. exact R2.
  - rewrite E2. intros A B. destruct (Hb A) as [C|C]; [auto|congruence].
  - intros c Hc'. assert (c = cb) by congruence. subst c. exact HM.
  - left. exact HS.
Qed.

Lemma may_start_not_dead bs im cb b g :
  BInv bs im cb b -> b_may_start b g = true -> g_dead (tget (b_g b) g) = false.
Proof.
  intros HB. pose proof (bi_gwf _ _ _ _ HB g) as W. unfold b_may_start. destruct g; simpl; intro H.
  1,2,4,5: apply andb_true_iff in H as [_ H]; apply Nat.eqb_eq in H; apply wf_runs0_not_dead; assumption.
  apply orb_true_iff in H as [H|H].
  - apply andb_true_iff in H as [_ H]. apply Nat.eqb_eq in H. apply wf_runs0_not_dead; assumption.
  - apply andb_true_iff in H as [H _]. apply andb_true_iff in H as [_ H]. now apply negb_true_iff in H.
Qed.

Lemma Sync_group bs im ph cb b m g x :
  BInv bs im cb b -> Sync im ph cb b m ->
  grun (tget (b_g b) g) x \/ (gopen (b_may_start b g) (tget (b_g b) g) x /\ grp_get (bs_groups bs) g <> None) ->
  Sync im ph cb (b_with_g b (tset (b_g b) g x)) m.
Proof.
  intros HB [S1 S2 S3 S4 S5 S6 S7 S8] Hx.
  assert (Hxi : g_is_idle x = false) by (destruct Hx as [[_ Hx]|[(_ & _ & Hx) _]]; exact Hx).
  assert (Hold : g_dead (tget (b_g b) g) = false).
  { destruct Hx as [[Ho _]|[(_ & Hm & _) _]]; [now apply idle_false_dead|eapply may_start_not_dead; eauto]. }
  constructor; bsimpl; auto.
  - intros g' Hc Hd. destruct (grp_eq_dec g g') as [<-|N].
    + rewrite tget_tset_same in Hd. rewrite (idle_false_dead _ Hxi) in Hd. discriminate.
    + rewrite tget_tset_other in Hd by exact N. eauto.
  - intro Hc. destruct (S7 Hc) as [A|(g' & Hg' & Hd)]; [left; exact A|right]. exists g'. split; [exact Hg'|].
    destruct (grp_eq_dec g g') as [<-|N]; [congruence|]. rewrite tget_tset_other by exact N. exact Hd.
Qed.

Lemma Mem_set_chk c im m : m_bst m <> Completed -> Mem c im m -> Mem c im (set_chk m).
Proof. intros N [M1 M2 M3 M4 M5 M6]. constructor; simpl; auto. intro A. contradiction. Qed.

Lemma Sync_gclose bs im ph cb b m g x st :
  BInv bs im cb b -> Sync im ph cb b m -> gclose st (tget (b_g b) g) x ->
  Sync im ph cb (b_with_g b (tset (b_g b) g x)) (if counts g && status_eqb st Failed then set_chk m else m).
Proof.
  intros HB [S1 S2 S3 S4 S5 S6 S7 S8] Hx. pose proof Hx as [Ho (v & Hxv & Hst)].
  assert (Hold : g_dead (tget (b_g b) g) = false) by (now apply idle_false_dead).
  destruct (counts g && status_eqb st Failed) eqn:Eq.
  - apply andb_true_iff in Eq as [Eg Es]. apply status_eqb_eq in Es.
    constructor; bsimpl; simpl; auto.
    intros _. right. exists g. split; [exact Eg|]. rewrite tget_tset_same. subst x st. destruct v; [discriminate|reflexivity].
  - constructor; bsimpl; auto.
    + intros g' Hc Hd. destruct (grp_eq_dec g g') as [<-|N].
      * rewrite tget_tset_same in Hd. rewrite Hc, (gclose_dead _ _ _ Hx Hd) in Eq. discriminate.
      * rewrite tget_tset_other in Hd by exact N. eauto.
    + intro Hc. destruct (S7 Hc) as [A|(g' & Hg' & Hd)]; [left; exact A|right]. exists g'. split; [exact Hg'|].
      destruct (grp_eq_dec g g') as [<-|N]; [congruence|]. rewrite tget_tset_other by exact N. exact Hd.
Qed.

Lemma Mem_gwrite c im m g st :
  Mem c im m -> (counts g && status_eqb st Failed = true -> m_bst m <> Completed) ->
  Mem c (iset im (OChecks (SBlock c) g) (mkcell st 0 false)) (if counts g && status_eqb st Failed then set_chk m else m).
Proof.
  intros [M1 M2 M3 M4 M5 M6] Hn.
  assert (Hm : forall m', m_seqs m' = m_seqs m -> m_bst m' = m_bst m ->
               (forall g', counts g' = true ->
                  ist (iset im (OChecks (SBlock c) g) (mkcell st 0 false)) (OChecks (SBlock c) g') = Failed -> m_chk m' = true) ->
               (m_bst m' = Completed -> m_chk m' = false) ->
               Mem c (iset im (OChecks (SBlock c) g) (mkcell st 0 false)) m').
  { intros m' E1 E2 A B. constructor; auto.
    - rewrite E2, ist_iset_other by discriminate. exact M2.
    - intros q x Hq. rewrite E1 in Hq. rewrite ist_iset_other by discriminate. auto.
    - intros q i Hq. rewrite E1 in Hq. rewrite ist_iset_other by discriminate. auto. }
  destruct (counts g && status_eqb st Failed) eqn:Eq.
  - apply Hm; simpl; auto. intro A. exfalso. apply (Hn eq_refl). exact A.
  - apply Hm; auto. intros g' Hc A. destruct (grp_eq_dec g g') as [<-|N].
    + rewrite ist_iset_same in A. simpl in A. rewrite Hc, A in Eq. discriminate.
    + rewrite ist_iset_other in A by congruence. eauto.
Qed.

Lemma not_halted bs im cb b m :
  BInv bs im cb b -> m_seqs m = map abs (b_seqs b) -> 1 <= inflight b -> halted bs m = false.
Proof.
  intros HB Hs Hi. unfold halted. destruct (Nat.eqb (bs_conc bs) 1) eqn:Ec; [|reflexivity]. simpl.
  apply Nat.eqb_eq in Ec. rewrite (exceeded_sync _ _ _ Hs). unfold exceeded.
  destruct (0 <=? bs_tol bs)%Z eqn:E0; [|reflexivity]. simpl. apply Z.leb_le in E0. apply Z.ltb_ge.
  destruct (bi_tol _ _ _ _ HB) as [A|A]; lia.
Qed.

Lemma guard_not_halted bs b m :
  m_seqs m = map abs (b_seqs b) -> launch_guard bs b = true -> halted bs m = false.
Proof.
  intros Hs Hg. destruct (launch_guard_spec _ _ Hg) as [G1 G2].
  unfold halted. destruct (Nat.eqb (bs_conc bs) 1) eqn:Ec; [|reflexivity]. simpl.
  apply Nat.eqb_eq in Ec. rewrite (exceeded_sync _ _ _ Hs). unfold exceeded.
  destruct (0 <=? bs_tol bs)%Z eqn:E0; [|reflexivity]. simpl. apply Z.leb_le in E0. apply Z.ltb_ge.
  destruct G2 as [A|A]; lia.
Qed.

Lemma bst_running bs im cb b : BInv bs im cb b -> b_ph b = BSeqs -> ist im (OBlock cb) = Running.
Proof.
  intros HB Hp. destruct (ist im (OBlock cb)) eqn:E; [| reflexivity | | |].
  - rewrite (bi_bimg_n _ _ _ _ HB E) in Hp. discriminate.
  - destruct (bi_bimg_c _ _ _ _ HB E) as [A _]. rewrite A in Hp. discriminate.
  - pose proof (bi_bimg_f _ _ _ _ HB E) as A. rewrite (bi_cause _ _ _ _ HB) in A by (rewrite Hp; reflexivity). discriminate.
  - destruct (bi_bimg_s _ _ _ _ HB E).
Qed.

(* the monitor's list after sequence q changed from y to y' *)
Lemma qset_sync b q y' : qset (map abs (b_seqs b)) q (abs y') = map abs (upd (b_seqs b) q y').
Proof. rewrite qset_upd. symmetry. apply map_upd. Qed.

Lemma Mem_seq_write c im m q x st :
  Mem c im m -> q < length (m_seqs m) -> q_status x = st -> x <> QNot ->
  Mem c (iset im (OSeq c q) (mkcell st 0 false)) (set_seqs m (qset (m_seqs m) q x)).
Proof.
  intros [M1 M2 M3 M4 M5 M6] Hlt Hst Hx. constructor; msimpl; auto.
  - intros q' x' Hq'. rewrite qset_upd in Hq'. destruct (Nat.eq_dec q q') as [<-|N].
    + rewrite nth_upd_same in Hq' by exact Hlt. injection Hq' as <-. rewrite ist_iset_same. simpl. auto.
    + rewrite nth_upd_other in Hq' by exact N. rewrite ist_iset_other by congruence. auto.
  - intros q' i Hq'. rewrite qset_upd in Hq'. destruct (Nat.eq_dec q q') as [<-|N].
    + rewrite nth_upd_same in Hq' by exact Hlt. congruence.
    + rewrite nth_upd_other in Hq' by exact N. rewrite ist_iset_other by discriminate. auto.
Qed.

Lemma Sync_seqs im ph cb b m l' lm :
  Sync im ph cb b m -> lm = map abs l' ->
  (b_cause b = true -> forall bs, block_of sh cb = Some bs -> exceeded_m bs (set_seqs m lm) = exceeded_m bs m) ->
  Sync im ph cb (b_with_seqs b l') (set_seqs m lm).
Proof.
  intros [S1 S2 S3 S4 S5 S6 S7 S8] E Hc. constructor; bsimpl; simpl; auto.
  intros A bs Hbs. rewrite (Hc A bs Hbs). auto.
Qed.

Lemma Sync_bst im ph cb b m st : Sync im ph cb b m -> st <> NotStarted -> Sync im ph cb b (set_bst m st).
Proof. intros [S1 S2 S3 S4 S5 S6 S7 S8] N. constructor; msimpl; auto. Qed.

(* the monitor's answer to a write of the current block's status that the automaton accepts *)
Lemma block_write_ok bs im ph cb b m st :
  block_of sh cb = Some bs -> BInv bs im cb b -> Mem cb im m -> Sync im ph cb b m -> b_write b st = Some b ->
  on_block_write bs m st = MOk (if status_eqb st (m_bst m) then m else set_bst m st) /\
  st <> NotStarted /\
  (status_eqb st (m_bst m) = false -> st = Completed -> m_chk m = false).
Proof.
  intros Hbs HB HM HS Hw. pose proof (sy_seqs _ _ _ _ _ HS) as Hseqs.
  unfold on_block_write. destruct (status_eqb st (m_bst m)) eqn:Eq.
  - split; [reflexivity|]. split; [|discriminate]. apply status_eqb_eq in Eq. rewrite Eq. apply (sy_ns _ _ _ _ _ HS).
  - assert (Hne : st <> m_bst m) by (intro A; rewrite A, (proj2 (status_eqb_eq _ _) eq_refl) in Eq; discriminate).
    pose proof (me_bst _ _ _ HM) as Hb. pose proof (sy_ns _ _ _ _ _ HS) as Hns.
    destruct (b_write_spec _ _ Hw) as [[-> Hp]|[[-> Hc]|(-> & Hp & Hc & Hl)]].
    + (* Running, in BEnter: the image can only be Running *)
      exfalso. apply Hne. destruct (m_bst m) eqn:Em; try reflexivity; try contradiction; symmetry in Hb.
      * destruct (bi_bimg_c _ _ _ _ HB Hb) as [A _]. congruence.
      * pose proof (bi_bimg_f _ _ _ _ HB Hb) as A. rewrite (bi_cause _ _ _ _ HB) in A by (rewrite Hp; reflexivity). discriminate.
      * destruct (bi_bimg_s _ _ _ _ HB Hb).
    + (* Failed: a cause exists *)
      assert (Hph : b_ph b <> BSeqs).
      { intro A. rewrite (bi_cause _ _ _ _ HB) in Hc by (rewrite A; reflexivity). discriminate. }
      assert (Hi : in_flight m = 0) by (rewrite (in_flight_sync _ _ Hseqs); apply (bi_quiet _ _ _ _ HB Hph)).
      destruct (m_bst m) eqn:Em; try contradiction; symmetry in Hb.
      * rewrite Hi. simpl. destruct (sy_cause _ _ _ _ _ HS Hc bs Hbs) as [A|[A|A]]; rewrite A; simpl;
          rewrite ?orb_true_r; (split; [reflexivity|split; discriminate]).
      * destruct (bi_bimg_c _ _ _ _ HB Hb) as (_ & A & _). congruence.
      * destruct (bi_bimg_s _ _ _ _ HB Hb).
    + (* Completed: BEnd, no cause, thread drained *)
      assert (Hi : in_flight m = 0).
      { rewrite (in_flight_sync _ _ Hseqs). apply (bi_quiet _ _ _ _ HB). rewrite Hp. discriminate. }
      assert (Hx : exceeded_m bs m = false).
      { rewrite (exceeded_sync _ _ _ Hseqs). apply (bi_exc _ _ _ _ HB); [rewrite Hp; reflexivity|exact Hc]. }
      assert (Hk : m_chk m = false).
      { destruct (m_chk m) eqn:Ek; [|reflexivity]. exfalso.
        destruct (sy_chk _ _ _ _ _ HS Ek) as [A|(g & Hg & Hd)]; [congruence|].
        destruct (bi_gdead _ _ _ _ HB g Hg Hd) as [A|[A|[_ A]]].
        - congruence.
        - rewrite Hp in A. destruct g; discriminate.
        - rewrite A in Hl. discriminate. }
      destruct (m_bst m) eqn:Em; try contradiction; symmetry in Hb.
      * rewrite Hi, Hx, Hk. simpl. split; [reflexivity|split; [discriminate|auto]].
      * pose proof (bi_bimg_f _ _ _ _ HB Hb). congruence.
      * destruct (bi_bimg_s _ _ _ _ HB Hb).
Qed.

Lemma map_abs_repeat n : map abs (repeat SIdle n) = repeat QNot n.
Proof. induction n; simpl; congruence. Qed.

Lemma final_failed im cb bs :
  p_byp sh im -> block_of sh cb = Some bs -> ist im (OBlock cb) = Failed -> fst (final sh (ist im)) = Failed.
Proof.
  intros Hb Hbs Hf. unfold final.
  assert (E : examine_bypass sh (ist im) = false).
  { unfold examine_bypass, gpresent. simpl. destruct (g_bypass (sh_groups sh)) eqn:Eg; [|reflexivity].
    rewrite Hb by congruence. reflexivity. }
  rewrite E. destruct (examine sh (ist im) [GPre; GCont]); [reflexivity|].
  assert (Hlt : cb < length (sh_blocks sh)) by (unfold block_of in Hbs; eapply nth_error_some_lt; eauto).
  assert (A : any_block_failed sh (ist im) = true).
  { unfold any_block_failed, block_indices. apply existsb_exists. exists cb. split; [apply in_seq; lia|].
    rewrite Hf. reflexivity. }
  rewrite A. unfold final_blocks.
  assert (B : all_blocks_completed sh (ist im) = false).
  { unfold all_blocks_completed, block_indices. destruct (forallb _ _) eqn:F; [|reflexivity].
    rewrite forallb_forall in F. specialize (F cb). rewrite Hf in F. simpl in F. symmetry. apply F. apply in_seq. lia. }
  rewrite B. reflexivity.
Qed.

Lemma mode_failed_sync im ph cb b m : m_bst m = Failed -> Sync im ph cb b m \/ Ahead im ph cb b m -> Sync im ph cb b m.
Proof.
  intros Hf [HS|(_ & _ & A)]; [exact HS|]. destruct (m_cur m); destruct A as [_ A]; congruence.
Qed.

Lemma trans_R s m e s' : R s m -> trans sh s e s' -> exists m', mstep_opt sh m e = Some m' /\ R s' m'.
Proof.
  intros [HI HR] T. assert (HI' : Inv sh s') by (eapply trans_inv; eauto).
  unfold R. unfold Rel in *. unfold mstep_opt.
  pose proof HR as [R1 R2 R3 R4 R5].
  destruct T as [g i e w x Hev Hx s' Hc|g st r x Hx s' Hc|bs g i e w x Hin Hev Hx s' Hc|bs g st r x Hin Hx s' Hc
                |bs q i e w y y' Hin Hev Hq Hy s' Hc|bs q r Hin Hp Hg Hq s' Hc|bs q v r Hin Hq s' Hc|bs st r Hin Hw s' Hc
                |st r Hw s' Hc|a s' Hc| |fin Hp Ht Ha s' Hc];
    try (destruct Hc as (Ei & Ep & Eg & _ & Ec & Eb)).
  - (* plan group, action event *)
    exists m. rewrite (mstep_plan_chk_event _ _ _ _ m Hev). split; [reflexivity|]. split; [exact HI'|].
    rewrite Ei, Ep, Eg, Ec, Eb.
    assert (Hxi : g_is_idle x = false) by (destruct Hx as [[_ Hx]|[(_ & _ & Hx) _]]; exact Hx).
    eapply RelC_plan; [exact HR| | | | | | | | | |]; auto.
    + intros o bk Ho. eapply act_event_img; [exact Hev|]. intros <-. discriminate.
    + intros _. eapply ist_after; [exact Hev|discriminate].
    + destruct g; gredg; auto. rewrite (idle_false_dead _ Hxi). discriminate.
    + erewrite ist_after; [exact R2|exact Hev|discriminate].
    + erewrite ist_after; [exact R3|exact Hev|discriminate].
  - (* plan group verdict *)
    cbn [mstep].
    assert (Hblk : forall o bk, obj_block o = Some bk ->
                   iget (iset (s_img s) (OChecks SPlan g) (mkcell st 0 false)) o = iget (s_img s) o).
    { intros o bk Ho. apply iget_iset_blk. rewrite Ho. discriminate. }
    assert (Hbyp : early (s_ph s) = false -> ist (iset (s_img s) (OChecks SPlan g) (mkcell st 0 false)) (OChecks SPlan GBypass)
                                            = ist (s_img s) (OChecks SPlan GBypass)).
    { intro El. apply ist_iset_other. intro A. injection A as ->.
      destruct Hx as [Ho _]. destruct HI as [HP _]. destruct (pinv_nonidle_bypass _ _ _ _ _ HP Ho) as [A _].
      rewrite A in El. discriminate. }
    assert (Hpl : forall m', m_bst m' = m_bst m -> m_bst m' = Failed ->
                  is_terminal (ist (iset (s_img s) (OChecks SPlan g) (mkcell st 0 false)) OPlan) = true ->
                  ist (iset (s_img s) (OChecks SPlan g) (mkcell st 0 false)) OPlan = Failed).
    { intros m' E. rewrite E. rewrite ist_iset_other by discriminate. exact R3. }
    destruct (is_cont g && status_eqb st Failed) eqn:Eq.
    + exists (set_pcont m). split; [reflexivity|]. split; [exact HI'|]. rewrite Ei, Ep, Eg, Ec, Eb.
      eapply RelC_plan; [exact HR|exact Hblk|exact Hbyp| | | | | | | |]; auto; try (apply (Hpl (set_pcont m)); reflexivity).
    + exists m. split; [reflexivity|]. split; [exact HI'|]. rewrite Ei, Ep, Eg, Ec, Eb.
      eapply RelC_plan; [exact HR|exact Hblk|exact Hbyp| | | | | | | |]; auto.
      * intro Hd. destruct g; gred Hd; auto. rewrite (gclose_dead _ _ _ Hx Hd) in Eq. discriminate.
      * intro A. destruct (obj_eqb (OChecks SPlan g) (OChecks SPlan GCont)) eqn:Eo.
        -- apply obj_eqb_eq in Eo. injection Eo as ->. rewrite ist_iset_same in A. simpl in A. rewrite A in Eq. discriminate.
        -- rewrite ist_iset_other in A; [auto|]. intro B. rewrite B in Eo. rewrite (proj2 (obj_eqb_eq _ _) eq_refl) in Eo. discriminate.
  - (* block group, action event *)
    destruct Hin as [Eph Hbs].
    destruct R5 as [HS|(C & E & A)].
    2: { exfalso. rewrite (E Eph) in Hx. rewrite entry_groups, entry_may_start in Hx.
         destruct Hx as [[Ho _]|[(_ & Hm & _) _]]; discriminate. }
    destruct (sync_binv _ _ _ _ _ _ HI HR HS) as (bs' & Hbs' & HB). assert (bs' = bs) by congruence. subst bs'.
    pose proof (sy_cur _ _ _ _ _ HS) as Hcur.
    exists m. rewrite (mstep_block_chk_event _ _ _ _ _ _ m Hev Hbs Hcur). split; [reflexivity|]. split; [exact HI'|].
    rewrite Ei, Ep, Eg, Ec, Eb.
    eapply RelC_block; [exact HR| | |reflexivity|auto|exact Hcur| |].
    + eapply ist_after; [exact Hev|discriminate].
    + eapply ist_after; [exact Hev|discriminate].
    + eapply Mem_img; [| | | |apply R4; exact Hcur].
      * eapply ist_after; [exact Hev|discriminate].
      * intro q. eapply ist_after; [exact Hev|discriminate].
      * intros q i' _. eapply ist_after; [exact Hev|discriminate].
      * intro g'. eapply ist_after; [exact Hev|discriminate].
    + eapply Sync_img; [|eapply Sync_group; eauto]. eapply ist_after; [exact Hev|discriminate].
  - (* block group verdict *)
    destruct Hin as [Eph Hbs].
    destruct R5 as [HS|(C & E & A)].
    2: { exfalso. rewrite (E Eph) in Hx. rewrite entry_groups in Hx. destruct Hx as [Ho _]. discriminate. }
    destruct (sync_binv _ _ _ _ _ _ HI HR HS) as (bs' & Hbs' & HB). assert (bs' = bs) by congruence. subst bs'.
    pose proof (sy_cur _ _ _ _ _ HS) as Hcur. pose proof (R4 _ Hcur) as HM.
    assert (Hnc : counts g && status_eqb st Failed = true -> m_bst m <> Completed).
    { intros Eq A. apply andb_true_iff in Eq as [Eg' _]. rewrite (me_bst _ _ _ HM) in A.
      destruct (bi_bimg_c _ _ _ _ HB A) as (B1 & _ & B3). destruct Hx as [Ho _].
      destruct (bi_gidle _ _ _ _ HB g Eg' Ho) as [B|[_ B]].
      - rewrite B1 in B. destruct g; discriminate.
      - rewrite B in B3. discriminate. }
    cbn [mstep obj_block]. rewrite Hbs, (where_sync _ _ Hcur). unfold on_group_write.
    exists (if counts g && status_eqb st Failed then set_chk m else m). split.
    { destruct (counts g && status_eqb st Failed) eqn:Eq; [|reflexivity].
      destruct (status_eqb (m_bst m) Completed) eqn:Em; [|reflexivity].
      apply status_eqb_eq in Em. exfalso. exact (Hnc eq_refl Em). }
    split; [exact HI'|]. rewrite Ei, Ep, Eg, Ec, Eb.
    eapply RelC_block; [exact HR| | | | | | |].
    + apply ist_iset_other. discriminate.
    + apply ist_iset_other. discriminate.
    + destruct (counts g && status_eqb st Failed); reflexivity.
    + destruct (counts g && status_eqb st Failed); simpl; auto.
    + destruct (counts g && status_eqb st Failed); exact Hcur.
    + apply Mem_gwrite; assumption.
    + eapply Sync_img; [|eapply Sync_gclose; eauto]. apply ist_iset_other. discriminate.
  - (* sequence, action event *)
    destruct Hin as [Eph Hbs].
    destruct R5 as [HS|(C & E & A)].
    2: { exfalso. rewrite (E Eph) in Hq. apply entry_seqs_idle in Hq. subst y. destruct Hy as [Hy _]. discriminate. }
    destruct (sync_binv _ _ _ _ _ _ HI HR HS) as (bs' & Hbs' & HB). assert (bs' = bs) by congruence. subst bs'.
    pose proof (sy_cur _ _ _ _ _ HS) as Hcur. pose proof (sy_seqs _ _ _ _ _ HS) as Hseqs. destruct Hy as [Hy Hy'].
    assert (Hmq : nth_error (m_seqs m) q = Some QRun).
    { rewrite Hseqs, nth_map_abs, Hq. simpl. now rewrite (abs_inflight _ Hy). }
    assert (Hh : halted bs m = false).
    { eapply not_halted; eauto. unfold inflight. eapply count_pos; eauto. }
    exists m. rewrite (mstep_seq_event _ _ _ _ _ _ m Hev Hbs Hcur Hmq Hh). split; [reflexivity|]. split; [exact HI'|].
    rewrite Ei, Ep, Eg, Ec, Eb.
    eapply RelC_block; [exact HR| | |reflexivity|auto|exact Hcur| |].
    + eapply ist_after; [exact Hev|discriminate].
    + eapply ist_after; [exact Hev|discriminate].
    + eapply Mem_img; [| | | |apply R4; exact Hcur].
      * eapply ist_after; [exact Hev|discriminate].
      * intro q'. eapply ist_after; [exact Hev|discriminate].
      * intros q' i' Hq'. eapply ist_after; [exact Hev|]. intro B. injection B as <- <-. congruence.
      * intro g'. eapply ist_after; [exact Hev|discriminate].
    + eapply Sync_img; [eapply ist_after; [exact Hev|discriminate]|].
      destruct HS as [S1 S2 S3 S4 S5 S6 S7 S8]. constructor; bsimpl; auto.
      rewrite S2. symmetry. eapply upd_same_map; [exact Hq|]. now rewrite (abs_inflight _ Hy), (abs_inflight _ Hy').
  - (* launch *)
    destruct Hin as [Eph Hbs].
    destruct R5 as [HS|(C & E & A)].
    2: { exfalso. rewrite (E Eph) in Hp. unfold entry in Hp. destruct (block_of sh (s_cb s)); discriminate. }
    destruct (sync_binv _ _ _ _ _ _ HI HR HS) as (bs' & Hbs' & HB). assert (bs' = bs) by congruence. subst bs'.
    pose proof (sy_cur _ _ _ _ _ HS) as Hcur. pose proof (sy_seqs _ _ _ _ _ HS) as Hseqs. pose proof (R4 _ Hcur) as HM.
    assert (Hmq : nth_error (m_seqs m) q = Some QNot) by (rewrite Hseqs, nth_map_abs, Hq; reflexivity).
    assert (Hbr : m_bst m = Running) by (rewrite (me_bst _ _ _ HM); eapply bst_running; eauto).
    cbn [mstep obj_block]. rewrite Hbs, (where_sync _ _ Hcur). unfold on_seq_write. rewrite Hmq. simpl.
    rewrite Hbr. simpl. rewrite (guard_not_halted _ _ _ Hseqs Hg), (may_launch_sync _ _ _ Hseqs), Hg. simpl.
    eexists. split; [reflexivity|]. split; [exact HI'|]. rewrite Ei, Ep, Eg, Ec, Eb.
    eapply RelC_block; [exact HR| | |reflexivity| |exact Hcur| |].
    + apply ist_iset_other. discriminate.
    + apply ist_iset_other. discriminate.
    + simpl. auto.
    + apply Mem_seq_write; [exact HM|eapply nth_error_some_lt; eauto|reflexivity|discriminate].
    + eapply Sync_img; [apply ist_iset_other; discriminate|].
      apply Sync_seqs; [exact HS|rewrite Hseqs; apply (qset_sync _ q (SRun 0 AIdle))|].
      intro A. rewrite (bi_cause _ _ _ _ HB) in A by (rewrite Hp; reflexivity). discriminate.
  - (* terminal *)
    destruct Hin as [Eph Hbs].
    destruct R5 as [HS|(C & E & A)].
    2: { exfalso. rewrite (E Eph) in Hq. apply entry_seqs_idle in Hq. discriminate. }
    destruct (sync_binv _ _ _ _ _ _ HI HR HS) as (bs' & Hbs' & HB). assert (bs' = bs) by congruence. subst bs'.
    pose proof (sy_cur _ _ _ _ _ HS) as Hcur. pose proof (sy_seqs _ _ _ _ _ HS) as Hseqs. pose proof (R4 _ Hcur) as HM.
    assert (Hmq : nth_error (m_seqs m) q = Some QRun) by (rewrite Hseqs, nth_map_abs, Hq; reflexivity).
    pose proof (inflight_phase _ _ _ _ _ _ HB Hq eq_refl) as Hp.
    pose proof (BInv_terminal bs (s_img s) (s_cb s) (s_b s) q v (mkcell (verdict_status v) 0 false) HB Hq eq_refl) as HB'.
    assert (Hnew : qset (m_seqs m) q (abs (SDone v)) = map abs (upd (b_seqs (s_b s)) q (SDone v)))
      by (rewrite Hseqs; apply qset_sync).
    cbn [mstep obj_block]. rewrite Hbs, (where_sync _ _ Hcur). unfold on_seq_write. rewrite Hmq.
    exists (set_seqs m (qset (m_seqs m) q (abs (SDone v)))). split.
    { destruct v; simpl; [reflexivity|].
      assert (Hw : within_bound bs (set_seqs m (qset (m_seqs m) q QFail)) = true).
      { unfold within_bound. change QFail with (abs (SDone false)). unfold n_failed. msimpl. rewrite Hnew.
        rewrite (cnt_map_abs s_failed q_fail _ q_fail_abs).
        destruct (bi_tol _ _ _ _ HB') as [A|A].
        - apply Z.ltb_lt in A. rewrite A. reflexivity.
        - apply orb_true_iff. right. apply Z.leb_le. unfold failed_seqs in A. simpl in A. lia. }
      rewrite Hw. reflexivity. }
    split; [exact HI'|]. rewrite Ei, Ep, Eg, Ec, Eb.
    eapply RelC_block; [exact HR| | |reflexivity| |exact Hcur| |].
    + apply ist_iset_other. discriminate.
    + apply ist_iset_other. discriminate.
    + simpl. auto.
    + apply Mem_seq_write; [exact HM|eapply nth_error_some_lt; eauto| |destruct v; discriminate].
      destruct v; reflexivity.
    + eapply Sync_img; [apply ist_iset_other; discriminate|].
      apply Sync_seqs; [exact HS|exact Hnew|].
      intro A. rewrite (bi_cause _ _ _ _ HB) in A by (rewrite Hp; reflexivity). discriminate.
  - (* block write *)
    destruct Hin as [Eph Hbs]. destruct HI as [HP HBk].
    assert (Hplan : is_terminal (ist (s_img s) OPlan) = false).
    { rewrite (pi_plan _ _ _ _ _ HP) by (rewrite Eph; reflexivity). reflexivity. }
    cbn [mstep obj_block]. rewrite Hbs.
    destruct R5 as [HS|(C & E & A)].
    + (* the monitor is in this block *)
      destruct (sync_binv _ _ _ _ _ _ (conj HP HBk) HR HS) as (bs' & Hbs' & HB). assert (bs' = bs) by congruence. subst bs'.
      pose proof (sy_cur _ _ _ _ _ HS) as Hcur. pose proof (R4 _ Hcur) as HM.
      destruct (block_write_ok _ _ _ _ _ _ _ Hbs HB HM HS Hw) as (Hm & Hns & Hk).
      rewrite (where_sync _ _ Hcur), Hm.
      eexists. split; [reflexivity|]. split; [exact HI'|]. rewrite Ei, Ep, Eg, Ec, Eb.
      destruct (status_eqb st (m_bst m)) eqn:Eq.
      * apply status_eqb_eq in Eq.
        eapply RelC_block; [exact HR| | |reflexivity|auto|exact Hcur| |].
        -- apply ist_iset_other. discriminate.
        -- apply ist_iset_other. discriminate.
        -- destruct HM as [M1 M2 M3 M4 M5 M6]. constructor; auto.
           rewrite ist_iset_same. simpl. auto.
        -- eapply Sync_img; [apply ist_iset_other; discriminate|exact HS].
      * eapply RelC_block; [exact HR| | |reflexivity| |exact Hcur| |].
        -- apply ist_iset_other. discriminate.
        -- apply ist_iset_other. discriminate.
        -- intros _. right. exact Hplan.
        -- destruct HM as [M1 M2 M3 M4 M5 M6]. constructor; msimpl; auto.
           rewrite ist_iset_same. reflexivity.
        -- eapply Sync_img; [apply ist_iset_other; discriminate|]. apply Sync_bst; assumption.
    + (* the automaton is ahead: this is the block's first Running write *)
      rewrite (E Eph) in Hw. pose proof (entry_write _ _ _ Hw) as ->.
      assert (Hwh : where_ m (s_cb s) = Later).
      { unfold where_. destruct (m_cur m) as [c|]; [|reflexivity]. destruct A as [-> _].
        replace (S c <? c) with false by (symmetry; apply Nat.ltb_ge; lia).
        replace (Nat.eqb (S c) c) with false by (symmetry; apply Nat.eqb_neq; lia). reflexivity. }
      rewrite Hwh. unfold on_later_write.
      assert (Hent : match m_bst m with NotStarted | Completed => MOk (enter m (s_cb s) (length (bs_seqs bs))) | _ => MBad 11 end
                     = MOk (enter m (s_cb s) (length (bs_seqs bs)))).
      { destruct (m_cur m); destruct A as [_ ->]; reflexivity. }
      rewrite Hent. eexists. split; [reflexivity|]. split; [exact HI'|]. rewrite Ei, Ep, Eg, Ec, Eb.
      eapply RelC_block; [exact HR| | |reflexivity| |reflexivity| |].
      * apply ist_iset_other. discriminate.
      * apply ist_iset_other. discriminate.
      * msimpl. discriminate.
      * constructor; msimpl.
        -- eauto.
        -- rewrite ist_iset_same. reflexivity.
        -- intros q x Hq. apply nth_error_repeat in Hq as ->. rewrite ist_iset_other by discriminate.
           unfold ist. rewrite C by reflexivity. reflexivity.
        -- intros q i Hq. rewrite ist_iset_other by discriminate. unfold ist. rewrite C by reflexivity. reflexivity.
        -- intros g Hc. rewrite ist_iset_other by discriminate. unfold ist. rewrite C by reflexivity. discriminate.
        -- discriminate.
      * rewrite (E Eph). constructor; msimpl.
        -- reflexivity.
        -- rewrite (entry_some _ _ _ Hbs). simpl. symmetry. apply map_abs_repeat.
        -- discriminate.
        -- unfold p_byp. rewrite ist_iset_other by discriminate. apply (pi_byp _ _ _ _ _ HP). right. exact Eph.
        -- rewrite Eph. reflexivity.
        -- intros g Hc Hd. rewrite entry_groups in Hd. discriminate.
        -- discriminate.
        -- intro Hc. rewrite (entry_some _ _ _ Hbs) in Hc. discriminate.
  - (* plan write *)
    cbn [mstep].
    assert (Hok : (is_terminal st && status_eqb (m_bst m) Failed && negb (status_eqb st Failed)) = false).
    { destruct Hw as [[_ ->]|(Ee & Et & Ef)]; [reflexivity|].
      destruct (status_eqb (m_bst m) Failed) eqn:Em; [|now rewrite andb_false_r].
      apply status_eqb_eq in Em. pose proof (mode_failed_sync _ _ _ _ _ Em R5) as HS.
      destruct (sync_binv _ _ _ _ _ _ HI HR HS) as (bs & Hbs & _).
      pose proof (R4 _ (sy_cur _ _ _ _ _ HS)) as HM.
      assert (Hff : fst (final sh (ist (s_img s))) = Failed).
      { apply (final_failed _ _ _ (sy_byp _ _ _ _ _ HS) Hbs). rewrite <- (me_bst _ _ _ HM). exact Em. }
      rewrite Ef, Hff. reflexivity. }
    rewrite Hok. exists m. split; [reflexivity|]. split; [exact HI'|]. rewrite Ei, Ep, Eg, Ec, Eb.
    eapply RelC_plan; [exact HR| | | | | | | | | |]; auto.
    + intros o bk Ho. apply iget_iset_blk. rewrite Ho. discriminate.
    + rewrite ist_iset_same. simpl. intros Em Et.
      destruct (status_eqb st Failed) eqn:Es; [now apply status_eqb_eq|].
      rewrite Et, Em in Hok. simpl in Hok. discriminate.
  - (* late End *)
    exists m. split; [reflexivity|]. split; [exact HI'|]. rewrite Ei, Ep, Eg, Ec, Eb. exact HR.
  - (* read *)
    exists m. split; [reflexivity|]. split; assumption.
  - (* release *)
    cbn [mstep].
    assert (Hfin : forall o, In o (all_objs sh) -> fin_is fin o (ist (s_img s) o) = true).
    { intros o Ho. destruct (image_agrees_status _ _ _ _ _ Ha Ho) as (oc & El & Es).
      unfold fin_is, fin_status. rewrite El. simpl. rewrite Es. apply status_eqb_eq. reflexivity. }
    assert (H1 : match m_cur m with Some c => fin_is fin (OBlock c) (m_bst m) | None => true end = true).
    { destruct (m_cur m) as [c|] eqn:Ecur; [|reflexivity]. pose proof (R4 c eq_refl) as HM.
      destruct (me_blk _ _ _ HM) as [bs Hbs]. rewrite (me_bst _ _ _ HM). apply Hfin. eapply in_all_objs_block; eauto. }
    rewrite H1. simpl.
    assert (H2 : status_eqb (m_bst m) Failed && negb (fin_is fin OPlan Failed) = false).
    { destruct (status_eqb (m_bst m) Failed) eqn:Em; [|reflexivity]. apply status_eqb_eq in Em.
      rewrite <- (R3 Em Ht). rewrite (Hfin OPlan (in_all_objs_plan sh)). reflexivity. }
    rewrite H2. exists m. split; [reflexivity|]. split; [exact HI'|]. rewrite Ei, Ep, Eg, Ec, Eb.
    eapply RelC_plan_move; [exact HR|exact R1|discriminate|discriminate].
Qed.

Lemma h_R s m e s' : R s m -> handle sh s e = Some s' -> exists m', mstep_opt sh m e = Some m' /\ R s' m'.
Proof. intros HR H. eapply trans_R; [exact HR|]. apply handle_trans. exact H. Qed.

Lemma R_init : R init m0.
Proof.
  split; [apply Inv_init|]. constructor; simpl.
  - discriminate.
  - discriminate.
  - discriminate.
  - discriminate.
  - right. split; [intros o _; reflexivity|]. split; [discriminate|]. split; reflexivity.
Qed.

Lemma mon_run_mrun m tr : mon_run sh m tr = mrun mst (mstep_opt sh) m tr.
Proof. revert m; induction tr as [|e tr IH]; intro m; simpl; [reflexivity|]. destruct (mstep_opt sh m e); auto. Qed.

Lemma run_R tr s : run sh init tr = Some s -> exists m, mon_run sh m0 tr = Some m /\ R s m.
Proof.
  intro H. rewrite mon_run_mrun.
  eapply (product_run mst (mstep_opt sh) sh R); [| | |apply R_init|exact H].
  - intros s0 m s1. apply eps_R.
  - intros s0 m e s1. apply h_R.
  - intros s0 m e. apply stutter_R.
Qed.

Theorem c03_tolerance_l tr s : run sh init tr = Some s -> mon_tol (sh, tr) = true.
Proof. intro H. destruct (run_R tr s H) as (m & Hm & _). unfold mon_tol. simpl. now rewrite Hm. Qed.

Lemma c03_tolerance_wf tr s : shape_wf sh = true -> run sh init tr = Some s -> mon_tol (sh, tr) = true.
Proof. intros _. apply c03_tolerance_l. Qed.

Lemma mon_run_app m tr1 tr2 :
  mon_run sh m (tr1 ++ tr2) = match mon_run sh m tr1 with Some m1 => mon_run sh m1 tr2 | None => None end.
Proof. revert m; induction tr1 as [|e tr IH]; intro m; simpl; [reflexivity|]. destruct (mstep_opt sh m e); auto. Qed.

(* the "eventually" part: at the release the block shows the status last written for it, and the plan is Failed
   if that block Failed *)
Lemma c03_release_l tr fin s :
  run sh init (tr ++ [EvRelease fin]) = Some s ->
  exists m, mon_run sh m0 tr = Some m /\
            (forall c, m_cur m = Some c -> fin_is fin (OBlock c) (m_bst m) = true) /\
            (m_bst m = Failed -> fin_is fin OPlan Failed = true).
Proof.
  intro H. destruct (run_R _ _ H) as (m' & Hm & _). rewrite mon_run_app in Hm.
  destruct (mon_run sh m0 tr) as [m|]; [|discriminate]. exists m. split; [reflexivity|].
  simpl in Hm. unfold mstep_opt in Hm. cbn [mstep] in Hm.
  destruct (negb (match m_cur m with Some c => fin_is fin (OBlock c) (m_bst m) | None => true end)) eqn:E1; [discriminate|].
  destruct (status_eqb (m_bst m) Failed && negb (fin_is fin OPlan Failed)) eqn:E2; [discriminate|].
  apply negb_false_iff in E1. split.
  - intros c Hc. rewrite Hc in E1. exact E1.
  - intro Hf. rewrite Hf in E2. simpl in E2. now apply negb_false_iff in E2.
Qed.

End Rel.
