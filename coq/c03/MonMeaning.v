(* What acceptance by the monitor MEANS, in plain arithmetic (monitor only: holds for every trace the monitor
   accepts, whatever produced it).  With c03_tolerance this gives the headline facts of C03 for every accepted trace:
   #failed <= tol + conc at all times; a block written Failed has a cause and nothing in flight; a block written
   Completed has no cause and nothing in flight. *)
From Coq Require Import Lia.
From Coercion.Base Require Import Plan.
From Coercion.Engine Require Import Shape Event PlanSM Accept.
From Coercion.C03 Require Import MonC03 MonC03Proofs.

Definition b2n (b : bool) : nat := if b then 1 else 0.

Lemma cnt_qset p l q x y :
  nth_error l q = Some y -> cnt p (qset l q x) + b2n (p y) = cnt p l + b2n (p x).
Proof.
  revert q; induction l as [|z l IH]; intros [|q] H; simpl in H; try discriminate.
  - injection H as ->. simpl. destruct (p x), (p y); simpl; lia.
  - simpl. specialize (IH _ H). destruct (p z); simpl; lia.
Qed.

Lemma cnt_pos p l q y : nth_error l q = Some y -> p y = true -> 1 <= cnt p l.
Proof.
  revert q; induction l as [|z l IH]; intros [|q] H Hp; simpl in H; try discriminate.
  - injection H as ->. simpl. rewrite Hp. lia.
  - simpl. specialize (IH _ H Hp). lia.
Qed.

Lemma cnt_repeat_not p n : p QNot = false -> cnt p (repeat QNot n) = 0.
Proof. intro H. induction n; simpl; [reflexivity|]. now rewrite H, IHn. Qed.

Section Meaning.
Variable sh : shape.

(* what holds of the monitor's running block *)
Definition BlockOK (bs : bshape) (m : mst) : Prop :=
  ((bs_tol bs < 0)%Z \/ (Z.of_nat (n_failed m) <= bs_tol bs + Z.of_nat (bs_conc bs))%Z) /\
  (m_bst m = Failed -> in_flight m = 0 /\ (exceeded_m bs m = true \/ m_chk m = true \/ m_pcont m = true)) /\
  (m_bst m = Completed -> in_flight m = 0 /\ exceeded_m bs m = false /\ m_chk m = false).

Definition MonOK (m : mst) : Prop :=
  forall c bs, m_cur m = Some c -> block_of sh c = Some bs -> BlockOK bs m.

Lemma within_bound_spec bs m :
  within_bound bs m = true <-> (bs_tol bs < 0)%Z \/ (Z.of_nat (n_failed m) <= bs_tol bs + Z.of_nat (bs_conc bs))%Z.
Proof.
  unfold within_bound. rewrite orb_true_iff, Z.ltb_lt, Z.leb_le. reflexivity.
Qed.

Lemma BlockOK_same bs m m' :
  m_seqs m' = m_seqs m -> m_bst m' = m_bst m ->
  (m_bst m = Failed -> m_chk m = true \/ m_pcont m = true -> m_chk m' = true \/ m_pcont m' = true) ->
  (m_bst m = Completed -> m_chk m' = m_chk m) ->
  BlockOK bs m -> BlockOK bs m'.
Proof.
  intros E1 E2 Hf Hc (B1 & B2 & B3).
  assert (Ei : in_flight m' = in_flight m) by (unfold in_flight; now rewrite E1).
  assert (En : n_failed m' = n_failed m) by (unfold n_failed; now rewrite E1).
  assert (Ex : exceeded_m bs m' = exceeded_m bs m) by (unfold exceeded_m; now rewrite En).
  split; [rewrite En; exact B1|]. rewrite E2, Ei, Ex. split.
  - intro A. destruct (B2 A) as [I [X|X]]; (split; [exact I|]); [left; exact X|right; apply (Hf A X)].
  - intro A. destruct (B3 A) as (I & X & K). repeat split; auto. rewrite (Hc A). exact K.
Qed.

Lemma running_seq_not_decided bs m q :
  BlockOK bs m -> nth_error (m_seqs m) q = Some QRun -> m_bst m <> Failed /\ m_bst m <> Completed.
Proof.
  intros (_ & B2 & B3) Hq. pose proof (cnt_pos q_run _ _ _ Hq eq_refl) as Hp. unfold in_flight in *.
  split; intro A; [destruct (B2 A) as [I _]|destruct (B3 A) as [I _]]; lia.
Qed.

Lemma where_cur m b : where_ m b = Current -> m_cur m = Some b.
Proof.
  unfold where_. destruct (m_cur m) as [c|]; [|discriminate]. destruct (b <? c); [discriminate|].
  destruct (Nat.eqb b c) eqn:E; [|discriminate]. apply Nat.eqb_eq in E. now subst.
Qed.

Lemma mstep_ok m e m' : MonOK m -> mstep sh m e = MOk m' -> MonOK m'.
Proof.
  intros HM. destruct e as [a|a o|o st n ok r|snap|fin]; cbn [mstep].
  - unfold on_plugin. destruct (aref_block a) as [b|]; [|intro H; injection H as <-; exact HM].
    destruct (block_of sh b) as [bs|]; [|intro H; injection H as <-; exact HM].
    destruct (where_ m b); try (intro H; injection H as <-; exact HM); try discriminate.
    destruct a; [intro H; injection H as <-; exact HM|]. unfold on_seq_plugin.
    destruct (nth_error (m_seqs m) s) as [[| | |]|]; try discriminate; try (intro H; injection H as <-; exact HM).
    destruct (halted bs m); [discriminate|]. intro H; injection H as <-; exact HM.
  - destruct o; try (intro H; injection H as <-; exact HM);
      (unfold on_plugin; destruct (aref_block a) as [b|]; [|intro H; injection H as <-; exact HM];
       destruct (block_of sh b) as [bs|]; [|intro H; injection H as <-; exact HM];
       destruct (where_ m b); try (intro H; injection H as <-; exact HM); try discriminate;
       destruct a; [intro H; injection H as <-; exact HM|]; unfold on_seq_plugin;
       destruct (nth_error (m_seqs m) s) as [[| | |]|]; try discriminate; try (intro H; injection H as <-; exact HM);
       destruct (halted bs m); [discriminate|]; intro H; injection H as <-; exact HM).
  - destruct o as [|[|bk] g|bk|bk q|[[|bk] g i|bk q i]]; cbn [mstep obj_block aref_block].
    + (* plan *)
      destruct (_ && _); [discriminate|]. intro H; injection H as <-; exact HM.
    + (* plan group *)
      destruct (_ && _); intro H; injection H as <-; [|exact HM].
      intros c bs Hc Hbs. eapply BlockOK_same; [| | | |apply (HM c bs Hc Hbs)]; simpl; auto.
    + (* block group *)
      destruct (block_of sh bk) as [bs|] eqn:Ebk; [|intro H; injection H as <-; exact HM].
      destruct (where_ m bk) eqn:Ew.
      * intro H; injection H as <-; exact HM.
      * unfold on_group_write. destruct (counts g && status_eqb st Failed); [|intro H; injection H as <-; exact HM].
        destruct (status_eqb (m_bst m) Completed) eqn:Ec; [discriminate|]. intro H; injection H as <-.
        intros c bs' Hc Hbs'. eapply BlockOK_same; [| | | |apply (HM c bs' Hc Hbs')]; simpl; auto.
        intro A. rewrite A in Ec. discriminate.
      * unfold on_later_write. destruct st; try discriminate. intro H; injection H as <-; exact HM.
    + (* block *)
      destruct (block_of sh bk) as [bs|] eqn:Ebk; [|intro H; injection H as <-; exact HM].
      destruct (where_ m bk) eqn:Ew.
      * intro H; injection H as <-; exact HM.
      * apply where_cur in Ew. unfold on_block_write.
        destruct (status_eqb st (m_bst m)); [intro H; injection H as <-; exact HM|].
        destruct (m_bst m) eqn:Eb; try discriminate. destruct st; try discriminate.
        -- destruct (negb (Nat.eqb (in_flight m) 0)) eqn:Ei; [discriminate|].
           destruct (exceeded_m bs m || m_chk m) eqn:Ex; [discriminate|]. intro H; injection H as <-.
           apply negb_false_iff in Ei. apply Nat.eqb_eq in Ei. apply orb_false_iff in Ex as [Ex Ek].
           intros c bs' Hc Hbs'. simpl in Hc. assert (c = bk) by congruence. subst c. assert (bs' = bs) by congruence. subst bs'.
           destruct (HM bk bs Ew Ebk) as (B1 & _ & _). split; [exact B1|]. simpl. split; [discriminate|]. intros _. auto.
        -- destruct (negb (Nat.eqb (in_flight m) 0)) eqn:Ei; [discriminate|].
           destruct (exceeded_m bs m || m_chk m || m_pcont m) eqn:Ex; [|discriminate]. intro H; injection H as <-.
           apply negb_false_iff in Ei. apply Nat.eqb_eq in Ei.
           intros c bs' Hc Hbs'. simpl in Hc. assert (c = bk) by congruence. subst c. assert (bs' = bs) by congruence. subst bs'.
           destruct (HM bk bs Ew Ebk) as (B1 & _ & _). split; [exact B1|]. simpl. split; [|discriminate]. intros _.
           split; [exact Ei|]. apply orb_true_iff in Ex as [Ex|Ex]; [apply orb_true_iff in Ex as [Ex|Ex]|]; auto.
      * unfold on_later_write. destruct st; try discriminate; [intro H; injection H as <-; exact HM|].
        destruct (m_bst m); try discriminate; intro H; injection H as <-;
          (intros c bs' Hc Hbs'; simpl in Hc; assert (c = bk) by congruence; subst c; assert (bs' = bs) by congruence; subst bs';
           split; [|split; discriminate]; unfold n_failed; simpl; rewrite cnt_repeat_not by reflexivity;
           destruct (Z_lt_dec (bs_tol bs) 0); [left; assumption|right; lia]).
    + (* sequence *)
      destruct (block_of sh bk) as [bs|] eqn:Ebk; [|intro H; injection H as <-; exact HM].
      destruct (where_ m bk) eqn:Ew.
      * intro H; injection H as <-; exact HM.
      * apply where_cur in Ew. pose proof (HM bk bs Ew Ebk) as HB. unfold on_seq_write.
        destruct (nth_error (m_seqs m) q) as [x|] eqn:Eq; [|intro H; injection H as <-; exact HM].
        destruct (status_eqb st (q_status x)); [intro H; injection H as <-; exact HM|].
        destruct x; try discriminate; destruct st; try discriminate.
        -- (* start *)
           destruct (negb (status_eqb (m_bst m) Running)) eqn:Er; [discriminate|].
           destruct (halted bs m); [discriminate|]. destruct (negb (may_launch bs m)); [discriminate|].
           intro H; injection H as <-. apply negb_false_iff in Er. apply status_eqb_eq in Er.
           intros c bs' Hc Hbs'. simpl in Hc. assert (c = bk) by congruence. subst c. assert (bs' = bs) by congruence. subst bs'.
           destruct HB as (B1 & _ & _). pose proof (cnt_qset q_fail _ _ QRun _ Eq) as Hf. simpl in Hf.
           split; [unfold n_failed in *; simpl; rewrite Nat.add_0_r in Hf; rewrite Nat.add_0_r in Hf; rewrite Hf; exact B1|].
           simpl. rewrite Er. split; discriminate.
        -- (* completes *)
           intro H; injection H as <-. destruct (running_seq_not_decided _ _ _ HB Eq) as [N1 N2].
           intros c bs' Hc Hbs'. simpl in Hc. assert (c = bk) by congruence. subst c. assert (bs' = bs) by congruence. subst bs'.
           destruct HB as (B1 & _ & _). pose proof (cnt_qset q_fail _ _ QOk _ Eq) as Hf. simpl in Hf.
           split; [unfold n_failed in *; simpl; rewrite Nat.add_0_r in Hf; rewrite Nat.add_0_r in Hf; rewrite Hf; exact B1|].
           simpl. split; intro A; contradiction.
        -- (* fails *)
           destruct (within_bound bs _) eqn:Ewb; [|discriminate]. intro H; injection H as <-.
           destruct (running_seq_not_decided _ _ _ HB Eq) as [N1 N2].
           intros c bs' Hc Hbs'. simpl in Hc. assert (c = bk) by congruence. subst c. assert (bs' = bs) by congruence. subst bs'.
           split; [apply within_bound_spec; exact Ewb|]. simpl. split; intro A; contradiction.
      * unfold on_later_write. destruct st; try discriminate. intro H; injection H as <-; exact HM.
    + (* plan check action *) intro H; injection H as <-; exact HM.
    + (* block check action *)
      destruct (block_of sh bk) as [bs|] eqn:Ebk; [|intro H; injection H as <-; exact HM].
      destruct (where_ m bk) eqn:Ew; try (intro H; injection H as <-; exact HM).
      unfold on_later_write. destruct st; try discriminate. intro H; injection H as <-; exact HM.
    + (* sequence action *)
      destruct (block_of sh bk) as [bs|] eqn:Ebk; [|intro H; injection H as <-; exact HM].
      destruct (where_ m bk) eqn:Ew; try (intro H; injection H as <-; exact HM).
      * unfold on_seq_act_write. destruct (nth_error (m_seqs m) q) as [[| | |]|]; try (intro H; injection H as <-; exact HM).
        destruct (status_eqb st NotStarted); [|discriminate]. intro H; injection H as <-; exact HM.
      * unfold on_later_write. destruct st; try discriminate. intro H; injection H as <-; exact HM.
  - intro H; injection H as <-; exact HM.
  - destruct (negb _); [discriminate|]. destruct (_ && _); [discriminate|]. intro H; injection H as <-; exact HM.
Qed.

Lemma MonOK_m0 : MonOK m0.
Proof. intros c bs Hc. discriminate. Qed.

Lemma mon_run_ok tr : forall m m', MonOK m -> mon_run sh m tr = Some m' -> MonOK m'.
Proof.
  induction tr as [|e tr IH]; intros m m' HM H; simpl in H.
  - now injection H as <-.
  - unfold mstep_opt in H. destruct (mstep sh m e) as [m1|] eqn:E; [|discriminate]. eapply IH; [|exact H].
    eapply mstep_ok; eauto.
Qed.

(* every trace the monitor accepts, and every prefix of it (mon_run is prefix-closed) *)
Theorem mon_tol_means tr m : mon_run sh m0 tr = Some m -> MonOK m.
Proof. apply mon_run_ok. apply MonOK_m0. Qed.

End Meaning.

(* ... hence, for every trace the automaton accepts *)
Lemma c03_bound_and_verdict_l (sh : shape) (tr : list event) (s : st) :
  run sh init tr = Some s ->
  exists m, mon_run sh m0 tr = Some m /\
    forall c bs, m_cur m = Some c -> block_of sh c = Some bs ->
      ((bs_tol bs < 0)%Z \/ (Z.of_nat (n_failed m) <= bs_tol bs + Z.of_nat (bs_conc bs))%Z) /\
      (m_bst m = Failed -> in_flight m = 0 /\ (exceeded_m bs m = true \/ m_chk m = true \/ m_pcont m = true)) /\
      (m_bst m = Completed -> in_flight m = 0 /\ exceeded_m bs m = false /\ m_chk m = false).
Proof.
  intro H. destruct (run_R sh tr s H) as (m & Hm & _). exists m. split; [exact Hm|].
  intros c bs Hc Hbs. exact (mon_tol_means sh tr m Hm c bs Hc Hbs).
Qed.

