(* C03 - Tolerated-failure threshold stops new sequences and decides outcomes.
   Only statements, `exact`, Print Assumptions.  (Engine-level theorem c03_tolerance: being added.) *)
From Coq Require Import List ZArith Bool Arith.
From Coercion.Base Require Import Plan.
From Coercion.Limiter Require Limiter.
From Coercion.Limiter Require Mechanisms.
Import ListNotations.

(* ---- the mechanism (detailed model of ExecuteSequences with its unobservable steps, coq/limiter) ---- *)
Module Mech.
Import Limiter.
Open Scope Z_scope.

Theorem c03_mech_failed_bound : forall (c : cfg) (s : st),
  (1 <= conc c)%nat -> reach c s -> 0 <= tol c ->
  failed c s <= Z.max (Z.of_nat (F0 c)) (tol c + Z.of_nat (conc c)).
Proof. exact Mechanisms.L.limiter_failed_bound. Qed.
Print Assumptions c03_mech_failed_bound.
End Mech.
