(* C03 - Tolerated-failure threshold stops new sequences and decides outcomes.

   Only statements, `exact`, Print Assumptions.

   MonC03.mon_tol is the formal statement of the property over an observed trace (clauses [1]-[13] in the header of
   coq/c03/MonC03.v: #failed <= tol + conc; a sequence starts only under the launch condition
   I < conc /\ (tol < 0 \/ f + I <= tol + conc - 1) and only while the block is Running; with conc = 1 nothing happens
   in any sequence after the (tol+1)-th failure; sequences go NotStarted -> Running -> Completed|Failed once; a
   never-started sequence invokes nothing and is only written NotStarted; the block is written Failed only with a cause
   (f > tol >= 0, one of its pre/cont/post/deferred groups Failed, or the plan's continuous group Failed), Completed only
   without one, and only when nothing is in flight; after a Failed block no later block has any event and the plan's
   terminal write and the released plan say Failed; the released plan shows the block's last written status).

   c03_tolerance:  every trace the observable engine automaton (coq/engine: step / run / init) accepts, for EVERY shape,
   EVERY trace and EVERY interleaving, satisfies the monitor (prefix-closed form: no release needed).  Proof: product
   invariant R (MonC03Proofs.v: Sync / Ahead modes, Mem) over the reachable-state invariant Inv (InvC03.v), kept by every
   handler (through the abstract view InvC03.trans), by every epsilon-move and by stutter writes; induction on the trace
   by AutoLemmas.product_run. *)
From Coq Require Import List ZArith Bool Arith.
From Coercion.Base Require Import Plan.
From Coercion.Engine Require Import Shape Event PlanSM Accept.
From Coercion.C03 Require Import MonC03 MonC03Proofs SchedIndep MonMeaning.
From Coercion.Limiter Require Limiter LimiterExamples.
From Coercion.Limiter Require Mechanisms.
Import ListNotations.

Theorem c03_tolerance :
  forall (sh : shape) (tr : list event) (s : st),
    shape_wf sh = true -> run sh init tr = Some s -> mon_tol (sh, tr) = true.
Proof. exact c03_tolerance_wf. Qed.
Print Assumptions c03_tolerance.

(* the same without the well-formedness premise (Concurrency >= 1 is not needed for this property) *)
Theorem c03_tolerance_any_shape :
  forall (sh : shape) (tr : list event) (s : st),
    run sh init tr = Some s -> mon_tol (sh, tr) = true.
Proof. exact c03_tolerance_l. Qed.
Print Assumptions c03_tolerance_any_shape.

(* at a release: the released plan shows the running block with the status last written for it (whose writes the
   monitor has checked: Failed only with a cause, Completed only without), and the plan Failed if that block Failed *)
Theorem c03_release :
  forall (sh : shape) (tr : list event) (fin : image) (s : st),
    run sh init (tr ++ [EvRelease fin]) = Some s ->
    exists m : mst,
      mon_run sh m0 tr = Some m /\
      (forall c : nat, m_cur m = Some c -> fin_is fin (OBlock c) (m_bst m) = true) /\
      (m_bst m = Failed -> fin_is fin OPlan Failed = true).
Proof. exact c03_release_l. Qed.
Print Assumptions c03_release.

(* what acceptance by the monitor means, in plain arithmetic, for every accepted trace (and every prefix: run is
   prefix-closed): for the block m_cur the monitor is in, with f = n_failed m and I = in_flight m counted from the
   sequence writes of the trace:  f <= tol + conc;  a block written Failed has nothing in flight and a cause
   (f > tol >= 0, or one of its pre/cont/post/deferred groups written Failed, or the plan's continuous group written
   Failed);  a block written Completed has nothing in flight, f <= tol (or tol < 0) and no Failed group. *)
Theorem c03_bound_and_verdict :
  forall (sh : shape) (tr : list event) (s : st),
    run sh init tr = Some s ->
    exists m : mst, mon_run sh m0 tr = Some m /\
      forall (c : nat) (bs : bshape), m_cur m = Some c -> block_of sh c = Some bs ->
        ((bs_tol bs < 0)%Z \/ (Z.of_nat (n_failed m) <= bs_tol bs + Z.of_nat (bs_conc bs))%Z) /\
        (m_bst m = Failed -> in_flight m = 0 /\ (exceeded_m bs m = true \/ m_chk m = true \/ m_pcont m = true)) /\
        (m_bst m = Completed -> in_flight m = 0 /\ exceeded_m bs m = false /\ m_chk m = false).
Proof. exact c03_bound_and_verdict_l. Qed.
Print Assumptions c03_bound_and_verdict.

(* block_verdict_schedule_independent at the level of the observable automaton.  tr is any accepted trace (any
   schedule: order of launches and completions, interleaving with check runs, re-writes); the next event is the
   block's DECIDING write (the monitor state m after tr still shows the block Running).  If the oracle is
   action-determined - a sequence that finished, finished Failed iff fails says so - and neither a check group of the
   block nor the plan's continuous group failed, and the block was not bypassed (some sequence was started), then
   that write is Failed iff the number of sequences that WOULD fail exceeds the tolerance: the verdict does not
   depend on the schedule, although which and how many sequences actually ran does. *)
Theorem c03_block_verdict_schedule_independent :
  forall (sh : shape) (tr : list event) (c : nat) (stt : status) (n : nat) (ok : bool) (r : reason) (s : st)
         (m : mst) (bs : bshape) (fails : nat -> bool),
    run sh init (tr ++ [EvWrite (OBlock c) stt n ok r]) = Some s ->
    mon_run sh m0 tr = Some m -> m_cur m = Some c -> m_bst m = Running -> stt = Completed \/ stt = Failed ->
    block_of sh c = Some bs ->
    (forall q, nth_error (m_seqs m) q = Some QFail -> fails q = true) ->
    (forall q, nth_error (m_seqs m) q = Some QOk -> fails q = false) ->
    m_chk m = false -> m_pcont m = false ->
    (exists q x, nth_error (m_seqs m) q = Some x /\ x <> QNot) ->
    (stt = Failed <-> (0 <= bs_tol bs)%Z /\ (bs_tol bs < Z.of_nat (would_fail fails (length (bs_seqs bs))))%Z).
Proof. exact c03_block_verdict_schedule_independent_l. Qed.
Print Assumptions c03_block_verdict_schedule_independent.

(* ---- the mechanism: detailed model of ExecuteSequences WITH its unobservable steps (coq/limiter/Limiter.v:
   main loop check-exceeded / acquire-slot / spawn; worker inner re-check / run / terminal write / failures.Add /
   release-slot).  Re-stated from coq/limiter/props/Mechanisms.v, which lib/props/mech.py re-checks and ties to the
   statement order of the source on every run of this check. ---- *)
Module Mech.
Import Limiter LimiterExamples.
Open Scope Z_scope.

(* the launch condition of the monitor is what the mechanism guarantees at every sequence START *)
Theorem c03_mech_launch_guard : forall (c : cfg) (s : Limiter.st) (i : nat) (s' : Limiter.st),
  (1 <= conc c)%nat -> reach c s ->
  step c s (AWork i) = Some s' -> nth_error (wk s) i = Some WReady ->
  (in_flight s < conc c)%nat /\
  (tol c < 0 \/ failed c s + Z.of_nat (in_flight s) <= tol c + Z.of_nat (conc c) - 1).
Proof. exact Mechanisms.L.limiter_launch_guard. Qed.
Print Assumptions c03_mech_launch_guard.

(* #failed <= tol + conc at all times (max with the failures already present at entry: recovery) *)
Theorem c03_mech_failed_bound : forall (c : cfg) (s : Limiter.st),
  (1 <= conc c)%nat -> reach c s -> 0 <= tol c ->
  failed c s <= Z.max (Z.of_nat (F0 c)) (tol c + Z.of_nat (conc c)).
Proof. exact Mechanisms.L.limiter_failed_bound. Qed.
Print Assumptions c03_mech_failed_bound.

(* the bound is attained: n = 3, conc = 2, tol = 1, all sequences failing: 3 failed *)
Theorem c03_mech_failed_bound_attained :
  exists acts s tr, exec c_tight (Limiter.init c_tight) acts = Some (s, tr) /\
                    failed c_tight s = tol c_tight + Z.of_nat (conc c_tight).
Proof. exact Mechanisms.L.limiter_failed_bound_attained. Qed.
Print Assumptions c03_mech_failed_bound_attained.

(* entry failures already beyond the tolerance (recovery): nothing is ever started *)
Theorem c03_mech_precounted_exceeded_no_start : forall (c : cfg) (s : Limiter.st),
  (1 <= conc c)%nat -> reach c s -> 0 <= tol c -> tol c < Z.of_nat (F0 c) ->
  started s = 0%nat /\ failed c s = Z.of_nat (F0 c).
Proof. exact Mechanisms.L.limiter_precounted_exceeded_no_start. Qed.
Print Assumptions c03_mech_precounted_exceeded_no_start.

(* Concurrency 1: a sequence starts only with nothing in flight and at most tol failures *)
Theorem c03_mech_conc1_stops : forall (c : cfg) (s : Limiter.st) (i : nat) (s' : Limiter.st),
  (1 <= conc c)%nat -> conc c = 1%nat -> 0 <= tol c -> reach c s ->
  step c s (AWork i) = Some s' -> nth_error (wk s) i = Some WReady ->
  in_flight s = 0%nat /\ failed c s <= tol c.
Proof. exact Mechanisms.L.limiter_conc1_stops. Qed.
Print Assumptions c03_mech_conc1_stops.

(* at exit nothing is in flight, every failure is counted, and the tolerance verdict is exact *)
Theorem c03_mech_verdict : forall (c : cfg) (s : Limiter.st) (e : exitk),
  (1 <= conc c)%nat -> waits c = true -> reach c s -> pc s = MExit e ->
  in_flight s = 0%nat /\ started s = ended s /\ fcnt s = failed c s /\
  (e = ETol -> 0 <= tol c /\ tol c < failed c s) /\
  (e = EPost -> tol c < 0 \/ failed c s <= tol c) /\
  (e <> ECont -> (e = ETol <-> 0 <= tol c /\ tol c < failed c s)).
Proof. exact Mechanisms.L.limiter_verdict. Qed.
Print Assumptions c03_mech_verdict.

(* with per-sequence outcomes fixed and no continuous failure, whether the block fails for tolerance does not
   depend on the schedule: Failed iff the would-fail sequences exceed the tolerance *)
Theorem c03_mech_block_verdict_schedule_independent : forall (c : cfg) (s : Limiter.st) (e : exitk),
  (1 <= conc c)%nat -> reach c s -> pc s = MExit e -> e <> ECont ->
  (e = ETol <-> 0 <= tol c /\ tol c < Z.of_nat (F0 c) + Z.of_nat (would_fail c)).
Proof. exact Mechanisms.L.block_verdict_schedule_independent. Qed.
Print Assumptions c03_mech_block_verdict_schedule_independent.
End Mech.
